/-
  S-expressions for the line protocol between the Python harness and the Lean driver.
  Atoms are maximal runs of characters other than whitespace and parentheses.
  (The Python side escapes everything that is not [A-Za-z0-9_.:+-] in an atom.)
-/
namespace TdVerif

inductive Sexp where
  | atom (s : String)
  | list (l : List Sexp)
  deriving Repr, Inhabited

namespace Sexp

partial def toStr : Sexp → String
  | atom s => s
  | list l => "(" ++ " ".intercalate (l.map toStr) ++ ")"

instance : ToString Sexp := ⟨toStr⟩

def tokenize (s : String) : List String :=
  let rec go (cs : List Char) (cur : List Char) (acc : List String) : List String :=
    let flush (acc : List String) : List String :=
      if cur.isEmpty then acc else (String.ofList cur.reverse) :: acc
    match cs with
    | [] => (flush acc).reverse
    | c :: rest =>
      if c = '(' then go rest [] ("(" :: flush acc)
      else if c = ')' then go rest [] (")" :: flush acc)
      else if c = ' ' || c = '\t' || c = '\n' || c = '\r' then go rest [] (flush acc)
      else go rest (c :: cur) acc
  go s.toList [] []

/-- Parse a token list. Returns the parsed expression and the rest. -/
partial def parseToks : List String → Option (Sexp × List String)
  | [] => none
  | "(" :: rest =>
    let rec items (ts : List String) (acc : List Sexp) : Option (List Sexp × List String) :=
      match ts with
      | [] => none
      | ")" :: r => some (acc.reverse, r)
      | _ => match parseToks ts with
        | none => none
        | some (e, r) => items r (e :: acc)
    match items rest [] with
    | none => none
    | some (l, r) => some (list l, r)
  | ")" :: _ => none
  | t :: rest => some (atom t, rest)

def parse (s : String) : Option Sexp :=
  match parseToks (tokenize s) with
  | some (e, []) => some e
  | _ => none

def asInt? : Sexp → Option Int
  | atom s => s.toInt?
  | _ => none

def asNat? : Sexp → Option Nat
  | atom s => s.toNat?
  | _ => none

def asAtom? : Sexp → Option String
  | atom s => some s
  | _ => none

def asList? : Sexp → Option (List Sexp)
  | list l => some l
  | _ => none

/-- `none` atom or an int. -/
def asOptInt? : Sexp → Option (Option Int)
  | atom "none" => some none
  | atom s => s.toInt?.map some
  | _ => none

def ints? (l : List Sexp) : Option (List Int) := l.mapM asInt?
def nats? (l : List Sexp) : Option (List Nat) := l.mapM asNat?

def ofInt (i : Int) : Sexp := atom (toString i)
def ofNat (n : Nat) : Sexp := atom (toString n)
def ofInts (l : List Int) : Sexp := list (l.map ofInt)
def ofNats (l : List Nat) : Sexp := list (l.map ofNat)
def ofOptInt : Option Int → Sexp
  | none => atom "none"
  | some i => ofInt i
def tagged (t : String) (l : List Sexp) : Sexp := list (atom t :: l)

end Sexp
end TdVerif
