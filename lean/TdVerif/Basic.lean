def hello := "world"
