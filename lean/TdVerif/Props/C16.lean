/-
  C16 — non-tensor entries follow batch semantics: property theorems.

  Model: Model/C16NonTensor.lean (hand transcription of NonTensorData / NonTensorStack / `_stack_non_tensor` /
  `maybe_to_stack` / the lazy-stack index code, tied on the REPRESENTATION by harness/check_C16.py).
  Abstraction: `shape r`, `getAt r c` — the batch-shaped array of objects an entry stands for.
  Spec side: `srcCoord` (which source position an output position of `td[ix]` reads: our rendering of torch
  indexing for ints / slices / None / Ellipsis / at most one index list, validated against torch each run).
-/
import TdVerif.Lemmas.C16Stack
import TdVerif.Lemmas.C16Resolve
import TdVerif.Lemmas.C16Tolist
import TdVerif.Lemmas.C16AssignMain
import TdVerif.Lemmas.C16ShapeOps
import TdVerif.Lemmas.C16Permute
import TdVerif.Lemmas.C16Reshape
import TdVerif.Lemmas.C16Nested
import TdVerif.Lemmas.C16Update
import TdVerif.Lemmas.C16Storage

namespace TdVerif.Props.C16
open TdVerif.C16 TdVerif.C16.NT

variable {O : Type}

/-! ### representation vs abstraction -/

/-- a lazy stack reads member `c[d]` at the coordinate with position `d` removed (what "stacked along `d`" means) -/
theorem stack_get (ms : List (NT O)) (d : Nat) (c : List Nat) :
    getAt (.stack ms d) c = (c[d]?).bind (fun i => (ms[i]?).bind (fun m => getAt m (c.eraseIdx d))) :=
  getAt_stack ms d c

/-- `maybe_to_stack` (the promotion a write performs on a shared value): the per-position stack stands for exactly
the same array — same batch shape, same object at every coordinate -/
theorem promote_preserves (r : NT O) (hw : wf r = true) (hp : posShape (shape r)) :
    shape (maybeToStack r) = shape r ∧ ∀ c, getAt (maybeToStack r) c = getAt r c :=
  ⟨maybeToStack_shape r hw hp, maybeToStack_getAt r⟩

/-! ### stacking: `_stack_non_tensor` -/

/-- `stack_commutes`: stacking entries of one common shape along `dim` (shared or per-position result, whichever
`_stack_non_tensor` picks) gives the array whose slice `i` along `dim` is member `i` -/
theorem stack_commutes [DecidableEq O] (first : NT O) (rest : List (NT O)) (dim : Nat)
    (hs : ∀ m ∈ first :: rest, shape m = shape first) (hd : dim ≤ (shape first).length) :
    shape (stackNT true (first :: rest) dim) = (shape first).insertIdx dim (rest.length + 1)
    ∧ ∀ c, getAt (stackNT true (first :: rest) dim) c
        = (c[dim]?).bind (fun i => ((first :: rest)[i]?).bind (fun m => getAt m (c.eraseIdx dim))) :=
  ⟨stackNT_shape true first rest dim, stackNT_getAt (first :: rest) dim (shape first) hs hd⟩

/-- `shared_iff_all_equal` (capture mode): the result is ONE shared object exactly when every item is a shared
entry and all payloads are equal; otherwise it is the per-position stack of the items -/
theorem shared_iff_all_equal [DecidableEq O] (l : List (NT O)) (hne : l ≠ []) (dim : Nat) :
    ((∃ o s, stackNT true l dim = .shared o s) ↔ ∃ o, ∀ m ∈ l, sharedPayload m = some o)
    ∧ ((¬ ∃ o, ∀ m ∈ l, sharedPayload m = some o) → stackNT true l dim = .stack l dim) := by
  rcases stackNT_cases l dim with (⟨h, hno⟩ | rfl) | ⟨o, first, rest, rfl, hall, h⟩
  · refine ⟨⟨?_, fun hex => absurd hex hno⟩, fun _ => h⟩
    rintro ⟨o, s, hs⟩
    rw [h] at hs
    cases hs
  · exact absurd rfl hne
  · refine ⟨⟨fun _ => ⟨o, hall⟩, fun _ => ⟨o, _, h⟩⟩, fun hno => absurd ⟨o, hall⟩ hno⟩

/-- without capture (`set_capture_non_tensor_stack(False)`) the result is always the per-position stack -/
theorem no_capture_always_stack [DecidableEq O] (l : List (NT O)) (dim : Nat) : stackNT false l dim = .stack l dim := by
  cases l <;> simp [stackNT]

/-! ### reads -/

/-- `index_commutes` (resolved index: ints, slices, None, at most one index list, in any positions):
`td[ix]` has the batch shape torch gives the indexed array, stays well formed, and holds at every output coordinate
the object the source holds at the coordinate the index names — for every mixture of shared payloads and nested
lazy stacks (any stack dims) representing the source. -/
theorem index_commutes (r r' : NT O) (rix : List RIx) (hw : wf r = true) (hv : validIx rix (shape r) = true)
    (h : index r rix = .ok r') :
    shape r' = outShape rix ∧ wf r' = true ∧ ∀ c', getAt r' c' = (srcCoord rix c').bind (getAt r) :=
  ⟨(index_shape r rix r' hw hv h).1, (index_shape r rix r' hw hv h).2, index_getAt r rix r' hw hv h⟩

/-- the same for the index as the user writes it (negative ints, open / clipped slices, `...`, `None`): whenever the
front end accepts it, the resolved index is valid for the batch shape and `index_commutes` applies -/
theorem getitem_commutes (r r' : NT O) (ix : List Ix) (hw : wf r = true) (h : getitem r ix = .ok r') :
    ∃ rix, resolve (shape r) ix = .ok rix ∧ validIx rix (shape r) = true
      ∧ shape r' = outShape rix ∧ wf r' = true ∧ ∀ c', getAt r' c' = (srcCoord rix c').bind (getAt r) := by
  unfold getitem at h
  cases hr : resolve (shape r) ix with
  | error e => simp [hr] at h
  | ok rix =>
    simp only [hr] at h
    have hv : validIx rix (shape r) = true := by
      unfold resolve at hr
      cases he : expandEll (shape r).length ix with
      | error e => simp [he] at hr
      | ok ix' =>
        simp only [he] at hr
        exact resolveItems_valid (shape r) ix' rix hr
    exact ⟨rix, rfl, hv, index_commutes r r' rix hw hv h⟩

/-- reading never returns an object that is not in the source (corollary) -/
theorem index_no_invention (r r' : NT O) (rix : List RIx) (hw : wf r = true) (hv : validIx rix (shape r) = true)
    (h : index r rix = .ok r') (c' : List Nat) (o : O) (ho : getAt r' c' = some o) : ∃ c, getAt r c = some o := by
  rw [index_getAt r rix r' hw hv h c'] at ho
  cases hs : srcCoord rix c' with
  | none => simp [hs] at ho
  | some c => exact ⟨c, by simpa [hs] using ho⟩


/-! ### unbind, tolist -/

/-- `unbind_commutes`: `unbind(dim)` yields as many pieces as the dim is long, each well formed with the shape minus
`dim`, and piece `i` holds at `c` what the entry holds at `c` with `i` inserted at `dim` — also when the pieces have to be
re-assembled from the members' own pieces (`zip(*…)` + re-stack at the shifted stack dim). -/
theorem unbind_commutes (r : NT O) (dim : Nat) (hw : wf r = true) (hd : dim < (shape r).length) :
    (unbind r dim).length = (shape r).getD dim 0
    ∧ (∀ p ∈ unbind r dim, wf p = true ∧ shape p = (shape r).eraseIdx dim)
    ∧ ∀ (i : Nat) (c : List Nat), c.length + 1 = (shape r).length →
        ((unbind r dim)[i]?).bind (fun p => getAt p c) = getAt r (c.insertIdx dim i) :=
  unbind_spec r dim hw hd

/-- `tolist_row_major`: `tolist()` is the nested list of the payloads in batch order, one nesting level per batch
dim, whatever the representation (`dflt` is never read: every coordinate of the shape holds an object) -/
theorem tolist_row_major (dflt : O) (r : NT O) (hw : wf r = true) :
    tolist r = nestOf (getAt r) dflt (shape r) [] :=
  tolistN_spec dflt (shape r).length r hw rfl


/-- a 1-d boolean mask over a dim selects exactly its True positions, in increasing order (`mask.nonzero()`) … -/
theorem mask_true_positions (bits : List Bool) :
    (∀ i, i ∈ truePositions bits ↔ bits[i]? = some true) ∧ (truePositions bits).Pairwise (· < ·) := by
  constructor
  · intro i
    unfold truePositions
    rw [List.mem_filter, List.mem_range]
    constructor
    · rintro ⟨hi, hb⟩
      rw [List.getD_eq_getElem?_getD, List.getElem?_eq_getElem hi] at hb
      rw [List.getElem?_eq_getElem hi]
      simpa using hb
    · intro h
      obtain ⟨hi, hb⟩ := List.getElem?_eq_some_iff.mp h
      refine ⟨hi, ?_⟩
      rw [List.getD_eq_getElem?_getD, List.getElem?_eq_getElem hi]
      simpa using hb
  · unfold truePositions
    exact List.Pairwise.sublist List.filter_sublist (List.pairwise_lt_range)

/-- … and `td[…, mask, …]` IS `td[…, positions, …]`: the front end resolves a mask of the right length to the index list of
its True positions (wrong length: IndexError), so `getitem_commutes` (one advanced index, in any position, mixed with ints /
slices / None / Ellipsis) covers masks at full strength.  That the lazy-stack mask branch of the code produces the
representation of that index list is tied by the correspondence stream (≈280 mask reads and ≈140 mask writes per quick run). -/
theorem mask_resolves_to_positions (n : Nat) (s : Shape) (bits : List Bool) (r : List Ix) (rix : List RIx)
    (h : resolveItems (n :: s) (.mask bits :: r) = .ok rix) :
    bits.length = n ∧ ∃ rr, resolveItems s r = .ok rr ∧ rix = .pick (truePositions bits) :: rr := by
  simp only [resolveItems] at h
  by_cases hl : bits.length ≠ n
  · rw [if_pos hl] at h; cases h
  · rw [if_neg hl] at h
    by_cases he : truePositions bits = []
    · rw [if_pos he] at h; cases h
    · rw [if_neg he] at h
      cases hr : resolveItems s r with
      | error e => simp [hr, Except.map] at h
      | ok rr =>
        simp only [hr, Except.map] at h
        injection h with h
        exact ⟨by simpa using hl, rr, rfl, h.symm⟩

example : getitem (.stack [.shared "y" [2], .shared "x" [2], .shared "z" [2]] 0 : NT String) [.mask [true, false, true]]
    = .ok (.stack [.shared "y" [2], .shared "z" [2]] 0) := by rfl

/-! ### indexed assignment -/

/-- `setAt_commutes` (`_set_at_str`, non-tensor branch, across the shared→stack promotion): for a well-formed entry
without empty batch dims, a valid write index (ints, slices, at most one duplicate-free index list; no `None`) and a
well-formed value of the indexed shape — whatever representations entry and value have — the written entry keeps
its batch shape, stays well formed, holds at every position the index names the corresponding object of the value,
and holds everywhere else what it held before.  Both code paths are covered: "nothing to do" when the indexed part
already equals the value, promotion (`maybe_to_stack`) + lazy-stack `__setitem__` otherwise. -/
theorem setAt_commutes [DecidableEq O] (r v r' : NT O) (rix : List RIx) (hw : wf r = true) (hp : posShape (shape r))
    (hv : validIx rix (shape r) = true) (hwr : WriteIx rix) (hwv : wf v = true) (hsv : shape v = outShape rix)
    (h : setAt r rix v = .ok r') :
    shape r' = shape r ∧ wf r' = true
    ∧ (∀ c' c, srcCoord rix c' = some c → getAt r' c = getAt v c')
    ∧ (∀ c, (∀ c', srcCoord rix c' ≠ some c) → getAt r' c = getAt r c) :=
  setAt_ok r v r' rix hw hp hv hwr hwv hsv h

/-- writing never invents an object: every object of the written entry comes from the old entry or from the value -/
theorem setAt_no_invention [DecidableEq O] (r v r' : NT O) (rix : List RIx) (hw : wf r = true) (hp : posShape (shape r))
    (hv : validIx rix (shape r) = true) (hwr : WriteIx rix) (hwv : wf v = true) (hsv : shape v = outShape rix)
    (h : setAt r rix v = .ok r') (c : List Nat) (o : O) (ho : getAt r' c = some o) :
    (∃ c', getAt v c' = some o) ∨ getAt r c = some o := by
  obtain ⟨_, _, hwri, hfr⟩ := setAt_ok r v r' rix hw hp hv hwr hwv hsv h
  by_cases hex : ∃ c', srcCoord rix c' = some c
  · obtain ⟨c', hc'⟩ := hex
    exact Or.inl ⟨c', by rw [← hwri c' c hc']; exact ho⟩
  · refine Or.inr ?_
    rw [← hfr c (fun c' hc' => hex ⟨c', hc'⟩)]
    exact ho

/-! ### indexed assignment into shared-memory / memory-mapped holders (finding C16-storage-holder-write-dropped) -/

/-- the write path of a shared / memory-mapped holder (`utils._set_item`, model `storageAssign`) EXTENDS the lazy-stack write
`assign`: wherever `assign` succeeds (in particular on every fully expanded entry, where `setAt_commutes` says what it writes)
the storage path returns the same entry.  The two differ only where `assign` refuses. -/
theorem storage_write_extends_lazy_write (r v r' : NT O) (rix : List RIx) (k : Nat) (h : assign r rix v = .ok r') :
    storageAssign r rix k v = .ok r' :=
  storageAssign_of_assign r rix k v r' h

/-- … and there it is silent: a member that is a shared node (one object for a sub-batch), addressed by at least one item the caller
wrote (`k ≠ 0`; even a full slice), accepts ANY index and ANY value and stays what it was (`NonTensorData.__setitem__` keeps nothing of the value's payload). -/
theorem storage_write_shared_node_swallows (o : O) (s : Shape) (rix : List RIx) (k : Nat) (v : NT O) (hr : rix ≠ []) (hk : k ≠ 0) :
    storageAssign (.shared o s) rix k v = .ok (.shared o s) := by
  unfold storageAssign
  cases rix with
  | nil => exact absurd rfl hr
  | cons a t =>
    cases k with
    | zero => exact absurd rfl hk
    | succ n => rfl

/-- the finding, as a pinned counter-witness: on the entry [[p,p,p],[q,q,q]] stored as two shared rows, `td[0, 1] = x` through
the storage path is accepted and leaves the entry unchanged, while the ordinary path (`setAt`) puts `x` at [0, 1]. -/
theorem storage_write_dropped_counterexample :
    let r : NT String := .stack [.shared "p" [3], .shared "q" [3]] 0
    let rix : List RIx := [.fixed 0, .fixed 1]
    let v : NT String := .shared "x" []
    storageSet r rix 2 v = .ok r
    ∧ (∃ r', setAt r rix v = .ok r' ∧ getAt r' [0, 1] = some "x" ∧ getAt r [0, 1] = some "p" ∧ getAt r' [0, 0] = some "p") := by
  refine ⟨by rfl, _, by rfl, by rfl, by rfl, by rfl⟩

/-- the whole-entry assignment `td[()] = value` (and `td[...] = value` on an empty batch): the entry becomes the value -/
theorem setitem_whole [DecidableEq O] (r v : NT O) (hs : shape v = shape r) :
    ∃ r', setitem r [] v = .ok r' ∧ shape r' = shape r ∧ ∀ c, getAt r' c = getAt v c ∨ (sameContent r v = true ∧ r' = r) := by
  simp only [setitem, List.all_nil, List.isEmpty_nil, Bool.true_or, Bool.and_self, ↓reduceIte]
  by_cases h : sameContent r v = true
  · exact ⟨r, by simp [h], rfl, fun c => Or.inr ⟨h, rfl⟩⟩
  · exact ⟨v, by simp [h], hs, fun c => Or.inl rfl⟩


/-! ### shape operations on the representation -/

/-- `shapeop_commutes` (unsqueeze): a new dim of size 1 at `dim`; position 0 of it shows the old entry. The lazy stack
either shifts its stack dim (new dim at or before it) or hands the new dim to its members (after it). -/
theorem unsqueeze_commutes (r : NT O) (dim : Nat) (hw : wf r = true) (hd : dim ≤ (shape r).length) :
    wf (unsqueeze r dim) = true ∧ shape (unsqueeze r dim) = (shape r).insertIdx dim 1
    ∧ ∀ c, getAt (unsqueeze r dim) c = match c[dim]? with
        | some 0 => getAt r (c.eraseIdx dim)
        | _ => none :=
  unsqueeze_spec r dim hw hd

/-- `shapeop_commutes` (squeeze of a size-1 dim): the dim disappears, every object stays at its remaining coordinate;
squeezing the stack dim of a one-member stack returns that member. -/
theorem squeeze_commutes (r : NT O) (dim : Nat) (hw : wf r = true) (hd : dim < (shape r).length)
    (h1 : (shape r).getD dim 0 = 1) :
    wf (squeeze r dim) = true ∧ shape (squeeze r dim) = (shape r).eraseIdx dim
    ∧ ∀ c, c.length + 1 = (shape r).length → getAt (squeeze r dim) c = getAt r (c.insertIdx dim 0) :=
  squeeze_spec r dim hw hd h1

/-- `shapeop_commutes` (permute): for every permutation `p` of the dims (`p[k]` = source dim shown at output position `k`)
the result is well formed, has the permuted shape, and output coordinate `c` shows the object the entry had at the
un-permuted coordinate (`unperm p c` puts `c[k]` at source dim `p[k]`).  The lazy stack moves its stack dim to the
position where `p` lists it and hands the renumbered remaining dims to every member. -/
theorem permute_commutes (r : NT O) (p : List Nat) (hw : wf r = true) (hp : IsPerm p (shape r).length) :
    wf (permute r p) = true ∧ shape (permute r p) = p.map (fun k => (shape r).getD k 0)
    ∧ ∀ c, c.length = p.length → getAt (permute r p) c = getAt r (unperm p c) :=
  permute_spec r p hw hp

/-! ### the reshape family (`_lazy.py:_view`, `NonTensorStack.reshape`, `split` / `chunk`) -/

/-- `shapeop_commutes` (reshape), full strength: for EVERY well-formed entry (any nesting / stack dims) without a zero-size dim
and EVERY target shape, whichever branch the code takes (flatten of consecutive dims by repeated `unbind`, unflatten by
repeated `chunk`, or through the flat stack): the result is well formed, has the target shape, and two positions with the
same row-major rank hold the same object. -/
theorem reshape_commutes (r : NT O) (s' : Shape) (u : NT O) (hw : wf r = true) (hpos : 0 < prodL (shape r))
    (hpos' : 0 < prodL s') (h : reshapeNT r s' = .ok u) :
    wf u = true ∧ shape u = s'
    ∧ ∀ (c c' : List Nat), inB c (shape r) = true → inB c' s' = true → ravel c (shape r) = ravel c' s' →
        getAt u c' = getAt r c := by
  obtain ⟨h1, h2, h3⟩ := reshapeNT_spec r s' u hw hpos hpos' h
  refine ⟨h1, h2, ?_⟩
  intro c c' hc hc' he
  exact h3 c c' hc (by rw [h2]; exact hc') (by rw [h2]; exact he)

/-- … and `reshape` to a shape with the same number of elements never fails (so the statement above is not vacuous and no
branch of the code is left out) -/
theorem reshape_total (r : NT O) (s' : Shape) (hw : wf r = true) (hs' : s' ≠ []) (hr : shape r ≠ [])
    (hpos : 0 < prodL (shape r)) (hprod : prodL s' = prodL (shape r)) : ∃ u, reshapeNT r s' = .ok u :=
  reshapeNT_total r s' hw hs' hr hpos hprod

/-- `view` (and `flatten` / `unflatten`, which call it): when it does not raise it is row-major too -/
theorem view_commutes (r : NT O) (s' : Shape) (u : NT O) (hw : wf r = true) (hpos : 0 < prodL (shape r))
    (hpos' : 0 < prodL s') (h : viewNT r s' = .ok u) :
    wf u = true ∧ shape u = s'
    ∧ ∀ (c c' : List Nat), inB c (shape r) = true → inB c' s' = true → ravel c (shape r) = ravel c' s' →
        getAt u c' = getAt r c := by
  have key : wf u = true ∧ shape u = s' ∧ RowMajorSame r u := by
    cases r with
    | shared o s =>
      simp only [viewNT] at h
      split at h
      · cases h
        refine ⟨rfl, rfl, ?_⟩
        intro c c' hc hc' _
        simp only [shape] at hc hc'
        rw [getAt_shared, getAt_shared, if_pos hc, if_pos hc']
      · cases h
    | stack ms d =>
      simp only [viewNT] at h
      cases hv : viewStack (.stack ms d) s' with
      | none => rw [hv] at h; cases h
      | some u' =>
        rw [hv] at h
        cases h
        exact viewStack_spec _ _ _ hw hpos hpos' hv
  obtain ⟨h1, h2, h3⟩ := key
  refine ⟨h1, h2, ?_⟩
  intro c c' hc hc' he
  exact h3 c c' hc (by rw [h2]; exact hc') (by rw [h2]; exact he)

/-- `flatten` of the consecutive dims `i … j` in coordinates: position `k = ravel mid` of the merged dim shows what the
entry had at `mid` in those dims -/
theorem flatten_commutes (r : NT O) (i j : Nat) (hw : wf r = true) (hij : i ≤ j) (hj : j < (shape r).length)
    (hpos : 0 < prodL (((shape r).drop i).take (j + 1 - i))) :
    wf (flattenDims r i j) = true
    ∧ shape (flattenDims r i j) = (shape r).take i ++ prodL (((shape r).drop i).take (j + 1 - i)) :: (shape r).drop (j + 1)
    ∧ ∀ (pre mid post : List Nat), pre.length = i → inB mid (((shape r).drop i).take (j + 1 - i)) = true →
        (pre ++ mid ++ post).length = (shape r).length →
        getAt (flattenDims r i j) (pre ++ ravel mid (((shape r).drop i).take (j + 1 - i)) :: post) = getAt r (pre ++ mid ++ post) :=
  flatten_spec r i j hw hij hj hpos

/-- `split(n, d)` (hence `chunk`): `ceil(len / n)` pieces; piece `p` is well formed, has size `min n (len - p n)` along `d`
and shows the entry shifted by `p n` along `d` — for every piece index and coordinate, in range or not -/
theorem split_commutes (r : NT O) (n d : Nat) (hw : wf r = true) (hd : d < (shape r).length) (hn : 0 < n) :
    (splitNT r n d).length = ceilDiv ((shape r).getD d 0) n
    ∧ (∀ (p : Nat), p < ceilDiv ((shape r).getD d 0) n → ∃ t, (splitNT r n d)[p]? = some t ∧ wf t = true
        ∧ shape t = (shape r).set d (min n ((shape r).getD d 0 - p * n)))
    ∧ ∀ (p : Nat) (c : List Nat), c.length = (shape r).length →
        ((splitNT r n d)[p]?).bind (fun t => getAt t c)
          = if c.getD d 0 < n then getAt r (c.set d (c.getD d 0 + p * n)) else none :=
  split_spec r n d hw hd hn

-- non-vacuity: the three branches of `reshape` on a stack of a shared row and a promoted row
example : reshapeNT (.stack [.shared "y" [3], .stack [.shared "a" [], .shared "b" [], .shared "c" []] 0] 0 : NT String) [6]
    = .ok (.stack [.shared "y" [], .shared "y" [], .shared "y" [], .shared "a" [], .shared "b" [], .shared "c" []] 0) := by rfl
example : (reshapeNT (.stack [.shared "a" [], .shared "b" [], .shared "c" [], .shared "d" [], .shared "e" [], .shared "f" []] 0 : NT String) [2, 3]).toOption.map shape
    = some [2, 3] := by rfl
example : ((reshapeNT (.stack [.shared "y" [3], .stack [.shared "a" [], .shared "b" [], .shared "c" []] 0] 0 : NT String) [3, 2]).toOption.bind
    (fun u => getAt u [1, 1])) = some "a" := by rfl
example : ravel [1, 1] [3, 2] = 3 ∧ ravel [1, 0] [2, 3] = 3 := by decide

/-! ### nested lists: `to_dict`, the memmap / pickle rebuild (`_from_list`), `torch.cat` (`_cat_non_tensor`) -/

/-- `to_dict` of a stacked entry is the row-major nested list of its abstraction (what `TensorDict.to_dict` stores) -/
theorem to_dict_commutes (dflt : O) (ms : List (NT O)) (d : Nat) (hw : wf (.stack ms d) = true) :
    toDictNT (.stack ms d) = nestOf (getAt (.stack ms d)) dflt (shape (.stack ms d)) [] :=
  tolist_row_major dflt (.stack ms d) hw

/-- the memmap / pickle round trip of a NonTensorStack (`_memmap_` writes `tolist()`, `_load_memmap` rebuilds with
`_from_list`): for an entry of rank ≥ 1 without zero-size dim whose payloads are atoms (not python lists), rebuilding from
its nested list — with `ndim` given (`fuel = rank - 1`) or not (`fuel` large) — gives an entry of the same shape holding the
same object at every position, whatever the representation of the original was. -/
theorem from_list_roundtrip (dflt : O) (r : NT O) (fuel : Nat) (hw : wf r = true) (hr : shape r ≠ [])
    (hpos : ∀ k ∈ shape r, 0 < k) (hf : (shape r).length ≤ fuel + 1) :
    wf (fromListN fuel (tolist r).items) = true ∧ shape (fromListN fuel (tolist r).items) = shape r
    ∧ ∀ c, inB c (shape r) = true → getAt (fromListN fuel (tolist r).items) c = some (.leaf ((getAt r c).getD dflt)) := by
  rw [tolist_row_major dflt r hw]
  cases hs : shape r with
  | nil => exact absurd hs hr
  | cons n s =>
    rw [hs] at hpos hf
    rw [nestOf_items]
    obtain ⟨h1, h2, h3⟩ := fromListN_nestOf (getAt r) dflt s n fuel [] (hpos n (by simp)) (fun k hk => hpos k (by simp [hk]))
      (by simp at hf ⊢; omega)
    refine ⟨h1, h2, ?_⟩
    intro c hc
    cases c with
    | nil => simp [inB] at hc
    | cons i c' =>
      obtain ⟨hi, hc'⟩ := (inB_cons_iff i c' n s).mp hc
      simpa using h3 i c' hi hc'

/-- PROVED WITNESS of the finding C16-memmap-sequence-payload: the nested list of an entry of batch [2] whose payloads are the
LISTS [a, b] and [c, d] is rebuilt by `_from_list(data)` (no `ndim`, as `_load_memmap` calls it) as an entry of batch [2, 2]
with payloads a, b, c, d; told the rank (`ndim = 1`) it keeps the two list payloads. -/
theorem from_list_sequence_payload_counterexample :
    let data : List (Nest String) := [.list [.leaf "a", .leaf "b"], .list [.leaf "c", .leaf "d"]]
    shape (fromListN 3 data) = [2, 2] ∧ shape (fromListN 0 data) = [2]
    ∧ getAt (fromListN 0 data) [1] = some (.list [.leaf "c", .leaf "d"])
    ∧ getAt (fromListN 3 data) [1, 0] = some (.leaf "c") := by
  refine ⟨by rfl, by rfl, by rfl, by rfl⟩

/-- `torch.cat` of tensordicts on a non-tensor entry (`_cat_non_tensor`, repaired code), general branch: for entries that
agree outside dim `d` (no zero-size dim), whatever their representations, the result is well formed, has the concatenated
shape, and shows at every position the object the abstract concatenation along `d` (`catGetD`) puts there. -/
theorem cat_commutes (dflt : O) (l : List (NT O)) (pre post : Shape) (hne : l ≠ [])
    (hw : ∀ r ∈ l, wf r = true) (hsh : ∀ r ∈ l, ∃ n, 0 < n ∧ shape r = pre ++ n :: post)
    (hpre : ∀ p ∈ pre, 0 < p) (hpost : ∀ p ∈ post, 0 < p) :
    wf (catGeneral l pre.length) = true
    ∧ shape (catGeneral l pre.length) = pre ++ sumN (l.map (fun r => (shape r).getD pre.length 0)) :: post
    ∧ ∀ c, inB c (pre ++ sumN (l.map (fun r => (shape r).getD pre.length 0)) :: post) = true →
        getAt (catGeneral l pre.length) c
          = some (.leaf ((catGetD pre.length (l.map (fun r => (getAt r, (shape r).getD pre.length 0))) c).getD dflt)) := by
  have key := catGeneral_spec dflt l pre post hne hw hsh hpre hpost
  have hfuel : ((l.head?.map shape).getD []).length - 1 = pre.length + post.length := by
    obtain ⟨r0, rest, rfl⟩ := List.exists_cons_of_ne_nil hne
    obtain ⟨n, _, hs⟩ := hsh r0 (by simp)
    simp [hs]
  unfold catGeneral
  rw [hfuel]
  have e : (l.map (fun r => (getAt r, (shape r).getD pre.length 0))).map Prod.snd
      = l.map (fun r => (shape r).getD pre.length 0) := by
    rw [List.map_map]; rfl
  obtain ⟨k1, k2, k3⟩ := key
  rw [e] at k2 k3
  exact ⟨k1, k2, k3⟩

/-- … and the shared branch: items that are all one shared payload concatenate to one shared entry of the summed size -/
theorem cat_shared [DecidableEq O] (o : O) (s : Shape) (rest : List (NT O)) (d : Nat)
    (hall : rest.all (fun m => sharedPayload m == some o) = true) :
    catNT (.shared o s :: rest) d
      = .shared (.leaf o) (s.set d (sumN ((NT.shared o s :: rest).map (fun r => (shape r).getD d 0)))) := by
  simp only [catNT]
  rw [if_pos hall]

-- the abstract concatenation picks the item by the cumulated sizes
example : catGetD 1 [((fun c => some (c, "A")), 2), ((fun c => some (c, "B")), 3)] [0, 3, 1] = some ([0, 1, 1], "B") := by rfl

/-! ### in-place update of an entry -/

/-- the in-place update of a non-tensor entry (`NonTensorData._update` / `NonTensorStack._update`, reached by
`set(key, value, inplace=True)`, `copy_`, entry-level `update_`): whenever it succeeds, for entries of one shape without a
zero-size dim and whatever their representations, the updated entry is well formed, keeps the shape (and the STRUCTURE: the
recursion only rewrites payloads of the destination's own nodes) and shows at every position the object of the source. -/
theorem update_commutes (dest src u : NT O) (hw : wf dest = true) (hws : wf src = true) (hs : shape src = shape dest)
    (hp : ∀ n ∈ shape dest, n ≠ 0) (h : updateNT dest src = .ok u) :
    wf u = true ∧ shape u = shape dest ∧ ∀ c, c.length = (shape dest).length → getAt u c = getAt src c :=
  updateNT_spec dest src u hw hws hs hp h

/-- … and it fails exactly where the structure cannot hold the source: a shared node of the destination (one payload for a
whole sub-batch) facing a stacked part of the source (`ValueError: Cannot update a NonTensorData object with a
NonTensorStack`), here at the top level -/
theorem update_shared_rejects_stack (o : O) (s : Shape) (ms : List (NT O)) (d : Nat) :
    updateNT (.shared o s) (.stack ms d) = .error .shape := by
  simp [updateNT]

example : updateNT (.stack [.shared "a" [], .shared "b" []] 0 : NT String) (.shared "q" [2])
    = .ok (.stack [.shared "q" [], .shared "q" []] 0) := by rfl
example : updateNT (.stack [.shared "p" [2], .shared "p" [2]] 0 : NT String)
    (.stack [.stack [.shared "a" [], .shared "b" []] 0, .shared "c" [2]] 0) = .error .shape := by rfl

-- `unperm` really is the inverse placement: `unperm [2,0,1] [a,b,c]` puts `a` at dim 2, `b` at dim 0, `c` at dim 1
example : unperm [2, 0, 1] [7, 8, 9] = [8, 9, 7] := by decide
example : permute (.stack [.shared "y" [3, 1], .shared "x" [3, 1]] 1 : NT String) [2, 0, 1]
    = .stack [.shared "y" [1, 3], .shared "x" [1, 3]] 2 := by rfl

-- non-vacuity: a stack of a shared row and a promoted row, indexed by `[:, 1]`, `[None]`, `[[1,0]]`
example : wf (.stack [.shared "y" [3], .stack [.shared "x" [], .shared "x" [], .shared "z" []] 0] 0 : NT String) = true := by
  decide
example : getitem (.stack [.shared "y" [3], .shared "x" [3]] 0 : NT String) [.slice none none none, .int 1]
    = .ok (.stack [.shared "y" [], .shared "x" []] 0) := by rfl
example : getitem (.stack [.shared "y" [3], .shared "x" [3]] 0 : NT String) [.none]
    = .ok (.stack [.shared "y" [1, 3], .shared "x" [1, 3]] 1) := by rfl
example : getitem (.stack [.shared "y" [3], .shared "x" [3]] 0 : NT String) [.list [1, 0]]
    = .ok (.stack [.shared "x" [3], .shared "y" [3]] 0) := by rfl
example : stackNT true [.shared "x" [3], .shared "x" [3]] 0 = (.shared "x" [2, 3] : NT String) := by rfl
example : stackNT true [.shared "x" [3], .shared "z" [3]] 1 = (.stack [.shared "x" [3], .shared "z" [3]] 1 : NT String) := by
  rfl
-- a write through a shared value: promotion, then exactly position 0 of dim 0 changes
example : setitem (.shared "x" [2] : NT String) [.int 0] (.shared "y" []) = .ok (.stack [.shared "y" [], .shared "x" []] 0) := by
  rfl
example : WriteIx [.fixed 0, .range 0 1 3] ∧ WriteIx [.pick [1, 0]] := by
  refine ⟨⟨?_, by simp⟩, ⟨?_, by simp⟩⟩
  · intro x hx
    simp only [List.mem_cons, List.not_mem_nil, or_false] at hx
    rcases hx with rfl | rfl
    · simp [itemPositions]
    · decide
  · intro x hx
    simp only [List.mem_cons, List.not_mem_nil, or_false] at hx
    subst hx
    decide

end TdVerif.Props.C16
