/-
  C20 — apply / named_apply honour their contract for every option combination.
  Property theorems over Model/C20Apply.lean (leaves `V` and the user function `fn` are arbitrary; trees have
  no depth or width bound).
-/
import TdVerif.Model.C20Apply
import TdVerif.Lemmas.C20Apply

namespace TdVerif.Props.C20
open TdVerif.C20

variable {V : Type}

/-! ## multi-threaded apply = sequential apply -/

/-- **threads_schedule_independent**: the multi-threaded apply gives the same outcome under any two completion
orders (results are collected by submission index) -/
theorem threads_schedule_independent (o : Opts) (fn : Fn V) (self : Tree V) (others : List (Tree V))
    (out : Option (Tree V)) (π π' : List Nat)
    (h : ∀ tasks futs, flatNode o fn [] self others [] = .ok (tasks, futs) →
          π.Perm (List.range tasks.length) ∧ π'.Perm (List.range tasks.length)) :
    mtApply o fn π self others out = mtApply o fn π' self others out := by
  unfold mtApply
  cases hf : flatNode o fn [] self others [] with
  | error e => rfl
  | ok p =>
    obtain ⟨tasks, futs⟩ := p
    obtain ⟨h1, h2⟩ := h tasks futs hf
    simp only []
    rw [futResult_schedule_independent fn tasks π h1, futResult_schedule_independent fn tasks π' h2]

/-- **threads_eq_sequential.** Whenever the flat pass succeeds, the multi-threaded apply under *any* completion
order of the submitted calls returns exactly what the sequential `_apply_nest` returns — same entries, same
metadata, same `None` / error outcome of the rebuild — for every option combination, operand structure,
`out` and `inplace`. -/
theorem threads_eq_sequential (o : Opts) (fn : Fn V) (self : Tree V) (others : List (Tree V))
    (out : Option (Tree V)) (π : List Nat) (tasks : List (Call V)) (futs : List Fut)
    (hf : flatNode o fn [] self others [] = .ok (tasks, futs)) (hπ : π.Perm (List.range tasks.length)) :
    mtApply o fn π self others out = apply o fn self others out := by
  unfold mtApply apply
  simp only [hf]
  rw [futResult_schedule_independent fn tasks π hπ]
  have := (flat_rebuild_node fn self o [] others [] tasks futs hf).2 [] out
  simp only [List.append_nil] at this
  unfold resOf at this
  rw [this]

/-- when the flat pass raises (an operand lacks an entry and there is no default, or an operand is not a
tensordict) the sequential apply raises as well -/
theorem threads_raise_together (o : Opts) (fn : Fn V) (self : Tree V) (others : List (Tree V))
    (out : Option (Tree V)) (π : List Nat) (e : Err) (hf : flatNode o fn [] self others [] = .error e) :
    mtApply o fn π self others out = .error e ∧ ∃ e', apply o fn self others out = .error e' := by
  refine ⟨by simp [mtApply, hf], ?_⟩
  obtain ⟨e', he'⟩ := flat_error_node fn self o [] others [] e out hf
  exact ⟨e', by simp [apply, he']⟩

/-! ## values, keys, operands by key -/

/-- **lookup is by key**: permuting the insertion order of an operand does not change what `_get_str` returns -/
theorem lookup_perm_invariant (es es' : Entries V) (hp : (Entries.toList es').Perm (Entries.toList es))
    (hnd : es.keys.Nodup) (key : String) : es'.get? key = es.get? key := get?_perm es es' hp hnd key

/-- an operand without the entry and no default: `KeyError` -/
theorem leafArgs_missing_raises (key : String) (others : List (Tree V))
    (hnodes : ∀ ot ∈ others, ∃ m es, ot = Tree.node m es)
    (hmiss : ∃ ot ∈ others, ∃ m es, ot = Tree.node m es ∧ es.get? key = none) :
    leafArgs false key others = .error .key := by
  induction others with
  | nil => obtain ⟨ot, h, _⟩ := hmiss; simp at h
  | cons ot rest ih =>
    obtain ⟨m, es, e⟩ := hnodes ot List.mem_cons_self
    subst e
    simp only [leafArgs, operandGet]
    cases hg : es.get? key with
    | none => simp
    | some x =>
      simp only
      have : leafArgs false key rest = .error .key := by
        apply ih (fun ot h => hnodes ot (List.mem_cons_of_mem _ h))
        obtain ⟨ot', hm, m', es', e', hn⟩ := hmiss
        rcases List.mem_cons.mp hm with e1 | hm'
        · subst e1; injection e' with e2 e3; subst e3; rw [hg] at hn; cases hn
        · exact ⟨ot', hm', m', es', e', hn⟩
      simp [this]

/-- what the loop records for an entry on which the function is called directly (a leaf, or any first-level entry
with `call_on_nested` / an `is_leaf` accepting tensordicts): `fn` of the entry and of the operands' entries *under
the same key* -/
theorem applyEntries_call (o : Opts) (fn : Fn V) (pre : Path) : ∀ (es : Entries V) (others : List (Tree V))
    (out : Option (Tree V)) (oc : List (String × Option (Tree V))),
    applyEntries o fn pre es others out = .ok oc →
    ∀ k item, es.get? k = some item → (!o.callOnNested && !isLeafFor o.nodeAsLeaf item) = false →
      List.lookup k oc = some (fn (fnKey o.named o.nestedKeys pre k) item (others.map (fun ot => argOf ot k)))
  | .nil, _, _, oc, h, k, item, hg, _ => by simp [Entries.get?] at hg
  | .cons key item0 rest, others, out, oc, h, k, item, hg, hc => by
    simp only [applyEntries] at h
    split at h
    · cases h
    · rename_i r hr
      cases hrest : applyEntries o fn pre rest others out with
      | error e => simp [hrest] at h
      | ok rs =>
        simp only [hrest] at h; injection h with h; subst h
        simp only [Entries.get?] at hg
        by_cases hk : key = k
        · subst hk
          simp only [↓reduceIte] at hg; injection hg with hg; subst hg
          simp only [hc, Bool.false_eq_true, ↓reduceIte] at hr
          cases ha : leafArgs o.hasDefault key others with
          | error e => simp [ha] at hr
          | ok args =>
            simp only [ha] at hr; injection hr with hr
            simp [List.lookup, ← hr, (leafArgs_ok _ _ _ _ ha).1]
        · simp only [hk, ↓reduceIte] at hg
          have : (k == key) = false := by simp [Ne.symm hk]
          simp only [List.lookup, this]
          exact applyEntries_call o fn pre rest others out rs hrest k item hg hc

/-- … and for a nested tensordict entry: the result of the recursive call on the operands' entries under that key -/
theorem applyEntries_nested (o : Opts) (fn : Fn V) (pre : Path) : ∀ (es : Entries V) (others : List (Tree V))
    (out : Option (Tree V)) (oc : List (String × Option (Tree V))),
    applyEntries o fn pre es others out = .ok oc →
    ∀ k item, es.get? k = some item → (!o.callOnNested && !isLeafFor o.nodeAsLeaf item) = true →
      ∃ os' rn, nestedOthers o.hasDefault item k others = .ok os' ∧
        applyNode { o with names := .noDefault, callOnNested := false } fn (pre ++ [k]) item os'
          (if o.inplace then none else outChild out k) = .ok rn ∧
        List.lookup k oc = some rn
  | .nil, _, _, oc, h, k, item, hg, _ => by simp [Entries.get?] at hg
  | .cons key item0 rest, others, out, oc, h, k, item, hg, hc => by
    simp only [applyEntries] at h
    split at h
    · cases h
    · rename_i r hr
      cases hrest : applyEntries o fn pre rest others out with
      | error e => simp [hrest] at h
      | ok rs =>
        simp only [hrest] at h; injection h with h; subst h
        simp only [Entries.get?] at hg
        by_cases hk : key = k
        · subst hk
          simp only [↓reduceIte] at hg; injection hg with hg; subst hg
          simp only [hc, ↓reduceIte] at hr
          cases hn : nestedOthers o.hasDefault item0 key others with
          | error e => simp [hn] at hr
          | ok os' =>
            simp only [hn] at hr
            exact ⟨os', r, rfl, hr, by simp [List.lookup]⟩
        · simp only [hk, ↓reduceIte] at hg
          have : (k == key) = false := by simp [Ne.symm hk]
          obtain ⟨os', rn, h1, h2, h3⟩ := applyEntries_nested o fn pre rest others out rs hrest k item hg hc
          exact ⟨os', rn, h1, h2, by simp only [List.lookup, this]; exact h3⟩

/-- **missing_key_without_default_raises** (contrapositive form): if the loop succeeds without a default, every
operand is a tensordict holding every first-level key of self -/
theorem success_implies_keys_present (o : Opts) (fn : Fn V) (pre : Path) (hd : o.hasDefault = false) :
    ∀ (es : Entries V) (others : List (Tree V)) (out : Option (Tree V)) (oc : List (String × Option (Tree V))),
    applyEntries o fn pre es others out = .ok oc →
    ∀ k ∈ es.keys, ∀ ot ∈ others, ∃ m eo, ot = Tree.node m eo ∧ (eo.get? k).isSome
  | .nil, _, _, _, _, k, hk, _, _ => by simp [Entries.keys] at hk
  | .cons key item rest, others, out, oc, h, k, hk, ot, hot => by
    simp only [applyEntries] at h
    split at h
    · cases h
    · rename_i r hr
      cases hrest : applyEntries o fn pre rest others out with
      | error e => simp [hrest] at h
      | ok rs =>
        simp only [Entries.keys, List.mem_cons] at hk
        rcases hk with e | hk'
        · subst e
          by_cases hc : (!o.callOnNested && !isLeafFor o.nodeAsLeaf item) = true
          · simp only [hc, ↓reduceIte] at hr
            cases hn : nestedOthers o.hasDefault item k others with
            | error e => simp [hn] at hr
            | ok os' =>
              -- nestedOthers succeeded without default: same lookup discipline as leafArgs
              clear hr hrest h
              induction others generalizing os' with
              | nil => simp at hot
              | cons o1 orest ih =>
                simp only [nestedOthers] at hn
                cases o1 with
                | leaf v => simp [operandGet] at hn
                | node m1 e1 =>
                  simp only [operandGet] at hn
                  cases hg : e1.get? k with
                  | none => simp [hg, hd] at hn
                  | some x =>
                    simp only [hg] at hn
                    cases hr2 : nestedOthers o.hasDefault item k orest with
                    | error e => simp [hr2] at hn
                    | ok xs =>
                      rcases List.mem_cons.mp hot with e | hm
                      · subst e; exact ⟨m1, e1, rfl, by simp [hg]⟩
                      · exact ih hm xs hr2
          · simp only [hc, Bool.false_eq_true, ↓reduceIte] at hr
            cases ha : leafArgs o.hasDefault k others with
            | error e => simp [ha] at hr
            | ok args =>
              obtain ⟨m1, e1, e, hh⟩ := (leafArgs_ok _ _ _ _ ha).2 ot hot
              rcases hh with hh | hh
              · rw [hd] at hh; cases hh
              · exact ⟨m1, e1, e, hh⟩
        · exact success_implies_keys_present o fn pre hd rest others out rs hrest k hk' ot hot

/-- **frame** (`checked`): when the call writes into an existing object (`self` for `inplace`, else `out`), the
object returned is that object with exactly the non-`None` outcomes (re)bound: an entry whose function result is
`None`, and every entry not named by a key of self, is what it was; metadata unchanged. -/
theorem target_frame (o : Opts) (fn : Fn V) (pre : Path) (m : Meta) (es : Entries V) (others : List (Tree V))
    (out : Option (Tree V)) (ms : Meta) (es0 : Entries V) (r : Tree V) (hck : o.checked = true)
    (hnd : es.keys.Nodup)
    (hs : startResult o (.node m es) out = .ok (some (.node ms es0)))
    (h : applyNode o fn pre (.node m es) others out = .ok (some r)) :
    ∃ oc es', applyEntries o fn pre es others (some (.node ms es0)) = .ok oc ∧ r = .node ms es' ∧
      (∀ k, es'.get? k = pickOutcome (List.lookup k oc) (es0.get? k)) ∧
      (∀ k, k ∉ es.keys → es'.get? k = es0.get? k) := by
  simp only [applyNode, hs] at h
  cases he : applyEntries o fn pre es others (some (.node ms es0)) with
  | error e => simp [he] at h
  | ok oc =>
    simp only [he, assemble, hck] at h
    have hkeys := applyEntries_keys o fn pre es others _ oc he
    cases hw : writeOutcomes true (makeResult o m) (some (.node ms es0)) oc with
    | error e => simp [hw] at h
    | ok r0 =>
      simp only [hw] at h
      obtain ⟨es', e, hg⟩ := writeOutcomes_get (makeResult o m) oc ms es0 r0 (hkeys ▸ hnd) hw
      subst e
      have hr : r = .node ms es' := by
        split at h
        · cases h
        · split at h
          · cases h
          · injection h with h; injection h with h; simpa using h.symm
      refine ⟨oc, es', rfl, hr, hg, fun k hk => ?_⟩
      rw [hg k, lookup_none_of_not_key oc k (hkeys ▸ hk)]; rfl

/-- **inplace_frame**: `inplace=True` returns self with the same keys bound; an entry for which the function
returns `None` is untouched, an entry for which it returns a value holds that value. -/
theorem inplace_frame (o : Opts) (fn : Fn V) (pre : Path) (m : Meta) (es : Entries V) (others : List (Tree V))
    (out : Option (Tree V)) (r : Tree V) (hin : o.inplace = true) (hck : o.checked = true) (hnd : es.keys.Nodup)
    (h : applyNode o fn pre (.node m es) others out = .ok (some r)) :
    ∃ es', r = .node m es' ∧
      ∀ k item, es.get? k = some item → (!o.callOnNested && !isLeafFor o.nodeAsLeaf item) = false →
        es'.get? k = (match fn (fnKey o.named o.nestedKeys pre k) item (others.map (fun ot => argOf ot k)) with
                      | some t => some t
                      | none => some item) := by
  have hs : startResult o (.node m es) out = .ok (some (.node m es)) := by simp [startResult, hin]
  obtain ⟨oc, es', he, hr, hg, _⟩ := target_frame o fn pre m es others out m es r hck hnd hs h
  refine ⟨es', hr, fun k item hk hc => ?_⟩
  rw [hg k, applyEntries_call o fn pre es others _ oc he k item hk hc, hk]
  cases fn (fnKey o.named o.nestedKeys pre k) item (others.map (fun ot => argOf ot k)) <;> rfl

/-- **out_frame**: with `out=` (unlocked, not `inplace`) the object returned is `out` (re-labelled to the device
override when `checked`); its entries that are not keys of self are untouched, a key of self is rebound iff the
function returns a value for it. -/
theorem out_frame (o : Opts) (fn : Fn V) (pre : Path) (m : Meta) (es : Entries V) (others : List (Tree V))
    (mo : Meta) (eo : Entries V) (r : Tree V) (hin : o.inplace = false) (hck : o.checked = true)
    (hnd : es.keys.Nodup)
    (h : applyNode o fn pre (.node m es) others (some (.node mo eo)) = .ok (some r)) :
    mo.locked = false ∧
    ∃ ms es0 es', startResult o (.node m es) (some (.node mo eo)) = .ok (some (.node ms es0)) ∧
      ms.batch = mo.batch ∧ ms.names = mo.names ∧ r = .node ms es' ∧
      (∀ k, k ∉ es.keys → es'.get? k = es0.get? k) ∧
      (∀ k item, es.get? k = some item → (!o.callOnNested && !isLeafFor o.nodeAsLeaf item) = false →
        es'.get? k = (match fn (fnKey o.named o.nestedKeys pre k) item (others.map (fun ot => argOf ot k)) with
                      | some t => some t
                      | none => es0.get? k)) := by
  have hstart : ∃ ms es0, startResult o (.node m es) (some (.node mo eo)) = .ok (some (.node ms es0)) ∧
      mo.locked = false ∧ ms.batch = mo.batch ∧ ms.names = mo.names := by
    simp only [applyNode] at h
    cases hs : startResult o (.node m es) (some (.node mo eo)) with
    | error e => simp [hs] at h
    | ok st =>
      obtain ⟨ms, es0, e, h1, h2, h3⟩ := startResult_out_ok o _ mo eo st hin hs
      exact ⟨ms, es0, by rw [e], h1, h2, h3⟩
  obtain ⟨ms, es0, hs, hl, hb, hn⟩ := hstart
  obtain ⟨oc, es', he, hr, hg, hout⟩ := target_frame o fn pre m es others _ ms es0 r hck hnd hs h
  refine ⟨hl, ms, es0, es', hs, hb, hn, hr, hout, fun k item hk hc => ?_⟩
  rw [hg k, applyEntries_call o fn pre es others _ oc he k item hk hc]
  cases fn (fnKey o.named o.nestedKeys pre k) item (others.map (fun ot => argOf ot k)) <;> rfl

/-- **result_values / result_keys** (fresh result, `checked`): under each key of self the result holds the function
applied to that entry and to the operands' entries under the same key (absent when the function returns `None`);
a nested tensordict entry holds the result of the same construction one level down; no other key exists. -/
theorem result_values (o : Opts) (fn : Fn V) (pre : Path) (m : Meta) (es : Entries V) (others : List (Tree V))
    (r : Tree V) (hin : o.inplace = false) (hck : o.checked = true) (hnd : es.keys.Nodup)
    (h : applyNode o fn pre (.node m es) others none = .ok (some r)) :
    ∃ rm res, r = .node rm res ∧
      (∀ k item, es.get? k = some item → (!o.callOnNested && !isLeafFor o.nodeAsLeaf item) = false →
        res.get? k = fn (fnKey o.named o.nestedKeys pre k) item (others.map (fun ot => argOf ot k))) ∧
      (∀ k item, es.get? k = some item → (!o.callOnNested && !isLeafFor o.nodeAsLeaf item) = true →
        ∃ os' rn, nestedOthers o.hasDefault item k others = .ok os' ∧
          applyNode { o with names := .noDefault, callOnNested := false } fn (pre ++ [k]) item os' none = .ok rn ∧
          res.get? k = rn) ∧
      (∀ k, k ∉ es.keys → res.get? k = none) := by
  have hs : startResult o (.node m es) none = .ok none := by simp [startResult, hin]
  simp only [applyNode, hs] at h
  cases he : applyEntries o fn pre es others none with
  | error e => simp [he] at h
  | ok oc =>
    simp only [he, assemble, hck] at h
    have hkeys := applyEntries_keys o fn pre es others _ oc he
    cases hw : writeOutcomes true (makeResult o m) none oc with
    | error e => simp [hw] at h
    | ok r0 =>
      simp only [hw] at h
      have hr : r = r0.getD (makeResult o m) := by
        split at h
        · cases h
        · split at h
          · cases h
          · injection h with h; injection h with h; exact h.symm
      -- entries of the result in terms of the outcomes
      have hres : ∃ rm res, r = Tree.node rm res ∧
          ∀ k, res.get? k = pickOutcome (List.lookup k oc) (none) := by
        rcases writeOutcomes_start_none true (makeResult o m) oc r0 hw with ⟨e, hall⟩ | hw'
        · subst e
          refine ⟨_, .nil, hr, fun k => ?_⟩
          rw [lookup_none_of_all_none oc hall k]; rfl
        · unfold makeResult at hw'
          obtain ⟨es', e, hg⟩ := writeOutcomes_get _ oc _ .nil r0 (hkeys ▸ hnd) hw'
          subst e
          exact ⟨_, es', hr, fun k => by rw [hg k]; simp [Entries.get?]⟩
      obtain ⟨rm, res, e, hg⟩ := hres
      refine ⟨rm, res, e, ?_, ?_, ?_⟩
      · intro k item hk hc
        rw [hg k, applyEntries_call o fn pre es others _ oc he k item hk hc]
        cases fn (fnKey o.named o.nestedKeys pre k) item (others.map (fun ot => argOf ot k)) <;> rfl
      · intro k item hk hc
        obtain ⟨os', rn, h1, h2, h3⟩ := applyEntries_nested o fn pre es others _ oc he k item hk hc
        rw [show (if o.inplace = true then (none : Option (Tree V)) else outChild none k) = none from by
          simp [outChild]] at h2
        refine ⟨os', rn, h1, h2, ?_⟩
        rw [hg k, h3]; cases rn <;> rfl
      · intro k hk
        rw [hg k, lookup_none_of_not_key oc k (hkeys ▸ hk)]; rfl

/-- **result_values at any depth** (fresh result, validated path, leaves-only mode): for every leaf of self, at
whatever nested key `p`, the result holds under `p` the function applied to that leaf and to the operands' entries
under the same nested key (the default where an operand lacks it); nothing under `p` when the function returns
`None` (also when a whole filtered node disappears). -/
theorem result_values_deep (fn : Fn V) : ∀ (p : Path) (o : Opts) (pre : Path) (m : Meta) (es : Entries V)
    (others : List (Tree V)) (res : Option (Tree V)) (v : V),
    o.inplace = false → o.checked = true → o.callOnNested = false → o.nodeAsLeaf = false →
    Tree.wf (.node m es) = true →
    applyNode o fn pre (.node m es) others none = .ok res →
    Tree.sub (.node m es) p = some (.leaf v) → p ≠ [] →
    (res.bind (fun r => Tree.sub r p)) =
      fn (fnKey o.named o.nestedKeys (pre ++ p.dropLast) (p.getLast?.getD "")) (.leaf v)
        (others.map (argAtPath p))
  | [], _, _, _, _, _, _, _, _, _, _, _, _, _, _, hp => absurd rfl hp
  | [k], o, pre, m, es, others, res, v, hin, hck, hcon, hnal, hw, h, hs, _ => by
    simp only [Tree.wf, Bool.and_eq_true, decide_eq_true_eq] at hw
    simp only [Tree.sub] at hs
    cases hg : es.get? k with
    | none => simp [hg] at hs
    | some t =>
      simp only [hg, Tree.sub] at hs; injection hs with hs; subst hs
      have hc : (!o.callOnNested && !isLeafFor o.nodeAsLeaf (Tree.leaf v)) = false := by simp [isLeafFor]
      have hargs : others.map (argAtPath [k]) = others.map (fun ot => argOf ot k) := by
        apply List.map_congr_left; intro ot _; rfl
      simp only [List.dropLast_singleton, List.append_nil, List.getLast?_singleton, Option.getD_some, hargs]
      cases res with
      | none =>
        obtain ⟨oc, he, hset⟩ := applyNode_none o fn pre m es others hin h
        have := applyEntries_call o fn pre es others none oc he k _ hg hc
        have := anySet_false_lookup oc hset k _ this
        simp [this]
      | some r =>
        obtain ⟨rm, rs, e, h1, _, _⟩ := result_values o fn pre m es others r hin hck hw.1 h
        subst e
        simp only [Option.bind_some, Tree.sub, ← h1 k _ hg hc]
        cases rs.get? k <;> rfl
  | k :: k' :: q, o, pre, m, es, others, res, v, hin, hck, hcon, hnal, hw, h, hs, _ => by
    simp only [Tree.wf, Bool.and_eq_true, decide_eq_true_eq] at hw
    simp only [Tree.sub] at hs
    cases hg : es.get? k with
    | none => simp [hg] at hs
    | some item =>
      simp only [hg] at hs
      cases item with
      | leaf w => simp [Tree.sub] at hs
      | node m2 e2 =>
        have hw2 := wf_get? es k _ hw.2 hg
        have hc : (!o.callOnNested && !isLeafFor o.nodeAsLeaf (Tree.node m2 e2)) = true := by
          simp [isLeafFor, hcon, hnal]
        -- the nested call and its result
        have hnest : ∃ os' rn, nestedOthers o.hasDefault (Tree.node m2 e2) k others = .ok os' ∧
            applyNode { o with names := .noDefault, callOnNested := false } fn (pre ++ [k]) (.node m2 e2) os' none = .ok rn ∧
            (res.bind (fun r => Tree.sub r (k :: k' :: q))) = rn.bind (fun r => Tree.sub r (k' :: q)) := by
          cases res with
          | none =>
            obtain ⟨oc, he, hset⟩ := applyNode_none o fn pre m es others hin h
            obtain ⟨os', rn, h1, h2, h3⟩ := applyEntries_nested o fn pre es others none oc he k _ hg hc
            rw [show (if o.inplace = true then (none : Option (Tree V)) else outChild none k) = none from by
              simp [outChild]] at h2
            have := anySet_false_lookup oc hset k _ h3
            subst this
            exact ⟨os', none, h1, h2, rfl⟩
          | some r =>
            obtain ⟨rm, rs, e, _, h2, _⟩ := result_values o fn pre m es others r hin hck hw.1 h
            subst e
            obtain ⟨os', rn, h3, h4, h5⟩ := h2 k _ hg hc
            refine ⟨os', rn, h3, h4, ?_⟩
            simp only [Option.bind_some, Tree.sub, h5]
            cases rn <;> rfl
        obtain ⟨os', rn, hn1, hn2, hn3⟩ := hnest
        have ih := result_values_deep fn (k' :: q) { o with names := .noDefault, callOnNested := false } (pre ++ [k])
          m2 e2 os' rn v hin hck rfl hnal hw2 hn2 hs (by simp)
        rw [hn3, ih]
        have hempty := argAtPath_emptyRec (k' :: q) m2 e2 v (by simp) hw2 hs
        rw [nestedOthers_argAtPath o.hasDefault (.node m2 e2) k k' q hempty others os' hn1]
        simp [List.getLast?_cons_cons, List.dropLast_cons_cons]

/-- **result values on the unvalidated path too** (`apply`, `named_apply`; any `checked`): the fresh result holds,
under each key of self, the same leaves as the function's value (called entries) or as the nested result (nested
entries) — `_validate_value` only re-labels devices / names of nested tensordicts -/
theorem result_values_leaves (o : Opts) (fn : Fn V) (pre : Path) (m : Meta) (es : Entries V) (others : List (Tree V))
    (r : Tree V) (hin : o.inplace = false) (hnd : es.keys.Nodup)
    (h : applyNode o fn pre (.node m es) others none = .ok (some r)) :
    ∃ rm res, r = .node rm res ∧
      (∀ k item, es.get? k = some item → (!o.callOnNested && !isLeafFor o.nodeAsLeaf item) = false →
        LeafEq (res.get? k) (fn (fnKey o.named o.nestedKeys pre k) item (others.map (fun ot => argOf ot k)))) ∧
      (∀ k item, es.get? k = some item → (!o.callOnNested && !isLeafFor o.nodeAsLeaf item) = true →
        ∃ os' rn, nestedOthers o.hasDefault item k others = .ok os' ∧
          applyNode { o with names := .noDefault, callOnNested := false } fn (pre ++ [k]) item os' none = .ok rn ∧
          LeafEq (res.get? k) rn) := by
  have hs : startResult o (.node m es) none = .ok none := by simp [startResult, hin]
  simp only [applyNode, hs] at h
  cases he : applyEntries o fn pre es others none with
  | error e => simp [he] at h
  | ok oc =>
    simp only [he, assemble] at h
    have hkeys := applyEntries_keys o fn pre es others _ oc he
    cases hw : writeOutcomes o.checked (makeResult o m) none oc with
    | error e => simp [hw] at h
    | ok r0 =>
      simp only [hw] at h
      have hr : r = r0.getD (makeResult o m) := by
        split at h
        · cases h
        · split at h
          · cases h
          · injection h with h; injection h with h; exact h.symm
      have hres : ∃ rm res, r = Tree.node rm res ∧
          ∀ k, LeafEq (res.get? k) (pickOutcome (List.lookup k oc) none) := by
        rcases writeOutcomes_start_none o.checked (makeResult o m) oc r0 hw with ⟨e, hall⟩ | hw'
        · subst e
          refine ⟨_, .nil, hr, fun k => ?_⟩
          rw [lookup_none_of_all_none oc hall k]; exact LeafEq.refl _
        · unfold makeResult at hw'
          obtain ⟨m', es', e, hg⟩ := writeOutcomes_leafEq o.checked _ oc _ .nil r0 (hkeys ▸ hnd) hw'
          subst e
          exact ⟨m', es', hr, fun k => by simpa [Entries.get?] using hg k⟩
      obtain ⟨rm, res, e, hg⟩ := hres
      refine ⟨rm, res, e, ?_, ?_⟩
      · intro k item hk hc
        have := hg k
        rw [applyEntries_call o fn pre es others _ oc he k item hk hc] at this
        cases hf : fn (fnKey o.named o.nestedKeys pre k) item (others.map (fun ot => argOf ot k)) with
        | none => simpa [hf] using this
        | some t => simpa [hf] using this
      · intro k item hk hc
        obtain ⟨os', rn, h1, h2, h3⟩ := applyEntries_nested o fn pre es others _ oc he k item hk hc
        rw [show (if o.inplace = true then (none : Option (Tree V)) else outChild none k) = none from by
          simp [outChild]] at h2
        refine ⟨os', rn, h1, h2, ?_⟩
        have := hg k
        rw [h3] at this
        cases rn with
        | none => simpa using this
        | some t => simpa using this

/-- **result values at any depth, validated or not** (`apply`, `named_apply`, `_fast_apply`): for every leaf of self
at nested key `p`, the leaf the fresh result holds under `p` is the leaf the function returns for that entry and the
operands' entries under the same nested key (none when it returns `None` or a non-leaf). -/
theorem result_leaves_deep (fn : Fn V) : ∀ (p : Path) (o : Opts) (pre : Path) (m : Meta) (es : Entries V)
    (others : List (Tree V)) (res : Option (Tree V)) (v : V),
    o.inplace = false → o.callOnNested = false → o.nodeAsLeaf = false →
    Tree.wf (.node m es) = true →
    applyNode o fn pre (.node m es) others none = .ok res →
    Tree.sub (.node m es) p = some (.leaf v) → p ≠ [] →
    (res.bind (fun r => Tree.leafAt r p)) =
      (fn (fnKey o.named o.nestedKeys (pre ++ p.dropLast) (p.getLast?.getD "")) (.leaf v)
        (others.map (argAtPath p))).bind (fun t => Tree.leafAt t [])
  | [], _, _, _, _, _, _, _, _, _, _, _, _, _, hp => absurd rfl hp
  | [k], o, pre, m, es, others, res, v, hin, hcon, hnal, hw, h, hs, _ => by
    simp only [Tree.wf, Bool.and_eq_true, decide_eq_true_eq] at hw
    simp only [Tree.sub] at hs
    cases hg : es.get? k with
    | none => simp [hg] at hs
    | some t =>
      simp only [hg, Tree.sub] at hs; injection hs with hs; subst hs
      have hc : (!o.callOnNested && !isLeafFor o.nodeAsLeaf (Tree.leaf v)) = false := by simp [isLeafFor]
      have hargs : others.map (argAtPath [k]) = others.map (fun ot => argOf ot k) := by
        apply List.map_congr_left; intro ot _; rfl
      simp only [List.dropLast_singleton, List.append_nil, List.getLast?_singleton, Option.getD_some, hargs]
      cases res with
      | none =>
        obtain ⟨oc, he, hset⟩ := applyNode_none o fn pre m es others hin h
        have := applyEntries_call o fn pre es others none oc he k _ hg hc
        have := anySet_false_lookup oc hset k _ this
        simp [this]
      | some r =>
        obtain ⟨rm, rs, e, h1, _⟩ := result_values_leaves o fn pre m es others r hin hw.1 h
        subst e
        have := h1 k _ hg hc []
        simp only [Option.bind_some, leafAt_node_cons]
        exact this
  | k :: k' :: q, o, pre, m, es, others, res, v, hin, hcon, hnal, hw, h, hs, _ => by
    simp only [Tree.wf, Bool.and_eq_true, decide_eq_true_eq] at hw
    simp only [Tree.sub] at hs
    cases hg : es.get? k with
    | none => simp [hg] at hs
    | some item =>
      simp only [hg] at hs
      cases item with
      | leaf w => simp [Tree.sub] at hs
      | node m2 e2 =>
        have hw2 := wf_get? es k _ hw.2 hg
        have hc : (!o.callOnNested && !isLeafFor o.nodeAsLeaf (Tree.node m2 e2)) = true := by
          simp [isLeafFor, hcon, hnal]
        have hnest : ∃ os' rn, nestedOthers o.hasDefault (Tree.node m2 e2) k others = .ok os' ∧
            applyNode { o with names := .noDefault, callOnNested := false } fn (pre ++ [k]) (.node m2 e2) os' none = .ok rn ∧
            (res.bind (fun r => Tree.leafAt r (k :: k' :: q))) = rn.bind (fun r => Tree.leafAt r (k' :: q)) := by
          cases res with
          | none =>
            obtain ⟨oc, he, hset⟩ := applyNode_none o fn pre m es others hin h
            obtain ⟨os', rn, h1, h2, h3⟩ := applyEntries_nested o fn pre es others none oc he k _ hg hc
            rw [show (if o.inplace = true then (none : Option (Tree V)) else outChild none k) = none from by
              simp [outChild]] at h2
            have := anySet_false_lookup oc hset k _ h3
            subst this
            exact ⟨os', none, h1, h2, rfl⟩
          | some r =>
            obtain ⟨rm, rs, e, _, h2⟩ := result_values_leaves o fn pre m es others r hin hw.1 h
            subst e
            obtain ⟨os', rn, h3, h4, h5⟩ := h2 k _ hg hc
            refine ⟨os', rn, h3, h4, ?_⟩
            simp only [Option.bind_some, leafAt_node_cons]
            exact h5 (k' :: q)
        obtain ⟨os', rn, hn1, hn2, hn3⟩ := hnest
        have ih := result_leaves_deep fn (k' :: q) { o with names := .noDefault, callOnNested := false } (pre ++ [k])
          m2 e2 os' rn v hin rfl hnal hw2 hn2 hs (by simp)
        rw [hn3, ih]
        have hempty := argAtPath_emptyRec (k' :: q) m2 e2 v (by simp) hw2 hs
        rw [nestedOthers_argAtPath o.hasDefault (.node m2 e2) k k' q hempty others os' hn1]
        simp [List.getLast?_cons_cons, List.dropLast_cons_cons]

/-- **frame, validated or not** (`apply_`, `apply(out=…)`, …): when the call writes into an existing object (`self` for
`inplace`, else `out`), the returned object holds under every key the same leaves as the outcome when the function
returned a value, else the same leaves as before; keys that are not keys of self keep their leaves. -/
theorem target_frame_leaves (o : Opts) (fn : Fn V) (pre : Path) (m : Meta) (es : Entries V) (others : List (Tree V))
    (out : Option (Tree V)) (ms : Meta) (es0 : Entries V) (r : Tree V) (hnd : es.keys.Nodup)
    (hs : startResult o (.node m es) out = .ok (some (.node ms es0)))
    (h : applyNode o fn pre (.node m es) others out = .ok (some r)) :
    ∃ oc ms' es', applyEntries o fn pre es others (some (.node ms es0)) = .ok oc ∧ r = .node ms' es' ∧
      ms'.batch = ms.batch ∧ ms'.device = ms.device ∧ ms'.locked = ms.locked ∧
      (∀ k, LeafEq (es'.get? k) (pickOutcome (List.lookup k oc) (es0.get? k))) ∧
      (∀ k, k ∉ es.keys → LeafEq (es'.get? k) (es0.get? k)) := by
  simp only [applyNode, hs] at h
  cases he : applyEntries o fn pre es others (some (.node ms es0)) with
  | error e => simp [he] at h
  | ok oc =>
    simp only [he, assemble] at h
    have hkeys := applyEntries_keys o fn pre es others _ oc he
    cases hw : writeOutcomes o.checked (makeResult o m) (some (.node ms es0)) oc with
    | error e => simp [hw] at h
    | ok r0 =>
      simp only [hw] at h
      obtain ⟨ms', es', e, hg⟩ := writeOutcomes_leafEq o.checked (makeResult o m) oc ms es0 r0 (hkeys ▸ hnd) hw
      obtain ⟨m2, e2, e', hb, hd, hl, _⟩ := writeOutcomes_meta o.checked (makeResult o m) oc ms es0 r0 hw
      subst e
      injection e' with e'; injection e' with e1 e2'; subst e1; subst e2'
      have hr : r = .node ms' es' := by
        split at h
        · cases h
        · split at h
          · cases h
          · injection h with h; injection h with h; simpa using h.symm
      refine ⟨oc, ms', es', rfl, hr, hb, hd, hl, hg, fun k hk => ?_⟩
      have := hg k
      rw [lookup_none_of_not_key oc k (hkeys ▸ hk)] at this
      simpa using this

/-- `inplace=True` on any front-end: self's entries keep their leaves where the function returns `None`, hold the
function's leaf where it returns one -/
theorem inplace_frame_leaves (o : Opts) (fn : Fn V) (pre : Path) (m : Meta) (es : Entries V) (others : List (Tree V))
    (out : Option (Tree V)) (r : Tree V) (hin : o.inplace = true) (hnd : es.keys.Nodup)
    (h : applyNode o fn pre (.node m es) others out = .ok (some r)) :
    ∃ m' es', r = .node m' es' ∧ m'.batch = m.batch ∧ m'.device = m.device ∧ m'.locked = m.locked ∧
      ∀ k item, es.get? k = some item → (!o.callOnNested && !isLeafFor o.nodeAsLeaf item) = false →
        LeafEq (es'.get? k) (match fn (fnKey o.named o.nestedKeys pre k) item (others.map (fun ot => argOf ot k)) with
                             | some t => some t
                             | none => some item) := by
  have hs : startResult o (.node m es) out = .ok (some (.node m es)) := by simp [startResult, hin]
  obtain ⟨oc, m', es', he, hr, hb, hd, hl, hg, _⟩ := target_frame_leaves o fn pre m es others out m es r hnd hs h
  refine ⟨m', es', hr, hb, hd, hl, fun k item hk hc => ?_⟩
  have := hg k
  rw [applyEntries_call o fn pre es others _ oc he k item hk hc, hk] at this
  cases hf : fn (fnKey o.named o.nestedKeys pre k) item (others.map (fun ot => argOf ot k)) with
  | none => simpa [hf] using this
  | some t => simpa [hf] using this

/-- **others_by_key**: re-inserting the entries of any operand in another order changes nothing — every operand
entry reaches the function through a lookup under self's key -/
theorem others_by_key (o : Opts) (fn : Fn V) (pre : Path) (others' others : List (Tree V))
    (h : AllPermTop others' others) : ∀ (es : Entries V) (out : Option (Tree V)),
    applyEntries o fn pre es others' out = applyEntries o fn pre es others out
  | .nil, out => by simp [applyEntries]
  | .cons key item rest, out => by
    simp only [applyEntries, leafArgs_permTop _ key _ _ h, nestedOthers_permTop _ item key _ _ h,
      others_by_key o fn pre others' others h rest out]

/-! ## lazy stacks -/

theorem applyMembers_spec (o : Opts) (fn : Fn V) (pre : Path) :
    ∀ (ms : List (Tree V)) (oss : List (List (Tree V))) (outs : Option (List (Tree V))) (rs : List (Option (Tree V))),
      applyMembers o fn pre ms oss outs = .ok rs →
      rs.length = ms.length ∧ ms.length = oss.length ∧
      ∀ (i : Nat) (m : Tree V) (os : List (Tree V)), ms[i]? = some m → oss[i]? = some os →
        ∃ r, rs[i]? = some r ∧ applyNode o fn pre m os (outs.bind (fun l => l[i]?)) = .ok r
  | [], [], outs, rs, h => by simp [applyMembers] at h; subst h; simp
  | [], _ :: _, _, _, h => by unfold applyMembers at h; cases h
  | _ :: _, [], _, _, h => by unfold applyMembers at h; cases h
  | m0 :: ms, os0 :: oss, outs, rs, h => by
    simp only [applyMembers] at h
    cases h0 : applyNode o fn pre m0 os0 (outHead outs) with
    | error e => simp [h0] at h
    | ok r0 =>
      simp only [h0] at h
      cases hr : applyMembers o fn pre ms oss (outTail outs) with
      | error e => simp [hr] at h
      | ok rs' =>
        simp only [hr] at h; injection h with h; subst h
        obtain ⟨h1, h2, h3⟩ := applyMembers_spec o fn pre ms oss _ rs' hr
        refine ⟨by simp [h1], by simp [h2], fun i m os hm hos => ?_⟩
        cases i with
        | zero =>
          simp at hm hos; subst hm; subst hos
          refine ⟨r0, by simp, ?_⟩
          have : (outs.bind (fun l => l[0]?)) = (outHead outs) := by
            cases outs with
            | none => rfl
            | some l => cases l <;> simp [outHead]
          rw [this]; exact h0
        | succ j =>
          simp at hm hos
          obtain ⟨r, hr1, hr2⟩ := h3 j m os hm hos
          refine ⟨r, by simpa using hr1, ?_⟩
          have : (outs.bind (fun l => l[j + 1]?)) =
              ((outTail outs).bind (fun l => l[j]?)) := by
            cases outs with
            | none => rfl
            | some l => cases l <;> simp [outTail]
          rw [this]; exact hr2

theorem allSome_get : ∀ (rs : List (Option (Tree V))) (ts : List (Tree V)), allSome rs = some ts →
    ts.length = rs.length ∧ ∀ (i : Nat) (r : Option (Tree V)), rs[i]? = some r → ∃ t, r = some t ∧ ts[i]? = some t
  | [], ts, h => by simp [allSome] at h; subst h; simp
  | none :: _, _, h => by simp [allSome] at h
  | some t0 :: rest, ts, h => by
    simp only [allSome] at h
    cases hr : allSome rest with
    | none => simp [hr] at h
    | some ts' =>
      simp [hr] at h; subst h
      obtain ⟨h1, h2⟩ := allSome_get rest ts' hr
      refine ⟨by simp [h1], fun i r hi => ?_⟩
      cases i with
      | zero => simp at hi; subst hi; exact ⟨t0, rfl, by simp⟩
      | succ j => simp at hi; simpa using h2 j r hi

/-- **lazy stack apply is member-wise with the prefix forwarded**: a fresh (not in-place) result of
`LazyStackedTensorDict._apply_nest` is the stack of the results of `_apply_nest` on every member, each called with the
*same prefix* `pre` (so `nested_keys=True` hands the function the full path also below a nested lazy stack), with the
operands' slices of the same index along self's stack dim, and with `out`'s member of the same index. -/
theorem lazy_apply_memberwise (o : Opts) (fn : Fn V) (pre : Path) (members : List (Tree V))
    (others : List (List (Tree V))) (outs : Option (List (Tree V))) (R : List (Tree V)) (hin : o.inplace = false)
    (h : applyLazy o fn pre members others outs = .ok (some R)) :
    R.length = members.length ∧
    ∀ (i : Nat) (m : Tree V) (os : List (Tree V)), members[i]? = some m → others[i]? = some os →
      ∃ t, R[i]? = some t ∧
        applyNode { o with names := .noDefault, batchSize := none } fn pre m os (outs.bind (fun l => l[i]?)) = .ok (some t) := by
  unfold applyLazy at h
  have hc1 : (o.inplace && overridden o) = false := by simp [hin]
  simp only [hc1, Bool.false_eq_true, ↓reduceIte] at h
  cases ha : applyMembers { o with names := .noDefault, batchSize := none } fn pre members others outs with
  | error e => simp [ha] at h
  | ok results =>
    simp only [ha] at h
    obtain ⟨h1, h2, h3⟩ := applyMembers_spec _ fn pre members others outs results ha
    by_cases hf : (allNone results && (decide (o.filterEmpty = none) || decide (o.filterEmpty = some true))) = true
    · simp [hf] at h
    · simp only [hf, Bool.false_eq_true, ↓reduceIte] at h
      have hin' : (o.inplace = true) = False := by simp [hin]
      simp only [hin', ↓reduceIte] at h
      by_cases hemp : results.isEmpty = true
      · simp only [hemp, ↓reduceIte] at h
        injection h with h; injection h with h; subst h
        have : results = [] := by simpa using hemp
        subst this
        have hm : members.length = 0 := by simpa using h1.symm
        refine ⟨by simp [hm], fun i m os hmi _ => ?_⟩
        have : members = [] := List.length_eq_zero_iff.mp hm
        subst this; simp at hmi
      · simp only [hemp, Bool.false_eq_true, ↓reduceIte] at h
        by_cases han : allNone results = true
        · simp [han] at h
        · simp only [han, Bool.false_eq_true, ↓reduceIte] at h
          cases hs : allSome results with
          | none => simp [hs] at h
          | some ts =>
            simp only [hs] at h; injection h with h; injection h with h; subst h
            obtain ⟨hl, hg⟩ := allSome_get results ts hs
            refine ⟨by rw [hl, h1], fun i m os hmi hoi => ?_⟩
            obtain ⟨r, hr1, hr2⟩ := h3 i m os hmi hoi
            obtain ⟨t, e, ht⟩ := hg i r hr1
            subst e
            exact ⟨t, ht, hr2⟩

/-! ## metadata -/

/-- **metadata_rules** (result created by the call, i.e. neither `inplace` nor `out`): batch size and device are
the override when given, else self's; the result is unlocked; with `checked` (`_fast_apply`) the names are the
override when given, erased when only the batch size is overridden, else self's. (Without `checked` the names
may additionally be reconciled with those of a nested entry by `_validate_value`.) -/
theorem metadata_rules (o : Opts) (fn : Fn V) (pre : Path) (m : Meta) (es : Entries V)
    (others : List (Tree V)) (r : Tree V) (hin : o.inplace = false)
    (h : applyNode o fn pre (.node m es) others none = .ok (some r)) :
    ∃ rm res, r = .node rm res ∧
      rm.batch = o.batchSize.getD m.batch ∧
      rm.device = (match o.device with | .given d => d | .noDefault => m.device) ∧
      rm.locked = false ∧
      (o.checked = true → rm.names = (match o.names with
          | .given ns => ns
          | .noDefault => if o.batchSize.isSome then none else m.names)) := by
  simp only [applyNode, startResult, hin, Bool.false_eq_true, ↓reduceIte] at h
  cases he : applyEntries o fn pre es others none with
  | error e => simp [he] at h
  | ok oc =>
    simp only [he, assemble] at h
    cases hw : writeOutcomes o.checked (makeResult o m) none oc with
    | error e => simp [hw] at h
    | ok r0 =>
      simp only [hw] at h
      -- whatever was written, the container started as `makeResult o m`
      have key : ∃ rm res, r0.getD (makeResult o m) = Tree.node rm res ∧
          rm.batch = o.batchSize.getD m.batch ∧
          rm.device = (match o.device with | .given d => d | .noDefault => m.device) ∧
          rm.locked = false ∧
          (o.checked = true → rm.names = (match o.names with
              | .given ns => ns
              | .noDefault => if o.batchSize.isSome then none else m.names)) := by
        -- generalise over the start value: `none` behaves like `some (makeResult o m)` once something is written
        have aux : ∀ (oc : List (String × Option (Tree V))) (r0 : Option (Tree V)),
            writeOutcomes o.checked (makeResult o m) none oc = .ok r0 →
            r0 = none ∨ writeOutcomes o.checked (makeResult o m) (some (makeResult o m)) oc = .ok r0 := by
          intro oc
          induction oc with
          | nil => intro r0 h; simp [writeOutcomes] at h; exact Or.inl h.symm
          | cons p rest ih =>
            intro r0 h
            obtain ⟨k, ot⟩ := p
            cases ot with
            | none => simp only [writeOutcomes] at h ⊢; exact ih r0 h
            | some t => right; simp only [writeOutcomes, Option.getD_none, Option.getD_some] at h ⊢; exact h
        rcases aux oc r0 hw with e | hw'
        · subst e
          exact ⟨_, .nil, rfl, rfl, rfl, rfl, fun _ => rfl⟩
        · obtain ⟨m', es', e, hb, hd, hl, hn⟩ := writeOutcomes_meta o.checked (makeResult o m) oc _ .nil r0 hw'
          subst e
          exact ⟨m', es', rfl, hb, hd, hl, hn⟩
      obtain ⟨rm, res, e, rest⟩ := key
      split at h
      · cases h
      · split at h
        · cases h
        · injection h with h; injection h with h
          exact ⟨rm, res, by rw [← h, e], rest⟩

/-- **written_entries_validated**: on the validated path (`apply` / `named_apply`, i.e. not `checked`) with a `device`
override, EVERY entry the function produced a value for -- whether a new value or the very item it was handed -- is
stored after `_validate_value`: the result is on the requested device and so is each nested tensordict written. -/
theorem written_entries_validated (o : Opts) (fn : Fn V) (pre : Path) (m : Meta) (es : Entries V)
    (others : List (Tree V)) (r : Tree V) (d : String) (oc : List (String × Option (Tree V)))
    (hin : o.inplace = false) (hck : o.checked = false) (hdev : o.device = .given (some d))
    (hnd : es.keys.Nodup) (hoc : applyEntries o fn pre es others none = .ok oc)
    (h : applyNode o fn pre (.node m es) others none = .ok (some r)) :
    ∃ rm res, r = .node rm res ∧ rm.device = some d ∧
      ∀ k t, List.lookup k oc = some (some t) → ∃ t', res.get? k = some t' ∧ Tree.onDevice d t' := by
  simp only [applyNode, startResult, hin, Bool.false_eq_true, ↓reduceIte, hoc, assemble, hck] at h
  have hkeys := applyEntries_keys o fn pre es others none oc hoc
  have hfd : ∃ fm, (makeResult o m : Tree V) = .node fm .nil ∧ fm.device = some d := by
    refine ⟨_, rfl, ?_⟩; simp [hdev]
  obtain ⟨fm, hfm, hfdev⟩ := hfd
  cases hw : writeOutcomes false (makeResult o m) none oc with
  | error e => simp [hw] at h
  | ok r0 =>
    simp only [hw] at h
    rcases writeOutcomes_start_none false (makeResult o m) oc r0 hw with ⟨e, hall⟩ | hw'
    · subst e
      refine ⟨fm, .nil, ?_, hfdev, fun k t hl => ?_⟩
      · split at h
        · cases h
        · split at h
          · cases h
          · injection h with h; injection h with h; rw [← h]; simpa using hfm
      · have := lookup_none_of_all_none oc hall k
        rw [hl] at this; simp at this
    · rw [hfm] at hw'
      obtain ⟨m', es', e, h1, _⟩ := writeOutcomes_onDevice d (makeResult o m) oc fm .nil r0 hfdev (by rw [hkeys]; exact hnd) (by rw [hfm]; exact hw')
      subst e
      obtain ⟨_, _, e2, _, hd2, _, _⟩ := writeOutcomes_meta false (makeResult o m) oc fm .nil _ (by rw [hfm]; exact hw')
      injection e2 with e2; injection e2 with e2m e2e; subst e2m
      refine ⟨m', es', ?_, by rw [hd2, hfdev], h1⟩
      split at h
      · cases h
      · split at h
        · cases h
        · injection h with h; injection h with h; rw [← h]; rfl

/-- lock propagation of the front-ends: a result is locked by the call iff `propagate_lock` and self is locked
(and not in place) -/
theorem lock_propagation (o : Opts) (fn : Fn V) (m : Meta) (es : Entries V) (others : List (Tree V))
    (out : Option (Tree V)) (r : Tree V) (h : apply o fn (.node m es) others out = .ok (some r)) :
    ∃ r0, applyNode o fn [] (.node m es) others out = .ok (some r0) ∧
      r = (if o.propagateLock && !o.inplace && m.locked then r0.lockAll else r0) := by
  unfold apply at h
  cases ha : applyNode o fn [] (.node m es) others out with
  | error e => simp [ha] at h
  | ok x =>
    cases x with
    | none => simp [ha] at h
    | some r0 =>
      simp only [ha] at h
      refine ⟨r0, rfl, ?_⟩
      split at h <;> (injection h with h; injection h with h; simp_all)

end TdVerif.Props.C20

namespace TdVerif.Props.C20
open TdVerif.C20

/-! ## non-vacuity -/

private def mt0 : Meta := ⟨[2], none, none, false⟩
private def fnEx : Fn Nat := fun key item args =>
  match item with
  | .leaf v => if v = 3 then none else some (.leaf (v * 100 + args.length + key.length))
  | _ => none
private def selfEx : Tree Nat := .node mt0 (.cons "a" (.leaf 1) (.cons "n" (.node mt0 (.cons "b" (.leaf 2) (.cons "c" (.leaf 3) .nil))) .nil))
private def otherEx : Tree Nat := .node mt0 (.cons "n" (.node mt0 (.cons "c" (.leaf 30) (.cons "b" (.leaf 20) .nil))) (.cons "a" (.leaf 10) .nil))

-- keyed pairing, `None` results dropped, named with nested keys
example : apply { named := true, nestedKeys := true } fnEx selfEx [otherEx] none
    = .ok (some (.node mt0 (.cons "a" (.leaf 102) (.cons "n" (.node mt0 (.cons "b" (.leaf 203) .nil)) .nil)))) := by rfl
-- a missing operand entry without default raises KeyError, with default the function sees `Arg.dflt`
example : apply {} fnEx selfEx [.node mt0 (.cons "a" (.leaf 10) .nil)] none = .error .key := by rfl
example : (apply { hasDefault := true } fnEx selfEx [.node mt0 (.cons "a" (.leaf 10) .nil)] none).toOption.isSome = true := by rfl
-- threads: any completion order
example : mtApply { checked := true } fnEx [2, 0, 1] selfEx [otherEx] none
    = apply { checked := true } fnEx selfEx [otherEx] none := by rfl
-- filter_empty: nothing set
example : apply { filterEmpty := some true } (fun _ _ _ => none) selfEx [] none = .ok none := by rfl
example : apply { filterEmpty := some false } (fun _ _ _ => (none : Option (Tree Nat))) selfEx [] none
    = .ok (some (.node mt0 (.cons "n" (.node mt0 .nil) .nil))) := by rfl
-- locked out
example : apply {} fnEx selfEx [] (some (.node { mt0 with locked := true } .nil)) = .error .lock := by rfl

end TdVerif.Props.C20
