/-
  C15 — a tensorclass behaves as its underlying tensordict with typed fields: property theorems.

  Models: Gen/TcTables.lean (REGENERATED from tensordict/tensorclass.py + reflection on every run:
  the seven hand-maintained name lists, the installation program of `_tensorclass`, the reflected
  API), Model/C15Tensorclass.lean (hand transcription of the wrappers and of `_getattr`/`_set`,
  tied by the correspondence run of harness/check_C15.py).

  Sections
    1. tables        — facts about the generated tables, `decide +kernel`, re-checked against the source each run
    2. dispatch      — facts about the installation order that hold for EVERY class configuration
    3. wrappers      — `_wrap_td_method`, `_from_tensordict`, `__torch_function__` (any tensordict semantics)
    4. typed fields  — attribute access is key access; assignment is `set` with the type rules
-/
import TdVerif.Lemmas.C15Dispatch
import TdVerif.Lemmas.C15Wrap
import TdVerif.Lemmas.C15Fields
import TdVerif.Lemmas.C15Update
import TdVerif.Lemmas.C15SetInplace
import TdVerif.Lemmas.C15Pytree

namespace TdVerif.Props.C15
open TdVerif.C15 TdVerif.Gen.Tc

/-! ### 1. tables -/

/-- the five delegation lists of tensorclass.py, in the order `_tensorclass` consumes them -/
def delegationTables : List (List Nat) :=
  [methodFromTd, fallbackWrap, fallbackForce, fallbackNowrap, fallbackCopy]

/-- No method name sits in two delegation lists (a name in two lists is served by whichever loop
runs first; the second entry is silently dead).  Holds on the repaired tree; on the pinned tree
`_clone` was both in `_FALLBACK_METHOD_FROM_TD` and `_FALLBACK_METHOD_FROM_TD_COPY`. -/
theorem tables_disjoint : delegationTables.Pairwise (fun a b => ∀ m, m ∈ a → m ∉ b) :=
  pairwiseDisjointB_spec (by decide +kernel)

/-- no list names a method twice -/
theorem tables_nodup : ∀ l ∈ delegationTables, l.Nodup := by
  have h : delegationTables.all nodupB = true := by decide +kernel
  intro l hl
  exact nodupB_spec ((List.all_eq_true.mp h) l hl)

/-- every list entry names something the tensordict API really has (a typo would install a wrapper
that raises `AttributeError` at call time) -/
theorem tables_name_real_methods : ∀ l ∈ delegationTables, ∀ m ∈ l, m ∈ tdAttrs := by
  have h : delegationTables.all (fun l => l.all (fun m => mem m tdAttrs)) = true := by decide +kernel
  intro l hl m hm
  exact mem_iff.mp ((List.all_eq_true.mp ((List.all_eq_true.mp h) l hl)) m hm)

/-- operators of the tensordict API that a tensorclass does not install, with the reason they are
accepted: `__iter__` is served by python's sequence protocol through the installed `__getitem__`
(raising `IndexError` past the end); the correspondence run compares `list(tc)` with `list(td)`. -/
def documentedUncovered : List Nat := [idOf "__iter__"]

/-- Every public method and every operator of the tensordict API (enumerated by reflection on every
run) is installed on a decorator-declared tensorclass and backed by the tensordict implementation —
none is left to the deprecated `__getattr__` fallback (`.fallback`), none is missing. -/
theorem api_covered : ∀ m ∈ publicApi ++ operatorApi,
    (dispatch (stdCfg []) m).covered = true ∨ m ∈ documentedUncovered := by
  have h : (publicApi ++ operatorApi).all
      (fun m => (dispatch (stdCfg []) m).covered || mem m documentedUncovered) = true := by decide +kernel
  intro m hm
  have := (List.all_eq_true.mp h) m hm
  simp only [Bool.or_eq_true, mem_iff] at this
  exact this

/-- the same for `frozen=True` classes (dataclass adds `__setattr__`/`__delattr__` to the class body) -/
theorem api_covered_frozen : ∀ m ∈ publicApi ++ operatorApi,
    (dispatch (frozenCfg []) m).covered = true ∨ m ∈ documentedUncovered := by
  have h : (publicApi ++ operatorApi).all (fun m => mem m dataclassAddsFrozen == mem m dataclassAdds) = true := by
    decide +kernel
  intro m hm
  have hm' := (List.all_eq_true.mp h) m hm
  simp only [beq_iff_eq] at hm'
  have : dispatch (frozenCfg []) m = dispatch (stdCfg []) m :=
    dispatch_congr_own (stdCfg []) dataclassAddsFrozen m hm'
  rw [this]
  exact api_covered m hm

/-- … and the same for every set of declared fields, for every API name that is not itself a field
(without `shadow=True` a field cannot be an API name at all: `_tensorclass` rejects it). -/
theorem api_covered_any_fields (fs : List Nat) : ∀ m ∈ publicApi ++ operatorApi, m ∉ fs →
    (dispatch (stdCfg fs) m).covered = true ∨ m ∈ documentedUncovered := by
  intro m hm hfs
  have hmf : mem m fs = false := by
    cases h : mem m fs
    · rfl
    · exact absurd (mem_iff.mp h) hfs
  have : dispatch (stdCfg fs) m = dispatch (stdCfg []) m :=
    dispatch_fields_irrelevant (stdCfg []) fs m hmf rfl
  rw [this]
  exact api_covered m hm

/-- entries of the lists that never take effect because `_tensorclass` installs an explicit
implementation under the same name first (dead entries, harmless) -/
def deadEntries : List Nat :=
  [idOf "__bool__", idOf "__eq__", idOf "__ne__", idOf "__or__", idOf "__xor__", idOf "_memmap_"]

def kindOfTable : TableId → Kind
  | .methodFromTd => .fromTD
  | .fallbackWrap => .wrap
  | .fallbackForce => .wrap
  | .fallbackNowrap => .nowrap
  | .fallbackCopy => .copy

/-- Every entry of every list takes effect: on a plain class the name is served by exactly the
wrapper its list announces (so a method cannot be silently handled by a different policy than the
one the maintainers wrote down), except for the documented dead entries. -/
theorem entries_effective : ∀ t : TableId, ∀ m ∈ tableOf t,
    dispatch (stdCfg []) m = kindOfTable t ∨ m ∈ deadEntries := by
  have h : [TableId.methodFromTd, .fallbackWrap, .fallbackForce, .fallbackNowrap, .fallbackCopy].all
      (fun t => (tableOf t).all (fun m => dispatch (stdCfg []) m == kindOfTable t || mem m deadEntries)) = true := by
    decide +kernel
  intro t m hm
  have ht : t ∈ [TableId.methodFromTd, .fallbackWrap, .fallbackForce, .fallbackNowrap, .fallbackCopy] := by
    cases t <;> simp
  have := (List.all_eq_true.mp ((List.all_eq_true.mp h) t ht)) m hm
  simp only [Bool.or_eq_true, beq_iff_eq, mem_iff] at this
  exact this

/-- torch functions the library overrides for tensordicts but does not pass through for
tensorclasses (none on the repaired tree) -/
def documentedNoPassThrough : List Nat := []

/-- Every torch function overridden for tensordicts (`TD_HANDLED_FUNCTIONS`, by reflection) is
served by the tensorclass `__torch_function__` (`_TD_PASS_THROUGH`). -/
theorem torch_overrides_covered : ∀ f ∈ handledFunctions, f ∈ passThrough ∨ f ∈ documentedNoPassThrough := by
  have h : handledFunctions.all (fun f => mem f passThrough || mem f documentedNoPassThrough) = true := by
    decide +kernel
  intro f hf
  have := (List.all_eq_true.mp h) f hf
  simp only [Bool.or_eq_true, mem_iff] at this
  exact this

/-- and nothing is passed through that the tensordict side does not implement (would be a KeyError
in `TD_HANDLED_FUNCTIONS[func]`) -/
theorem pass_through_handled : ∀ f ∈ passThrough, f ∈ handledFunctions := by
  have h : passThrough.all (fun f => mem f handledFunctions) = true := by decide +kernel
  intro f hf
  exact mem_iff.mp ((List.all_eq_true.mp h) f hf)

/-! ### 2. dispatch, for every class configuration -/

/-- `_FALLBACK_METHOD_FROM_TD_FORCE`: the comparison operators are served by the tensordict wrapper
whatever the class defines or inherits (`object.__ge__`, a user `__lt__`, a dataclass `order=True`). -/
theorem force_overrides_user_attr (cfg : ClassCfg) : ∀ m ∈ fallbackForce, dispatch cfg m = .wrap := by
  have h : fallbackForce.all (fun m => forcedBy m .wrap installProgram) = true := by decide +kernel
  intro m hm
  exact dispatch_forced cfg m .wrap ((List.all_eq_true.mp h) m hm)

/-- names `_tensorclass` installs unconditionally (user definitions are overwritten) -/
def unconditional : List Nat :=
  installProgram.filterMap (fun s => match s with
    | .assign a [] _ => some a
    | .assign a [.notNonTensor] _ => some a
    | _ => none)

/-- A method defined in the user's class body is left alone by every guarded installation statement:
for every name of the wrap / no-wrap / copy / from-td lists and every guarded explicit method. -/
theorem user_attr_survives (cfg : ClassCfg) (m : Nat) (hown : m ∈ cfg.own)
    (hf : m ∉ fallbackForce) (hu : m ∉ unconditional) : dispatch cfg m = .user := by
  -- names no installation statement mentions are protected trivially; the others are checked on the table
  have h : (installNames).all
      (fun m => mem m fallbackForce || mem m unconditional || allProtect m installProgram) = true := by
    decide +kernel
  by_cases hin : mem m installNames = true
  · have := (List.all_eq_true.mp h) m (mem_iff.mp hin)
    simp only [Bool.or_eq_true, mem_iff] at this
    rcases this with (h1 | h1) | h1
    · exact absurd h1 hf
    · exact absurd h1 hu
    · exact dispatch_user cfg m (mem_iff.mpr hown) h1
  · exact dispatch_user cfg m (mem_iff.mpr hown) (allProtect_of_not_mentioned m installProgram (by simpa [installNames] using hin))


/-- the no-wrap list serves exactly the value-like members of the tensordict API (properties and
plain class attributes such as `is_meta`) as attributes, and the methods as methods.  On the pinned
tree `is_meta` (a plain `bool` class attribute) was installed as a method: `tc.is_meta` was a
(truthy) bound method. -/
theorem nowrap_values_are_properties : ∀ m ∈ fallbackNowrap,
    (servedAsProperty m = true ↔ (m ∈ tdProperties ∨ m ∈ tdValueAttrs)) := by
  have h : fallbackNowrap.all (fun m => servedAsProperty m == (mem m tdProperties || mem m tdValueAttrs)) = true := by
    decide +kernel
  intro m hm
  have := (List.all_eq_true.mp h) m hm
  simp only [beq_iff_eq] at this
  rw [this, Bool.or_eq_true, mem_iff, mem_iff]

/-- classmethods for which `_tensorclass` installs a tensorclass implementation of its own -/
def explicitClassmethods : List Nat :=
  installProgram.filterMap (fun s => match s with
    | .assign a _ (.explicit impl) => if impl.startsWith "classmethod:" then some a else none
    | _ => none)

/-- a class that inherits from a tensorclass (every subclass of `TensorClass["nocast"]`, …, or of a
user tensorclass): all attributes of the parent are visible through the bases -/
def childCfg (fs : List Nat) : ClassCfg :=
  ⟨fs, dataclassAdds, objectAttrs ++ installNames, false, explicitClassmethods⟩

/-- A child tensorclass is served like its parent: every API member is either inherited from the
parent tensorclass or re-installed with the same policy.  (On the pinned tree `from_dict` and
`_load_memmap` of a child were overwritten by wrappers around the `TensorDict` classmethods:
`Child.load_memmap(path)` raised `KeyError: 'device'`.) -/
theorem child_served_like_parent : ∀ m ∈ publicApi ++ operatorApi ++ explicitClassmethods,
    dispatch (childCfg []) m = .inherited ∨ dispatch (childCfg []) m = dispatch (stdCfg []) m := by
  have h : (publicApi ++ operatorApi ++ explicitClassmethods).all
      (fun m => dispatch (childCfg []) m == .inherited || dispatch (childCfg []) m == dispatch (stdCfg []) m) = true := by
    decide +kernel
  intro m hm
  have := (List.all_eq_true.mp h) m hm
  simpa only [Bool.or_eq_true, beq_iff_eq] using this

theorem child_keeps_tensorclass_classmethods : ∀ m ∈ explicitClassmethods,
    dispatch (childCfg []) m = .inherited ∨ (∃ i, dispatch (childCfg []) m = .explicit i) := by
  have h : explicitClassmethods.all (fun m => match dispatch (childCfg []) m with
      | .inherited => true | .explicit _ => true | _ => false) = true := by decide +kernel
  intro m hm
  have := (List.all_eq_true.mp h) m hm
  split at this
  · exact Or.inl (by assumption)
  · exact Or.inr ⟨_, by assumption⟩
  · cases this

/-- a declared field is readable as an attribute (reaches `_getattr`'s field branch) exactly when no
installation statement put a class attribute under the same name -/
theorem field_visible_iff (cfg : ClassCfg) (f : Nat) (hf : f ∈ cfg.fields)
    (hi : mem f cfg.inherited = false) (hd : mem f dunderNames = false) :
    dispatch cfg f = .explicit "field" ↔ installed cfg f = none := by
  unfold dispatch
  cases h : installed cfg f with
  | none => simp [hi, hd, mem_iff.mpr hf]
  | some k =>
    simp only [reduceCtorEq, iff_false]
    intro hk
    -- no installation statement uses the tag "field"
    have hp : ∀ (prog : List Step) (st : Option Kind), st ≠ some (.explicit "field") →
        (prog.all fun s => match s with
          | .assign _ _ k => k != .explicit "field"
          | .loop _ _ k => k != .explicit "field"
          | .classmethodLoop _ => true) = true →
        runProgram cfg f st prog ≠ some (.explicit "field") := by
      intro prog
      induction prog with
      | nil => intro st hst _; simpa [runProgram] using hst
      | cons s r ih =>
        intro st hst hall
        simp only [List.all_cons, Bool.and_eq_true] at hall
        simp only [runProgram]
        apply ih _ _ hall.2
        cases s with
        | assign a gs k' =>
          simp only [stepFor]
          cases hc : (Nat.beq a f && guardsOk cfg f st.isSome gs)
          · simpa using hst
          · have := hall.1; simp only [bne_iff_ne, ne_eq] at this; simpa using this
        | loop t gs k' =>
          simp only [stepFor]
          cases hc : (mem f (tableOf t) && guardsOk cfg f st.isSome gs)
          · simpa using hst
          · have := hall.1; simp only [bne_iff_ne, ne_eq] at this; simpa using this
        | classmethodLoop keep =>
          simp only [stepFor]
          cases hc : (mem f tdOwnClassmethods && !st.isSome && !(keep && mem f cfg.inheritedClassmethods))
          · simpa using hst
          · simp
    have hall : (installProgram.all fun s => match s with
          | .assign _ _ k => k != .explicit "field"
          | .loop _ _ k => k != .explicit "field"
          | .classmethodLoop _ => true) = true := by decide +kernel
    have := hp installProgram (bif mem f cfg.own then some .user else none)
      (by cases mem f cfg.own <;> simp) hall
    rw [hk] at h
    exact this h

/-- (shadow classes) FINDING C15-shadow-field-hidden: a field named like an entry of the wrap list is NOT readable as
an attribute — the `_FALLBACK_METHOD_FROM_TD` loop lacks the `not in expected_keys` test that the
no-wrap loop and the explicit installs have.  Concrete witness: field `exp`. -/
theorem shadow_field_hidden_counterexample :
    dispatch (stdCfg [idOf "exp"]) (idOf "exp") = .wrap
    ∧ dispatch (stdCfg [idOf "batch_dims"]) (idOf "batch_dims") = .explicit "field" := by
  decide +kernel

/-! ### 3. wrappers -/

section wrappers
variable {TD V X : Type} (fields : List String) (keys : TD → List String)

/-- `wrap_commutes`: a method of the wrap (or copy) list returning a *new* tensordict `t` of matching
structure gives an instance of the SAME class around exactly `t` (the value the tensordict call
produced), whose non-tensor dict keeps every entry of the receiver that `t` does not shadow and
holds `None` placeholders for precisely the declared fields `t` lacks. -/
theorem wrap_commutes (self : TC TD V) (t : TD) (hm : Matching fields (keys t) self.nt) :
    ∃ nt', wrapCall (X := X) fields keys false self (.single (.td t false))
        = .ok (.single (.tc ⟨self.cls, t, nt'⟩))
      ∧ (∀ k, k ∈ nt'.keys ↔ (k ∈ fields ∧ k ∉ keys t))
      ∧ (∀ kv ∈ self.nt, kv.1 ∉ keys t → kv ∈ nt')
      ∧ (∀ kv ∈ nt', kv ∈ self.nt ∨ kv.2 = none) := by
  obtain ⟨nt', h⟩ := fromTensordict_ok_iff.mpr hm
  refine ⟨nt', ?_, fromTensordict_spec h⟩
  simp [wrapCall, deliver, h, Except.map]

/-- … and it is re-wrapped ONLY then: on a non-matching structure the wrapper raises (`ValueError`
for a key outside the declared fields, `KeyError` for a clash) instead of returning the bare
tensordict.  FINDING C15-nonmatching-raises (e.g. `flatten_keys()` on a tensorclass with a nested
field): the property asks for the tensordict result in that case. -/
theorem wrap_rejects_iff (self : TC TD V) (t : TD) :
    (∃ e, wrapCall (X := X) fields keys false self (.single (.td t false)) = .error e)
      ↔ ¬ Matching fields (keys t) self.nt := by
  rw [← fromTensordict_ok_iff]
  simp only [wrapCall, deliver, Bool.false_eq_true, ↓reduceIte]
  cases h : fromTensordict fields (keys t) self.nt with
  | error e => simp [Except.map]
  | ok nt' => simp [Except.map]

/-- in-place spelling (`result is td`): the very same tensorclass object comes back -/
theorem wrap_inplace_returns_self (self : TC TD V) :
    wrapCall (X := X) fields keys false self (.single .selfTd) = .ok (.single .selfTc) := by
  simp [wrapCall]

/-- `None`, tensors, bools, views…: returned untouched -/
theorem wrap_passes_non_td (self : TC TD V) (x : X) :
    wrapCall fields keys false self (.single (.other x)) = .ok (.single (.other x))
    ∧ wrapCall (X := X) fields keys false self (.single .none) = .ok (.single .none) := by
  simp [wrapCall, deliver, Except.map]

/-- the `out=` argument is handed back as it is (not re-wrapped) -/
theorem wrap_out_kwarg_raw (self : TC TD V) (t : TD) :
    wrapCall (X := X) fields keys false self (.single (.td t true)) = .ok (.single (.rawTd t)) := by
  simp [wrapCall, deliver, Except.map]

/-- tuple results (`split`, `chunk`, `split_keys`, …): delivered element by element, in order, same length -/
theorem wrap_tuple_elementwise (self : TC TD V) (l : List (Item TD X)) (os : List (OutItem TD V X))
    (h : wrapCall fields keys false self (.tuple l) = .ok (.tuple os)) :
    os.length = l.length ∧ ∀ p ∈ l.zip os, deliver fields keys self p.1 = .ok p.2 := by
  simp only [wrapCall, Bool.false_eq_true, ↓reduceIte] at h
  cases hr : deliverAll fields keys self l with
  | error e => simp [hr, Except.map] at h
  | ok os' =>
    simp only [hr, Except.map] at h
    injection h with h; injection h with h; subst h
    exact deliverAll_spec fields keys self l os' hr

/-- `nowrap_returns_raw`: a method of the no-wrap list returns exactly what the tensordict returned -/
theorem nowrap_returns_raw (self : TC TD V) (r : Res TD X) :
    wrapCall (V := V) fields keys true self r =
      .ok (match r with
        | .single i => .single (rawItem i)
        | .tuple l => .tuple (l.map rawItem)) := by
  cases r <;> simp [wrapCall]

/-- `__torch_function__` declines (→ `TypeError` in torch) every function outside `_TD_PASS_THROUGH` -/
theorem torch_function_not_served (func : Nat) (first : TC TD V) (r : Res TD X) (h : func ∉ passThrough) :
    torchFunction fields keys func first r = .error .notImplemented := by
  unfold torchFunction
  cases hm : mem func passThrough
  · simp
  · exact absurd (mem_iff.mp hm) h

/-- … and for a passed-through function a tensordict result of matching structure comes back in the
class of the first tensorclass argument, around exactly the tensordict the library function built,
with the non-tensor fields of that first argument. -/
theorem torch_function_rewraps (func : Nat) (first : TC TD V) (t : TD) (b : Bool) (h : func ∈ passThrough)
    (hm : Matching fields (keys t) first.nt) :
    ∃ nt', torchFunction (X := X) fields keys func first (.single (.td t b))
        = .ok (.single (.tc ⟨first.cls, t, nt'⟩))
      ∧ (∀ k, k ∈ nt'.keys ↔ (k ∈ fields ∧ k ∉ keys t))
      ∧ (∀ kv ∈ first.nt, kv.1 ∉ keys t → kv ∈ nt') := by
  obtain ⟨nt', hh⟩ := fromTensordict_ok_iff.mpr hm
  refine ⟨nt', ?_, (fromTensordict_spec hh).1, (fromTensordict_spec hh).2.1⟩
  simp [torchFunction, mem_iff.mpr h, hh, Except.map]

end wrappers


/-! ### 4. typed fields: attribute access is key access -/

section fields
variable {T V : Type}

/-- `attr_is_key` (read): on a well-formed instance, reading a declared field as an attribute gives what
string-key access gives on the plain tensordict the tensorclass stands for (`to_tensordict()`): tensors
and nested collections as they are, non-tensor data unwrapped, `None` placeholders as `None`. -/
theorem getattr_is_getitem (fields : List String) (tc : TC (TDm T V) V) (hwf : WF fields tc) (f : String) :
    getField tc f = tdGetItem (toTensordict tc) f := by
  unfold getField tdGetItem toTensordict
  simp only
  rw [lookup_foldl_assocSet (fun v => Entry.ntData v) f tc.nt tc.td.entries hwf.nt_nodup]
  cases hnt : tc.nt.lookup f with
  | none => simp
  | some v =>
    -- the key is in `_non_tensordict`, hence (well-formedness) not in `_tensordict`
    have hk : f ∈ tc.nt.keys := by
      have : tc.nt.lookup f ≠ none := by simp [hnt]
      simpa [NT.keys] using (not_congr (lookup_eq_none_iff_not_mem_keys f tc.nt)).mp this
    have htd : tc.td.entries.lookup f = none := by
      rw [lookup_eq_none_iff_not_mem_keys]
      intro h
      exact hwf.disj f (by simpa [TDm.keys] using h) hk
    cases v <;> simp [htd, unwrapEntry]

/-- a `None` placeholder never hides an entry of `_tensordict` (repaired `_getattr`): whatever wrote the
entry — `setdefault`, `rename_key_`, `create_nested`, any wrapped method — it is what the attribute reads. -/
theorem placeholder_does_not_hide_entry (tc : TC (TDm T V) V) (f : String) (e : Entry T V)
    (hnt : tc.nt.lookup f = some none) (htd : tc.td.entries.lookup f = some e) :
    getField tc f = .ok (unwrapEntry e) := by
  simp [getField, hnt, htd]

/-- REGRESSION WITNESS (repaired): the pinned `_getattr` returned the placeholder first -/
theorem placeholder_hides_entry_pinned_counterexample :
    let tc : TC (TDm Nat Nat) Nat := ⟨"A", ⟨[("x", .leaf 1), ("o", .leaf 5)], false⟩, [("o", none)]⟩
    getFieldPinned tc "o" = .ok (.obj none) ∧ getField tc "o" = .ok (.tensor 5)
    ∧ tdGetItem tc.td "o" = .ok (.tensor 5) := by
  simp [getFieldPinned, getField, tdGetItem, List.lookup, unwrapEntry]

/-- `attr_is_key` (write): assignment keeps the instance well-formed — every declared field still lives
in exactly one of `_tensordict` / `_non_tensordict` and nothing undeclared was created. -/
theorem set_preserves_wf (fields : List String) (o : Opts) (h : Hint) (tc tc' : TC (TDm T V) V) (key : String)
    (a : SetArg T V) (hwf : WF fields tc) (hs : setField fields o h tc key a = .ok tc') : WF fields tc' := by
  obtain ⟨_, hk, hshape⟩ := setField_shape fields o h tc tc' key a hs
  rcases hshape with ⟨e, rfl⟩ | ⟨_, rfl⟩
  · refine ⟨?_, ?_, ?_, ?_, ?_⟩
    · intro k hk'
      rcases ((keys_setTensor tc key e k).1).mp hk' with rfl | h1
      · exact hk
      · exact hwf.td_sub k h1
    · intro k hk'
      exact hwf.nt_sub k (((keys_setTensor tc key e k).2).mp hk').2
    · intro f hf
      by_cases hfk : f = key
      · exact Or.inl (((keys_setTensor tc key e f).1).mpr (Or.inl hfk))
      · rcases hwf.cover f hf with h1 | h1
        · exact Or.inl (((keys_setTensor tc key e f).1).mpr (Or.inr h1))
        · exact Or.inr (((keys_setTensor tc key e f).2).mpr ⟨hfk, h1⟩)
    · intro k hk' hnt
      have hnt' := ((keys_setTensor tc key e k).2).mp hnt
      rcases ((keys_setTensor tc key e k).1).mp hk' with rfl | h1
      · exact hnt'.1 rfl
      · exact hwf.disj k h1 hnt'.2
    · exact nodup_keys_assocDel key tc.nt hwf.nt_nodup
  · refine ⟨?_, ?_, ?_, ?_, ?_⟩
    · intro k hk'
      exact hwf.td_sub k (((keys_setNone tc key k).1).mp hk').2
    · intro k hk'
      rcases ((keys_setNone tc key k).2).mp hk' with rfl | h1
      · exact hk
      · exact hwf.nt_sub k h1
    · intro f hf
      by_cases hfk : f = key
      · exact Or.inr (((keys_setNone tc key f).2).mpr (Or.inl hfk))
      · rcases hwf.cover f hf with h1 | h1
        · exact Or.inl (((keys_setNone tc key f).1).mpr ⟨hfk, h1⟩)
        · exact Or.inr (((keys_setNone tc key f).2).mpr (Or.inr h1))
    · intro k hk' hnt
      have htd := ((keys_setNone tc key k).1).mp hk'
      rcases ((keys_setNone tc key k).2).mp hnt with rfl | h1
      · exact htd.1 rfl
      · exact hwf.disj k htd.2 h1
    · exact nodup_keys_assocSet key none tc.nt hwf.nt_nodup

/-- `set_frame`: assigning one field leaves every other field reading what it read before -/
theorem set_frame (fields : List String) (o : Opts) (h : Hint) (tc tc' : TC (TDm T V) V) (key g : String)
    (a : SetArg T V) (hs : setField fields o h tc key a = .ok tc') (hg : g ≠ key) :
    getField tc' g = getField tc g := by
  obtain ⟨_, _, hshape⟩ := setField_shape fields o h tc tc' key a hs
  rcases hshape with ⟨e, rfl⟩ | ⟨_, rfl⟩
  · simp [getField_setTensor, hg]
  · simp [getField_setNone, hg]

/-- SPEC — the typing rules of a tensorclass field, as the class docstring states them:
`None` stays `None`; tensors and tensor collections are stored as they are; python numbers / arrays
become tensors unless `nocast`; any other object is kept as a python object; under `autocast` the
value is converted to the annotated type (tensor-like annotation → tensor, dict under a
tensor-collection annotation → that collection, other class → `cls(value)`). -/
def readBack (o : Opts) (h : Hint) (a : SetArg T V) : Except Err (AttrVal T V) :=
  if a.kind = .none then .ok (.obj none)
  else if o.autocast then
    match h with
    | .accepted | .collection =>
      if a.kind = .dict then
        (if h = .collection then .ok (.tensor a.fromDict) else .ok (.obj (some a.raw)))
      else match a.castAccepted with
        | some t => .ok (.tensor t)
        | none => .error .type
    | .otherType =>
      if a.kind = .dict then .ok (.obj (some a.raw))
      else match a.castOther with
        | some c => .ok (.obj (some c))
        | none => .error .type
    | .any =>
      match a.kind with
      | .tensor | .castable => .ok (.tensor a.asTensor)
      | _ => .ok (.obj (some a.raw))
  else
    match a.kind with
    | .tensor => .ok (.tensor a.asTensor)
    | .castable => if o.nocast then .ok (.obj (some a.raw)) else .ok (.tensor a.asTensor)
    | _ => .ok (.obj (some a.raw))

/-- `attr_is_key` (typed write then read): on an unlocked instance and a declared field, `tc.f = v`
followed by `tc.f` gives exactly the typed form of `v`; and it fails exactly when the conversion fails. -/
theorem set_reads_back (fields : List String) (o : Opts) (h : Hint) (tc : TC (TDm T V) V) (key : String)
    (a : SetArg T V) (hl : tc.td.locked = false) (hk : key ∈ fields) :
    (setField fields o h tc key a).bind (fun tc' => getField tc' key) = readBack o h a := by
  have hk' : fields.contains key = true := by simpa using hk
  unfold setField readBack
  simp only [hl, Bool.false_eq_true, ↓reduceIte, hk', Bool.not_true]
  cases ho : o.autocast <;> cases hkind : a.kind <;> cases h <;>
    (try (cases hn : o.nocast)) <;> (try (cases hc : a.castAccepted)) <;> (try (cases hc2 : a.castOther)) <;>
    simp [Except.bind, bind, getField_setTensor, getField_setNone, unwrapEntry]

/-- a locked instance rejects every assignment and is left untouched (the result carries no new state) -/
theorem set_locked_rejects (fields : List String) (o : Opts) (h : Hint) (tc : TC (TDm T V) V) (key : String)
    (a : SetArg T V) (hl : tc.td.locked = true) : setField fields o h tc key a = .error .lock := by
  simp [setField, hl]

/-- an undeclared attribute cannot be created through assignment -/
theorem set_undeclared_rejects (fields : List String) (o : Opts) (h : Hint) (tc : TC (TDm T V) V) (key : String)
    (a : SetArg T V) (hl : tc.td.locked = false) (hk : key ∉ fields) :
    setField fields o h tc key a = .error .attr := by
  simp [setField, hl, hk]

/-- REGRESSION WITNESS (defect repaired by a `fix:` commit): the pinned autocast branch for a dict
value under a tensor-collection annotation left the `None` placeholder behind, so (with the pinned
`_getattr`) the field kept reading `None` although `_tensordict` held the converted value. -/
theorem autocast_dict_stale_none_counterexample :
    let tc : TC (TDm Nat Nat) Nat := ⟨"A", ⟨[("x", .leaf 1)], false⟩, [("n", none)]⟩
    let a : SetArg Nat Nat := ⟨.dict, 7, 0, none, 42, none⟩
    getFieldPinned (setFieldDictPinned tc "n" a) "n" = .ok (.obj none)
    ∧ tdGetItem (setFieldDictPinned tc "n" a).td "n" = .ok (.tensor 42)
    ∧ (setField ["x", "n"] ⟨true, false⟩ .collection tc "n" a).bind (fun tc' => getField tc' "n") = .ok (.tensor 42) := by
  refine ⟨?_, ?_, ?_⟩ <;>
    simp [getField, getFieldPinned, setFieldDictPinned, tdGetItem, assocSet, List.lookup, unwrapEntry, setField, setTensor,
      assocDel, Except.bind]

end fields


/-! ### 5. indexing and indexed assignment of a tensorclass: non-tensor fields survive -/

section items
variable {TD V : Type} (fields : List String) (keys : TD → List String)

/-- well-formedness for an arbitrary tensordict type: every declared field lives in exactly one of the two dicts -/
structure WFk (tc : TC TD V) : Prop where
  td_sub : ∀ k ∈ keys tc.td, k ∈ fields
  nt_sub : ∀ k ∈ tc.nt.keys, k ∈ fields
  cover : ∀ f ∈ fields, f ∈ keys tc.td ∨ f ∈ tc.nt.keys
  disj : ∀ k ∈ keys tc.td, k ∉ tc.nt.keys

/-- `tc[index]`: whatever the batch index does to the underlying tensordict, as long as it keeps the key set (reads do),
the result is an instance of the same class around exactly that tensordict with EXACTLY the same non-tensor dict —
non-tensor fields survive indexing unchanged. -/
theorem getitem_keeps_fields (tdIndex : TD → Except Err TD) (tc : TC TD V) (t : TD) (hwf : WFk fields keys tc)
    (hi : tdIndex tc.td = .ok t) (hk : ∀ k, k ∈ keys t ↔ k ∈ keys tc.td) :
    getitemTc fields keys tdIndex .batch tc = .ok ⟨tc.cls, t, tc.nt⟩ := by
  have hm : Matching fields (keys t) tc.nt := by
    refine ⟨?_, ?_, hwf.nt_sub⟩
    · intro kv hkv hin
      exact absurd (List.mem_map.mpr ⟨kv, hkv, rfl⟩) (hwf.disj kv.1 ((hk kv.1).mp hin))
    · intro k hkk
      exact hwf.td_sub k ((hk k).mp hkk)
  simp only [getitemTc, hi, fromTensordict_ok_of_matching hm, Except.map]
  congr 2
  have h1 : tc.nt.filter (fun kv => !(keys t).contains kv.1) = tc.nt := by
    rw [List.filter_eq_self]
    intro kv hkv
    have hnot : kv.1 ∉ keys t := fun hin => hwf.disj kv.1 ((hk kv.1).mp hin) (List.mem_map.mpr ⟨kv, hkv, rfl⟩)
    simpa using hnot
  have h2 : fields.filter (fun f => !(keys t).contains f && !tc.nt.keys.contains f) = [] := by
    rw [List.filter_eq_nil_iff]
    intro f hf
    simp only [Bool.and_eq_true, Bool.not_eq_eq_eq_not, Bool.not_true, not_and, Bool.not_eq_false]
    intro h
    rcases hwf.cover f hf with hc | hc
    · have : (keys t).contains f = true := by simpa using (hk f).mpr hc
      rw [this] at h
      simp at h
    · simpa using hc
  rw [h1, h2]
  simp

/-- string keys are not indices of a tensorclass (fields are attributes) -/
theorem getitem_rejects_keys (tdIndex : TD → Except Err TD) (tc : TC TD V) :
    getitemTc fields keys tdIndex .key tc = .error .value := rfl

/-- `tc[index] = value` with a tensorclass value: same class afterwards; the write itself is the tensordict's indexed
write with `value._tensordict`; every non-tensor entry survives except the `None` placeholders of fields the value brings
as tensordict entries; nothing is added to the non-tensor dict. -/
theorem setitem_keeps_nontensor (tdSetAt : TD → Option TD → Except Err TD) (tc tc' v : TC TD V)
    (h : setitemTc keys tdSetAt .batch tc (.tc v) = .ok tc') :
    tc'.cls = tc.cls
    ∧ tdSetAt tc.td (some v.td) = .ok tc'.td
    ∧ (∀ kv ∈ tc.nt, kv.1 ∉ keys v.td → kv ∈ tc'.nt)
    ∧ (∀ kv ∈ tc'.nt, kv ∈ tc.nt ∧ kv.1 ∉ keys v.td) := by
  simp only [setitemTc, reduceCtorEq, ↓reduceIte] at h
  split at h
  · cases h
  · cases ht : tdSetAt tc.td (some v.td) with
    | error e => simp [ht, Except.map] at h
    | ok t' =>
      simp only [ht, Except.map] at h
      injection h with h
      subst h
      refine ⟨rfl, rfl, ?_, ?_⟩
      · intro kv hkv hnot
        simp only [List.mem_filter]
        exact ⟨hkv, by simpa using hnot⟩
      · intro kv hkv
        simp only [List.mem_filter] at hkv
        exact ⟨hkv.1, by simpa using hkv.2⟩

/-- … and the instance stays well formed when the tensordict write yields the union of the key sets (it writes the
value's entries, creating those the destination lacks) and the value only brings declared fields -/
theorem setitem_preserves_wf (tdSetAt : TD → Option TD → Except Err TD) (tc tc' v : TC TD V)
    (hwf : WFk fields keys tc) (hv : ∀ k ∈ keys v.td, k ∈ fields)
    (h : setitemTc keys tdSetAt .batch tc (.tc v) = .ok tc')
    (hkeys : ∀ k, k ∈ keys tc'.td ↔ (k ∈ keys tc.td ∨ k ∈ keys v.td)) :
    WFk fields keys tc' := by
  obtain ⟨_, _, hkeep, hsub⟩ := setitem_keeps_nontensor keys tdSetAt tc tc' v h
  refine ⟨?_, ?_, ?_, ?_⟩
  · intro k hk
    rcases (hkeys k).mp hk with h1 | h1
    · exact hwf.td_sub k h1
    · exact hv k h1
  · intro k hk
    obtain ⟨kv, hkv, rfl⟩ := List.mem_map.mp hk
    exact hwf.nt_sub kv.1 (List.mem_map.mpr ⟨kv, (hsub kv hkv).1, rfl⟩)
  · intro f hf
    rcases hwf.cover f hf with h1 | h1
    · exact Or.inl ((hkeys f).mpr (Or.inl h1))
    · by_cases hfv : f ∈ keys v.td
      · exact Or.inl ((hkeys f).mpr (Or.inr hfv))
      · obtain ⟨kv, hkv, rfl⟩ := List.mem_map.mp h1
        exact Or.inr (List.mem_map.mpr ⟨kv, hkeep kv hkv hfv, rfl⟩)
  · intro k hk hnt
    obtain ⟨kv, hkv, rfl⟩ := List.mem_map.mp hnt
    have := hsub kv hkv
    rcases (hkeys kv.1).mp hk with h1 | h1
    · exact hwf.disj kv.1 h1 (List.mem_map.mpr ⟨kv, this.1, rfl⟩)
    · exact this.2 h1

/-- values that are neither tensorclasses, tensordicts, numbers nor tensors are rejected, and so is a tensorclass of
another class whose member set differs -/
theorem setitem_rejects_foreign (tdSetAt : TD → Option TD → Except Err TD) (k : ItemKind) (tc v : TC TD V) :
    setitemTc keys tdSetAt k tc .other = .error .value
    ∧ (v.cls ≠ tc.cls → sameKeySet (tc.nt.keys ++ keys tc.td) (v.nt.keys ++ keys v.td) = false →
        setitemTc keys tdSetAt k tc (.tc v) = .error .value) := by
  refine ⟨by cases k <;> simp [setitemTc], ?_⟩
  intro hc hs
  cases k <;> simp [setitemTc, hc, hs]

end items

/-! ### writes that reach `_tensordict` without `_set`: delegated in-place methods and `update` -/
section behindSet
variable {T V : Type}

/-- `attr_is_key` after a DELEGATED write: whatever an in-place tensordict method does to `_tensordict` (it may only add
or overwrite entries under declared fields: `setdefault`, `rename_key_`, `create_nested`, `cat_tensors(out_key=…)`,
`make_memmap`, …), the wrapper's pruning leaves every declared field in exactly one of the two dicts. -/
theorem delegated_write_preserves_wf (fields : List String) (tc : TC (TDm T V) V) (td' : TDm T V) (hwf : WF fields tc)
    (hpl : PlaceholdersOnly tc) (hsub : ∀ k ∈ td'.keys, k ∈ fields) (hgrow : ∀ k ∈ tc.td.keys, k ∈ td'.keys) :
    WF fields (delegatedWrite tc td') :=
  delegatedWrite_wf fields tc td' hwf hpl hsub hgrow

/-- … and therefore every export of the SAME object shows what the attribute read shows: `to_tensordict()[f]`
(`toTensordict`, which reads the placeholders) equals `tc.f` for every name. -/
theorem delegated_write_exports_agree (fields : List String) (tc : TC (TDm T V) V) (td' : TDm T V) (hwf : WF fields tc)
    (hpl : PlaceholdersOnly tc) (hsub : ∀ k ∈ td'.keys, k ∈ fields) (hgrow : ∀ k ∈ tc.td.keys, k ∈ td'.keys) (f : String) :
    tdGetItem (toTensordict (delegatedWrite tc td')) f = getField (delegatedWrite tc td') f :=
  (getattr_is_getitem fields _ (delegatedWrite_wf fields tc td' hwf hpl hsub hgrow) f).symm

/-- the pruning is invisible to attribute reads (the repaired `_getattr` already lets the entry win): the repaired and
the pinned wrapper differ only in what the exports show -/
theorem delegated_write_reads_unchanged (tc : TC (TDm T V) V) (td' : TDm T V) (hnd : tc.nt.keys.Nodup) (f : String) :
    getField (delegatedWrite tc td') f = getField (delegatedWritePinned tc td') f :=
  getField_dropStale (delegatedWritePinned tc td') hnd f

/-- the PINNED wrapper violates the property (finding repaired by commit "a None placeholder survived …"):
`tc.setdefault("o", t)` on an instance whose field `o` is `None` — the attribute reads the tensor, the export still
shows `None`; the repaired wrapper shows the tensor. -/
theorem delegated_write_stale_placeholder_pinned_counterexample :
    let tc : TC (TDm Nat Nat) Nat := ⟨"A", ⟨[("x", .leaf 1)], false⟩, [("o", none)]⟩
    let td' : TDm Nat Nat := ⟨[("x", .leaf 1), ("o", .leaf 5)], false⟩
    getField (delegatedWritePinned tc td') "o" = .ok (.tensor 5)
    ∧ tdGetItem (toTensordict (delegatedWritePinned tc td')) "o" = .ok (.obj none)
    ∧ tdGetItem (toTensordict (delegatedWrite tc td')) "o" = .ok (.tensor 5) := by
  simp [delegatedWritePinned, delegatedWrite, dropStale, getField, tdGetItem, toTensordict, List.lookup, unwrapEntry,
    assocSet, TDm.keys]

/-- `tc.update(src)` with a tensorclass (or dict) source of the same class keeps the destination well formed, whether
the source's `None` placeholders are filtered before the merge (`b = true`, the code) or not (`b = false`, the seeded
mutant C15-2, which the pruning neutralises). -/
theorem update_preserves_wf (b : Bool) (fields : List String) (dst src : TC (TDm T V) V) (hd : WF fields dst)
    (hs : WF fields src) (hpd : PlaceholdersOnly dst) (hps : PlaceholdersOnly src) : WF fields (updateTc b dst src) :=
  updateTc_wf b fields dst src hd hs hpd hps

/-- … so after `update` every export agrees with the attribute read, on the same object -/
theorem update_exports_agree (b : Bool) (fields : List String) (dst src : TC (TDm T V) V) (hd : WF fields dst)
    (hs : WF fields src) (hpd : PlaceholdersOnly dst) (hps : PlaceholdersOnly src) (f : String) :
    tdGetItem (toTensordict (updateTc b dst src)) f = getField (updateTc b dst src) f :=
  (getattr_is_getitem fields _ (updateTc_wf b fields dst src hd hs hpd hps) f).symm

/-- the PINNED `_update` (no pruning) violates the property in both variants: with the code's filter when the source
sets a field the destination holds as `None` (the finding), and without the filter when the source leaves a field at
`None` that the destination has set (the seeded mutant on the unrepaired tree). -/
theorem update_stale_placeholder_pinned_counterexamples :
    let unset : TC (TDm Nat Nat) Nat := ⟨"A", ⟨[("x", .leaf 1)], false⟩, [("o", none)]⟩
    let set : TC (TDm Nat Nat) Nat := ⟨"A", ⟨[("x", .leaf 2), ("o", .leaf 5)], false⟩, []⟩
    (getField (updateTcPinned true unset set) "o" = .ok (.tensor 5)
      ∧ tdGetItem (toTensordict (updateTcPinned true unset set)) "o" = .ok (.obj none))
    ∧ (getField (updateTcPinned false set unset) "o" = .ok (.tensor 5)
      ∧ tdGetItem (toTensordict (updateTcPinned false set unset)) "o" = .ok (.obj none))
    ∧ tdGetItem (toTensordict (updateTc true unset set)) "o" = .ok (.tensor 5)
    ∧ tdGetItem (toTensordict (updateTc false set unset)) "o" = .ok (.tensor 5) := by
  simp [updateTcPinned, updateTc, tdUpdate, dropStale, getField, tdGetItem, toTensordict, List.lookup, unwrapEntry,
    assocSet, TDm.keys]

end behindSet

/-! ### class options -/
section options

/-- `autocast` and `nocast` exclude each other, and that is the only constraint on the four options -/
theorem options_exclusive (o : ClsOpts) : decoratorOpts o = .ok o ↔ ¬ (o.autocast = true ∧ o.nocast = true) := by
  unfold decoratorOpts
  cases o.autocast <;> cases o.nocast <;> simp

/-- the field-name check: a class is accepted iff `shadow` or no declared field is a reserved (tensordict) name other than
the two exempt ones -/
theorem field_names_iff (reserved exempt : List Nat) (shadow : Bool) (fields : List Nat) :
    fieldNamesOk reserved exempt shadow fields = true
      ↔ shadow = true ∨ ∀ f ∈ fields, f ∈ reserved → f ∈ exempt := by
  unfold fieldNamesOk
  simp only [Bool.or_eq_true, List.all_eq_true, Bool.not_eq_true', mem_iff]
  constructor
  · rintro (h | h)
    · exact Or.inl h
    · right
      intro f hf hr
      rcases h f hf with h1 | h1
      · have : mem f reserved = true := mem_iff.mpr hr
        rw [this] at h1; cases h1
      · exact h1
  · rintro (h | h)
    · exact Or.inl h
    · right
      intro f hf
      cases hm : mem f reserved with
      | false => exact Or.inl rfl
      | true => exact Or.inr (h f hf (mem_iff.mp hm))

/-- what the metaclass resolves when it succeeds: keywords win, the base's flags are the defaults, never `shadow`, and the
result passed the `autocast`/`nocast` check -/
theorem metaOpts_ok (ka kn kf : Option Bool) (ks : Bool) (b : Option ClsOpts) (o : ClsOpts)
    (h : metaOpts ka kn kf ks b = .ok o) :
    ks = false ∧ o.shadow = false ∧ ¬ (o.autocast = true ∧ o.nocast = true)
    ∧ o.autocast = ka.getD ((b.map (·.autocast)).getD false)
    ∧ o.nocast = kn.getD ((b.map (·.nocast)).getD false)
    ∧ o.frozen = kf.getD ((b.map (·.frozen)).getD false)
    ∧ (∀ b', b = some b' → b'.frozen = o.frozen) := by
  unfold metaOpts at h
  cases ks with
  | true => simp at h
  | false =>
    simp only [Bool.false_eq_true, ↓reduceIte] at h
    generalize hq : (⟨_, _, _, false⟩ : ClsOpts) = q at h
    cases hd : decoratorOpts q with
    | error e => rw [hd] at h; cases h
    | ok o' =>
      rw [hd] at h
      have ho' : o' = q ∧ ¬ (q.autocast = true ∧ q.nocast = true) := by
        unfold decoratorOpts at hd
        by_cases hc : (q.autocast && q.nocast) = true
        · rw [if_pos hc] at hd; cases hd
        · rw [if_neg hc] at hd
          cases hd
          exact ⟨rfl, by simpa using hc⟩
      obtain ⟨rfl, hex⟩ := ho'
      have hoq : o = o' ∧ (∀ b', b = some b' → b'.frozen = o'.frozen) := by
        cases b with
        | none => simp only at h; cases h; exact ⟨rfl, fun _ hb => by cases hb⟩
        | some b' =>
          simp only at h
          by_cases hf : (b'.frozen != o'.frozen) = true
          · rw [if_pos hf] at h; cases h
          · rw [if_neg hf] at h
            cases h
            refine ⟨rfl, fun b'' hb => ?_⟩
            cases hb
            simpa using hf
      obtain ⟨rfl, hfr⟩ := hoq
      subst hq
      exact ⟨rfl, rfl, hex, rfl, rfl, rfl, hfr⟩

/-- NO class built through the metaclass (`class X(TensorClass, …)`, `TensorClass["…"]`) ever has `shadow`: the keyword is
rejected and the flag is not inherited (finding C15-subclass-shadow, as a theorem about the code) -/
theorem subclass_never_shadow (ka kn kf : Option Bool) (ks : Bool) (b : Option ClsOpts) (o : ClsOpts)
    (h : metaOpts ka kn kf ks b = .ok o) : o.shadow = false ∧ ks = false := by
  obtain ⟨h1, h2, _⟩ := metaOpts_ok ka kn kf ks b o h
  exact ⟨h2, h1⟩

/-- a subclass cannot change `frozen` of an option-carrying base (python's dataclass rule: TypeError), unless the options
are already refused (`autocast` with `nocast`: ValueError) -/
theorem subclass_frozen_must_match (ka kn : Option Bool) (f : Bool) (b : ClsOpts) (h : b.frozen ≠ f) (o : ClsOpts) :
    metaOpts ka kn (some f) false (some b) ≠ .ok o := by
  intro hok
  obtain ⟨_, _, _, _, _, hfr, hb⟩ := metaOpts_ok ka kn (some f) false (some b) o hok
  have := hb b rfl
  simp only [Option.getD_some] at hfr
  rw [hfr] at this
  exact h this

/-- every public method and operator is covered whatever the options are (the options change the class configuration only
through `frozen`, which adds two dataclass methods) -/
theorem api_covered_any_options (o : ClsOpts) : ∀ m ∈ publicApi ++ operatorApi,
    (dispatch (cfgOf o []) m).covered = true ∨ m ∈ documentedUncovered := by
  intro m hm
  unfold cfgOf
  cases o.frozen
  · exact api_covered m hm
  · exact api_covered_frozen m hm

end options

/-! ### `tc.set(key, value, inplace=…)` and tuple keys -/
section inplace
variable {T V : Type}

/-- with `inplace=False` the general `_set` IS the `_set` of attribute assignment: every theorem above about `setField` is
a theorem about `tc.set(key, value)` -/
theorem set_inplace_false_is_assignment (fields : List String) (o : Opts) (h : Hint) (ck : CopyOk) (pinned : Bool)
    (tc : TC (TDm T V) V) (key : String) (a : SetArg T V) :
    setFieldI fields o h false ck pinned tc key a = setField fields o h tc key a :=
  setFieldI_false fields o h ck pinned tc key a

/-- `attr_is_key` (write, any `inplace`): a successful `set` keeps the instance well formed -/
theorem set_inplace_preserves_wf (fields : List String) (o : Opts) (h : Hint) (inplace : Bool) (ck : CopyOk) (pinned : Bool)
    (tc tc' : TC (TDm T V) V) (key : String) (a : SetArg T V) (hwf : WF fields tc)
    (hs : setFieldI fields o h inplace ck pinned tc key a = .ok tc') : WF fields tc' := by
  obtain ⟨hk, _, hshape⟩ := setFieldI_shape fields o h inplace ck pinned tc tc' key a hs
  rcases hshape with ⟨e, rfl⟩ | ⟨rfl, _⟩
  · exact wf_setTensor fields tc key e hwf hk
  · exact wf_setNone fields tc key hwf hk

/-- … and leaves every other field reading what it read -/
theorem set_inplace_frame (fields : List String) (o : Opts) (h : Hint) (inplace : Bool) (ck : CopyOk) (pinned : Bool)
    (tc tc' : TC (TDm T V) V) (key g : String) (a : SetArg T V)
    (hs : setFieldI fields o h inplace ck pinned tc key a = .ok tc') (hg : g ≠ key) : getField tc' g = getField tc g := by
  obtain ⟨_, _, hshape⟩ := setFieldI_shape fields o h inplace ck pinned tc tc' key a hs
  rcases hshape with ⟨e, rfl⟩ | ⟨rfl, _⟩
  · simp [getField_setTensor, hg]
  · simp [getField_setNone, hg]

/-- a LOCKED instance accepts exactly the in-place writes into existing entries (as `TensorDict.set(..., inplace=True)`
does) and neither its key set nor its placeholders change -/
theorem set_locked_only_in_place (fields : List String) (o : Opts) (h : Hint) (inplace : Bool) (ck : CopyOk) (pinned : Bool)
    (tc tc' : TC (TDm T V) V) (key : String) (a : SetArg T V) (hwf : WF fields tc) (hl : tc.td.locked = true)
    (hs : setFieldI fields o h inplace ck pinned tc key a = .ok tc') :
    inplace = true ∧ key ∈ tc.td.keys ∧ (∀ x, x ∈ tc'.td.keys ↔ x ∈ tc.td.keys) ∧ tc'.nt = tc.nt := by
  obtain ⟨_, hlock, hshape⟩ := setFieldI_shape fields o h inplace ck pinned tc tc' key a hs
  obtain ⟨hi, hk⟩ := hlock hl
  rcases hshape with ⟨e, rfl⟩ | ⟨_, hu⟩
  · refine ⟨hi, hk, ?_, ?_⟩
    · intro x
      rw [(keys_setTensor tc key e x).1]
      constructor
      · rintro (rfl | h1)
        · exact hk
        · exact h1
      · intro h1; exact Or.inr h1
    · have hnot : key ∉ tc.nt.keys := hwf.disj key hk
      simp only [setTensor, assocDel]
      rw [List.filter_eq_self]
      intro kv hkv
      simp only [bne_iff_ne, ne_eq]
      intro he
      exact hnot (List.mem_map.mpr ⟨kv, hkv, he⟩)
  · rw [hl] at hu; cases hu

theorem set_locked_rejects_new_entry (fields : List String) (o : Opts) (h : Hint) (inplace : Bool) (ck : CopyOk) (pinned : Bool)
    (tc : TC (TDm T V) V) (key : String) (a : SetArg T V) (hl : tc.td.locked = true)
    (hno : ¬ (inplace = true ∧ key ∈ tc.td.keys)) : setFieldI fields o h inplace ck pinned tc key a = .error .lock := by
  unfold setFieldI
  have : (tc.td.locked && !(inplace && tc.td.keys.contains key)) = true := by
    rw [hl]
    cases inplace <;> simp_all
  rw [if_pos this]

/-- a tensor value under a plain class or an `Any`-typed field of an autocast class goes to `TensorDict.set(key, value,
inplace=inplace)` whatever `inplace` is (repaired code) — `tc.set` behaves as the `set` of its tensordict -/
theorem set_inplace_tensor_reaches_td (fields : List String) (o : Opts) (h : Hint) (inplace : Bool) (ck : CopyOk)
    (tc : TC (TDm T V) V) (key : String) (a : SetArg T V) (hk : key ∈ fields) (hkind : a.kind = .tensor)
    (hcls : o.autocast = false ∨ h = .any) (hpre : (tc.td.locked && !(inplace && tc.td.keys.contains key)) = false) :
    setFieldI fields o h inplace ck false tc key a = tdSetEntry inplace ck.asTensor tc key (.leaf a.asTensor) := by
  unfold setFieldI
  have hk' : (!fields.contains key) = false := by simp [hk]
  rw [hpre, hk']
  simp only [Bool.false_eq_true, ↓reduceIte]
  unfold setPlan
  rcases hcls with ho | hh
  · simp [ho, hkind, runSetPlan]
  · cases ho : o.autocast <;> simp [ho, hkind, hh, runSetPlan]

/-- REGRESSION WITNESS (repaired by a `fix:` commit): under `autocast` the PINNED tail refused the in-place write of a tensor
into an `Any`-typed field that already holds a tensor ("Cannot update an existing entry of type Tensor with a value of type
Tensor"), which the plain tensordict performs; the repaired code performs it. -/
theorem set_inplace_any_tensor_pinned_counterexample :
    let tc : TC (TDm Nat Nat) Nat := ⟨"A", ⟨[("a", .leaf 1)], false⟩, []⟩
    let arg : SetArg Nat Nat := ⟨.tensor, 0, 7, some 7, 0, none⟩
    let ck : CopyOk := ⟨true, true, true, true, true⟩
    setFieldI ["a"] ⟨true, false⟩ .any true ck true tc "a" arg = .error .runtime
    ∧ (setFieldI ["a"] ⟨true, false⟩ .any true ck false tc "a" arg).bind (fun tc' => getField tc' "a") = .ok (.tensor 7)
    ∧ (tdSetEntry true true tc "a" (.leaf 7)).bind (fun tc' => getField tc' "a") = .ok (.tensor 7) := by
  simp [setFieldI, setPlan, runSetPlan, tdSetEntry, TDm.keys, setTensor, getField, assocSet, assocDel, List.lookup,
    unwrapEntry, Except.bind, bind]

/-- a 1-tuple key is the string key (with the flag passed on: repaired code) -/
theorem set_tuple_singleton (fields : List String) (o : Opts) (h : Hint) (inplace : Bool) (ck : CopyOk)
    (nestedSet : T → Except Err T) (tc : TC (TDm T V) V) (k : String) (a : SetArg T V) :
    setTuple fields o h inplace ck true nestedSet tc [k] a = setFieldI fields o h inplace ck false tc k a := by
  simp [setTuple]

/-- a longer tuple key: the nested collection found under the first key is written by its own `set` and stored back under
that key as a tensor-collection value, with the same `inplace` -/
theorem set_tuple_nested (fields : List String) (o : Opts) (h : Hint) (inplace : Bool) (ck : CopyOk)
    (nestedSet : T → Except Err T) (tc : TC (TDm T V) V) (k k2 : String) (rest : List String) (a : SetArg T V) (t t' : T)
    (hget : getField tc k = .ok (.tensor t)) (hn : nestedSet t = .ok t') :
    setTuple fields o h inplace ck true nestedSet tc (k :: k2 :: rest) a
      = setFieldI fields o h inplace ck false tc k { a with kind := .tensor, asTensor := t', castAccepted := some t' } := by
  simp [setTuple, hget, hn]

/-- REGRESSION WITNESS (repaired by a `fix:` commit): the PINNED tuple-key branch dropped `inplace`, so a locked instance
refused `tc.set(("x",), v, inplace=True)` although its tensordict performs it; the repaired branch passes the flag on. -/
theorem set_tuple_drops_inplace_pinned_counterexample :
    let tc : TC (TDm Nat Nat) Nat := ⟨"A", ⟨[("x", .leaf 1)], true⟩, []⟩
    let arg : SetArg Nat Nat := ⟨.tensor, 0, 7, some 7, 0, none⟩
    let ck : CopyOk := ⟨true, true, true, true, true⟩
    setTuple ["x"] ⟨false, false⟩ .any true ck false (fun _ => .error .runtime) tc ["x"] arg = .error .lock
    ∧ (setTuple ["x"] ⟨false, false⟩ .any true ck true (fun _ => .error .runtime) tc ["x"] arg).bind (fun tc' => getField tc' "x")
        = .ok (.tensor 7) := by
  simp [setTuple, setFieldI, setPlan, runSetPlan, tdSetEntry, TDm.keys, setTensor, getField, assocSet, assocDel, List.lookup,
    unwrapEntry, Except.bind, bind]

end inplace

/-! ### pytree registration: `tree_flatten` / `tree_unflatten` / `tree_map` on a tensorclass -/
section pytree
variable {T V : Type}

/-- `tree_unflatten(tree_flatten(tc))` rebuilds the instance: same class, same entries in the same order, same placeholders
(the tensordict of the copy is a new, unlocked one) -/
theorem pytree_roundtrip (fields : List String) (tc : TC (TDm T V) V) (hwf : WF fields tc) (hpl : PlaceholdersOnly tc) :
    pytreeUnflatten fields tc.cls (pytreeFlatten tc).1 (pytreeFlatten tc).2
      = .ok ⟨tc.cls, ⟨tc.td.entries, false⟩, tc.nt⟩ := by
  have h := fromTensordict_of_wf fields tc hwf hpl
  unfold pytreeUnflatten pytreeFlatten
  simp only
  rw [h]
  simp only [TDm.keys, zip_map_fst_snd]

/-- `tree_map(f, tc)`: whatever the new leaves are (one per entry), the result is an instance of the same class with the
same key set and the same placeholders, and it is well formed -/
theorem pytree_map_keeps_structure (fields : List String) (tc : TC (TDm T V) V) (hwf : WF fields tc)
    (hpl : PlaceholdersOnly tc) (values : List (Entry T V)) (hlen : values.length = tc.td.entries.length) :
    ∃ tc', pytreeUnflatten fields tc.cls values (pytreeFlatten tc).2 = .ok tc'
      ∧ tc'.cls = tc.cls ∧ tc'.td.keys = tc.td.keys ∧ tc'.nt = tc.nt ∧ WF fields tc' := by
  have hk : ((tc.td.keys.zip values).map Prod.fst) = tc.td.keys :=
    map_fst_zip_of_length _ _ (by simp [TDm.keys, hlen])
  have hkeys : (⟨tc.td.keys.zip values, false⟩ : TDm T V).keys = tc.td.keys := hk
  refine ⟨⟨tc.cls, ⟨tc.td.keys.zip values, false⟩, tc.nt⟩, ?_, rfl, hkeys, rfl, ?_⟩
  · have h := fromTensordict_of_wf fields tc hwf hpl
    unfold pytreeUnflatten pytreeFlatten
    simp only
    rw [h]
  · refine ⟨?_, hwf.nt_sub, ?_, ?_, hwf.nt_nodup⟩
    · intro k hk'
      rw [hkeys] at hk'
      exact hwf.td_sub k hk'
    · intro f hf
      rcases hwf.cover f hf with h | h
      · left; rw [hkeys]; exact h
      · exact Or.inr h
    · intro k hk' hnt
      rw [hkeys] at hk'
      exact hwf.disj k hk' hnt

end pytree

-- non-vacuity: concrete, non-trivial values satisfying the hypotheses used above
example : Matching ["x", "s", "o"] ["x", "s"] ([("o", none)] : NT Nat) := by
  refine ⟨?_, ?_, ?_⟩ <;> simp [NT.keys]
example : ¬ Matching ["x", "s", "o"] ["x", "n.y"] ([("o", none)] : NT Nat) := by
  rintro ⟨_, h2, _⟩; simpa using h2 "n.y" (by simp)
example : WF ["x", "o"] (⟨"A", ⟨[("x", Entry.leaf 1)], false⟩, [("o", none)]⟩ : TC (TDm Nat Nat) Nat) := by
  refine ⟨?_, ?_, ?_, ?_, ?_⟩ <;> simp [TDm.keys, NT.keys]
example : dispatch (stdCfg []) (idOf "reshape") = .wrap ∧ dispatch (stdCfg []) (idOf "batch_size") = .nowrap
    ∧ dispatch (stdCfg []) (idOf "clone") = .copy ∧ dispatch (stdCfg []) (idOf "memmap") = .fromTD
    ∧ dispatch (stdCfg []) (idOf "from_module") = .classmethod ∧ dispatch (stdCfg []) (idOf "zz_not_a_method") = .missing := by
  decide +kernel

end TdVerif.Props.C15
