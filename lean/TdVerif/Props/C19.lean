/-
  C19 — vmap over tensordicts equals the per-sample loop: property theorems over Model/C19Vmap.lean.
  The tie to the source is harness/check_C19.py: the same (tensordict, in_dims, out_dims, program)
  goes to the compiled model (`c19.vmap`) and to `torch.vmap` on the real library, and batch size,
  names and every leaf (provenance values) are compared; the oracle is `stack([f(slice_i)], out_dim)`
  computed by the real library.
-/
import TdVerif.Model.C19Vmap
import TdVerif.Lemmas.C19Vmap
import TdVerif.Model.C19Lazy
import TdVerif.Lemmas.C19Lazy
import TdVerif.Model.C19Ops
import TdVerif.Gen.C19Shapes
import TdVerif.Model.C19MemoHist
import TdVerif.Lemmas.C19MemoHist

namespace TdVerif.Props.C19
open TdVerif.C19

/-! ## 1. leaves: the functorch primitive against the specification -/

/-- moving the front stack dimension to `o` is stacking at `o` (all coordinates, all member lists) -/
theorem movedim_stack0_eqv_stack (ts : List T) (o : Nat) : (movedim (stack ts 0) 0 o).Eqv (stack ts o) := by
  constructor
  · simp [movedim, stack, List.getD]
  · intro c _
    simp [movedim, stack, List.getD]

/-- **a leaf of the vmapped tensordict agrees with the specification**: wrapping at `i`, applying `g`
per sample (functorch), unwrapping at `o` is `vmapSpec g i o`, which is the oracle
`stack([g(x.select(i,k)) for k], o)` -/
theorem leaf_agrees_with_spec (g : T → T) (i o : Nat) (x : T) :
    removeBDLeaf o (liftBT g (addBDLeaf i x)) = vmapSpec g i o x ∧
    (vmapSpec g i o x).Eqv (stack ((unbind x i).map g) o) :=
  ⟨rfl, movedim_stack0_eqv_stack _ o⟩

/-- the identity function: unwrapping at `o` what was wrapped at `i` is `movedim(i, o)` = the stack
of the slices at `o` -/
theorem leaf_identity (i o : Nat) (x : T) (hsz : 0 < x.shape.getD i 0) (ho : o ≤ (x.shape.eraseIdx i).length) :
    (removeBDLeaf o (addBDLeaf i x)).Eqv (stack (unbind x i) o) :=
  removeBDLeaf_eqv_stack (addBDLeaf i x) o hsz ho

/-! ## 2. tensordicts: the batched execution refines the per-sample loop -/

/-- **Bookkeeping of the batch dimension** (`_add_batch_dim` drops entry `i` of batch size and names,
the function acts on what is left, `_remove_batch_dim` inserts the vmap size / `None` at `o`) -/
theorem bd_bookkeeping (p : List TOp) (i o level : Nat) (td : TD) :
    (vmapTD p i o level td).batch = (bsProg p (td.batch.eraseIdx i)).insertIdx o (td.batch.getD i 0) ∧
    (vmapTD p i o level td).names = (nmProg p (td.batch.eraseIdx i) (td.names.eraseIdx i)).insertIdx o none := by
  have hb : (runProgB p (addBD i level td)).batch = bsProg p (td.batch.eraseIdx i) := by
    have := congrArg TD.batch (runProgB_sampleTD p (addBD i level td) 0)
    rw [runProg_batch] at this; exact this
  have hn : (runProgB p (addBD i level td)).names = nmProg p (td.batch.eraseIdx i) (td.names.eraseIdx i) := by
    have := congrArg TD.names (runProgB_sampleTD p (addBD i level td) 0)
    rw [runProg_names] at this; exact this
  constructor
  · show ((runProgB p (addBD i level td)).batch).insertIdx o (runProgB p (addBD i level td)).size = _
    rw [hb, runProgB_size]; rfl
  · show ((runProgB p (addBD i level td)).names).insertIdx o none = _
    rw [hn]

/-- **vmap over a tensordict equals the per-sample loop**: the code path (wrap at `i`, run the
program once on the batched tensordict, unwrap at `o`) gives exactly
`torch.stack([f(td_k) for td_k in td.unbind(i)], o)` — batch size, names and every leaf —
for every program, every `i`, `o`, level and every tensordict with a non-empty vmapped dimension. -/
theorem vmap_td_eq_loop (p : List TOp) (i o level : Nat) (td : TD) (hsz : 0 < td.batch.getD i 0) :
    vmapTD p i o level td = stackTD ((unbindTD td i).map (runProg p)) o := by
  have hs : ∀ k, (runProgB p (addBD i level td)).sample k = (runProg p (td.sel i k)).leaves := fun k =>
    congrArg TD.leaves (runProgB_sampleTD p (addBD i level td) k)
  have hlist : (List.range (td.batch.getD i 0)).map (runProgB p (addBD i level td)).sample
      = ((unbindTD td i).map (runProg p)).map (·.leaves) := by
    simp only [unbindTD, List.map_map]
    apply List.map_congr_left
    intro k _
    exact hs k
  have hhead : ((unbindTD td i).map (runProg p)).headD ⟨[], [], []⟩ = runProg p (td.sel i 0) := by
    simp only [unbindTD, List.map_map]
    exact headD_map_range _ _ _ hsz
  have hbk := bd_bookkeeping p i o level td
  have h3 : (vmapTD p i o level td).leaves = stackLeaves (((unbindTD td i).map (runProg p)).map (·.leaves)) o := by
    show stackLeaves ((List.range (runProgB p (addBD i level td)).size).map (runProgB p (addBD i level td)).sample) o = _
    rw [runProgB_size]
    show stackLeaves ((List.range (td.batch.getD i 0)).map (runProgB p (addBD i level td)).sample) o = _
    rw [hlist]
  have hlen : ((unbindTD td i).map (runProg p)).length = td.batch.getD i 0 := by simp [unbindTD]
  have hR : stackTD ((unbindTD td i).map (runProg p)) o
      = ⟨(bsProg p (td.batch.eraseIdx i)).insertIdx o (td.batch.getD i 0),
         (nmProg p (td.batch.eraseIdx i) (td.names.eraseIdx i)).insertIdx o none,
         stackLeaves (((unbindTD td i).map (runProg p)).map (·.leaves)) o⟩ := by
    unfold stackTD
    rw [hhead, hlen, runProg_batch, runProg_names]
    rfl
  rw [hR]
  show (⟨(vmapTD p i o level td).batch, (vmapTD p i o level td).names, (vmapTD p i o level td).leaves⟩ : TD) = _
  rw [hbk.1, hbk.2, h3]

/-! ## 2b. several arguments, `None` in_dims -/

theorem addBDOpt_sampleTD (i : Option Nat) (size level : Nat) (td : TD) (k : Nat) :
    (addBDOpt i size level td).sampleTD k = selOpt td i k := by
  cases i <;> rfl

/-- **two arguments, each vmapped along its own dimension or not at all (`None`)**: the code path equals
the stack over `k` of the function applied to slice `k` of the vmapped arguments and to the un-vmapped
argument itself; `size` is the common vmap size -/
theorem vmap2_eq_loop (op : TOp2) (p : List TOp) (i1 i2 : Option Nat) (o size level : Nat) (a b : TD)
    (hsz : 0 < size) (h1 : (addBDOpt i1 size level a).size = size) :
    vmapTD2 op p i1 i2 o size level a b
      = stackTD ((List.range size).map (fun k => runProg p (op.run (selOpt a i1 k) (selOpt b i2 k)))) o := by
  let B0 : BTD := op.runB (addBDOpt i1 size level a) (addBDOpt i2 size level b)
  have hB0 : ∀ k, B0.sampleTD k = op.run (selOpt a i1 k) (selOpt b i2 k) := by
    intro k
    have ha := addBDOpt_sampleTD i1 size level a k
    have hb := addBDOpt_sampleTD i2 size level b k
    simp only [BTD.sampleTD] at ha hb
    show (⟨_, _, _⟩ : TD) = _
    simp only [TOp2.run, ← ha, ← hb]
    rfl
  have hsize : (runProgB p B0).size = size := by rw [runProgB_size]; exact h1
  have hs : ∀ k, (runProgB p B0).sampleTD k = runProg p (op.run (selOpt a i1 k) (selOpt b i2 k)) := by
    intro k; rw [runProgB_sampleTD, hB0]
  have hlist : (List.range size).map (runProgB p B0).sample
      = ((List.range size).map (fun k => runProg p (op.run (selOpt a i1 k) (selOpt b i2 k)))).map (·.leaves) := by
    simp only [List.map_map]
    apply List.map_congr_left
    intro k _
    exact congrArg TD.leaves (hs k)
  have hhead : ((List.range size).map (fun k => runProg p (op.run (selOpt a i1 k) (selOpt b i2 k)))).headD ⟨[], [], []⟩
      = runProg p (op.run (selOpt a i1 0) (selOpt b i2 0)) := headD_map_range _ _ _ hsz
  have hb0 : (runProgB p B0).batch = (runProg p (op.run (selOpt a i1 0) (selOpt b i2 0))).batch := congrArg TD.batch (hs 0)
  have hn0 : (runProgB p B0).names = (runProg p (op.run (selOpt a i1 0) (selOpt b i2 0))).names := congrArg TD.names (hs 0)
  show removeBD o (runProgB p B0) = _
  unfold removeBD stackTD
  rw [hhead, hsize, hlist, hb0, hn0]
  simp

/-- **functional module calls under vmap** (`with params.to_module(net): net(x)` with a parameter tensordict
vmapped along `ip` or shared, the input along `ix` or shared): for `Linear` (flat parameters) and for
`Sequential(Linear, Linear)` (nested parameter tensordict) the batched call equals the stack over `k` of the
call with the k-th parameter set on the k-th input -/
theorem functional_module_call_eq_loop (ip ix : Option Nat) (o size level : Nat) (params x : TD)
    (hsz : 0 < size) (h1 : (addBDOpt ip size level params).size = size) :
    (vmapTD2 opLinear [] ip ix o size level params x
      = stackTD ((List.range size).map (fun k => opLinear.run (selOpt params ip k) (selOpt x ix k))) o) ∧
    (vmapTD2 opSeq2 [] ip ix o size level params x
      = stackTD ((List.range size).map (fun k => opSeq2.run (selOpt params ip k) (selOpt x ix k))) o) :=
  ⟨vmap2_eq_loop opLinear [] ip ix o size level params x hsz h1, vmap2_eq_loop opSeq2 [] ip ix o size level params x hsz h1⟩

/-! ## 2c. vmap dimensions of size 0 -/

theorem stackLeavesT_eq_stackLeaves (s0 : Leaves) (rest : List Leaves) (o : Nat) :
    stackLeavesT s0 (s0 :: rest) o = stackLeaves (s0 :: rest) o := by
  unfold stackLeavesT stackLeaves
  simp only [List.headD_cons]
  apply List.map_congr_left
  intro p hp
  have hget : s0[p.2]? = some p.1 := List.mem_zipIdx_iff_getElem?.mp hp
  have hd : (s0.getD p.2 default) = p.1 := by simp [List.getD, hget]
  simp only [stackT, stack, List.map_cons, List.headD_cons, hd]

/-- for a non-empty vmapped dimension the size-agnostic unwrapping is the one used so far … -/
theorem removeBDT_eq_removeBD (o : Nat) (b : BTD) (h : 0 < b.size) : removeBDT o b = removeBD o b := by
  unfold removeBDT removeBD
  obtain ⟨n, hn⟩ : ∃ n, b.size = n + 1 := ⟨b.size - 1, by omega⟩
  have : (List.range b.size).map b.sample = b.sample 0 :: (List.range' 1 n).map b.sample := by
    rw [hn, List.range_eq_range', List.range'_succ]; rfl
  rw [this, stackLeavesT_eq_stackLeaves]

/-- … hence `vmapTDT` is the per-sample loop whenever there is at least one sample … -/
theorem vmapT_eq_loop (p : List TOp) (i o level : Nat) (td : TD) (hsz : 0 < td.batch.getD i 0) :
    vmapTDT p i o level td = stackTD ((unbindTD td i).map (runProg p)) o := by
  have hs : (runProgB p (addBD i level td)).size = td.batch.getD i 0 := by rw [runProgB_size]; rfl
  unfold vmapTDT
  rw [removeBDT_eq_removeBD _ _ (by rw [hs]; exact hsz)]
  exact vmap_td_eq_loop p i o level td hsz

/-- … **and for a vmapped dimension of size 0** (where `stack([])` is undefined) the result is the empty
stack with the structure the function produces: batch size and names by the usual bookkeeping with a 0 at
`out_dim`, the keys of the per-sample output, and every leaf of shape (per-sample leaf shape) with 0 inserted at `out_dim` -/
theorem vmap_size_zero (p : List TOp) (i o level : Nat) (td : TD) (hz : td.batch.getD i 0 = 0) :
    (vmapTDT p i o level td).batch = (bsProg p (td.batch.eraseIdx i)).insertIdx o 0 ∧
    (vmapTDT p i o level td).names = (nmProg p (td.batch.eraseIdx i) (td.names.eraseIdx i)).insertIdx o none ∧
    (vmapTDT p i o level td).leaves.map (fun q => (q.1, q.2.shape))
      = (runProg p (td.sel i 0)).leaves.map (fun q => (q.1, q.2.shape.insertIdx o 0)) := by
  have hbk := bd_bookkeeping p i o level td
  have hs : (runProgB p (addBD i level td)).size = 0 := by rw [runProgB_size]; exact hz
  have h0 : (runProgB p (addBD i level td)).sample 0 = (runProg p (td.sel i 0)).leaves :=
    congrArg TD.leaves (runProgB_sampleTD p (addBD i level td) 0)
  refine ⟨?_, ?_, ?_⟩
  · have := hbk.1; rw [hz] at this; exact this
  · exact hbk.2
  · show (stackLeavesT ((runProgB p (addBD i level td)).sample 0) ((List.range (runProgB p (addBD i level td)).size).map _) o).map _ = _
    rw [hs, h0]
    simp only [stackLeavesT, List.range_zero, List.map_nil, List.map_map]
    have : ∀ (l : Leaves) (k : Nat), (l.zipIdx k).map ((fun q : String × T => (q.1, q.2.shape)) ∘ (fun (p : (String × T) × Nat) => (p.1.1, stackT p.1.2.shape [] o)))
        = l.map (fun q => (q.1, q.2.shape.insertIdx o 0)) := by
      intro l
      induction l with
      | nil => intro k; rfl
      | cons a l ih =>
        intro k
        simp only [List.zipIdx_cons, List.map_cons]
        rw [ih (k + 1)]
        simp [Function.comp, stackT]
    exact this _ 0

/-! ## 3. coherence of the result -/

/-- a leaf whose leading dims are the per-sample batch keeps leading dims = result batch after the
vmap size is inserted at a batch position (`o ≤` per-sample batch rank): the result of
`_remove_batch_dim` is a coherent tensordict -/
theorem result_leaf_coherent (batch s : Shape) (o n : Nat) (ho : o ≤ batch.length)
    (hs : s.take batch.length = batch) (hlen : batch.length ≤ s.length) :
    (s.insertIdx o n).take (batch.insertIdx o n).length = batch.insertIdx o n := by
  rw [List.length_insertIdx_of_le_length ho, take_insertIdx s o batch.length n ho hlen, hs]

/-! ## 3b. nested tensordicts of the output -/

theorem insertIdx_append_le {α} : ∀ (b ext : List α) (o : Nat) (x : α), o ≤ b.length →
    (b ++ ext).insertIdx o x = b.insertIdx o x ++ ext
  | b, ext, 0, x, _ => by simp [List.insertIdx_zero]
  | [], ext, o + 1, x, h => by simp at h
  | a :: b, ext, o + 1, x, h => by
      simp only [List.cons_append, List.insertIdx_succ_cons]
      rw [insertIdx_append_le b ext o x (by simpa using h)]

/-- **a nested tensordict of the output with more batch dimensions than its parent** stays an extension
of the parent: because the *normalised* (non-negative) `out_dim` is handed down, the vmap size lands at
the same position in the nested batch size as in the parent's, for every (negative) `out_dims` -/
theorem nested_node_out_dim (o : Int) (parent ext : Shape) (size : Nat)
    (hlo : -((parent.length : Int) + 1) ≤ o) (hhi : o ≤ parent.length) :
    removeBDNode (normOutDim o parent.length) size (parent ++ ext)
      = (parent.insertIdx (normOutDim o parent.length) size) ++ ext := by
  have hle : normOutDim o parent.length ≤ parent.length := by unfold normOutDim; split <;> omega
  exact insertIdx_append_le parent ext _ size hle

/-- … whereas handing the raw negative `out_dim` down makes the node resolve it against its own rank:
parent [3] -> [3, 5] but nested [3, 4] -> [3, 4, 5] instead of [3, 5, 4] -/
theorem nested_node_raw_counterexample :
    ([3] : Shape).insertIdx (normOutDim (-1) 1) 5 = [3, 5] ∧ removeBDNodeRaw (-1) 5 [3, 4] = [3, 4, 5] ∧
    removeBDNode (normOutDim (-1) 1) 5 [3, 4] = [3, 5, 4] := by decide

/-! ## 4. dimension normalisation -/

/-- **negative `in_dims`**: `in_dim % rank` is the position Python's negative index denotes, and is in range -/
theorem in_dim_normalisation (d : Int) (r : Nat) (hlo : -(r : Int) ≤ d) (hhi : d < r) :
    normInDim d r < r ∧ (0 ≤ d → (normInDim d r : Int) = d) ∧ (d < 0 → (normInDim d r : Int) = d + r) := by
  have hr : (0 : Int) < r := by omega
  unfold normInDim
  by_cases hd : 0 ≤ d
  · have : d % (r : Int) = d := Int.emod_eq_of_lt hd hhi
    rw [this]
    refine ⟨by omega, fun _ => by omega, fun h => by omega⟩
  · have h1 : d % (r : Int) = (d + r) % (r : Int) := by simp [Int.add_emod_right]
    have h2 : (d + r) % (r : Int) = d + r := Int.emod_eq_of_lt (by omega) (by omega)
    rw [h1, h2]
    refine ⟨by omega, fun h => by omega, fun _ => by omega⟩

/-- **negative `out_dims`** (repaired code): the normalised position is a batch position of the
output, and the vmap size ends up at Python index `o` of the output batch size -/
theorem out_dim_normalisation (o : Int) (b : BTD) (hlo : -((b.batch.length : Int) + 1) ≤ o) (hhi : o ≤ b.batch.length) :
    normOutDim o b.batch.length ≤ b.batch.length ∧
    (removeBD (normOutDim o b.batch.length) b).batch.length = b.batch.length + 1 ∧
    (removeBD (normOutDim o b.batch.length) b).batch[(if o < 0 then o + (b.batch.length + 1 : Nat) else o).toNat]? = some b.size := by
  have hle : normOutDim o b.batch.length ≤ b.batch.length := by unfold normOutDim; split <;> omega
  refine ⟨hle, by simp [removeBD, List.length_insertIdx_of_le_length hle], ?_⟩
  have : (if o < 0 then o + (b.batch.length + 1 : Nat) else o).toNat = normOutDim o b.batch.length := by
    unfold normOutDim; split <;> omega
  rw [this]
  simp [removeBD, List.getElem?_insertIdx_self, hle]

/-! ## 5. nested vmap -/

theorem vmapOp_run (p : List TOp) (i o level : Nat) (s : TD) : (vmapOp p i o level).run s = vmapTD p i o level s := by
  have hbk := bd_bookkeeping p i o level s
  have hl : (vmapTD p i o level ⟨s.batch, [], s.leaves⟩).leaves = (vmapTD p i o level s).leaves := by
    simp only [vmapTD, removeBD, runProgB_size]
    have : ∀ k, (runProgB p (addBD i level ⟨s.batch, [], s.leaves⟩)).sample k = (runProgB p (addBD i level s)).sample k := by
      intro k
      have h1 := congrArg TD.leaves (runProgB_sampleTD p (addBD i level ⟨s.batch, [], s.leaves⟩) k)
      have h2 := congrArg TD.leaves (runProgB_sampleTD p (addBD i level s) k)
      simp only [BTD.sampleTD] at h1 h2
      rw [h1, h2]
      -- the leaves of a program run depend on batch and leaves only
      have key : ∀ (p : List TOp) (a b : TD), a.batch = b.batch → a.leaves = b.leaves → (runProg p a).leaves = (runProg p b).leaves := by
        intro p
        induction p with
        | nil => intro a b _ h; exact h
        | cons op p ih =>
          intro a b hb hl
          show (runProg p (op.run a)).leaves = (runProg p (op.run b)).leaves
          apply ih
          · simp [TOp.run, hb]
          · simp [TOp.run, hb, hl]
      exact key p _ _ rfl rfl
    simp only [addBD] at this ⊢
    congr 1
    apply List.map_congr_left
    intro k _
    exact this k
  cases hv : vmapTD p i o level s with
  | mk b n l =>
    rw [hv] at hbk hl
    simp only at hbk hl
    simp only [TOp.run, vmapOp, hl, hbk.1, hbk.2]

/-- **nested vmap of depth 2**: the outer vmap of (the inner vmap of `p`) is the double loop — stack
over the outer slices of the stack over the inner slices of `p` applied to the doubly sliced
tensordict; the two levels only meet through `in_dims/out_dims`, never through the level numbers -/
theorem nested_vmap_eq_double_loop (p : List TOp) (i1 o1 l1 i2 o2 l2 : Nat) (td : TD)
    (h1 : 0 < td.batch.getD i1 0) (h2 : 0 < (td.batch.eraseIdx i1).getD i2 0) :
    vmapTD [vmapOp p i2 o2 l2] i1 o1 l1 td
      = stackTD ((unbindTD td i1).map (fun s => stackTD ((unbindTD s i2).map (runProg p)) o2)) o1 := by
  rw [vmap_td_eq_loop _ i1 o1 l1 td h1]
  congr 1
  simp only [unbindTD, List.map_map]
  apply List.map_congr_left
  intro k _
  show (vmapOp p i2 o2 l2).run (td.sel i1 k) = _
  rw [vmapOp_run, vmap_td_eq_loop p i2 o2 l2 (td.sel i1 k) h2]
  simp [unbindTD, List.map_map]

/-- **nested vmap of any depth** equals the nested per-sample loop: for every list of (in_dim, out_dim)
pairs, every innermost program and every starting level — by induction on the depth, each level being
one application of `vmap_td_eq_loop` to the inner vmap seen as an operation of the outer function -/
theorem nested_vmap_any_depth : ∀ (dims : List (Nat × Nat)) (p : List TOp) (lvl : Nat) (td : TD),
    SizesPos dims td.batch → runProg (nestProg dims p lvl) td = loopSpec dims (runProg p) td
  | [], _, _, _, _ => rfl
  | (i, o) :: rest, p, lvl, td, h => by
      show (vmapOp (nestProg rest p (lvl + 1)) i o lvl).run td = _
      rw [vmapOp_run, vmap_td_eq_loop _ i o lvl td h.1]
      show stackTD ((unbindTD td i).map (runProg (nestProg rest p (lvl + 1)))) o
        = stackTD ((unbindTD td i).map (loopSpec rest (runProg p))) o
      congr 1
      simp only [unbindTD, List.map_map]
      apply List.map_congr_left
      intro k _
      exact nested_vmap_any_depth rest p (lvl + 1) (td.sel i k) h.2

/-- the result of a vmap does not depend on the level number it ran at -/
theorem nested_vmap_levels_independent (p : List TOp) (i o l l' : Nat) (td : TD) :
    vmapTD p i o l td = vmapTD p i o l' td := by
  have : ∀ (p : List TOp) (b b' : BTD), b.batch = b'.batch → b.names = b'.names → b.size = b'.size → b.sample = b'.sample →
      removeBD o (runProgB p b) = removeBD o (runProgB p b') := by
    intro p
    induction p with
    | nil => intro b b' h1 h2 h3 h4; simp [runProgB, removeBD, h1, h2, h3, h4]
    | cons op p ih =>
      intro b b' h1 h2 h3 h4
      show removeBD o (runProgB p (op.runB b)) = removeBD o (runProgB p (op.runB b'))
      apply ih <;> simp [TOp.runB, h1, h2, h3, h4]
  exact this p _ _ rfl rfl rfl rfl

/-! ## 6. the memoised batched view of a locked tensordict -/

/-- a memo hit returns a view built for exactly this (in_dim, level) — an entry of another level is
never returned — and the memo stays consistent -/
theorem memo_keyed_by_dim_and_level (m : Memo) (i level : Nat) (h : MemoOK m) :
    (addBDMemo m i level).2 = ⟨i, level⟩ ∧ MemoOK (addBDMemo m i level).1 := by
  unfold addBDMemo
  cases hl : m.lookup (i, level) with
  | none =>
    refine ⟨rfl, ?_⟩
    intro e he
    rcases List.mem_cons.mp he with rfl | he
    · exact ⟨rfl, rfl⟩
    · exact h e he
  | some w =>
    have := h _ (lookup_mem m (i, level) w hl)
    refine ⟨?_, h⟩
    cases w with
    | mk a b => simp only at this; simp [this.1, this.2]

/-- **repeated vmap calls on the same locked tensordict observe its current values**: whatever was
memoised before, what the function sees through the returned view, resolved against the tensordict's
current content, is the batched view of the current content -/
theorem memo_sees_current_values (m : Memo) (i level : Nat) (h : MemoOK m) (tdNow : TD) :
    ((addBDMemo m i level).2).resolve tdNow = addBD i level tdNow := by
  rw [(memo_keyed_by_dim_and_level m i level h).1]; rfl

/-! ## 6a. histories on a locked tensordict between vmap calls -/

section MemoHist
open TdVerif.C19.MH

/-- **repeated vmap calls on the same locked tensordict observe its current values, whatever happened
in between**: after ANY history of requests (at any node, in_dim, level), in-place writes, rebinding
operations permitted under lock (`memmap_`, `names`, `batch_size`, unlock/set/lock of a free node) and
cache drops, on ANY lock graph that covers the content graph wherever something is memoised, the
wrapper a request returns is built for the requested (in_dim, level) and holds the tensors and metadata
the nodes below it hold NOW -/
theorem locked_history_sees_current (g : Graph) (hwf : g.WF) (hist : List Ev) (k i l : Nat) :
    let s := (run g St.init hist).1
    ∃ w, (step g s (.request k i l)).2 = some w ∧ w.inDim = i ∧ w.level = l ∧ w.Current g s k :=
  request_current g _ (run_inv g hwf hist _ (inv_init g)) k i l

/-- … in terms of values: what the function sees through the returned wrapper is the batched view of the
tensordict assembled from the current generations -/
theorem locked_history_view (g : Graph) (hwf : g.WF) (hist : List Ev) (k i l : Nat) (view : List Nat → TD) :
    let s := (run g St.init hist).1
    ∃ w, (step g s (.request k i l)).2 = some w ∧ w.resolve view = addBD i l (view (snapOf g k s.gens)) := by
  obtain ⟨w, h1, h2, h3, h4⟩ := locked_history_sees_current g hwf hist k i l
  refine ⟨w, h1, ?_⟩
  unfold W.resolve
  rw [h2, h3, h4]

/-- the concrete topologies the check drives (container list + lock kinds): the executable test
`wfCheck` the driver reports is enough for the theorem -/
theorem locked_history_topo (t : Topo) (h : t.graph.wfCheck = true) (hist : List Ev) (k i l : Nat) :
    let s := (run t.graph St.init hist).1
    ∃ w, (step t.graph s (.request k i l)).2 = some w ∧ w.inDim = i ∧ w.level = l ∧ w.Current t.graph s k :=
  locked_history_sees_current t.graph (wfCheck_sound _ h) hist k i l

/-- root{n{d}, m}, locked from the root -/
def topoTree : Topo := ⟨[none, some 0, some 1, some 0], [.own, .own, .own, .own]⟩
/-- a lazy stack (node 0) over two members locked BEFORE stacking, each with a nested node -/
def topoPreLocked : Topo := ⟨[none, some 0, some 0, some 1, some 2], [.byMembers, .own, .own, .own, .own]⟩
/-- the same stack locked with `lock_()` -/
def topoLazyLocked : Topo := ⟨[none, some 0, some 0, some 1, some 2], [.own, .own, .own, .own, .own]⟩

example : topoTree.graph.wfCheck = true := by decide
example : topoPreLocked.graph.wfCheck = true := by decide
example : topoLazyLocked.graph.wfCheck = true := by decide
-- lock ancestors: d → n → root; a member of a pre-locked stack has none
example : topoTree.graph.lanc 2 = [2, 1, 0] := by decide
example : topoPreLocked.graph.lanc 3 = [3, 1] := by decide
example : topoLazyLocked.graph.lanc 3 = [3, 1, 0] := by decide

/-- vmap on the root, `td["n"].memmap_()`, vmap on the root again: the second call gets a NEW wrapper
(request 2 is not request 0's object), while an in-place write in between keeps the memoised one -/
example : identityPattern (run topoTree.graph St.init
    ([.request 0 0 1] ++ apiEvents topoTree.graph "inplace" 1 ++ [.request 0 0 1] ++ apiEvents topoTree.graph "memmap_" 1
      ++ [.request 0 0 1, .request 3 0 1, .request 3 0 1])).2 = [0, 0, 2, 3, 3] := by decide

/-- **counter-model (`_memmap_` clearing only the node's own cache)**: the lock parents keep their
wrapper and the second vmap call computes on the abandoned tensors -/
theorem erase_self_only_is_stale :
    let g := topoTree.graph.eraseSelfOnly
    let hist := [Ev.request 0 0 1] ++ apiEvents g "memmap_" 1
    let s := (run g St.init hist).1
    ∃ w, (step g s (.request 0 0 1)).2 = some w ∧ ¬ w.Current g s 0 := by
  refine ⟨⟨0, 1, 0, [0, 0, 0, 0]⟩, by decide, by decide⟩

/-- **counter-model (`cache` memoising on a lazy stack over pre-locked members)**: a member is no lock
child of the stack, so unlock / set / lock on it leaves the stack's wrapper stale -/
theorem by_members_memoising_is_stale :
    let g := topoPreLocked.graphMemoAll
    let hist := [Ev.request 0 0 1] ++ apiEvents g "unlock_set_lock" 1
    let s := (run g St.init hist).1
    ∃ w, (step g s (.request 0 0 1)).2 = some w ∧ ¬ w.Current g s 0 := by
  refine ⟨⟨0, 1, 0, [0, 0, 0, 0, 0]⟩, by decide, by decide⟩

-- … and neither variant passes the executable well-formedness test
example : topoTree.graph.eraseSelfOnly.wfCheck = false := by decide
example : topoPreLocked.graphMemoAll.wfCheck = false := by decide
-- on the real graph the same histories return a fresh wrapper
example : identityPattern (run topoPreLocked.graph St.init
    ([.request 0 0 1, .request 0 0 1, .request 1 0 1] ++ apiEvents topoPreLocked.graph "unlock_set_lock" 1
      ++ [.request 0 0 1, .request 1 0 1, .request 2 0 1, .request 2 0 1])).2 = [0, 1, 2, 3, 4, 5, 5] := by decide

end MemoHist

/-! ## 6b. lazily stacked tensordicts -/

/-- **Bookkeeping for a lazy stack** (identity function): whatever the relative position of `in_dim`,
`stack_dim` and `out_dim` — hidden-stack path when `in_dim = stack_dim`, member-wise path with the
`stack_dim ± 1` / `out_dim - 1` re-indexing otherwise — the tensordict the result stands for has the
batch size of the dense stack with entry `in_dim` moved to `out_dim`. -/
theorem lazy_bd_bookkeeping (m : TD) (rest : List TD) (sd i o level : Nat)
    (hsd : sd ≤ m.batch.length) (hi : i ≤ m.batch.length) (ho : o ≤ m.batch.length) :
    (vmapLazy [] i o level ⟨sd, m :: rest⟩).dense.batch
      = ((LTD.dense ⟨sd, m :: rest⟩).batch.eraseIdx i).insertIdx o ((LTD.dense ⟨sd, m :: rest⟩).batch.getD i 0) := by
  have hd : (LTD.dense ⟨sd, m :: rest⟩).batch = m.batch.insertIdx sd (rest.length + 1) := by
    simp [LTD.dense, stackTD]
  rw [hd]
  by_cases h1 : i = sd
  · subst h1
    simp only [vmapLazy, BLTD.deriveProg, List.foldl_nil, addBDLazy, if_true, removeBDLazy, LTD.dense, stackTD,
      List.headD_cons, List.length_cons, List.eraseIdx_insertIdx_self, getD_insertIdx_self _ _ _ _ hsd]
  · by_cases h2 : i < sd
    · have he := eraseIdx_insertIdx_lt m.batch sd i (rest.length + 1) h2 hsd
      have hg := getD_insertIdx_lt m.batch sd i (rest.length + 1) 0 h2
      rw [he, hg]
      have key := insert_two (m.batch.eraseIdx i) (sd - 1) o (rest.length + 1) (m.batch.getD i 0)
        (by rw [List.length_eraseIdx]; split <;> omega) (by rw [List.length_eraseIdx]; split <;> omega)
      rw [← key]
      simp only [vmapLazy, BLTD.deriveProg, List.foldl_nil, addBDLazy, h1, if_false, h2, if_true, removeBDLazy]
      have hs : sd - 1 + 1 = sd := by omega
      split <;> simp [LTD.dense, stackTD, removeBD, addBD, hs]
    · have h3 : sd < i := by omega
      have he := eraseIdx_insertIdx_gt m.batch sd i (rest.length + 1) h3 hi
      have hg := getD_insertIdx_gt m.batch sd i (rest.length + 1) 0 h3 hsd
      rw [he, hg]
      have key := insert_two (m.batch.eraseIdx (i - 1)) sd o (rest.length + 1) (m.batch.getD (i - 1) 0)
        (by rw [List.length_eraseIdx]; split <;> omega) (by rw [List.length_eraseIdx]; split <;> omega)
      rw [← key]
      simp only [vmapLazy, BLTD.deriveProg, List.foldl_nil, addBDLazy, h1, if_false, h2, removeBDLazy]
      split <;> simp [LTD.dense, stackTD, removeBD, addBD]

/-- **Leaves of a batched lazy stack are the slices of the dense stack**: what sample `k` of the batched
stack holds for a leaf — member `k` itself when `in_dim = stack_dim` (hidden-stack path), the stack at
`stack_dim - 1` of the members' slices at `in_dim` when `in_dim < stack_dim`, the stack at `stack_dim` of the
members' slices at `in_dim - 1` when `in_dim > stack_dim` — is slice `k` along `in_dim` of the stacked leaf. -/
theorem lazy_leaf_slices (ts : List T) (sd i k : Nat) (hne : 0 < ts.length)
    (hshape : ∀ t ∈ ts, t.shape = (ts.headD default).shape)
    (hsd : sd ≤ (ts.headD default).shape.length) (hi : i ≤ (ts.headD default).shape.length) :
    (i = sd → k < ts.length → (select (stack ts sd) i k).Eqv (ts.getD k default)) ∧
    (i < sd → (select (stack ts sd) i k).Eqv (stack (ts.map (fun t => select t i k)) (sd - 1))) ∧
    (sd < i → (select (stack ts sd) i k).Eqv (stack (ts.map (fun t => select t (i - 1) k)) sd)) :=
  ⟨fun h hk => h ▸ select_stack_same ts sd k hk hsd hshape,
   fun h => select_stack_lt ts sd i k hne h hsd,
   fun h => select_stack_gt ts sd i k hne h hi⟩

/-- **writing an un-batched value into a lazy stack vmapped along its stack dimension**: every stacked
tensordict (= every sample) receives the *whole* value, the stack stays hooked, and unwrapping restacks
the members at `out_dim` — i.e. the result is the stack of the per-sample `set(name, t)` -/
theorem lazy_hooked_set_const (sd o size level : Nat) (ms : List TD) (name : String) (t : T) :
    removeBDLazy o size ((BLTD.hooked sd ms level).setConst name t)
      = ⟨o, ms.map (fun m => ⟨m.batch, m.names, (m.leaves.filter (fun p => p.1 != name)) ++ [(name, t)]⟩)⟩ := rfl

/-- **read-compute-write through the hooks keeps the hidden stack**: `lazy.set(dst, g(lazy.get(src)))` on a lazy stack
vmapped along its stack dimension acts on every stacked tensordict (= every sample) and the result is unwrapped by
re-stacking at `out_dim` — the stack of the per-sample results, with no duplicated dimension (contrast
`lazy_stackdim_derived_counterexample`) -/
theorem lazy_hooked_get_set (sd o size level : Nat) (ms : List TD) (op : TOp) :
    removeBDLazy o size ((BLTD.hooked sd ms level).getSet op) = ⟨o, ms.map op.run⟩ ∧
    (LTD.dense ⟨o, ms.map op.run⟩) = stackTD (ms.map op.run) o := ⟨rfl, rfl⟩

/-- what the hidden-stack path does to a function that *derives* a new stack (the known finding
C19-lazy-stackdim-derived): vmap along the stack dimension of a stack of two tensordicts of batch []
with `f = td.apply(...)` returns batch size [2, 2] where the per-sample loop gives [2] -/
theorem lazy_stackdim_derived_counterexample :
    (vmapLazy [⟨id, fun _ n => n, fun _ l => l⟩] 0 0 1 ⟨0, [⟨[], [], [("a", arangeT 0 [])]⟩, ⟨[], [], [("a", arangeT 7 [])]⟩]⟩).dense.batch = [2, 2] ∧
    (stackTD ((unbindTD (LTD.dense ⟨0, [⟨[], [], [("a", arangeT 0 [])]⟩, ⟨[], [], [("a", arangeT 7 [])]⟩]⟩) 0).map
      (runProg [⟨id, fun _ n => n, fun _ l => l⟩])) 0).batch = [2] := by
  decide

/-! ## 6c. the transcribed sources -/

/-- `_add_batch_dim`, `_remove_batch_dim`, `_maybe_remove_batch_dim` (TensorDict and lazy stack),
`_cached_add_batch_dims`, `_process_batched_inputs`, `_create_batched_inputs`, `_unwrap_batched` still have the
shape (normalised ast, regenerated on every run) the model was transcribed from -/
theorem transcribed_sources_unchanged : Gen.C19.shapes = expectedShapes := by decide +kernel

/-! ## 7. non-vacuity -/

/-- a tensordict of batch [2,3] with leaves a : [2,3,2], b : [2,3] holding their own ravel index -/
def exTD : TD := ⟨[2, 3], [some "d0", none], [("a", arangeT 0 [2, 3, 2]), ("b", arangeT 1000 [2, 3])]⟩
def exProg : List TOp := [⟨fun b => b.insertIdx 0 1, fun _ n => n.insertIdx 0 none,
  fun _ => List.map (fun p => (p.1, ⟨p.2.shape.insertIdx 0 1, fun c => 2 * p.2.get (c.eraseIdx 0)⟩))⟩]

-- hypotheses of `vmap_td_eq_loop` / `nested_vmap_eq_double_loop` hold on it
example : 0 < exTD.batch.getD 1 0 ∧ 0 < (exTD.batch.eraseIdx 1).getD 0 0 := by decide
-- vmap over dim 1, out at 2 of (unsqueeze(0) ∘ *2): batch [1,2,3], names [none,d0,none]
example : (vmapTD exProg 1 2 1 exTD).batch = [1, 2, 3] ∧ (vmapTD exProg 1 2 1 exTD).names = [none, some "d0", none] := by decide
-- … and leaf b: element [0,1,2] of the result is 2 * b[1,2]
example : ((vmapTD exProg 1 2 1 exTD).leaves.getD 1 default).2.get [0, 1, 2] = 2 * (1000 + 5) := by decide
-- the oracle side gives the same value
example : ((stackTD ((unbindTD exTD 1).map (runProg exProg)) 2).leaves.getD 1 default).2.get [0, 1, 2] = 2010 := by decide
-- negative dims: in_dim -1 of rank 2 is 1; out_dim -1 with per-sample output rank 2 is 2
example : normInDim (-1) 2 = 1 ∧ normOutDim (-1) 2 = 2 ∧ normOutDim (-3) 2 = 0 := by decide
-- why out_dim had to be normalised: the un-normalised code (list.insert(-1), functorch wrap against the
-- leaf rank) puts the vmap size before the last batch dim in batch_size but after the feature dim in leaf a
example : (removeBDRaw (-1) (addBD 1 1 exTD)).batch = [3, 2] ∧
    ((removeBDRaw (-1) (addBD 1 1 exTD)).leaves.getD 0 default).2.shape = [2, 2, 3] ∧
    (removeBDRaw (-1) (addBD 1 1 exTD)).coherentB = false := by decide
example : (removeBD (normOutDim (-1) 1) (addBD 1 1 exTD)).coherentB = true := by decide
-- memo: a hit at (in_dim 0, level 1) after an entry for level 2 was stored returns the level-1 view
example : (addBDMemo [((0, 2), ⟨0, 2⟩)] 0 1).2 = ⟨0, 1⟩ := by decide

end TdVerif.Props.C19
