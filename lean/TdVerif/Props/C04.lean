/-
  C04 — mapping semantics and nested-key canonicalisation: property theorems.

  Model  : Model/C04Tree.lean (transcription of the library's algorithms), Model/Key.lean (csrc/utils.cpp)
  Spec   : Model/C04Spec.lean (`lookup/insert/remove` = a plain nested dict; `dstep` = the replay)
  Lemmas : Lemmas/C04.lean

  Reading guide
    §1 every spelling of a nested key is canonicalised to the same path
    §2 `lookup/insert/remove` obey the laws of a nested mapping (what "plain nested dict" means here)
    §3 the transcribed primitives (get / set / del / membership) compute `lookup/insert/remove/has`
    §4 the transcribed composite operations (pop, rename_key_, setdefault, clear) equal the dict replay,
       for every state, every key and every history (`run_refines`)
    §5 the key/item views enumerate exactly the bound paths of the dict, for every flag combination
-/
import TdVerif.Model.Key
import TdVerif.Model.C04Tree
import TdVerif.Model.C04Spec
import TdVerif.Lemmas.C04
import TdVerif.Lemmas.C04Roundtrip
import TdVerif.Lemmas.C04Split
import TdVerif.Lemmas.C04SplitPart
import TdVerif.Lemmas.C04Views
import TdVerif.Lemmas.C04Select
import TdVerif.Lemmas.C04SelectRef
import TdVerif.Lemmas.C04Keys

namespace TdVerif.Props.C04
open TdVerif TdVerif.Key TdVerif.C04

/-! ## §1 spellings -/

/-- `_unravel_key_to_tuple` (C++): every nested-tuple spelling of a non-empty path yields that path. -/
theorem spelling_canonical {k : Key} {p : List String} (h : Spells k p) (_hp : p ≠ []) :
    unravelTupCpp k = p := spells_tup h

/-- `unravel_key` (C++): a spelling of `[s]` yields the bare string, a longer path its tuple. -/
theorem spelling_canonical_key {k : Key} {p : List String} (h : Spells k p) (_hp : p ≠ []) :
    unravelKeyCpp k = packKey p := by
  cases h with
  | str s => simp [unravelKeyCpp, packKey]
  | tup l p hl => simp [unravelKeyCpp, spellsL_loop hl]

/-- two spellings of the same path are indistinguishable to every operation (operations only see the
unravelled key). -/
theorem spellings_same_entry {k k' : Key} {p : List String} (h : Spells k p) (h' : Spells k' p) :
    unravelTupCpp k = unravelTupCpp k' ∧ unravelKeyCpp k = unravelKeyCpp k' := by
  refine ⟨by rw [spells_tup h, spells_tup h'], ?_⟩
  cases p with
  | nil =>
    -- only the empty tuple spells the empty path
    have nilL : ∀ {l : List Key} {p : List String}, SpellsL l p → p = [] → l = [] := by
      intro l p hl hp
      cases hl with
      | nil => rfl
      | cons k l p q hk hne hr => simp at hp; exact absurd hp.1 hne
    have nilK : ∀ {k : Key}, Spells k [] → k = .tup [] := by
      intro k hk
      generalize hp : ([] : List String) = p at hk
      cases hk with
      | str s => simp at hp
      | tup l p hl => rw [nilL hl hp.symm]
    rw [nilK h, nilK h']
  | cons a b => rw [spelling_canonical_key h (by simp), spelling_canonical_key h' (by simp)]

example : Spells (.tup [.str "a", .tup [.tup [.str "b"], .str "c"]]) ["a", "b", "c"] :=
  .tup _ _ (.cons _ _ ["a"] ["b", "c"] (.str "a") (by simp)
    (.cons _ _ ["b", "c"] [] (.tup _ _ (.cons _ _ ["b"] ["c"] (.tup _ _ (.cons _ _ ["b"] [] (.str "b") (by simp) .nil)) (by simp)
      (.cons _ _ ["c"] [] (.str "c") (by simp) .nil))) (by simp) .nil))

/-- malformed keys: the C++ unraveller answers with the empty tuple EXACTLY for the objects that spell no non-empty path — a
non-str member anywhere, an empty tuple anywhere (`()`, `("a", ())`, `("a", 1)`, `(("a",), (), "b")` …) — the converse of
`spelling_canonical`; and `get` / `set` / `del_`, which see only that tuple, refuse the empty one whatever the state. -/
theorem malformed_key_iff (k : Key) :
    (unravelTupCpp k = [] ↔ ¬ ∃ p, p ≠ [] ∧ Spells k p) ∧
    (∀ t v, (∃ e, getTuple [] t = .error e) ∧ (∃ e, setTuple [] v t = .error e) ∧ (∃ e, delTuple [] t = .error e)) := by
  refine ⟨malformed_iff k, fun t v => ⟨⟨_, rfl⟩, ?_, ?_⟩⟩
  · cases t <;> exact ⟨_, rfl⟩
  · cases t <;> exact ⟨_, rfl⟩

/-! ## §2 the reference is a nested mapping -/

/-- reading back what was written -/
theorem get_set_same (p : Path) (v t t' : Entry) (h : insert p v t = some t') : lookup p t' = some v :=
  lookup_insert_same p v t t' h

/-- a write does not disturb unrelated paths (neither a prefix of the other) -/
theorem get_set_other (p q : Path) (v t t' : Entry) (h : insert p v t = some t')
    (h1 : isPrefix p q = false) (h2 : isPrefix q p = false) : lookup q t' = lookup q t :=
  lookup_insert_other p v t t' h q h1 h2

/-- a deleted entry is gone (keys are unique in a dict: `WF`) -/
theorem get_del_same (p : Path) (t t' : Entry) (hw : WF t) (h : remove p t = some t') : lookup p t' = none :=
  lookup_remove_same p t t' hw h

theorem get_del_other (p q : Path) (t t' : Entry) (h : remove p t = some t')
    (h1 : isPrefix p q = false) (h2 : isPrefix q p = false) : lookup q t' = lookup q t :=
  lookup_remove_other p t t' h q h1 h2

/-- a write is rejected exactly when the key is empty or runs through a leaf; a delete exactly when the
entry does not exist -/
theorem set_rejected_iff (p : Path) (v t : Entry) : insert p v t = none ↔ (p = [] ∨ throughLeaf p t = true) :=
  insert_eq_none_iff p v t

theorem del_accepted_iff (p : Path) (t : Entry) : (remove p t).isSome = has p t := remove_isSome p t

/-- uniqueness of keys is an invariant of writes and deletes -/
theorem wf_preserved (p : Path) (v t t' : Entry) (hw : WF t) (hv : WF v) :
    (insert p v t = some t' → WF t') ∧ (remove p t = some t' → WF t') :=
  ⟨wf_insert p v t t' hw hv, wf_remove p t t' hw⟩

example : insert ["a", "b", "c"] (.leaf false 1) (.node []) =
    some (.node [("a", .node [("b", .node [("c", .leaf false 1)])])]) := by
  simp [C04.insert, dget, dset]

/-! ## §3 the transcribed primitives -/

/-- `td.get(key, None)` returns what the dict holds; it raises only for the empty key or a key that runs
through a leaf (where the dict has nothing either). -/
theorem get_refines (p : Path) (t : Entry) :
    (∀ r, getTuple p t = .ok r → r = lookup p t) ∧
    (∀ e, getTuple p t = .error e → (p = [] ∨ throughLeaf p t = true) ∧ (p ≠ [] → lookup p t = none)) := by
  refine ⟨fun r h => getTuple_ok p t r h, fun e h => ?_⟩
  have := getTuple_error p t e h
  refine ⟨this, fun hp => ?_⟩
  rcases this with h1 | h1
  · exact absurd h1 hp
  · exact lookup_none_of_throughLeaf p t h1

/-- `td.set(key, value)` (auto-creating nested tensordicts) is `d[p] = v`, rejected in the same cases -/
theorem set_refines (p : Path) (v t : Entry) : (setTuple p v t).toOption = insert p v t := setTuple_toOption p v t

/-- `td.del_(key)` is `del d[p]`, rejected in the same cases -/
theorem del_refines (p : Path) (t : Entry) : (delTuple p t).toOption = remove p t := delTuple_toOption p t

/-- `key in td` / `key in td.keys(True)` is membership in the dict (for every key length: the `fix:` commit
made keys of length ≥ 4 through a tensor answer False instead of raising). -/
theorem contains_refines (p : Path) (kids : Kids) (hp : p ≠ []) :
    containsNested p (.node kids) = .ok (has p (.node kids)) := containsNested_eq p kids hp

/-! ## §4 composite operations equal the replay on the dict -/

/-- `pop`: `get` then `del_` inside `try/except KeyError` is `v = d[p]; del d[p]` -/
theorem pop_refines (p : Path) (d : Bool) (t : Entry) (hnt : throughNt p t = false ∨ d = false) :
    (popT p d t).1 = (specPop p d t).1 ∧ (popT p d t).2.erase = (specPop p d t).2.erase :=
  pop_refines_aux p d t hnt

/-- `rename_key_` (repaired): set-then-delete with its two prefix special cases is `v = d.pop(old); d[new] = v`
— in particular for a new key extending the old one (DESIGN §7 row 3) and for a new key that is a prefix
of the old one; a rejected call changes nothing. -/
theorem rename_refines (old new : Path) (safe : Bool) (kids : Kids) (hw : WF (.node kids)) :
    (renameKey old new safe (.node kids)).1 = (specRename old new safe (.node kids)).1 ∧
    (renameKey old new safe (.node kids)).2.erase = (specRename old new safe (.node kids)).2.erase :=
  rename_refines_aux old new safe kids hw

/-- the witness of DESIGN §7 row 3, now conforming: the entry survives `rename_key_(("a","b"), ("a","b","c"))` -/
example : (renameKey ["a", "b"] ["a", "b", "c"] false (.node [("a", .node [("b", .node [("x", .leaf false 7)])])])).1
    = .node [("a", .node [("b", .node [("c", .node [("x", .leaf false 7)])])])] := by
  simp [renameKey, isPrefix, getTuple, delTuple, setTuple, dget, dset, ddel, Except.map]

theorem setdefault_refines (p : Path) (isTuple : Bool) (dflt : Entry) (kids : Kids)
    (hstr : isTuple = false → p.length = 1) :
    (setDefault p isTuple dflt (.node kids)).1 = (specSetDefault p dflt (.node kids)).1 ∧
    (setDefault p isTuple dflt (.node kids)).2.erase = (specSetDefault p dflt (.node kids)).2.erase := by
  by_cases hp : p = []
  · subst hp
    cases isTuple with
    | true => simp [setDefault, containsNested, specSetDefault, Out.erase]
    | false => simp at hstr
  · exact setDefault_refines_aux p isTuple dflt kids hp hstr

/-- `clear`: deleting the root keys one by one empties the dict -/
theorem clear_refines (kids : Kids) : clearT (.node kids) = specClear (.node kids) := clear_refines_aux kids

/-- `unflatten_keys(sep)`: the loop of `rename_key_(key, key.split(sep), safe=True)` over the root keys (in place or on
the shallow copy) equals the replay on the dict, including which keys are refused and what has already been moved
when a key is refused. -/
theorem unflatten_refines (sep : String) (inplace : Bool) (kids : Kids) (hw : WF (.node kids)) :
    (unflattenT sep inplace (.node kids)).1 = (specUnflatten sep inplace (.node kids)).1 ∧
    (unflattenT sep inplace (.node kids)).2.erase = (specUnflatten sep inplace (.node kids)).2.erase := by
  have h := unflattenLoop_refines sep (rootKeys (.node kids)) kids hw
  simp only [unflattenT, specUnflatten]
  by_cases hg : sep = "" ∧ rootKeys (.node kids) ≠ []
  · rw [if_pos hg, if_pos hg]; exact ⟨rfl, rfl⟩
  · rw [if_neg hg, if_neg hg]
    cases h1 : unflattenLoop sep (rootKeys (.node kids)) (.node kids) with
    | mk t1 o1 =>
      cases h2 : specUnflattenLoop sep (rootKeys (.node kids)) (.node kids) with
      | mk t2 o2 =>
        rw [h1, h2] at h
        obtain ⟨hs, ho⟩ := h
        simp only at hs ho; subst hs
        cases inplace <;> cases o1 <;> cases o2 <;> simp [Out.erase] at ho ⊢

/-- `exclude(*keys)` (repaired): popping the string keys, grouping the nested keys by their first component and
recursing into the nested tensordicts equals deleting every listed entry if present — whatever the order of the keys,
with keys that are prefixes of one another, absent keys and keys running through a leaf. -/
theorem exclude_refines (keys : List Path) (inplace : Bool) (kids : Kids) (hw : WF (.node kids))
    (hk : ∀ p ∈ keys, p ≠ []) :
    excludeT keys inplace (.node kids) =
      (if inplace then (specExclude keys (.node kids), .ok) else (.node kids, .res [specExclude keys (.node kids)])) :=
  excludeT_refines keys inplace kids hw hk

/-- …and the result does not depend on the order in which the keys are listed -/
theorem exclude_order_independent (k1 k2 : List Path) (kids : Kids) (hw : WF (.node kids))
    (h1 : ∀ p ∈ k1, p ≠ []) (h2 : ∀ p ∈ k2, p ≠ []) (hperm : k1.Perm k2) :
    specExclude k1 (.node kids) = specExclude k2 (.node kids) := by
  rw [specExclude_eq_sx k1 kids hw h1, specExclude_eq_sx k2 kids hw h2]
  congr 1
  -- induction on the depth of the tree through a size bound
  have main : ∀ (n : Nat) (x y : List Path) (l : Kids), entrySize.kidsSize l ≤ n → x.Perm y → sx x l = sx y l := by
    intro n
    induction n with
    | zero =>
      intro x y l hl hp
      cases l with
      | nil => simp [sx]
      | cons kv r => obtain ⟨k, e⟩ := kv; cases e <;> simp [entrySize.kidsSize, entrySize] at hl
    | succ n ihn =>
      intro x y l hl hp
      induction l with
      | nil => simp [sx]
      | cons kv r ihl =>
        obtain ⟨k, e⟩ := kv
        have hc : x.contains [k] = y.contains [k] := by
          have := hp.mem_iff (a := [k])
          cases hx : x.contains [k] <;> cases hy : y.contains [k] <;> simp_all
        have hr : entrySize.kidsSize r ≤ n + 1 := by
          simp only [entrySize.kidsSize] at hl; omega
        by_cases h : x.contains [k] = true
        · rw [sx_cons_hit e r h, sx_cons_hit e r (by rw [← hc]; exact h), ihl hr]
        · have h' : x.contains [k] = false := by simpa using h
          rw [sx_cons_miss e r h', sx_cons_miss e r (by rw [← hc]; exact h'), ihl hr]
          congr 2
          cases e with
          | leaf nt v => rfl
          | node sub =>
            simp only [sxE]
            have hs : entrySize.kidsSize sub ≤ n := by
              simp only [entrySize.kidsSize, entrySize] at hl; omega
            have hpt : (tailsOf k x).Perm (tailsOf k y) := by simp only [tailsOf]; exact hp.filterMap _
            rw [ihn _ _ sub hs hpt]
  exact main _ k1 k2 kids (Nat.le_refl _) hperm

/-- `update(payload)` (dict payload, tuple keys allowed, nested dict values): descending into the nested tensordict
that a dict value meets (`target.update({subkey: value})` / `target.update(value)`) and `_set_tuple` for everything
else equals the merge on the plain dict, item by item, with the same stopping point when an item cannot be written. -/
theorem update_refines (items : List (Path × Entry)) (kids : Kids) :
    (updateF (updFuel items) items (.node kids)).1 = (specUpdate items (.node kids)).1 ∧
    okU (updateF (updFuel items) items (.node kids)).2 = okU (specUpdate items (.node kids)).2 :=
  updateF_spec (updFuel items) items kids (Nat.le_refl _)

/-- `split_keys(*key_sets, inplace, strict)`: for every state and every list of key sets (keys that are prefixes of one
another, repeated or missing keys included) popping each key from the running remainder and setting it in a fresh
tensordict per key set, then dropping the empty nested tensordicts of the remainder, equals the same moves on plain dicts
(`specSplit`: `v = last.pop(p[, None]); out[p] = v`) — same outputs, same remainder, the same calls refused, and a
refused call changes nothing. Side condition: strict, or no key runs through a NonTensorData (outside the model). -/
theorem split_refines (sets : List (List Path)) (inplace strict : Bool) (kids : Kids) (hw : WF (.node kids))
    (hs : strict = true ∨ ∀ ks ∈ sets, ∀ p ∈ ks, throughNt p (.node kids) = false) :
    (splitT sets inplace strict (.node kids)).1 = (specSplit sets inplace strict (.node kids)).1 ∧
    (splitT sets inplace strict (.node kids)).2.erase = (specSplit sets inplace strict (.node kids)).2.erase :=
  splitT_refines sets inplace strict _ hw hs

/-- `split_keys(*key_sets)` PARTITIONS the tensors — when no key is a prefix of another (`_partial`: see the known finding below for
what happens otherwise). For every state with unique keys and every list of key sets whose keys are pairwise unrelated, whenever the
call succeeds (in place or out of place, strict or not) it returns one tensordict per key set and the remainder, and
* the i-th result holds a tensor / non-tensor at `q` exactly when the receiver holds it there and `q` lies at or below one of the keys
  of the i-th key set (`OutsHold`),
* the remainder holds it exactly when the receiver holds it there and `q` lies below none of the keys.
Hence (`split_no_leaf_lost_partial`) every tensor of the receiver is found, with its value, in one of the results, and the results
hold nothing else. Proved on the plain-dict replay (`specSplit_partition`: loop invariants over the keys of a set and over the sets,
`lookup_remove_leaf`, `lookup_insert_leaf`, `filterEmpty_leaf`) and carried to the transcription by `split_refines`. -/
theorem split_partition_partial (sets : List (List Path)) (inplace strict : Bool) (kids : Kids) (hw : WF (.node kids))
    (hs : strict = true ∨ ∀ ks ∈ sets, ∀ p ∈ ks, throughNt p (.node kids) = false)
    (hpw : List.Pairwise Unrel sets.flatten)
    (rs : List Entry) (h : (splitT sets inplace strict (.node kids)).2 = .res rs) :
    ∃ outs rem, rs = outs ++ [rem] ∧ OutsHold (.node kids) sets outs ∧
      (∀ q nt x, LeafAt q nt x rem ↔ LeafAt q nt x (.node kids) ∧ ∀ p ∈ sets.flatten, isPrefix p q = false) := by
  have href := (split_refines sets inplace strict kids hw hs).2
  rw [h] at href
  have hspec : (specSplit sets inplace strict (.node kids)).2 = .res rs := by
    cases hh : (specSplit sets inplace strict (.node kids)).2 with
    | err e => rw [hh] at href; simp [Out.erase] at href
    | ok => rw [hh] at href; simp [Out.erase] at href
    | val v => rw [hh] at href; simp [Out.erase] at href
    | res r => rw [hh] at href; simp [Out.erase] at href; rw [href]
  exact specSplit_partition sets inplace strict (.node kids) hw hpw rs hspec

/-- …in particular nothing is lost and nothing is invented -/
theorem split_no_leaf_lost_partial (sets : List (List Path)) (inplace strict : Bool) (kids : Kids) (hw : WF (.node kids))
    (hs : strict = true ∨ ∀ ks ∈ sets, ∀ p ∈ ks, throughNt p (.node kids) = false)
    (hpw : List.Pairwise Unrel sets.flatten)
    (rs : List Entry) (h : (splitT sets inplace strict (.node kids)).2 = .res rs) (q : Path) (nt : Bool) (x : Nat) :
    LeafAt q nt x (.node kids) ↔ ∃ r ∈ rs, LeafAt q nt x r := by
  obtain ⟨outs, rem, rfl, hO, hR⟩ := split_partition_partial sets inplace strict kids hw hs hpw rs h
  constructor
  · intro hl
    by_cases hex : ∃ p ∈ sets.flatten, isPrefix p q = true
    · obtain ⟨p, hp, hpq⟩ := hex
      obtain ⟨o, ho, hlo⟩ := hO.covers q nt x hl p hp hpq
      exact ⟨o, List.mem_append_left _ ho, hlo⟩
    · refine ⟨rem, by simp, (hR q nt x).mpr ⟨hl, fun p hp => ?_⟩⟩
      cases hc : isPrefix p q with
      | false => rfl
      | true => exact absurd ⟨p, hp, hc⟩ hex
  · rintro ⟨r, hr, hl⟩
    rcases List.mem_append.mp hr with hm | hm
    · exact (hO.sound r hm q nt x hl).1
    · simp at hm; subst hm; exact ((hR q nt x).mp hl).1

/-- KNOWN FINDING C04-split-related-keys-lose-leaf (found after the repo freeze, not repaired): `split_keys` with a key and a
longer key below it — the longer one first — LOSES the entry of the longer key: it is popped and written into the output, then the
value popped for the shorter key (what is left of the nested tensordict) overwrites the nested tensordict that holds it.
`TensorDict({"a": {"b": 1, "c": 2}, "d": 3}).split_keys([("a","b"), "a"])` returns `[{a: {c: 2}}, {d: 3}]`: the tensor under
`("a","b")` is in none of the results (evaluated on the transcription; the check replays it on the implementation, oracle site
`split-partition`). The plain-dict replay `out[p] = last.pop(p)` loses it in the same way, which is why `split_refines` holds. -/
theorem split_related_keys_lose_leaf :
    let t := Entry.node [("a", .node [("b", .leaf false 1), ("c", .leaf false 2)]), ("d", .leaf false 3)]
    splitT [[["a", "b"], ["a"]]] false true t
      = (t, .res [.node [("a", .node [("c", .leaf false 2)])], .node [("d", .leaf false 3)]]) ∧
    lookup ["a", "b"] t = some (.leaf false 1) ∧
    lookup ["a", "b"] (.node [("a", .node [("c", .leaf false 2)])]) = none ∧
    lookup ["a", "b"] (.node [("d", .leaf false 3)]) = none := by
  refine ⟨?_, ?_, ?_, ?_⟩
  · simp [splitT, splitSets, splitSet, popT, getTuple, delTuple, setTuple, dget, dset, ddel, filterEmpty, filterEmpty.go, Except.map]
  · simp [lookup, dget]
  · simp [lookup, dget]
  · simp [lookup, dget]

/-- `select(*keys, strict, inplace)`: for every state and every list of keys (prefixes of one another, repeated, missing,
running through tensors) the two loops of `_select` — the scan of the first components building `source`, the grouping of
the nested sub-keys, the recursion into the nested tensordicts, keys only checked because an ancestor is selected as a
whole, the dry run of an in-place call — compute the fold on plain dicts `out = {}; for p in keys: merge d along p into
out` (`specSelect` / `selIns`): same entries in the same order, same nested selections (the empty nested dicts a
non-strict call leaves for missing tails included), the same calls refused, a refused call changes nothing. No side
condition. -/
theorem select_refines (keys : List Path) (strict inplace : Bool) (kids : Kids) :
    (selectT keys strict inplace (.node kids)).1 = (specSelect keys strict inplace (.node kids)).1 ∧
    (selectT keys strict inplace (.node kids)).2.erase = (specSelect keys strict inplace (.node kids)).2.erase :=
  selectT_refines keys strict inplace kids

/-- THE PROPERTY, one step — FULL STATEMENT: for every state with unique keys and every one of the thirteen operations
(set / del / pop / rename_key_ / setdefault / update / select / exclude / split_keys / flatten_keys / unflatten_keys /
clear / empty, in place and out of place) the transcribed code and the replay on the plain nested dict end in the same
state and give the same answer (up to the class of the exception). `InScope` only asks that written values are themselves
well-formed, that a `str` key has one component, that excluded keys are non-empty and — for `pop` with a default and a
non-strict `split_keys` — that no key runs through a NonTensorData (outside the model, known finding
C04-nontensor-transparent). -/
theorem refines (kids : Kids) (hw : WF (.node kids)) (op : Op) (hs : InScope (.node kids) op) :
    (step (.node kids) op).1 = (dstep (.node kids) op).1 ∧
    (step (.node kids) op).2.erase = (dstep (.node kids) op).2.erase := by
  cases op with
  | set p v =>
    simp only [step, dstep, specSet]
    cases hi : insert p v (.node kids) with
    | none => obtain ⟨e, he⟩ := setTuple_error_of_insert hi; simp [he, Out.erase]
    | some t' => simp [setTuple_of_insert hi]
  | del p =>
    simp only [step, dstep, specDel]
    cases hi : remove p (.node kids) with
    | none => obtain ⟨e, he⟩ := delTuple_error_of_remove hi; simp [he, Out.erase]
    | some t' => simp [delTuple_of_remove hi]
  | pop p d => exact pop_refines p d _ hs
  | rename o n s => exact rename_refines o n s kids hw
  | setdefault p tup v => exact setdefault_refines p tup v kids hs.2
  | clear => simp [step, dstep, clear_refines]
  | empty => simp [step, dstep, emptyT]
  | update items =>
    have h := update_refines items kids
    simp only [step, dstep, updateT] at h ⊢
    cases h1 : updateF (updFuel items) items (.node kids) with
    | mk t1 o1 =>
      cases h2 : specUpdate items (.node kids) with
      | mk t2 o2 =>
        rw [h1, h2] at h
        obtain ⟨hs1, ho⟩ := h
        simp only at hs1 ho; subst hs1
        cases o1 <;> cases o2 <;> simp [okU, Out.erase] at ho ⊢
  | select keys strict inplace => exact selectT_refines keys strict inplace kids
  | exclude keys inplace =>
    simp only [step, dstep, excludeT_refines keys inplace kids hw hs]
    cases inplace <;> simp
  | flatten sep inplace =>
    cases inplace with
    | false =>
      simp only [step, dstep, Bool.false_eq_true, if_false, flattenOut_eq]
      by_cases hn : (flatNames sep (.node kids)).Nodup <;> simp [hn, Out.erase]
    | true =>
      simp only [step, dstep, if_true, flattenIn_eq sep kids hw]
      by_cases hn : (flatNames sep (.node kids)).Nodup <;> simp [hn, Out.erase]
  | unflatten sep inplace => exact unflatten_refines sep inplace kids hw
  | split sets inplace strict => exact splitT_refines sets inplace strict _ hw hs

/-- the replay keeps the state a well-formed node (so the refinement can be chained) -/
theorem dstep_good (kids : Kids) (hw : WF (.node kids)) (op : Op) (hs : InScope (.node kids) op) :
    ∃ kids', (dstep (.node kids) op).1 = .node kids' ∧ WF (.node kids') := by
  cases op with
  | set p v =>
    simp only [dstep, specSet]
    cases hi : insert p v (.node kids) with
    | none => exact ⟨kids, rfl, hw⟩
    | some t' =>
      have hw' := wf_insert p v _ t' hw hs hi
      match p, hi with
      | [k], hi => simp [C04.insert] at hi; subst hi; exact ⟨_, rfl, hw'⟩
      | k :: k2 :: r, hi =>
        simp only [C04.insert] at hi
        split at hi <;> simp at hi
        all_goals (obtain ⟨a, _, rfl⟩ := hi; exact ⟨_, rfl, hw'⟩)
  | del p =>
    simp only [dstep, specDel]
    cases hi : remove p (.node kids) with
    | none => exact ⟨kids, rfl, hw⟩
    | some t' =>
      obtain ⟨_, k', _, rfl⟩ := remove_shape hi
      exact ⟨k', rfl, wf_remove p _ _ hw hi⟩
  | pop p d =>
    simp only [dstep, specPop]
    split
    · exact ⟨kids, rfl, hw⟩
    · split
      · split
        · rename_i t' hr
          obtain ⟨_, k', _, rfl⟩ := remove_shape hr
          exact ⟨k', rfl, wf_remove p _ _ hw hr⟩
        · exact ⟨kids, rfl, hw⟩
      · split
        · exact ⟨kids, rfl, hw⟩
        · split <;> exact ⟨kids, rfl, hw⟩
  | rename o n s =>
    simp only [dstep, specRename]
    split
    · exact ⟨kids, rfl, hw⟩
    · split
      · exact ⟨kids, rfl, hw⟩
      · rename_i v hl
        split
        · exact ⟨kids, rfl, hw⟩
        · split
          · exact ⟨kids, rfl, hw⟩
          · split
            · exact ⟨kids, rfl, hw⟩
            · rename_i t1 hr
              obtain ⟨_, k1, _, rfl⟩ := remove_shape hr
              have hw1 := wf_remove o _ _ hw hr
              have hwv := wf_lookup o _ v hw hl
              split
              · exact ⟨kids, rfl, hw⟩
              · rename_i t2 hi
                have hw2 := wf_insert n v _ t2 hw1 hwv hi
                match n, hi with
                | [k], hi => simp [C04.insert] at hi; subst hi; exact ⟨_, rfl, hw2⟩
                | k :: k2 :: r, hi =>
                  simp only [C04.insert] at hi
                  split at hi <;> simp at hi
                  all_goals (obtain ⟨a, _, rfl⟩ := hi; exact ⟨_, rfl, hw2⟩)
  | setdefault p tup v =>
    simp only [dstep, specSetDefault]
    split
    · exact ⟨kids, rfl, hw⟩
    · split
      · exact ⟨kids, rfl, hw⟩
      · split
        · exact ⟨kids, rfl, hw⟩
        · rename_i t' hi
          have hw' := wf_insert p v _ t' hw hs.1 hi
          match p, hi with
          | [k], hi => simp [C04.insert] at hi; subst hi; exact ⟨_, rfl, hw'⟩
          | k :: k2 :: r, hi =>
            simp only [C04.insert] at hi
            split at hi <;> simp at hi
            all_goals (obtain ⟨a, _, rfl⟩ := hi; exact ⟨_, rfl, hw'⟩)
  | clear => exact ⟨[], rfl, WF.empty⟩
  | empty => exact ⟨kids, rfl, hw⟩
  | update items =>
    obtain ⟨kids', hk', hw'⟩ := specUpdate_good items kids hw hs
    simp only [dstep]
    cases h2 : specUpdate items (.node kids) with
    | mk t2 o2 =>
      rw [h2] at hk'; simp only at hk'; subst hk'
      cases o2 <;> exact ⟨kids', rfl, hw'⟩
  | select keys strict inplace => exact specSelect_good keys strict inplace kids hw
  | exclude keys inplace =>
    simp only [dstep]
    cases inplace
    · exact ⟨kids, rfl, hw⟩
    · simp only [if_true]
      rw [specExclude_eq_sx keys kids hw hs]
      exact ⟨_, rfl, wf_sx _ _ hw⟩
  | flatten sep inplace =>
    simp only [dstep]
    by_cases hn : (flatNames sep (.node kids)).Nodup
    · simp only [hn, if_true]
      cases inplace with
      | false => exact ⟨kids, rfl, hw⟩
      | true => exact ⟨_, rfl, wf_flatKids sep kids hw hn⟩
    · simp only [hn, if_false]; exact ⟨kids, rfl, hw⟩
  | unflatten sep inplace =>
    obtain ⟨kids', hk', hw'⟩ := specUnflattenLoop_good sep (rootKeys (.node kids)) kids hw
    simp only [dstep, specUnflatten]
    by_cases hg : sep = "" ∧ rootKeys (.node kids) ≠ []
    · rw [if_pos hg]; exact ⟨kids, rfl, hw⟩
    rw [if_neg hg]
    cases h : specUnflattenLoop sep (rootKeys (.node kids)) (.node kids) with
    | mk t' o =>
      rw [h] at hk'; simp only at hk'; subst hk'
      cases inplace <;> cases o <;> simp
      all_goals (first | exact ⟨kids', rfl, hw'⟩ | exact ⟨kids, rfl, hw⟩ | exact hw' | exact hw)
  | split sets inplace strict => exact specSplit_good sets inplace strict kids hw hs

/-- Histories of any length: the transcribed code and the plain nested dict stay in the same state.
THE PROPERTY, histories — full statement, all thirteen operations. -/
theorem run_refines : ∀ (ops : List Op) (kids : Kids), WF (.node kids) → ScopeAll (.node kids) ops →
    run (.node kids) ops = drun (.node kids) ops
  | [], _, _, _ => rfl
  | op :: ops, kids, hw, hs => by
    have h1 := (refines kids hw op hs.1).1
    obtain ⟨kids', hk, hw'⟩ := dstep_good kids hw op hs.1
    simp only [run, drun, h1, hk]
    have hs2 := hs.2
    rw [hk] at hs2
    exact run_refines ops kids' hw' hs2

/-! ## §4c lazy stacks with homogeneous keys -/

/-- the lazy `pop` answers the default for a key that runs through a tensor below an existing nested tensordict (the
generic one raises): with a default such keys are outside the refinement -/
def MemberScope (t : Entry) : Op → Prop
  | .pop p d => d = false ∨ throughLeaf p t = false
  | _ => True

theorem popLazy_refines (p : Path) (d : Bool) (kids : Kids) (hnt : throughNt p (.node kids) = false ∨ d = false)
    (hl : d = false ∨ throughLeaf p (.node kids) = false) :
    (popLazy p d (.node kids)).1 = (specPop p d (.node kids)).1 ∧
    (popLazy p d (.node kids)).2.erase = (specPop p d (.node kids)).2.erase := by
  have hpop := pop_refines p d (.node kids) hnt
  have habs : ∀ (hlk : lookup p (.node kids) = none) (hp : p ≠ []),
      ((if d = true then ((Entry.node kids, Out.val none) : Entry × Out) else (.node kids, .err .key)).1 = (specPop p d (.node kids)).1) ∧
      ((if d = true then ((Entry.node kids, Out.val none) : Entry × Out) else (.node kids, .err .key)).2.erase = (specPop p d (.node kids)).2.erase) := by
    intro hlk hp
    simp only [specPop, hp, if_false, hlk]
    rcases hl with hd | htl
    · subst hd; simp only [Bool.false_eq_true, if_false]
      split <;> simp [Out.erase]
    · rw [htl]; simp only [Bool.false_eq_true, if_false]
      cases d <;> simp [Out.erase]
  match p with
  | [] => simp [popLazy, specPop, Out.erase]
  | [k] =>
    simp only [popLazy]
    cases hd : dget k kids with
    | some v => simpa [hd] using hpop
    | none =>
      simp only [hd, Option.isSome_none, Bool.false_eq_true, if_false]
      exact habs (by rw [lookup_cons_node, hd]; rfl) (by simp)
  | k :: k2 :: r =>
    simp only [popLazy]
    cases hd : dget k kids with
    | none =>
      simp only []
      exact habs (by rw [lookup_cons_node, hd]; rfl) (by simp)
    | some c =>
      cases c with
      | leaf nt x =>
        simp only []
        have hlk : lookup (k :: k2 :: r) (.node kids) = none := by rw [lookup_cons_node, hd]; simp [lookup]
        have htl : throughLeaf (k :: k2 :: r) (.node kids) = true := by simp [throughLeaf, hd]
        simp [specPop, hlk, htl, Out.erase]
      | node sub =>
        simp only []
        rw [contains_refines (k2 :: r) sub (by simp)]
        have hlook : lookup (k :: k2 :: r) (.node kids) = lookup (k2 :: r) (.node sub) := by
          rw [lookup_cons_node, hd]; rfl
        cases hh : has (k2 :: r) (.node sub) with
        | true => simpa using hpop
        | false =>
          simp only []
          refine habs ?_ (by simp)
          rw [hlook]
          simp only [has, ne_eq, reduceCtorEq, not_false_eq_true, decide_true, Bool.true_and] at hh
          cases hx : lookup (k2 :: r) (.node sub) with
          | none => rfl
          | some y => rw [hx] at hh; simp at hh

/-- a member of a lazy stack refines the same replay (with `unflatten_keys` visiting the root keys in sorted order) -/
theorem member_refines (kids : Kids) (hw : WF (.node kids)) (op : Op) (hs : InScope (.node kids) op)
    (hm : MemberScope (.node kids) op) :
    (stepMember (.node kids) op).1 = (dstepMember (.node kids) op).1 ∧
    (stepMember (.node kids) op).2.erase = (dstepMember (.node kids) op).2.erase := by
  cases op with
  | unflatten sep inplace =>
    have h := unflattenLoop_refines sep (sortBy id (rootKeys (.node kids))) kids hw
    simp only [stepMember, dstepMember, unflattenTL, specUnflattenL]
    by_cases hg : sep = "" ∧ rootKeys (.node kids) ≠ []
    · rw [if_pos hg, if_pos hg]; exact ⟨rfl, rfl⟩
    · rw [if_neg hg, if_neg hg]
      cases h1 : unflattenLoop sep (sortBy id (rootKeys (.node kids))) (.node kids) with
      | mk t1 o1 =>
        cases h2 : specUnflattenLoop sep (sortBy id (rootKeys (.node kids))) (.node kids) with
        | mk t2 o2 =>
          rw [h1, h2] at h
          obtain ⟨hs1, ho⟩ := h
          simp only at hs1 ho; subst hs1
          cases inplace <;> cases o1 <;> cases o2 <;> simp [Out.erase] at ho ⊢
  | set p v => exact refines kids hw (.set p v) hs
  | del p => exact refines kids hw (.del p) hs
  | pop p d => exact popLazy_refines p d kids hs hm
  | rename o n sf => exact refines kids hw (.rename o n sf) hs
  | setdefault p tup v => exact refines kids hw (.setdefault p tup v) hs
  | update items => exact refines kids hw (.update items) hs
  | select keys strict inplace => exact refines kids hw (.select keys strict inplace) hs
  | exclude keys inplace => exact refines kids hw (.exclude keys inplace) hs
  | flatten sep inplace => exact refines kids hw (.flatten sep inplace) hs
  | split sets inplace strict => exact refines kids hw (.split sets inplace strict) hs
  | clear => exact refines kids hw .clear hs
  | empty => exact refines kids hw .empty hs

/-- LazyStackedTensorDict with homogeneous keys: when all members hold the same nested dict, every mapping operation of
the stack leaves them all holding the same nested dict again — the one the plain-dict replay produces — and answers as the
replay does; so the stack, seen through any of its members, is the same nested string-keyed mapping as a TensorDict. -/
theorem lazy_stack_refines (kids : Kids) (hw : WF (.node kids)) (op : Op) (hs : InScope (.node kids) op)
    (hmem : MemberScope (.node kids) op) (ms : List Entry) (hne : ms ≠ []) (hhom : ∀ m ∈ ms, m = .node kids) :
    (∀ m' ∈ (lazyStep ms op).1, m' = (dstepMember (.node kids) op).1) ∧
    (lazyStep ms op).2.erase = (dstepMember (.node kids) op).2.erase := by
  have href := member_refines kids hw op hs hmem
  constructor
  · intro m' hm'
    simp only [lazyStep, List.mem_map] at hm'
    obtain ⟨m, hm, rfl⟩ := hm'
    rw [hhom m hm]; exact href.1
  · cases ms with
    | nil => exact absurd rfl hne
    | cons m r =>
      simp only [lazyStep]
      rw [hhom m (by simp)]; exact href.2

/-- a tensordict held under a field name (a tensorclass keeps its fields in a tensordict `_tensordict`; the harness reaches
the held tensordict with keys prefixed by the field): reading, writing and deleting below the field are reading, writing
and deleting in the held dict — for every key, every value and every held dict. (The composite operations issued through
the tensorclass are compared with the model of the held tensordict by the check, stream `tensorclass.state`.) -/
theorem held_dict_laws (f : String) (sub : Kids) (p : Path) (hp : p ≠ []) (v : Entry) :
    lookup (f :: p) (.node [(f, .node sub)]) = lookup p (.node sub) ∧
    insert (f :: p) v (.node [(f, .node sub)]) = (insert p v (.node sub)).map (fun c => .node [(f, c)]) ∧
    remove (f :: p) (.node [(f, .node sub)]) = (remove p (.node sub)).map (fun c => .node [(f, c)]) := by
  cases p with
  | nil => exact absurd rfl hp
  | cons k r =>
    refine ⟨by simp [lookup_cons_node, dget], ?_, ?_⟩
    · simp only [C04.insert, dget, if_true]
      cases insert (k :: r) v (.node sub) <;> simp [dset]
    · simp only [remove, dget, if_true]
      cases remove (k :: r) (.node sub) <;> simp [dset]

example : ScopeAll (.node []) [.set ["a", "b"] (.leaf false 1), .rename ["a", "b"] ["a", "b", "c"] false, .pop ["a"] true, .clear] := by
  simp [ScopeAll, InScope, dstep, specSet, specRename, C04.insert, dget, dset, lookup, has, remove, ddel, throughNt]
  exact WF.leaf _ _

/-- `select(*keys)` (repaired: union semantics) — whenever the call succeeds, out of place or in place, strict or not:
the leaves of the result are EXACTLY the leaves of the receiver that sit at or below one of the keys, with their values
(keys that are prefixes of one another, repeated keys, keys through missing entries included). -/
theorem select_leaves_exact (keys : List Path) (strict inplace : Bool) (kids : Kids) (hk : ∀ p ∈ keys, p ≠ [])
    (r : Entry) (h : (selectF (maxLen keys + 1) keys strict inplace (.node kids)).2 = .ok r) :
    ∃ rk, r = .node rk ∧ SelectsLeaves keys kids rk := by
  have hio := (selectF_inplace (maxLen keys + 1) keys strict (.node kids)).1
  have h' : (selectF (maxLen keys + 1) keys strict false (.node kids)).2 = .ok r := by
    cases inplace with
    | false => exact h
    | true => rw [← hio]; exact h
  exact select_leaves (maxLen keys) keys strict kids r (fun p hp => ⟨hk p hp, le_maxLen hp⟩) h'

/-- in place and out of place compute the same selection; a successful `select(inplace=True)` leaves the receiver equal to
that selection, `select(inplace=False)` never touches the receiver (and a *raising* in-place call changes nothing: `select_inplace_atomic`). -/
theorem select_inplace_agrees (keys : List Path) (strict : Bool) (t : Entry) (n : Nat) :
    (selectF n keys strict true t).2 = (selectF n keys strict false t).2 ∧
    (∀ r, (selectF n keys strict true t).2 = .ok r → (selectF n keys strict true t).1 = r) ∧
    (selectF n keys strict false t).1 = t :=
  selectF_inplace n keys strict t

example : (selectF 3 [["a"], ["a", "b"]] true false (.node [("a", .node [("b", .leaf false 1), ("c", .leaf false 2)]), ("d", .leaf false 3)])).2
    = .ok (.node [("a", .node [("b", .leaf false 1), ("c", .leaf false 2)])]) := by
  simp [selectF, selectScan, selectGroups, groupAdd, dget, dset]

/-- a strict `select(*keys)` — out of place or in place — raises EXACTLY when one of the keys is empty or not bound in the
receiver (a key running through a tensor is not bound), for every state and every list of keys: the scan of the first
components, the grouping of the nested sub-keys and the recursion into the nested tensordicts (also for keys that are only
checked because an ancestor was selected as a whole) miss nothing and refuse nothing else. -/
theorem select_strict_raises_iff (keys : List Path) (inplace : Bool) (kids : Kids) :
    (∃ e, (selectT keys true inplace (.node kids)).2 = .err e) ↔
      ∃ p ∈ keys, p = [] ∨ lookup p (.node kids) = none := by
  have hiff := selectF_strict_ok_iff (maxLen keys) keys kids (fun p hp => le_maxLen hp)
  have hin := (selectF_inplace (maxLen keys + 1) keys true (.node kids)).1
  have hrhs : (∃ p ∈ keys, p = [] ∨ lookup p (.node kids) = none) ↔
      ¬ ∀ p ∈ keys, p ≠ [] ∧ (lookup p (.node kids)).isSome = true := by
    constructor
    · rintro ⟨p, hp, h⟩ hall
      obtain ⟨h1, h2⟩ := hall p hp
      rcases h with h | h
      · exact h1 h
      · rw [h] at h2; simp at h2
    · intro h
      apply Classical.byContradiction
      intro hne
      apply h
      intro p hp
      refine ⟨fun e => hne ⟨p, hp, Or.inl e⟩, ?_⟩
      cases hl : lookup p (.node kids) with
      | none => exact absurd ⟨p, hp, Or.inr hl⟩ hne
      | some v => rfl
  rw [hrhs, ← hiff]
  cases hout : (selectF (maxLen keys + 1) keys true false (.node kids)) with
  | mk t0 o0 =>
    rw [hout] at hin
    simp only at hin
    cases inplace with
    | false =>
      simp only [selectT, Bool.false_eq_true, if_false, hout]
      cases o0 <;> simp
    | true =>
      simp only [selectT, if_true, hout]
      cases o0 with
      | error e => simp
      | ok r =>
        simp only []
        cases hi : selectF (maxLen keys + 1) keys true true (.node kids) with
        | mk t1 o1 =>
          rw [hi] at hin
          simp only at hin
          subst hin
          simp

/-- `select(*keys, inplace=True)` (repaired; the former known finding C04-select-inplace-not-atomic) is atomic: a call that
raises — a missing key with `strict=True`, a key running through a tensor — leaves the receiver exactly as it was, for every
state and every list of keys (the nested tensordicts used to be pruned one after the other before a later key was refused). -/
theorem select_inplace_atomic (keys : List Path) (strict : Bool) (t : Entry) (e : Err)
    (h : (selectT keys strict true t).2 = .err e) : (selectT keys strict true t).1 = t := by
  simp only [selectT, if_true] at h ⊢
  cases hd : (selectF (maxLen keys + 1) keys strict false t).2 with
  | error e' => simp
  | ok r =>
    have hag := (selectF_inplace (maxLen keys + 1) keys strict t).1
    rw [hd] at hag h
    simp only at h ⊢
    cases hin : selectF (maxLen keys + 1) keys strict true t with
    | mk t' o =>
      rw [hin] at hag h
      simp only at hag
      subst hag
      simp at h

/-- the former counter-example: the refused call no longer prunes `("a","y")` -/
example :
    let t := Entry.node [("a", .node [("x", .leaf false 1), ("y", .leaf false 2)]), ("b", .node [("z", .leaf false 3)])]
    selectT [["a", "x"], ["b", "missing"]] true true t = (t, .err .key) := by
  simp [selectT, maxLen, selectF, selectGroups, selectScan, groupAdd, dget, dset]

/-! ## §4b flatten_keys -/

/-- `flatten_keys(sep)` (out of place): separator clashes raise, they never merge two entries: the call fails
exactly when two leaves get the same flat name (e.g. `{"a": {"b": x}, "a.b": y}`). -/
theorem flatten_collision_detected (sep : String) (t : Entry) :
    (∃ e, flattenOut sep t = .error e) ↔ ¬ (flatNames sep t).Nodup := by
  rw [flattenOut_eq]
  by_cases h : (flatNames sep t).Nodup <;> simp [h]

/-- `flatten_keys(sep, inplace=True)` (repaired): popping every leaf, excluding what is left and writing the flat names
yields exactly what the out-of-place variant returns — root-level leaves included, whatever the insertion order of the
entries — or refuses on a name clash without touching anything. -/
theorem flatten_inplace_eq_outplace (sep : String) (kids : Kids) (hw : WF (.node kids)) :
    flattenIn sep (.node kids) =
      if (flatNames sep (.node kids)).Nodup then (.node (flatKids sep (.node kids)), .ok) else (.node kids, .err .key) :=
  flattenIn_eq sep kids hw

/-- …and when it succeeds the flat dict holds exactly the leaves of the nested dict (tensors and non-tensors;
empty nested tensordicts disappear), each under its joined name, with its value. -/
theorem flatten_content (sep : String) (kids : Kids) (hw : WF (.node kids)) (r : Entry)
    (h : flattenOut sep (.node kids) = .ok r) :
    ∃ fk, r = .node fk ∧ (fk.map (·.1)).Nodup ∧
      ∀ k e, lookup [k] r = some e ↔ ∃ p, k = joinWith sep p ∧ bound p e kids ∧ e.isLeafFor true = true := by
  rw [flattenOut_eq] at h
  by_cases hn : (flatNames sep (.node kids)).Nodup
  · rw [if_pos hn] at h
    simp at h; subst h
    have hkeys : ((flatKids sep (.node kids)).map (·.1)).Nodup := by rw [flatKids_keys]; exact hn
    refine ⟨_, rfl, hkeys, fun k e => ?_⟩
    rw [lookup_cons_node]
    have : (dget k (flatKids sep (.node kids))).bind (lookup []) = dget k (flatKids sep (.node kids)) := by
      cases dget k (flatKids sep (.node kids)) <;> simp [lookup]
    rw [this, ← mem_kids_iff_dget hkeys]
    simp only [flatKids, List.mem_map]
    constructor
    · rintro ⟨⟨p, e'⟩, hm, heq⟩
      simp at heq; obtain ⟨rfl, rfl⟩ := heq
      exact ⟨p, rfl, (mem_leavesOf kids hw p e').mp hm⟩
    · rintro ⟨p, rfl, hb⟩
      exact ⟨(p, e), (mem_leavesOf kids hw p e).mpr hb, rfl⟩
  · rw [if_neg hn] at h; simp at h

example : flattenOut "." (.node [("a", .node [("b", .leaf false 1)]), ("a.b", .leaf false 2)]) = .error .key := by
  simp [flattenOut, leavesOf, iterItems, iterItems.go, joinWith, dedup, Entry.isLeafFor]

/-- `td.flatten_keys(sep).unflatten_keys(sep)` gives the nested dict back: when no key on the way to a leaf contains the
separator, flattening succeeds, no rename of the unflatten loop is refused (`rename_key_(name, name.split(sep),
safe=True)` for every flat name, in order), the result has unique keys, it binds **exactly the leaves of the original,
each under its original path with its value**, and nothing else but the nested tensordicts leading to them (empty nested
tensordicts of the original are dropped; the order of the root entries may change — flat names without separator keep
their place, the others are re-inserted behind them). -/
theorem flatten_unflatten_roundtrip (sep : Char) (kids : Kids) (hw : WF (.node kids))
    (hs : ∀ p e, bound p e kids → e.isLeafFor true = true → ∀ c ∈ p, sep ∉ c.toList) :
    ∃ fk bk, flattenOut (String.singleton sep) (.node kids) = .ok (.node fk) ∧
      unflattenT (String.singleton sep) true (.node fk) = (.node bk, .ok) ∧ WF (.node bk) ∧
      (∀ p e, e.isLeafFor true = true → (bound p e bk ↔ bound p e kids)) ∧
      (∀ q e, bound q e bk → ∃ p l, isPrefix q p = true ∧ bound p l kids ∧ l.isLeafFor true = true) := by
  have hg := glob_leavesOf sep kids hw hs
  have hi := inv_init sep _ hg
  have hfk : (leavesOf (.node kids)).map (fun pv => (joinWith (String.singleton sep) pv.1, pv.2))
      = flatKids (String.singleton sep) (.node kids) := rfl
  rw [hfk] at hi
  have hwf := hi.wf
  have hn : (flatNames (String.singleton sep) (.node kids)).Nodup := by
    rw [← flatKids_keys]; exact hwf.kids_nodup
  obtain ⟨S', hloop, hfin⟩ := unflatten_loop_inv sep (leavesOf (.node kids)) [] _ (by simpa using hg) hi
  simp only [List.nil_append] at hfin
  obtain ⟨bk, rfl⟩ := hfin.nd
  have hrk : rootKeys (.node (flatKids (String.singleton sep) (.node kids)))
      = (leavesOf (.node kids)).map fun pv => joinWith (String.singleton sep) pv.1 := by
    simp [rootKeys, flatKids]
  have hspec : specUnflatten (String.singleton sep) true (.node (flatKids (String.singleton sep) (.node kids))) = (.node bk, .ok) := by
    have hne : ¬ (String.singleton sep = "" ∧ rootKeys (.node (flatKids (String.singleton sep) (.node kids))) ≠ []) := by
      intro h; have := congrArg String.length h.1; simp at this
    simp only [specUnflatten]
    rw [if_neg hne, hrk, hloop]; rfl
  have href := unflatten_refines (String.singleton sep) true _ hwf
  rw [hspec] at href
  have hcode : unflattenT (String.singleton sep) true (.node (flatKids (String.singleton sep) (.node kids))) = (.node bk, .ok) := by
    obtain ⟨h1, h2⟩ := href
    cases hc : unflattenT (String.singleton sep) true (.node (flatKids (String.singleton sep) (.node kids))) with
    | mk t o =>
      rw [hc] at h1 h2
      simp only at h1 h2
      subst h1
      cases o <;> simp [Out.erase] at h2 ⊢
  refine ⟨_, bk, by rw [flattenOut_eq, if_pos hn], hcode, hfin.wf, ?_, ?_⟩
  · intro p e hl
    constructor
    · intro hb
      rcases hfin.all p e hb.1 hb.2 with ⟨pv, hm, hpre⟩ | ⟨pv, hm, _⟩
      · obtain ⟨ext, hext⟩ := (isPrefix_iff_append _ _).mp hpre
        have hd := hfin.done pv hm
        obtain ⟨nt, x, he⟩ : ∃ nt x, e = .leaf nt x := by
          cases e with
          | leaf nt x => exact ⟨nt, x, rfl⟩
          | node sub => simp [Entry.isLeafFor] at hl
        cases ext with
        | nil =>
          simp at hext
          have : some pv.2 = some e := by rw [← hd, hext, hb.2]
          simp at this
          have hmem : (p, e) ∈ leavesOf (.node kids) := by rw [← hext, ← this]; exact hm
          exact ((mem_leavesOf kids hw p e).mp hmem).1
        | cons e1 e2 =>
          have := lookup_below_leaf p (e1 :: e2) (.node bk) nt x (by simp) (by rw [hb.2, he])
          rw [← hext, hd] at this; simp at this
      · simp at hm
    · intro hb
      have hmem := (mem_leavesOf kids hw p e).mpr ⟨hb, hl⟩
      exact ⟨hb.1, hfin.done (p, e) hmem⟩
  · intro q e hb
    rcases hfin.all q e hb.1 hb.2 with ⟨pv, hm, hpre⟩ | ⟨pv, hm, _⟩
    · have := (mem_leavesOf kids hw pv.1 pv.2).mp hm
      exact ⟨pv.1, pv.2, hpre, this.1, this.2⟩
    · simp at hm

/-! ## §5 views -/

/-- `keys(include_nested=True, leaves_only, is_leaf, sort)`: the view lists exactly the bound paths of the
dict (filtered by leaf-ness when `leaves_only`), whatever `sort` is. -/
theorem views_agree_keys_nested (lo srt nt : Bool) (kids : Kids) (hw : WF (.node kids)) (q : Path) :
    q ∈ keysView ⟨true, lo, srt, nt⟩ (.node kids) ↔ ∃ e, bound q e kids ∧ (!lo || e.isLeafFor nt) = true := by
  have h := mem_iterHelper_go lo nt kids [] q hw
  simp only [List.nil_append] at h
  have h' : q ∈ iterHelper lo nt (.node kids) [] ↔ ∃ e, bound q e kids ∧ (!lo || e.isLeafFor nt) = true := by
    simp only [iterHelper]; rw [h]
    constructor
    · rintro ⟨p, e, rfl, hb⟩; exact ⟨e, hb⟩
    · rintro ⟨e, hb⟩; exact ⟨q, e, rfl, hb⟩
  cases srt with
  | false => simpa [keysView] using h'
  | true => simp only [keysView, if_true]; rw [mem_sortBy]; exact h'

/-- `keys(include_nested=False, …)`: exactly the bound one-component paths -/
theorem views_agree_keys_flat (lo srt nt : Bool) (kids : Kids) (hw : WF (.node kids)) (q : Path) :
    q ∈ keysView ⟨false, lo, srt, nt⟩ (.node kids) ↔
      ∃ k e, q = [k] ∧ bound [k] e kids ∧ (!lo || e.isLeafFor nt) = true := by
  have hn := hw.kids_nodup
  have key : ∀ k e, (k, e) ∈ kids ↔ bound [k] e kids := by
    intro k e; rw [mem_kids_iff_dget hn]; simp [bound, lookup_cons_node, lookup]
    cases dget k kids <;> simp
  have h' : q ∈ (if lo then (kids.filter (fun kv => kv.2.isLeafFor nt)).map (fun kv => [kv.1]) else kids.map (fun kv => [kv.1]))
      ↔ ∃ k e, q = [k] ∧ bound [k] e kids ∧ (!lo || e.isLeafFor nt) = true := by
    cases lo with
    | true =>
      simp only [if_true, List.mem_map, List.mem_filter]
      constructor
      · rintro ⟨⟨k, e⟩, ⟨hm, hf⟩, rfl⟩; exact ⟨k, e, rfl, (key k e).mp hm, by simpa using hf⟩
      · rintro ⟨k, e, rfl, hb, hf⟩; exact ⟨(k, e), ⟨(key k e).mpr hb, by simpa using hf⟩, rfl⟩
    | false =>
      simp only [Bool.false_eq_true, if_false, List.mem_map]
      constructor
      · rintro ⟨⟨k, e⟩, hm, rfl⟩; exact ⟨k, e, rfl, (key k e).mp hm, by simp⟩
      · rintro ⟨k, e, rfl, hb, _⟩; exact ⟨(k, e), (key k e).mpr hb, rfl⟩
  cases srt with
  | false => simpa [keysView] using h'
  | true => simp only [keysView, if_true]; rw [mem_sortBy]; simpa using h'

/-- `items(include_nested=True, …)` pairs every listed key with the value the dict holds for it -/
theorem views_agree_items_nested (lo srt nt : Bool) (kids : Kids) (hw : WF (.node kids)) (q : Path) (e : Entry) :
    (q, e) ∈ itemsView ⟨true, lo, srt, nt⟩ (.node kids) ↔ bound q e kids ∧ (!lo || e.isLeafFor nt) = true := by
  have h := mem_iterItems_go lo nt kids [] q e hw
  simp only [List.nil_append] at h
  have h' : (q, e) ∈ iterItems lo nt (.node kids) [] ↔ bound q e kids ∧ (!lo || e.isLeafFor nt) = true := by
    simp only [iterItems]; rw [h]
    constructor
    · rintro ⟨p, rfl, hb⟩; exact hb
    · rintro hb; exact ⟨q, rfl, hb⟩
  cases srt with
  | false => simpa [itemsView] using h'
  | true => simp only [itemsView, if_true]; rw [mem_sortBy]; exact h'

/-- no key is listed twice by `keys(include_nested=True, …)` (so `len(td.keys(True, …))` counts the bound paths), sorted or not -/
theorem views_no_duplicates (lo srt nt : Bool) (kids : Kids) (hw : WF (.node kids)) :
    (keysView ⟨true, lo, srt, nt⟩ (.node kids)).Nodup := by
  have h : (iterHelper lo nt (.node kids) []).Nodup := by simp only [iterHelper]; exact iterHelper_go_nodup lo nt kids [] hw
  cases srt with
  | false => simpa [keysView] using h
  | true => simp only [keysView, if_true]; exact (sortBy_perm _ _).nodup_iff.mpr h

/-- `is_empty()` is true exactly when no tensor / non-tensor is bound anywhere below: empty nested tensordicts do not count
(the documented meaning: "contains no leaf") -/
theorem is_empty_iff (kids : Kids) (hw : WF (.node kids)) :
    isEmpty (.node kids) = true ↔ ∀ p e, bound p e kids → e.isLeafFor true = false :=
  isEmpty_iff kids hw

/-- keys and items agree: a key is listed iff an item with that key is (same flags) — although the two
views are produced by different traversals (children-first vs entry-first). -/
theorem views_keys_items_agree (lo srt nt : Bool) (kids : Kids) (hw : WF (.node kids)) (q : Path) :
    q ∈ keysView ⟨true, lo, srt, nt⟩ (.node kids) ↔ ∃ e, (q, e) ∈ itemsView ⟨true, lo, srt, nt⟩ (.node kids) := by
  rw [views_agree_keys_nested lo srt nt kids hw]
  constructor
  · rintro ⟨e, hb⟩; exact ⟨e, (views_agree_items_nested lo srt nt kids hw q e).mpr hb⟩
  · rintro ⟨e, hm⟩; exact ⟨e, (views_agree_items_nested lo srt nt kids hw q e).mp hm⟩

/-- the sorted view is a permutation of the unsorted one (nothing dropped, nothing duplicated) -/
theorem views_sort_perm (inc lo nt : Bool) (t : Entry) :
    (keysView ⟨inc, lo, true, nt⟩ t).Perm (keysView ⟨inc, lo, false, nt⟩ t) := by
  simp only [keysView, if_true, Bool.false_eq_true, if_false]; exact sortBy_perm _ _

/-- `keys(..., sort=True)` / `items(..., sort=True)` are ordered by `".".join(key)` (code-point order of the joined names),
for every flag combination — together with `views_sort_perm`: the sorted view is THE ordered rearrangement of the plain
view (up to the order of entries with equal joined names, e.g. `("a", "b")` and `"a.b"`). -/
theorem views_sorted (inc lo nt : Bool) (t : Entry) :
    (keysView ⟨inc, lo, true, nt⟩ t).Pairwise (fun a b => joinKey a ≤ joinKey b) ∧
    (itemsView ⟨inc, lo, true, nt⟩ t).Pairwise (fun a b => joinKey a.1 ≤ joinKey b.1) := by
  constructor
  · simp only [keysView, if_true]; exact sortBy_sorted _ _
  · simp only [itemsView, if_true]; exact sortBy_sorted _ _

/-- membership test and iteration agree: `key in td.keys(True)` iff the key is listed by `td.keys(True)` -/
theorem contains_iff_listed (kids : Kids) (hw : WF (.node kids)) (q : Path) (hq : q ≠ []) :
    containsNested q (.node kids) = .ok true ↔ q ∈ keysView ⟨true, false, false, false⟩ (.node kids) := by
  rw [contains_refines q kids hq, views_agree_keys_nested false false false kids hw]
  simp [has, hq, bound, Option.isSome_iff_exists]

example : keysView ⟨true, false, false, false⟩ (.node [("a", .node [("b", .leaf false 1)]), ("c", .leaf true 2)])
    = [["a", "b"], ["a"], ["c"]] := by
  simp [keysView, iterHelper, iterHelper.go, Entry.isLeafFor]

end TdVerif.Props.C04
