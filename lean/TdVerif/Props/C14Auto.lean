/-
  C14 — autoregressive heads: the log-probability of an output of `forward` is what `forward` wrote.
  Model: TdVerif/Model/C14Auto.lean (tied to the library by the numeric oracle `autoregressive_oracle` of harness/c14_prob.py:
  Normal heads, flat and nested sequences, aggregate on/off, every interaction type).
-/
import TdVerif.Model.C14Auto

namespace TdVerif.Props.C14Auto
open TdVerif.C14.Auto

theorem get?_set (e : Env) (k k' : String) (v : T) :
    get? (put e k v) k' = if k = k' then some v else get? e k' := by
  induction e with
  | nil => simp [put, get?]
  | cons kv r ih =>
    obtain ⟨k0, v0⟩ := kv
    simp only [put]
    by_cases h0 : k0 = k
    · subst h0
      simp only [if_true, get?]
      by_cases h1 : k0 = k' <;> simp [h1]
    · simp only [h0, if_false, get?, ih]
      by_cases h1 : k0 = k'
      · subst h1; simp [Ne.symm h0]
      · simp [h1]

theorem look_set (e : Env) (k k' : String) (v : T) :
    look (put e k v) k' = if k = k' then v else look e k' := by
  unfold look; rw [get?_set]; split <;> rfl

/-- the keys written at or after a stage are pairwise distinct and are not read by that stage: a stage reads inputs and
earlier samples only -/
def WF : List Stage → Prop
  | [] => True
  | s :: r =>
    s.name ≠ s.lpKey ∧
    (∀ t ∈ r, t.name ≠ s.name ∧ t.lpKey ≠ s.name ∧ t.name ≠ s.lpKey ∧ t.lpKey ≠ s.lpKey) ∧
    (∀ k ∈ s.reads, k ≠ s.name ∧ k ≠ s.lpKey ∧ ∀ t ∈ r, k ≠ t.name ∧ k ≠ t.lpKey) ∧
    WF r

/-- `forward` leaves every key it does not write -/
theorem forward_frame : ∀ (r : List Stage) (e : Env) (n : Nat) (k : String),
    (∀ t ∈ r, k ≠ t.name ∧ k ≠ t.lpKey) → look (forward r e n) k = look e k
  | [], _, _, _, _ => rfl
  | s :: r, e, n, k, h => by
    simp only [forward]
    rw [forward_frame r _ (n + 1) k (fun t ht => h t (List.mem_cons_of_mem _ ht))]
    have hs := h s (by simp)
    rw [look_set, if_neg (Ne.symm hs.2), look_set, if_neg (Ne.symm hs.1)]

theorem params_congr (s : Stage) (e1 e2 : Env) (h : ∀ k ∈ s.reads, look e1 k = look e2 k) :
    params s e1 = params s e2 := by
  unfold params
  congr 1
  exact List.map_congr_left h

/-- **log_prob_matches_forward** — for any chain of heads in which a head reads inputs and earlier samples (`WF`), from
any input, with any numbering of the draws: scoring the output of `forward` (every head under the parameters computed
from the entries *of that output*) gives, head by head, exactly the log-probability `forward` wrote when it sampled. -/
theorem log_prob_matches_forward : ∀ (stages : List Stage) (e : Env) (n : Nat), WF stages →
    logProbCond stages (forward stages e n) = written stages (forward stages e n)
  | [], _, _, _ => rfl
  | s :: r, e, n, hwf => by
    obtain ⟨hne, hdist, hreads, hr⟩ := hwf
    have ih := log_prob_matches_forward r
      (put (put e s.name (T.draw (params s e) n)) s.lpKey (.lp (params s e) (T.draw (params s e) n))) (n + 1) hr
    simp only [logProbCond, written, List.map_cons, forward] at ih ⊢
    congr 1
    · -- the head of the chain
      have hname : look (forward r (put (put e s.name (T.draw (params s e) n)) s.lpKey
          (.lp (params s e) (T.draw (params s e) n))) (n + 1)) s.name = T.draw (params s e) n := by
        rw [forward_frame r _ _ s.name (fun t ht => ⟨Ne.symm (hdist t ht).1, Ne.symm (hdist t ht).2.1⟩)]
        rw [look_set, if_neg (Ne.symm hne), look_set, if_pos rfl]
      have hlp : look (forward r (put (put e s.name (T.draw (params s e) n)) s.lpKey
          (.lp (params s e) (T.draw (params s e) n))) (n + 1)) s.lpKey = .lp (params s e) (T.draw (params s e) n) := by
        rw [forward_frame r _ _ s.lpKey (fun t ht => ⟨Ne.symm (hdist t ht).2.2.1, Ne.symm (hdist t ht).2.2.2⟩)]
        rw [look_set, if_pos rfl]
      have hpar : params s (forward r (put (put e s.name (T.draw (params s e) n)) s.lpKey
          (.lp (params s e) (T.draw (params s e) n))) (n + 1)) = params s e := by
        apply params_congr
        intro k hk
        obtain ⟨h1, h2, h3⟩ := hreads k hk
        rw [forward_frame r _ _ k h3, look_set, if_neg (Ne.symm h2), look_set, if_neg (Ne.symm h1)]
      rw [hname, hlp, hpar]

/-! ### the pinned `log_prob` re-samples the earlier heads -/

def twoHeads : List Stage :=
  [{ name := "a", lpKey := "a_lp", f := 0, reads := ["x"] }, { name := "b", lpKey := "b_lp", f := 1, reads := ["a"] }]

example : WF twoHeads := by
  simp [WF, twoHeads]

/-- **fresh_draw_counterexample** — two heads, the second reads the sample of the first: whatever number `m` the
re-drawn sample gets (any draw other than the one `forward` made), the pinned `log_prob` scores `b` under parameters
computed from the re-drawn `a` — not what `forward` wrote, and not log p(b | a) for the `a` of the tensordict. -/
theorem fresh_draw_counterexample (m : Nat) (hm : m ≠ 0) :
    logProbFresh twoHeads (forward twoHeads [("x", .inp "x")] 0) (forward twoHeads [("x", .inp "x")] 0) m
      ≠ written twoHeads (forward twoHeads [("x", .inp "x")] 0) := by
  simp [logProbFresh, written, twoHeads, forward, params, look, get?, put, hm]

end TdVerif.Props.C14Auto
