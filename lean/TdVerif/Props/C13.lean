/-
  C13 — swapping parameters into a module is exact, isolated and always undone: property theorems.
  Model: TdVerif/Model/C13Module.lean (hand transcription, tied to the source by the correspondence
  check of harness/check_C13.py); helper lemmas: TdVerif/Lemmas/C13.lean.
-/
import TdVerif.Model.C13Module
import TdVerif.Lemmas.C13
import TdVerif.Model.C13Params
import TdVerif.Lemmas.C13Params
import TdVerif.Model.C13Inplace
import TdVerif.Lemmas.C13Inplace
import TdVerif.Lemmas.C13Lazy
import TdVerif.Lemmas.C13Install
import TdVerif.Lemmas.C13Order

namespace TdVerif.Props.C13
open TdVerif.C13

/-! ## `_set_tensor_dict` -/

/-- One attribute: whatever the module's three dicts look like (any order, any other entries), if
torch's registration invariants hold for the name, putting back the tensor that `_set_tensor_dict`
returned restores the binding of that name in the dict it came from, returns the tensor that had been
put in, and no other name is affected. -/
theorem set_tensor_involutive (md md' : Mod) (n : Name) (t out : Tn) (hwf : CellWF (md.cell n))
    (h : setTensor md n t = .ok (md', out)) :
    ∃ md'', setTensor md' n out = .ok (md'', t) ∧ md''.cell n = md.cell n ∧
      (∀ n', n' ≠ n → md''.cell n' = md.cell n') ∧ md''.kids = md.kids := by
  obtain ⟨h1, h2, h3⟩ := setTensor_ok h
  obtain ⟨hwf', hb⟩ := cellSwap_involutive hwf h1
  obtain ⟨md'', hs, hc⟩ := setTensor_of_cell (md := md') hwf' hb
  obtain ⟨_, h2', h3'⟩ := setTensor_ok hs
  exact ⟨md'', hs, hc, fun n' hn => by rw [h2' n' hn, h2 n' hn], by rw [h3', h3]⟩

/-- **custom_setattr_branch_agrees** — the branch of `_to_module` taken for a module whose class overrides
`__setattr__` (torch's `swap_tensor` / `setattr`, repaired) and the native branch (`_set_tensor_dict`) return the
same object and leave the same bindings for the name (they differ only in the position of the entries inside the
dicts). All theorems below are about `setTensor`, which picks the branch by the module's class, so they hold for
graphs mixing both kinds of modules. -/
theorem custom_setattr_branch_agrees (md a b : Mod) (n : Name) (t o1 o2 : Tn)
    (h1 : setTensorCustom md n t = .ok (a, o1)) (h2 : setTensorNative md n t = .ok (b, o2)) :
    o1 = o2 ∧ a.cell n = b.cell n ∧ ∀ n', n' ≠ n → a.cell n' = b.cell n' := by
  obtain ⟨c1, f1, _⟩ := setTensorCustom_ok h1
  obtain ⟨c2, f2, _⟩ := setTensorNative_ok h2
  rw [c1] at c2
  injection c2 with c2; injection c2 with e1 e2
  exact ⟨e2, e1, fun n' hn => by rw [f1 n' hn, f2 n' hn]⟩

/-! ## `to_module` -/

/-- **swap_involutive** — all module graphs (shared submodules, tied tensors, any nesting), all
parameter tensordicts: if `params.to_module(module)` succeeds and returns `s`, then `s.to_module(module)`
succeeds and every module again binds the very same objects under the same names in the same dicts. -/
theorem swap_involutive (h h' : Heap) (m : MId) (p s : List (Name × PTree)) (hwf : HeapWF h)
    (hnd : LeafNodup p) (hs : swap h m p = .ok (h', s)) :
    ∃ h'' p', swap h' m s = .ok (h'', p') ∧ HeapEq h'' h :=
  swap_restores hwf hnd hs (HeapEq.refl h')

/-- the same from any heap that binds what `h'` binds — e.g. after a body that itself ran (and left)
with-blocks on the same modules -/
theorem swap_restores_from_equivalent (h h' g : Heap) (m : MId) (p s : List (Name × PTree))
    (hwf : HeapWF h) (hnd : LeafNodup p) (hs : swap h m p = .ok (h', s)) (hg : HeapEq g h') :
    ∃ g' p', swap g m s = .ok (g', p') ∧ HeapEq g' h :=
  swap_restores hwf hnd hs hg


/-- **swap_returns_held** — the tensordict returned by `to_module` consists of exactly the objects the
module (and its submodules, along the nested keys) bound under those names before the call. -/
theorem swap_returns_held (h h' : Heap) (m : MId) (p s : List (Name × PTree)) (hnd : LeafNodup p)
    (hs : swap h m p = .ok (h', s)) : Installs h m s :=
  swap_held hs hnd

/-- **swap_installs** — all graphs, shared submodules included: after `params.to_module(module)` the
module binds, under the keys of `params`, exactly the objects that the swap back returns (`p'`, what
`__exit__` writes into `params`); with `swap_involutive`: the same run puts the originals back. For a
submodule reached through two keys `p'` carries under both the sub-tensordict of the first visit. -/
theorem swap_installs (h h' h'' : Heap) (m : MId) (p s p' : List (Name × PTree)) (hnd : LeafNodup p)
    (hs : swap h m p = .ok (h', s)) (hb : swap h' m s = .ok (h'', p')) : Installs h' m p' :=
  swap_held hb (swap_nodup hs hnd)

/-- **swap_back_returns_params** — when the parameter tensordict gives every submodule one
sub-tensordict (`ConsP`: what `from_module` produces; no submodule reached through two names with two
different sub-tensordicts), the swap back returns exactly the tensordict that was put in: `__exit__`
leaves the user's parameter tensordict as it was. -/
theorem swap_back_returns_params (h h' h'' : Heap) (m : MId) (p s p' : List (Name × PTree))
    (pm : MId → List (Name × PTree)) (hwf : HeapWF h) (hnd : LeafNodup p) (hc : ConsP pm h m p)
    (hs : swap h m p = .ok (h', s)) (hb : swap h' m s = .ok (h'', p')) : p' = p := by
  obtain ⟨memo1, hrun⟩ := swap_inv hs
  have hm0 : Memo.find [(m, none)] m = some none := by simp [find_cons]
  have fr1 := swap_frame p h _ m h' memo1 s hrun hm0
  obtain ⟨g1, gm1, outs', hrun2, hback⟩ := swap_back p h _ m h' memo1 s hrun hm0 hwf hnd h' [(m, none)] hm0
    (fun _ => rfl) (fun _ _ _ _ => rfl) (fun _ _ => rfl) (fun c => fr1.kids c)
  obtain ⟨memo2, hrun2'⟩ := swap_inv hb
  rw [hrun2] at hrun2'
  injection hrun2' with e; injection e with _ e; injection e with _ e3
  subst e3
  exact (hback.same pm hc (by
    intro c sw hcs
    rw [find_cons] at hcs
    split at hcs
    · cases hcs
    · simp [Memo.find] at hcs)).1

/-- **swap_installs_direct** — under the same condition, inside the block the module binds, under
every (nested) key of the parameter tensordict, exactly the supplied object: it computes with the
supplied values. -/
theorem swap_installs_direct (h h' : Heap) (m : MId) (p s : List (Name × PTree))
    (pm : MId → List (Name × PTree)) (hwf : HeapWF h) (hnd : LeafNodup p) (hc : ConsP pm h m p)
    (hs : swap h m p = .ok (h', s)) : Installs h' m p := by
  obtain ⟨h'', p', hb, _⟩ := swap_involutive h h' m p s hwf hnd hs
  have := swap_installs h h' h'' m p s p' hnd hs hb
  rw [swap_back_returns_params h h' h'' m p s p' pm hwf hnd hc hs hb] at this
  exact this

/-- a single leaf at the root: the supplied object is what the module binds inside the block -/
theorem swap_installs_leaf (h h' : Heap) (m : MId) (k : Name) (t : Tn) (s : List (Name × PTree))
    (hs : swap h m [(k, .leaf t)] = .ok (h', s)) : Holds (cellAt h' m k) t := by
  obtain ⟨memo1, hrun⟩ := swap_inv hs
  obtain ⟨md, out, outs', hst, hrest, _⟩ := swapEntries_leaf_inv hrun
  rw [swapEntries_nil] at hrest
  injection hrest with hrest; injection hrest with e1 _; subst e1
  rw [cellAt_upd, if_pos rfl]
  exact cellSwap_in_held (setTensor_ok hst).1

/-! ## `from_module` -/

/-- **from_module_exact** — for every module graph in which a name is registered once per module
(torch's invariant): the leaves of `TensorDict.from_module(module)`, with their nested keys, are exactly
the (qualified name, object) pairs of the non-None parameters and buffers of the module and of all its
submodules through every path — the same object wherever a tensor is tied, a shared submodule under
each of its names, nothing else. -/
theorem from_module_exact (h : Heap) (hwf : ∀ c, NamesWF (h c)) (fuel : Nat) (m : MId)
    (r : Option (List (Name × PTree))) (hr : fromModule h fuel m = .ok r) :
    namedTensors h fuel m = .ok (flatten (r.getD [])) :=
  fromModule_spec h hwf fuel m r hr

/-! ## use_state_dict=True -/

/-- **from_module_state_dict_exact** — `from_module(module, use_state_dict=True)`: the leaves, with their nested
keys, are exactly the non-None parameters and the non-None *persistent* buffers of the module and its submodules
through every path (`namedTensors` of the state-dict view), each as a detached tensor over the same storage. -/
theorem from_module_state_dict_exact (h : Heap) (hwf : ∀ c, NamesWF (h c)) (fuel : Nat) (m : MId)
    (r : Option (List (Name × PTree))) (hr : fromModuleSD h fuel m = .ok r) :
    namedTensors (fun c => sdView (h c)) fuel m = .ok (flatten (r.getD [])) ∧
    (∀ c n t, Dict.get? (sdView (h c)).buffers n = some t → n ∉ (h c).nonPersistent) := by
  refine ⟨fromModule_spec _ (fun c => namesWF_sdView (h c) (hwf c)) fuel m r hr, ?_⟩
  intro c n t hget hnp
  -- a non-persistent name has been filtered out of the view
  have : ∀ (l : Dict (Option Tn)), Dict.get? ((l.filter (fun e => !((h c).nonPersistent.contains e.1))).map
      (fun e => (e.1, e.2.map (fun t => ({ t with isParam := false } : Tn))))) n = none := by
    intro l
    induction l with
    | nil => rfl
    | cons e l ih =>
      simp only [List.filter_cons]
      split
      · rename_i hk
        simp only [List.map_cons, Dict.get?]
        have : e.1 ≠ n := by
          intro e'; subst e'
          simp only [Bool.not_eq_true', List.contains_eq_mem, decide_eq_false_iff_not] at hk
          exact hk hnp
        simp only [this, if_false]; exact ih
      · exact ih
  simp only [sdView] at hget
  rw [this] at hget; cases hget

/-- **swap_state_dict_involutive** — `params.to_module(module, use_state_dict=True)` (repaired `convert_type`, no
state-dict hooks) followed by the same call on the returned swap restores every binding: the with-block guarantee
for the state-dict API, for all module graphs. -/
theorem swap_state_dict_involutive (h h' : Heap) (m : MId) (p s : List (Name × PTree)) (hwf : HeapWF h)
    (hnd : LeafNodup p) (hs : swapSD h m p = .ok (h', s)) :
    ∃ h'' p', swapSD h' m s = .ok (h'', p') ∧ HeapEq h'' h := by
  unfold swapSD at hs ⊢
  have hnd' := leafNodup_prune p hnd
  -- the swap of a re-nested tensordict is in re-nested form itself (leaves first, no empty entry), so re-nesting it changes nothing
  rw [prune_id s (swap_normal hs (normal_prune p))]
  exact swap_restores hwf hnd' hs (HeapEq.refl h')

theorem applyHooks_id (hk : List Name → Tn → Tn) (hid : ∀ path t, hk path t = t) :
    ∀ (pre : List Name) (p : List (Name × PTree)), applyHooks hk pre p = p
  | _, [] => by simp [applyHooks]
  | pre, (k, .leaf t) :: r => by
    simp only [applyHooks, hid, if_true]
    rw [applyHooks_id hk hid pre r]
  | pre, (k, .node es) :: r => by
    simp only [applyHooks]
    rw [applyHooks_id hk hid (pre ++ [k]) es, applyHooks_id hk hid pre r]

/-- hooks that leave the entries alone: the state-dict API is the plain swap of the re-nested tensordict, and
`swap_state_dict_involutive` applies -/
theorem swap_state_dict_hooks_id (hk : List Name → Tn → Tn) (hid : ∀ path t, hk path t = t) (h : Heap) (m : MId)
    (p : List (Name × PTree)) : swapSDHook hk h m p = swapSD h m p := by
  unfold swapSDHook swapSD
  rw [applyHooks_id hk hid [] p]

/-- a module with one parameter `w`, and a pre-hook that replaces the entry `w` of the state dict by a new tensor
(`state_dict[prefix + "weight"] = 2 * state_dict[prefix + "weight"]`): object `n` becomes object `n + 100` -/
def hW : Heap := fun c => if c = 0 then { params := [("w", some ⟨1, true, false⟩)] } else {}
def hkDouble : List Name → Tn → Tn := fun path t => if path = ["w"] then { t with id := t.id + 100 } else t

/-- the with-protocol through the state-dict API with hooks, normal exit -/
def roundTripSDHook (hk : List Name → Tn → Tn) (h : Heap) (m : MId) (p : List (Name × PTree)) : Option (Heap × Heap) :=
  match swapSDHook hk h m p with
  | .ok (h1, s) => match swapSDHook hk h1 m s with
    | .ok (h2, _) => some (h1, h2)
    | .error _ => none
  | .error _ => none

/-- **state_dict_hook_reapplied_counterexample** (recorded finding `C13-state-dict-hook-reapplied-on-exit`, found after the
repository freeze) — `with params.to_module(module, use_state_dict=True)` on a module whose load-state-dict pre-hook rewrites
an entry: inside the block the module holds the rewritten supplied tensor (object 110), but `__exit__` runs the same call on
the swap, the hook rewrites the module's *own* tensor (object 1 ↦ 101), and the module ends with another object — and, in
the library, other values — than it started with. -/
theorem state_dict_hook_reapplied_counterexample :
    (roundTripSDHook hkDouble hW 0 [("w", .leaf ⟨10, true, false⟩)]).map
        (fun hh => (cellAt hh.1 0 "w", cellAt hh.2 0 "w"))
      = some (⟨some (some ⟨110, true, false⟩), none, none⟩, ⟨some (some ⟨101, true, false⟩), none, none⟩) ∧
    cellAt hW 0 "w" = ⟨some (some ⟨1, true, false⟩), none, none⟩ := by
  simp [roundTripSDHook, swapSDHook, applyHooks, hkDouble, pruneEmpty, leavesOf, nodesRenest, swap, swapEntries,
    swapEntriesWith, setTensor, setTensorNative, hW, Dict.get?, Dict.set, Option.join, Heap.upd, cellAt, Mod.cell]

/-! ## a shared submodule given two different sub-tensordicts (recorded finding) -/

/-- `lin` registered under two names of a container: `m = ModuleDict({'a': lin, 'b': lin})` -/
def hShared : Heap := fun c =>
  if c = 0 then { kids := [("a", some 1), ("b", some 1)] }
  else if c = 1 then { params := [("weight", some ⟨1, true, false⟩), ("bias", some ⟨2, true, false⟩)] }
  else {}

/-- **shared_submodule_second_subtree_ignored_counterexample** (recorded finding `C13-shared-submodule-subtrees-differ`) —
`TensorDict({'a': {'weight': X}, 'b': {'weight': X, 'bias': Y}}).to_module(m)`: the swap succeeds, the weight is
installed, but the submodule is visited once (memo): the second sub-tensordict is never read and `Y` (object 11) is not
installed — inside the block `lin.bias` is still the module's own object 2. (`swap_installs_direct` needs `ConsP`: one
sub-tensordict per submodule.) -/
theorem shared_submodule_second_subtree_ignored_counterexample :
    (match swap hShared 0 [("a", .node [("weight", .leaf ⟨10, true, false⟩)]),
                           ("b", .node [("weight", .leaf ⟨10, true, false⟩), ("bias", .leaf ⟨11, true, false⟩)])] with
     | .ok (h', _) => some (cellAt h' 1 "weight", cellAt h' 1 "bias")
     | .error _ => none)
      = some (⟨some (some ⟨10, true, false⟩), none, none⟩, ⟨some (some ⟨2, true, false⟩), none, none⟩) := by
  simp [swap, swapEntries, swapEntriesWith, setTensor, setTensorNative, hShared, Dict.get?, Dict.set, Option.join,
    Heap.upd, cellAt, Mod.cell, Memo.find]

/-- a module holding a TensorDictParams `extra` with a nested leaf: the registry names it `n.b` (a dotted parameter name) -/
def hTdp : Heap := fun c =>
  if c = 0 then { kids := [("extra", some 1)] }
  else if c = 1 then { params := [("a", some ⟨3, true, false⟩), ("n.b", some ⟨4, true, false⟩)] }
  else {}

/-- **state_dict_tdparams_nested_names_counterexample** (recorded finding `C13-state-dict-tdparams-nested-names`) — the
state-dict key `extra.n.b` is unflattened into `extra → n → b`; walking the TensorDictParams as an ordinary module
(`use_state_dict=True` skips its TensorDictParams branch) looks for a submodule `n` of `extra`: `KeyError`. -/
theorem state_dict_tdparams_nested_names_counterexample :
    (match swapSD hTdp 0 [("extra", .node [("a", .leaf ⟨13, true, false⟩), ("n", .node [("b", .leaf ⟨14, true, false⟩)])])] with
     | .error (e, _) => some e
     | .ok _ => none) = some .key := by
  simp [swapSD, pruneEmpty, leavesOf, nodesRenest, swap, swapEntries, swapEntriesWith, setTensor, setTensorNative, hTdp,
    Dict.get?, Dict.set, Option.join, Heap.upd, Memo.find]

/-! ## with-blocks -/

/-- **blocks_restore** — any program of with-blocks, nested to any depth, with `raise` at any point of
any body and `try/except` anywhere, each block's parameter tensordict either still referenced at
`__exit__` or already collected (a temporary / deleted in the body: the swap's weak reference is dead): `__exit__` never fails, and unless some `to_module` call itself
raised on entry, at the end every module binds the very same objects under the same names as at the
start, and no swap tensordict keeps a record in its `_last_op_queue`. -/
theorem blocks_restore (prog : List Stmt) (σ : State) (hwf : HeapWF σ.heap) (hok : ProgOK prog) :
    (exec σ prog).2 ≠ .exitFailed ∧
    ((exec σ prog).2 ≠ .entryFailed →
      HeapEq (exec σ prog).1.heap σ.heap ∧
      ∃ new : List TdObj, (exec σ prog).1.tds = σ.tds ++ new ∧ ∀ td ∈ new, td.queue = []) := by
  have h := execList_spec prog σ hwf hok
  exact ⟨h.noExitFail, fun hne => ⟨h.restored hne, h.store hne⟩⟩

/-- a body whose statements up to some point complete normally -/
theorem exec_append_normal (ex) (pre post : List Stmt) (σ σ' : State)
    (h : execList ex σ pre = (σ', .normal)) : execList ex σ (pre ++ post) = execList ex σ' post := by
  induction pre generalizing σ with
  | nil => simp [execList] at h; subst h; rfl
  | cons x xs ih =>
    simp only [List.cons_append, execList] at h ⊢
    generalize execStmt ex σ x = r at h
    obtain ⟨σ1, st⟩ := r
    cases st <;> simp at h ⊢
    · exact ih σ1 h

/-- **with_block_restores_normal** -/
theorem with_block_restores_normal (σ : State) (p : List (Name × PTree)) (m : MId) (temp : Bool) (body : List Stmt)
    (hwf : HeapWF σ.heap) (hnd : LeafNodup p) (hbody : ProgOK body)
    (hst : (exec σ [.block p m temp body]).2 = .normal) : HeapEq (exec σ [.block p m temp body]).1.heap σ.heap :=
  ((blocks_restore [.block p m temp body] σ hwf (by simp [ProgOK, StmtOK, hnd, hbody])).2 (by rw [hst]; simp)).1

/-- **with_block_restores_on_raise** — `with p.to_module(m): pre; raise; post` where `to_module`
succeeded and `pre` ran normally: the exception propagates out of the block and the module is restored. -/
theorem with_block_restores_on_raise (σ σ1 σ2 : State) (i : Nat) (p : List (Name × PTree)) (m : MId)
    (temp : Bool) (pre post : List Stmt) (hwf : HeapWF σ.heap) (hnd : LeafNodup p) (hpre : ProgOK pre) (hpost : ProgOK post)
    (hentry : toModule σ p m temp = .ok (σ1, i))
    (hrun : exec (enterBlock σ1 i) pre = (σ2, .normal)) :
    (exec σ [.block p m temp (pre ++ .raise :: post)]).2 = .raised ∧
    HeapEq (exec σ [.block p m temp (pre ++ .raise :: post)]).1.heap σ.heap := by
  have hok : ProgOK [.block p m temp (pre ++ .raise :: post)] := by
    have : ∀ (a b : List Stmt), ProgOK a → ProgOK b → ProgOK (a ++ b) := by
      intro a b ha hb
      induction a with
      | nil => simpa using hb
      | cons x xs ih => simp only [List.cons_append, ProgOK] at ha ⊢; exact ⟨ha.1, ih ha.2⟩
    simp only [ProgOK, StmtOK, and_true]
    exact ⟨hnd, this pre _ hpre (by simp [ProgOK, StmtOK, hpost])⟩
  have hspec := blocks_restore _ σ hwf hok
  have hbody : exec (enterBlock σ1 i) (pre ++ .raise :: post) = (σ2, .raised) := by
    unfold exec at hrun ⊢
    rw [exec_append_normal _ pre _ _ σ2 hrun]; simp [execList, execStmt]
  have hstatus : (exec σ [.block p m temp (pre ++ .raise :: post)]).2 = .raised := by
    have hne := hspec.1
    unfold exec at hbody hne ⊢
    simp only [execList, execStmt, hentry, hbody] at hne ⊢
    generalize exitBlock σ2 i (Status.raised == Status.raised) = r at hne ⊢
    obtain ⟨σ4, b⟩ := r
    cases b <;> simp at hne ⊢
  exact ⟨hstatus, (hspec.2 (by rw [hstatus]; simp)).1⟩

/-- **with_block_restores_on_base_exception** — the same when the body is left by a BaseException that is not an
Exception (KeyboardInterrupt, SystemExit, GeneratorExit of a generator closed at a `yield` inside the block, a cancelled
task): it propagates *as itself* (`__exit__` hands Python `False`, not a tensordict) and the module is restored.
`with p.to_module(m): pre; raise <BaseException>; post` where `to_module`
succeeded and `pre` ran normally: the exception propagates out of the block and the module is restored. -/
theorem with_block_restores_on_base_exception (σ σ1 σ2 : State) (i : Nat) (p : List (Name × PTree)) (m : MId)
    (temp : Bool) (pre post : List Stmt) (hwf : HeapWF σ.heap) (hnd : LeafNodup p) (hpre : ProgOK pre) (hpost : ProgOK post)
    (hentry : toModule σ p m temp = .ok (σ1, i))
    (hrun : exec (enterBlock σ1 i) pre = (σ2, .normal)) :
    ((exec σ [.block p m temp (pre ++ .raiseBase :: post)]).2 = .raisedBase ∨
      -- (or the KeyError of `_quick_set`, raised by `__exit__` after the module has been restored)
      (exec σ [.block p m temp (pre ++ .raiseBase :: post)]).2 = .raised) ∧
    HeapEq (exec σ [.block p m temp (pre ++ .raiseBase :: post)]).1.heap σ.heap := by
  have hok : ProgOK [.block p m temp (pre ++ .raiseBase :: post)] := by
    have : ∀ (a b : List Stmt), ProgOK a → ProgOK b → ProgOK (a ++ b) := by
      intro a b ha hb
      induction a with
      | nil => simpa using hb
      | cons x xs ih => simp only [List.cons_append, ProgOK] at ha ⊢; exact ⟨ha.1, ih ha.2⟩
    simp only [ProgOK, StmtOK, and_true]
    exact ⟨hnd, this pre _ hpre (by simp [ProgOK, StmtOK, hpost])⟩
  have hspec := blocks_restore _ σ hwf hok
  have hbody : exec (enterBlock σ1 i) (pre ++ .raiseBase :: post) = (σ2, .raisedBase) := by
    unfold exec at hrun ⊢
    rw [exec_append_normal _ pre _ _ σ2 hrun]; simp [execList, execStmt]
  have hstatus : (exec σ [.block p m temp (pre ++ .raiseBase :: post)]).2 = .raisedBase ∨
      (exec σ [.block p m temp (pre ++ .raiseBase :: post)]).2 = .raised := by
    have hne := hspec.1
    unfold exec at hbody hne ⊢
    simp only [execList, execStmt, hentry, hbody] at hne ⊢
    generalize exitBlock σ2 i (Status.raisedBase == Status.raised) = r at hne ⊢
    obtain ⟨σ4, b⟩ := r
    cases b <;> simp at hne ⊢
  exact ⟨hstatus, (hspec.2 (by rcases hstatus with h | h <;> rw [h] <;> simp)).1⟩

/-- **nested_blocks_restore** (LIFO) — two blocks nested on the same or different modules, the inner
body raising or not, an exception caught between them or not: a special case of `blocks_restore`
spelled out for the common shape. -/
theorem nested_blocks_restore (σ : State) (p1 p2 : List (Name × PTree)) (m1 m2 : MId) (t1 t2 : Bool) (body : List Stmt)
    (hwf : HeapWF σ.heap) (h1 : LeafNodup p1) (h2 : LeafNodup p2) (hb : ProgOK body)
    (hne : (exec σ [.block p1 m1 t1 [.block p2 m2 t2 body]]).2 ≠ .entryFailed) :
    HeapEq (exec σ [.block p1 m1 t1 [.block p2 m2 t2 body]]).1.heap σ.heap :=
  ((blocks_restore _ σ hwf (by simp [ProgOK, StmtOK, h1, h2, hb])).2 hne).1

/-! ## the pinned code (4564555) does not have these properties: regression anchors -/

def h0 : Heap := fun c =>
  if c = 0 then { params := [("w", some ⟨1, true, false⟩)], buffers := [("rm", some ⟨2, false, false⟩)] } else {}

/-- pinned `__exit__`: an exception in the body leaves the parameter out of `_parameters` (the swapped-in
tensor sits in `__dict__`) and the record in `_last_op_queue`. -/
theorem old_exit_on_raise_counterexample :
    (execOld ⟨h0, []⟩ [.tryExcept [.block [("w", .leaf ⟨10, false, false⟩)] 0 false [.raise]]]).2 = .normal ∧
    cellAt (execOld ⟨h0, []⟩ [.tryExcept [.block [("w", .leaf ⟨10, false, false⟩)] 0 false [.raise]]]).1.heap 0 "w"
      = ⟨none, none, some ⟨10, false, false⟩⟩ ∧
    cellAt h0 0 "w" = ⟨some (some ⟨1, true, false⟩), none, none⟩ ∧
    ((execOld ⟨h0, []⟩ [.tryExcept [.block [("w", .leaf ⟨10, false, false⟩)] 0 false [.raise]]]).1.td 0).queue.length = 1 := by
  simp [execOld, execList, execStmt, toModule, swap, swapEntries, swapEntriesWith, setTensor, setTensorNative, setTensorWith,
    h0, Dict.get?, Dict.pop, place, Dict.set, Option.join, enterBlock, exitBlockOld, State.td, State.setTd,
    Heap.upd, cellAt, Mod.cell]

/-- the with-protocol around `swapOld` (pinned `_set_tensor_dict`), normal exit -/
def roundTripOld (h : Heap) (m : MId) (p : List (Name × PTree)) : Option Heap :=
  match swapOld h m p with
  | .ok (h1, s) => match swapOld h1 m s with
    | .ok (h2, _) => some h2
    | .error _ => none
  | .error _ => none

/-- pinned `_set_tensor_dict`: a Parameter swapped into a buffer slot and swapped back (normal exit)
leaves the buffer in `__dict__`. -/
theorem old_buffer_demotion_counterexample :
    (roundTripOld h0 0 [("rm", .leaf ⟨11, true, false⟩)]).map (fun h => cellAt h 0 "rm")
      = some ⟨none, none, some ⟨2, false, false⟩⟩ ∧
    cellAt h0 0 "rm" = ⟨none, some (some ⟨2, false, false⟩), none⟩ := by
  simp [roundTripOld, swapOld, swapEntriesWith, setTensorOld, setTensorWith, h0, Dict.get?, Dict.pop,
    placeOld, Dict.set, Option.join, Heap.upd, cellAt, Mod.cell]

/-! ## order: entries that stay in their dict are replaced in place -/

theorem dict_set_set_get {α : Type} : ∀ (d : Dict α) (k : Name) (v0 v : α), Dict.get? d k = some v0 →
    Dict.set (Dict.set d k v) k v0 = d
  | [], _, _, _, h => by simp [Dict.get?] at h
  | (k', v') :: r, k, v0, v, h => by
    simp only [Dict.get?] at h
    by_cases hk : k' = k
    · subst hk
      simp only [if_true, Option.some.injEq] at h
      subst h
      simp [Dict.set]
    · simp only [hk, if_false] at h
      simp only [Dict.set, hk, if_false]
      rw [dict_set_set_get r k v0 v h]

theorem dict_set_keys {α : Type} : ∀ (d : Dict α) (k : Name) (v0 v : α), Dict.get? d k = some v0 →
    (Dict.set d k v).map (·.1) = d.map (·.1)
  | [], _, _, _, h => by simp [Dict.get?] at h
  | (k', v') :: r, k, v0, v, h => by
    simp only [Dict.get?] at h
    by_cases hk : k' = k
    · subst hk
      simp only [Dict.set, if_true, List.map_cons]
    · simp only [hk, if_false] at h
      simp only [Dict.set, hk, if_false, List.map_cons]
      rw [dict_set_keys r k v0 v h]

/-- **set_tensor_in_place_exact** — a Parameter swapped into a `_parameters` slot and the original swapped back: the
module is *the same* afterwards, field by field — the same dicts in the same order (so `parameters()`, `state_dict()`,
optimizer groups keep their order although only some entries were touched), nothing popped and re-appended. -/
theorem set_tensor_in_place_exact (md : Mod) (n : Name) (t out : Tn)
    (hslot : Dict.get? md.params n = some (some out)) (ht : t.isParam = true) (ho : out.isParam = true)
    (hl : t.lazy = false) (hlo : out.lazy = false) :
    ∃ md1, setTensorNative md n t = .ok (md1, out) ∧ setTensorNative md1 n out = .ok (md, t) ∧
      md1.params.map (·.1) = md.params.map (·.1) := by
  have hj : (Dict.get? md.params n).join = some out := by rw [hslot]; rfl
  have hj1 : (Dict.get? (md.params.set n (some t)) n).join = some t := by
    rw [Dict.get?_set, if_pos rfl]; rfl
  refine ⟨{ md with params := md.params.set n (some t) }, ?_, ?_, dict_set_keys md.params n (some out) (some t) hslot⟩
  · simp only [setTensorNative, hj, ht, if_true, hl]
    simp
  · simp only [setTensorNative, hj1, ho, if_true, hlo]
    simp [dict_set_set_get md.params n (some out) (some t) hslot]

/-- the same for a `_buffers` slot, whatever the class of the incoming tensor -/
theorem set_tensor_buffer_in_place_exact (md : Mod) (n : Name) (t out : Tn)
    (hp : (Dict.get? md.params n).join = none) (hslot : Dict.get? md.buffers n = some (some out)) :
    ∃ md1, setTensorNative md n t = .ok (md1, out) ∧ setTensorNative md1 n out = .ok (md, t) := by
  have hb : (Dict.get? md.buffers n).join = some out := by rw [hslot]; rfl
  have hb1 : (Dict.get? (md.buffers.set n (some t)) n).join = some t := by
    rw [Dict.get?_set, if_pos rfl]; rfl
  refine ⟨{ md with buffers := md.buffers.set n (some t) }, ?_, ?_⟩
  · simp only [setTensorNative, hp, hb]
  · simp only [setTensorNative, hp, hb1]
    simp [dict_set_set_get md.buffers n (some out) (some t) hslot]

/-- **swap_keeps_order** — all module graphs (shared submodules included): a `to_module` in which every leaf keeps the kind
of the slot it is aimed at (a Parameter for a `_parameters` slot, a non-Parameter for a plain attribute, anything for a
buffer: `KindOKTree`) leaves the key order of `_parameters` and of `_buffers` of *every* module unchanged — whatever
subset of the entries the tensordict names, in whatever order it lists them. -/
theorem swap_keeps_order (h h' : Heap) (m : MId) (p s : List (Name × PTree)) (hwf : HeapWF h) (hnd : LeafNodup p)
    (hk : KindOKTree h m p) (hs : swap h m p = .ok (h', s)) (x : MId) : (h' x).keys2 = (h x).keys2 := by
  obtain ⟨memo1, hrun⟩ := swap_inv hs
  exact (swap_keys p h [(m, none)] m h' memo1 s hrun (by simp [find_cons]) hnd h hwf hk
    (fun _ _ _ _ => rfl) (fun _ _ => rfl) (fun _ => rfl) x).1

/-- the swap back of a kind-preserving swap is kind-preserving: what comes out of a slot has the kind of that slot -/
theorem swap_back_kind_ok (h h' : Heap) (m : MId) (p s : List (Name × PTree)) (hwf : HeapWF h) (hnd : LeafNodup p)
    (hk : KindOKTree h m p) (hs : swap h m p = .ok (h', s)) : KindOKTree h' m s := by
  obtain ⟨memo1, hrun⟩ := swap_inv hs
  have fr := swap_frame p h _ m h' memo1 s hrun (by simp [find_cons])
  exact kindOKTree_of_installs hwf fr.kids
    (fun x n => (swap_keys p h [(m, none)] m h' memo1 s hrun (by simp [find_cons]) hnd h hwf hk
      (fun _ _ _ _ => rfl) (fun _ _ => rfl) (fun _ => rfl) x).2 n)
    s m (swap_held hs hnd)

/-- a dict is determined by the order of its keys and what it binds under each -/
theorem dict_ext {α : Type} : ∀ (a b : Dict α), a.map (·.1) = b.map (·.1) → (a.map (·.1)).Nodup →
    (∀ k, Dict.get? a k = Dict.get? b k) → a = b
  | [], [], _, _, _ => rfl
  | [], _ :: _, h, _, _ => by simp at h
  | _ :: _, [], h, _, _ => by simp at h
  | (k1, v1) :: r1, (k2, v2) :: r2, hk, hnd, hg => by
    simp only [List.map_cons, List.cons.injEq] at hk
    obtain ⟨hk1, hk2⟩ := hk
    subst hk1
    have hv : v1 = v2 := by
      have := hg k1
      simpa [Dict.get?] using this
    subst hv
    simp only [List.map_cons, List.nodup_cons] at hnd
    congr 1
    apply dict_ext r1 r2 hk2 hnd.2
    intro k
    by_cases hkk : k1 = k
    · subst hkk
      have e1 : Dict.get? r1 k1 = none := by
        cases hh : Dict.get? r1 k1 with
        | none => rfl
        | some v =>
          exfalso; apply hnd.1
          clear hg hk2 hnd
          induction r1 with
          | nil => simp [Dict.get?] at hh
          | cons e r ih =>
            obtain ⟨k', v'⟩ := e
            simp only [Dict.get?] at hh
            by_cases h' : k' = k1
            · subst h'; simp
            · simp only [h', if_false] at hh; simp [ih hh]
      have e2 : Dict.get? r2 k1 = none := by
        cases hh : Dict.get? r2 k1 with
        | none => rfl
        | some v =>
          exfalso; apply hnd.1; rw [hk2]
          clear hg hk2 hnd e1
          induction r2 with
          | nil => simp [Dict.get?] at hh
          | cons e r ih =>
            obtain ⟨k', v'⟩ := e
            simp only [Dict.get?] at hh
            by_cases h' : k' = k1
            · subst h'; simp
            · simp only [h', if_false] at hh; simp [ih hh]
      rw [e1, e2]
    · have := hg k
      simpa [Dict.get?, hkk] using this

/-- **round_trip_exact_registries** — a with-block (entry, then the swap back) in which every leaf keeps the kind of its slot
(the swap back then does too: `swap_back_kind_ok`): afterwards `_parameters` and `_buffers` of every module are *equal* to what they were — the same names in the
same order binding the same objects (names registered once per dict). With `swap_involutive` (same objects under the same
names) this is exactness including order: `parameters()`, `state_dict()` and optimizer groups are as before. -/
theorem round_trip_exact_registries (h h1 h2 : Heap) (m : MId) (p s p' : List (Name × PTree)) (hwf : HeapWF h)
    (hnd : LeafNodup p) (hk : KindOKTree h m p)
    (hs : swap h m p = .ok (h1, s)) (hb : swap h1 m s = .ok (h2, p'))
    (hreg : ∀ x, ((h x).params.map (·.1)).Nodup ∧ ((h x).buffers.map (·.1)).Nodup) (x : MId) :
    (h2 x).params = (h x).params ∧ (h2 x).buffers = (h x).buffers := by
  have o1 := swap_keeps_order h h1 m p s hwf hnd hk hs x
  have hwf1 : HeapWF h1 := by
    obtain ⟨memo1, hrun⟩ := swap_inv hs
    exact swap_wf p h _ m h1 memo1 s hrun hwf
  have o2 := swap_keeps_order h1 h2 m s p' hwf1 (swap_nodup hs hnd)
    (swap_back_kind_ok h h1 m p s hwf hnd hk hs) hb x
  obtain ⟨h2', p'', hb', heq⟩ := swap_involutive h h1 m p s hwf hnd hs
  rw [hb] at hb'
  injection hb' with hb'; injection hb' with e1 _; subst e1
  have hkeys : (h2 x).keys2 = (h x).keys2 := o2.trans o1
  simp only [Mod.keys2, Prod.mk.injEq] at hkeys
  have hcell := (heq x).1
  constructor
  · apply dict_ext _ _ hkeys.1 (by rw [hkeys.1]; exact (hreg x).1)
    intro k
    have := hcell k
    simp only [cellAt, Mod.cell, Cell.mk.injEq] at this
    exact this.1
  · apply dict_ext _ _ hkeys.2 (by rw [hkeys.2]; exact (hreg x).2)
    intro k
    have := hcell k
    simp only [cellAt, Mod.cell, Cell.mk.injEq] at this
    exact this.2.1

/-! ## `return_swap=False` -/

def LeavesOnly : List (Name × PTree) → Prop
  | [] => True
  | (_, .leaf _) :: r => LeavesOnly r
  | (_, .node _) :: _ => False

theorem install_leaves_aux : ∀ (es : List (Name × PTree)) (h : Heap) (memo : Memo) (m : MId), LeavesOnly es →
    installEntriesWith setTensor h m es =
      match swapEntries h memo m es with
      | .ok (h', _, _) => .ok h'
      | .error e => .error e
  | [], h, memo, m, _ => by simp [installEntriesWith, swapEntries, swapEntriesWith]
  | (k, .leaf t) :: rest, h, memo, m, hl => by
    simp only [LeavesOnly] at hl
    simp only [installEntriesWith, swapEntries, swapEntriesWith]
    cases hst : setTensor (h m) k t with
    | error e => rfl
    | ok r =>
      obtain ⟨md, out⟩ := r
      simp only []
      rw [install_leaves_aux rest (h.upd m md) memo m hl]
      simp only [swapEntries]
      cases swapEntriesWith setTensor (h.upd m md) memo m rest with
      | error e => rfl
      | ok r => rfl
  | (k, .node es) :: rest, h, memo, m, hl => by simp [LeavesOnly] at hl

/-- **install_agrees_on_one_module** — `to_module(module, return_swap=False)` with a parameter tensordict without
nested entries (one module) changes the module exactly as the default call does (same slots, same order, same
error and same half-written state when a key is missing); the theorems on the swap (`swap_installs_leaf`, the
slot discipline of `set_tensor_involutive`) hold for it. -/
theorem install_agrees_on_one_module (h : Heap) (m : MId) (p : List (Name × PTree)) (hl : LeavesOnly p) :
    install h m p = match swap h m p with
      | .ok (h', _) => .ok h'
      | .error e => .error e := by
  unfold install swap
  rw [install_leaves_aux p h [(m, none)] m hl]
  cases swapEntries h [(m, none)] m p with
  | error e => rfl
  | ok r => rfl

/-- **install_agrees_without_sharing** — when no submodule is reached twice through the nested entries of the parameter
tensordict (`reach`: the visited submodules, the root included, are pairwise distinct — any module *tree*), a successful
`to_module(module)` and `to_module(module, return_swap=False)` leave exactly the same heap: same objects in the same
slots in the same order, in every module. With `swap_installs_direct`, `swap_installs_leaf` and the slot theorems this is
the statement that `return_swap=False` installs the supplied objects. (With a shared submodule the two differ by design:
the default call writes it once — first sub-tensordict —, `return_swap=False` once per path — last one wins; compared
by the `to_module_no_swap` stream.) -/
theorem install_agrees_without_sharing (h h' : Heap) (m : MId) (p s : List (Name × PTree))
    (hnd : (m :: reach h m p).Nodup) (hs : swap h m p = .ok (h', s)) : install h m p = .ok h' := by
  obtain ⟨memo1, hrun⟩ := swap_inv hs
  have hnd' := List.nodup_cons.1 hnd
  exact (swap_install p h [(m, none)] m h' memo1 s hrun (by simp [find_cons]) hnd'.2 (by
    intro c hc
    have hcm : m ≠ c := by intro e; subst e; exact hnd'.1 hc
    simp [find_cons, hcm, Memo.find])).1

/-- `return_swap=False` never changes which submodules a module has -/
theorem install_keeps_kids : ∀ (es : List (Name × PTree)) (h h' : Heap) (m : MId),
    installEntriesWith setTensor h m es = .ok h' → ∀ c, (h' c).kids = (h c).kids
  | [], h, h', m, hr, c => by
    simp only [installEntriesWith] at hr; injection hr with hr; subst hr; rfl
  | (k, .leaf t) :: rest, h, h', m, hr, c => by
    simp only [installEntriesWith] at hr
    cases hst : setTensor (h m) k t with
    | error e => simp [hst] at hr
    | ok r =>
      obtain ⟨md, out⟩ := r
      simp only [hst] at hr
      rw [install_keeps_kids rest _ h' m hr c]
      unfold Heap.upd; split
      · rename_i hc; rw [(setTensor_ok hst).2.2, hc]
      · rfl
  | (k, .node es) :: rest, h, h', m, hr, c => by
    simp only [installEntriesWith] at hr
    split at hr
    · cases hr
    · cases hr
    · rename_i c' hk
      cases h1 : installEntriesWith setTensor h c' es with
      | error e => simp [h1] at hr
      | ok h2 =>
        simp only [h1] at hr
        rw [install_keeps_kids rest h2 h' m hr c, install_keeps_kids es h h2 c' h1 c]

/-! ## lazy (uninitialised) parameters: the forward pre-hooks -/

/-- **hooks_never_removed** — a swap only ever adds forward pre-hooks. -/
theorem hooks_never_removed {h h' : Heap} {m : MId} {p s} (hs : swap h m p = .ok (h', s)) (c : MId) :
    (h c).preHooks ≤ (h' c).preHooks := by
  obtain ⟨memo1, hrun⟩ := swap_inv hs
  exact (swap_hooks p h _ m h' memo1 s hrun).1 c

/-- **with_block_hooks_unchanged_without_lazy** — when neither the parameters swapped in nor the module's own
tensors are uninitialised, a whole with-block (entry, any body leaving heap `hb`, exit) registers no hook on
any module. -/
theorem with_block_hooks_unchanged_without_lazy {h h1 hb h2 : Heap} {m : MId} {p s s2}
    (hin : swap h m p = .ok (h1, s)) (hout : swap hb m s = .ok (h2, s2))
    (hnd : LeafNodup p) (hp : NoLazyEs p) (hh : HeapNoLazy h) (c : MId) :
    (h1 c).preHooks = (h c).preHooks ∧ (h2 c).preHooks = (hb c).preHooks := by
  obtain ⟨memo1, hrun1⟩ := swap_inv hin
  obtain ⟨memo2, hrun2⟩ := swap_inv hout
  have hs : NoLazyEs s := installs_noLazy hh s m (swap_held hin hnd)
  exact ⟨(swap_hooks p h _ m h1 memo1 s hrun1).2 hp c, (swap_hooks s hb _ m h2 memo2 s2 hrun2).2 hs c⟩

/-- a module holding one uninitialised parameter (a lazy layer before its first forward) -/
def hLazy : Heap := fun c => if c = 0 then { params := [("w", some ⟨1, true, true⟩)] } else {}

/-- the with-protocol, normal exit: the heap inside the block and the heap after it -/
def roundTripHeaps (h : Heap) (m : MId) (p : List (Name × PTree)) : Option (Heap × Heap) :=
  match swap h m p with
  | .ok (h1, s) => match swap h1 m s with
    | .ok (h2, _) => some (h1, h2)
    | .error _ => none
  | .error _ => none

/-- **lazy_hook_leak_counterexample** — with a lazy module, every with-block leaves one more forward pre-hook
per uninitialised parameter on the module (registered when `__exit__` puts the uninitialised parameter back; each
removes itself at the next forward): the tensors are restored, `_forward_pre_hooks` is not. Recorded as an
observation: the property speaks about the tensors. -/
theorem lazy_hook_leak_counterexample :
    (roundTripHeaps hLazy 0 [("w", .leaf ⟨10, true, false⟩)]).map
        (fun hh => (cellAt hh.2 0 "w", (hh.1 0).preHooks, (hh.2 0).preHooks))
      = some (cellAt hLazy 0 "w", 0, 1) ∧ (hLazy 0).preHooks = 0 := by
  simp [roundTripHeaps, swap, swapEntries, swapEntriesWith, setTensor, setTensorNative, setTensorWith, hLazy,
    Dict.get?, Dict.pop, place, Dict.set, Option.join, Heap.upd, cellAt, Mod.cell]

/-! ## non-vacuity -/

example : HeapWF h0 := by
  intro c n
  unfold cellAt h0
  by_cases hc : c = 0
  · subst hc
    by_cases h1 : "w" = n
    · subst h1; decide
    · by_cases h2 : "rm" = n
      · subst h2; decide
      · simp [Mod.cell, Dict.get?, h1, h2, CellWF]
  · simp [hc, Mod.cell, Dict.get?, CellWF]

example : (exec ⟨h0, []⟩ [.tryExcept [.block [("w", .leaf ⟨10, false, false⟩), ("rm", .leaf ⟨11, true, false⟩)] 0 true [.nop, .raise]]]).2
    = .normal := by
  simp [exec, execList, execStmt, toModule, swap, swapEntries, swapEntriesWith, setTensor, setTensorNative, setTensorWith,
    h0, Dict.get?, Dict.pop, place, Dict.set, Option.join, enterBlock, exitBlock, quickSet, State.td, State.setTd, Heap.upd]
example : cellAt (exec ⟨h0, []⟩ [.tryExcept [.block [("w", .leaf ⟨10, false, false⟩), ("rm", .leaf ⟨11, true, false⟩)] 0 true [.nop, .raise]]]).1.heap 0 "rm"
    = cellAt h0 0 "rm" := by
  simp [exec, execList, execStmt, toModule, swap, swapEntries, swapEntriesWith, setTensor, setTensorNative, setTensorWith,
    h0, Dict.get?, Dict.pop, place, Dict.set, Option.join, enterBlock, exitBlock, quickSet, State.td, State.setTd,
    Heap.upd, cellAt, Mod.cell]


def h2 : Heap := fun c =>
  if c = 0 then { params := [("w", some ⟨1, true, false⟩), ("b", none)], kids := [("a", some 1), ("b2", some 1)] }
  else if c = 1 then { params := [("w", some ⟨1, true, false⟩)], buffers := [("rm", some ⟨2, false, false⟩)] } else {}

-- a shared submodule and a tied parameter: four leaves, one object under three names
example : fromModule h2 3 0 = .ok (some [("w", .leaf ⟨1, true, false⟩),
    ("a", .node [("w", .leaf ⟨1, true, false⟩), ("rm", .leaf ⟨2, false, false⟩)]),
    ("b2", .node [("w", .leaf ⟨1, true, false⟩), ("rm", .leaf ⟨2, false, false⟩)])]) := by
  simp [fromModule, fromKids, h2, someEntries, Dict.set, List.isEmpty]
example : namedTensors h2 3 0 = .ok [(["w"], ⟨1, true, false⟩), (["a", "w"], ⟨1, true, false⟩), (["a", "rm"], ⟨2, false, false⟩),
    (["b2", "w"], ⟨1, true, false⟩), (["b2", "rm"], ⟨2, false, false⟩)] := by
  simp [namedTensors, namedKids, h2, ownTensors]

-- the tensordict from_module gives for `h2` (a shared submodule under two names) satisfies `ConsP`
example : ConsP (fun c => if c = 1 then [("w", .leaf ⟨1, true, false⟩), ("rm", .leaf ⟨2, false, false⟩)] else []) h2 0
    [("w", .leaf ⟨1, true, false⟩),
     ("a", .node [("w", .leaf ⟨1, true, false⟩), ("rm", .leaf ⟨2, false, false⟩)]),
     ("b2", .node [("w", .leaf ⟨1, true, false⟩), ("rm", .leaf ⟨2, false, false⟩)])] := by
  simp [ConsP, h2, Dict.get?]


/-- the weak reference to the parameter tensordict is dead at `__exit__` (a temporary, or deleted
in the body): the module is restored all the same — `blocks_restore` instantiated, spelled out because
this is the path where `_reverse_to_module` receives `out=None`. -/
theorem with_block_restores_when_params_collected (σ : State) (p : List (Name × PTree)) (m : MId)
    (body : List Stmt) (hwf : HeapWF σ.heap) (hnd : LeafNodup p) (hbody : ProgOK body)
    (hne : (exec σ [.block p m true body]).2 ≠ .entryFailed) :
    HeapEq (exec σ [.block p m true body]).1.heap σ.heap ∧ (exec σ [.block p m true body]).2 ≠ .exitFailed := by
  have h := blocks_restore [.block p m true body] σ hwf (by simp [ProgOK, StmtOK, hnd, hbody])
  exact ⟨(h.2 hne).1, h.1⟩

/-! ## TensorDictParams -/
open TdVerif.C13.Params in
/-- **params_exposes_leaves (registry)** — when the flattened names of the leaves are pairwise distinct,
`_reset_params` registers exactly the leaves: every leaf is found under its dotted name in `_parameters`
if it is an `nn.Parameter` and in `_buffers` otherwise, as the very same object; every registered entry
is such a leaf; no name is registered in both. -/
theorem reset_params_exact (leaves : List (Path × Tn)) (hnd : (leaves.map (fun e => flatName e.1)).Nodup) :
    (∀ p t, (p, t) ∈ leaves →
      Dict.get? (if t.isParam then (resetParams leaves).1 else (resetParams leaves).2) (flatName p) = some t) ∧
    (∀ n t, Dict.get? (resetParams leaves).1 n = some t → ∃ p, (p, t) ∈ leaves ∧ flatName p = n ∧ t.isParam = true) ∧
    (∀ n t, Dict.get? (resetParams leaves).2 n = some t → ∃ p, (p, t) ∈ leaves ∧ flatName p = n ∧ t.isParam = false) ∧
    (∀ n, Dict.get? (resetParams leaves).1 n = none ∨ Dict.get? (resetParams leaves).2 n = none) := by
  have hP : ∀ n, Dict.get? (resetParams leaves).1 n = lastWith leaves true n := by
    intro n; rw [resetParams_eq, fold_params]; cases lastWith leaves true n <;> simp [Dict.get?]
  have hB : ∀ n, Dict.get? (resetParams leaves).2 n = lastWith leaves false n := by
    intro n; rw [resetParams_eq, fold_buffers]; cases lastWith leaves false n <;> simp [Dict.get?]
  refine ⟨?_, ?_, ?_, ?_⟩
  · intro p t hm
    have := lastWith_of_mem leaves hnd p t hm
    cases ht : t.isParam
    · simp only [ht] at this; simp [hB, this]
    · simp only [ht] at this; simp [hP, this]
  · intro n t h; rw [hP] at h; exact lastWith_mem leaves true n t h
  · intro n t h; rw [hB] at h; exact lastWith_mem leaves false n t h
  · intro n
    rw [hP, hB]
    cases h1 : lastWith leaves true n with
    | none => left; rfl
    | some t1 =>
      cases h2 : lastWith leaves false n with
      | none => right; rfl
      | some t2 =>
        exfalso
        obtain ⟨p1, hm1, hn1, hk1⟩ := lastWith_mem leaves true n t1 h1
        obtain ⟨p2, hm2, hn2, hk2⟩ := lastWith_mem leaves false n t2 h2
        -- two leaves with the same flattened name: they are the same leaf
        have e1 := lastWith_of_mem leaves hnd p1 t1 hm1
        have e2 := lastWith_of_mem leaves hnd p2 t2 hm2
        rw [hn1, hk1] at e1; rw [hn2, hk2] at e2
        have : ∀ (l : List (Path × Tn)), (l.map (fun e => flatName e.1)).Nodup →
            ∀ a b : Path × Tn, a ∈ l → b ∈ l → flatName a.1 = flatName b.1 → a = b := by
          intro l hl a b ha hb hab
          induction l with
          | nil => simp at ha
          | cons x xs ih =>
            simp only [List.map_cons, List.nodup_cons] at hl
            rcases List.mem_cons.1 ha with rfl | ha' <;> rcases List.mem_cons.1 hb with rfl | hb'
            · rfl
            · exact absurd (List.mem_map.2 ⟨b, hb', hab.symm⟩) hl.1
            · exact absurd (List.mem_map.2 ⟨a, ha', hab⟩) hl.1
            · exact ih hl.2 ha' hb'
        have hsame := this leaves hnd (p1, t1) (p2, t2) hm1 hm2 (by simp [hn1, hn2])
        injection hsame with _ ht
        subst ht; rw [hk1] at hk2; cases hk2

open TdVerif.C13.Params in
/-- **params_exposes_leaves (sequences)** — after any sequence of operations (structural ones go through
`_unlock_and_set` / `update`, value-only ones through `_apply_on_data`, locking in between), the registry is
the one `_reset_params` computes from the current leaves; with `reset_params_exact`: exactly the leaves. -/
theorem params_exposes_leaves (s : TDP) (ops : List Op) (h : Exposed s) : Exposed (run s ops) := by
  induction ops generalizing s with
  | nil => exact h
  | cons op ops ih =>
    apply ih
    cases op with
    | mutate f =>
      simp only [step]
      by_cases hl : s.locked = true
      · simp only [hl, if_true]; exact h
      · simp only [hl]; rfl
    | valuesOnly => exact h
    | lock => exact h
    | unlock => exact h

open TdVerif.C13.Params in
/-- a leaf whose *name* contains a dot collides with a nested key: `{"a.b": X, "a": {"b": Y}}` (both
Parameters) registers one entry for two leaves — the reason for the distinct-names hypothesis. -/
theorem reset_params_collision_counterexample :
    (resetParams [(["a.b"], ⟨1, true, false⟩), (["a", "b"], ⟨2, true, false⟩)]).1 = [("a.b", ⟨2, true, false⟩)] := by
  simp [resetParams, flatName, Dict.set]


/-! ## `inplace=True`: values -/
open TdVerif.C13.Inplace in
/-- **inplace_restores_values** — `with params.to_module(module, inplace=True): …` when the visited
cells hold pairwise distinct tensor objects (no tensor tied under two visited names): after the exit
every tensor object that existed before the block has its value back (the module keeps its objects —
the registry is not touched — and the supplied tensors are unchanged too). -/
theorem inplace_restores_values (s : VS) (ws : List (Tn × Tn)) (hnd : (ws.map (·.1.id)).Nodup)
    (hlt : ∀ w ∈ ws, w.1.id < s.next ∧ w.2.id < s.next) :
    ∀ x, x < s.next → (roundTrip s ws).vals x = s.vals x := by
  intro x hx
  unfold roundTrip
  simp only
  have hlen : (inplaceAll s ws).2.length = (ws.map (·.1)).length := by simp [inplaceAll_length]
  have hmap1 : ((ws.map (·.1)).zip (inplaceAll s ws).2).map (·.1) = ws.map (·.1) := by
    rw [List.map_fst_zip]; omega
  have hids : (((ws.map (·.1)).zip (inplaceAll s ws).2).map (·.1.id)) = ws.map (·.1.id) := by
    have : (((ws.map (·.1)).zip (inplaceAll s ws).2).map (·.1.id))
        = (((ws.map (·.1)).zip (inplaceAll s ws).2).map (·.1)).map (·.id) := by simp
    rw [this, hmap1]; simp
  -- second pass: the clones are written back
  have hpass2 := inplaceAll_vals ((ws.map (·.1)).zip (inplaceAll s ws).2) (inplaceAll s ws).1
    (by rw [hids]; exact hnd)
    (by
      intro w hw
      obtain ⟨h1, h2⟩ := List.of_mem_zip hw
      obtain ⟨w0, hw0, he⟩ := List.mem_map.1 h1
      have := (hlt w0 hw0).1
      have hc := inplaceAll_clones_fresh ws s w.2 h2
      rw [inplaceAll_next] at hc ⊢
      rw [← he]; omega)
    (by
      intro w hw w' hw'
      have hc := (inplaceAll_clones_fresh ws s w.2 (List.of_mem_zip hw).2).1
      obtain ⟨w0, hw0, he⟩ := List.mem_map.1 (List.of_mem_zip hw').1
      have := (hlt w0 hw0).1
      rw [← he]; omega)
  by_cases hin : x ∈ ws.map (·.1.id)
  · -- a written object: it gets the value of its clone, which is its original value
    have : ∃ p ∈ (ws.map (·.1)).zip (inplaceAll s ws).2, p.1.id = x := by
      rw [← hids] at hin
      obtain ⟨p, hp, he⟩ := List.mem_map.1 hin
      exact ⟨p, hp, he⟩
    obtain ⟨p, hp, he⟩ := this
    rw [← he, hpass2.1 p hp, inplaceAll_clone_vals ws s hnd (fun w hw => (hlt w hw).1) p hp]
  · rw [hpass2.2 x (by rw [inplaceAll_next]; omega) (by rw [hids]; exact hin)]
    exact inplaceAll_untouched ws s x hx (fun w hw e => hin (List.mem_map.2 ⟨w, hw, e⟩))


open TdVerif.C13.Inplace in
/-- **inplace_tied_counterexample** — one tensor object (id 1, value 100) visited under two names, supplied
values 7 and 8: after the block it holds 7, not 100 (the second clone was taken from the already overwritten
tensor, and the exit replays the clones in the same order). The recorded finding `C13-inplace-tied-values`. -/
theorem inplace_tied_counterexample :
    (roundTrip ⟨fun i => if i = 1 then 100 else if i = 2 then 7 else if i = 3 then 8 else 0, 4⟩
      [(⟨1, true, false⟩, ⟨2, false, false⟩), (⟨1, true, false⟩, ⟨3, false, false⟩)]).vals 1 = 7 := by
  simp [roundTrip, inplaceAll, inplaceWrite]

open TdVerif.C13.Inplace in
example : (roundTrip ⟨fun i => if i = 1 then 100 else if i = 2 then 7 else 0, 3⟩ [(⟨1, true, false⟩, ⟨2, false, false⟩)]).vals 1 = 100 := by
  simp [roundTrip, inplaceAll, inplaceWrite]

end TdVerif.Props.C13
