/-
  C11 — in-memory serialisation round trips: the consolidated byte layout, the threaded writer,
  the decoder, and the pickle reducer under arbitrary histories of mutations.
  Models: Model/C11Consolidate.lean (hand, tied by correspondence), Gen/Dtypes.lean (regenerated).
-/
import TdVerif.Lemmas.C11Reduce
import TdVerif.Lemmas.C11Rebuild
import TdVerif.Lemmas.C11StateDict
import TdVerif.Lemmas.C11ToDict
import TdVerif.Gen.Dtypes
import TdVerif.Lemmas.C11Pytree
import TdVerif.Gen.C12Src
import TdVerif.Model.C11Pins

namespace TdVerif.Props.C11
open TdVerif.C11

/-! ## 1. layout -/

/-- slots chain: the first starts at 0, each starts where the previous stops, has length
    `n + pad` and `pad = padOf n < 16` — for every list of leaf sizes. -/
theorem layout_contiguous (ns : List Nat) :
    Chained 0 ns (layout ns) ∧ (layout ns).length = ns.length ∧ ∀ s ∈ layout ns, s.pad < 16 := by
  refine ⟨layoutFrom_chained 0 ns, layoutFrom_length 0 ns, ?_⟩
  have key : ∀ (ns : List Nat) (start : Nat), ∀ s ∈ layoutFrom start ns, s.pad < 16 := by
    intro ns
    induction ns with
    | nil => intro start s hs; simp [layoutFrom, layoutFromWith] at hs
    | cons n ns ih =>
      intro start s hs
      simp only [layoutFrom, layoutFromWith, List.mem_cons] at hs
      rcases hs with h | h
      · subst h; exact padOf_lt n
      · exact ih _ s (by simpa [layoutFrom] using h)
  exact key ns 0

/-- every slot starts at a multiple of 16 and has a length multiple of 16; hence for every element
    size dividing 16 (all entries of the regenerated dtype table, see `dtype_sizes_divide_16`) the
    dtype view of the slot taken by the decoder is legal. -/
theorem layout_aligned (ns : List Nat) (k : Nat) (hk : k ∣ 16) :
    ∀ s ∈ layout ns, s.start % 16 = 0 ∧ (s.stop - s.start) % 16 = 0
      ∧ s.start % k = 0 ∧ (s.stop - s.start) % k = 0 := by
  intro s hs
  obtain ⟨h1, h2, _⟩ := layoutFrom_aligned 0 (by rfl) ns s hs
  exact ⟨h1, h2, mod_of_dvd16 hk h1, mod_of_dvd16 hk h2⟩

/-- the padding of the pinned tree (multiples of 8) puts a 16-byte dtype at offset 8, where torch
    refuses the view: int32[1] followed by complex128[1] (replayed on the implementation). -/
theorem pinned_layout_counterexample :
    layoutPinned [4, 16] = [⟨0, 8, 4⟩, ⟨8, 24, 0⟩]
      ∧ decodeLeaf (List.replicate 24 0) ⟨"torch.complex128", 16, [1]⟩ ⟨8, 24, 0⟩ = none
      ∧ layout [4, 16] = [⟨0, 16, 12⟩, ⟨16, 32, 0⟩] := by
  decide

/-! ## 2. encode / decode -/

/-- decoding the concatenated padded bytes with the metadata of the leaves gives the leaves back:
    any number of leaves, any dtype mix whose element sizes divide 16, 0-size leaves included. -/
theorem decode_encode (ls : List Leaf) (h : ∀ l ∈ ls, l.WF ∧ l.Viewable) :
    decodeAll (encodeCat (ls.map (·.bytes))) (ls.map (·.lm)) (layout (ls.map (·.bytes.length))) = some ls := by
  have := decodeAll_encode ls [] h (by simp)
  simpa [layout] using this

/-- the threaded writer (`num_threads > 0`: one `assign` task per leaf, each copying its padded
    bytes into its own slot of an *uninitialised* storage) produces, for **every** execution order
    of the tasks and whatever the storage held before, the bytes of the `torch.cat` path. -/
theorem threaded_eq_cat (st : Bytes) (bs : List (List Nat)) (ts : List (Nat × List Nat))
    (hp : (tasksFrom 0 bs).Perm ts) :
    (runAssign st ts).toList (encodeCat bs).length = encodeCat bs := by
  rw [runAssign_perm st bs ts hp]
  apply toList_eq
  intro j hj
  rw [runAssign_seq]
  simp [hj]

/-! ## 3. the reducer under histories -/

/-- the snapshot is absent or still describes the tensordict -/
def SnapFresh (s : State) : Prop := ∀ sn, s.snap = some sn → describes sn s.td = true

/-- **pickle / deepcopy of any reachable state** (repaired `_reduce_td`): what is rebuilt equals the
    tensordict at the moment of the call — node metadata (batch size, names, lock state; device up
    to `None`≈cpu), keys, dtypes, shapes, bytes — for *every* state, fresh snapshot or not. -/
theorem reduce_roundtrip (s : State) : (reduceFixed s).norm = (observe s).norm := by
  unfold reduceFixed
  cases h : s.snap with
  | none => rfl
  | some sn =>
    simp only
    by_cases hd : describes sn s.td = true
    · simp only [hd, if_true]
      have := rebuild_of_describes sn s.td hd
      have e : (⟨s.td, some sn⟩ : State) = s := by cases s; simp_all
      rw [e] at this; exact this
    · simp [hd]

/-- hence for every history of mutations from every starting state -/
theorem reduce_roundtrip_history (s : State) (ops : List Op) :
    (reduceFixed (run s ops)).norm = (observe (run s ops)).norm := reduce_roundtrip _

/-! ### pickling / deep-copying / sending to another process *inside* a history -/

theorem slotEntries_obs (sn : Snap) : ∀ (leaves : List (List String × LeafMeta × Slot)) (i : Nat),
    (slotEntries i leaves).map (fun e => (e.key, (⟨e.lm, e.ref.bytes (some sn)⟩ : Leaf))) = sn.readAll i leaves := by
  intro leaves
  induction leaves with
  | nil => intro i; rfl
  | cons p ps ih =>
    intro i
    obtain ⟨k, m, sl⟩ := p
    simp only [slotEntries, Snap.readAll, List.map_cons, ih (i + 1)]
    rfl

theorem slotEntries_keys : ∀ (leaves : List (List String × LeafMeta × Slot)) (i : Nat),
    (slotEntries i leaves).map (fun e => (e.key, e.lm)) = leaves.map (fun p => (p.1, p.2.1)) := by
  intro leaves
  induction leaves with
  | nil => intro i; rfl
  | cons p ps ih => intro i; obtain ⟨k, m, sl⟩ := p; simp [slotEntries, ih (i + 1)]

theorem slotEntries_aligned : ∀ (leaves : List (List String × LeafMeta × Slot)) (i : Nat),
    refsAligned i (slotEntries i leaves) = true := by
  intro leaves
  induction leaves with
  | nil => intro i; rfl
  | cons p ps ih => intro i; obtain ⟨k, m, sl⟩ := p; simp [slotEntries, refsAligned, ih (i + 1)]

theorem leavesFirst_perm (es : List Entry) : (leavesFirst es).Perm es := by
  unfold leavesFirst
  exact List.filter_append_perm (fun e : Entry => decide (e.key.length ≤ 1)) es

/-- the tensordict a history goes on with after `pickle.loads(pickle.dumps(td))` / `copy.deepcopy(td)` / a trip to another
    process shows exactly what the reducer sends — same node metadata, the same leaves, the root's own leaves iterated first … -/
theorem reduce_op_observe (s : State) :
    (observe (step s .reduce)).nodes = (reduceFixed s).nodes
      ∧ ((observe (step s .reduce)).leaves).Perm (reduceFixed s).leaves := by
  have hown : observe (⟨⟨s.td.nodes, s.td.entries.map fun e => { e with ref := Ref.own (e.ref.bytes s.snap) }⟩, none⟩ : State) = observe s := by
    simp [observe, List.map_map, Function.comp_def, Ref.bytes]
  unfold reduceFixed
  cases hs : s.snap with
  | none =>
    simp only [step, hs]
    rw [hs] at hown
    rw [hown]
    exact ⟨by first | rfl | trivial, List.Perm.refl _⟩
  | some sn =>
    simp only [step, hs]
    by_cases hd : describes sn s.td = true
    · simp only [hd, if_true, observe, rebuildSnap]
      refine ⟨by first | rfl | trivial, ?_⟩
      rw [← slotEntries_obs sn sn.leaves 0]
      exact (leavesFirst_perm _).map _
    · simp only [hd, Bool.false_eq_true, if_false]
      rw [hs] at hown
      rw [hown]
      exact ⟨by first | rfl | trivial, List.Perm.refl _⟩

/-- … hence, for **every** state and every history before it, the content at the moment of the call (device up to `None`≈cpu;
    key order is not part of tensordict equality) … -/
theorem reduce_op_roundtrip (s : State) :
    (observe (step s .reduce)).norm.nodes = (observe s).norm.nodes
      ∧ ((observe (step s .reduce)).leaves).Perm (observe s).leaves := by
  obtain ⟨h1, h2⟩ := reduce_op_observe s
  have h3 := reduce_roundtrip s
  refine ⟨?_, ?_⟩
  · have := congrArg Obs.nodes h3
    simp only [Obs.norm] at this ⊢
    rw [h1]; exact this
  · have := congrArg Obs.leaves h3
    simp only [Obs.norm] at this
    rw [← this]; exact h2

/-- … and when the root's leaves already came first it is a well-formed starting point for the rest of the history: it arrives
    consolidated on a storage of its own and its snapshot is current, so further in-place writes, picklings and copies take
    the fast path again. -/
theorem reduce_op_fresh (s : State)
    (hord : ∀ sn, s.snap = some sn → leavesFirst (slotEntries 0 sn.leaves) = slotEntries 0 sn.leaves) :
    SnapFresh (step s .reduce) := by
  intro sn' hsn'
  cases hs : s.snap with
  | none => simp [step, hs] at hsn'
  | some sn =>
    simp only [step, hs] at hsn' ⊢
    by_cases hd : describes sn s.td = true
    · simp only [hd, if_true, Option.some.injEq] at hsn' ⊢
      subst hsn'
      rw [hord sn hs]
      have hd' := hd
      simp only [describes, Bool.and_eq_true, beq_iff_eq] at hd'
      obtain ⟨⟨⟨_, hk⟩, hl⟩, _⟩ := hd'
      have hn : (slotEntries 0 sn.leaves).map (fun e => e.lm.nbytes) = s.td.entries.map (fun e => e.lm.nbytes) := by
        have h1 := congrArg (List.map fun (p : List String × LeafMeta) => p.2.nbytes) (slotEntries_keys sn.leaves 0)
        have h2 := congrArg (List.map fun (p : List String × LeafMeta) => p.2.nbytes) hk
        simp only [List.map_map, Function.comp_def] at h1 h2
        rw [h1, h2]
      simp only [describes, Bool.and_eq_true, beq_iff_eq]
      exact ⟨⟨⟨trivial, (slotEntries_keys sn.leaves 0).symm⟩, by rw [hn]; exact hl⟩, slotEntries_aligned sn.leaves 0⟩
    · simp [hd] at hsn'

/-- when a sub-tensordict came before a leaf, the rebuilt tensordict iterates in another order than its own metadata were laid
    out in: it keeps the storage but is **not** judged current (its next pickling takes the slow path and drops the storage);
    the content is right all along. `{"n": {"x": …}, "a": …}`: consolidate, pickle, pickle. -/
theorem reduce_op_reorders_counterexample :
    let m : LeafMeta := ⟨"torch.uint8", 1, [2]⟩
    let s0 : State := ⟨⟨[([], ⟨[2], none, none, false, []⟩), (["n"], ⟨[2], none, none, false, []⟩)],
      [⟨["n", "x"], m, .own [1, 2]⟩, ⟨["a"], m, .own [3, 4]⟩]⟩, none⟩
    let c := step s0 (.consolidate false)
    let r1 := step c .reduce
    let r2 := step r1 .reduce
    SnapFresh c ∧ (∃ sn, r1.snap = some sn ∧ describes sn r1.td = false) ∧ r2.snap = none
      ∧ (observe r1).leaves = [(["a"], ⟨m, [3, 4]⟩), (["n", "x"], ⟨m, [1, 2]⟩)]
      ∧ (observe r2).leaves = (observe r1).leaves := by
  refine ⟨?_, ?_, ?_, ?_, ?_⟩
  · intro sn h
    simp only [step, Option.some.injEq] at h
    subst h
    decide
  · exact ⟨_, rfl, by decide⟩
  · decide
  · decide
  · decide

/-- the pinned reducer is right exactly as long as the snapshot is fresh -/
theorem reduce_roundtrip_pinned (s : State) (h : SnapFresh s) : (reducePinned s).norm = (observe s).norm := by
  unfold reducePinned
  cases hs : s.snap with
  | none => rfl
  | some sn =>
    have := rebuild_of_describes sn s.td (h sn hs)
    have e : (⟨s.td, some sn⟩ : State) = s := by cases s; simp_all
    rw [e] at this; exact this

/-- `consolidate()` of a not yet consolidated tensordict produces a fresh snapshot … -/
theorem consolidate_fresh (s : State) (file : Bool) (hs : s.snap = none) (hc : CpuOnly s.td) :
    SnapFresh (step s (.consolidate file)) := by
  intro sn hsn
  simp only [step, hs] at hsn ⊢
  simp only [Option.some.injEq] at hsn
  subst hsn
  have hlen : s.td.entries.length = (layout (s.td.entries.map fun e => e.lm.nbytes)).length := by
    simp [layout, layoutFrom_length]
  simp only [describes, Bool.and_eq_true, beq_iff_eq]
  refine ⟨⟨⟨?_, ?_⟩, ?_⟩, refsAligned_reindex _ 0⟩
  · cases file
    · rfl
    · simp only [if_true]
      exact (normNodes_cpu s.td.nodes hc).symm
  · rw [List.map_map, reindex_keys]
    exact zip_map_fst_of_length (fun e : Entry => (e.key, e.lm)) _ _ hlen
  · rw [List.map_map, reindex_nbytes]
    exact zip_map_snd_of_length _ _ hlen

/-- … and reproduces the content: same node metadata, same keys, dtypes, shapes and bytes
    (leaves well-formed, element sizes dividing 16). This is the consolidate round trip itself. -/
theorem consolidate_roundtrip (s : State) (hs : s.snap = none)
    (h : ∀ e ∈ s.td.entries, e.leaf.WF ∧ e.leaf.Viewable) :
    observe (step s (.consolidate false)) = observe s := by
  simp only [step, hs, observe, Bool.false_eq_true, if_false, Obs.mk.injEq, true_and]
  have hlen : s.td.entries.length = (layout (s.td.entries.map fun e => e.lm.nbytes)).length := by
    simp [layout, layoutFrom_length]
  let sn : Snap := ⟨s.td.nodes, (s.td.entries.zip (layout (s.td.entries.map fun e => e.lm.nbytes))).map
    (fun p => (p.1.key, p.1.lm, p.2)), encodeCat (s.td.entries.map fun e => e.ref.bytes none)⟩
  have h1 := readAll_eq_observe sn (reindex 0 s.td.entries) sn.leaves 0
    (by
      rw [reindex_keys]
      show ((s.td.entries.zip _).map _).map _ = _
      rw [List.map_map]
      exact zip_map_fst_of_length (fun e : Entry => (e.key, e.lm)) _ _ hlen)
    (refsAligned_reindex _ 0)
  have h2 := readAll_suffix sn sn.leaves 0 rfl
  have h3 := consolidate_reads_back s.td.entries h
  simp only at h3
  rw [← h1, h2]
  exact h3

/-- in-place writes keep the snapshot fresh (they go through the views into the storage) -/
theorem inplace_keeps_fresh (s : State) (key : List String) (bytes : List Nat) (h : SnapFresh s) :
    SnapFresh (step s (.setInplace key bytes)) := by
  intro sn' hsn'
  simp only [step] at hsn' ⊢
  cases hf : s.td.entries.find? (·.key == key) with
  | none => simp only [hf] at hsn' ⊢; exact h sn' hsn'
  | some e =>
    simp only [hf] at hsn' ⊢
    cases hr : e.ref with
    | own b =>
      -- a fresh snapshot has no `own` leaf: contradiction, or there is no snapshot
      simp only [hr] at hsn' ⊢
      cases hs : s.snap with
      | none => rw [hs] at hsn'; simp at hsn'
      | some sn =>
        exfalso
        have hd := h sn hs
        simp only [describes, Bool.and_eq_true] at hd
        have hal := hd.2
        have hmem := List.mem_of_find?_eq_some hf
        have : ∀ (es : List Entry) (i : Nat), refsAligned i es = true → ∀ x ∈ es, ∃ j, x.ref = .slot j := by
          intro es
          induction es with
          | nil => intro i _ x hx; simp at hx
          | cons a as ih =>
            intro i ha x hx
            simp only [refsAligned, Bool.and_eq_true, beq_iff_eq] at ha
            rcases List.mem_cons.1 hx with hx | hx
            · exact ⟨i, hx ▸ ha.1⟩
            · exact ih (i + 1) ha.2 x hx
        obtain ⟨j, hj⟩ := this _ 0 hal e hmem
        rw [hr] at hj; cases hj
    | slot i =>
      simp only [hr] at hsn' ⊢
      cases hs : s.snap with
      | none => rw [hs] at hsn'; simp at hsn'
      | some sn =>
        rw [hs] at hsn'
        simp only [Option.some.injEq] at hsn'
        subst hsn'
        have hd := h sn hs
        simp only [describes, Snap.writeSlot] at hd ⊢
        cases hl : sn.leaves[i]? with
        | none => simpa [hl] using hd
        | some p => obtain ⟨k, m, sl⟩ := p; simpa [hl] using hd

/-- structural mutations, lock changes and name changes do **not** keep it fresh, and the pinned
    reducer then returns the snapshot: concrete histories on a one-leaf tensordict
    (`consolidate; td["new"] = …`, `consolidate; td.lock_()`, `consolidate; td["a"] = other`),
    replayed on the implementation. The repaired reducer is right on the same histories. -/
theorem structural_keeps_fresh_counterexample :
    let m : LeafMeta := ⟨"torch.uint8", 1, [2]⟩
    let s0 : State := ⟨⟨[([], ⟨[2], none, none, false, []⟩)], [⟨["a"], m, .own [1, 2]⟩]⟩, none⟩
    let c := step s0 (.consolidate false)
    (reducePinned (step c (.set ["new"] m [7, 7]))).norm ≠ (observe (step c (.set ["new"] m [7, 7]))).norm
      ∧ (reducePinned (step c .lock)).norm ≠ (observe (step c .lock)).norm
      ∧ (reducePinned (step c (.set ["a"] m [9, 9]))).norm ≠ (observe (step c (.set ["a"] m [9, 9]))).norm
      ∧ (reducePinned (step c (.setNames (some ["t"])))).norm ≠ (observe (step c (.setNames (some ["t"])))).norm
      ∧ (reduceFixed (step c (.set ["a"] m [9, 9]))) = (observe (step c (.set ["a"] m [9, 9]))) := by
  decide

/-! ### freshness = every key is the view of ITS OWN slot -/

theorem refsAligned_iff : ∀ (es : List Entry) (i0 : Nat),
    refsAligned i0 es = true ↔ ∀ (j : Nat) (e : Entry), es[j]? = some e → e.ref = .slot (i0 + j) := by
  intro es
  induction es with
  | nil => intro i0; simp [refsAligned]
  | cons a as ih =>
    intro i0
    simp only [refsAligned, Bool.and_eq_true, beq_iff_eq, ih]
    constructor
    · rintro ⟨h0, h1⟩ j e he
      cases j with
      | zero => simp only [List.getElem?_cons_zero, Option.some.injEq] at he; subst he; simpa using h0
      | succ j =>
        simp only [List.getElem?_cons_succ] at he
        have := h1 j e he
        rw [this]; congr 1; omega
    · intro h
      refine ⟨by simpa using h 0 a (by simp), ?_⟩
      intro j e he
      have := h (j + 1) e (by simpa using he)
      rw [this]; congr 1; omega

/-- a snapshot that is current binds the `j`-th leaf (in iteration order) to the `j`-th slot of the
    storage, i.e. to the address `storage.data_ptr() + start_j` (`_consolidated_is_current`) … -/
theorem fresh_own_slot (sn : Snap) (td : TD) (h : describes sn td = true) (j : Nat) (e : Entry)
    (he : td.entries[j]? = some e) : e.ref = .slot j := by
  simp only [describes, Bool.and_eq_true] at h
  have := (refsAligned_iff td.entries 0).1 h.2 j e he
  simpa using this

/-- … so a tensordict one of whose leaves lives anywhere else — memory of its own, or **another slot of the
    same storage** — is never taken for current, whatever the metadata say. -/
theorem foreign_slot_is_stale (sn : Snap) (td : TD) (j : Nat) (e : Entry)
    (he : td.entries[j]? = some e) (hr : e.ref ≠ .slot j) : describes sn td = false := by
  cases h : describes sn td with
  | false => rfl
  | true => exact absurd (fresh_own_slot sn td h j e he) hr

theorem find_of_nodup : ∀ (es : List Entry) (i : Nat) (e : Entry), (es.map (·.key)).Nodup → es[i]? = some e →
    es.find? (·.key == e.key) = some e := by
  intro es
  induction es with
  | nil => intro i e _ h; simp at h
  | cons a as ih =>
    intro i e hn he
    simp only [List.map_cons, List.nodup_cons] at hn
    cases i with
    | zero =>
      simp only [List.getElem?_cons_zero, Option.some.injEq] at he
      subst he; simp
    | succ i =>
      simp only [List.getElem?_cons_succ] at he
      have hmem : e.key ∈ as.map (·.key) := List.mem_map.2 ⟨e, List.mem_of_getElem? he, rfl⟩
      have hne : (a.key == e.key) = false := by
        apply beq_false_of_ne
        intro h; exact hn.1 (h ▸ hmem)
      simp only [List.find?_cons, hne]
      exact ih i e hn.2 he

/-- **exchanging two entries after consolidation is detected**, for every tensordict (distinct keys), every
    fresh snapshot and every two different positions — also when the two entries have the same dtype and
    shape, where the metadata recomputed from the tensordict are identical to the snapshot's. -/
theorem swap_is_stale (s : State) (sn : Snap) (hs : s.snap = some sn) (hf : describes sn s.td = true)
    (hk : (s.td.entries.map (·.key)).Nodup) (i j : Nat) (e1 e2 : Entry) (hij : i ≠ j)
    (h1 : s.td.entries[i]? = some e1) (h2 : s.td.entries[j]? = some e2) :
    (step s (.swap e1.key e2.key)).snap = some sn
      ∧ describes sn (step s (.swap e1.key e2.key)).td = false := by
  have f1 := find_of_nodup _ i e1 hk h1
  have f2 := find_of_nodup _ j e2 hk h2
  simp only [step, f1, f2]
  refine ⟨hs, ?_⟩
  apply foreign_slot_is_stale sn _ i ⟨e1.key, e2.lm, e2.ref⟩
  · simp [List.getElem?_map, h1]
  · have := fresh_own_slot sn s.td hf j e2 h2
    simp only [this, ne_eq, Ref.slot.injEq]
    exact fun h => hij h.symm

/-- The seeded weakening "every leaf is *some* contiguous view of the storage" accepts the exchange of two
    same-shaped entries — and the snapshot then rebuilds them exchanged back. Two uint8 leaves `a`, `b`:
    `consolidate; td["a"], td["b"] = td["b"], td["a"]`; also by binding one key to the other's tensor. -/
theorem swap_needs_own_slot_counterexample :
    let m : LeafMeta := ⟨"torch.uint8", 1, [2]⟩
    let s0 : State := ⟨⟨[([], ⟨[2], none, none, false, []⟩)], [⟨["a"], m, .own [1, 2]⟩, ⟨["b"], m, .own [3, 4]⟩]⟩, none⟩
    let c := step s0 (.consolidate false)
    let w := step c (.swap ["a"] ["b"])
    let a := step c (.assign ["a"] ["b"])
    (∀ sn, w.snap = some sn → describesSomeSlot sn w.td = true ∧ describes sn w.td = false)
      ∧ (reducePinned w).norm ≠ (observe w).norm ∧ reduceFixed w = observe w
      ∧ (∀ sn, a.snap = some sn → describesSomeSlot sn a.td = true ∧ describes sn a.td = false)
      ∧ (reducePinned a).norm ≠ (observe a).norm ∧ reduceFixed a = observe a := by
  decide

/-- non-tensor entries live in the metadata of their node (`metadata["non_tensors"]`), not in the storage: setting, replacing or deleting
    one after consolidation leaves the storage alone, makes the snapshot obsolete (the node metadata differ), and the repaired
    reducer sends the tensordict as it is, non-tensor entries included — `reduce_roundtrip` covers them through the node metadata;
    the pinned reducer returned the snapshot's -/
theorem nontensor_after_consolidate_counterexample :
    let m : LeafMeta := ⟨"torch.uint8", 1, [2]⟩
    let s0 : State := ⟨⟨[([], ⟨[2], none, none, false, [("s", "hello")]⟩)], [⟨["a"], m, .own [1, 2]⟩]⟩, none⟩
    let c := step s0 (.consolidate false)
    let w := step c (.setNonTensor [] "s" "other")
    let n := step c (.setNonTensor [] "t" "new")
    let d := step c (.delNonTensor [] "s")
    SnapFresh c
      ∧ (∀ sn, w.snap = some sn → describes sn w.td = false ∧ sn.storage = [1, 2, 0, 0, 0, 0, 0, 0, 0, 0, 0, 0, 0, 0, 0, 0])
      ∧ (reducePinned w).norm ≠ (observe w).norm ∧ reduceFixed w = observe w
      ∧ reduceFixed n = observe n ∧ (reducePinned n).norm ≠ (observe n).norm
      ∧ reduceFixed d = observe d ∧ (observe d).nodes = [([], ⟨[2], none, none, false, []⟩)] := by
  refine ⟨?_, ?_, ?_, ?_, ?_, ?_, ?_, ?_⟩
  · intro sn h
    simp only [step, Option.some.injEq] at h
    subst h
    decide
  · intro sn h
    simp only [step, Option.some.injEq] at h
    subst h
    decide
  all_goals decide

/-- consolidation into a file puts the result on cpu while the metadata (hence the pickle and
    `from_consolidated`) keeps `device=None`: equality holds only up to `None`≈cpu. -/
theorem file_device_counterexample :
    let m : LeafMeta := ⟨"torch.uint8", 1, [2]⟩
    let s0 : State := ⟨⟨[([], ⟨[2], none, none, false, []⟩)], [⟨["a"], m, .own [1, 2]⟩]⟩, none⟩
    let c := step s0 (.consolidate true)
    reduceFixed c ≠ observe c ∧ (reduceFixed c).norm = (observe c).norm := by
  decide

/-! ## 3a. rebuilding from the metadata: jagged nested tensors and lazy stacks -/

/-- **any number of jagged nested tensors in one node, with or without `lengths`, in any order, between
    any plain leaves**: the loop of `_rebuild_tensordict_files_consolidated` re-assembles exactly the leaves
    that `_reduce_vals_and_metadata` flattened — each nested tensor with its own values, its own offsets
    and its own lengths (none when it had none) — whatever the loop variables held before. -/
theorem njt_rebuild_roundtrip {α} (items : List (Item α)) (nv nl : Option α) :
    rebuildLoop nv nl (flattenItems items) = some items := rebuildLoop_flatten items nv nl

/-- resetting `nested_lengths` at every `<NJT_VALUES>` is what makes this true: without it the lengths of
    a nested tensor leak into the next one that has none (replayed on the implementation) -/
theorem njt_no_reset_counterexample :
    rebuildLoopNoReset none none (flattenItems [Item.njt "a" 1 (some 2) 3, Item.njt "b" 4 none 5])
      = some [Item.njt "a" 1 (some 2) 3, Item.njt "b" 4 (some 2) 5] := by
  decide

/-- **a lazy stack of any length comes back in member order**: `from_dict` fetches `str(0), str(1), …`
    from the metadata dict, whatever the order of the dict (decimal notation is injective) -/
theorem lazy_members_roundtrip {α} (ms : List α) (d : List (String × α)) (h : d.Perm (lazyToDict ms)) :
    lazyFromDict d = some ms := by
  have hn := (keys_lazyToDictFrom_nodup ms 0).1
  have hlen : d.length = ms.length := by rw [h.length_eq]; exact length_lazyToDictFrom ms 0
  unfold lazyFromDict
  rw [hlen]
  apply fetchFrom_of_lookup
  intro j
  rw [lookup_perm _ d (lazyToDict ms) h ((h.map (·.1)).nodup_iff.2 hn)]
  exact lookup_lazyToDictFrom ms 0 j

/-- iterating over the *sorted* keys instead is wrong from 11 members on (`"10" < "2"`) and right below -/
theorem lazy_sorted_counterexample :
    lazyFromDictSorted (lazyToDict (List.range 11)) = [0, 1, 10, 2, 3, 4, 5, 6, 7, 8, 9]
      ∧ lazyFromDictSorted (lazyToDict (List.range 10)) = List.range 10 := by
  decide

/-! ## 3b. pytree -/

/-- `tree_unflatten(*tree_flatten(td))` rebuilds the same keys, nesting, batch sizes, names, devices and
    leaves for every nested tensordict — with every (sub-)tensordict **unlocked** (the context does not
    record the lock state): equality holds exactly for unlocked tensordicts. -/
theorem pytree_roundtrip (t : PT) :
    (unflatten (flatten t).2 (flatten t).1).map (·.1) = some (unlockAll t) := by
  have := unflatten_flatten t []
  simp only [List.append_nil] at this
  simp [this]

/-- the lock state is lost (known finding `C11-pytree-lock`, replayed by the check) -/
theorem pytree_lock_counterexample :
    let t := PT.node [2] none none true [("a", .leaf 0)]
    (unflatten (flatten t).2 (flatten t).1).map (·.1) = some (PT.node [2] none none false [("a", .leaf 0)]) := by
  simp [flatten, flattenKids, unflatten, unflattenKids]

/-! ## 3c. state_dict -/

/-- `dest.load_state_dict(td.state_dict())` with `dest = td.apply(zeros_like)` gives back `td` — keys in order, nesting,
    batch sizes, devices, values, at every depth — for every nested tensordict with distinct keys. (Names and lock
    state are the destination's own: the state dict records neither.) -/
theorem state_dict_roundtrip (t : PT) (h : NodupKeys t) : loadSD (stateDict t) (zerosLike t) = some t :=
  stateDict_roundtrip_aux t h

/-- what a state dict does not carry: loaded into a destination without names / unlocked, the result has no names /
    is unlocked; and a key set that differs is refused (`strict=True`) -/
theorem state_dict_names_lock_counterexample :
    let t := PT.node [2] (some ["t"]) none true [("a", .leaf 7)]
    loadSD (stateDict t) (PT.node [2] none none false [("a", .leaf 0)]) = some (PT.node [2] none none false [("a", .leaf 7)])
      ∧ loadSD (stateDict t) (PT.node [2] none none false [("b", .leaf 0)]) = none := by
  simp [stateDict, stateDictKids, loadSD, loadSDEntries, sameKeys, setKid]

/-! ## 3d. to_dict / from_dict -/

/-- `TensorDict.from_dict(td.to_dict(), batch_size=b, device=d, names=n)` gives back `td` (unlocked) for every nested
    tensordict **all of whose (sub-)tensordicts have batch size `b`, names `n` and device `d`** — the plain dict carries
    none of the three, `from_dict` applies the root's to every level. -/
theorem to_dict_roundtrip (b : List Nat) (n : Option (List String)) (d : Option String) (t : PT) (h : Uniform b n d t) :
    fromDict b n d (toDict t) = unlockAll t := fromDict_toDict b n d t h

/-- a sub-tensordict with more batch dims than its parent comes back with the parent's batch size
    (known finding `C11-to-dict-nested-batch`, re-derived by the check) -/
theorem to_dict_nested_batch_counterexample :
    let t := PT.node [3] none none false [("n", .node [3, 2] none none false [("x", .leaf 1)])]
    fromDict [3] none none (toDict t) = PT.node [3] none none false [("n", .node [3] none none false [("x", .leaf 1)])] := by
  simp [toDict, toDictKids, fromDict, fromDictKids]

/-- `from_namedtuple(td.to_namedtuple(), batch_size=b, device=d)` gives back `td` (unlocked) for every nested tensordict without
    dimension names all of whose (sub-)tensordicts have batch size `b` and device `d`; with names they are lost (the call has no
    `names` argument) -/
theorem namedtuple_roundtrip (b : List Nat) (d : Option String) (t : PT) (h : Uniform b none d t) :
    fromNamedtuple b d (toNamedtuple t) = unlockAll t := fromDict_toDict b none d t h

theorem namedtuple_names_counterexample :
    let t := PT.node [3] (some ["t"]) none false [("a", .leaf 1)]
    fromNamedtuple [3] none (toNamedtuple t) = PT.node [3] none none false [("a", .leaf 1)] := by
  simp [toNamedtuple, fromNamedtuple, toDict, toDictKids, fromDict, fromDictKids]

/-! ## 4. the dtype tables (regenerated from the source on every run) -/

/-- `_STRDTYPE2DTYPE[_DTYPE2STRDTYPE[d]] = d` for every dtype of the table … -/
theorem dtype_string_roundtrip :
    ∀ p ∈ Gen.dtype2str, Gen.str2dtype.lookup p.2 = some p.1 := by
  decide +kernel

/-- … and `_DTYPE2STRDTYPE[_STRDTYPE2DTYPE[name]] = name` (the encoding is a bijection) -/
theorem string_dtype_roundtrip :
    ∀ p ∈ Gen.str2dtype, Gen.dtype2str.lookup p.2 = some p.1 := by
  decide +kernel

/-- every dtype that can appear in the metadata has a positive element size dividing 16: the
    hypothesis `Viewable` of `decode_encode` holds for the whole table. -/
theorem dtype_sizes_divide_16 : ∀ d ∈ Gen.dtypes, 0 < d.2.2 ∧ 16 % d.2.2 = 0 := by
  decide +kernel

-- non-vacuity
example : (⟨⟨"torch.int32", 4, [3]⟩, [1, 0, 0, 0, 2, 0, 0, 0, 3, 0, 0, 0]⟩ : Leaf).WF := by
  simp [Leaf.WF, LeafMeta.nbytes, LeafMeta.numel]
example : layout [12, 0, 5] = [⟨0, 16, 4⟩, ⟨16, 16, 0⟩, ⟨16, 32, 11⟩] := by decide
example : SnapFresh ⟨⟨[([], ⟨[2], none, none, false, []⟩)], []⟩, none⟩ := by intro sn h; simp at h

/-- the functions the C11 models transcribe are, in the working tree, the ones they were transcribed from (AST hashes,
    docstrings removed; regenerated by harness/c12_pins.py on every run): an edit of a transcribed function breaks this
    obligation even when no sampled input behaves differently -/
theorem transcribed_sources_unchanged : Gen.c11Sources = TdVerif.C11.c11Pinned := by decide

end TdVerif.Props.C11
