/-
  C08 — a lazy stack equals the dense stack and is a write-through view of its members.

  Models: Model.C08Lazy (transcription of tensordict/_lazy.py, tied by the correspondence check),
  Model.C08Index / Model.C08Tensor (torch semantics as coordinate maps, validated against torch).
  `absL L` is the dense stack of the members; every theorem relates what the lazy code returns /
  does to its members with what the dense stack returns / becomes.  All statements are for
  arbitrary member counts, batch ranks and sizes, feature shapes, stack dims and indices.
-/
import TdVerif.Model.C08Lazy
import TdVerif.Lemmas.C08Basic
import TdVerif.Lemmas.C08Get
import TdVerif.Lemmas.C08Set
import TdVerif.Lemmas.C08ShapeOps
import TdVerif.Lemmas.C08Mask
import TdVerif.Lemmas.C08Perm
import TdVerif.Lemmas.C08Cat
import TdVerif.Lemmas.C08Stack
import TdVerif.Lemmas.C08Two
import TdVerif.Lemmas.C08Two2
import TdVerif.Lemmas.C08CatN
import TdVerif.Lemmas.C08Apply
import TdVerif.Lemmas.C08Reduce
import TdVerif.Lemmas.C08Resize
import TdVerif.Lemmas.C08Shape2
import TdVerif.Lemmas.C08Squeeze2
import TdVerif.Lemmas.C08View
import TdVerif.Lemmas.C08UpdateAt
import TdVerif.Lemmas.C08Mask2Span
import TdVerif.Lemmas.C08SetMask2
import TdVerif.Lemmas.C08SetMask2Span
import TdVerif.Lemmas.C08SetTensor
import TdVerif.Lemmas.C08Out
import TdVerif.Lemmas.C08Out2
import TdVerif.Lemmas.C08Out3
import TdVerif.Lemmas.C08Set2
import TdVerif.Lemmas.C08Set2Mask
import TdVerif.Lemmas.C08Set3
import TdVerif.Lemmas.C08Mask2Get

namespace TdVerif.Props.C08
open TdVerif.C08

/-! ## the stack and its members -/

/-- Selecting position `i` of the dense stack along the stack dim gives member `i`
(every key, every member count / rank / stack dim). -/
theorem select_at_sd_is_member [Inhabited α] (L : Lazy α) (b : Shape) (keys : List String)
    (feat : String → Shape) (hU : Uniform L b keys feat) (i : Nat) (hi : i < L.members.length)
    (k : String) (hk : k ∈ keys) :
    ((absL L).leaf k).select L.sd i ≈ₜ (L.members[i]).leaf k := by
  have := select_stack (L.members.map fun m => m.leaf k) (b ++ feat k) L.sd i
    (by
      intro t ht
      simp only [List.mem_map] at ht
      obtain ⟨m, hm, rfl⟩ := ht
      exact hU.hleaf m hm k hk)
    (by simp; have := hU.hsd; omega) (by simpa using hi)
  simp only [List.getElem_map] at this
  exact this

/-- `_unbind(stack_dim)` returns the member list itself (no copy): _lazy.py:1017. -/
theorem unbind_at_sd_is_members (L : Lazy α) :
    lazyUnbind L L.sd = L.members.map LRes.member := by
  simp [lazyUnbind]

/-- `_get_str` (stack on access) returns exactly the dense stack's entry. -/
theorem get_str_stacks [Inhabited α] (L : Lazy α) (k : String)
    (h : ∀ m ∈ L.members, k ∈ m.keys) :
    lazyGetStr L k = some ((absL L).leaf k) := by
  unfold lazyGetStr
  rw [if_pos]
  · rfl
  · simpa [List.all_eq_true] using h

/-- `_set_str` (unbind on write): the pieces land in the members at the corresponding
positions, and reading the key back through the stack gives the written value; other keys
are untouched. -/
theorem set_str_unbinds [Inhabited α] (L L' : Lazy α) (k : String) (v : T α)
    (h : lazySetStr L k v = some L') (hsd : L.sd < v.shape.length) (hne : L.members ≠ []) :
    L'.sd = L.sd ∧ L'.members.length = L.members.length ∧
    (∀ i (hi : i < L'.members.length), (L'.members[i]).leaf k = v.select L.sd i) ∧
    (absL L').leaf k ≈ₜ v ∧
    (∀ k', k' ≠ k → (absL L').leaf k' = (absL L).leaf k') := by
  unfold lazySetStr at h
  simp only [] at h
  split at h
  case isFalse => simp at h
  rename_i hlen
  simp only [Option.some.injEq] at h
  subst h
  have hul : (v.unbind L.sd).length = at0 v.shape L.sd := by simp [T.unbind, at0]
  have hpos : 0 < at0 v.shape L.sd := by
    rw [← hul, hlen]; exact List.length_pos_iff.mpr hne
  have hleafs : ((L.members.zip (v.unbind L.sd)).map fun p => (p.1.setStr k p.2).leaf k) = v.unbind L.sd := by
    apply List.ext_getElem
    · simp [hlen]
    · intro i h1 h2
      simp [TD.setStr]
  refine ⟨rfl, by simp [hlen], ?_, ?_, ?_⟩
  · intro i hi
    simp only [List.length_map, List.length_zip, hlen, Nat.min_self] at hi
    simp only [List.getElem_map, List.getElem_zip, TD.setStr, if_true]
    simp [T.unbind]
  · show T.stack (((L.members.zip (v.unbind L.sd)).map fun p => p.1.setStr k p.2).map fun m => m.leaf k) L.sd ≈ₜ v
    rw [List.map_map]
    show T.stack ((L.members.zip (v.unbind L.sd)).map fun p => (p.1.setStr k p.2).leaf k) L.sd ≈ₜ v
    rw [hleafs]
    exact stack_unbind v L.sd hsd hpos
  · intro k' hk'
    show T.stack (((L.members.zip (v.unbind L.sd)).map fun p => p.1.setStr k p.2).map fun m => m.leaf k') L.sd
      = T.stack (L.members.map fun m => m.leaf k') L.sd
    congr 1
    apply List.ext_getElem
    · simp [hlen]
    · intro i h1 h2
      simp [TD.setStr, hk']

/-- A write to a member (rebinding member `i` to `m'`, same batch / keys / shapes) is visible
through the stack at position `i` and nowhere else. -/
theorem member_write_visible [Inhabited α] (L : Lazy α) (b : Shape) (keys : List String)
    (feat : String → Shape) (hU : Uniform L b keys feat) (i : Nat) (m' : TD α)
    (hb : m'.batch = b) (hkeys : m'.keys = keys) (hl : ∀ k ∈ keys, (m'.leaf k).shape = b ++ feat k)
    (j : Nat) (hj : j < L.members.length) (k : String) (hk : k ∈ keys) :
    ((absL { L with members := L.members.set i m' }).leaf k).select L.sd j
      ≈ₜ (if j = i then m'.leaf k else (L.members[j]).leaf k) := by
  have hU' : Uniform { L with members := L.members.set i m' } b keys feat := by
    refine ⟨?_, ?_, ?_, hU.hsd⟩
    · intro m hm
      rcases List.mem_or_eq_of_mem_set hm with h | h
      · exact hU.hbatch m h
      · rw [h]; exact hb
    · intro m hm
      rcases List.mem_or_eq_of_mem_set hm with h | h
      · exact hU.hkeys m h
      · rw [h]; exact hkeys
    · intro m hm
      rcases List.mem_or_eq_of_mem_set hm with h | h
      · exact hU.hleaf m h
      · rw [h]; exact hl
  have := select_at_sd_is_member _ b keys feat hU' j (by simpa using hj) k hk
  simp only [List.getElem_set] at this
  by_cases hji : j = i
  · simpa [hji] using this
  · have hij : ¬ i = j := fun h => hji h.symm
    simpa [hji, hij] using this

/-! ## reads -/

/-- The counters of `_split_index` place the new stack dim where the dense result has the
dims produced by the stack-dim item: `stack_dim - num_single + num_none - num_squash` equals
the number of result dims produced by the items before the stack dim
(ints produce none, slices and masks one, None one, a rank-r integer tensor r). -/
theorem new_stack_dim_is_position (L : Lazy α) (ix : List Ix)
    (hp : Plain L.sd ix) (hne : ∀ it ∈ ix, it ≠ Ix.ell) (hadv : AtMostOneAdv ix)
    (st : SplitSt) (h : splitIndex L ix = some st) :
    (L.sd : Int) - st.numSingle + st.numNone - st.numSquash = (splitRec L.sd ix).pos
    ∧ st.out = (splitRec L.sd ix).out ∧ st.hasBool = false := by
  have hB := splitLoop_before L.sd L.members.length L.batch ix L.sd 0 {} (by simp) hp hne
    (by simpa [AtMostOneAdv] using hadv) rfl rfl rfl rfl
  unfold splitIndex at h
  cases hsel : selOf L.members.length (splitRec L.sd ix).item with
  | none => simp [hB.1 hsel] at h
  | some p =>
    obtain ⟨sel, ii, nd⟩ := p
    obtain ⟨st', hloop, hspec⟩ := hB.2 sel ii nd hsel
    simp only [hloop, Option.bind_some, hspec.hasBool, Bool.false_eq_true, if_false,
      Option.some.injEq] at h
    subst h
    refine ⟨?_, by simpa using hspec.out, hspec.hasBool⟩
    have := hspec.q; simp [Q] at this; omega

/-- **Reads, stage 1** (ints, slices, None; Ellipsis already expanded): for all ranks, member
counts, feature shapes and stack dims, whatever `lazy[ix]` returns — a member, or a lazy stack
with the computed new stack dim — materialises to exactly `dense[ix]` (batch size, keys and
every value), or one of the two raises. -/
theorem getitem_refines_stage1 [Inhabited α] (L : Lazy α) (b : Shape) (keys : List String)
    (feat : String → Shape) (hU : Uniform L b keys feat) (ix : List Ix)
    (hbasic : ∀ it ∈ ix, it.isAdv = false ∧ it ≠ Ix.ell)
    (r : LRes α) (hr : lazyGetCore L ix = some r)
    (d : TD α) (hd : (absL L).index ix = some d) : absR r ≈ d := by
  have hp : ∀ (ix : List Ix) (sd : Nat), (∀ it ∈ ix, it.isAdv = false ∧ it ≠ Ix.ell) → Plain sd ix := by
    intro ix
    induction ix with
    | nil => intro sd _; trivial
    | cons a r ih =>
      intro sd h
      have ha := h a (by simp)
      have hr := fun sd' => ih sd' (fun x hx => h x (by simp [hx]))
      cases a with
      | none => exact hr sd
      | ell => exact absurd rfl ha.2
      | mask m => simp [Ix.isAdv] at ha
      | int k => cases sd <;> simp [Plain, hr _]
      | slice x y z => cases sd <;> simp [Plain, hr _]
      | tens t => simp [Ix.isAdv] at ha
  exact getitem_refines_core L b keys feat hU ix (hp ix L.sd hbasic) (fun it h => (hbasic it h).2)
    (by
      unfold AtMostOneAdv
      have : ix.countP Ix.isAdv = 0 := by
        simpa [List.countP_eq_zero] using fun it h => (hbasic it h).1
      omega)
    r hr d hd

/-- **Reads, stage 2**: stage 1 plus at most one advanced item — a list / range / integer
tensor of rank 1–2 before, *on* or after the stack dim, or a boolean mask lying entirely before
or after the stack dim (`Plain`).  On the stack dim a rank-1 tensor gives a lazy stack of the
picked members, a rank-2 tensor a lazy stack of lazy stacks. -/
theorem getitem_refines_stage2 [Inhabited α] (L : Lazy α) (b : Shape) (keys : List String)
    (feat : String → Shape) (hU : Uniform L b keys feat) (ix : List Ix)
    (hp : Plain L.sd ix) (hne : ∀ it ∈ ix, it ≠ Ix.ell) (hadv : AtMostOneAdv ix)
    (r : LRes α) (hr : lazyGetCore L ix = some r)
    (d : TD α) (hd : (absL L).index ix = some d) : absR r ≈ d :=
  getitem_refines_core L b keys feat hU ix hp hne hadv r hr d hd

/-- **Reads, stage 3 (rank-1 mask on the stack dim)**: `lazy[…, mask, …]` with a rank-1 boolean
mask addressed to the stack dim returns the lazy stack — at `mask_loc - num_single` — of the
members the mask keeps, each indexed by the remaining items; it materialises to `dense[ix]`.
A mask that keeps nothing gives an empty lazy stack with the dense batch size (`ReadOK`). -/
theorem getitem_refines_stage3_mask1 [Inhabited α] (L : Lazy α) (b : Shape) (keys : List String)
    (feat : String → Shape) (hU : Uniform L b keys feat) (hne0 : L.members ≠ []) (ix : List Ix)
    (hp : PlainM L.sd ix) (hne : ∀ it ∈ ix, it ≠ Ix.ell) (hadv : AtMostOneAdv ix)
    (m : T Bool) (hitem : (splitRec L.sd ix).item = some (.mask m))
    (r : LRes α) (hr : lazyGetCore L ix = some r)
    (d : TD α) (hd : (absL L).index ix = some d) : ReadOK r d :=
  getitem_refines_mask1 L b keys feat hU hne0 ix hp hne hadv m hitem r hr d hd

/-- **Reads, stage 5: a rank-2 mask SPANNING the stack dim** (`lazy[pre…, mask2d, post…]`, the mask
covering the dim just before the stack dim and the stack dim; ints / slices / None around it).
`__getitem__` reads, for every position `i` of the dim the mask starts at, the lazy stack
`self[(:,)*mask_dim + (i,)]` (its stack dim one to the left) indexed with row `i` of the mask — a
rank-1 mask on ITS stack dim, stage 3 — and concatenates the results along
`mask_loc - num_single` (`_lazy_cat` along the stack dim: the kept members, row after row).  This
materialises to `dense[ix]`.  (`hsome`: the mask keeps something; a mask that keeps nothing returns
an empty stack, which only has a batch size.) -/
theorem getitem_refines_stage5_mask2_spanning [Inhabited α] (L : Lazy α) (b : Shape) (keys : List String)
    (feat : String → Shape) (hU : Uniform L b keys feat) (hne0 : L.members ≠ []) (pre post : List Ix) (m : T Bool)
    (hpre : BasicPre pre) (hpd : preDims pre + 1 = L.sd) (hpost : Basic post)
    (hm : m.shape = [at0 b (preDims pre), L.members.length]) (hsome : 0 < (nonzero m).length)
    (r : LRes α) (hr : lazyGetCoreM L (pre ++ .mask m :: post) = some r)
    (d : TD α) (hd : (absL L).index (pre ++ .mask m :: post) = some d) :
    absR r ≈ d :=
  getitem_refines_mask2_span L b keys feat hU hne0 pre post m hpre hpd hpost hm hsome r hr d hd

/-- **Stage 5, a spanning mask that keeps nothing**: the result is an empty stack whose batch size is
the dense one (an empty lazy stack has no members to read keys from: only the batch size compares). -/
theorem getitem_stage5_mask2_spanning_none [Inhabited α] (L : Lazy α) (b : Shape) (keys : List String)
    (feat : String → Shape) (hU : Uniform L b keys feat) (hne0 : L.members ≠ []) (pre post : List Ix) (m : T Bool)
    (hpre : BasicPre pre) (hpd : preDims pre + 1 = L.sd) (hpost : Basic post)
    (hm : m.shape = [at0 b (preDims pre), L.members.length]) (hnone : (nonzero m).length = 0)
    (r : LRes α) (hr : lazyGetCoreM L (pre ++ .mask m :: post) = some r)
    (d : TD α) (hd : (absL L).index (pre ++ .mask m :: post) = some d) :
    r = .empty d.batch :=
  getitem_mask2_span_none L b keys feat hU hne0 pre post m hpre hpd hpost hm hnone r hr d hd

/-- **The index spec never reads out of bounds**: whenever the torch index spec accepts an index
(`idxShape ix sh = some s`: ints in range, slices with a positive step, None, integer tensors with
valid entries, boolean masks of the right shape), every in-bounds coordinate of the result is read
from an in-bounds coordinate of the indexed tensor.  (Consequence `idxT_congr`: indexing respects
equality on the meaningful part — used to compose reads.) -/
theorem index_spec_in_bounds (ix : List Ix) (sh s : Shape) (c : List Nat) (h : idxShape ix sh = some s)
    (hc : InB c s) : InB (idxCoord ix sh c) sh :=
  idxCoord_inB ix sh s c h hc

/-- **Reads, every proved stage, with Ellipsis.**  `lazy[index]` and `dense[index]` expand
Ellipsis identically (`convert_ellipsis_to_idx` on the batch size); then for every index of the
property's grammar — ints, slices, None, Ellipsis and at most one list / range / integer tensor
of rank 1–2 (before, on or after the stack dim) or boolean mask (before or after the stack dim,
or rank-1 on it) — what the lazy stack returns materialises to what the dense stack returns, or
one of them raises.  (A mask of rank 2 that starts on / spans the stack dim: stages 4 and 5 below,
`getitem_refines_rank2_masks` for the entry point.) -/
theorem getitem_refines [Inhabited α] (L : Lazy α) (b : Shape) (keys : List String)
    (feat : String → Shape) (hU : Uniform L b keys feat) (hne0 : L.members ≠ []) (ix : List Ix)
    (hadv : AtMostOneAdv ix)
    (hp : ∀ ix', convertEllipsis ix L.batch.length = some ix' → PlainM L.sd ix')
    (r : LRes α) (hr : lazyGet L ix = some r)
    (d : TD α) (hd : (absL L).getitem ix = some d) : ReadOK r d :=
  getitem_refines_all L b keys feat hU hne0 ix hadv hp r hr d hd

/-- **Reads, stage 4: a rank-2 mask ON the stack dim** — `lazy[pre…, mask2d, post…]` where `pre`
(ints, slices, None) consumes exactly the dims before the stack dim and `mask2d` covers the stack
dim and the next dim (`has_bool` with `mask_unbind[0].ndim > 0`, `mask_dim == stack_dim`): for every
position `i` of the stack dim, member `i` is indexed with row `i` of the mask (`self[(:,)*stack_dim
+ (i,)][_idx]`), and the results are concatenated along `mask_loc - num_single`; the dense
tensordict this builds is `dense[index]` — the true positions of the mask are visited row by row. -/
theorem getitem_refines_stage4_mask2 [Inhabited α] (L : Lazy α) (b : Shape) (keys : List String)
    (feat : String → Shape) (hU : Uniform L b keys feat) (hne0 : L.members ≠ []) (pre post : List Ix)
    (m : T Bool) (w : Nat)
    (hpre : BasicPre pre) (hpd : preDims pre = L.sd) (hpost : ∀ it ∈ post, it ≠ Ix.ell)
    (hm : m.shape = [L.members.length, w])
    (r : LRes α) (hr : lazyGetCoreM L (pre ++ .mask m :: post) = some r)
    (d : TD α) (hd : (absL L).index (pre ++ .mask m :: post) = some d) :
    absR r ≈ d :=
  getitem_refines_mask2_on L b keys feat hU hne0 pre post m w hpre hpd hpost hm r hr d hd

/-- **Reads with a rank-2 mask on / spanning the stack dim, through the real entry point**
`lazy[index]` (`lazyGetM` = `convert_ellipsis_to_idx` + `__getitem__`, Ellipsis allowed): when the
expanded index is `pre ++ [mask2d] ++ post` with the mask starting ON the stack dim (stage 4) or one
dim BEFORE it (stage 5, the mask keeping something), the result materialises to `dense[index]`. -/
theorem getitem_refines_rank2_masks [Inhabited α] (L : Lazy α) (b : Shape) (keys : List String)
    (feat : String → Shape) (hU : Uniform L b keys feat) (hne0 : L.members ≠ []) (ix0 pre post : List Ix)
    (m : T Bool) (hix : convertEllipsis ix0 L.batch.length = some (pre ++ .mask m :: post))
    (hpre : BasicPre pre) (hpost : Basic post)
    (hcase : (preDims pre = L.sd ∧ ∃ w, m.shape = [L.members.length, w]) ∨
      (preDims pre + 1 = L.sd ∧ m.shape = [at0 b (preDims pre), L.members.length] ∧ 0 < (nonzero m).length))
    (r : LRes α) (hr : lazyGetM L ix0 = some r)
    (d : TD α) (hd : (absL L).getitem ix0 = some d) : absR r ≈ d := by
  unfold lazyGetM at hr
  rw [hix] at hr
  simp only [Option.bind_some] at hr
  unfold TD.getitem at hd
  have hbl : (absL L).batch.length = L.batch.length := rfl
  rw [hbl, hix] at hd
  simp only [Option.bind_some] at hd
  rcases hcase with ⟨hpd, w, hm⟩ | ⟨hpd, hm, hsome⟩
  · exact getitem_refines_stage4_mask2 L b keys feat hU hne0 pre post m w hpre hpd (fun it h => (hpost it h).2) hm r hr d hd
  · exact getitem_refines_stage5_mask2_spanning L b keys feat hU hne0 pre post m hpre hpd hpost hm hsome r hr d hd

/-! ## writes by index -/

/-- **Writes through the stack land in the members** (`lazy[ix] = v`, tensordict value of the
indexed batch size; ints, slices, None around an absent / int / slice / rank-1 integer-tensor
item on the stack dim, other advanced items before/after it allowed when they have no duplicate
targets).  `IsSetT ix t v t'` is torch's `t[ix] = v`: every value coordinate lands where the
index sends it (hit) and nothing else changes (frame).  The statement is about the dense stack
of the members *after* the lazy write, i.e. the members hold the data. -/
theorem setitem_write_through [Inhabited α] (L : Lazy α) (b : Shape) (keys : List String)
    (feat : String → Shape) (hU : Uniform L b keys feat) (hne0 : L.members ≠ []) (ix : List Ix)
    (hp : Plain L.sd ix) (hne : ∀ it ∈ ix, it ≠ Ix.ell) (hadv : AtMostOneAdv ix)
    (hnd : NoDupTargets (splitRec L.sd ix).out)
    (hdist : ∀ t, (splitRec L.sd ix).item = some (.tens t) → ∃ k, t.shape = [k] ∧
      ∀ j j', j < k → j' < k →
        normInt (t.get [j]) L.members.length = normInt (t.get [j']) L.members.length → j = j')
    (v : TD α) (hvk : v.keys = keys) (hvl : ∀ k ∈ keys, (v.leaf k).shape = v.batch ++ feat k)
    (bd : Shape) (hbd : idxShape ix (absL L).batch = some bd)
    (L' : Lazy α) (h : lazySetCore L ix v = some L') :
    L'.sd = L.sd ∧ Uniform L' b keys feat ∧ L'.members.length = L.members.length ∧
    ∀ k ∈ keys, IsSetT ix ((absL L).leaf k) (v.leaf k) ((absL L').leaf k) :=
  setitem_refines_core L b keys feat hU hne0 ix hp hne hadv hnd hdist v hvk hvl bd hbd L' h

/-- **`lazy.update_at_(v, index)`** (its own transcription `lazyUpdateAt`: `_split_index`, then the
member-wise `update_at_` of the unbound pieces, or the key-by-key `set_at_` path for a mask / an
integer tensor on the stack dim): for a value of the indexed batch size it performs exactly the
writes of `lazy[index] = v`, hence the dense stack of the members afterwards is `IsSetT` of the one
before (the statement of `setitem_write_through`, Ellipsis expanded by `_split_index`). -/
theorem update_at_write_through [Inhabited α] (L : Lazy α) (b : Shape) (keys : List String)
    (feat : String → Shape) (hU : Uniform L b keys feat) (hne0 : L.members ≠ []) (ix0 ix : List Ix)
    (hix : convertEllipsis ix0 L.batch.length = some ix)
    (hp : Plain L.sd ix) (hne : ∀ it ∈ ix, it ≠ Ix.ell) (hadv : AtMostOneAdv ix)
    (hnd : NoDupTargets (splitRec L.sd ix).out)
    (hdist : ∀ t, (splitRec L.sd ix).item = some (.tens t) → ∃ k, t.shape = [k] ∧
      ∀ j j', j < k → j' < k →
        normInt (t.get [j]) L.members.length = normInt (t.get [j']) L.members.length → j = j')
    (v : TD α) (hvk : v.keys = keys) (hvl : ∀ k ∈ keys, (v.leaf k).shape = v.batch ++ feat k)
    (hbd : idxShape ix (absL L).batch = some v.batch)
    (L' : Lazy α) (h : lazyUpdateAt L ix0 v = some L') :
    L'.sd = L.sd ∧ Uniform L' b keys feat ∧ L'.members.length = L.members.length ∧
    ∀ k ∈ keys, IsSetT ix ((absL L).leaf k) (v.leaf k) ((absL L').leaf k) :=
  setitem_refines_core L b keys feat hU hne0 ix hp hne hadv hnd hdist v hvk hvl v.batch hbd L'
    (lazyUpdateAt_eq_set L ix0 ix v hix hbd (plain_noBool L ix hp hne hadv) L' h)

/-- **Writes with a rank-1 boolean mask on the stack dim** (`lazy[…, mask, …] = v`): the members
the mask keeps receive, in order, the successive slices of the value along
`split_dim = mask_loc - num_single` — `IsSetT` of the dense stack, as in `setitem_write_through`.
(`split_dim` is the expression repaired by the fix commit "None items before a mask".) -/
theorem setitem_write_through_mask1 [Inhabited α] (L : Lazy α) (b : Shape) (keys : List String)
    (feat : String → Shape) (hU : Uniform L b keys feat) (hne0 : L.members ≠ []) (ix : List Ix)
    (hp : PlainM L.sd ix) (hne : ∀ it ∈ ix, it ≠ Ix.ell) (hadv : AtMostOneAdv ix)
    (m : T Bool) (hitem : (splitRec L.sd ix).item = some (.mask m))
    (hnd : NoDupTargets (splitRec L.sd ix).out)
    (v : TD α) (hvk : v.keys = keys) (hvl : ∀ k ∈ keys, (v.leaf k).shape = v.batch ++ feat k)
    (bd : Shape) (hbd : idxShape ix (absL L).batch = some bd)
    (L' : Lazy α) (h : lazySetCore L ix v = some L') :
    L'.sd = L.sd ∧ Uniform L' b keys feat ∧ L'.members.length = L.members.length ∧
    ∀ k ∈ keys, IsSetT ix ((absL L).leaf k) (v.leaf k) ((absL L').leaf k) :=
  setitem_refines_mask1 L b keys feat hU hne0 ix hp hne hadv m hitem hnd v hvk hvl bd hbd L' h

/-- **`lazy[index] = tensor_or_number`** (`__setitem__` with a value that is not a tensordict; the
branch repaired by "lazy[idx] = tensor / number did not broadcast"): for every entry `k` the value
is brought to the indexed shape of that entry (`bcastValue`: extra leading singleton dims dropped,
then torch's `expand`) and written through `set_at_`; the dense stack of the members afterwards is
`IsSetT index (dense before) (the broadcast value)` for every entry. -/
theorem setitem_tensor_write_through [Inhabited α] (L : Lazy α) (b : Shape) (keys : List String)
    (feat : String → Shape) (hU : Uniform L b keys feat) (hne0 : L.members ≠ []) (ix0 ix : List Ix)
    (hix : convertEllipsis ix0 L.batch.length = some ix)
    (hp : Plain L.sd ix) (hne : ∀ it ∈ ix, it ≠ Ix.ell) (hadv : AtMostOneAdv ix)
    (hnd : NoDupTargets (splitRec L.sd ix).out)
    (hdist : ∀ t, (splitRec L.sd ix).item = some (.tens t) → ∃ k, t.shape = [k] ∧
      ∀ j j', j < k → j' < k →
        normInt (t.get [j]) L.members.length = normInt (t.get [j']) L.members.length → j = j')
    (t : T α) (L' : Lazy α) (h : lazySetTensor L keys feat ix0 t = some L') :
    ∃ ibs, idxShape ix (absL L).batch = some ibs ∧
      L'.sd = L.sd ∧ Uniform L' b keys feat ∧ L'.members.length = L.members.length ∧
      ∀ k ∈ keys, ∃ x, bcastValue t (ibs ++ feat k) = some x ∧ x.shape = ibs ++ feat k ∧
        IsSetT ix ((absL L).leaf k) x ((absL L').leaf k) :=
  setitem_tensor_refines L b keys feat hU hne0 ix0 ix hix hp hne hadv hnd hdist t L' h

/-- **Writes with a rank-2 mask on the stack dim** (`lazy[pre…, mask2d, post…] = v`, the mask covering
the stack dim and the next one; ints / slices / None around it): the value is split along
`split_dim = mask_loc - num_single` by the number of True entries of every row, and member `i` is
written through row `i` of the mask with its piece (`self[(:,)*stack_dim + (i,)][_idx] = value_i`).
The dense stack of the members afterwards is `IsSetT` of the dense stack before — hit and frame,
as in `setitem_write_through`. -/
theorem setitem_write_through_mask2 [Inhabited α] (L : Lazy α) (b : Shape) (keys : List String)
    (feat : String → Shape) (hU : Uniform L b keys feat) (hne0 : L.members ≠ []) (pre post : List Ix)
    (m : T Bool) (w : Nat)
    (hpre : BasicPre pre) (hpd : preDims pre = L.sd) (hpost : Basic post)
    (hsdlt : L.sd < b.length) (hm : m.shape = [L.members.length, w])
    (v : TD α) (hvk : v.keys = keys) (hvl : ∀ k ∈ keys, (v.leaf k).shape = v.batch ++ feat k)
    (hbd : idxShape (pre ++ .mask m :: post) (absL L).batch = some v.batch)
    (L' : Lazy α) (h : lazySetCoreM L (pre ++ .mask m :: post) v = some L') :
    L'.sd = L.sd ∧ Uniform L' b keys feat ∧ L'.members.length = L.members.length ∧
    ∀ k ∈ keys, IsSetT (pre ++ .mask m :: post) ((absL L).leaf k) (v.leaf k) ((absL L').leaf k) :=
  setitem_refines_mask2_on L b keys feat hU hne0 pre post m w hpre hpd (fun it h => (hpost it h).2) hsdlt hm
    (fun i => noDupTargets_pre_mask1 pre post (m.select 0 i) hpre hpost (by simp [T.select, hm]))
    v hvk hvl hbd L' h

/-- **Writes with a rank-2 mask spanning the stack dim** (`lazy[pre…, mask2d, post…] = v`, the mask
covering the dim just before the stack dim and the stack dim): `__setitem__` writes row `i` of the
value into `self[(:,)*mask_dim + (i,)]` — the lazy stack of the members' VIEWS at `i` — through
row `i` of the mask; in terms of the members: for every kept position `(i, j)` member `j` receives,
at the index with the mask replaced by the integer `i`, the matching position of the value
(split along `mask_loc - num_single`, row after row).  The dense stack of the members afterwards
is `IsSetT` of the dense stack before (hit + frame; a member is written once per row that keeps it,
at pairwise disjoint places). -/
theorem setitem_write_through_mask2_spanning [Inhabited α] (L : Lazy α) (b : Shape) (keys : List String)
    (feat : String → Shape) (hU : Uniform L b keys feat) (hne0 : L.members ≠ []) (pre post : List Ix) (m : T Bool)
    (hpre : BasicPre pre) (hpd : preDims pre + 1 = L.sd) (hpost : Basic post)
    (hm : m.shape = [at0 b (preDims pre), L.members.length])
    (v : TD α) (hvk : v.keys = keys) (hvl : ∀ k ∈ keys, (v.leaf k).shape = v.batch ++ feat k)
    (hbd : idxShape (pre ++ .mask m :: post) (absL L).batch = some v.batch)
    (L' : Lazy α) (h : lazySetCoreM L (pre ++ .mask m :: post) v = some L') :
    L'.sd = L.sd ∧ Uniform L' b keys feat ∧ L'.members.length = L.members.length ∧
    ∀ k ∈ keys, IsSetT (pre ++ .mask m :: post) ((absL L).leaf k) (v.leaf k) ((absL L').leaf k) :=
  setitem_refines_mask2_span L b keys feat hU hne0 pre post m hpre hpd hpost hm v hvk hvl hbd L' h

/-- **Writes, stage 1** against the executable dense spec: for a basic index (ints, slices,
None) the dense stack of the members after `lazy[ix] = v` IS `dense[ix] = v` (batch size, keys,
every value), whenever both accept. -/
theorem setitem_refines_stage1 [Inhabited α] (L : Lazy α) (b : Shape) (keys : List String)
    (feat : String → Shape) (hU : Uniform L b keys feat) (hne0 : L.members ≠ []) (ix : List Ix)
    (hbasic : Basic ix)
    (v : TD α) (hvk : v.keys = keys) (hvl : ∀ k ∈ keys, (v.leaf k).shape = v.batch ++ feat k)
    (L' : Lazy α) (h : lazySetCore L ix v = some L')
    (d : TD α) (hd : (absL L).setitem ix v = some d) : absL L' ≈ d := by
  obtain ⟨bd, hbd, hvb, _, hdb, hdk, hdl⟩ := TD.setitem_some _ _ _ _ hd
  have hp : ∀ (ix : List Ix) (sd : Nat), Basic ix → Plain sd ix := by
    intro ix
    induction ix with
    | nil => intro sd _; trivial
    | cons a r ih =>
      intro sd h
      have ha := h a (by simp)
      have hr := fun sd' => ih sd' (fun x hx => h x (by simp [hx]))
      cases a with
      | none => exact hr sd
      | ell => exact absurd rfl ha.2
      | mask m => simp [Ix.isAdv] at ha
      | int k => cases sd <;> simp [Plain, hr _]
      | slice x y z => cases sd <;> simp [Plain, hr _]
      | tens t => simp [Ix.isAdv] at ha
  have hcount : ix.countP Ix.isAdv = 0 := by
    simpa [List.countP_eq_zero] using fun it h => (hbasic it h).1
  have hadv : AtMostOneAdv ix := by unfold AtMostOneAdv; omega
  -- the member index of a basic index is basic
  have hout : Basic (splitRec L.sd ix).out := by
    have hc := countP_split ix L.sd
    intro it hit
    have hmem : ∀ (ix : List Ix) (sd : Nat) (it : Ix), it ∈ (splitRec sd ix).out → it ∈ ix := by
      intro ix
      induction ix with
      | nil => intro sd it h; simp [splitRec] at h
      | cons a r ih =>
        intro sd it h
        cases a with
        | none =>
          simp only [splitRec, List.mem_cons] at h
          rcases h with h | h
          · simp [h]
          · exact List.mem_cons_of_mem _ (ih sd it h)
        | int k =>
          cases sd with
          | zero => simp only [splitRec] at h; exact List.mem_cons_of_mem _ h
          | succ sd =>
            simp only [splitRec, List.mem_cons] at h
            rcases h with h | h
            · simp [h]
            · exact List.mem_cons_of_mem _ (ih sd it h)
        | slice x y z =>
          cases sd with
          | zero => simp only [splitRec] at h; exact List.mem_cons_of_mem _ h
          | succ sd =>
            simp only [splitRec, List.mem_cons] at h
            rcases h with h | h
            · simp [h]
            · exact List.mem_cons_of_mem _ (ih sd it h)
        | tens t =>
          cases sd with
          | zero => simp only [splitRec] at h; exact List.mem_cons_of_mem _ h
          | succ sd =>
            simp only [splitRec, List.mem_cons] at h
            rcases h with h | h
            · simp [h]
            · exact List.mem_cons_of_mem _ (ih sd it h)
        | ell =>
          cases sd with
          | zero => simp only [splitRec] at h; exact List.mem_cons_of_mem _ h
          | succ sd =>
            simp only [splitRec, List.mem_cons] at h
            rcases h with h | h
            · simp [h]
            · exact List.mem_cons_of_mem _ (ih sd it h)
        | mask m =>
          cases sd with
          | zero => simp only [splitRec] at h; exact List.mem_cons_of_mem _ h
          | succ sd =>
            simp only [splitRec, List.mem_cons] at h
            rcases h with h | h
            · simp [h]
            · exact List.mem_cons_of_mem _ (ih _ it h)
    exact hbasic it (hmem ix L.sd it hit)
  have hdist : ∀ t, (splitRec L.sd ix).item = some (.tens t) → ∃ k, t.shape = [k] ∧
      ∀ j j', j < k → j' < k →
        normInt (t.get [j]) L.members.length = normInt (t.get [j']) L.members.length → j = j' := by
    intro t ht
    have := (hbasic _ (splitRec_item_mem ix L.sd _ ht)).1
    simp [Ix.isAdv] at this
  obtain ⟨h1, h2, h3, h4⟩ := setitem_refines_core L b keys feat hU hne0 ix (hp ix L.sd hbasic)
    (fun it h => (hbasic it h).2) hadv (noDupTargets_of_basic _ hout) hdist v hvk hvl bd hbd L' h
  obtain ⟨hb, hk⟩ := head_batch_of_uniform L b keys feat hU hne0
  have hne' : L'.members ≠ [] := by
    intro hnil; rw [hnil] at h3; exact hne0 (List.length_eq_zero_iff.mp h3.symm)
  obtain ⟨hb', hk'⟩ := head_batch_of_uniform L' b keys feat h2 hne'
  have hkeysL : (absL L).keys = keys := hk
  refine ⟨?_, ?_, ?_⟩
  · show ((L'.members.head?.map TD.batch).getD []).insertIdx L'.sd L'.members.length = d.batch
    rw [hb', h1, h3, hdb]
    show _ = ((L.members.head?.map TD.batch).getD []).insertIdx L.sd L.members.length
    rw [hb]
  · show (L'.members.head?.map TD.keys).getD [] = d.keys
    rw [hk', hdk, hkeysL]
  · intro k hkk
    have hkeys : k ∈ keys := by
      have : (absL L').keys = keys := hk'
      rwa [this] at hkk
    have hset := h4 k hkeys
    rw [hdl k, if_pos (by rw [hvk]; simpa using hkeys)]
    apply IsSetT.unique hset
    apply setT_isSet
    intro o o' ho ho' heq
    have hshape : ((absL L).leaf k).shape = (b ++ feat k).insertIdx L.sd L.members.length := by
      show (T.stack (L.members.map fun m => m.leaf k) L.sd).shape = _
      rw [T.stack_shape]
      have := head_shape_of_all (L.members.map fun m => m.leaf k) (b ++ feat k)
        (by
          intro t ht
          simp only [List.mem_map] at ht
          obtain ⟨m, hm, rfl⟩ := ht
          exact hU.hleaf m hm k hkeys) (by simpa using hne0)
      rw [this]; simp
    rw [hshape] at heq
    have hbd' : idxShape ix ((b ++ feat k).insertIdx L.sd L.members.length) = some (bd ++ feat k) := by
      rw [insertIdx_append_of_le _ _ _ _ hU.hsd]
      have : (absL L).batch = b.insertIdx L.sd L.members.length := by
        show ((L.members.head?.map TD.batch).getD []).insertIdx L.sd L.members.length = _
        rw [hb]
      rw [this] at hbd
      exact idxShape_append _ _ _ _ hbd
    rw [hvl k hkeys, hvb] at ho ho'
    exact idxCoord_inj_basic ix _ _ hbasic hbd' o o' ho ho' heq

/-- **Writes with a rank-2 integer tensor (distinct entries) on the stack dim**
(`lazy[..., tensor([[1, 0], [2, 3]]), ...] = v`, the `is_nd_tensor` branch of `__setitem__`: `assign`
unbinds the value once per level of the index tensor and entry `(a, b)` goes to member `t[a, b]`
through the member index): the dense stack of the members afterwards is `dense[ix] = v`
(hit + frame per key), and the stack stays uniform. -/
theorem setitem_write_through_tens2 [Inhabited α] (L : Lazy α) (b : Shape) (keys : List String)
    (feat : String → Shape) (hU : Uniform L b keys feat) (hne0 : L.members ≠ []) (ix : List Ix)
    (hp : Plain L.sd ix) (hne : ∀ it ∈ ix, it ≠ Ix.ell) (hadv : AtMostOneAdv ix)
    (hnd : NoDupTargets (splitRec L.sd ix).out)
    (t : T Int) (k1 k2 : Nat) (hitem : (splitRec L.sd ix).item = some (.tens t)) (hkt : t.shape = [k1, k2])
    (hdist : ∀ a b' a' b'', a < k1 → b' < k2 → a' < k1 → b'' < k2 →
      normInt (t.get [a, b']) L.members.length = normInt (t.get [a', b'']) L.members.length → a = a' ∧ b' = b'')
    (v : TD α) (hvk : v.keys = keys) (hvl : ∀ k ∈ keys, (v.leaf k).shape = v.batch ++ feat k)
    (bd : Shape) (hbd : idxShape ix (absL L).batch = some bd)
    (L' : Lazy α) (h : lazySetCore L ix v = some L') :
    L'.sd = L.sd ∧ Uniform L' b keys feat ∧ L'.members.length = L.members.length ∧
    ∀ k ∈ keys, IsSetT ix ((absL L).leaf k) (v.leaf k) ((absL L').leaf k) :=
  setitem_refines_tens2 L b keys feat hU hne0 ix hp hne hadv hnd t k1 k2 hitem hkt hdist v hvk hvl bd hbd L' h

/-! ## shape operations: stack-dim bookkeeping -/

/-- `lazy.unsqueeze(dim)` (any spelling of `dim`): the stack of the unsqueezed members, with
the stack dim shifted when the new dim lands at or before it, is `dense.unsqueeze(dim)`. -/
theorem shape_op_refines_unsqueeze [Inhabited α] (L : Lazy α) (b : Shape) (keys : List String)
    (feat : String → Shape) (hU : Uniform L b keys feat) (hne0 : L.members ≠ []) (dim : Int)
    (L' : Lazy α) (h : lazyUnsqueeze L dim = some L') :
    ∃ d : Nat, (d : Int) = (if dim < 0 then (L.batch.length : Int) + dim + 1 else dim) ∧
      d ≤ L.batch.length ∧ absL L' ≈ (absL L).unsqueeze d :=
  unsqueeze_refines L b keys feat hU hne0 dim L' h

/-- `lazy.squeeze(dim)`: a non-singleton dim gives the stack back, the singleton stack dim gives
the only member, another singleton dim is squeezed in the members (stack dim shifted when it
lies before it) — always `dense.squeeze(dim)`. -/
theorem shape_op_refines_squeeze [Inhabited α] (L : Lazy α) (b : Shape) (keys : List String)
    (feat : String → Shape) (hU : Uniform L b keys feat) (hne0 : L.members ≠ []) (dim : Int)
    (r : LRes α) (h : lazySqueeze L dim = some r) :
    ∃ d : Nat, (d : Int) = (if dim < 0 then (L.batch.length : Int) + dim else dim) ∧
      d < L.batch.length ∧ absR r ≈ (absL L).squeezeDim d :=
  squeeze_refines L b keys feat hU hne0 dim r h

/-- `lazy.unbind(dim)` for `dim ≠ stack_dim`: piece `i` materialises to piece `i` of the dense
unbind (for `dim = stack_dim` see `unbind_at_sd_is_members` + `select_at_sd_is_member`). -/
theorem shape_op_refines_unbind [Inhabited α] (L : Lazy α) (b : Shape) (keys : List String)
    (feat : String → Shape) (hU : Uniform L b keys feat) (hne0 : L.members ≠ []) (dim : Nat)
    (hdim : dim < L.batch.length) (hne : dim ≠ L.sd) (i : Nat) (hi : i < L.batch[dim]?.getD 0) :
    ∃ r, (lazyUnbind L dim)[i]? = some r ∧
      absR r ≈ (absL L).mapLeaves ((absL L).batch.eraseIdx dim) (fun t => t.select dim i) :=
  unbind_refines L b keys feat hU hne0 dim hdim hne i hi

/-- **`lazy.transpose(dim0, dim1)` is `dense.transpose(dim0, dim1)`** for every pair of dims (any
sign spelling), every rank and stack dim: equal dims return the stack, a pair not involving the
stack dim is transposed in the members (shifted), the stack dim swapped with a neighbour just
moves, and swapped with a farther dim the members are rolled (`rollPerm`; this last branch is
the code repaired by commit f2d15fe — on the pinned tree it was wrong from rank 4 on, i.e. for
stacks of stacks). -/
theorem shape_op_refines_transpose [Inhabited α] (L : Lazy α) (b : Shape) (keys : List String)
    (feat : String → Shape) (hU : Uniform L b keys feat) (hne0 : L.members ≠ []) (dim0 dim1 : Int)
    (L' : Lazy α) (h : lazyTranspose L dim0 dim1 = some L') :
    ∃ x y : Nat, (x : Int) = (if dim0 < 0 then (L.batch.length : Int) + dim0 else dim0) ∧
      (y : Int) = (if dim1 < 0 then (L.batch.length : Int) + dim1 else dim1) ∧
      x < L.batch.length ∧ y < L.batch.length ∧
      absL L' ≈ (absL L).transpose (min x y) (max x y) :=
  transpose_refines_full L b keys feat hU hne0 dim0 dim1 L' h

/-- **`lazy.permute(dims)` is `dense.permute(dims)`** for every permutation of the batch dims
(any sign spelling), every rank and stack dim: the new stack dim is where `stack_dim` sits in
`dims` (`argsort(dims)[stack_dim]`), the members are permuted by the remaining dims renumbered. -/
theorem shape_op_refines_permute [Inhabited α] (L : Lazy α) (b : Shape) (keys : List String)
    (feat : String → Shape) (hU : Uniform L b keys feat) (hne0 : L.members ≠ []) (dims : List Int)
    (L' : Lazy α) (h : lazyPermute L dims = some L') :
    ∃ p : List Nat, IsPerm p L.batch.length ∧
      p = (dims.map fun d => if d ≥ 0 then d else (L.batch.length : Int) + d).map Int.toNat ∧
      absL L' ≈ (absL L).permute p :=
  permute_refines L b keys feat hU hne0 dims L' h

/-- members of batch rank 3, one member `[2,3,4]`, stack dim 0 -/
def exFar : Lazy Int := ⟨[{ batch := [2, 3, 4], keys := ["a"], leaf := fun _ => T.arange 0 [2, 3, 4] }], 0⟩

/-- regression anchor for the repaired far transpose: `lazy.transpose(0, 3)` on batch size
`[1,2,3,4]` now has the dense batch size `[4,2,3,1]` (the pinned code gave `[4,3,2,1]`). -/
theorem transpose_far_fixed :
    (lazyTranspose exFar 0 3).map (fun L' => (absL L').batch) = some [4, 2, 3, 1]
    ∧ ((absL exFar).transpose 0 3).batch = [4, 2, 3, 1] := by
  decide

/-! ## torch.cat of lazy stacks -/

/-- **`torch.cat([L1, L2], dim)` (no `out=`) is the dense cat**: along the common stack dim the
member lists are appended, along any other dim the i-th members are concatenated along the dim
shifted past the stack dim.  (Stated for two operands; `_lazy_cat` folds more operands the same
way — `lazyCat` models any number and is tied by the `cat` correspondence stream.) -/
theorem cat_refines [Inhabited α] (L1 L2 : Lazy α) (b1 b2 : Shape) (keys : List String) (feat : String → Shape)
    (hU1 : Uniform L1 b1 keys feat) (hU2 : Uniform L2 b2 keys feat) (hne1 : L1.members ≠ []) (hne2 : L2.members ≠ [])
    (hbl : b1.length = b2.length) (dim : Int) (L' : Lazy α) (h : lazyCat [L1, L2] dim = some L') :
    ∃ d : Nat, (d : Int) = (if dim < 0 then (L1.batch.length : Int) + dim else dim) ∧ d < L1.batch.length ∧
      L2.sd = L1.sd ∧
      ((d = L1.sd → b1 = b2) → (d ≠ L1.sd → L1.members.length = L2.members.length) →
        absL L' ≈ TD.cat2 (absL L1) (absL L2) d) :=
  cat_refines2 L1 L2 b1 b2 keys feat hU1 hU2 hne1 hne2 hbl dim L' h

/-- **`torch.cat([L1, …, Lk], dim)` (no `out=`) of ANY number of lazy stacks is the dense cat**
(`Lazy.mb L` = the batch size of `L`'s members): along the common stack dim (operands with the
same member batch size) the member lists are appended; along another dim (operands with the same
member count whose member batch sizes agree off the shifted dim) the i-th members are concatenated
along the shifted dim and re-stacked. -/
theorem cat_refines_any_number [Inhabited α] (L0 : Lazy α) (rest : List (Lazy α)) (keys : List String)
    (feat : String → Shape)
    (hU : ∀ L ∈ L0 :: rest, Uniform L L.mb keys feat ∧ L.members ≠ [])
    (dim : Int) (L' : Lazy α) (h : lazyCat (L0 :: rest) dim = some L') :
    ∃ d : Nat, (d : Int) = (if dim < 0 then (L0.batch.length : Int) + dim else dim) ∧ d < L0.batch.length ∧
      (∀ L ∈ L0 :: rest, L.sd = L0.sd) ∧
      (d = L0.sd → (∀ L ∈ L0 :: rest, L.mb = L0.mb) → absL L' ≈ TD.catList ((L0 :: rest).map absL) d) ∧
      (d ≠ L0.sd →
        (∀ L ∈ L0 :: rest, L.members.length = L0.members.length ∧
          L.mb = L0.mb.set (if d > L0.sd then d - 1 else d) (at0 L.mb (if d > L0.sd then d - 1 else d))) →
        absL L' ≈ TD.catList ((L0 :: rest).map absL) d) :=
  cat_refines_nary L0 rest keys feat hU dim L' h

/-- **`torch.stack([L1, …, Lk], dim)` (no `out=`) of lazy stacks that share their stack dim is the
dense stack**: the i-th members are densely stacked along the shifted `dim`, the results lazily
stacked along the stack dim (shifted when the new dim lands at or before it).  Any number of
operands.  (Operands with *different* stack dims take the generic dense path since the fix commit
"torch.stack of lazy stacks that are stacked along different dims".) -/
theorem stack_refines_dense [Inhabited α] (Ls : List (Lazy α)) (b : Shape) (keys : List String) (feat : String → Shape)
    (n : Nat) (hn : 0 < n)
    (hU : ∀ L ∈ Ls, Uniform L b keys feat) (hlen : ∀ L ∈ Ls, L.members.length = n)
    (dim : Int) (L' : Lazy α) (h : lazyStackOp Ls dim = some L') :
    ∃ (L0 : Lazy α) (d : Nat), Ls.head? = some L0 ∧
      (d : Int) = (if dim < 0 then (L0.batch.length : Int) + dim + 1 else dim) ∧ d ≤ L0.batch.length ∧
      (∀ L ∈ Ls, L.sd = L0.sd) ∧
      absL L' ≈ stackTD (Ls.map absL) d :=
  stack_refines Ls b keys feat n hn hU hlen dim L' h

/-! ## view / reshape / flatten -/

/-- **`lazy.view(shape)` / `reshape(shape)` / `flatten(start, end)` when `shape` merges consecutive
batch dims `i … i+m-1`** (the flatten branch of `_view`; the dims are found by `_check_is_flatten`):
the loop unbinds along `i` once per merged dim — lazy stacks before the stack dim has been unbound,
plain tensordicts afterwards — and stacks the pieces lazily along `i`; whatever the position of
the stack dim relative to the merged dims, the result materialises to the dense stack with every
entry flattened over these dims (`T.flattenAt` = torch's `reshape`), and has batch size `shape`.
All merged and other dims non-empty (`0 < numel batch`). -/
theorem view_flatten_is_dense [Inhabited α] (L : Lazy α) (b : Shape) (keys : List String) (feat : String → Shape)
    (hU : Uniform L b keys feat) (hne0 : L.members ≠ []) (hpos : 0 < numel L.batch)
    (shape : Shape) (r : LRes2 α) (h : lazyView L shape = some r) :
    ∃ i m, 1 ≤ m ∧ i + m ≤ L.batch.length ∧
      shape = L.batch.take i ++ [numel ((L.batch.drop i).take m)] ++ L.batch.drop (i + m) ∧
      absR2 r ≈ (absL L).mapLeaves shape (fun t => t.flattenAt i m) :=
  view_flatten_refines L b keys feat hU hne0 hpos shape r h

/-- the pieces of the flatten loop, one level down: `n + 1` rounds of `unbind(i)` return, in
row-major order, as many pieces as the dims `i … i+n` have positions, each a plain tensordict or a
non-empty uniform lazy stack of the remaining batch size -/
theorem view_flatten_pieces [Inhabited α] (L : Lazy α) (b : Shape) (keys : List String) (feat : String → Shape)
    (hU : Uniform L b keys feat) (hne0 : L.members ≠ []) (i n : Nat) (hle : i + (n + 1) ≤ L.batch.length)
    (hpos : 0 < numel ((L.batch.drop i).take (n + 1))) :
    (iterUnbindR (.lazy L) i (n + 1)).length = numel ((L.batch.drop i).take (n + 1)) ∧
    ∀ x ∈ iterUnbindR (.lazy L) i (n + 1), GoodR (L.batch.take i ++ L.batch.drop (i + (n + 1))) keys feat x :=
  let h := flatten_pieces keys feat i n (.lazy L) L.batch ⟨⟨b, hU⟩, hne0, rfl⟩ hle hpos
  ⟨h.1, h.2.1⟩

/-! ## cat / stack with `out=<lazy stack>` -/

/-- **`torch.cat([L1, …, Lk], dim, out=O)` along the common stack dim of the operands and of `O`**
(`_lazy_cat`, the branch repaired by "torch.cat of lazy stacks with out=<lazy stack> did not write
into out"): the members of `O`, in order, receive the members of the operands and `O` materialises
to the dense cat.  (The other configurations of `out=`: `cat_out_write_through_slices`,
`cat_out_write_through_other_dim` below.) -/
theorem cat_out_write_through [Inhabited α] (L0 : Lazy α) (rest : List (Lazy α)) (keys : List String)
    (feat : String → Shape)
    (hU : ∀ L ∈ L0 :: rest, Uniform L L0.mb keys feat ∧ L.members ≠ [])
    (out : Lazy α) (dim : Int) (out' : Lazy α)
    (hd : (if dim < 0 then (L0.batch.length : Int) + dim else dim) = (L0.sd : Int))
    (hout : out.sd = L0.sd)
    (h : lazyCatOut (L0 :: rest) dim out = some out') :
    out'.sd = out.sd ∧ out'.members = (L0 :: rest).flatMap Lazy.members ∧
      absL out' ≈ TD.catList ((L0 :: rest).map absL) L0.sd :=
  cat_out_along_stack_dim L0 rest keys feat hU out dim out' hd hout h

/-- **`torch.cat([L1, …, Lk], dim, out=O)` with `O` stacked along the cat dim and the operands
stacked along another (common) dim**: the members of `O`, in order, receive the slices
`Lj.unbind(dim)` of the operands (not the operands' members, which lie along another dim), and `O`
materialises to the dense cat.  `base` is the common batch size of the operands off the cat dim. -/
theorem cat_out_write_through_slices [Inhabited α] (L0 : Lazy α) (rest : List (Lazy α)) (keys : List String)
    (feat : String → Shape) (base : Shape) (d : Nat)
    (hU : ∀ L ∈ L0 :: rest, (∃ b, Uniform L b keys feat) ∧ L.members ≠ [] ∧
      L.batch = base.set d (at0 L.batch d))
    (out : Lazy α) (dim : Int) (out' : Lazy α)
    (hd : (if dim < 0 then (L0.batch.length : Int) + dim else dim) = (d : Int))
    (hne : d ≠ L0.sd) (hout : out.sd = d)
    (hpos : 0 < ((L0 :: rest).map fun L => at0 L.batch d).sum)
    (h : lazyCatOut (L0 :: rest) dim out = some out') :
    out'.sd = out.sd ∧ out'.members.length = out.members.length ∧
      absL out' ≈ TD.catList ((L0 :: rest).map absL) d :=
  cat_out_onto_stack_dim L0 rest keys feat base d hU out dim out' hd hne hout hpos h

/-- **`torch.cat([L1, …, Lk], dim, out=O)` with `O` stacked along a dim other than the cat dim**
(whatever the common stack dim of the operands): member `i` of `O` receives
`torch.cat([Lj[(:,)*O.stack_dim + (i,)] for j], sub_dim)` (`sub_dim` = the cat dim seen from inside a
member of `O`), and `O` materialises to the dense cat. -/
theorem cat_out_write_through_other_dim [Inhabited α] (L0 : Lazy α) (rest : List (Lazy α)) (keys : List String)
    (feat : String → Shape) (base : Shape) (d : Nat)
    (hU : ∀ L ∈ L0 :: rest, (∃ b, Uniform L b keys feat) ∧ L.members ≠ [] ∧
      L.batch = base.set d (at0 L.batch d))
    (out : Lazy α) (dim : Int) (out' : Lazy α)
    (hd : (if dim < 0 then (L0.batch.length : Int) + dim else dim) = (d : Int))
    (hout : out.sd ≠ d) (ho : out.sd < out.batch.length) (hmpos : out.members ≠ [])
    (h : lazyCatOut (L0 :: rest) dim out = some out') :
    out'.sd = out.sd ∧ out'.members.length = out.members.length ∧
      absL out' ≈ TD.catList ((L0 :: rest).map absL) d :=
  cat_out_other_dim L0 rest keys feat base d hU out dim out' hd hout ho hmpos h

/-- **`torch.stack(items, dim, out=O)` with `dim = O.stack_dim`** (`_stack_onto_`): member `i` of
`O` is updated in place with item `i`; `O` is then the dense stack of the items. -/
theorem stack_out_write_through [Inhabited α] (out : Lazy α) (items : List (TD α)) (out' : Lazy α)
    (h : lazyStackOnto out items out.sd = some out') :
    out'.sd = out.sd ∧ out'.members.length = out.members.length ∧ absL out' = stackTD items out.sd :=
  stack_out_same_dim out items out' h

/-- **`torch.stack(items, dim, out=O)` with `dim ≠ O.stack_dim`** (`_stack_onto_`, the branch that
writes item `i` at `O[(:,)*dim + (i,)]` with `update_at_`, one index write after the other): when all
items have been written the members of `O` hold the dense stack of the items (and `O` is still a
uniform stack along its own dim). -/
theorem stack_out_write_through_other_dim [Inhabited α] (out : Lazy α) (b : Shape) (keys : List String)
    (feat : String → Shape) (hU : Uniform out b keys feat) (hne0 : out.members ≠ [])
    (items : List (TD α)) (dim : Nat) (hdim : dim < out.batch.length) (hne : dim ≠ out.sd)
    (hlen : items.length = at0 out.batch dim) (hpos : items ≠ [])
    (hitems : ∀ it ∈ items, it.keys = keys ∧ it.batch = out.batch.eraseIdx dim ∧
      ∀ k ∈ keys, (it.leaf k).shape = it.batch ++ feat k)
    (out' : Lazy α) (h : lazyStackOnto out items dim = some out') :
    out'.sd = out.sd ∧ Uniform out' b keys feat ∧ out'.members.length = out.members.length ∧
      absL out' ≈ stackTD items dim :=
  stack_out_other_dim out b keys feat hU hne0 items dim hdim hne hlen hpos hitems out' h

/-! ## update_, insert / append -/

/-- **`lazy.update_(v)`**: piece `i` of every entry of `v` lands in member `i`; the updated keys
read back as `v`'s entries, the other keys are untouched. -/
theorem update_write_through [Inhabited α] (L L' : Lazy α) (v : TD α) (h : lazyUpdate_ L v = some L')
    (hne : L.members ≠ []) (hsd : ∀ k ∈ v.keys, L.sd < (v.leaf k).shape.length)
    (hvb : ∀ k ∈ v.keys, at0 (v.leaf k).shape L.sd = at0 v.batch L.sd) :
    L'.sd = L.sd ∧ L'.members.length = L.members.length ∧
    (∀ k ∈ v.keys, (absL L').leaf k ≈ₜ v.leaf k) ∧
    (∀ k, k ∉ v.keys → (absL L').leaf k = (absL L).leaf k) :=
  update__refines L L' v h hne hsd hvb

/-- **`lazy.insert(index, m)` / `append(m)`** is Python's `list.insert` on the member list (negative
index from the end, clamped), keeps the stack uniform and rejects a member of another batch size;
with `select_at_sd_is_member` this says position `j` of the dense stack is the inserted member at
the insertion point and the old members elsewhere. -/
theorem insert_is_list_insert [Inhabited α] (L L' : Lazy α) (b : Shape) (keys : List String) (feat : String → Shape)
    (hU : Uniform L b keys feat) (index : Int) (m : TD α)
    (hmk : m.keys = keys) (hml : ∀ k ∈ keys, (m.leaf k).shape = b ++ feat k)
    (hne : L.members ≠ []) (h : lazyInsert L index m = some L') :
    ∃ i : Nat, i ≤ L.members.length ∧
      (i : Int) = (if index < 0 then max 0 ((L.members.length : Int) + index) else min index (L.members.length : Int)) ∧
      L' = { L with members := L.members.insertIdx i m } ∧ Uniform L' b keys feat ∧ m.batch = b :=
  insert_refines L L' b keys feat hU index m hmk hml hne h

/-! ## pointwise operations (apply, arithmetic, comparisons, where / masked_fill with an operand) -/

/-- **`lazy.apply(fn)` is `dense.apply(fn)`** for a pointwise `fn` (`_apply_nest`: member by
member, lazily re-stacked along the same stack dim). -/
theorem apply_refines [Inhabited α] (L : Lazy α) (b : Shape) (keys : List String) (feat : String → Shape)
    (hU : Uniform L b keys feat) (hne : L.members ≠ []) (g : α → α) :
    absL (lazyApply1 L g) ≈ (absL L).apply1 g :=
  apply1_refines L b keys feat hU hne g

/-- **`lazy.apply(fn, other)` is `dense.apply(fn, other)`**: `other` (of the stack's batch size) is
unbound along the stack dim and piece `i` meets member `i` — the path taken by `lazy + other`,
`lazy == other`, `lazy.where(mask, other)` … -/
theorem apply_with_operand_refines [Inhabited α] (L : Lazy α) (b : Shape) (keys : List String) (feat : String → Shape)
    (hU : Uniform L b keys feat) (hne : L.members ≠ []) (other : TD α)
    (hob : other.batch = (absL L).batch) (g : α → α → α)
    (L' : Lazy α) (h : lazyApply2 L other g = some L') :
    L'.sd = L.sd ∧ L'.members.length = L.members.length ∧ absL L' ≈ (absL L).apply2 g other :=
  apply2_refines L b keys feat hU hne other hob g L' h

/-- **`lazy == other`, `!=`, `<`, `<=`, `>`, `>=` with a tensordict operand** (`_dispatch_comparison`:
members zipped strictly with `other.unbind(stack_dim)`, compared one by one, results lazily
stacked) is the dense comparison. -/
theorem comparison_refines [Inhabited α] (L : Lazy α) (b : Shape) (keys : List String) (feat : String → Shape)
    (hU : Uniform L b keys feat) (hne : L.members ≠ []) (other : TD α)
    (hob : other.batch = (absL L).batch) (cmp : α → α → Bool)
    (L' : Lazy Bool) (h : lazyCompare L other cmp = some L') :
    L'.sd = L.sd ∧ L'.members.length = L.members.length ∧ absL L' ≈ (absL L).apply2 cmp other :=
  apply2_refines L b keys feat hU hne other hob cmp L' h

/-- the same with a number: every member is compared with it -/
theorem comparison_scalar_refines [Inhabited α] (L : Lazy α) (b : Shape) (keys : List String) (feat : String → Shape)
    (hU : Uniform L b keys feat) (hne : L.members ≠ []) (c : α) (cmp : α → α → Bool) :
    absL (lazyCompareScalar L c cmp) ≈ (absL L).apply1 (fun x => cmp x c) :=
  apply1_refines L b keys feat hU hne _

/-! ## reductions -/

/-- **`lazy.all()`** — `all(value.all() for value in self.tensordicts)` — is `dense.all()`. -/
theorem all_is_dense_all (L : Lazy Bool) (b : Shape) (keys : List String) (feat : String → Shape)
    (hU : Uniform L b keys feat) (hne : L.members ≠ []) : lazyAll L = (absL L).allB :=
  all_refines L b keys feat hU hne

/-- **`lazy.any()`** is `dense.any()`. -/
theorem any_is_dense_any (L : Lazy Bool) (b : Shape) (keys : List String) (feat : String → Shape)
    (hU : Uniform L b keys feat) (hne : L.members ≠ []) : lazyAny L = (absL L).anyB :=
  any_refines L b keys feat hU hne

/-- **Reductions along a dim** (`all(dim)`, `any(dim)`, and through `to_tensordict()` `sum`, `mean`,
`prod`, … `(dim)`): torch's reduction `red` is applied to every entry as `_get_str` returns it,
which is the entry of the dense stack — whatever `red` is. -/
theorem reduce_dim_is_dense [Inhabited α] (L : Lazy α) (keys : List String) (red : T α → T β)
    (h : ∀ m ∈ L.members, ∀ k ∈ keys, k ∈ m.keys) :
    lazyReduceEntries L keys red = some (keys.map fun k => (k, red ((absL L).leaf k))) :=
  reduce_entries_dense L keys red h

/-! ## split / chunk, repeat_interleave, repeat -/

/-- **`lazy.split(sizes, dim)`** (also `chunk` and an integer `split_size`, which only compute
`sizes`): along the stack dim the member list is sliced, along another dim every member is split
along the shifted dim; piece `j` materialises to piece `j` of the dense split,
`dense.narrow(dim, start_j, size_j)`. -/
theorem split_piece_refines [Inhabited α] (L : Lazy α) (b : Shape) (keys : List String) (feat : String → Shape)
    (hU : Uniform L b keys feat) (hne0 : L.members ≠ []) (sizes : List Nat) (dim : Int)
    (pieces : List (LRes α)) (h : lazySplit L sizes dim = some pieces) :
    ∃ d : Nat, (d : Int) = (if dim < 0 then (L.batch.length : Int) + dim else dim) ∧ d < L.batch.length ∧
      pieces.length = sizes.length ∧
      ∀ j (hj : j < sizes.length), 0 < sizes[j] →
        (d = L.sd → (pieceStarts sizes 0)[j]'(by rw [pieceStarts_length]; exact hj) + sizes[j] ≤ L.members.length) →
        ∃ r, pieces[j]? = some r ∧
          absR r ≈ (absL L).narrow d ((pieceStarts sizes 0)[j]'(by rw [pieceStarts_length]; exact hj)) sizes[j] :=
  split_refines L b keys feat hU hne0 sizes dim pieces h

/-- **`lazy.repeat_interleave(k, dim)`** is `dense.repeat_interleave(k, dim)`: along the stack dim
every member is listed `k` times, along another dim every member is repeated along the shifted dim. -/
theorem repeat_interleave_is_dense [Inhabited α] (L : Lazy α) (b : Shape) (keys : List String) (feat : String → Shape)
    (hU : Uniform L b keys feat) (hne0 : L.members ≠ []) (k : Nat) (dim : Int)
    (L' : Lazy α) (h : lazyRepeatInterleave L k dim = some L') :
    ∃ d : Nat, (d : Int) = (if dim < 0 then (L.batch.length : Int) + dim else dim) ∧ d < L.batch.length ∧
      absL L' ≈ (absL L).repeatInterleave d k :=
  repeat_interleave_refines L b keys feat hU hne0 k dim L' h

/-- **`lazy.repeat(*reps)`** is `dense.repeat(*reps)`: the members are repeated by the counts of
their own dims and the member list is replicated by the count of the stack dim. -/
theorem repeat_is_dense [Inhabited α] (L : Lazy α) (b : Shape) (keys : List String) (feat : String → Shape)
    (hU : Uniform L b keys feat) (hne0 : L.members ≠ []) (reps : List Nat)
    (L' : Lazy α) (h : lazyRepeat L reps = some L') :
    L'.sd = L.sd ∧ L'.members.length = L.members.length * at0 reps L.sd ∧ absL L' ≈ (absL L).repeat reps :=
  repeat_refines L b keys feat hU hne0 reps L' h

/-! ## stacks of stacks -/

/-- **Reads of a lazy stack whose members are lazy stacks compose**: for an Ellipsis-free index
whose item on the OUTER stack dim is an integer, a slice, absent or a rank-1 mask, if every inner
read `inner[rest]` (what `self.tensordicts[i][_idx]` returns, `memberRead`) materialises to the
dense inner stack indexed by `rest` (`InnerOK`), then whatever the outer `__getitem__` builds out
of the inner results — the selected inner result, or a lazy stack of them at
`stack_dim - num_single + num_none - num_squash` resp. `mask_loc - num_single` — materialises to
`dense_of_dense[index]`; an outer mask that keeps nothing gives an empty stack of the dense batch
size.  (Unbounded: any number / size of inner stacks, any two stack dims, any such index.) -/
theorem getitem_stack_of_stacks_composes [Inhabited α] (Lo : Lazy2 α) (bIn : Shape) (keys : List String)
    (feat : String → Shape) (sdIn nIn : Nat) (hU : Uniform2 Lo bIn keys feat sdIn nIn)
    (hne0 : Lo.members ≠ []) (ix : List Ix)
    (hp : PlainM Lo.sd ix) (hne : ∀ it ∈ ix, it ≠ Ix.ell) (hadv : AtMostOneAdv ix)
    (hnt : ∀ t, (splitRec Lo.sd ix).item ≠ some (.tens t))
    (hin : InnerOK Lo (splitRec Lo.sd ix).out)
    (r2 : LRes2 α) (hr : lazyGetCore2 Lo ix = some r2)
    (d : TD α) (hd : (abs2 Lo).index ix = some d) : ReadOK2 r2 d :=
  getitem2_refines_core Lo bIn keys feat sdIn nIn hU hne0 ix hp hne hadv hnt hin r2 hr d hd

/-- **stack of stacks, item on the OUTER stack dim = a rank-1 integer tensor (list / range)**: the
is_nd_tensor branch (`recompose`) over members that are lazy stacks — the inner stacks picked by the
entries, each read with the remaining index, stacked lazily at `stack_dim - num_single + num_none`;
if the inner reads materialise to the dense inner reads (`InnerOK`) the result materialises to
`dense_of_dense[ix]`. -/
theorem getitem_stack_of_stacks_tensor [Inhabited α] (Lo : Lazy2 α) (bIn : Shape) (keys : List String) (feat : String → Shape)
    (sdIn nIn : Nat) (hU : Uniform2 Lo bIn keys feat sdIn nIn) (hne0 : Lo.members ≠ []) (ix : List Ix)
    (hp : Plain Lo.sd ix) (hne : ∀ it ∈ ix, it ≠ Ix.ell) (hadv : AtMostOneAdv ix)
    (t : T Int) (k : Nat) (hitem : (splitRec Lo.sd ix).item = some (.tens t)) (hk : t.shape = [k])
    (hin : InnerOK Lo (splitRec Lo.sd ix).out)
    (r2 : LRes2 α) (hr : lazyGetCore2T Lo ix = some r2)
    (d : TD α) (hd : (abs2 Lo).index ix = some d) : absR2 r2 ≈ d :=
  getitem2_tens1 Lo bIn keys feat sdIn nIn hU hne0 ix hp hne hadv t k hitem hk hin r2 hr d hd

/-- **`lazy_of_lazy[index]` is `dense_of_dense[index]`** (Ellipsis allowed), the inner hypothesis
discharged by the one-level theorems: the item on the outer stack dim is an integer / slice /
absent / rank-1 mask, the remainder index is in the proved one-level grammar for the inner stacks
(`PlainM sdIn rest`: its mask, if it touches the inner stack dim, is a rank-1 mask on it), and no
inner read is an empty stack. -/
theorem getitem_stack_of_stacks_refines [Inhabited α] (Lo : Lazy2 α) (bIn : Shape) (keys : List String)
    (feat : String → Shape) (sdIn nIn : Nat) (hU : Uniform2 Lo bIn keys feat sdIn nIn)
    (hne0 : Lo.members ≠ []) (ix : List Ix) (hadv : AtMostOneAdv ix)
    (hp : ∀ ix', convertEllipsis ix Lo.batch.length = some ix' →
      PlainM Lo.sd ix' ∧ (∀ t, (splitRec Lo.sd ix').item ≠ some (.tens t)) ∧
      PlainM sdIn (splitRec Lo.sd ix').out ∧
      ∀ Li ∈ Lo.members, ∀ bb, lazyGetCore Li (splitRec Lo.sd ix').out ≠ some (.empty bb))
    (r2 : LRes2 α) (hr : lazyGet2 Lo ix = some r2)
    (d : TD α) (hd : (abs2 Lo).getitem ix = some d) : ReadOK2 r2 d :=
  getitem2_refines_all Lo bIn keys feat sdIn nIn hU hne0 ix hadv hp r2 hr d hd

/-- **`lazy.expand(*shape)`** is `dense.expand(*shape)`: the stack dim moves by the number of new
leading dims, the members are expanded to the target without it, and a singleton stack dim is
expanded by listing the single member again (views: same values). -/
theorem expand_is_dense [Inhabited α] (L : Lazy α) (b : Shape) (keys : List String) (feat : String → Shape)
    (hU : Uniform L b keys feat) (hne0 : L.members ≠ []) (shape : List Nat)
    (L' : Lazy α) (h : lazyExpand L shape = some L') :
    L'.sd = shape.length + L.sd - L.batch.length ∧ absL L' ≈ (absL L).expandTo shape :=
  expand_refines L b keys feat hU hne0 shape L' h

/-- **Writes through a stack of stacks compose**: `lazy_of_lazy[ix] = v` for an Ellipsis-free index
whose masks do not touch the OUTER stack dim and whose outer stack-dim item is absent / an int / a
slice / a rank-1 integer tensor with distinct entries.  The outer `__setitem__` hands
`v.unbind(unbind_dim)[j]` to inner stack `ids j` through the remainder index; if every such inner
write is a write-through of its value (`InnerSetOK`), then afterwards the dense stack of dense
stacks is the one before with `v` written at `ix` (hit + frame per key), and the stack of stacks
is still uniform. -/
theorem setitem_stack_of_stacks_composes [Inhabited α] (Lo : Lazy2 α) (bIn : Shape) (keys : List String)
    (feat : String → Shape) (sdIn nIn : Nat) (hU : Uniform2 Lo bIn keys feat sdIn nIn) (hne0 : Lo.members ≠ [])
    (ix : List Ix) (hp : Plain Lo.sd ix) (hne : ∀ it ∈ ix, it ≠ Ix.ell) (hadv : AtMostOneAdv ix)
    (hdist : ∀ t, (splitRec Lo.sd ix).item = some (.tens t) → ∃ k, t.shape = [k] ∧
      ∀ j j', j < k → j' < k →
        normInt (t.get [j]) Lo.members.length = normInt (t.get [j']) Lo.members.length → j = j')
    (hin : InnerSetOK Lo bIn keys feat (splitRec Lo.sd ix).out)
    (v : TD α) (hvk : v.keys = keys) (hvl : ∀ k ∈ keys, (v.leaf k).shape = v.batch ++ feat k)
    (bd : Shape) (hbd : idxShape ix (abs2 Lo).batch = some bd)
    (Lo' : Lazy2 α) (h : lazySetCore2 Lo ix v = some Lo') :
    Lo'.sd = Lo.sd ∧ Uniform2 Lo' bIn keys feat sdIn nIn ∧ Lo'.members.length = Lo.members.length ∧
    ∀ k ∈ keys, IsSetT ix ((abs2 Lo).leaf k) (v.leaf k) ((abs2 Lo').leaf k) :=
  setitem2_core Lo bIn keys feat sdIn nIn hU hne0 ix hp hne hadv hdist hin v hvk hvl bd hbd Lo' h

/-- **Index writes through a stack of stacks with a rank-1 mask on the OUTER stack dim**
(`lol[…, mask, …] = v`): the inner stacks the mask keeps receive, in order, the successive slices of
`v` along `mask_loc - num_single`, each through its own `__setitem__` with the index without the
mask; if these inner writes are write-throughs (`InnerSetOK`, discharged by the one-level theorems)
the dense stack of dense stacks afterwards is the one before with `v` written at `ix`. -/
theorem setitem_stack_of_stacks_mask1 [Inhabited α] (Lo : Lazy2 α) (bIn : Shape) (keys : List String) (feat : String → Shape)
    (sdIn nIn : Nat) (hU : Uniform2 Lo bIn keys feat sdIn nIn) (hne0 : Lo.members ≠ []) (ix : List Ix)
    (hp : PlainM Lo.sd ix) (hne : ∀ it ∈ ix, it ≠ Ix.ell) (hadv : AtMostOneAdv ix)
    (m : T Bool) (hitem : (splitRec Lo.sd ix).item = some (.mask m))
    (hin : InnerSetOK Lo bIn keys feat (splitRec Lo.sd ix).out)
    (v : TD α) (hvk : v.keys = keys) (hvl : ∀ k ∈ keys, (v.leaf k).shape = v.batch ++ feat k)
    (bd : Shape) (hbd : idxShape ix (abs2 Lo).batch = some bd)
    (Lo' : Lazy2 α) (h : lazySetCore2 Lo ix v = some Lo') :
    Lo'.sd = Lo.sd ∧ Uniform2 Lo' bIn keys feat sdIn nIn ∧ Lo'.members.length = Lo.members.length ∧
    ∀ k ∈ keys, IsSetT ix ((abs2 Lo).leaf k) (v.leaf k) ((abs2 Lo').leaf k) :=
  setitem2_mask1 Lo bIn keys feat sdIn nIn hU hne0 ix hp hne hadv m hitem hin v hvk hvl bd hbd Lo' h

/-- the inner hypothesis discharged by the one-level write theorem: the remainder index is in its
grammar for the inner stacks (no mask on / spanning the inner stack dim, inner stack-dim item
absent / int / slice / rank-1 tensor with distinct entries, no duplicate targets elsewhere) -/
theorem setitem_stack_of_stacks_inner [Inhabited α] (Lo : Lazy2 α) (bIn : Shape) (keys : List String)
    (feat : String → Shape) (sdIn nIn : Nat) (hU : Uniform2 Lo bIn keys feat sdIn nIn) (out : List Ix)
    (hp : Plain sdIn out) (hne : ∀ it ∈ out, it ≠ Ix.ell) (hadv : AtMostOneAdv out)
    (hnd : NoDupTargets (splitRec sdIn out).out)
    (hdist : ∀ t, (splitRec sdIn out).item = some (.tens t) → ∃ k, t.shape = [k] ∧
      ∀ j j', j < k → j' < k → normInt (t.get [j]) nIn = normInt (t.get [j']) nIn → j = j') :
    InnerSetOK Lo bIn keys feat out :=
  innerSetOK_of_refines Lo bIn keys feat sdIn nIn hU out hp hne hadv hnd hdist

/-- **`unsqueeze` on a stack of stacks**: the outer `_unsqueeze` calls the inner stacks' `unsqueeze`
(shifted past the outer stack dim) and re-stacks; the result materialises to
`dense_of_dense.unsqueeze(dim)` — the one-level argument lifted over members that are lazy stacks
(`abs2_map`) and the one-level theorem for the inner stacks. -/
theorem unsqueeze_stack_of_stacks [Inhabited α] (Lo : Lazy2 α) (bIn : Shape) (keys : List String) (feat : String → Shape)
    (sdIn nIn : Nat) (hU : Uniform2 Lo bIn keys feat sdIn nIn) (hne0 : Lo.members ≠ []) (dim : Int)
    (Lo' : Lazy2 α) (h : lazyUnsqueeze2 Lo dim = some Lo') :
    ∃ d : Nat, (d : Int) = (if dim < 0 then (Lo.batch.length : Int) + dim + 1 else dim) ∧
      d ≤ Lo.batch.length ∧ abs2 Lo' ≈ (abs2 Lo).unsqueeze d :=
  unsqueeze2_refines Lo bIn keys feat sdIn nIn hU hne0 dim Lo' h

/-- **`squeeze(dim)` on a stack of stacks**: a non-singleton dim returns the stack itself, the
singleton outer stack dim returns the only inner stack, any other singleton dim is squeezed inside
the inner stacks by their own `_squeeze` (which returns their only MEMBER when it is their stack dim:
the result is then a one-level stack) and the results are stacked again, the outer stack dim shifted
when the squeezed dim lies before it; in every case the result materialises to
`dense_of_dense.squeeze(dim)`. -/
theorem squeeze_stack_of_stacks [Inhabited α] (Lo : Lazy2 α) (bIn : Shape) (keys : List String) (feat : String → Shape)
    (sdIn nIn : Nat) (hU : Uniform2 Lo bIn keys feat sdIn nIn) (hne0 : Lo.members ≠ []) (dim : Int)
    (r : LRes2 α) (h : lazySqueeze2 Lo dim = some r) :
    ∃ d : Nat, (d : Int) = (if dim < 0 then (Lo.batch.length : Int) + dim else dim) ∧
      d < Lo.batch.length ∧ absR2 r ≈ (abs2 Lo).squeezeDim d :=
  squeeze2_refines Lo bIn keys feat sdIn nIn hU hne0 dim r h

/-- **`permute` on a stack of stacks** (every permutation of the batch dims, any sign spelling):
the inner stacks are permuted by the remaining dims renumbered — with their own `_permute`, which
moves their stack dim — and re-stacked at `argsort(dims)[stack_dim]`; the result materialises to
`dense_of_dense.permute(dims)`. -/
theorem permute_stack_of_stacks [Inhabited α] (Lo : Lazy2 α) (bIn : Shape) (keys : List String) (feat : String → Shape)
    (sdIn nIn : Nat) (hU : Uniform2 Lo bIn keys feat sdIn nIn) (hne0 : Lo.members ≠ []) (dims : List Int)
    (Lo' : Lazy2 α) (h : lazyPermute2 Lo dims = some Lo') :
    ∃ p : List Nat, IsPerm p Lo.batch.length ∧
      p = (dims.map fun d => if d ≥ 0 then d else (Lo.batch.length : Int) + d).map Int.toNat ∧
      abs2 Lo' ≈ (abs2 Lo).permute p :=
  permute2_refines Lo bIn keys feat sdIn nIn hU hne0 dims Lo' h

/-- **`transpose` on a stack of stacks** (every pair of dims, any sign spelling): equal dims return
the stack, the outer stack dim swapped with a neighbour just moves, swapped with a farther dim the
inner stacks are rolled with their own `permute` (the branch repaired by "transpose with the stack
dim and a non-adjacent dim": this is where it was wrong, from batch rank 4 on), and a pair of other
dims is transposed inside the inner stacks — always `dense_of_dense.transpose(dim0, dim1)`. -/
theorem transpose_stack_of_stacks [Inhabited α] (Lo : Lazy2 α) (bIn : Shape) (keys : List String) (feat : String → Shape)
    (sdIn nIn : Nat) (hU : Uniform2 Lo bIn keys feat sdIn nIn) (hne0 : Lo.members ≠ []) (dim0 dim1 : Int)
    (Lo' : Lazy2 α) (h : lazyTranspose2 Lo dim0 dim1 = some Lo') :
    ∃ x y : Nat, (x : Int) = (if dim0 < 0 then (Lo.batch.length : Int) + dim0 else dim0) ∧
      (y : Int) = (if dim1 < 0 then (Lo.batch.length : Int) + dim1 else dim1) ∧
      x < Lo.batch.length ∧ y < Lo.batch.length ∧
      abs2 Lo' ≈ (abs2 Lo).transpose (min x y) (max x y) :=
  transpose2_refines Lo bIn keys feat sdIn nIn hU hne0 dim0 dim1 Lo' h

/-! ## non-vacuity: a concrete 3-member stack (batch [2], stack dim 1, key `a`) -/

def exM (i : Nat) : TD Int := { batch := [2], keys := ["a"], leaf := fun _ => T.arange (10 * i) [2] }
def exL : Lazy Int := ⟨[exM 0, exM 1, exM 2], 1⟩

example : Uniform exL [2] ["a"] (fun _ => []) :=
  ⟨by simp [exL, exM], by simp [exL, exM], by simp [exL, exM, T.arange], by simp [exL]⟩
-- stage 1: `lazy[1, :2]` is accepted on both sides and reads members 0,1 at row 1
example : Plain exL.sd [.int 1, .slice none (some 2) none] := by simp [exL, Plain]
example : (lazyGetCore exL [.int 1, .slice none (some 2) none]).isSome = true := by decide
example : ((absL exL).index [.int 1, .slice none (some 2) none]).isSome = true := by decide
example : (match lazyGetCore exL [.int 1, .slice none (some 2) none] with
    | some r => ((absR r).leaf "a").toList | none => []) = [1, 11] := by decide
-- stage 2: a list on the stack dim (`lazy[:, [2, 0]]`) gives a lazy stack of members 2 and 0
example : Plain exL.sd [Ix.full, .tens (T.ofList [2] [2, 0])] := by simp [exL, Plain, Ix.full]
example : AtMostOneAdv [Ix.full, .tens (T.ofList [2] [2, 0])] := by simp [AtMostOneAdv, Ix.full, Ix.isAdv]
example : (match lazyGetCore exL [Ix.full, .tens (T.ofList [2] [2, 0])] with
    | some (.lazy L') => (L'.sd, ((absL L').leaf "a").toList) | _ => (99, [])) = (1, [20, 0, 21, 1]) := by decide
-- the hypothesis `Plain` excludes exactly a mask on / spanning the stack dim …
example : ¬ Plain exL.sd [Ix.full, .mask (T.ofList [3] [true, false, true])] := by simp [exL, Plain, Ix.full]
-- … `PlainM` admits the rank-1 mask on it (stage 3): `lazy[:, mask]` keeps members 0 and 2
example : PlainM exL.sd [Ix.full, .mask (T.ofList [3] [true, false, true])] := by simp [exL, PlainM, Ix.full, T.ofList]
example : (match lazyGetCore exL [Ix.full, .mask (T.ofList [3] [true, false, true])] with
    | some (.lazy L') => (L'.sd, ((absL L').leaf "a").toList) | _ => (99, [])) = (1, [0, 20, 1, 21]) := by decide
-- Ellipsis: `lazy[..., 0]` addresses the last batch dim (the stack dim here) and returns member 0
example : (match lazyGet exL [.ell, .int 0] with
    | some (.member m) => (m.leaf "a").toList | _ => []) = [0, 1] := by decide
-- `_set_str` then `_get_str`
example : (lazySetStr exL "a" (T.arange 100 [2, 3])).isSome = true := by decide
example : lazySetStr exL "a" (T.arange 100 [2, 2]) = none → True := fun _ => trivial
-- cat of three stacks: along the stack dim (9 members) and along dim 0 (3 members of batch [6])
example : (match lazyCat [exL, exL, exL] 1 with
    | some L' => (L'.sd, L'.members.length, (absL L').batch) | none => (99, 0, [])) = (1, 9, [2, 9]) := by decide
example : (match lazyCat [exL, exL, exL] (-2) with
    | some L' => (L'.sd, L'.members.length, (absL L').batch) | none => (99, 0, [])) = (1, 3, [6, 3]) := by decide
-- pointwise: `lazy.apply(x ↦ 2x + 1)` and `lazy.apply((x, y) ↦ x - y, dense)` (dense = the stack itself)
example : ((absL (lazyApply1 exL (fun x => 2 * x + 1))).leaf "a").toList = [1, 21, 41, 3, 23, 43] := by decide
example : (match lazyApply2 exL (absL exL) (fun x y => x - y) with
    | some L' => ((absL L').leaf "a").toList | none => [7]) = [0, 0, 0, 0, 0, 0] := by decide
-- comparisons and reductions: `(lazy > 5).all()` is false, `.any()` is true
example : lazyAll (lazyCompareScalar exL 5 (fun x y => decide (x > y))) = false := by decide
example : lazyAny (lazyCompareScalar exL 5 (fun x y => decide (x > y))) = true := by decide
-- resize: `exL.repeat(2, 2)` has batch [4, 6]; `exL.split([1, 2], 1)` has two pieces (1 and 2 members)
example : (match lazyRepeat exL [2, 2] with
    | some L' => ((absL L').batch, L'.members.length) | none => ([], 0)) = ([4, 6], 6) := by decide
example : ((lazySplit exL [1, 2] 1).map fun ps => ps.map fun
    | .lazy L' => L'.members.length | _ => 99) = some [1, 2] := by decide
example : (match lazyExpand ⟨[exM 0], 1⟩ [2, 2, 3] with
    | some L' => (L'.sd, L'.members.length, (absL L').batch, ((absL L').leaf "a").toList) | none => (9, 0, [], []))
    = (2, 3, [2, 2, 3], [0, 0, 0, 1, 1, 1, 0, 0, 0, 1, 1, 1]) := by decide
-- stage 4: a rank-2 mask on the stack dim of a stack along dim 0 (batch [2, 2]): rows [T, F] and [T, T]
example : (match lazyGetCoreM (⟨[exM 0, exM 1], 0⟩ : Lazy Int) [.mask (T.ofList [2, 2] [true, false, true, true])] with
    | some r => ((absR r).batch, ((absR r).leaf "a").toList) | none => ([], [])) = ([3], [0, 10, 11]) := by decide
-- stage 5: a rank-2 mask SPANNING the stack dim of `exL` (batch [2, 3], stack dim 1): rows [T, F, T] and [F, F, T]
example : (match lazyGetCoreM exL [.mask (T.ofList [2, 3] [true, false, true, false, false, true])] with
    | some r => ((absR r).batch, ((absR r).leaf "a").toList) | none => ([], [])) = ([3], [0, 20, 21]) := by decide
example : (((absL exL).index [.mask (T.ofList [2, 3] [true, false, true, false, false, true])]).map
    fun d => (d.batch, (d.leaf "a").toList)) = some ([3], [0, 20, 21]) := by decide
example : BasicPre ([] : List Ix) ∧ preDims ([] : List Ix) + 1 = exL.sd ∧ Basic ([] : List Ix) := by
  refine ⟨trivial, rfl, ?_⟩
  intro it hit; simp at hit
-- write with a rank-2 mask on the stack dim of a stack along dim 0 (batch [2, 2]): rows [T, F] and [T, T]
example : (match lazySetCoreM (⟨[exM 0, exM 1], 0⟩ : Lazy Int) [.mask (T.ofList [2, 2] [true, false, true, true])]
      { batch := [3], keys := ["a"], leaf := fun _ => T.arange 500 [3] } with
    | some L' => L'.members.map fun x => (x.leaf "a").toList | none => []) = [[500, 1], [501, 502]] := by decide
-- … and spanning the stack dim of `exL`: rows [T, F, T] and [F, F, T]
example : (match lazySetCoreM exL [.mask (T.ofList [2, 3] [true, false, true, false, false, true])]
      { batch := [3], keys := ["a"], leaf := fun _ => T.arange 500 [3] } with
    | some L' => L'.members.map fun x => (x.leaf "a").toList | none => []) = [[500, 1], [10, 11], [501, 502]] := by decide
-- `exL[:, 1] = tensor([7, 8])`: the value (shape [2]) is the indexed shape of "a" already; `exL[0] = 5` broadcasts a number
example : (match lazySetTensor exL ["a"] (fun _ => []) [Ix.full, .int 1] (T.ofList [2] [7, 8]) with
    | some L' => L'.members.map fun x => (x.leaf "a").toList | none => []) = [[0, 1], [7, 8], [20, 21]] := by decide
example : (match lazySetTensor exL ["a"] (fun _ => []) [.int 0] (T.ofList [] [5]) with
    | some L' => L'.members.map fun x => (x.leaf "a").toList | none => []) = [[5, 1], [5, 11], [5, 21]] := by decide
-- view / flatten: `exL.view(6)` = `exL.flatten(0, 1)`: 6 pieces (plain tensordicts) stacked along 0
example : (match lazyView exL [6] with
    | some (.lazy i ps) => (i, ps.length, (absR2 (.lazy i ps)).batch, ((absR2 (.lazy i ps)).leaf "a").toList)
    | _ => (9, 0, [], [])) = (0, 6, [6], [0, 10, 20, 1, 11, 21]) := by decide
example : (match lazyFlatten exL 0 (-1) with
    | some (.lazy i ps) => (i, ps.length, ((absR2 (.lazy i ps)).leaf "a").toList)
    | _ => (9, 0, [])) = (0, 6, [0, 10, 20, 1, 11, 21]) := by decide
example : (((absL exL).leaf "a").flattenAt 0 2).toList = [0, 10, 20, 1, 11, 21] := by decide
-- update_at_: `exL.update_at_(v, (1,))` with `v` of batch [3] writes row 1 of the dense stack
example : (match lazyUpdateAt exL [.int 1] { batch := [3], keys := ["a"], leaf := fun _ => T.arange 500 [3] } with
    | some L' => ((absL L').leaf "a").toList | none => []) = [0, 10, 20, 500, 501, 502] := by decide
-- stack of stacks: two copies of `exL` stacked at dim 0 (batch [2, 2, 3]); `lol[1, :, 2]` is
-- `inner_1[:, 2]` = member 2 of the second inner stack
def exL2 : Lazy2 Int := ⟨[exL, exL], 0⟩
example : Uniform2 exL2 [2] ["a"] (fun _ => []) 1 3 :=
  ⟨by
    intro Li hLi
    simp only [exL2, List.mem_cons, List.not_mem_nil, or_false, or_self] at hLi
    subst hLi
    exact ⟨⟨by simp [exL, exM], by simp [exL, exM], by simp [exL, exM, T.arange], by simp [exL]⟩, rfl, rfl⟩,
   by decide, by decide, by decide⟩
example : (match lazyGet2 exL2 [.int 1, Ix.full, .int 2] with
    | some r => ((absR2 r).leaf "a").toList | none => []) = [20, 21] := by decide
example : ((abs2 exL2).getitem [.int 1, Ix.full, .int 2]).isSome = true := by decide
example : (match lazyPermute2 exL2 [2, 0, 1] with
    | some R => (R.sd, R.members.map (·.sd), (abs2 R).batch) | none => (99, [], [])) = (1, [0, 0], [3, 2, 2]) := by decide

end TdVerif.Props.C08
