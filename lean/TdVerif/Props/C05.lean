/-
  C05 — a locked tensordict's structure and storage bindings cannot change: property theorems.

  Model: `Model/C05Lock.lean` (heap machine transcribing the lock code; tied to the implementation by the
  event-history correspondence of `harness/check_C05.py`).
  Table: `Gen/LockTable.lean` (regenerated from the source on every run: guards of every public structural mutator).

  Vocabulary.  `flagged h i`: `_is_locked` of object `i` is truthy.  `isLocked h i`: what `i.is_locked` returns
  (for a lazy stack with `_is_locked = None`: derived from the members).  `Reach h r n`: `n` is `r` or sits below `r`
  (nested entry, lazy-stack member, tensorclass field).  `Inv h`: the heap is well formed (kids are older than their
  containers, entries of live containers are alive, no *empty* lazy stack, nothing beyond `size`) and `LockClosed`:
  every entry of a live flagged container is flagged and lists that container among its lock parents.

  Deviation from DESIGN §6 C05: the design's `LockClosed` asked for the *root* in the lock parents of every
  node below it.  That is not an invariant of the code (`root_in_parents_not_invariant`): a refused `unlock_`
  clears the lists of the descendants it had already checked and the re-lock only hands down references the
  intermediate nodes did not have yet.  What *is* invariant, and what refuses a member's `unlock_`, is the
  direct-container version used here.
-/
import TdVerif.Lemmas.C05Inv3
import TdVerif.Lemmas.C05Shallow
import TdVerif.Gen.LockTable

namespace TdVerif.Props.C05
open TdVerif TdVerif.C05

/-! ## the lock graph is established by every way of becoming locked -/

/-- every node below `r` is flagged and every container below `r` is registered in each of its entries -/
def ClosedBelow (h : Heap) (r : Nat) : Prop :=
  ∀ q, Reach h r q → flagged h q = true ∧ ∀ j, j ∈ kidIds h q → q ∈ parentsOf h j

/-- `lock_()` on any node that does not already *report* locked (or whose flag is already set) locks
everything reachable from it and registers the lock graph, whatever was locked before and however the
subtrees are shared. -/
theorem lock_establishes (h : Heap) (hinv : Inv h) (r : Nat) (hr : r < h.size) (hl : live h r = true)
    (hnd : isLocked h r = false ∨ flagged h r = true) :
    Inv (lockEv h r).1 ∧ ClosedBelow (lockEv h r).1 r ∧ isLocked (lockEv h r).1 r = true := by
  refine ⟨inv_lockEv hinv hr, ?_⟩
  unfold lockEv
  by_cases hk : isLocked h r = true
  · rw [if_pos hk]
    have hf : flagged h r = true := by
      rcases hnd with x | x
      · rw [x] at hk; cases hk
      · exact x
    refine ⟨fun q hq => ?_, hk⟩
    have := closed_reach hinv hl hf q hq
    exact ⟨this.2, fun j hj => (hinv.closed q j this.1 this.2 hj).2⟩
  · rw [if_neg hk]
    have post := propLockF_post (r + 1) h none r hinv.ordered hinv.nonEmptyLazy (by omega) (by simp)
    have s := (propLockF_le (r + 1) h none r).1
    refine ⟨fun q hq => ?_, isLocked_of_flagged _ _ post.1⟩
    have hq0 := s.symm.reach hq
    exact ⟨(post.2.2 q hq0).1, fun j hj => (post.2.2 q hq0).2 j (by rw [← s.kidIds]; exact hj)⟩

/-- `memmap_()` (repaired code: flags, then `_propagate_lock` from the root) establishes the graph,
also when the root is a lazy stack and whatever was flagged before. -/
theorem memmap_establishes (h : Heap) (hinv : Inv h) (r : Nat) (hr : r < h.size) :
    Inv (memmapEv h r) ∧ ClosedBelow (memmapEv h r) r := by
  refine ⟨inv_memmapEv hinv hr, ?_⟩
  unfold memmapEv
  have l1 := memmapFlagsF_le (r + 1) h r
  generalize memmapFlagsF (r + 1) h r = h1 at l1
  have post := propLockF_post (r + 1) h1 none r (l1.1.ordered hinv.ordered) (l1.1.nonEmptyLazy hinv.nonEmptyLazy)
    (by omega) (by simp)
  have s := (propLockF_le (r + 1) h1 none r).1
  intro q hq
  have hq0 := s.symm.reach hq
  exact ⟨(post.2.2 q hq0).1, fun j hj => (post.2.2 q hq0).2 j (by rw [← s.kidIds]; exact hj)⟩

/-- the constructor with `lock=True`, `__setstate__` of a locked object, a tensorclass built locked:
a new plain node over existing live entries, then `lock_()`. -/
theorem ctor_lock_establishes (s : State) (hinv : Inv s.heap) (kids : List (String × Nat))
    (leaves : List (String × Nat × Nat))
    (hk : kids.all (fun e => e.2 < s.heap.size && live s.heap e.2) = true) :
    let s' := (step s (.viaCtor kids leaves true)).1
    Inv s'.heap ∧ ClosedBelow s'.heap s.heap.size ∧ isLocked s'.heap s.heap.size = true := by
  intro s'
  have hk' : ∀ x, x ∈ kids.map (·.2) → x < s.heap.size ∧ live s.heap x = true := by
    intro x hx
    obtain ⟨e, he, rfl⟩ := List.mem_map.mp hx
    have := List.all_eq_true.mp hk e he
    simpa using this
  have ia : Inv (s.heap.alloc { alive := true, kids := kids, leaves := leaves }) :=
    inv_alloc hinv _ rfl hk' (by simp) (by simp)
  have hs' : s'.heap = (lockEv (s.heap.alloc { alive := true, kids := kids, leaves := leaves }) s.heap.size).1 := by
    simp [s', step, Ev.target, stepLive, hk]
  rw [hs']
  have hnl : isLocked (s.heap.alloc { alive := true, kids := kids, leaves := leaves }) s.heap.size = false :=
    isLocked_of_some _ _ false (by rw [alloc_node_self])
  exact lock_establishes _ ia s.heap.size (by show s.heap.size < s.heap.size + 1; omega)
    (by unfold live; rw [alloc_node_self]) (.inl hnl)

/-- `share_memory_()` keeps the heap well formed (children first; a TensorDict finishes with `lock_()`, a lazy stack registers
itself with `_propagate_lock`, so that a lazy root is a flagged member of the lock graph and not a derived lock). -/
theorem share_preserves (h : Heap) (hinv : Inv h) (r : Nat) (hr : r < h.size) : Inv (shareEv h r) :=
  inv_shareEv hinv hr

/-! ## the invariant is preserved by every event -/

/-- events in the modelled domain: no *empty* lazy stack is created, and mutators are those the lock guards
(or in-place value writers) — `mutators_guarded` below shows that every public structural mutator of the
current source qualifies. -/
def evOkB : Ev → Bool
  | .lazyOver ms _ => !ms.isEmpty
  | .mut _ m => m.eff.isWrite || m.guard.blocks m.kwBypass
  | .mutPath _ _ m => m.eff.isWrite || m.guard.blocks m.kwBypass
  | _ => true
def EvOk (e : Ev) : Prop := evOkB e = true
instance (e : Ev) : Decidable (EvOk e) := inferInstanceAs (Decidable (evOkB e = true))

theorem inv_mutEv (h : Heap) (hinv : Inv h) (i : Nat) (hi : i < h.size) (hl : live h i = true) (m : Mut)
    (hm : m.eff.isWrite = true ∨ m.guard.blocks m.kwBypass = true) : Inv (mutEv h i m).1 := by
  unfold mutEv
  by_cases hw : m.eff.isWrite = true
  · simp only [hw, if_true]
    cases hae : applyEff (h.node i) m.eff with
    | none => exact hinv
    | some n' =>
      obtain ⟨a, b, c, d, _, f⟩ := applyEff_spec _ _ _ hae
      exact inv_upd_leaves hinv hi n' a b c d (f hw)
  · have hw' : m.eff.isWrite = false := by simpa using hw
    have hb : m.guard.blocks m.kwBypass = true := by
      rcases hm with x | x
      · rw [x] at hw'; cases hw'
      · exact x
    simp only [hw', hb, Bool.and_true]
    by_cases hlk : isLocked h i = true
    · simp [hlk]; exact hinv
    · have hlk' : isLocked h i = false := by simpa using hlk
      have hnf : flagged h i = false := by
        cases hf : flagged h i with
        | false => rfl
        | true => rw [isLocked_of_flagged h i hf] at hlk'; cases hlk'
      simp only [hlk']
      by_cases hlz : ((h.node i).lazy && !m.eff.isAddKid) = true
      · simp [hlz]; exact hinv
      · have hlz' : ((h.node i).lazy && !m.eff.isAddKid) = false := by simpa using hlz
        simp only [hlz']
        have core : ∀ n', applyEff (h.node i) m.eff = some n' →
            (∀ x, x ∈ n'.kids.map (·.2) → x < i ∧ live h x = true) →
            (n'.lazy = true → n'.kids.map (·.2) ≠ []) → Inv (h.upd i (fun _ => n')) := by
          intro n' hae hk hne
          obtain ⟨a, b, c, d, _, _⟩ := applyEff_spec _ _ _ hae
          exact inv_upd_node hinv hi hnf n' a b c d hk hne
        cases hme : m.eff with
        | addKid k j =>
          simp only [Bool.false_eq_true, if_false]
          by_cases hj : (decide (j < i) && live h j) = true
          · simp only [hj, if_true]
            cases hae : applyEff (h.node i) (.addKid k j) with
            | none => exact hinv
            | some n' =>
              simp only
              have hj' : j < i ∧ live h j = true := by simpa using hj
              refine core n' (by rw [hme]; exact hae) (fun x hx => ?_) (fun _ => ?_)
              · rcases (applyEff_spec _ _ _ hae).2.2.2.2.1 x hx with hx | ⟨k', hk'⟩
                · exact ⟨hinv.ordered i x hx, hinv.kidsAlive i x hl hx⟩
                · cases hk'; exact hj'
              · simp only [applyEff, Option.some.injEq] at hae; subst hae
                simp only [ne_eq, List.map_eq_nil_iff]
                exact setKid_ne_nil _ _ _
          · have hj' : (decide (j < i) && live h j) = false := by simpa using hj
            simp only [hj']; exact hinv
        | addLeaf k o =>
          simp only [Bool.false_eq_true, if_false]
          cases hae : applyEff (h.node i) (.addLeaf k o) with
          | none => exact hinv
          | some n' =>
            refine core n' (by rw [hme]; exact hae) (fun x hx => ?_) (fun hz => ?_)
            · rcases (applyEff_spec _ _ _ hae).2.2.2.2.1 x hx with hx | ⟨k', hk'⟩
              · exact ⟨hinv.ordered i x hx, hinv.kidsAlive i x hl hx⟩
              · cases hk'
            · rw [(applyEff_spec _ _ _ hae).2.1] at hz
              rw [hme] at hlz'; simp [hz, Eff.isAddKid] at hlz'
        | del k =>
          simp only [Bool.false_eq_true, if_false]
          cases hae : applyEff (h.node i) (.del k) with
          | none => exact hinv
          | some n' =>
            refine core n' (by rw [hme]; exact hae) (fun x hx => ?_) (fun hz => ?_)
            · rcases (applyEff_spec _ _ _ hae).2.2.2.2.1 x hx with hx | ⟨k', hk'⟩
              · exact ⟨hinv.ordered i x hx, hinv.kidsAlive i x hl hx⟩
              · cases hk'
            · rw [(applyEff_spec _ _ _ hae).2.1] at hz
              rw [hme] at hlz'; simp [hz, Eff.isAddKid] at hlz'
        | rename k k' =>
          simp only [Bool.false_eq_true, if_false]
          cases hae : applyEff (h.node i) (.rename k k') with
          | none => exact hinv
          | some n' =>
            refine core n' (by rw [hme]; exact hae) (fun x hx => ?_) (fun hz => ?_)
            · rcases (applyEff_spec _ _ _ hae).2.2.2.2.1 x hx with hx | ⟨k', hk'⟩
              · exact ⟨hinv.ordered i x hx, hinv.kidsAlive i x hl hx⟩
              · cases hk'
            · rw [(applyEff_spec _ _ _ hae).2.1] at hz
              rw [hme] at hlz'; simp [hz, Eff.isAddKid] at hlz'
        | keep ks =>
          simp only [Bool.false_eq_true, if_false]
          cases hae : applyEff (h.node i) (.keep ks) with
          | none => exact hinv
          | some n' =>
            refine core n' (by rw [hme]; exact hae) (fun x hx => ?_) (fun hz => ?_)
            · rcases (applyEff_spec _ _ _ hae).2.2.2.2.1 x hx with hx | ⟨k', hk'⟩
              · exact ⟨hinv.ordered i x hx, hinv.kidsAlive i x hl hx⟩
              · cases hk'
            · rw [(applyEff_spec _ _ _ hae).2.1] at hz
              rw [hme] at hlz'; simp [hz, Eff.isAddKid] at hlz'
        | drop ks =>
          simp only [Bool.false_eq_true, if_false]
          cases hae : applyEff (h.node i) (.drop ks) with
          | none => exact hinv
          | some n' =>
            refine core n' (by rw [hme]; exact hae) (fun x hx => ?_) (fun hz => ?_)
            · rcases (applyEff_spec _ _ _ hae).2.2.2.2.1 x hx with hx | ⟨k', hk'⟩
              · exact ⟨hinv.ordered i x hx, hinv.kidsAlive i x hl hx⟩
              · cases hk'
            · rw [(applyEff_spec _ _ _ hae).2.1] at hz
              rw [hme] at hlz'; simp [hz, Eff.isAddKid] at hlz'
        | clear =>
          simp only [Bool.false_eq_true, if_false]
          cases hae : applyEff (h.node i) .clear with
          | none => exact hinv
          | some n' =>
            refine core n' (by rw [hme]; exact hae) (fun x hx => ?_) (fun hz => ?_)
            · rcases (applyEff_spec _ _ _ hae).2.2.2.2.1 x hx with hx | ⟨k', hk'⟩
              · exact ⟨hinv.ordered i x hx, hinv.kidsAlive i x hl hx⟩
              · cases hk'
            · rw [(applyEff_spec _ _ _ hae).2.1] at hz
              rw [hme] at hlz'; simp [hz, Eff.isAddKid] at hlz'
        | write k => rw [hme] at hw'; simp [Eff.isWrite] at hw'

theorem inv_stepLive (s : State) (hinv : Inv s.heap) (e : Ev) (hok : EvOk e)
    (ht : ∀ i, e.target = some i → live s.heap i = true ∧ i < s.heap.size) : Inv (stepLive s e).1.heap := by
  cases e with
  | lock i => exact inv_lockEv hinv (ht i rfl).2
  | unlock i => exact inv_unlockEv hinv (ht i rfl).2
  | viaCtor kids leaves lock =>
    simp only [stepLive]
    split
    · rename_i hk
      have hk' : ∀ x, x ∈ kids.map (·.2) → x < s.heap.size ∧ live s.heap x = true := by
        intro x hx
        obtain ⟨e, he, rfl⟩ := List.mem_map.mp hx
        have := List.all_eq_true.mp hk e he
        simpa using this
      have ia : Inv (s.heap.alloc { alive := true, kids := kids, leaves := leaves }) :=
        inv_alloc hinv _ rfl hk' (by simp) (by simp)
      cases lock with
      | true => exact inv_lockEv ia (by show s.heap.size < s.heap.size + 1; omega)
      | false => exact ia
    · exact hinv
  | lazyOver ms lock =>
    simp only [stepLive]
    split
    · rename_i hk
      have hkids : (ms.zipIdx.map (fun e => (toString e.2, e.1))).map (·.2) = ms := by
        simp [List.map_map, Function.comp_def]
      have ia : Inv (s.heap.alloc { alive := true, lazy := true, flag := (if lock then some false else none), kids := ms.zipIdx.map (fun e => (toString e.2, e.1)) }) := by
        refine inv_alloc hinv _ rfl (fun x hx => ?_) (by cases lock <;> simp) (fun _ => ?_)
        · rw [hkids] at hx
          have := List.all_eq_true.mp hk x hx
          simpa using this
        · rw [hkids]; intro e; rw [e] at hok; simp [EvOk, evOkB] at hok
      cases lock with
      | true => exact inv_lockEv ia (by show s.heap.size < s.heap.size + 1; omega)
      | false => exact ia
    · exact hinv
  | viaShare i => exact inv_shareEv hinv (ht i rfl).2
  | viaMemmap i => exact inv_memmapEv hinv (ht i rfl).2
  | gcDrop i =>
    simp only [stepLive]
    split
    · exact hinv
    · rename_i hh
      exact inv_gc hinv (by simpa using hh)
  | «mut» i m => exact inv_mutEv s.heap hinv i (ht i rfl).2 (ht i rfl).1 m (by simpa [EvOk, evOkB] using hok)
  | mutPath i path m =>
    simp only [stepLive, mutPathEv]
    split
    · rename_i t hw
      have hlt := live_of_reach hinv (ht i rfl).1 (walk_reach _ _ _ _ hw)
      exact inv_mutEv s.heap hinv t (lt_size_of_live hinv hlt) hlt m (by simpa [EvOk, evOkB] using hok)
    · exact hinv
  | withLock i => exact inv_lockEv hinv (ht i rfl).2
  | withUnlock i =>
    simp only [stepLive]
    split <;> exact inv_unlockEv hinv (ht i rfl).2
  | exitCtx =>
    simp only [stepLive]
    split
    · exact hinv
    · exact hinv
    · split
      · rename_i hc
        simp only [Bool.and_eq_true, decide_eq_true_eq] at hc
        exact inv_unlockEv hinv hc.2
      · exact hinv
    · split
      · rename_i hc
        simp only [Bool.and_eq_true, decide_eq_true_eq] at hc
        exact inv_lockEv hinv hc.2
      · exact hinv
  | unlockShallow i => exact inv_unlockShallowEv hinv (ht i rfl).2

/-- **`LockClosed` (with well-formedness) is an invariant of the whole event system**: `lock_`, `unlock_` (accepted
or refused), context managers, constructors / unpickling, lazy stacks over existing members, `share_memory_`,
`memmap_`, garbage collection of unheld objects, and every mutator call. -/
theorem closed_invariant (s : State) (hinv : Inv s.heap) (e : Ev) (hok : EvOk e) : Inv (step s e).1.heap := by
  unfold step
  cases ht : e.target with
  | none => exact inv_stepLive s hinv e hok (fun i hi => by rw [ht] at hi; cases hi)
  | some i =>
    simp only
    split
    · rename_i hc
      have hc' : live s.heap i = true ∧ i < s.heap.size := by simpa using hc
      exact inv_stepLive s hinv e hok (fun j hj => by rw [ht] at hj; cases hj; exact hc')
    · exact hinv

theorem inv_empty : Inv Heap.empty :=
  ⟨fun i j hj => by simp [kidIds, Heap.empty] at hj, fun i j hi => by simp [live, Heap.empty] at hi,
   fun i hi => by simp [Heap.empty] at hi, fun _ _ => rfl, fun p j hl => by simp [live, Heap.empty] at hl⟩

/-- every reachable state of the machine satisfies the invariant (induction over the history, no length bound) -/
theorem run_invariant (evs : List Ev) (hok : ∀ e, e ∈ evs → EvOk e) :
    ∀ s : State, Inv s.heap → Inv (run s evs).heap := by
  induction evs with
  | nil => intro s hs; exact hs
  | cons e evs ih =>
    intro s hs
    have : run s (e :: evs) = run (step s e).1 evs := rfl
    rw [this]
    exact ih (fun e' he' => hok e' (List.mem_cons_of_mem _ he')) _ (closed_invariant s hs e (hok e List.mem_cons_self))

/-- consequence of the invariant: below a live locked container every node is alive and locked, and each one
(except the container itself) has a live locked direct container that it lists among its lock parents. -/
theorem locked_tree_closed (h : Heap) (hinv : Inv h) (r : Nat) (hl : live h r = true) (hf : flagged h r = true)
    (n : Nat) (hr : Reach h r n) :
    live h n = true ∧ isLocked h n = true ∧
      (n = r ∨ ∃ p, Reach h r p ∧ n ∈ kidIds h p ∧ live h p = true ∧ flagged h p = true ∧ p ∈ parentsOf h n) := by
  obtain ⟨a, b⟩ := closed_reach hinv hl hf n hr
  refine ⟨a, isLocked_of_flagged h n b, ?_⟩
  cases hr with
  | refl => exact .inl rfl
  | step hp hc =>
    obtain ⟨c, d⟩ := closed_reach hinv hl hf _ hp
    exact .inr ⟨_, hp, hc, c, d, (hinv.closed _ _ c d hc).2⟩

/-! ## a member cannot be unlocked on its own; unlocking the root frees the tree -/

/-- **a member of a locked tree cannot be unlocked on its own**: `unlock_()` on any node strictly below a live
locked container raises, and afterwards every object reports the same `is_locked` as before (the transient
clearing is undone by the re-lock), on a graph of any shape. -/
theorem member_unlock_refused (h : Heap) (hinv : Inv h) (r n : Nat) (hl : live h r = true) (hf : flagged h r = true)
    (hr : Reach h r n) (hne : n ≠ r) :
    (unlockEv h n).2 = .errLock ∧ (∀ m, isLocked (unlockEv h n).1 m = isLocked h m) ∧
      SameShape h (unlockEv h n).1 := by
  obtain ⟨hln, _, hp⟩ := locked_tree_closed h hinv r hl hf n hr
  rcases hp with rfl | ⟨p, hrp, hnp, hlp, hfp, hpn⟩
  · exact absurd rfl hne
  have hns : n < h.size := lt_size_of_live hinv hln
  have f := unlock_facts hinv.ordered n
  obtain ⟨s, o2, ka2, ne2, bd2⟩ := unlock_shape hinv hns f
  have hnp' : ¬ Reach h n p := fun rr => by
    have := rr.le hinv.ordered; have := hinv.ordered p n hnp; omega
  rcases hck : checkAll (propUnlockF (n + 1) h n).1 ((propUnlockF (n + 1) h n).2 ++ [n]) with ⟨h2, b⟩
  rw [hck] at f s o2 ka2 ne2 bd2
  simp only at f s o2 ka2 ne2 bd2
  have hlocked : hasLockedParent (propUnlockF (n + 1) h n).1 n = true := by
    unfold hasLockedParent
    rw [List.any_eq_true]
    refine ⟨p, (f.ue.parentsOf_eq n p).mpr hpn, ?_⟩
    have e1 : live (propUnlockF (n + 1) h n).1 p = true := by rw [f.ue.1.live]; exact hlp
    have e2 : flagged (propUnlockF (n + 1) h n).1 p = true := by unfold flagged at hfp ⊢; rw [f.frame1 p hnp']; exact hfp
    simp [e1, e2]
  have hb : b = false := by
    cases b with
    | false => rfl
    | true =>
      have := (f.ok_iff.mp rfl) n (by simp)
      rw [hlocked] at this; cases this
  subst hb
  rw [unlockEv_fail h n h2 hck]
  simp only
  have hnl : isLocked h2 n = false :=
    isLocked_false_of_cleared h2 o2 n (fun m hm => f.cleared m (s.symm.reach hm)) (n + 1) n (by omega) (Reach.refl n)
  have e : (lockEv h2 n).1 = propLockF (n + 1) h2 none n := by simp [lockEv, hnl]
  rw [e]
  have le := propLockF_le (n + 1) h2 none n
  have post := propLockF_post (n + 1) h2 none n o2 ne2 (by omega) (by simp)
  have s3 := s.trans le.1
  refine ⟨by first | rfl | trivial, fun m => ?_, s3⟩
  unfold isLocked
  apply isLockedF_congr h _ (fun i => s3.kidIds i)
  intro i
  by_cases ri : Reach h n i
  · have a := (post.2.2 i (s.reach ri)).1
    have b := (closed_reach hinv hl hf i (hr.trans ri)).2
    rw [flagged_iff] at a b
    rw [a, b]
  · rw [propLockF_frame _ _ _ _ _ (fun rr => ri (s.symm.reach rr)), f.frame2 i ri]

/-- **unlocking the root makes the whole tree writable again**: if no node below `r` has a live locked
container outside the tree of `r`, `r.unlock_()` succeeds and every node below `r` reports unlocked. -/
theorem root_unlock_frees (h : Heap) (hinv : Inv h) (r : Nat) (hr : r < h.size)
    (hno : ∀ n, Reach h r n → ∀ x, x ∈ parentsOf h n → live h x = true → flagged h x = true → Reach h r x) :
    (unlockEv h r).2 = .ok ∧ (∀ n, Reach h r n → isLocked (unlockEv h r).1 n = false) ∧
      Inv (unlockEv h r).1 := by
  refine ⟨?_, ?_, inv_unlockEv hinv hr⟩
  all_goals
    have f := unlock_facts hinv.ordered r
    obtain ⟨s, o2, ka2, ne2, bd2⟩ := unlock_shape hinv hr f
    rcases hck : checkAll (propUnlockF (r + 1) h r).1 ((propUnlockF (r + 1) h r).2 ++ [r]) with ⟨h2, b⟩
    rw [hck] at f s o2 ka2 ne2 bd2
    simp only at f s o2 ka2 ne2 bd2
    have hb : b = true := by
      apply f.ok_iff.mpr
      intro m hm
      have rm := f.sound m hm
      cases hlp : hasLockedParent (propUnlockF (r + 1) h r).1 m with
      | false => rfl
      | true =>
        exfalso
        unfold hasLockedParent at hlp
        rw [List.any_eq_true] at hlp
        obtain ⟨x, hx, hlf⟩ := hlp
        simp only [Bool.and_eq_true] at hlf
        have hx0 : x ∈ parentsOf h m := (f.ue.parentsOf_eq m x).mp hx
        have hl0 : live h x = true := by rw [← f.ue.1.live]; exact hlf.1
        have hnr : ¬ Reach h r x := by
          intro rx
          have c := f.cleared x rx
          have hf2 : flagged h2 x = true := by rw [f.ce.flagged]; exact hlf.2
          rw [flagged_iff] at hf2; rw [hf2] at c
          unfold unflagVal at c; split at c <;> cases c
        have hf0 : flagged h x = true := by unfold flagged; rw [← f.frame1 x hnr]; exact hlf.2
        exact hnr (hno m rm x hx0 hl0 hf0)
    subst hb
    rw [unlockEv_ok h r h2 hck]
    try (intro n hn
         exact isLocked_false_of_cleared h2 o2 r (fun m hm => f.cleared m (s.symm.reach hm)) (n + 1) n (by omega)
           (s.reach hn))

/-- after that, no mutator call on a node of the tree is refused because of the lock -/
theorem root_unlock_writable (h' : Heap) (n : Nat) (hu : isLocked h' n = false) (m : Mut) :
    (mutEv h' n m).2 ≠ .errLock := by
  unfold mutEv
  simp only [hu, Bool.false_and]
  split
  · split <;> simp
  · simp only [Bool.false_eq_true, if_false]
    split
    · simp
    · split
      · split
        · split <;> simp
        · simp
      · split <;> simp

/-! ## mutators -/

/-- **structural mutators raise and leave the tree as it was**: on a node that reports locked, a guarded mutator
call returns the lock error and the heap is literally unchanged. -/
theorem locked_frame (h : Heap) (i : Nat) (m : Mut) (hl : isLocked h i = true)
    (hg : m.guard.blocks m.kwBypass = true) (hw : m.eff.isWrite = false) : mutEv h i m = (h, .errLock) := by
  simp [mutEv, hl, hg, hw]

/-- **in-place value writes stay possible**: writing into an existing leaf of a (locked or unlocked) node succeeds,
rebinding nothing: same keys bound to the same leaf objects, same nested entries, same lock state everywhere. -/
theorem inplace_allowed (h : Heap) (i : Nat) (g : Guard) (bp : Bool) (k : String)
    (hk : (h.node i).leaves.any (·.1 == k) = true) :
    (mutEv h i ⟨g, bp, .write k⟩).2 = .ok ∧
    (((mutEv h i ⟨g, bp, .write k⟩).1.node i).leaves.map (fun e => (e.1, e.2.1)) = (h.node i).leaves.map (fun e => (e.1, e.2.1))) ∧
    ((mutEv h i ⟨g, bp, .write k⟩).1.node i).kids = (h.node i).kids ∧
    (∀ m, m ≠ i → (mutEv h i ⟨g, bp, .write k⟩).1.node m = h.node m) ∧
    (∀ m, isLocked (mutEv h i ⟨g, bp, .write k⟩).1 m = isLocked h m) := by
  have e : mutEv h i ⟨g, bp, .write k⟩ =
      (h.upd i (fun _ => { h.node i with leaves := (h.node i).leaves.map (fun e => if e.1 == k then (e.1, e.2.1, e.2.2 + 1) else e) }), .ok) := by
    simp [mutEv, Eff.isWrite, applyEff, hk]
  rw [e]
  refine ⟨rfl, ?_, by simp [upd_node_self], fun m hm => by dsimp only; exact upd_node_ne h i m _ hm, fun m => ?_⟩
  · simp only [upd_node_self, List.map_map]
    apply List.map_congr_left
    intro a _
    simp only [Function.comp]
    split <;> rfl
  · unfold isLocked
    apply isLockedF_congr
    · intro j
      by_cases hj : j = i
      · subst hj; simp [kidIds, upd_node_self]
      · simp [kidIds, upd_node_ne _ _ _ _ hj]
    · intro j
      by_cases hj : j = i
      · subst hj; simp [upd_node_self]
      · simp [upd_node_ne _ _ _ _ hj]

/-! ## the table regenerated from the source -/

open TdVerif.Gen.LockTable in
/-- every public name of every container class is classified (a new public method makes this fail) -/
theorem api_classified : ∀ a, a ∈ api → a.klass ≠ .unknown := by decide +kernel

open TdVerif.Gen.LockTable in
/-- **every public structural mutator of every container class is guarded** in the current source:
`@lock_blocked`, an explicit `is_locked` test followed by `raise`, or a call chain into such a method. -/
theorem mutators_guarded : ∀ a, a ∈ api → a.klass = .structural → a.guard.blocks false = true := by
  decide +kernel

open TdVerif.Gen.LockTable in
/-- the `inplace=` / `ignore_lock=` keywords switch `lock_blocked` off: every structural mutator that accepts
them has a second guard that they do not switch off. -/
theorem mutators_guarded_under_bypass :
    ∀ a, a ∈ api → a.klass = .structural → a.kw = true → a.guard.blocks true = true := by
  decide +kernel

open TdVerif.Gen.LockTable in
/-- `locked_frame` for the generated table: whatever the storage-dict effect, a call of a public structural
mutator on a node that reports locked raises and changes nothing (with or without the bypass keywords where the
method accepts them). -/
theorem locked_frame_api (h : Heap) (i : Nat) (hl : isLocked h i = true) (a : Api) (ha : a ∈ api)
    (hs : a.klass = .structural) (bp : Bool) (hbp : bp = true → a.kw = true) (e : Eff) (he : e.isWrite = false) :
    mutEv h i ⟨a.guard, bp, e⟩ = (h, .errLock) := by
  apply locked_frame h i _ hl _ he
  cases bp with
  | false => exact mutators_guarded a ha hs
  | true => exact mutators_guarded_under_bypass a ha hs (hbp rfl)

/-! ## non-vacuity and negation witnesses (each is replayed on the implementation by the harness) -/

def mk (evs : List Ev) : State := run { heap := Heap.empty } evs
def leafA : List (String × Nat × Nat) := [("a", 100, 0)]

/-- a three-level tree `2 → 1 → 0`, locked at the root -/
def sampleLocked : State := mk [.viaCtor [] leafA false, .viaCtor [("d", 0)] leafA false, .viaCtor [("b", 1)] leafA true]

example : Inv sampleLocked.heap :=
  run_invariant _ (by decide) _ inv_empty
example : flagged sampleLocked.heap 2 = true ∧ Reach sampleLocked.heap 2 0 :=
  ⟨by decide, .step (.step (.refl 2) (show 1 ∈ kidIds sampleLocked.heap 2 by decide))
    (show 0 ∈ kidIds sampleLocked.heap 1 by decide)⟩
example : (unlockEv sampleLocked.heap 0).2 = .errLock ∧ (unlockEv sampleLocked.heap 1).2 = .errLock ∧
    (unlockEv sampleLocked.heap 2).2 = .ok := by decide
example : (mutEv sampleLocked.heap 1 ⟨⟨true, false, false⟩, false, .del "a"⟩).2 = .errLock ∧
    (mutEv sampleLocked.heap 1 ⟨⟨true, false, false⟩, false, .write "a"⟩).2 = .ok := by decide

/-- the guard is what protects: with no guard at all (the pinned `TensorDict._exclude(inplace=True)`) the same
call on the same locked node removes the entry. -/
theorem unguarded_mutator_counterexample :
    isLocked sampleLocked.heap 1 = true ∧
    (mutEv sampleLocked.heap 1 ⟨Guard.none', false, .drop ["a"]⟩).2 = .ok ∧
    ((mutEv sampleLocked.heap 1 ⟨Guard.none', false, .drop ["a"]⟩).1.node 1).leaves = [] := by decide

/-- the pinned `memmap_` (flags only, then a no-op `lock_()`): the tree reports locked, yet `LockClosed` fails
and the nested tensordict is unlocked on its own. (DESIGN §7 row 2; repaired by `fix:` 1424d55-lineage.) -/
theorem memmap_flag_only_counterexample :
    let s := mk [.viaCtor [] leafA false, .viaCtor [("b", 0)] leafA false]
    let h := memmapEvPinned s.heap 1
    isLocked h 1 = true ∧ isLocked h 0 = true ∧ 1 ∉ parentsOf h 0 ∧
      (unlockEv h 0).2 = .ok ∧ isLocked (unlockEv h 0).1 1 = true ∧ isLocked (unlockEv h 0).1 0 = false := by
  decide

/-- **`TensorDictParams(lock=True)`, pinned `_propagate_lock`** ("we don't want to double-lock the content"): the wrapper (a container
of one tensordict, its content) sets its own flag and skips a content that is locked already, so the content never lists the
wrapper among its lock parents: `LockClosed` fails and the content is unlocked on its own while the wrapper stays locked.
The repaired code propagates unconditionally, like every other container (`lock_establishes`). -/
theorem params_locked_content_counterexample :
    let s := mk [.viaCtor [] leafA true, .viaCtor [("params", 0)] [] false]
    let h := s.heap.upd 1 (fun n => { n with flag := some true })      -- the pinned `_propagate_lock`: the flag, no descent
    isLocked h 1 = true ∧ isLocked h 0 = true ∧ 1 ∉ parentsOf h 0 ∧
      (unlockEv h 0).2 = .ok ∧ isLocked (unlockEv h 0).1 1 = true ∧ isLocked (unlockEv h 0).1 0 = false ∧
      (unlockEv (lockEv s.heap 1).1 0).2 = .errLock := by
  decide

/-- **`TensorDictParams(lock=True).unlock_()` is shallow and safe**: the invariant is kept whether the call is accepted or refused
(`closed_invariant` covers the event `unlockShallow`); when it is accepted only the wrapper changes — it reports unlocked and
forgets its lock parents, while its content and everything below keep their flags and lock parents (the content stays
locked) — and it is refused (lock error) whenever a live locked tensordict lists the wrapper among its lock parents. -/
theorem shallow_unlock_frame (h : Heap) (hinv : Inv h) (i : Nat) (hi : i < h.size) :
    Inv (unlockShallowEv h i).1 ∧
    ((unlockShallowEv h i).2 = .ok →
      flagged (unlockShallowEv h i).1 i = false ∧ ∀ m, m ≠ i → (unlockShallowEv h i).1.node m = h.node m) := by
  refine ⟨inv_unlockShallowEv hinv hi, fun hok => ?_⟩
  rw [unlockShallowEv_ok_frame h i hok]
  refine ⟨by unfold flagged; rw [upd_node_self]; rfl, fun m hm => upd_node_ne _ _ _ _ hm⟩

/-- **views have no lock of their own**: `lock_()` / `unlock_()` of a `_SubTensorDict` never change any tensordict — they return
iff they would be no-ops and raise otherwise — and a view reports the lock of its source; the legacy lazy views
(`_CustomOpTensorDict`) forward to their source, so everything proved about `lock_` / `unlock_` (`lock_establishes`,
`member_unlock_refused`, `closed_invariant`) applies to calls made through them. -/
theorem view_lock_frame (h : Heap) (src : Nat) :
    (subLockEv h src).1 = h ∧ (subUnlockEv h src).1 = h ∧
    ((subLockEv h src).2 = .okNoop ↔ viewIsLocked h src = true) ∧
    ((subUnlockEv h src).2 = .okNoop ↔ viewIsLocked h src = false) ∧
    customLockEv h src = lockEv h src ∧ customUnlockEv h src = unlockEv h src := by
  unfold subLockEv subUnlockEv viewIsLocked customLockEv customUnlockEv
  cases isLocked h src <;> simp

/-- **the functions `Model/C05Lock.lean` transcribes are the ones it was transcribed from**: fingerprints of their syntax trees
(regenerated from the source on every run into `Gen.LockTable.lockCode`; docstrings, comments, annotations and formatting do
not count). The lock code of `TensorDictParams` (a container of one tensordict), `_SubTensorDict` (no lock state: `is_locked`
is the source's, `lock_` / `unlock_` refuse any change), `_CustomOpTensorDict` (forwards to its source) and
`PersistentTensorDict` (`_propagate_lock` / `_propagate_unlock` of a plain container over the nested tensordicts it has
instantiated) is pinned here too. An edit of any of them breaks this obligation: the transcription has to be looked at again,
even if no sampled history exposes the difference. -/
theorem transcribed_lock_code : Gen.LockTable.lockCode = [
    ("tensordict/base.py", "TensorDictBase.is_locked", "getter", 43322798029706),
    ("tensordict/base.py", "TensorDictBase.is_locked", "setter", 262072616274708),
    ("tensordict/base.py", "TensorDictBase._propagate_lock", "def", 103635649489610),
    ("tensordict/base.py", "TensorDictBase._propagate_unlock", "def", 35840831123717),
    ("tensordict/base.py", "TensorDictBase._check_unlock", "def", 103734508884792),
    ("tensordict/base.py", "TensorDictBase.lock_", "def", 127057565282016),
    ("tensordict/base.py", "TensorDictBase.unlock_", "def", 217178315028388),
    ("tensordict/base.py", "TensorDictBase._lock_parents_weakrefs", "getter", 8312859044969),
    ("tensordict/utils.py", "lock_blocked", "def", 105446566695188),
    ("tensordict/utils.py", "_lock_after_memmap", "def", 106074028361656),
    ("tensordict/utils.py", "TensorDictFuture.result", "def", 99494762524330),
    ("tensordict/_lazy.py", "LazyStackedTensorDict.is_locked", "getter", 136072267606293),
    ("tensordict/_lazy.py", "LazyStackedTensorDict._lock_parents_weakrefs", "getter", 198575112916678),
    ("tensordict/_lazy.py", "LazyStackedTensorDict._propagate_lock", "def", 5793774695841),
    ("tensordict/_lazy.py", "LazyStackedTensorDict._propagate_unlock", "def", 133762776065936),
    ("tensordict/_lazy.py", "LazyStackedTensorDict.share_memory_", "def", 205896969063172),
    ("tensordict/_lazy.py", "_CustomOpTensorDict.is_locked", "getter", 80264561221847),
    ("tensordict/_lazy.py", "_CustomOpTensorDict.lock_", "def", 142901424272633),
    ("tensordict/_lazy.py", "_CustomOpTensorDict.unlock_", "def", 124262843791399),
    ("tensordict/_lazy.py", "_CustomOpTensorDict._remove_lock", "def", 123699406787815),
    ("tensordict/_lazy.py", "_CustomOpTensorDict._propagate_lock", "def", 248999399360187),
    ("tensordict/_lazy.py", "_CustomOpTensorDict._propagate_unlock", "def", 279884575396143),
    ("tensordict/_td.py", "_SubTensorDict.is_locked", "getter", 80264561221847),
    ("tensordict/_td.py", "_SubTensorDict.lock_", "def", 200125717878366),
    ("tensordict/_td.py", "_SubTensorDict.unlock_", "def", 205928275172698),
    ("tensordict/_td.py", "_SubTensorDict._remove_lock", "def", 97375184355089),
    ("tensordict/_td.py", "_SubTensorDict._propagate_lock", "def", 210018368006843),
    ("tensordict/_td.py", "TensorDict.share_memory_", "def", 233031537609033),
    ("tensordict/nn/params.py", "TensorDictParams.is_locked", "getter", 43322798029706),
    ("tensordict/nn/params.py", "TensorDictParams._propagate_lock", "def", 255951577204837),
    ("tensordict/nn/params.py", "TensorDictParams._propagate_unlock", "def", 78363313181804),
    ("tensordict/nn/params.py", "_unlock_and_set.__call__", "def", 214035718547903),
    ("tensordict/persistent.py", "PersistentTensorDict._propagate_lock", "def", 30032085879087),
    ("tensordict/persistent.py", "PersistentTensorDict._propagate_unlock", "def", 163713135868380)] := by
  decide +kernel

/-- the repaired `memmap_` on the same tree refuses -/
example :
    let s := mk [.viaCtor [] leafA false, .viaCtor [("b", 0)] leafA false, .viaMemmap 1]
    (unlockEv s.heap 0).2 = .errLock := by decide

/-- **full-strength `member_unlock_refused` is false for a lock that is only derived**: a lazy stack built over
already-locked members reports `is_locked = True` (flag `None`) but is outside every lock graph: a member is
unlocked on its own. `member_unlock_refused` is therefore stated for `flagged r` (the partial form). -/
theorem member_unlock_refused_derived_counterexample :
    let s := mk [.viaCtor [] leafA true, .viaCtor [] leafA true, .lazyOver [0, 1] false]
    Inv s.heap ∧ isLocked s.heap 2 = true ∧ flagged s.heap 2 = false ∧
      (unlockEv s.heap 0).2 = .ok ∧ isLocked (unlockEv s.heap 0).1 2 = false := by
  refine ⟨run_invariant _ (by decide) _ inv_empty, ?_⟩
  decide

/-- **`NonEmptyLazy` is necessary**: an *empty* lazy stack inside a locked tree has no member to hold its lock
parents: it is unlocked on its own while the root stays locked. -/
theorem empty_lazy_counterexample :
    let s := mk [.lazyOver [] false, .viaCtor [("L", 0)] [] true]
    isLocked s.heap 1 = true ∧ isLocked s.heap 0 = true ∧
      (unlockEv s.heap 0).2 = .ok ∧ isLocked (unlockEv s.heap 0).1 0 = false ∧ isLocked (unlockEv s.heap 0).1 1 = true := by
  decide

/-- DESIGN's original `LockClosed` (the *root* among the lock parents of every node below it) is not an
invariant of the code: after a refused `unlock_` of `r = 3` (node `1` is also held by the locked `4`), node `0`
lists only its direct container `2`. The direct-container invariant still refuses `0.unlock_()`. -/
theorem root_in_parents_not_invariant :
    let s := mk [.viaCtor [] leafA false, .viaCtor [] leafA false, .viaCtor [("m", 0), ("s", 1)] [] false,
                 .viaCtor [("x", 2)] [] false, .viaCtor [("s", 1)] [] false, .lock 4, .lock 3]
    parentsOf s.heap 0 = [3, 2] ∧ (step s (.unlock 3)).2 = .errLock ∧
      parentsOf (step s (.unlock 3)).1.heap 0 = [2] ∧ isLocked (step s (.unlock 3)).1.heap 3 = true ∧
      (unlockEv (step s (.unlock 3)).1.heap 0).2 = .errLock := by
  decide

/-- a refused `unlock_` of an *unlocked* container over a shared locked node leaves that container locked
(`except RuntimeError: self.lock_()`): modelled as the code does it. -/
example :
    let s := mk [.viaCtor [] leafA false, .viaCtor [("c", 0)] [] true, .viaCtor [("c", 0)] [] false]
    isLocked s.heap 2 = false ∧ (step s (.unlock 2)).2 = .errLock ∧ isLocked (step s (.unlock 2)).1.heap 2 = true := by
  decide

end TdVerif.Props.C05
