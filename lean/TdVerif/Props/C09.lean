/-
  C09 — arithmetic, comparisons and reductions act entry by entry, matched by key.
  Property theorems over the key-pairing model (Model/C09KV.lean) and the shape model
  (Model/C09Shape.lean).  `V` (leaves) and `f` (the torch operation) are arbitrary.
-/
import TdVerif.Model.C09KV
import TdVerif.Lemmas.C09KV
import TdVerif.Model.C09Shape
import TdVerif.Lemmas.C09Shape

namespace TdVerif.Props.C09
open TdVerif.C09

variable {V : Type}

/-! ## out-of-place binary operations (add, sub, mul, div, pow, maximum, minimum, clamp_*, logical/bitwise and) -/

/-- what a successful `self <op> other` (`default=None`) went through -/
theorem binop_none_ok (f : V → V → V) (a b r : KV V) (hna : (keys a).Nodup)
    (h : binop f a (.td b) .none = .ok r) :
    ∃ nv rs, valuesSorted b (keys a) = .ok nv ∧ a ≠ [] ∧ ¬ nv.length < b.length ∧
      foreach2 f ((vals a).map some) (nv.map some) = .ok rs ∧ r = (keys a).zip rs := by
  rw [binop_none_unfold] at h
  cases hs : itemsSortedStrict b (keys a) with
  | error e => simp [hs] at h
  | ok nv =>
    simp only [hs] at h
    cases hne : nonEmpty ((vals a).map some) with
    | error e => simp [hne] at h
    | ok u =>
      simp only [hne] at h
      have ha : a ≠ [] := by intro e; subst e; simp [vals, nonEmpty] at hne
      cases hf : foreach2 f ((vals a).map some) (nv.map some) with
      | error e => simp [hf] at h
      | ok rs =>
        simp only [hf] at h
        have hl : a.length = rs.length := by
          have := (foreach2_length f _ _ rs hf).1; simp [vals] at this; omega
        rw [rebuildPop_zip_self a hna rs hl ha] at h
        injection h with h
        obtain ⟨hv, hlen⟩ := itemsSortedStrict_ok b (keys a) nv hs
        exact ⟨nv, rs, hv, ha, hlen, hf, h.symm⟩

/-- **binop_pointwise.** When `self <op> other` succeeds (`default=None`), the result has exactly self's
keys, in self's order, and under every key `k` holds `f (self[k]) (other[k])` — the entries stored under
that *same key* on both sides, whatever the insertion orders. -/
theorem binop_pointwise (f : V → V → V) (a b r : KV V) (hna : (keys a).Nodup)
    (h : binop f a (.td b) .none = .ok r) :
    keys r = keys a ∧ ∀ k, get? r k = pair f (get? a k) (get? b k) := by
  obtain ⟨nv, rs, hv, _, _, hf, hr⟩ := binop_none_ok f a b r hna h
  have hl : (keys a).length = rs.length := by
    have := (foreach2_length f _ _ rs hf).1; simp [vals, keys] at this ⊢; omega
  have hφ : (vals a).map some = (keys a).map (get? a) := (map_get?_keys_self a hna).symm
  have hψ : nv.map some = (keys a).map (get? b) := (valuesSorted_ok b (keys a) nv hv).symm
  rw [hφ, hψ] at hf
  have hm := foreach2_map f (keys a) (get? a) (get? b) rs hf
  subst hr
  refine ⟨keys_zip _ _ hl, fun k => ?_⟩
  rw [get?_zip_of_map (keys a) hna (fun k => pair f (get? a k) (get? b k)) rs hm k]
  by_cases hk : k ∈ keys a
  · simp [hk]
  · have : get? a k = none := (get?_eq_none_iff a k).mpr hk
    simp [hk, this, pair]

/-- **binop_perm_invariant.** Any permutation of the other operand's insertion (and nesting) order leaves the
whole outcome — values, key order, or the error — unchanged (`default=None` and `"intersection"`; for a tensor
default the extra keys come out in hash order, see `binop_default_pointwise` for the order-free statement). -/
theorem binop_perm_invariant (f : V → V → V) (a b b' : KV V) (d : Dflt V) (hd : ∀ dv, d ≠ .value dv)
    (h : b'.Perm b) (hnb : (keys b).Nodup) :
    binop f a (.td b') d = binop f a (.td b) d := by
  unfold binop
  simp only [itemsSorted_perm h hnb (keys a) d hd]

/-- **`default="intersection"`**: only the keys present on both sides survive, each with `f` of the two
entries stored under it. -/
theorem binop_intersection_pointwise (f : V → V → V) (a b r : KV V) (hna : (keys a).Nodup)
    (h : binop f a (.td b) .intersection = .ok r) (k : Path) :
    get? r k = pair f (get? a k) (get? b k) := by
  have hi : itemsSorted b (keys a) .intersection
      = .ok ((keys a).filter (hasKey b), ((keys a).filter (hasKey b)).map (get? b)) := rfl
  rw [binop_td_unfold f a _ .intersection _ _ hi (by simp)] at h
  cases hne : nonEmpty (((keys a).filter (hasKey b)).map (getOr a .intersection)) with
  | error e => simp [hne] at h
  | ok u =>
    simp only [hne] at h
    cases hf : foreach2 f (((keys a).filter (hasKey b)).map (getOr a .intersection)) (((keys a).filter (hasKey b)).map (get? b)) with
    | error e => simp [hf] at h
    | ok rs =>
      simp only [hf] at h
      cases hr : rebuildPop a (((keys a).filter (hasKey b)).zip rs) with
      | none => simp [hr] at h
      | some r' =>
        simp only [hr] at h
        injection h with h; subst h
        have hks : ((keys a).filter (hasKey b)).Nodup := hna.filter _
        rw [fused_core f a hna _ hks _ _ rs r' hf hr k]
        by_cases hm : k ∈ (keys a).filter (hasKey b)
        · have hka := ((mem_filter_hasKey b (keys a) k).mp hm).1
          cases hg : get? a k with
          | none => exact absurd hka ((get?_eq_none_iff a k).mp hg)
          | some v => simp [hm, getOr, hg]
        · simp only [hm, ↓reduceIte]
          rw [mem_filter_hasKey] at hm
          by_cases hka : k ∈ keys a
          · have : get? b k = none := (get?_eq_none_iff _ k).mpr (fun hb => hm ⟨hka, hb⟩)
            simp [pair, this]
          · have : get? a k = none := (get?_eq_none_iff _ k).mpr hka
            simp [pair, this]

/-- **`default=<tensor>`**: the result is defined on the union of the key sets; an entry missing on either
side is replaced by the default before `f` is applied. -/
theorem binop_default_pointwise (f : V → V → V) (a b r : KV V) (dv : V) (hna : (keys a).Nodup)
    (hnb : (keys b).Nodup) (h : binop f a (.td b) (.value dv) = .ok r) (k : Path) :
    get? r k = if k ∈ keys a ∨ k ∈ keys b
               then some (f ((get? a k).getD dv) ((get? b k).getD dv)) else none := by
  have hi : itemsSorted b (keys a) (.value dv)
      = .ok (unionKeys (keys a) (keys b), (unionKeys (keys a) (keys b)).map
          (getOr b (.value dv))) := rfl
  rw [binop_td_unfold f a _ (.value dv) _ _ hi (by simp)] at h
  generalize hnk : unionKeys (keys a) (keys b) = nk at h
  cases hne : nonEmpty (nk.map (getOr a (.value dv))) with
  | error e => simp [hne] at h
  | ok u =>
    simp only [hne] at h
    cases hf : foreach2 f (nk.map (getOr a (.value dv))) (nk.map (getOr b (.value dv))) with
    | error e => simp [hf] at h
    | ok rs =>
      simp only [hf] at h
      cases hr : rebuildPop a (nk.zip rs) with
      | none => simp [hr] at h
      | some r' =>
        simp only [hr] at h
        injection h with h; subst h
        have hks : nk.Nodup := hnk ▸ nodup_unionKeys _ _ hna hnb
        rw [fused_core f a hna _ hks _ _ rs r' hf hr k]
        have hmem : k ∈ nk ↔ k ∈ keys a ∨ k ∈ keys b := by rw [← hnk, mem_unionKeys]
        by_cases hm : k ∈ keys a ∨ k ∈ keys b
        · simp only [hmem.mpr hm, hm, ↓reduceIte]
          simp only [getOr]
          cases get? a k <;> cases get? b k <;> simp [pair, Dflt.asVal]
        · have : k ∉ nk := fun h => hm (hmem.mp h)
          simp [hm, this]

/-- a key of self that the other operand lacks: `KeyError` (`default=None`) -/
theorem binop_missing_key_raises (f : V → V → V) (a b : KV V) (k : Path) (hk : k ∈ keys a)
    (hb : k ∉ keys b) : binop f a (.td b) .none = .error .key := by
  rw [binop_none_unfold]
  have hs : itemsSortedStrict b (keys a) = .error .key := by
    simp only [itemsSortedStrict]
    cases hv : valuesSorted b (keys a) with
    | error e => obtain ⟨he, _⟩ := valuesSorted_err _ _ e hv; simp [he]
    | ok nv =>
      have := valuesSorted_ok _ _ nv hv
      have hkk : get? b k = none := (get?_eq_none_iff _ k).mpr hb
      have : ∀ x ∈ (keys a).map (get? b), x.isSome := by
        rw [this]; intro x hx; obtain ⟨y, _, e⟩ := List.mem_map.mp hx; simp [← e]
      have := this _ (List.mem_map.mpr ⟨k, hk, rfl⟩)
      simp [hkk] at this
  simp [hs]

/-- a key of the other operand that self lacks: `KeyError` as well (`len(new_vals) < len(vals)`) -/
theorem binop_extra_key_raises (f : V → V → V) (a b : KV V) (hlt : a.length < b.length) :
    binop f a (.td b) .none = .error .key := by
  rw [binop_none_unfold]
  have hs : itemsSortedStrict b (keys a) = .error .key := by
    simp only [itemsSortedStrict]
    cases hv : valuesSorted b (keys a) with
    | error e => obtain ⟨he, _⟩ := valuesSorted_err _ _ e hv; simp [he]
    | ok nv =>
      have : nv.length = a.length := by rw [valuesSorted_length _ _ nv hv]; simp [keys]
      simp only [this, hlt, ↓reduceIte]
  simp [hs]

/-- equal key sets (any insertion orders): the operation succeeds -/
theorem binop_same_keys_succeeds (f : V → V → V) (a b : KV V) (hna : (keys a).Nodup)
    (hp : (keys b).Perm (keys a)) (hne : a ≠ []) : ∃ r, binop f a (.td b) .none = .ok r := by
  rw [binop_none_unfold]
  have hlen : b.length = a.length := by simpa [keys] using hp.length_eq
  obtain ⟨nv, hv⟩ := valuesSorted_total b (keys a) (fun k hk => by
    cases hg : get? b k with
    | none => exact absurd (hp.mem_iff.mpr hk) ((get?_eq_none_iff b k).mp hg)
    | some v => rfl)
  have hnvl : nv.length = a.length := by rw [valuesSorted_length _ _ nv hv]; simp [keys]
  have hs : itemsSortedStrict b (keys a) = .ok nv := by
    simp only [itemsSortedStrict, hv]
    have : ¬ nv.length < b.length := by omega
    simp only [this, ↓reduceIte]
  simp only [hs]
  have hne' : nonEmpty ((vals a).map some) = .ok () := by
    cases a with
    | nil => exact absurd rfl hne
    | cons q rest => simp [nonEmpty, vals]
  simp only [hne']
  have hφ : (vals a).map some = (keys a).map (get? a) := (map_get?_keys_self a hna).symm
  have hψ : nv.map some = (keys a).map (get? b) := (valuesSorted_ok b (keys a) nv hv).symm
  obtain ⟨rs, hf⟩ := foreach2_ok f (keys a) (get? a) (get? b) (fun k hk => by
    constructor
    · cases hg : get? a k with
      | none => exact absurd hk ((get?_eq_none_iff a k).mp hg)
      | some v => rfl
    · cases hg : get? b k with
      | none => exact absurd (hp.mem_iff.mpr hk) ((get?_eq_none_iff b k).mp hg)
      | some v => rfl)
  rw [hφ, hψ, hf]
  have hl : a.length = rs.length := by
    have := (foreach2_length f _ _ rs hf).1; simp [keys] at this; omega
  simp only [rebuildPop_zip_self a hna rs hl hne]
  exact ⟨_, rfl⟩

/-! ## in-place binary operations -/

/-- in-place forms: every entry of self becomes `f (self[k]) (other[k])` -/
theorem binopInplace_pointwise (f : V → V → V) (a b r : KV V) (hna : (keys a).Nodup)
    (h : binopInplace f a (.td b) = .ok r) :
    keys r = keys a ∧ ∀ k, get? r k = pair f (get? a k) (get? b k) := by
  obtain ⟨nv, rs, hv, _, _, hf, hr⟩ := binopInplace_ok f a b r h
  have hl : (keys a).length = rs.length := by
    have := (foreach2_length f _ _ rs hf).1; simp [vals, keys] at this ⊢; omega
  rw [(map_get?_keys_self a hna).symm, (valuesSorted_ok b (keys a) nv hv).symm] at hf
  have hm := foreach2_map f (keys a) (get? a) (get? b) rs hf
  subst hr
  refine ⟨keys_zip _ _ hl, fun k => ?_⟩
  rw [get?_zip_of_map (keys a) hna (fun k => pair f (get? a k) (get? b k)) rs hm k]
  by_cases hk : k ∈ keys a
  · simp [hk]
  · have : get? a k = none := (get?_eq_none_iff a k).mpr hk
    simp [hk, this, pair]

/-- in-place forms: a key of self that the other operand lacks raises `KeyError` -/
theorem binopInplace_missing_key_raises (f : V → V → V) (a b : KV V) (k : Path) (hk : k ∈ keys a)
    (hb : k ∉ keys b) : binopInplace f a (.td b) = .error .key := by
  unfold binopInplace
  simp only [itemsSortedStrict]
  cases hv : valuesSorted b (keys a) with
  | error e => obtain ⟨he, _⟩ := valuesSorted_err _ _ e hv; simp [he]
  | ok nv =>
    have h1 := valuesSorted_ok _ _ nv hv
    have hkk : get? b k = none := (get?_eq_none_iff _ k).mpr hb
    have : ∀ x ∈ (keys a).map (get? b), x.isSome := by
      rw [h1]; intro x hx; obtain ⟨y, _, e⟩ := List.mem_map.mp hx; simp [← e]
    have := this _ (List.mem_map.mpr ⟨k, hk, rfl⟩)
    simp [hkk] at this

/-- (after the repair) a key that only `other` has raises in the in-place forms too -/
theorem binopInplace_extra_key_raises (f : V → V → V) (a b : KV V) (hlt : a.length < b.length) :
    binopInplace f a (.td b) = .error .key := by
  unfold binopInplace
  simp only [itemsSortedStrict]
  cases hv : valuesSorted b (keys a) with
  | error e => obtain ⟨he, _⟩ := valuesSorted_err _ _ e hv; simp [he]
  | ok nv =>
    have : nv.length = a.length := by rw [valuesSorted_length _ _ nv hv]; simp [keys]
    simp only [this, hlt, ↓reduceIte]

/-- in-place forms: the insertion order of the other operand is irrelevant -/
theorem binopInplace_perm_invariant (f : V → V → V) (a b b' : KV V) (h : b'.Perm b) (hnb : (keys b).Nodup) :
    binopInplace f a (.td b') = binopInplace f a (.td b) := by
  unfold binopInplace
  simp only [itemsSortedStrict_perm h hnb]

/-! ## unary and ternary operations -/

theorem unop_pointwise (g : V → V) (a r : KV V) (hna : (keys a).Nodup) (h : unop g a = .ok r) :
    keys r = keys a ∧ ∀ k, get? r k = (get? a k).map g := by
  unfold unop at h
  cases hne : nonEmpty a with
  | error e => simp [hne] at h
  | ok u =>
    simp only [hne] at h
    injection h with h
    subst h
    unfold rebuildGet
    refine ⟨keys_map_vals a _, fun k => ?_⟩
    rw [get?_map_vals a (fun k v => (get? ((keys a).zip ((vals a).map g)) k).getD v) k]
    have hm : (keys a).map (fun k => (get? a k).map g) = ((vals a).map g).map some := by
      have := map_get?_keys_self a hna
      simp only [vals, keys, List.map_map] at this ⊢
      apply List.map_congr_left
      intro q hq
      have := get?_of_mem a hna q.1 q.2 hq
      simp [this]
    rw [get?_zip_of_map (keys a) hna (fun k => (get? a k).map g) _ hm k]
    cases hg : get? a k with
    | none => simp
    | some v =>
      have : k ∈ keys a := by
        apply Classical.byContradiction; intro hk
        rw [(get?_eq_none_iff a k).mpr hk] at hg; cases hg
      simp [this, hg]

/-- **ternop_pointwise** (lerp / addcdiv / addcmul after the repair): every result entry is `f` of the three
entries stored under the *same key* (an operand that is not a tensordict is used as is for every key). -/
theorem ternop_pointwise (f : V → V → V → V) (a : KV V) (o1 o2 : Other V) (r : KV V) (hna : (keys a).Nodup)
    (h : ternop f a o1 o2 = .ok r) :
    keys r = keys a ∧ ∀ k, get? r k = tri f (get? a k) (opAt o1 k) (opAt o2 k) := by
  unfold ternop at h
  cases h1 : ternOperand o1 (keys a) with
  | error e => simp [h1] at h
  | ok x =>
    cases h2 : ternOperand o2 (keys a) with
    | error e => simp [h1, h2] at h
    | ok y =>
      cases hf : foreach3 f (vals a) x y with
      | error e => simp [h1, h2, hf] at h
      | ok rs =>
        simp only [h1, h2, hf] at h
        injection h with h; subst h
        obtain ⟨hlen, hm⟩ := ternop_core f a o1 o2 x y rs hna h1 h2 hf
        unfold rebuildGet
        refine ⟨keys_map_vals a _, fun k => ?_⟩
        rw [get?_map_vals a (fun k v => (get? ((keys a).zip rs) k).getD v) k]
        rw [get?_zip_of_map (keys a) hna _ rs hm k]
        cases hg : get? a k with
        | none => simp [tri]
        | some v =>
          have hk : k ∈ keys a := by
            apply Classical.byContradiction; intro hk
            rw [(get?_eq_none_iff a k).mpr hk] at hg; cases hg
          have hsome : ∃ z, tri f (get? a k) (opAt o1 k) (opAt o2 k) = some z := by
            have : tri f (get? a k) (opAt o1 k) (opAt o2 k) ∈ rs.map some := by
              rw [← hm]; exact List.mem_map.mpr ⟨k, hk, rfl⟩
            obtain ⟨z, _, hz⟩ := List.mem_map.mp this
            exact ⟨z, hz.symm⟩
          obtain ⟨z, hz⟩ := hsome
          rw [hg] at hz
          simp [hk, hz]

/-- **ternop_perm_invariant** — full strength after the `fix:` commit: permuting the insertion order of either
tensordict operand changes nothing. -/
theorem ternop_perm_invariant (f : V → V → V → V) (a b b' c c' : KV V)
    (hb : b'.Perm b) (hnb : (keys b).Nodup) (hc : c'.Perm c) (hnc : (keys c).Nodup) :
    ternop f a (.td b') (.td c') = ternop f a (.td b) (.td c) := by
  unfold ternop
  rw [ternOperand_perm hb hnb, ternOperand_perm hc hnc]

/-- in-place ternary forms (lerp_/addcdiv_/addcmul_): same pairing by key, self's keys and order -/
theorem ternopInplace_pointwise (f : V → V → V → V) (a : KV V) (o1 o2 : Other V) (r : KV V) (hna : (keys a).Nodup)
    (h : ternopInplace f a o1 o2 = .ok r) :
    keys r = keys a ∧ ∀ k, get? r k = tri f (get? a k) (opAt o1 k) (opAt o2 k) := by
  unfold ternopInplace at h
  cases h1 : ternOperand o1 (keys a) with
  | error e => simp [h1] at h
  | ok x =>
    cases h2 : ternOperand o2 (keys a) with
    | error e => simp [h1, h2] at h
    | ok y =>
      cases hf : foreach3 f (vals a) x y with
      | error e => simp [h1, h2, hf] at h
      | ok rs =>
        simp only [h1, h2, hf] at h
        injection h with h; subst h
        obtain ⟨hlen, hm⟩ := ternop_core f a o1 o2 x y rs hna h1 h2 hf
        refine ⟨keys_zip _ _ hlen.symm, fun k => ?_⟩
        rw [get?_zip_of_map (keys a) hna _ rs hm k]
        by_cases hk : k ∈ keys a
        · simp [hk]
        · simp [hk, (get?_eq_none_iff a k).mpr hk, tri]

theorem ternopInplace_perm_invariant (f : V → V → V → V) (a b b' c c' : KV V)
    (hb : b'.Perm b) (hnb : (keys b).Nodup) (hc : c'.Perm c) (hnc : (keys c).Nodup) :
    ternopInplace f a (.td b') (.td c') = ternopInplace f a (.td b) (.td c) := by
  unfold ternopInplace
  rw [ternOperand_perm hb hnb, ternOperand_perm hc hnc]

/-- `default=<tensor>`: the order-free form of permutation invariance (the extra keys come out in hash order in the
code, so only the key → value map is determined) -/
theorem binop_default_perm_invariant (f : V → V → V) (a b b' r r' : KV V) (dv : V) (hna : (keys a).Nodup)
    (hnb : (keys b).Nodup) (hp : b'.Perm b)
    (h : binop f a (.td b) (.value dv) = .ok r) (h' : binop f a (.td b') (.value dv) = .ok r') (k : Path) :
    get? r' k = get? r k := by
  have hnb' : (keys b').Nodup := (keys_perm hp).nodup_iff.mpr hnb
  rw [binop_default_pointwise f a b r dv hna hnb h k, binop_default_pointwise f a b' r' dv hna hnb' h' k,
    get?_perm hp hnb]
  have : (k ∈ keys b') = (k ∈ keys b) := propext (keys_perm hp).mem_iff
  simp only [this]

/-- a ternary operand tensordict lacking a key of self, or holding an extra one, raises `KeyError` -/
theorem ternop_key_mismatch_raises (f : V → V → V → V) (a b : KV V) (o2 : Other V)
    (h : (∃ k ∈ keys a, k ∉ keys b) ∨ a.length < b.length) :
    ternop f a (.td b) o2 = .error .key ∧ ternopInplace f a (.td b) o2 = .error .key := by
  have hs : itemsSortedStrict b (keys a) = .error .key := by
    simp only [itemsSortedStrict]
    cases hv : valuesSorted b (keys a) with
    | error e => obtain ⟨he, _⟩ := valuesSorted_err _ _ e hv; simp [he]
    | ok nv =>
      rcases h with ⟨k, hk, hb⟩ | hlt
      · have h1 := valuesSorted_ok _ _ nv hv
        have hkk : get? b k = none := (get?_eq_none_iff _ k).mpr hb
        have : ∀ x ∈ (keys a).map (get? b), x.isSome := by
          rw [h1]; intro x hx; obtain ⟨y, _, e⟩ := List.mem_map.mp hx; simp [← e]
        have := this _ (List.mem_map.mpr ⟨k, hk, rfl⟩)
        simp [hkk] at this
      · have : nv.length = a.length := by rw [valuesSorted_length _ _ nv hv]; simp [keys]
        simp only [this, hlt, ↓reduceIte]
  simp [ternop, ternopInplace, ternOperand, hs]

/-- the defect of the pinned tree (DESIGN §7 row 11), proved on the transcription of the OLD code: with the
operand built in the other order, `x` receives the entry stored under `y`. -/
theorem ternopPositional_counterexample :
    ∃ (a b b' : KV Nat) (r r' : KV Nat), b'.Perm b ∧ (keys b).Nodup ∧
      ternopPositional (fun x y z => x + y * z) a (.td b') (.scalar 1) = .ok r' ∧
      ternopPositional (fun x y z => x + y * z) a (.td b) (.scalar 1) = .ok r ∧
      get? r' ["x"] = some 21 ∧ get? r ["x"] = some 11 :=
  ⟨[(["x"], 1), (["y"], 2)], [(["x"], 10), (["y"], 20)], [(["y"], 20), (["x"], 10)], _, _,
    List.Perm.swap _ _ _, by decide, rfl, rfl, by decide, by decide⟩

/-- comparison operators (and `|`, `^`): mismatching key sets raise `KeyError` -/
theorem cmp_keys_mismatch_raises (f : V → V → V) (a b : KV V)
    (h : (∃ k ∈ keys a, k ∉ keys b) ∨ a.length ≠ b.length) : cmp f a (.td b) = .error .key := by
  simp [cmp, (keysMismatch_iff a b).mpr h]

/-- comparison operators: with equal key sets, every result entry compares the two entries stored under the
same key, in self's key order -/
theorem cmp_pointwise (f : V → V → V) (a b r : KV V) (hna : (keys a).Nodup)
    (h : cmp f a (.td b) = .ok r) :
    keys r = keys a ∧ ∀ k, get? r k = pair f (get? a k) (get? b k) := by
  unfold cmp at h
  simp only at h
  by_cases hm : keysMismatch a b
  · simp [hm] at h
  · simp only [hm] at h
    injection h with h
    have hall : ∀ k ∈ keys a, k ∈ keys b := by
      intro k hk
      apply Classical.byContradiction; intro hkb
      exact hm ((keysMismatch_iff a b).mpr (Or.inl ⟨k, hk, hkb⟩))
    have hcongr : a.filterMap (fun q => (get? b q.1).map (fun w => (q.1, f q.2 w)))
        = a.filterMap (fun q => (pair f (get? a q.1) (get? b q.1)).map (fun v => (q.1, v))) := by
      apply filterMap_congr'
      intro q hq
      have := get?_of_mem a hna q.1 q.2 hq
      simp only [this, pair]
      cases get? b q.1 <;> simp
    rw [hcongr] at h
    subst h
    constructor
    · -- no entry is dropped
      have : a.filterMap (fun q => (pair f (get? a q.1) (get? b q.1)).map (fun v => (q.1, v)))
          = a.map (fun q => (q.1, f q.2 ((get? b q.1).getD q.2))) := by
        rw [← List.filterMap_eq_map]
        apply filterMap_congr'
        intro q hq
        have h1 := get?_of_mem a hna q.1 q.2 hq
        have h2 : q.1 ∈ keys b := hall q.1 (List.mem_map.mpr ⟨q, hq, rfl⟩)
        cases hg : get? b q.1 with
        | none => exact absurd h2 ((get?_eq_none_iff b q.1).mp hg)
        | some w => simp [h1, pair, hg]
      rw [this]
      simp [keys, List.map_map, Function.comp_def]
    · intro k
      rw [get?_filterMap_keys a hna (fun k => pair f (get? a k) (get? b k)) k]
      by_cases hk : k ∈ keys a
      · simp [hk]
      · simp [hk, (get?_eq_none_iff a k).mpr hk, pair]

/-- comparison operators: the other operand's insertion order is irrelevant -/
theorem cmp_perm_invariant (f : V → V → V) (a b b' : KV V) (h : b'.Perm b) (hnb : (keys b).Nodup) :
    cmp f a (.td b') = cmp f a (.td b) := by
  have hk : hasKey b' = hasKey b := funext (hasKey_perm h hnb)
  have hg : get? b' = get? b := funext (get?_perm h hnb)
  simp only [cmp, keysMismatch, hk, hg, keys, List.length_map, h.length_eq]

/-! ## shapes: left broadcasting and reductions -/

variable {α : Type}

/-- **broadcast_left.** `expand_as_right(t, dest)` has shape `dest` and its element at `c` is the element of
`t` at the leading coordinates of `c`: the operand is aligned with the *left-most* (batch) dims of the leaf
and never indexed by a feature coordinate. -/
theorem broadcast_left (t : T α) (dest : Shape) (r : T α) (h : expandAsRight t dest = .ok r) :
    r.shape = dest ∧ ∀ c, c.length = dest.length → r.get c = t.get (leadingCoord t.shape c) := by
  unfold expandAsRight at h
  split at h
  · cases h
  · rename_i hlen
    split at h
    · cases h
    · unfold T.expand at h
      split at h
      · injection h with h
        subst h
        refine ⟨rfl, fun c hc => ?_⟩
        simp only
        rw [unsqueezeLastN_get, unsqueezeLastN_shape]
        congr 1
        have hrank : t.shape.length ≤ dest.length := by omega
        simp only [expandCoord, leadingCoord, List.length_append, List.length_replicate]
        have h0 : c.length - (t.shape.length + (dest.length - t.shape.length)) = 0 := by omega
        rw [h0, List.drop_zero]
        rw [List.take_zipWith]
        have h1 : (List.zipWith (fun d i => if d = 1 then 0 else i) (t.shape ++ List.replicate (dest.length - t.shape.length) 1) c).length
            - (dest.length - t.shape.length) = t.shape.length := by
          simp; omega
        rw [h1, List.take_append_of_le_length (by omega), List.take_of_length_le (by omega)]
      · cases h

/-- **tensor operands broadcast against the batch dims from the left**: through `_maybe_broadcast_other`
the element of a tensor operand combined with element `c` of a leaf depends only on the batch coordinates
`c.take shape.length` (right-aligned torch broadcasting *inside the batch dims*), never on feature coordinates. -/
theorem tensor_operand_broadcast (batch : Shape) (o : T α) (feat shape : Shape) (r : T α)
    (h : broadcastOther batch o feat = .ok (shape, r)) :
    broadcastShapes batch o.shape = some shape ∧ r.shape = shape ++ feat ∧
    ∀ c, c.length = (shape ++ feat).length →
      r.get c = o.get (expandCoord o.shape (leadingCoord shape c)) := by
  unfold broadcastOther at h
  cases hb : broadcastShapes batch o.shape with
  | none => simp [hb] at h
  | some sh =>
    simp only [hb] at h
    split at h
    · cases h
    · cases ho : o.expand sh with
      | error e => simp [ho] at h
      | ok o' =>
        simp only [ho] at h
        cases he : expandAsRight o' (sh ++ feat) with
        | error e => simp [he] at h
        | ok r' =>
          simp only [he] at h
          injection h with h
          injection h with h1 h2
          subst h1; subst h2
          obtain ⟨hs, hg⟩ := broadcast_left o' (sh ++ feat) r' he
          unfold T.expand at ho
          split at ho
          · injection ho with ho; subst ho
            exact ⟨rfl, hs, fun c hc => by rw [hg c hc]⟩
          · cases ho

/-- the same for the in-place forms (`_inplace_tensor_operand`): the batch size cannot change -/
theorem inplace_tensor_operand_broadcast (batch : Shape) (o : T α) (feat : Shape) (r : T α)
    (h : broadcastOtherInplace batch o feat = .ok r) :
    expandOk o.shape batch = true ∧ r.shape = batch ++ feat ∧
    ∀ c, c.length = (batch ++ feat).length →
      r.get c = o.get (expandCoord o.shape (leadingCoord batch c)) := by
  unfold broadcastOtherInplace at h
  cases ho : o.expand batch with
  | error e => simp [ho] at h
  | ok o' =>
    simp only [ho] at h
    obtain ⟨hs, hg⟩ := broadcast_left o' (batch ++ feat) r h
    unfold T.expand at ho
    split at ho
    · rename_i hok
      injection ho with ho; subst ho
      exact ⟨hok, hs, fun c hc => by rw [hg c hc]⟩
    · cases ho

/-- **reduction_batch_and_names.** For every `dim` spelling (int, negative int, tuple, `None`, absent,
"feature") and `keepdim`: the batch size given to the result is what torch does to the *batch part* of the
shape, the names follow the kept dims, the normalised dims are batch dims, and the shape torch gives to a
leaf of shape `batch ++ feat` starts with the new batch size (feature dims untouched when dims are given). -/
theorem reduction_batch_and_names (cfg : RedCfg) (batch : Shape) (names : Option (List String))
    (dim : DimArg) (keepdim : Option Bool) (out : RedOut) (feat : Shape)
    (h : castReduction cfg batch names dim keepdim = .ok out) (hfb : cfg.fixedBatch = false) :
    (∀ ds k, out.leaf = .dims ds k →
        (∀ d ∈ ds, d < batch.length) ∧ k = keepdim ∧
        out.batch = reduceShape batch ds (keepdim.getD false) ∧
        out.names = (if keepdim.getD false then names else names.map (fun ns => dropAt ns ds)) ∧
        leafShape batch feat out.leaf = out.batch ++ feat) ∧
    (out.leaf = .feature → out.batch = batch ∧ out.names = names ∧ leafShape batch feat out.leaf = out.batch) ∧
    (∀ k, out.leaf = .all k ∨ out.leaf = .dimNone k →
        out.batch = (if keepdim.getD false then batch.map (fun _ => 1) else []) ∧
        ∃ rest, leafShape batch feat out.leaf = out.batch ++ rest) := by
  unfold castReduction at h
  simp only [hfb, Bool.false_eq_true, ↓reduceIte, Bool.or_false] at h
  cases hp : procDim cfg dim batch.length with
  | error e => simp [hp] at h
  | ok p =>
    have hr := procDim_range cfg dim batch.length p hp
    simp only [hp] at h
    cases p with
    | feature =>
      simp only at h
      split at h
      · cases h
      · split at h
        · cases h
        · injection h with h; subst h; simp [leafShape]
    | noDefault =>
      simp only at h
      split at h
      · rename_i hk
        injection h with h; subst h
        simp [leafShape, hk]
      · rename_i hk
        injection h with h; subst h
        simp [leafShape, hk]
    | none =>
      simp only at h
      injection h with h; subst h
      cases hk : keepdim.getD false <;> simp [leafShape, hk]
    | one d =>
      simp only at h
      injection h with h; subst h
      have hd := hr.1 d rfl
      refine ⟨?_, by simp, by simp⟩
      intro ds k e
      injection e with e1 e2; subst e1; subst e2
      refine ⟨by simpa using hd, rfl, rfl, rfl, ?_⟩
      simp only [leafShape]
      exact reduceShape_append batch feat [d] _ (by simpa using hd)
    | many ds0 =>
      simp only at h
      injection h with h; subst h
      have hd := hr.2 ds0 rfl
      refine ⟨?_, by simp, by simp⟩
      intro ds k e
      injection e with e1 e2; subst e1; subst e2
      refine ⟨hd, rfl, rfl, rfl, ?_⟩
      simp only [leafShape]
      exact reduceShape_append batch feat ds0 _ hd

/-- `reduce=True`: the concatenation dim and every reduced dim are batch dims (negative dims count from the batch
dims, out-of-range dims raise) — the same normalisation as the per-entry branch -/
theorem reduce_true_dims_are_batch_dims (batch : Shape) (dim : DimArg) (keepdim : Option Bool)
    (c : Nat) (ds : List Nat) (single : Bool) (kd : Option Bool)
    (h : furtherReduce batch dim keepdim = .ok (.dims c ds single kd)) :
    c < batch.length ∧ c ∈ ds ∧ (∀ d ∈ ds, d < batch.length) ∧ kd = keepdim := by
  unfold furtherReduce at h
  cases dim with
  | noDefault => simp at h
  | none => simp at h
  | feature => simp at h
  | int d =>
    simp only at h
    cases hd : correctNegDim d batch.length with
    | error e => simp [hd] at h
    | ok n =>
      simp only [hd] at h
      injection h with h; injection h with h1 h2 h3 h4
      subst h1; subst h2; subst h4
      have := correctNegDim_lt d batch.length n hd
      exact ⟨this, by simp, by simpa using this, rfl⟩
  | tuple l =>
    simp only at h
    cases hm : mapMExcept (fun d => correctNegDim d batch.length) l with
    | error e => simp [hm] at h
    | ok ns =>
      simp only [hm] at h
      cases ns with
      | nil => simp at h
      | cons n rest =>
        simp only at h
        injection h with h; injection h with h1 h2 h3 h4
        subst h1; subst h2; subst h4
        have hall := mapM_correct_lt l batch.length (n :: rest) hm
        exact ⟨hall n (by simp), by simp, hall, rfl⟩

/-! ## clamp and where -/

/-- **clamp with two tensordict bounds**: self's keys, each entry clamped by the bounds' entries under the same key
(`None` — no bound — when a bound lacks the key); never `clamp_max` then `clamp_min` (different where lower > upper) -/
theorem clamp_td_pointwise (fmax fmin : V → V → V) (f3 : V → Option V → Option V → V) (a l h r : KV V)
    (hr : clamp fmax fmin f3 a (.td l) (.td h) = .ok r) :
    keys r = keys a ∧ ∀ k, get? r k = (get? a k).map (fun v => f3 v (get? l k) (get? h k)) := by
  simp only [clamp] at hr
  injection hr with hr; subst hr
  refine ⟨by simp [keys, List.map_map, Function.comp_def], fun k => ?_⟩
  exact get?_map_vals a (fun k v => f3 v (get? l k) (get? h k)) k

theorem clamp_td_perm_invariant (fmax fmin : V → V → V) (f3 : V → Option V → Option V → V) (a l l' h h' : KV V)
    (hl : l'.Perm l) (hnl : (keys l).Nodup) (hh : h'.Perm h) (hnh : (keys h).Nodup) :
    clamp fmax fmin f3 a (.td l') (.td h') = clamp fmax fmin f3 a (.td l) (.td h) := by
  simp only [clamp]
  have e1 : get? l' = get? l := funext (get?_perm hl hnl)
  have e2 : get? h' = get? h := funext (get?_perm hh hnh)
  rw [e1, e2]

theorem clamp_mixed_raises (fmax fmin : V → V → V) (f3 : V → Option V → Option V → V) (a l : KV V) (s : V) :
    clamp fmax fmin f3 a (.td l) (.scalar s) = .error .value ∧ clamp fmax fmin f3 a (.scalar s) (.td l) = .error .value :=
  ⟨rfl, rfl⟩

/-- one-sided clamp is the fused binary op: pointwise by key, KeyError on differing key sets -/
theorem clamp_one_sided (fmax fmin : V → V → V) (f3 : V → Option V → Option V → V) (a h : KV V) :
    clamp fmax fmin f3 a .none (.td h) = binop fmax a (.td h) .none ∧
    clamp fmax fmin f3 a (.td h) .none = binop fmin a (.td h) .none := ⟨rfl, rfl⟩

-- lower > upper: torch.clamp gives the upper bound; clamp_max-then-clamp_min would give the lower one
example : clamp Nat.min Nat.max (fun x lo hi => Nat.min (Nat.max x (lo.getD 0)) (hi.getD 1000))
    [(["a"], 5)] (.td [(["a"], 9)]) (.td [(["a"], 3)]) = .ok [(["a"], 3)] := by rfl

/-! where -/

theorem whereOp_selfPart_get (w : V → V → V → V) (cond ncond : V) (pad : Option V) (other : KV V) :
    ∀ (a r : KV V), whereOp.selfPart w cond pad other a = .ok r →
      keys r = keys a ∧ ∀ k, get? r k = (get? a k).map (fun v => w cond v ((get? other k).getD (pad.getD v)))
  | [], r, h => by simp [whereOp.selfPart] at h; subst h; simp [get?]
  | (k0, v0) :: rest, r, h => by
    simp only [whereOp.selfPart] at h
    split at h
    · cases h
    · rename_i r0 hr0
      cases hrest : whereOp.selfPart w cond pad other rest with
      | error e => simp [hrest] at h
      | ok rs =>
        simp only [hrest] at h; injection h with h; subst h
        obtain ⟨hk, hg⟩ := whereOp_selfPart_get w cond ncond pad other rest rs hrest
        refine ⟨by simp [keys] at hk ⊢; exact hk, fun k => ?_⟩
        simp only [get?, hg k]
        cases hgr : get? rest k with
        | some v => simp
        | none =>
          simp only [Option.map_none]
          by_cases hk0 : k0 = k
          · subst hk0
            simp only [↓reduceIte, Option.map_some]
            cases hgo : get? other k0 with
            | some y => simp [hgo] at hr0; simp [← hr0]
            | none =>
              cases pad with
              | none => simp [hgo] at hr0
              | some p => simp [hgo] at hr0; simp [← hr0]
          · simp [hk0]

/-- **where**: a key of self that `other` lacks and no pad: KeyError -/
theorem whereOp_missing_raises (w : V → V → V → V) (cond ncond : V) (a b : KV V) (k : Path)
    (hk : k ∈ keys a) (hb : k ∉ keys b) : whereOp w cond ncond none a b = .error .key := by
  have : whereOp.selfPart w cond none b a = .error .key := by
    induction a with
    | nil => simp [keys] at hk
    | cons q rest ih =>
      obtain ⟨k0, v0⟩ := q
      simp only [whereOp.selfPart]
      by_cases e : k0 = k
      · subst e; simp [(get?_eq_none_iff b k0).mpr hb]
      · have hk' : k ∈ keys rest := by simp [keys] at hk ⊢; rcases hk with h | h; exact absurd h.symm e; exact h
        cases get? b k0 <;> simp [ih hk']
  simp [whereOp, this]

theorem whereOp_otherPart_get (w : V → V → V → V) (ncond : V) (p : V) (self : KV V) :
    ∀ (o r : KV V), whereOp.otherPart w ncond (some p) self o = .ok r →
      ∀ k, get? r k = if hasKey self k then none else (get? o k).map (fun y => w ncond y p)
  | [], r, h, k => by simp [whereOp.otherPart] at h; subst h; simp [get?]
  | (k0, y0) :: rest, r, h, k => by
    simp only [whereOp.otherPart] at h
    by_cases hs : hasKey self k0 = true
    · simp only [hs, ↓reduceIte] at h
      have ih := whereOp_otherPart_get w ncond p self rest r h k
      rw [ih]
      by_cases hsk : hasKey self k = true
      · simp [hsk]
      · simp only [hsk, Bool.false_eq_true, ↓reduceIte, get?]
        have : k0 ≠ k := fun e => hsk (e ▸ hs)
        cases get? rest k <;> simp [this]
    · simp only [hs, Bool.false_eq_true, ↓reduceIte] at h
      cases hrest : whereOp.otherPart w ncond (some p) self rest with
      | error e => simp [hrest] at h
      | ok rs =>
        simp only [hrest] at h; injection h with h; subst h
        have ih := whereOp_otherPart_get w ncond p self rest rs hrest k
        simp only [get?, ih]
        by_cases hsk : hasKey self k = true
        · have : k0 ≠ k := fun e => hs (e ▸ hsk)
          simp [hsk, this]
        · simp only [hsk, Bool.false_eq_true, ↓reduceIte]
          cases get? rest k with
          | some v => simp
          | none => by_cases e : k0 = k <;> simp [e]

/-- **where with a pad value**: under a key of self, `where(cond, self[k], other[k] or pad)`; under a key only `other`
has, `where(~cond, other[k], pad)`; nothing else — all lookups by key -/
theorem whereOp_pointwise (w : V → V → V → V) (cond ncond p : V) (a b r : KV V)
    (h : whereOp w cond ncond (some p) a b = .ok r) (k : Path) :
    get? r k = match get? a k with
               | some v => some (w cond v ((get? b k).getD p))
               | none => (get? b k).map (fun y => w ncond y p) := by
  simp only [whereOp] at h
  cases hs : whereOp.selfPart w cond (some p) b a with
  | error e => simp [hs] at h
  | ok ra =>
    simp only [hs] at h
    cases ho : whereOp.otherPart w ncond (some p) a b with
    | error e => simp [ho] at h
    | ok rb =>
      simp only [ho] at h; injection h with h; subst h
      rw [get?_append, whereOp_otherPart_get w ncond p a b rb ho k,
        (whereOp_selfPart_get w cond ncond (some p) b a ra hs).2 k]
      cases hg : get? a k with
      | some v => simp [hasKey, hg]
      | none => simp [hasKey, hg]; cases get? b k <;> rfl

/-! ## lazy stacks as operands (members keyed `(i, key)`) -/

theorem idxKey_inj (i j : Nat) (h : idxKey i = idxKey j) : i = j := by
  unfold idxKey at h
  have := congrArg String.toList h
  simpa using this

theorem get?_map_prefix (m : KV V) (h : String) (k : Path) :
    get? (m.map (fun q => (h :: q.1, q.2))) (h :: k) = get? m k := by
  induction m with
  | nil => rfl
  | cons q rest ih =>
    simp only [List.map_cons, get?, ih]
    cases get? rest k <;> simp

theorem get?_map_prefix_ne (m : KV V) (h h' : String) (k : Path) (hne : h ≠ h') :
    get? (m.map (fun q => (h :: q.1, q.2))) (h' :: k) = none := by
  induction m with
  | nil => rfl
  | cons q rest ih => simp [get?, ih, hne]

/-- the flattened view of a lazy stack holds, under `(i, k)`, the entry `k` of member `i` -/
theorem get?_flattenFrom (s : Nat) : ∀ (ms : List (KV V)) (j : Nat) (k : Path),
    get? (flattenFrom s ms) (idxKey (s + j) :: k) = (ms[j]?).bind (fun m => get? m k)
  | [], j, k => by simp [flattenFrom, get?]
  | m :: rest, j, k => by
    simp only [flattenFrom]
    rw [get?_append]
    cases j with
    | zero =>
      have hrest : get? (flattenFrom (s + 1) rest) (idxKey (s + 0) :: k) = none := by
        -- no later member carries the index s
        have : ∀ (ms : List (KV V)) (t : Nat), t > s → get? (flattenFrom t ms) (idxKey s :: k) = none := by
          intro ms
          induction ms with
          | nil => intro t _; simp [flattenFrom, get?]
          | cons m' r' ih =>
            intro t ht
            simp only [flattenFrom]
            rw [get?_append, ih (t + 1) (by omega)]
            exact get?_map_prefix_ne m' _ _ k (fun e => by have := idxKey_inj _ _ e; omega)
        simpa using this rest (s + 1) (by omega)
      simp only [Nat.add_zero] at hrest ⊢
      rw [hrest]
      simp [get?_map_prefix]
    | succ j' =>
      have := get?_flattenFrom (s + 1) rest j' k
      rw [show s + 1 + j' = s + (j' + 1) by omega] at this
      rw [this]
      simp only [List.getElem?_cons_succ]
      cases hh : (rest[j']?).bind (fun m => get? m k) with
      | some v => rfl
      | none =>
        simp only
        exact get?_map_prefix_ne m _ _ k (fun e => by have := idxKey_inj _ _ e; omega)

/-- **lazy stack with an operand of the same lazy structure** (another lazy stack with the same stack dim): the
result holds, under member `j` and key `k`, `f` of the entries of member `j` under `k` on both sides -/
theorem lazy_same_structure_pointwise (f : V → V → V) (A B : List (KV V)) (r : KV V)
    (hnd : (keys (flattenLazy A)).Nodup)
    (h : binop f (flattenLazy A) (.td (flattenLazy B)) .none = .ok r) (j : Nat) (k : Path) :
    get? r (idxKey j :: k) = pair f ((A[j]?).bind (fun m => get? m k)) ((B[j]?).bind (fun m => get? m k)) := by
  rw [(binop_pointwise f _ _ r hnd h).2]
  have ha := get?_flattenFrom 0 A j k
  have hb := get?_flattenFrom 0 B j k
  simp only [Nat.zero_add] at ha hb
  rw [flattenLazy, flattenLazy, ha, hb]

/-- **lazy stack vs regular tensordict (finding C09-lazy-vs-dense-operand)**: the lazy side asks the other operand for
keys that start with a member index; a regular tensordict has none, hence `KeyError` -/
theorem lazy_vs_dense_raises (f : V → V → V) (A : List (KV V)) (b : KV V) (m0 : KV V) (q0 : Path × V) (rest : List (KV V))
    (hA : A = (q0 :: m0) :: rest) (hb : ∀ k ∈ keys b, k.head? ≠ some (idxKey 0)) :
    binop f (flattenLazy A) (.td b) .none = .error .key := by
  apply binop_missing_key_raises f _ b (idxKey 0 :: q0.1)
  · subst hA; simp [flattenLazy, flattenFrom, keys]
  · intro hmem; exact hb _ hmem rfl

/-- **two lazy stacks with different stack dims (finding C09-lazy-stackdim-mismatch)**, on 2x2 matrices: `self` stacks
the rows, `other` stacks the columns; member `i` of self (row i) is added to member `i` of other (column i), so the
re-stacked result is not the matrix sum. -/
theorem lazy_stackdim_mismatch_counterexample :
    let X : List (List Nat) := [[0, 1], [2, 3]]
    let Y : List (List Nat) := [[10, 20], [30, 40]]
    let rowsX : List (KV (List Nat)) := X.map (fun r => [(["a"], r)])
    let colsY : List (KV (List Nat)) := [[(["a"], [10, 30])], [(["a"], [20, 40])]]
    let add : List Nat → List Nat → List Nat := List.zipWith (· + ·)
    ∃ R, lazyBinop add rowsX (.td (flattenLazy colsY)) .none = .ok R ∧
      R.map (fun m => get? m ["a"]) = [some [10, 31], some [22, 43]] ∧
      List.zipWith add X Y = [[10, 21], [32, 43]] :=
  ⟨_, rfl, by decide, by decide⟩

/-- **lazy stack vs batch-shaped tensor (finding C09-lazy-vs-tensor-operand)**: the leaves of a lazy stack are seen
member by member (shape `s ++ feat`), the tensor keeps the stacked shape `n :: s`; `expand_as_right` rejects it
as soon as the member has no feature dim to spare, or the first sizes disagree -/
theorem lazy_vs_tensor_raises {α : Type} (t : T α) (dest : Shape) :
    (dest.length < t.shape.length → expandAsRight t dest = .error .runtime) ∧
    (∀ a ts b ds, t.shape = a :: ts → dest = b :: ds → a ≠ b → a ≠ 1 → expandAsRight t dest = .error .runtime) := by
  constructor
  · intro h; simp [expandAsRight, h]
  · intro a ts b ds ht hd hab ha1
    unfold expandAsRight
    split
    · rfl
    · have : (List.zipWith (fun d e => d != e && d != 1) t.shape dest).any id = true := by
        rw [ht, hd]; simp [hab, ha1]
      simp [this]

example : (expandAsRight (⟨[2, 3], fun c => c⟩ : T (List Nat)) [3]).toOption.isNone = true := by rfl
example : (expandAsRight (⟨[2, 3], fun c => c⟩ : T (List Nat)) [3, 3]).toOption.isNone = true := by rfl

theorem memberwise_get (g : KV V → Other V → Except Err (KV V)) : ∀ (A : List (KV V)) (Bs : List (Other V)) (R : List (KV V)),
    memberwise g A Bs = .ok R → R.length = A.length ∧ A.length = Bs.length ∧
      ∀ (j : Nat) (a : KV V) (b : Other V), A[j]? = some a → Bs[j]? = some b → ∃ r, R[j]? = some r ∧ g a b = .ok r
  | [], [], R, h => by simp [memberwise] at h; subst h; simp
  | [], _ :: _, R, h => by simp [memberwise] at h
  | _ :: _, [], R, h => by simp [memberwise] at h
  | a0 :: as, b0 :: bs, R, h => by
    simp only [memberwise] at h
    cases hg : g a0 b0 with
    | error e => simp [hg] at h
    | ok r0 =>
      simp only [hg] at h
      cases hr : memberwise g as bs with
      | error e => simp [hr] at h
      | ok rs =>
        simp only [hr] at h; injection h with h; subst h
        obtain ⟨h1, h2, h3⟩ := memberwise_get g as bs rs hr
        refine ⟨by simp [h1], by simp [h2], fun j a b ha hb => ?_⟩
        cases j with
        | zero => simp at ha hb; subst ha; subst hb; exact ⟨r0, by simp, hg⟩
        | succ j' => simp at ha hb; simpa using h3 j' a b ha hb

/-- **lazy stack with an operand that is not stacked alike, after the repair** (regular tensordict, lazy stack along
another dim): member `j` of the result holds under `k` the op of member `j` of self and of the `j`-th slice of the
operand along self's stack dim, entries matched by key -/
theorem lazy_memberwise_pointwise (f : V → V → V) (A : List (KV V)) (Bs : List (KV V)) (R : List (KV V))
    (h : lazyBinopRepaired f A (.split (Bs.map Other.td)) .none = .ok R)
    (j : Nat) (a b : KV V) (ha : A[j]? = some a) (hb : Bs[j]? = some b) (hnd : (keys a).Nodup) :
    ∃ r, R[j]? = some r ∧ keys r = keys a ∧ ∀ k, get? r k = pair f (get? a k) (get? b k) := by
  simp only [lazyBinopRepaired] at h
  obtain ⟨_, _, h3⟩ := memberwise_get _ A _ R h
  obtain ⟨r, hr, hg⟩ := h3 j a (.td b) ha (by simp [hb])
  exact ⟨r, hr, binop_pointwise f a b r hnd hg⟩

/-! ## summary statements and non-vacuity -/

/-- **keys_mismatch_raises_or_default.** `default=None` (and every in-place form): a key on one side only
raises `KeyError`, in either direction, and equal key sets succeed; `default="intersection"` /
`default=<tensor>`: a successful call follows the documented default. -/
theorem keys_mismatch_raises_or_default (f : V → V → V) (a b : KV V) (hna : (keys a).Nodup)
    (hnb : (keys b).Nodup) (ha : a ≠ []) :
    ((∃ k ∈ keys a, k ∉ keys b) → binop f a (.td b) .none = .error .key ∧ binopInplace f a (.td b) = .error .key) ∧
    (a.length < b.length → binop f a (.td b) .none = .error .key ∧ binopInplace f a (.td b) = .error .key) ∧
    ((keys b).Perm (keys a) → ∃ r, binop f a (.td b) .none = .ok r) ∧
    (∀ r, binop f a (.td b) .intersection = .ok r → ∀ k, get? r k = pair f (get? a k) (get? b k)) ∧
    (∀ dv r, binop f a (.td b) (.value dv) = .ok r → ∀ k, get? r k =
        if k ∈ keys a ∨ k ∈ keys b then some (f ((get? a k).getD dv) ((get? b k).getD dv)) else none) :=
  ⟨fun ⟨k, hk, hkb⟩ => ⟨binop_missing_key_raises f a b k hk hkb, binopInplace_missing_key_raises f a b k hk hkb⟩,
   fun h => ⟨binop_extra_key_raises f a b h, binopInplace_extra_key_raises f a b h⟩,
   fun hp => binop_same_keys_succeeds f a b hna hp ha,
   fun r h k => binop_intersection_pointwise f a b r hna h k,
   fun dv r h k => binop_default_pointwise f a b r dv hna hnb h k⟩

/-- the insertion order of `self` is irrelevant as well: two successful calls on permuted operands hold the
same entry under every key -/
theorem binop_order_irrelevant (f : V → V → V) (a a' b b' r r' : KV V) (hna : (keys a).Nodup)
    (hnb : (keys b).Nodup) (hpa : a'.Perm a) (hpb : b'.Perm b)
    (h : binop f a (.td b) .none = .ok r) (h' : binop f a' (.td b') .none = .ok r') (k : Path) :
    get? r' k = get? r k := by
  have hna' : (keys a').Nodup := (keys_perm hpa).nodup_iff.mpr hna
  rw [(binop_pointwise f a b r hna h).2 k, (binop_pointwise f a' b' r' hna' h').2 k,
    get?_perm hpa hna, get?_perm hpb hnb]

-- non-vacuity: permuted insertion and nesting order, same answer under every key
example : binop (fun x y => x + y) [(["a"], 1), (["n", "b"], 2)] (.td [(["n", "b"], 20), (["a"], 10)]) .none
    = .ok [(["a"], 11), (["n", "b"], 22)] := by rfl
example : binop (fun x y => x + y) [(["a"], 1)] (.td [(["a"], 10), (["z"], 5)]) .none = .error .key := by rfl
example : binop (fun x y => x + y) [(["a"], 1), (["z"], 5)] (.td [(["a"], 10)]) .none = .error .key := by rfl
example : binop (fun x y => x + y) [(["a"], 1), (["z"], 5)] (.td [(["a"], 10), (["y"], 7)]) .intersection
    = .ok [(["a"], 11)] := by rfl
example : binop (fun x y => x - y) [(["a"], 10), (["z"], 5)] (.td [(["a"], 1), (["y"], 7)]) (.value 100)
    = .ok [(["a"], 9), (["z"], 0), (["y"], 93)] := by rfl
example : binopInplace (fun x y => x + y) [(["a"], 1), (["b"], 2)] (.td [(["b"], 5), (["a"], 10)])
    = .ok [(["a"], 11), (["b"], 7)] := by rfl
example : binopInplace (fun x y => x + y) [(["a"], 1)] (.td [(["z"], 5), (["a"], 10)]) = .error .key := by rfl
example : ternop (fun x y z => x + y * z) [(["x"], 1), (["y"], 2)] (.td [(["y"], 20), (["x"], 10)]) (.scalar 1)
    = .ok [(["x"], 11), (["y"], 22)] := by rfl
example : cmp (fun x y => if x = y then 1 else 0) [(["x"], 1), (["y"], 2)] (.td [(["y"], 2), (["x"], 10)])
    = .ok [(["x"], 0), (["y"], 1)] := by rfl
example : castReduction ⟨true, true, false⟩ [2, 3] (some ["x", "y"]) (.int (-1)) (some false)
    = .ok ⟨[2], some ["x"], .dims [1] (some false)⟩ := by rfl
example : castReduction ⟨false, false, false⟩ [2, 3] (some ["x", "y"]) (.int 0) (some true)
    = .ok ⟨[1, 3], some ["x", "y"], .dims [0] (some true)⟩ := by rfl
example : castReduction ⟨true, true, false⟩ [2, 3] (some ["x", "y"]) (.tuple [0, -1]) none
    = .ok ⟨[], some [], .dims [0, 1] none⟩ := by rfl
example : castReduction ⟨true, true, false⟩ [2, 3] none (.int 2) none = .error .index := by rfl
example : (expandAsRight (⟨[2, 1], fun c => c⟩ : T (List Nat)) [2, 3, 4]).map (fun r => r.get [1, 2, 3])
    = .ok [1, 0] := by rfl

/-! ## `reduce=True` without `dim`: value level -/

/-- **reduce_all_order_irrelevant**: a full reduction (`reduce=True`, no `dim`) does not depend on the order in which
the entries are stored -- nor, in fact, on how the values are distributed over the entries. -/
theorem reduce_all_order_irrelevant (op : RedOp) {kv' kv : KV (List Num)} (h : kv'.Perm kv) :
    reduceAll op kv' = reduceAll op kv := by
  have hp := flatAll_perm h
  unfold reduceAll reduceList
  cases op <;> simp only [hasNan_perm hp, nanSum_perm hp, nanProd_perm hp, nanCount_perm hp, nanMax_perm hp,
    nanMin_perm hp, hp.length_eq]

/-- **reduce_all_sum_of_leaf_sums**: the total is the sum of the leaf totals, and the number of (non-NaN) values the
sum of the leaf counts: a mean over all values is the COUNT-WEIGHTED combination of leaf means, never their plain mean -/
theorem reduce_all_sum_of_leaf_sums (kv : KV (List Num)) :
    nanSum (flatAll kv) = (kv.map (fun q => nanSum q.2)).foldr (· + ·) 0 ∧
    nanCount (flatAll kv) = (kv.map (fun q => nanCount q.2)).foldr (· + ·) 0 := by
  induction kv with
  | nil => simp [flatAll, nanSum, nanCount]
  | cons q rest ih => simp [flatAll, nanSum_append, nanCount_append, ih.1, ih.2]

/-- **mean_of_leaf_means_counterexample**: with leaves of different sizes (or different numbers of NaNs) the mean of
the leaf means is not the mean of all values: leaves `[0, 0]` and `[6]` have means 0 and 6, whose mean is 3, while the
mean of the three values is 2; likewise for `nanmean` with leaves `[0, NaN… ]`. -/
theorem mean_of_leaf_means_counterexample :
    let kv : KV (List Num) := [(["a"], [some 0, some 0]), (["b"], [some 6])]
    reduceAll .mean kv = .ratio 6 3 ∧ reduceLeafwise .mean kv = [.ratio 0 2, .ratio 6 1] ∧
    let kv' : KV (List Num) := [(["a"], [some 0, none]), (["b"], [some 3, some 3])]
    reduceAll .nanmean kv' = .ratio 6 3 ∧ reduceLeafwise .nanmean kv' = [.ratio 0 1, .ratio 6 2] := by
  decide


/-! ## comparisons with a lazy stack on the left -/

/-- **lazy comparison with a tensor collection**: member `i` of the result compares, key by key, member `i` of self with
slice `i` of the operand along self's stack dim (KeyError when their key sets differ) -/
theorem lazyCmp_collection_pointwise (op rop : V → V → V) (stackV : List V → V) (A sl R : List (KV V))
    (hd : Bool) (h : lazyCmp op rop stackV hd A (.collection sl) = .ok (.members R)) :
    R.length = A.length ∧ A.length = sl.length ∧
    ∀ (j : Nat) (a b : KV V), A[j]? = some a → sl[j]? = some b → (keys a).Nodup →
      ∃ r, R[j]? = some r ∧ keys r = keys a ∧ ∀ k, get? r k = pair op (get? a k) (get? b k) := by
  simp only [lazyCmp] at h
  cases hm : memberwise (cmp op) A (sl.map Other.td) with
  | error e => simp [hm] at h
  | ok ms =>
    simp only [hm] at h
    injection h with h; injection h with h; subst h
    obtain ⟨h1, h2, h3⟩ := memberwise_get (cmp op) A (sl.map Other.td) ms hm
    refine ⟨h1, by simpa using h2, fun j a b ha hb hnd => ?_⟩
    obtain ⟨r, hr, hc⟩ := h3 j a (.td b) ha (by simp [hb])
    exact ⟨r, hr, cmp_pointwise op a b r hnd hc⟩

theorem pair_flip (op rop : V → V → V) (hrefl : ∀ x y, rop y x = op x y) (x y : Option V) :
    pair rop y x = pair op x y := by
  cases x <;> cases y <;> simp [pair, hrefl]

/-- **lazy comparison with a tensorclass is evaluated on the tensorclass with the REFLECTED operator**: provided
`inverse_str` names the reflection of the comparison (`rop y x = op x y`: `>=` / `<=`, `>` / `<`, `==` / `==`, `!=` / `!=`),
the result holds under every key `op (stacked entries of self) (entry of the tensorclass)` -/
theorem lazyCmp_tensorclass_reflected (op rop : V → V → V) (hrefl : ∀ x y, rop y x = op x y) (stackV : List V → V)
    (A : List (KV V)) (kv r : KV V) (hnd : (keys kv).Nodup)
    (hd : Bool) (h : lazyCmp op rop stackV hd A (.tensorclass kv) = .ok (.dense r)) :
    keys r = keys kv ∧ ∀ k, get? r k = pair op (get? (denseOf stackV A) k) (get? kv k) := by
  simp only [lazyCmp] at h
  cases hc : cmp rop kv (.td (denseOf stackV A)) with
  | error e => simp [hc] at h
  | ok r0 =>
    simp only [hc] at h
    injection h with h; injection h with h; subst h
    obtain ⟨h1, h2⟩ := cmp_pointwise rop kv (denseOf stackV A) r0 hnd hc
    exact ⟨h1, fun k => by rw [h2 k, pair_flip op rop hrefl]⟩

/-- **the inverse is not the reflection** (seeded defect C09-2): dispatching `>=` to the operand's `<` (the logical
inverse) instead of its `<=` gives the wrong answer on a tie: `2 >= 2` is true, `2 < 2` is false -/
theorem lazyCmp_inverse_counterexample :
    let ge : Int → Int → Int := fun x y => if x ≥ y then 1 else 0
    let lt : Int → Int → Int := fun x y => if x < y then 1 else 0
    let le : Int → Int → Int := fun x y => if x ≤ y then 1 else 0
    let stackV : List Int → Int := fun l => l.headD 0
    (match lazyCmp ge lt stackV false [[(["a"], 2)]] (.tensorclass [(["a"], 2)]) with
      | .ok (.dense r) => get? r ["a"] | _ => none) = some 0 ∧
    (match lazyCmp ge le stackV false [[(["a"], 2)]] (.tensorclass [(["a"], 2)]) with
      | .ok (.dense r) => get? r ["a"] | _ => none) = some 1 := by
  decide

/-- same batch rank but another batch size: RuntimeError; an operand that is neither a collection, a number nor a
tensor: ValueError for the ordering comparisons, the default (`False` for `==`, `True` for `!=`) otherwise -/
theorem lazyCmp_rejects (op rop : V → V → V) (stackV : List V → V) (hd : Bool) (A : List (KV V)) :
    lazyCmp op rop stackV hd A .shapeMismatch = .error .runtime ∧
    lazyCmp op rop stackV false A .unsupported = .error .value ∧
    lazyCmp op rop stackV true A .unsupported = .ok .default :=
  ⟨rfl, by simp [lazyCmp], by simp [lazyCmp]⟩


/-! ## a NESTED lazy stack (known finding, repo frozen) -/

/-- **known finding C09-nestedlazy-td-operand (partial: the nested case is NOT pointwise by key)**: a tensordict that
holds a NESTED lazy stack, combined by a fused op with a regular tensordict of the same content: without default the
call raises KeyError (the operand has no entry `('n', '0', 'x')`), and with `default=d` it succeeds with the WRONG
operands: member 0 of `n.x` is combined with the default instead of the operand's `n.x`, which in turn appears as an
extra entry combined with the default. -/
theorem nested_lazy_td_operand_partial (f : V → V → V) (sa s0 s1 oa ox d : V) :
    binop f (nestedLazyItems sa s0 s1) (.td (nestedDenseItems oa ox)) .none = .error .key ∧
    ∀ r, binop f (nestedLazyItems sa s0 s1) (.td (nestedDenseItems oa ox)) (.value d) = .ok r →
      get? r ["n", idxKey 0, "x"] = some (f s0 d) ∧ get? r ["n", "x"] = some (f d ox) ∧ get? r ["a"] = some (f sa oa) := by
  refine ⟨?_, fun r h => ?_⟩
  · refine binop_missing_key_raises f _ _ ["n", idxKey 0, "x"] ?_ ?_
    · simp [nestedLazyItems, keys]
    · simp [nestedDenseItems, keys, idxKey]
  · have hna : (keys (nestedLazyItems sa s0 s1)).Nodup := by
      simp [nestedLazyItems, keys, idxKey]
    have hnb : (keys (nestedDenseItems oa ox)).Nodup := by
      simp [nestedDenseItems, keys]
    have hp := binop_default_pointwise f _ _ r d hna hnb h
    refine ⟨?_, ?_, ?_⟩
    · rw [hp]; simp [nestedLazyItems, nestedDenseItems, keys, get?, idxKey]
    · rw [hp]; simp [nestedLazyItems, nestedDenseItems, keys, get?, idxKey]
    · rw [hp]; simp [nestedLazyItems, nestedDenseItems, keys, get?, idxKey]


/-- non-vacuity: with a default the call does succeed -/
example : (binop (fun x y : Nat => x + y) (nestedLazyItems 1 2 3) (.td (nestedDenseItems 10 20)) (.value 100)).toOption.isSome = true := by
  rfl

/-- **known finding C09-nestedlazy-comparison-shape (partial)**: inside a plain tensordict a nested lazy stack of `n`
members compares every member (leaf shape `f`) with the WHOLE operand entry (shape `n :: f`) and stacks the `n`
results: the leaf comes out with shape `n :: n :: f` instead of `n :: f` (here `n = 3`, `f = []` and `f = [2]`) -/
theorem nested_lazy_cmp_shape_partial :
    (broadcastShapes [] [3]).map (fun s => 3 :: s) = some [3, 3] ∧
    (broadcastShapes [2] [3, 2]).map (fun s => 3 :: s) = some [3, 3, 2] ∧
    ([3, 3] : List Nat) ≠ [3] ∧ ([3, 3, 2] : List Nat) ≠ [3, 2] := by
  decide


end TdVerif.Props.C09
