/-
  C10 — memory-mapped save / load: faithful, shared, order independent.
  Model: Model/C10Memmap.lean (hand, tied by correspondence); dtype tables: Gen/Dtypes.lean (regenerated).
-/
import TdVerif.Lemmas.C10Memmap
import TdVerif.Lemmas.C10Refresh
import TdVerif.Lemmas.C10Tensor
import TdVerif.Gen.Dtypes
import TdVerif.Gen.C12Src
import TdVerif.Model.C10Pins
import TdVerif.Model.C10MetaTask
import TdVerif.Model.C10Nested

namespace TdVerif.Props.C10
open TdVerif.C10
open TdVerif.C12 (Slots runWrites runWrites_perm runWrites_lookup)

/-- the writer tasks of a tensordict with path-safe keys target pairwise distinct files -/
theorem task_targets_distinct (dir : Path) (t : Tree) (h : PathSafe t) :
    ((tasksTree dir t).map (·.1)).Nodup := tasksTree_nodup dir t h

theorem tasks_pairwise (dir : Path) (t : Tree) (h : PathSafe t) :
    (tasksTree dir t).Pairwise fun a b => a.1 ≠ b.1 := by
  have := tasksTree_nodup dir t h
  rw [List.Nodup, List.pairwise_map] at this
  exact this

/-- whatever the order in which the writer threads complete their tasks (every permutation), the
    directory ends up in the same state -/
theorem save_order_independent (fs : FS) (dir : Path) (t : Tree) (h : PathSafe t)
    (ts : List (Path × File)) (hp : (tasksTree dir t).Perm ts) :
    runTasks fs ts = runTasks fs (tasksTree dir t) :=
  (runWrites_perm fs _ ts (tasks_pairwise dir t h) hp).symm

/-- after the tasks ran in any order — on **any** prior content of the file system — every targeted
    cell holds what its task wrote -/
theorem save_exact (fs : FS) (dir : Path) (t : Tree) (h : PathSafe t)
    (ts : List (Path × File)) (hp : (tasksTree dir t).Perm ts) :
    Exactly (runTasks fs ts) dir (tasksTree dir t) := by
  rw [save_order_independent fs dir t h ts hp]
  have hpw := tasks_pairwise dir t h
  have hnd := tasksTree_nodup dir t h
  intro x hx
  show runWrites fs _ x.1 = _
  rw [runWrites_lookup _ fs hpw x.1]
  cases hf : (tasksTree dir t).find? (fun w => decide (w.1 = x.1)) with
  | none =>
    have := List.find?_eq_none.1 hf x hx
    simp at this
  | some w =>
    have hw := List.mem_of_find?_eq_some hf
    have hw1 : w.1 = x.1 := by simpa using List.find?_some hf
    have : w = x := inj_of_nodup_map _ hnd w hw x hx hw1
    simp [this]

/-- **load ∘ save = id**: saving any tensordict with path-safe keys (any nesting depth, NonTensorData,
    empty nodes, leaves without elements) into **any** directory — fresh or holding the files of an
    earlier save — with the writer tasks completing in **any** order, then loading, gives back the same
    keys, nesting, container kinds, batch sizes, devices, dtypes, shapes, bytes and non-tensor payloads. -/
theorem load_save (fs : FS) (dir : Path) (t : Tree) (hc : isColl t = true) (hs : PathSafe t) (hw : WF t)
    (ts : List (Path × File)) (hp : (tasksTree dir t).Perm ts) :
    load (depth t) (runTasks fs ts) dir = some t :=
  load_ok (depth t) t dir _ hc hs hw (Nat.le_refl _) (save_exact fs dir t hs ts hp)

/-- a leaf without elements gets no file (`torch.from_file(size=0)` creates none): the saved directory
    of `TensorDict({"a": zeros(3, 0)}, [3])` holds only `meta.json`. On the pinned tree the loader
    skipped every entry without file and `"a"` was missing after `load_memmap` (DESIGN §7 row 20, the
    witness replayed by the check); the repaired loader restores it from its recorded dtype and shape. -/
theorem zero_size_leaf_restored :
    let t := Tree.node [3] "None" [("a", .leaf "torch.float32" [3, 0] [])]
    tasksTree [] t = [(["meta.json"], .json (nodeMeta [3] "None" [("a", .leaf "torch.float32" [3, 0] [])]))]
      ∧ load 1 (save (fun _ => none) [] t) [] = some t := by
  constructor
  · simp [tasksTree, tasksKids, numel]
  · simp [save, runTasks, runWrites, tasksTree, tasksKids, numel, load, loadEntries, Slots.write, nodeMeta, metaEntry]

/-- a lazy stack saved over a **longer** one: the directory keeps the sub-directory of the former third
    member. The repaired loader (bounded by the recorded `len`) returns the two members just saved
    (an instance of `load_save`, which needs no fresh directory); the enumeration of the pinned
    loader (`while (prefix / str(i)).exists()`, i.e. no bound) finds three. -/
theorem pinned_lazy_stale_members_counterexample :
    let m (v : Nat) : Tree := .node [] "cpu" [("a", .leaf "torch.uint8" [1] [v])]
    let t3 := Tree.lazy 0 [("0", m 0), ("1", m 1), ("2", m 2)]
    let t2 := Tree.lazy 0 [("0", m 10), ("1", m 11)]
    let fs := save (save (fun _ => none) [] t3) [] t2
    load 2 fs [] = some t2 ∧ (loadMembers 1 fs [] 0 5).map List.length = some 3 := by
  have r0 : Nat.repr 0 = "0" := by decide
  have r1 : Nat.repr 1 = "1" := by decide
  have r2 : Nat.repr 2 = "2" := by decide
  have r3 : Nat.repr 3 = "3" := by decide
  simp [r0, r1, r2, r3, save, runTasks, runWrites, tasksTree, tasksKids, numel, load, loadEntries, loadMembers, Slots.write,
    nodeMeta, lazyMeta, metaEntry]

/-- a write through one mapping of a leaf is a write to the file's cell: every other mapping of that
    cell, and every later `load`, reads the new bytes; no other cell changes -/
theorem write_through_mapping (fs : FS) (dir : Path) (key : String) (bytes : List Nat) (p : Path) :
    writeLeaf fs dir key bytes p = if p = dir ++ [key ++ ".memmap"] then some (.bytes bytes) else fs p := by
  simp [writeLeaf, Slots.write]

/-- … in particular a later load of a (flat) saved tensordict sees it -/
theorem write_through_load (fs : FS) (dir : Path) (b : List Nat) (d key dt : String) (s old new : List Nat)
    (hne : numel s ≠ 0) (hk : key ++ ".memmap" ≠ "meta.json")
    (he : Exactly fs dir (tasksTree dir (.node b d [(key, .leaf dt s old)]))) :
    load 1 (writeLeaf fs dir key new) dir = some (.node b d [(key, .leaf dt s new)]) := by
  have hm := he (dir ++ ["meta.json"], .json (nodeMeta b d [(key, .leaf dt s old)])) (by simp [tasksTree])
  have hne' : dir ++ ["meta.json"] ≠ dir ++ [key ++ ".memmap"] := by
    intro h
    have := List.append_cancel_left h
    simp only [List.cons.injEq, and_true] at this
    exact hk this.symm
  simp only at hm
  simp [load, loadEntries, writeLeaf, Slots.write, hne', hm, nodeMeta, metaEntry, hne]

/-- … and at **any depth**: if `t'` is `t` with the bytes of one leaf replaced — said on the writer tasks: the tasks of `t'` are those
    of `t` except that the cell of that leaf now carries the new bytes — then after the write through the mapping a load of the
    directory returns `t'` (any nesting, lazy stacks, non-tensor entries; whatever else the file system holds) -/
theorem write_through_load_any_depth (fs : FS) (dir : Path) (t t' : Tree) (p : Path) (key : String) (new : List Nat)
    (hc : isColl t' = true) (hs : PathSafe t') (hw : WF t')
    (he : Exactly fs dir (tasksTree dir t))
    (hrel : ∀ x ∈ tasksTree dir t', x = (dir ++ p ++ [key ++ ".memmap"], File.bytes new)
      ∨ (x ∈ tasksTree dir t ∧ x.1 ≠ dir ++ p ++ [key ++ ".memmap"])) :
    load (depth t') (writeLeaf fs (dir ++ p) key new) dir = some t' := by
  apply load_ok (depth t') t' dir _ hc hs hw (Nat.le_refl _)
  intro x hx
  rcases hrel x hx with h | ⟨hm, hne⟩
  · subst h
    simp [writeLeaf, Slots.write]
  · have := he x hm
    simp only [writeLeaf, Slots.write, List.append_assoc] at hne ⊢
    simp [hne, this]

/-- an instance two levels down: `{"a": …, "n": {"m": {"z": old}}}` saved, `td["n", "m", "z"]` written through the mapping -/
example (fs : FS) (old new : List Nat)
    (he : Exactly fs [] (tasksTree [] (.node [2] "cpu" [("a", .leaf "torch.uint8" [2] [1, 2]),
      ("n", .node [2] "cpu" [("m", .node [2] "cpu" [("z", .leaf "torch.uint8" [2] old)])])]))) :
    let t' := Tree.node [2] "cpu" [("a", .leaf "torch.uint8" [2] [1, 2]),
      ("n", .node [2] "cpu" [("m", .node [2] "cpu" [("z", .leaf "torch.uint8" [2] new)])])]
    load (depth t') (writeLeaf fs ([] ++ ["n", "m"]) "z" new) [] = some t' := by
  intro t'
  apply write_through_load_any_depth fs [] _ t' ["n", "m"] "z" new rfl (by simp [t', PathSafe, PathSafeKids, entryName]) (by simp [t', WF, WFKids, numel]) he
  intro x hx
  obtain ⟨xp, xf⟩ := x
  simp [t', tasksTree, tasksKids, numel, nodeMeta, metaEntry] at hx
  rcases hx with ⟨rfl, rfl⟩ | ⟨rfl, rfl⟩ | ⟨rfl, rfl⟩ | ⟨rfl, rfl⟩ | ⟨rfl, rfl⟩ <;>
    simp [tasksTree, tasksKids, numel, nodeMeta, metaEntry]

/-- `memmap_like` creates the same files as `memmap` (same paths) and a structure with the same
    keys, nesting, kinds, batch sizes, dtypes, shapes and payloads, with zero content -/
theorem memmap_like_structure (dir : Path) (t : Tree) :
    (tasksTree dir (likeTree t)).map (·.1) = (tasksTree dir t).map (·.1)
      ∧ skeleton (likeTree t) = skeleton t :=
  ⟨like_tasks_paths dir t, like_skeleton t⟩

/-- `make_memmap*` on an existing directory: the metadata of every other entry is preserved, the new
    entry is appended, and no cell other than the new file and this `meta.json` changes -/
theorem make_memmap_merge (fs : FS) (dir : Path) (key dtype : String) (shape : List Nat) (nbytes : Nat)
    (m : Meta) (hm : fs (dir ++ ["meta.json"]) = some (.json m)) :
    ∃ fs', makeMemmap fs dir key dtype shape nbytes = some fs'
      ∧ fs' (dir ++ ["meta.json"]) = some (.json { m with entries := (m.entries.filter fun e => e.1 != key) ++ [(key, .leaf dtype shape)] })
      ∧ (∀ e ∈ m.entries, e.1 ≠ key → e ∈ ((m.entries.filter fun e => e.1 != key) ++ [(key, MetaEntry.leaf dtype shape)]))
      ∧ (∀ p, p ≠ dir ++ ["meta.json"] → p ≠ dir ++ [key ++ ".memmap"] → fs' p = fs p) := by
  simp only [makeMemmap, hm]
  refine ⟨_, rfl, ?_, ?_, ?_⟩
  · simp [Slots.write]
  · intro e he hne
    simp only [List.mem_append, List.mem_filter]
    left
    exact ⟨he, by simpa using hne⟩
  · intro p h1 h2
    by_cases h0 : numel shape = 0 <;> simp [Slots.write, h0, h1, h2]

/-! ### refresh: a second mapping of the directory catches up with entries created through another one -/

/-- **`load_memmap_` / `memmap_refresh_` = a fresh load of the directory as it is now**, for every tensordict
    that is still in the directory (`Current`: at every level it holds, its batch size and device are the
    directory's and each of its keys is among those a load binds — entries may have been *added* by anyone,
    at any depth, in any number), every file-system state and every recursion budget. -/
theorem refresh_equals_load (old : Tree) (fuel : Nat) (fs : FS) (dir : Path) (h : Current old fuel fs dir) :
    loadInto fuel fs dir old = load fuel fs dir := refresh_eq_load_aux old fuel fs dir h

/-- the history of the property: a tensordict `{obs, stats: {mean}}` is saved; a reader maps the directory; through
    another mapping `make_memmap(("stats", "count"))` creates an entry **inside the nested node the reader already
    holds** and fills it. A fresh load, and the reader after its refresh, both show the new entry with its content.
    The seeded variant of the loader (children already mapped on their sub-directory are skipped) leaves the reader
    without it — and the `memmap_()` that ends `load_memmap_` then rewrites the node's metadata from the stale key
    set, so that the entry is gone from every later load too. -/
theorem refresh_sees_entry_made_elsewhere :
    let u8 (v : Nat) : Tree := .leaf "torch.uint8" [4] [v, v, v, v]
    let t0 := Tree.node [4] "cpu" [("obs", u8 0), ("stats", .node [4] "cpu" [("mean", u8 1)])]
    let t1 := Tree.node [4] "cpu" [("obs", u8 0), ("stats", .node [4] "cpu" [("mean", u8 1), ("count", u8 7)])]
    let fs0 := save (fun _ => none) [] t0
    let fs1 := writeLeaf ((makeMemmap fs0 ["stats"] "count" "torch.uint8" [4] 4).getD fs0) ["stats"] "count" [7, 7, 7, 7]
    load 2 fs0 [] = some t0
      ∧ load 2 fs1 [] = some t1
      ∧ loadInto 2 fs1 [] t0 = some t1
      ∧ loadIntoSkip 2 fs1 [] t0 = some t0
      ∧ load 2 (save fs1 [] t0) [] = some t0 := by
  simp [save, runTasks, runWrites, tasksTree, tasksKids, numel, load, loadEntries, loadInto, loadIntoEntries, loadIntoSkip,
    loadIntoEntriesSkip, kid?, Slots.write, nodeMeta, metaEntry, makeMemmap, writeLeaf, zeros, List.lookup]

/-! ### the leaf level: `_populate_memmap` / `MemoryMappedTensor.from_tensor` / `from_filename`, entries memory-mapped elsewhere -/

/-- **what is saved is the content of the tensor, whatever it is a view of**: for an ordinary tensor, or a memory-mapped one
    living in *another* file — its whole file or any indexed view of it (one row, a slice, a strided or gathered selection) —
    with `copy_existing=True`: the task succeeds, `from_filename` on the new file reads back exactly the content of the input,
    the tensor handed back shows it too, and no other file (in particular the source's) changes. -/
theorem populate_saves_value (fs : FS) (dir : Path) (key : String) (value : Src)
    (hsrc : ∀ p idx, value = .file p idx → p ≠ dir ++ [key ++ ".memmap"]) :
    ∃ fs' t, populate fs dir key value true false true = .ok (fs', t)
      ∧ (fromFilename (dir ++ [key ++ ".memmap"]) (value.value fs).length).value fs' = value.value fs
      ∧ t.value fs' = value.value fs
      ∧ ∀ q, q ≠ dir ++ [key ++ ".memmap"] → fs' q = fs q := by
  have key1 : ∀ fs0 : FS, ∀ v : List Nat,
      (List.range v.length).filterMap ((fileBytes (mapAndCopy fs0 (dir ++ [key ++ ".memmap"]) v.length (some v)) (dir ++ [key ++ ".memmap"]))[·]?) = v := by
    intro fs0 v
    obtain ⟨t, ht⟩ := mapAndCopy_prefix fs0 (dir ++ [key ++ ".memmap"]) v
    rw [ht]; exact read_prefix v t
  refine ⟨mapAndCopy fs (dir ++ [key ++ ".memmap"]) (value.value fs).length (some (value.value fs)),
    .file (dir ++ [key ++ ".memmap"]) (List.range (value.value fs).length), ?_, ?_, ?_, ?_⟩
  · cases value with
    | mem b => simp [populate, fromTensor]
    | file p idx => simp [populate, fromTensor, hsrc p idx rfl]
  · simpa [fromFilename, Src.value] using key1 fs (value.value fs)
  · simpa [Src.value] using key1 fs (value.value fs)
  · intro q hq; exact mapAndCopy_other fs _ q _ _ hq

/-- `copy_existing=False` refuses a tensor that lives in another file; a tensor that *is* the file it is asked to be saved on
    is handed back without a write; a partial view of that file is refused (after the repair: it was handed back too, and
    the directory then described the view while holding the parent) -/
theorem populate_existing_cases (fs : FS) (dir : Path) (key : String) (p : Path) (idx : List Nat) (like existsok : Bool) :
    (p ≠ dir ++ [key ++ ".memmap"] → populate fs dir key (.file p idx) false like existsok = .error .existing)
      ∧ (p = dir ++ [key ++ ".memmap"] → wholeFile fs p idx = true →
          ∀ ce, populate fs dir key (.file p idx) ce like existsok = .ok (fs, .file p idx))
      ∧ (p = dir ++ [key ++ ".memmap"] → wholeFile fs p idx = false →
          ∀ ce, populate fs dir key (.file p idx) ce like existsok = .error .partialView) := by
  refine ⟨?_, ?_, ?_⟩
  · intro h; simp [populate, fromTensor, h]
  · intro h hw ce; subst h; simp [populate, fromTensor, hw]
  · intro h hw ce; subst h; simp [populate, fromTensor, hw]

/-- `existsok=False`: a file that is there is never overwritten — the task raises, whatever the tensor (ordinary, or living in
    another file with `copy_existing=True`), whether the content would be copied or not. (The threaded front-end must hand the flag
    to the task: the seeded variant that drops it overwrites with num_threads > 1 what num_threads = 0 refuses — the check
    compares outcome and directory with the single-threaded form.) -/
theorem populate_refuses_overwrite (fs : FS) (dir : Path) (key : String) (value : Src) (like : Bool)
    (hex : (fs (dir ++ [key ++ ".memmap"])).isSome = true)
    (hsrc : ∀ p idx, value = .file p idx → p ≠ dir ++ [key ++ ".memmap"]) :
    populate fs dir key value true like false = .error .exists_ := by
  cases value with
  | mem b => simp [populate, fromTensor, hex]
  | file p idx => simp [populate, fromTensor, hex, hsrc p idx rfl]

/-- duplicating the source **file** instead of copying the view (the seeded variant of `from_tensor`) saves row 0 for row 1 -/
theorem copy_file_variant_counterexample :
    let fs0 : FS := Slots.write (fun _ => none) ["src", "obs.memmap"] (.bytes [0, 1, 2, 3, 4, 5, 6, 7, 8, 9, 10, 11])
    let row1 := Src.file ["src", "obs.memmap"] [4, 5, 6, 7]
    row1.value fs0 = [4, 5, 6, 7]
      ∧ (populate fs0 ["dst"] "obs" row1 true false true).toOption.map (fun r => (fromFilename ["dst", "obs.memmap"] 4).value r.1)
          = some [4, 5, 6, 7]
      ∧ (fromFilename ["dst", "obs.memmap"] 4).value (fromTensorCopyFile fs0 row1 ["dst", "obs.memmap"]).1 = [0, 1, 2, 3] := by
  simp [populate, fromTensor, fromTensorCopyFile, fromFilename, Src.value, fileBytes, mapAndCopy, Slots.write, Except.toOption, List.range, List.range.loop]

/-- tie with the tree-level model: for an ordinary tensor the task writes the tensor's bytes at the head of `<key>.memmap`; the
    cell holds exactly those bytes unless a former, longer file was there (its tail stays; no load reads beyond `numel`) -/
theorem populate_mem_is_task (fs : FS) (dir : Path) (key : String) (b : List Nat) (ce : Bool)
    (hold : (fileBytes fs (dir ++ [key ++ ".memmap"])).length ≤ b.length) :
    ∃ t, populate fs dir key (.mem b) ce false true = .ok (fs.write (dir ++ [key ++ ".memmap"]) (.bytes b), t) := by
  refine ⟨.file (dir ++ [key ++ ".memmap"]) (List.range b.length), ?_⟩
  have hm : mapAndCopy fs (dir ++ [key ++ ".memmap"]) b.length (some b) = fs.write (dir ++ [key ++ ".memmap"]) (.bytes b) := by
    simp only [mapAndCopy, List.take_length]
    congr 2
    split
    · rw [List.drop_eq_nil_of_le (by simp; omega)]; simp
    · rw [List.drop_eq_nil_of_le (by omega)]; simp
  simp [populate, fromTensor, Src.value, hm]

/-- the dtype names written in meta.json are read back as the same dtype (regenerated tables) -/
theorem dtype_string_roundtrip :
    ∀ p ∈ Gen.dtype2str, Gen.str2dtype.lookup p.2 = some p.1 := by
  decide +kernel

-- non-vacuity: a nested tensordict with an empty node, a non-tensor entry and an element-less leaf
example : PathSafe (.node [2] "cpu" [("a", .leaf "torch.int32" [2] [1, 0, 0, 0, 2, 0, 0, 0]),
    ("n", .node [2] "cpu" [("z", .leaf "torch.float32" [2, 0] [])]), ("s", .nontensor "hello" [2])]) := by
  simp [PathSafe, PathSafeKids, entryName]
example : PathSafe (.lazy 0 [("0", .node [] "cpu" [("a", .leaf "torch.uint8" [1] [7])]), ("1", .node [] "cpu" [])])
    ∧ WF (.lazy 0 [("0", .node [] "cpu" [("a", .leaf "torch.uint8" [1] [7])]), ("1", .node [] "cpu" [])]) := by
  refine ⟨by simp [PathSafe, PathSafeKids, entryName], ?_⟩
  simp only [WF, WFKids, isColl]
  refine ⟨?_, by simp, by simp [numel]⟩
  intro j h
  have : j = 0 ∨ j = 1 := by simp at h; omega
  rcases this with rfl | rfl <;> rfl
-- non-vacuity of `Current`: the reader of `refresh_sees_entry_made_elsewhere` is still in the directory after the entry was added
example :
    let u8 (v : Nat) : Tree := .leaf "torch.uint8" [4] [v, v, v, v]
    let t0 := Tree.node [4] "cpu" [("obs", u8 0), ("stats", .node [4] "cpu" [("mean", u8 1)])]
    let fs0 := save (fun _ => none) [] t0
    let fs1 := writeLeaf ((makeMemmap fs0 ["stats"] "count" "torch.uint8" [4] 4).getD fs0) ["stats"] "count" [7, 7, 7, 7]
    Current t0 2 fs1 [] := by
  simp [Current, CurrentKids, save, runTasks, runWrites, tasksTree, tasksKids, numel, load, loadEntries, Slots.write, nodeMeta, metaEntry,
    makeMemmap, writeLeaf, zeros]
-- non-vacuity with a tensorclass entry: its meta.json (class, non-tensor fields) and its tensordict under `_tensordict`;
-- `load_save` applies to it (in any directory, under any completion order of the six writer tasks)
example :
    let tc := Tree.tclass "C11Pair" "nofields" [("_tensordict", .node [2] "cpu" [("u", .leaf "torch.uint8" [2] [1, 2]), ("tag", .nontensor "T" [2])])]
    let t := Tree.node [2] "cpu" [("a", .leaf "torch.uint8" [2] [5, 6]), ("p", tc)]
    PathSafe t ∧ WF t ∧ (tasksTree [] t).length = 6
      ∧ ∀ fs ts, (tasksTree [] t).Perm ts → load (depth t) (runTasks fs ts) [] = some t := by
  intro tc t
  have hs : PathSafe t := by simp [t, tc, PathSafe, PathSafeKids, entryName]
  have hw : WF t := by
    simp only [t, tc, WF, WFKids, isColl, numel]
    simp
  exact ⟨hs, hw, by simp [t, tc, tasksTree, tasksKids, numel], fun fs ts hp => load_save fs [] t rfl hs hw ts hp⟩
/-- the excluded point: key "a.memmap" as a node beside a leaf "a" -/
example : ¬ PathSafe (.node [] "None" [("a", .leaf "torch.uint8" [] [1]), ("a.memmap", .node [] "None" [])]) := by
  simp [PathSafe, entryName]

-- ------------------------------------------------------------------ a leaf that is a nested tensor; recorded file names
section Nested

theorem rowsOf_flatten (r : Nat) : ∀ (ss : List (List Nat)) (tail : List Nat), (∀ s ∈ ss, s.length = r) →
    rowsOf r ss.length (ss.flatten ++ tail) = ss := by
  intro ss
  induction ss with
  | nil => intro _ _; rfl
  | cons s ss ih =>
    intro tail h
    have hs : s.length = r := h s (List.mem_cons_self ..)
    subst hs
    simp only [List.length_cons, rowsOf, List.flatten_cons, List.append_assoc]
    rw [List.take_left', List.drop_left', ih tail (fun x hx => h x (List.mem_cons_of_mem _ hx))] <;> rfl

theorem splitBy_flatten : ∀ (ds : List (List Nat)) (tail : List Nat), splitBy (ds.map List.length) (ds.flatten ++ tail) = ds := by
  intro ds
  induction ds with
  | nil => intro _; rfl
  | cons d ds ih =>
    intro tail
    simp only [List.map_cons, splitBy, List.flatten_cons, List.append_assoc]
    rw [List.take_left', List.drop_left', ih tail] <;> rfl

theorem splitBy_length : ∀ (ns : List Nat) (l : List Nat), (splitBy ns l).length = ns.length := by
  intro ns
  induction ns with
  | nil => intro _; rfl
  | cons n ns ih => intro l; simp [splitBy, ih]

theorem zip_fst_snd {α β : Type} (l : List (α × β)) : (l.map (·.1)).zip (l.map (·.2)) = l := by
  induction l <;> simp_all

theorem value_file_congr (fs fs' : FS) (a : Path) (idx : List Nat) (h : fs a = fs' a) :
    (Src.file a idx).value fs = (Src.file a idx).value fs' := by
  simp [Src.value, fileBytes, h]

theorem shapePath_ne_dataPath (dir : Path) (key : String) : shapePath dir key ≠ dataPath dir key := by
  intro h
  have h1 := List.append_cancel_left h
  have h2 : key ++ ".shape" ++ ".memmap" = key ++ ".memmap" := by simpa using h1
  have h3 := congrArg String.length h2
  simp only [String.length_append] at h3
  have e1 : ".shape".length = 6 := by decide
  have e2 : ".memmap".length = 7 := by decide
  omega

theorem shapeCells_length (cs : List Comp) (r : Nat) (h : ∀ c ∈ cs, c.1.length = r) : (shapeCells cs).length = cs.length * r := by
  induction cs with
  | nil => simp [shapeCells]
  | cons c cs ih =>
    have := ih (fun x hx => h x (List.mem_cons_of_mem _ hx))
    have hc := h c (List.mem_cons_self ..)
    simp only [shapeCells, List.flatMap_cons, List.length_append, List.length_cons] at *
    rw [this, hc, Nat.add_mul]; omega

theorem dataCells_length (cs : List Comp) (h : ∀ c ∈ cs, c.2.length = numel c.1) :
    (dataCells cs).length = ((cs.map (·.1)).map numel).sum := by
  induction cs with
  | nil => simp [dataCells]
  | cons c cs ih =>
    have := ih (fun x hx => h x (List.mem_cons_of_mem _ hx))
    have hc := h c (List.mem_cons_self ..)
    simp only [dataCells, List.flatMap_cons, List.length_append, List.map_cons, List.sum_cons] at *
    rw [this, hc]

/-- **a nested-tensor leaf round-trips**: for every list of components of one rank (any shapes, any content), any directory and key, whatever the
    file system held before (`existsok`), `_populate_memmap` succeeds; the loader's `is_nested` branch reads back **the component shapes
    whether or not the values were asked for** (`like`), and — when they were — exactly the components; no file other than `<key>.memmap` and
    `<key>.shape.memmap` changes -/
theorem nested_leaf_roundtrip (fs : FS) (dir : Path) (key : String) (cs : List Comp) (r : Nat) (like : Bool)
    (hwf : ∀ c ∈ cs, c.1.length = r ∧ c.2.length = numel c.1) :
    ∃ fs', populateNested fs dir key cs true like true = .ok fs'
      ∧ (loadNested fs' dir key cs.length r).map (·.1) = cs.map (·.1)
      ∧ (like = false → loadNested fs' dir key cs.length r = cs)
      ∧ ∀ q, q ≠ shapePath dir key → q ≠ dataPath dir key → fs' q = fs q := by
  obtain ⟨fs1, t1, h1ok, h1read, _, h1other⟩ := populate_saves_value fs dir (key ++ ".shape") (.mem (shapeCells cs)) (by intro p idx h; cases h)
  have hne := shapePath_ne_dataPath dir key
  have hsl := shapeCells_length cs r (fun c hc => (hwf c hc).1)
  have hdl := dataCells_length cs (fun c hc => (hwf c hc).2)
  -- the second task
  have h2 : ∃ fs2 t2, populate fs1 dir key (.mem (dataCells cs)) true like true = .ok (fs2, t2)
      ∧ (like = false → (fromFilename (dataPath dir key) (dataCells cs).length).value fs2 = dataCells cs)
      ∧ ∀ q, q ≠ dataPath dir key → fs2 q = fs1 q := by
    cases like with
    | false =>
      obtain ⟨fs2, t2, hok, hread, _, hother⟩ := populate_saves_value fs1 dir key (.mem (dataCells cs)) (by intro p idx h; cases h)
      exact ⟨fs2, t2, hok, fun _ => by simpa [Src.value, dataPath] using hread, fun q hq => hother q (by simpa [dataPath] using hq)⟩
    | true =>
      exact ⟨mapAndCopy fs1 (dataPath dir key) (dataCells cs).length none, .file (dataPath dir key) (List.range (dataCells cs).length),
        by simp [populate, fromTensor, dataPath, Src.value], fun h => absurd h (by decide),
        fun q hq => mapAndCopy_other fs1 _ q _ _ hq⟩
  obtain ⟨fs2, t2, h2ok, h2read, h2other⟩ := h2
  have hshape : (fromFilename (shapePath dir key) (cs.length * r)).value fs2 = shapeCells cs := by
    have e : fs2 (shapePath dir key) = fs1 (shapePath dir key) := h2other _ hne
    rw [fromFilename, value_file_congr fs2 fs1 _ _ e]
    rw [← hsl]
    simpa [fromFilename, shapePath, Src.value] using h1read
  have hrows : rowsOf r cs.length (shapeCells cs) = cs.map (·.1) := by
    have := rowsOf_flatten r (cs.map (·.1)) [] (by intro s hs; obtain ⟨c, hc, rfl⟩ := List.mem_map.mp hs; exact (hwf c hc).1)
    simpa [shapeCells, List.flatMap_def] using this
  refine ⟨fs2, ?_, ?_, ?_, ?_⟩
  · simp [populateNested, populateNestedWith, h1ok, h2ok]
  · simp only [loadNested, hshape, hrows]
    rw [List.map_fst_zip]
    simp [splitBy_length]
  · intro hl
    simp only [loadNested, hshape, hrows]
    rw [← hdl, h2read hl]
    have hsplit : splitBy ((cs.map (·.1)).map numel) (dataCells cs) = cs.map (·.2) := by
      have hlen : (cs.map (·.1)).map numel = (cs.map (·.2)).map List.length := by
        simp only [List.map_map]
        exact List.map_congr_left (fun c hc => by simp [(hwf c hc).2])
      have := splitBy_flatten (cs.map (·.2)) []
      rw [hlen]
      simpa [dataCells, List.flatMap_def] using this
    rw [hsplit]
    exact zip_fst_snd cs
  · intro q hq1 hq2
    rw [h2other q hq2]
    exact h1other q (by simpa [shapePath] using hq1)

/-- the seeded variant (C10-5: the side file written with `copy_data = not like`): after `make_memmap_from_tensor(copy_data=False)` of two
    components of 3 and 5 cells a fresh load finds components of shape `[0]` -/
theorem nested_side_file_like_variant_counterexample :
    let cs : List Comp := [([3], [1, 2, 3]), ([5], [4, 5, 6, 7, 8])]
    let fs0 : FS := fun _ => none
    (match populateNested fs0 [] "j" cs true true true with
      | .ok fs' => (loadNested fs' [] "j" 2 1).map (·.1) | .error _ => []) = [[3], [5]]
    ∧ (match populateNestedWith false fs0 [] "j" cs true true true with
      | .ok fs' => (loadNested fs' [] "j" 2 1).map (·.1) | .error _ => []) = [[0], [0]] := by
  decide

/-- the name recorded by a save is the working directory **at that moment** joined with the relative name, whatever happened before
    (other saves under the same relative name, other working directories) -/
theorem recorded_name_history_independent (h : List NameOp) (cwd0 d rel : Path) :
    (recordedNames cwd0 (h ++ [.chdir d, .save rel])).getLast? = some (d ++ rel) := by
  induction h generalizing cwd0 with
  | nil => simp [recordedNames]
  | cons op h ih =>
    cases op with
    | chdir d' => simpa [recordedNames] using ih d'
    | save rel' =>
      have := ih cwd0
      simp only [List.cons_append, recordedNames]
      cases hrest : recordedNames cwd0 (h ++ [.chdir d, .save rel]) with
      | nil => rw [hrest] at this; cases this
      | cons x xs => rw [hrest] at this; simpa [List.getLast?_cons_cons] using this

/-- the seeded variant (C10-6: absolute names cached by relative name): `ckpt` saved from `A`, then from `B`, records `A/ckpt` twice -/
theorem recorded_name_cached_variant_counterexample :
    recordedNames [] [.chdir ["A"], .save ["ckpt"], .chdir ["B"], .save ["ckpt"]] = [["A", "ckpt"], ["B", "ckpt"]]
    ∧ recordedNamesCached [] [] [.chdir ["A"], .save ["ckpt"], .chdir ["B"], .save ["ckpt"]] = [["A", "ckpt"], ["A", "ckpt"]] := by
  decide

end Nested

-- ------------------------------------------------------------------ the `save_metadata` task of a non-tensor entry against its caller
section MetaTask
open TdVerif.C10.MetaTask

/-- `memmap_` (in place): the task iterates a private copy of the non-tensor dict: it sees exactly that dict, whatever the schedule -/
theorem metadata_task_inplace_schedule_independent (d0 : D) : runTaskInplace d0 = Out.ok d0 := by
  unfold runTaskInplace runTask
  have := iterate_const (fun _ => d0) d0 (d0.length + 1) 0 1 [] (Nat.zero_le _) (by omega) (fun _ _ _ => rfl)
  simpa using this

/-- `memmap` / `save` (not in place): when the task has finished (iterator made + `len + 1` calls of `next()`) before the caller touches the
    dict it handed over, the task saw the dict as it was: the single-threaded outcome -/
theorem metadata_task_done_first (d0 : D) (exp : List String) (p1 p2 : Nat) (h : d0.length + 2 ≤ p1) :
    runTask (liveAt d0 exp p1 p2) = Out.ok d0 := by
  have h0 : liveAt d0 exp p1 p2 0 = d0 := by simp [liveAt]; omega
  unfold runTask
  rw [h0]
  have := iterate_const (liveAt d0 exp p1 p2) d0 (d0.length + 1) 0 1 [] (Nat.zero_le _) (by omega)
    (fun s _ h2 => by simp [liveAt]; omega)
  simpa using this

theorem setKey_length_ge (d : D) (k : String) (v : V) : d.length ≤ (setKey d k v).length := by
  unfold setKey; split <;> simp

/-- `_partial` (recorded finding C10-nontensor-metadata-task-race): when `_from_tensordict` adds a missing expected key while the task is
    between making its iterator and its last `next()`, the save raises — for **every** such schedule -/
theorem metadata_task_error_window_partial (d0 : D) (exp : List String) (p1 p2 : Nat)
    (hadd : d0.length < (addMissing d0 exp).length) (h1 : 1 ≤ p1) (h2 : p1 ≤ d0.length + 1) :
    runTask (liveAt d0 exp p1 p2) = Out.err := by
  have h0 : liveAt d0 exp p1 p2 0 = d0 := by simp [liveAt]; omega
  have hne : (liveAt d0 exp p1 p2 p1).length ≠ d0.length := by
    simp only [liveAt, Nat.lt_irrefl, ↓reduceIte]
    split
    · omega
    · have := setKey_length_ge (addMissing d0 exp) "_metadata" V.pickle
      unfold setMeta; omega
  unfold runTask
  rw [h0]
  exact iterate_err (liveAt d0 exp p1 p2) d0 p1 hne (d0.length + 1) 0 1 [] rfl h1 (by omega) (by omega)
    (fun s _ h3 => by simp [liveAt, h3])

/-- counter-witness, a fresh `NonTensorData` (`{"data": …, "_metadata": None}`, expected keys + `_is_non_tensor`): four schedules, four
    different things on disk / outcomes; only the first is what `num_threads=0` does -/
theorem metadata_task_schedule_dependent_counterexample :
    let d0 : D := [("data", V.json), ("_metadata", V.null)]
    let exp := ["data", "_metadata", "_is_non_tensor"]
    runTask (liveAt d0 exp 9 9) = Out.ok d0
      ∧ runTask (liveAt d0 exp 1 9) = Out.err ∧ runTask (liveAt d0 exp 2 2) = Out.err ∧ runTask (liveAt d0 exp 3 9) = Out.err
      ∧ runTask (liveAt d0 exp 0 9) = Out.ok [("data", V.json), ("_metadata", V.null), ("_is_non_tensor", V.null)]
      ∧ runTask (liveAt d0 exp 0 0) = Out.ok [("data", V.json), ("_metadata", V.pickle), ("_is_non_tensor", V.null)]
      ∧ pickleKeys [("data", V.json), ("_metadata", V.pickle), ("_is_non_tensor", V.null)] = ["_metadata"] := by
  decide

end MetaTask

/-- the functions the C10 models transcribe are, in the working tree, the ones they were transcribed from (AST hashes,
    docstrings removed; regenerated by harness/c12_pins.py on every run): an edit of a transcribed function breaks this
    obligation even when no sampled input behaves differently -/
theorem transcribed_sources_unchanged : Gen.c10Sources = TdVerif.C10.c10Pinned := by decide

end TdVerif.Props.C10
