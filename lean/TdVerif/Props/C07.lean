/-
  C07 — in-place operations keep storage; out-of-place operations never disturb it; views share,
  copies never do.  Property theorems over the storage model (Model/C07Storage.lean) and the class
  table (Model/C07Table.lean).  The tie to the source is the correspondence check of
  harness/check_C07.py: every operation of the reflected public API is run on the real library, its
  observed effect on (storage id, element offsets, values seen through every held handle) is compared
  with what the transformer of its table class computes through the compiled driver.
-/
import TdVerif.Model.C07Storage
import TdVerif.Model.C07Table
import TdVerif.Model.C07SetStr
import TdVerif.Lemmas.C07Storage
import TdVerif.Lemmas.C07Table
import TdVerif.Lemmas.C07Gen

namespace TdVerif.Props.C07
open TdVerif.C07

/-! ## 1. in-place class -/

/-- **In-place operations keep storage.**  For an in-place operation on tensordict `td` writing
`writes` (key ↦ new logical values; distinct keys, entries not overlapping each other, no entry
overlapping itself — torch rejects in-place writes to self-overlapping tensors):
* no tensordict's bindings change: same key set, same storage ids, same windows, nothing allocated;
* every written entry now holds the new values;
* every handle obtained earlier — the entry itself or any view `sel` of it — observes the new values. -/
theorem inplace_keeps_bindings (s : State) (td : Nat) (writes : List (String × List Val))
    (hkeys : (writes.map (·.1)).Nodup)
    (hdisj : ∀ k1 k2 l1 l2, k1 ≠ k2 → (s.objs.getD td []).lookup k1 = some l1 →
        (s.objs.getD td []).lookup k2 = some l2 → Disjoint l1 l2)
    (hinj : ∀ w ∈ writes, ∀ l, (s.objs.getD td []).lookup w.1 = some l → l.offs.Nodup ∧ l.offs.length = w.2.length) :
    (inplaceStep s td writes).objs = s.objs ∧ (inplaceStep s td writes).next = s.next ∧
    ∀ w ∈ writes, ∀ l, (s.objs.getD td []).lookup w.1 = some l →
      readLeaf (inplaceStep s td writes).store l = w.2 ∧
      ∀ sel, readLeaf (inplaceStep s td writes).store (viewOf sel l) = sel.filterMap (fun i => w.2[i]?) := by
  refine ⟨rfl, rfl, ?_⟩
  have key : ∀ (writes : List (String × List Val)) (st : Store), (writes.map (·.1)).Nodup →
      (∀ w ∈ writes, ∀ l, (s.objs.getD td []).lookup w.1 = some l → l.offs.Nodup ∧ l.offs.length = w.2.length) →
      ∀ w ∈ writes, ∀ l, (s.objs.getD td []).lookup w.1 = some l →
        readLeaf (inplaceWrites (s.objs.getD td []) st writes) l = w.2 := by
    intro writes
    induction writes with
    | nil => intro st _ _ w hw; simp at hw
    | cons w0 rest ih =>
      intro st hk hi w hw l hl
      obtain ⟨k0, v0⟩ := w0
      simp only [List.map_cons, List.nodup_cons] at hk
      simp only [inplaceWrites]
      rcases List.mem_cons.mp hw with rfl | hw
      · simp only [hl]
        rw [inplaceWrites_read_frame]
        · exact readLeaf_writeLeaf_same st l v0 (hi _ (by simp) l hl).1 (hi _ (by simp) l hl).2
        · intro w' hw' l' hl'
          have hne : k0 ≠ w'.1 := fun he => hk.1 (by rw [he]; exact List.mem_map_of_mem hw')
          exact hdisj k0 w'.1 l l' hne hl hl'
      · have hi' : ∀ w ∈ rest, ∀ l, (s.objs.getD td []).lookup w.1 = some l → l.offs.Nodup ∧ l.offs.length = w.2.length :=
          fun w hw => hi w (List.mem_cons_of_mem _ hw)
        cases hl0 : (s.objs.getD td []).lookup k0 with
        | none => exact ih st hk.2 hi' w hw l hl
        | some l0 => exact ih _ hk.2 hi' w hw l hl
  intro w hw l hl
  have h1 := key writes s.store hkeys hinj w hw l hl
  refine ⟨h1, fun sel => ?_⟩
  rw [readLeaf_viewOf]
  show sel.filterMap (fun i => (readLeaf (inplaceWrites (s.objs.getD td []) s.store writes) l)[i]?) = _
  rw [h1]

/-- cells outside the tensordict's own entries are not touched by an in-place operation:
any tensor not overlapping the entries (a clone taken earlier, an unrelated tensordict) keeps its values -/
theorem inplace_frame (s : State) (td : Nat) (writes : List (String × List Val)) (l' : Leaf)
    (h : ∀ q ∈ s.objs.getD td [], Disjoint l' q.2) :
    readLeaf (inplaceStep s td writes).store l' = readLeaf s.store l' := by
  unfold readLeaf
  apply List.map_congr_left
  intro o ho
  apply inplaceWrites_frame
  intro q hq hc
  exact h q hq hc.1 o ho hc.2

/-! ## 2. out-of-place class -/

/-- **Out-of-place operations never disturb what the caller holds.**  Whatever the result leaves are
(fresh or aliasing), an operation that builds a new tensordict leaves every existing storage cell,
every existing tensordict's bindings and hence every value seen through any existing handle unchanged. -/
theorem outOfPlace_frame (s : State) (td : Nat) (specs : List (String × Spec)) (hwf : WF s) :
    (∀ sid, sid < s.next → ∀ p, (deriveStep s td specs).store sid p = s.store sid p) ∧
    (∃ r, (deriveStep s td specs).objs = s.objs ++ [r]) ∧
    (∀ b ∈ s.objs, ∀ q ∈ b, readLeaf (deriveStep s td specs).store q.2 = readLeaf s.store q.2) ∧
    WF (deriveStep s td specs) := by
  refine ⟨fun sid h p => deriveStep_frame s td specs sid h p, ⟨_, deriveStep_objs s td specs⟩, ?_, deriveStep_wf s td specs hwf⟩
  intro b hb q hq
  exact readLeaf_congr _ _ _ (fun p => deriveStep_frame s td specs _ (hwf b hb q hq) p)

/-! ## 3. view class -/

/-- **Views share memory with the source**: same storage id, window inside the source's window; in
every store the view reads the selected elements of the source — so a sentinel written through the
source (any `vals`) is read through the view. -/
theorem view_shares (l : Leaf) (sel : List Nat) :
    (viewOf sel l).sid = l.sid ∧ (∀ o ∈ (viewOf sel l).offs, o ∈ l.offs) ∧
    (∀ st, readLeaf st (viewOf sel l) = sel.filterMap (fun i => (readLeaf st l)[i]?)) ∧
    (∀ st vals, l.offs.Nodup → l.offs.length = vals.length →
      readLeaf (writeLeaf st l vals) (viewOf sel l) = sel.filterMap (fun i => vals[i]?)) := by
  refine ⟨rfl, viewOf_offs_subset sel l, fun st => readLeaf_viewOf st sel l, ?_⟩
  intro st vals hnd hlen
  rw [readLeaf_viewOf, readLeaf_writeLeaf_same st l vals hnd hlen]

/-- **…and the sharing is symmetric**: a sentinel written through the view (`sel` injective and in
range, source not self-overlapping) is read through the source at exactly the selected positions,
and every other element of the source is unchanged. -/
theorem view_write_through (st : Store) (l : Leaf) (sel : List Nat) (vals : List Val)
    (hnd : l.offs.Nodup) (hsel : sel.Nodup) (hr : ∀ i ∈ sel, i < l.offs.length) (hlen : sel.length = vals.length) :
    (sel.map (fun i => (readLeaf (writeLeaf st (viewOf sel l) vals) l).getD i 0) = vals) ∧
    (∀ i, i < l.offs.length → i ∉ sel →
      (readLeaf (writeLeaf st (viewOf sel l) vals) l)[i]? = (readLeaf st l)[i]?) := by
  have hoffs := viewOf_offs_eq l sel hr
  have hinj : ∀ x ∈ sel, ∀ y ∈ sel, l.offs.getD x 0 = l.offs.getD y 0 → x = y := by
    intro x hx y hy hxy
    have hx' := hr x hx
    have hy' := hr y hy
    have : l.offs[x]? = l.offs[y]? := by
      simp only [List.getD, List.getElem?_eq_getElem hx', List.getElem?_eq_getElem hy', Option.getD_some] at hxy
      simp [List.getElem?_eq_getElem hx', List.getElem?_eq_getElem hy', hxy]
    exact (List.getElem?_inj hx' hnd).mp this
  have hvnd : (viewOf sel l).offs.Nodup := by
    rw [hoffs]; exact nodup_map_on _ sel hinj hsel
  have hvlen : (viewOf sel l).offs.length = vals.length := by rw [hoffs]; simpa using hlen
  constructor
  · have h1 := readLeaf_writeLeaf_same st (viewOf sel l) vals hvnd hvlen
    rw [readLeaf_viewOf] at h1
    refine Eq.trans (Eq.symm ?_) h1
    apply filterMap_eq_map_of
    intro i hi
    have : i < (readLeaf (writeLeaf st (viewOf sel l) vals) l).length := by
      simpa [readLeaf] using hr i hi
    simp [List.getD, this]
  · intro i hi hni
    simp only [readLeaf, List.getElem?_map, List.getElem?_eq_getElem hi, Option.map_some]
    congr 1
    apply writeAt_frame
    rintro ⟨_, hm⟩
    rw [hoffs] at hm
    obtain ⟨j, hj, hji⟩ := List.mem_map.mp hm
    have hj' := hr j hj
    have : l.offs[j]? = l.offs[i]? := by
      simp only [List.getD, List.getElem?_eq_getElem hj', Option.getD_some] at hji
      simp [List.getElem?_eq_getElem hj', List.getElem?_eq_getElem hi, hji]
    have hij := (List.getElem?_inj hj' hnd).mp this
    exact hni (hij ▸ hj)

/-- **a view of a view is a view of the source**: composing two view operations (`td.permute(...)[0]`,
`td[idx].select(...)`, …) gives a window on the original storage selected by the composed selector — so
everything `view_shares` / `view_write_through` say holds between the second result and the source -/
theorem view_of_view_is_view (l : Leaf) (sel1 sel2 : List Nat) (hr : ∀ i ∈ sel1, i < l.offs.length) :
    viewOf sel2 (viewOf sel1 l) = viewOf (sel2.filterMap (fun j => sel1[j]?)) l := by
  have h1 := viewOf_offs_eq l sel1 hr
  simp only [viewOf, Leaf.mk.injEq, true_and]
  have h1' : sel1.filterMap (fun i => l.offs[i]?) = sel1.map (fun i => l.offs.getD i 0) := h1
  rw [h1', List.filterMap_filterMap]
  apply filterMap_congr_mem
  intro j _
  simp only [List.getElem?_map]
  cases hj : sel1[j]? with
  | none => simp
  | some i =>
    have hi : i < l.offs.length := hr i (List.mem_of_getElem? hj)
    simp [List.getD, hi]

/-! ## 4. copy class -/

/-- tensors in different storages never observe each other's writes -/
theorem distinct_storage_isolated (st : Store) (a b : Leaf) (vals : List Val) (h : a.sid ≠ b.sid) :
    readLeaf (writeLeaf st a vals) b = readLeaf st b :=
  readLeaf_writeLeaf_disjoint st a b vals (fun he => absurd he.symm h)

/-- **Deep copies never share**: the result of a copy-class operation has the same keys, every
result leaf lives in a storage that did not exist before (one per leaf), holds the copied values, and
— with `distinct_storage_isolated` — no write through a result leaf is ever seen through a leaf that
existed before, nor the converse. -/
theorem copy_fresh (src : Binds) : ∀ (specs : List (String × List Val)) (s : State),
    let r := mkLeaves src s (specs.map (fun kv => (kv.1, Spec.fresh kv.2)))
    r.2.map (·.1) = specs.map (·.1) ∧
    (∀ q ∈ r.2, s.next ≤ q.2.sid ∧ q.2.sid < r.1.next) ∧
    (r.2.map (·.2.sid)).Nodup ∧
    r.2.map (fun q => readLeaf r.1.store q.2) = specs.map (·.2)
  | [], s => by simp [mkLeaves]
  | (k, vals) :: rest, s => by
      have ih := copy_fresh src rest (allocLeaf s vals).1
      simp only [List.map_cons, mkLeaves]
      simp only [] at ih
      obtain ⟨ih1, ih2, ih3, ih4⟩ := ih
      have hge := mkLeaves_next_ge src (rest.map (fun kv => (kv.1, Spec.fresh kv.2))) (allocLeaf s vals).1
      rw [allocLeaf_next] at hge
      refine ⟨by simp [ih1], ?_, ?_, ?_⟩
      · intro q hq
        rcases List.mem_cons.mp hq with rfl | hq
        · exact ⟨Nat.le_refl _, hge⟩
        · have := ih2 q hq
          rw [allocLeaf_next] at this
          exact ⟨by omega, this.2⟩
      · simp only [List.nodup_cons]
        refine ⟨?_, ih3⟩
        intro hm
        obtain ⟨q, hq, hqs⟩ := List.mem_map.mp hm
        have := (ih2 q hq).1
        rw [allocLeaf_next] at this
        simp only [allocLeaf_sid] at hqs
        omega
      · simp only [List.cons.injEq]
        refine ⟨?_, ih4⟩
        rw [mkLeaves_read_frame _ _ _ _ (by rw [allocLeaf_next, allocLeaf_sid]; exact Nat.lt_succ_self _)]
        exact allocLeaf_read s vals

/-! ## 4b. chains: a tensordict-level in-place operation applied to the result of a view / a copy -/

/-- **In-place on a view result is observed through the source**: take a view of entry `src`
(`td.permute(...)`, `td[idx]`, `td.select(...)` …), then run an in-place operation on the *result*
tensordict: the source entry holds the new values at exactly the selected positions, and nothing else of it changed. -/
theorem view_then_inplace_observed (s : State) (td : Nat) (k src : String) (sel : List Nat) (vals : List Val) (l : Leaf)
    (hl : (s.objs.getD td []).lookup src = some l) (hnd : l.offs.Nodup) (hsel : sel.Nodup)
    (hr : ∀ i ∈ sel, i < l.offs.length) (hlen : sel.length = vals.length) :
    (sel.map (fun i => (readLeaf (inplaceStep (deriveStep s td [(k, .alias src sel)]) s.objs.length [(k, vals)]).store l).getD i 0) = vals) ∧
    (∀ i, i < l.offs.length → i ∉ sel →
      (readLeaf (inplaceStep (deriveStep s td [(k, .alias src sel)]) s.objs.length [(k, vals)]).store l)[i]? = (readLeaf s.store l)[i]?) := by
  have h1 : deriveStep s td [(k, .alias src sel)] = { s with objs := s.objs ++ [[(k, viewOf sel l)]] } := by
    simp only [deriveStep, mkLeaves, hl, pushObj]
  have h2 : (inplaceStep (deriveStep s td [(k, .alias src sel)]) s.objs.length [(k, vals)]).store
      = writeLeaf s.store (viewOf sel l) vals := by
    rw [h1]
    simp only [inplaceStep, getD_append_length, inplaceWrites, List.lookup, beq_self_eq_true]
  rw [h2]
  exact view_write_through s.store l sel vals hnd hsel hr hlen

/-- **In-place on a copy never reaches the source**: after a copy-class operation, whatever in-place
operation runs on the result tensordict, every tensor that existed before reads the same. -/
theorem copy_then_inplace_isolated (s : State) (td : Nat) (specs : List (String × List Val))
    (writes : List (String × List Val)) (hwf : WF s) :
    ∀ b ∈ s.objs, ∀ q ∈ b,
      readLeaf (inplaceStep (deriveStep s td (specs.map (fun kv => (kv.1, Spec.fresh kv.2)))) s.objs.length writes).store q.2
        = readLeaf s.store q.2 := by
  intro b hb q hq
  have hfr := copy_fresh (s.objs.getD td []) specs s
  simp only [] at hfr
  have hobjs : (deriveStep s td (specs.map (fun kv => (kv.1, Spec.fresh kv.2)))).objs
      = s.objs ++ [(mkLeaves (s.objs.getD td []) s (specs.map (fun kv => (kv.1, Spec.fresh kv.2)))).2] := deriveStep_objs s td _
  rw [inplace_frame]
  · exact (outOfPlace_frame s td _ hwf).2.2.1 b hb q hq
  · intro r hr
    rw [hobjs, getD_append_length] at hr
    intro hs
    have h1 := (hfr.2.1 r hr).1
    have h2 := hwf b hb q hq
    omega

/-! ## 4c. the write entry point `_set_str` -/

/-- **`_set_str`, in-place branch** (`set_`, or `set(..., inplace=True)` on an existing key): succeeds
also on a locked tensordict, leaves the bindings untouched, and every holder of the entry reads the new values -/
theorem setStr_inplace_keeps (b : Binds) (st : Store) (locked : Bool) (mode : InplaceMode) (k : String)
    (value dest : Leaf) (vals : List Val) (hm : mode ≠ .no) (hd : b.lookup k = some dest)
    (hlen : dest.offs.length = vals.length) (hnd : dest.offs.Nodup) :
    ∃ st', setStr b st locked mode k value vals = .ok (b, st') ∧ readLeaf st' dest = vals ∧
      ∀ sel, readLeaf st' (viewOf sel dest) = sel.filterMap (fun i => vals[i]?) := by
  refine ⟨writeLeaf st dest vals, ?_, readLeaf_writeLeaf_same st dest vals hnd hlen, fun sel => ?_⟩
  · cases mode <;> simp [setStr, convertInplace, hd, hlen] at hm ⊢
  · rw [readLeaf_viewOf, readLeaf_writeLeaf_same st dest vals hnd hlen]

/-- **`_set_str`, rebinding branch** (`set` without `inplace`, or with `inplace=True` on a new key):
refused on a locked tensordict; otherwise no memory is touched — holders of the old entry keep
their values — and the entry *is* the caller's tensor afterwards -/
theorem setStr_rebind (b : Binds) (st : Store) (locked : Bool) (mode : InplaceMode) (k : String)
    (value : Leaf) (vals : List Val) (hm : mode = .no ∨ (mode = .best ∧ b.lookup k = none)) :
    (locked = true → setStr b st locked mode k value vals = .error .lock) ∧
    (locked = false → ∃ b', setStr b st locked mode k value vals = .ok (b', st) ∧ b'.lookup k = some value) := by
  have hconv : convertInplace (b.lookup k).isSome mode = .ok false := by
    rcases hm with rfl | ⟨rfl, hk⟩
    · rfl
    · simp [convertInplace, hk]
  constructor
  · intro hl; simp [setStr, hconv, hl]
  · intro hl; exact ⟨setBind b k value, by simp [setStr, hconv, hl], lookup_setBind_self b k value⟩

/-- `set_` on a missing entry is a KeyError (never a silent rebinding) -/
theorem setStr_yes_missing (b : Binds) (st : Store) (locked : Bool) (k : String) (value : Leaf) (vals : List Val)
    (hk : b.lookup k = none) : setStr b st locked .yes k value vals = .error .key := by
  simp [setStr, convertInplace, hk]

/-- **`update_`** never binds anything (its result is a store only), writes exactly the entries whose key
the source shares with the destination — each through the destination's existing leaf, so
`inplace_keeps_bindings` applies to them —, ignores unknown source keys next to a known one and raises
KeyError when no key is shared -/
theorem updateInplace_spec (b : Binds) (st : Store) (src : List (String × List Val)) :
    (∀ st', updateInplace b st src = .ok st' →
        st' = inplaceWrites b st (src.filter (fun p => (b.lookup p.1).isSome))) ∧
    (src ≠ [] → (∀ p ∈ src, b.lookup p.1 = none) → updateInplace b st src = .error .key) := by
  constructor
  · intro st' h
    unfold updateInplace at h
    by_cases hc : (src.filter (fun p => (b.lookup p.1).isSome)).isEmpty = true
    · have hnil : src.filter (fun p => (b.lookup p.1).isSome) = [] := by simpa using hc
      by_cases hs : src.isEmpty = true
      · simp only [hc, hs, if_true] at h
        have h' : st = st' := by simpa using h
        subst h'; simp [hnil, inplaceWrites]
      · simp [hc, hs] at h
    · simp only [hc] at h
      have h' : inplaceWrites b st (src.filter (fun p => (b.lookup p.1).isSome)) = st' := by simpa using h
      exact h'.symm
  · intro hne hall
    have : src.filter (fun p => (b.lookup p.1).isSome) = [] := by
      apply List.filter_eq_nil_iff.mpr
      intro p hp; simp [hall p hp]
    unfold updateInplace
    simp [this, hne]

/-- **basic indexing is a view, advanced indexing a copy**: one advanced item anywhere in the index makes
the result a copy; an index made of integers, slices, `None`, `...` and 0-d integer tensors is a view -/
theorem indexClass_spec (ix : List IxItem) :
    (indexClass ix = .view ↔ ∀ it ∈ ix, it.basic = true) ∧ (indexClass ix = .copy ↔ ∃ it ∈ ix, it.basic = false) := by
  unfold indexClass
  by_cases h : ix.all IxItem.basic = true
  · simp only [h, if_true, true_iff]
    have h' := List.all_eq_true.mp h
    refine ⟨h', ?_⟩
    simp only [reduceCtorEq, false_iff, not_exists, not_and]
    intro it hit; simp [h' it hit]
  · simp only [h, if_false, reduceCtorEq, false_iff, true_iff]
    have : ¬ ∀ it ∈ ix, it.basic = true := fun hh => h (List.all_eq_true.mpr hh)
    refine ⟨this, ?_⟩
    have key : ∀ (l : List IxItem), ¬ (l.all IxItem.basic = true) → ∃ it ∈ l, it.basic = false := by
      intro l
      induction l with
      | nil => intro hl; simp at hl
      | cons a l ih =>
        intro hl
        cases ha : a.basic with
        | false => exact ⟨a, by simp, ha⟩
        | true =>
          have : ¬ (l.all IxItem.basic = true) := by
            intro hl2; apply hl; simp [List.all_cons, ha, hl2]
          obtain ⟨it, hit, hb⟩ := ih this
          exact ⟨it, List.mem_cons_of_mem _ hit, hb⟩
    exact key ix h

/-! ## 5. contiguous() -/

/-- **`contiguous()` copies exactly the non-contiguous entries.**  For a tensordict with distinct
keys in a well-formed state: the result has one entry per entry, under the same key; the result
entry lives in the source entry's storage iff the source entry is contiguous (and is then the very
same window); in both cases it holds the source's values; nothing that existed is disturbed. -/
theorem contiguous_copies_iff_noncontiguous (s : State) (td : Nat) (hwf : WF s)
    (hk : ((s.objs.getD td []).map (·.1)).Nodup) :
    ∃ r, (contiguousStep s td).objs = s.objs ++ [r] ∧ r.length = (s.objs.getD td []).length ∧
      (∀ pq ∈ (s.objs.getD td []).zip r, ContigRel s.store (contiguousStep s td).store pq.1 pq.2) ∧
      (∀ b ∈ s.objs, ∀ q ∈ b, readLeaf (contiguousStep s td).store q.2 = readLeaf s.store q.2) := by
  have h := contig_aux (s.objs.getD td []) s.store hk (s.objs.getD td []) s (fun q hq => hq) (hwf.src td) (fun _ _ => rfl)
  refine ⟨_, deriveStep_objs s td _, h.1, ?_, (outOfPlace_frame s td _ hwf).2.2.1⟩
  intro pq hpq
  simpa [contiguousStep, deriveStep, pushObj] using h.2 pq hpq

/-- the contiguity test of the model is the arithmetic one: consecutive ascending cells -/
theorem isContig_iff (l : Leaf) : isContig l = true ↔ ∃ o, l.offs = List.range' o l.offs.length := by
  unfold isContig
  cases h : l.offs with
  | nil => simp
  | cons o os =>
    simp only [beq_iff_eq]
    constructor
    · intro he; exact ⟨o, he⟩
    · rintro ⟨o', he⟩
      have : o = o' := by
        have := congrArg List.head? he
        simpa [List.range'] using this
      subst this; exact he

/-! ## 6. rebinding (the contrast class) -/

/-- the rebinding branch of `_set_str` (and `del_`) never touches tensor memory: handles to the old
entry keep their values — they do *not* observe the new ones -/
theorem rebind_keeps_store (s : State) (td : Nat) (k : String) (o : Nat) (k2 : String) :
    (rebindStep s td k o k2).store = s.store ∧ (unbindStep s td k).store = s.store := by
  constructor
  · simp only [rebindStep]; split <;> rfl
  · rfl

/-! ## 7. invariants over arbitrary histories -/

/-- every reachable state is well-formed (no dangling storage id) -/
theorem history_wf (s : State) (h : List Step) (hwf : WF s) : WF (run s h) := run_wf h s hwf

/-- **Any sequence of operations none of which is in-place** (views, copies, out-of-place
arithmetic, `contiguous()`, structural writes, allocations by the caller, in any order and number)
leaves every storage that existed at the start bit-for-bit unchanged … -/
theorem history_pure_frame : ∀ (h : List Step) (s : State), (∀ t ∈ h, t.isPure = true) →
    ∀ sid, sid < s.next → ∀ p, (run s h).store sid p = s.store sid p
  | [], _, _, _, _, _ => rfl
  | t :: h, s, hp, sid, hs, p => by
      show (run (step s t) h).store sid p = s.store sid p
      rw [history_pure_frame h (step s t) (fun t' ht' => hp t' (List.mem_cons_of_mem _ ht')) sid
        (Nat.lt_of_lt_of_le hs (step_next_ge s t)) p]
      exact step_pure_frame s t (hp t (by simp)) sid hs p

/-- … so every tensor the caller held at the start reads the same at the end. -/
theorem history_outOfPlace_never_disturbs (h : List Step) (s : State) (hwf : WF s)
    (hp : ∀ t ∈ h, t.isPure = true) :
    ∀ b ∈ s.objs, ∀ q ∈ b, readLeaf (run s h).store q.2 = readLeaf s.store q.2 := by
  intro b hb q hq
  exact readLeaf_congr _ _ _ (fun p => history_pure_frame h s hp _ (hwf b hb q hq) p)

/-- **Any sequence of class operations** (in-place, out-of-place, view, copy, contiguous — i.e. no
structural write) leaves the bindings of every existing tensordict exactly as they were: same key
set, same storage ids, same windows.  New objects are only appended. -/
theorem history_bindings_stable : ∀ (h : List Step) (s : State), (∀ t ∈ h, t.isClassOp = true) →
    ∃ ext, (run s h).objs = s.objs ++ ext
  | [], s, _ => ⟨[], by simp [run]⟩
  | t :: h, s, hc => by
      obtain ⟨e1, h1⟩ := step_class_objs s t (hc t (by simp))
      obtain ⟨e2, h2⟩ := history_bindings_stable h (step s t) (fun t' ht' => hc t' (List.mem_cons_of_mem _ ht'))
      refine ⟨e1 ++ e2, ?_⟩
      show (run (step s t) h).objs = _
      rw [h2, h1, List.append_assoc]

theorem history_keyset_unchanged (h : List Step) (s : State) (hc : ∀ t ∈ h, t.isClassOp = true)
    (td : Nat) (htd : td < s.objs.length) : (run s h).objs[td]? = s.objs[td]? := by
  obtain ⟨ext, he⟩ := history_bindings_stable h s hc
  rw [he, List.getElem?_append_left htd]

/-- **Handles stay coherent along any history of class operations**: a handle taken at the start
(the entry `k` of tensordict `td`, or any view `sel` of it) reads, in the final state, exactly the
selected elements of what the tensordict's entry `k` holds *now* — whatever in-place writes,
views, copies happened in between, and through whichever alias they were issued. -/
theorem history_handle_coherent (h : List Step) (s : State) (hc : ∀ t ∈ h, t.isClassOp = true)
    (td : Nat) (htd : td < s.objs.length) (k : String) (l : Leaf)
    (hl : (s.objs.getD td []).lookup k = some l) (sel : List Nat) :
    ((run s h).objs.getD td []).lookup k = some l ∧
    readLeaf (run s h).store (viewOf sel l) = sel.filterMap (fun i => (readLeaf (run s h).store l)[i]?) := by
  refine ⟨?_, readLeaf_viewOf _ sel l⟩
  have := history_keyset_unchanged h s hc td htd
  simp only [List.getD] at hl ⊢
  rw [this]; exact hl

/-! ## 8. the class table -/

/-- witness state for the deviation: one stacked tensordict with entry `a` = cells 0..1 of storage 0 -/
def exState0 : State := { store := fun _ o => [1, 2].getD o 0, next := 1, objs := [[("a", ⟨0, [0, 1]⟩)]] }

/-- no operation is classified twice -/
theorem table_keys_nodup : (classTable.map (·.1)).Nodup := classTable_keys_nodup

/-- every operation the property names as in-place / view-producing / deep-copying has that class -/
theorem property_lists_classified :
    (∀ n ∈ propertyInplace, classOf n = some .inplace) ∧
    (∀ n ∈ propertyView, classOf n = some .view) ∧
    (∀ n ∈ propertyCopy, classOf n = some .copy) ∧
    classOf "contiguous" = some .contiguous := property_lists_in_table

/-- on every container kind of the quantifier, the documentation class of every operation the
property names is the one the property states (kind-specific rows never override them) -/
theorem property_ops_doc_class_all_kinds :
    ∀ kind ∈ kinds,
      (∀ n ∈ propertyInplace, docClass n kind = some .inplace) ∧
      (∀ n ∈ propertyView, docClass n kind = some .view) ∧
      (∀ n ∈ propertyCopy, docClass n kind = some .copy) := property_ops_doc_class

/-
  Full statement (false of the code):  ∀ op kind, modelClass op kind = docClass op kind
  i.e. the code is modelled, on every container kind, by the class the property assigns.
  Proved: everywhere except the rows of `knownDeviations`; counter-witness below (replayed on the
  implementation by the corpus case of check_C07.py, re-derived on every run as a KNOWN-FINDING).
-/
theorem property_ops_modelled_partial (op kind : String)
    (h : (op ++ "%" ++ kind) ∉ knownDeviations.map (·.1)) : modelClass op kind = docClass op kind :=
  modelClass_eq_docClass_of_not_deviation op kind h

/-- the deviation: advanced indexing of a lazy stack is documented (and stated by the property) as a
deep copy, but the code returns entries that alias the source -/
theorem property_ops_modelled_counterexample :
    docClass "__getitem__/advanced" "lazy" = some .copy ∧ modelClass "__getitem__/advanced" "lazy" = some .outOfPlace ∧
    -- … and with the aliasing the implementation exhibits, the result leaf is NOT fresh (contrast `copy_fresh`)
    ((run exState0 (stepsOf .outOfPlace 0 ⟨[], [⟨"a", some "a", [1, 0], [2, 1], true⟩], []⟩)).objs.getD 1 []).map (·.2.sid) = [0] := by
  decide

/-! ## 8b. obligations over what is regenerated from the source on every run -/

/-- every public name of `TensorDict` found by reflection in the working tree has a row in the class table -/
theorem api_covered_by_table : ∀ p ∈ Gen.C07.apiRows, (classTable.lookup p.2).isSome = true := gen_api_rows_exist

/-- what the source itself says about an operation — its body calls a fused in-place / out-of-place
`torch._foreach_*` kernel, it is decorated `@lock_blocked`, its docstring calls it the in-place version / a
view / a shallow copy — is compatible with the class the table gives it -/
theorem source_hints_agree_with_table : ∀ p ∈ Gen.C07.hints, hintOk p = true := gen_hints_agree

/-- the functions the model transcribes still have the shape they were transcribed from -/
theorem transcribed_sources_unchanged : Gen.C07.shapes = expectedShapes := gen_shapes_unchanged

/-- only the in-place class ever writes to memory … -/
theorem stepsOf_pure (c : OpClass) (td : Nat) (p : Payload) (hc : c ≠ .inplace) :
    ∀ t ∈ stepsOf c td p, t.isPure = true := by
  intro t ht
  cases c <;> simp only [stepsOf, List.mem_singleton, List.mem_map, List.not_mem_nil] at ht
  · exact absurd rfl hc
  · subst ht; rfl
  · subst ht; rfl
  · subst ht; rfl
  · subst ht; rfl
  · obtain ⟨o, _, rfl⟩ := ht; cases o <;> rfl

/-- … and only the structural class ever changes a tensordict's bindings -/
theorem stepsOf_classOp (c : OpClass) (td : Nat) (p : Payload) (hc : c ≠ .rebind) :
    ∀ t ∈ stepsOf c td p, t.isClassOp = true := by
  intro t ht
  cases c <;> simp only [stepsOf, List.mem_singleton, List.mem_map, List.not_mem_nil] at ht
  · subst ht; rfl
  · subst ht; rfl
  · subst ht; rfl
  · subst ht; rfl
  · subst ht; rfl
  · exact absurd rfl hc

/-- **Histories of public operations.**  Along any sequence of public operations none of which the
table classifies as in-place, every storage that existed at the start is unchanged (so every tensor
the caller held reads the same), whatever the payloads are. -/
theorem api_history_frame : ∀ (ops : List (String × Nat × Payload)) (s s' : State),
    (∀ o ∈ ops, classOf o.1 ≠ some .inplace) → runApi s ops = some s' →
    ∀ sid, sid < s.next → ∀ p, s'.store sid p = s.store sid p
  | [], s, s', _, h, sid, _, p => by simp only [runApi, Option.some.injEq] at h; rw [← h]
  | (op, td, pl) :: rest, s, s', hc, h, sid, hs, p => by
      simp only [runApi] at h
      cases hcl : classOf op with
      | none => simp [hcl] at h
      | some c =>
        simp only [hcl] at h
        have hne : c ≠ .inplace := by
          intro he; exact hc (op, td, pl) (by simp) (by rw [hcl, he])
        have h1 := history_pure_frame (stepsOf c td pl) s (stepsOf_pure c td pl hne) sid hs p
        rw [← h1]
        exact api_history_frame rest _ s' (fun o ho => hc o (List.mem_cons_of_mem _ ho)) h sid
          (Nat.lt_of_lt_of_le hs (run_next_ge _ s)) p

/-- Along any sequence of public operations none of which is structural (in-place ones included),
the bindings of every existing tensordict — key set, storage ids, windows — are unchanged. -/
theorem api_history_bindings : ∀ (ops : List (String × Nat × Payload)) (s s' : State),
    (∀ o ∈ ops, classOf o.1 ≠ some .rebind) → runApi s ops = some s' →
    ∃ ext, s'.objs = s.objs ++ ext
  | [], s, s', _, h => by simp only [runApi, Option.some.injEq] at h; exact ⟨[], by rw [← h]; simp⟩
  | (op, td, pl) :: rest, s, s', hc, h => by
      simp only [runApi] at h
      cases hcl : classOf op with
      | none => simp [hcl] at h
      | some c =>
        simp only [hcl] at h
        have hne : c ≠ .rebind := by
          intro he; exact hc (op, td, pl) (by simp) (by rw [hcl, he])
        obtain ⟨e1, h1⟩ := history_bindings_stable (stepsOf c td pl) s (stepsOf_classOp c td pl hne)
        obtain ⟨e2, h2⟩ := api_history_bindings rest _ s' (fun o ho => hc o (List.mem_cons_of_mem _ ho)) h
        exact ⟨e1 ++ e2, by rw [h2, h1, List.append_assoc]⟩

/-! ## 9. non-vacuity: concrete states satisfying the hypotheses, and what fails without them -/

/-- a tensordict {a: contiguous 3 elements in storage 0, b: strided window [0,2] of storage 1},
a bag of handles {h: view [2,0] of a}, two storages -/
def exStore : Store := fun sid o => if sid = 0 then [1, 2, 3].getD o 0 else if sid = 1 then [4, 5, 6].getD o 0 else 0
def exState : State :=
  { store := exStore, next := 2,
    objs := [[("a", ⟨0, [0, 1, 2]⟩), ("b", ⟨1, [0, 2]⟩)], [("h", viewOf [2, 0] ⟨0, [0, 1, 2]⟩)]] }

example : WF exState := by
  intro b hb q hq
  simp only [exState, List.mem_cons, List.not_mem_nil, or_false] at hb
  rcases hb with rfl | rfl <;> simp only [List.mem_cons, List.not_mem_nil, or_false] at hq
  · rcases hq with rfl | rfl <;> decide
  · subst hq; decide

-- in-place write of [7,8,9] into `a`: the old handle (a view) reads the new values, `b` is untouched
example : readLeaf (inplaceStep exState 0 [("a", [7, 8, 9])]).store (viewOf [2, 0] ⟨0, [0, 1, 2]⟩) = [9, 7] := by decide
example : readLeaf (inplaceStep exState 0 [("a", [7, 8, 9])]).store ⟨1, [0, 2]⟩ = [4, 6] := by decide
-- rebinding `a` to the caller's tensor instead: the old handle keeps reading the old values
example : readLeaf (rebindStep exState 0 "a" 1 "h").store (viewOf [2, 0] ⟨0, [0, 1, 2]⟩) = [3, 1] := by decide
-- the hypothesis `offs.Nodup` of `inplace_keeps_bindings` is needed: an expanded (self-overlapping)
-- window does not read back what was written through it
example : readLeaf (writeLeaf exStore ⟨0, [0, 0]⟩ [10, 20]) ⟨0, [0, 0]⟩ = [20, 20] := by decide
-- contiguity: consecutive cells (any start) / strided / expanded / empty
example : isContig ⟨0, [3, 4, 5]⟩ = true ∧ isContig ⟨0, [0, 2, 4]⟩ = false ∧ isContig ⟨0, [0, 0]⟩ = false ∧ isContig ⟨0, []⟩ = true := by decide
-- contiguous(): `a` is shared, the strided `b` is packed into the fresh storage 2
example : (contiguousStep exState 0).objs.getD 2 [] = [("a", ⟨0, [0, 1, 2]⟩), ("b", ⟨2, [0, 1]⟩)] := by decide
example : readLeaf (contiguousStep exState 0).store ⟨2, [0, 1]⟩ = [4, 6] := by decide
-- a deep copy is isolated from a later in-place write to the source
example : readLeaf (run exState [.derive 0 [("a", .fresh [1, 2, 3])], .inplace 0 [("a", [7, 8, 9])]]).store ⟨2, [0, 1, 2]⟩ = [1, 2, 3] := by decide
-- the hypotheses of `view_write_through` are satisfiable (sel = [2,0] on the 3-element leaf)
example : (viewOf [2, 0] ⟨0, [0, 1, 2]⟩).offs = [2, 0] := by decide
-- a history over the public table: `clone`, `permute`, `add` never disturb; names outside the table stop the run
example : (runApi exState [("clone", 0, ⟨[], [⟨"a", some "a", [0, 1, 2], [1, 2, 3], false⟩], []⟩)]).isSome = true := by decide
example : (runApi exState [("no_such_op", 0, ⟨[], [], []⟩)]).isSome = false := by decide

end TdVerif.Props.C07
