/-
  C14 — TensorDict modules read in_keys, write out_keys; sequences compose soundly: property theorems.
  Model: TdVerif/Model/C14Seq.lean (hand transcription, tied by the correspondence check of
  harness/check_C14.py); helper lemmas: TdVerif/Lemmas/C14.lean.
-/
import TdVerif.Model.C14Seq
import TdVerif.Lemmas.C14
import TdVerif.Model.C14Prob
import TdVerif.Lemmas.C14Nested
import TdVerif.Lemmas.C14Forward

namespace TdVerif.Props.C14
open TdVerif.C14

/-! ## one module -/

/-- **module_frame** — a module leaves every entry that is not one of its out_keys untouched. -/
theorem module_frame (m : Mod) (e e' : Env) (k : Key) (h : runMod m e = some e') (hk : k ∉ m.outs) :
    e'.get? k = e.get? k :=
  runMod_frame h hk

/-- a module reads its in_keys only: on two inputs that agree on the in_keys it succeeds on both
or on neither, and writes the same values under its out_keys. -/
theorem module_reads_in_keys_only (m : Mod) (e1 e2 e1' : Env) (ha : ∀ k ∈ m.ins, e1.get? k = e2.get? k)
    (h : runMod m e1 = some e1') :
    ∃ e2', runMod m e2 = some e2' ∧ ∀ k ∈ m.outs, k ≠ sink → e1'.get? k = e2'.get? k := by
  obtain ⟨e2', h2, hag⟩ := runMod_agree (P := fun k => k ∈ m.ins) (fun k hk => ha k hk) (fun _ hk => hk) h
  exact ⟨e2', h2, fun k hk hs => hag k (Or.inr ⟨hk, hs⟩)⟩

/-- the sink `"_"` is never written -/
theorem sink_not_written (m : Mod) (e e' : Env) (h : runMod m e = some e') (hs : e.get? sink = none) :
    e'.get? sink = none := by
  obtain ⟨e2', h2, hag⟩ := runMod_agree (P := fun k => k ∈ m.ins ∨ k = sink) (e2 := e)
    (fun _ _ => rfl) (fun _ hk => Or.inl hk) h
  by_cases hin : sink ∈ m.outs
  · obtain ⟨args, _, rfl⟩ := runMod_inv h
    have hw : ∀ (ks : List Key) (e : Env) (i : Nat), (writeOuts m.f args e ks i).get? sink = e.get? sink := by
      intro ks
      induction ks with
      | nil => intro e i; rfl
      | cons k0 ks ih =>
        intro e i
        simp only [writeOuts]
        split
        · exact ih e (i + 1)
        · rename_i h0; rw [ih, Env.get?_set, if_neg h0]
    rw [hw]; exact hs
  · rw [runMod_frame h hin]; exact hs

/-! ## sequences -/

/-- **in_keys_sufficient** — the advertised in_keys are sufficient inputs: if the input holds them,
every module of the sequence finds its own in_keys (no module reads `"_"`). -/
theorem in_keys_sufficient (ms : List Mod) (e : Env) (hwf : ∀ m ∈ ms, sink ∉ m.ins)
    (h : ∀ k ∈ inKeys ms, (e.get? k).isSome) : ∃ r, run ms e = some r :=
  run_sufficient ms [] [] e h (by simp) hwf

/-- **in_keys_determine** — the outputs are a function of the advertised in_keys: two inputs that
agree on them give results that agree on everything the sequence writes. -/
theorem in_keys_determine (ms : List Mod) (e1 e2 r1 : Env) (hwf : ∀ m ∈ ms, sink ∉ m.ins)
    (ha : ∀ k ∈ inKeys ms, e1.get? k = e2.get? k) (h : run ms e1 = some r1) :
    ∃ r2, run ms e2 = some r2 ∧ ∀ k ∈ allOuts ms, k ≠ sink → r1.get? k = r2.get? k := by
  obtain ⟨r2, h2, hag⟩ := run_determine ms [] [] e1 e2 r1 (by
    intro k hk
    rcases hk with hk | ⟨hk, _⟩
    · exact ha k hk
    · simp at hk) hwf h
  exact ⟨r2, h2, fun k hk hs => hag k (Or.inr ⟨by simpa using hk, hs⟩)⟩

/-- **seq_frame** — entries that no module writes are untouched by the sequence. -/
theorem seq_frame (ms : List Mod) (e r : Env) (k : Key) (h : run ms e = some r) (hk : k ∉ allOuts ms) :
    r.get? k = e.get? k :=
  run_frame ms e r k h hk

/-- **out_keys_last_writer** — the advertised out_keys are exactly the keys some module writes, each
once; and the final value of a key is the one written by the last module that has it among its
out_keys (`pre ++ m :: post` with no writer of `k` in `post`). -/
theorem out_keys_last_writer (ms : List Mod) :
    (∀ k, k ∈ outKeys ms ↔ k ∈ allOuts ms) ∧ (outKeys ms).Nodup ∧
    (∀ (pre post : List Mod) (m : Mod) (e e1 e2 r : Env) (k : Key), ms = pre ++ m :: post →
      k ∉ allOuts post → run pre e = some e1 → runMod m e1 = some e2 → run ms e = some r →
      r.get? k = e2.get? k) := by
  refine ⟨?_, nodup_dedupLast _, ?_⟩
  · intro k
    unfold outKeys
    rw [mem_dedupLast, inOutAux_outs]; simp
  · intro pre post m e e1 e2 r k hms hk h1 h2 hr
    subst hms
    rw [run_append, h1] at hr
    simp only [Option.bind_some, run, h2] at hr
    exact run_frame post e2 r k hr hk

/-- **select_out_sound** — `select_subsequence(out_keys=S)` on *any* sequence (overwritten keys, keys
both read and written, sinks): the retained modules succeed whenever the full sequence does and
compute identical values for every key of `S`. -/
theorem select_out_sound (ms : List Mod) (S : List Key) (e r : Env) (h : run ms e = some r) :
    ∃ r', run (selOut ms S).1 e = some r' ∧ ∀ k ∈ S, r'.get? k = r.get? k := by
  obtain ⟨r', h', hag⟩ := selOut_sound ms S e e r (fun _ _ => rfl) h
  exact ⟨r', h', fun k hk => (hag k hk).symm⟩

/-- with `in_keys=None` the forward pass of `select_subsequence` keeps everything, so
`selectSub ms none (some S)` is the backward slice of `select_out_sound`. -/
theorem select_sub_out_only (ms : List Mod) (S : List Key) :
    selectSub ms none (some S) = if (selOut ms S).1.isEmpty then none else some (selOut ms S).1 := by
  unfold selectSub
  simp only [Option.getD_none, Option.getD_some]
  rw [selIn_all ms [] [] (inKeys ms) (fun k hk => hk) (by simp)]

/-- **select_in_sound** — `select_subsequence(in_keys=K)` under single assignment (`SSA`): fed with
the values the keys of `K` have in the full run, the retained modules run and compute, for every key
they write, the value of the full run. -/
theorem select_in_sound (ms : List Mod) (K : List Key) (e r : Env) (hssa : SSA ms)
    (hwf : ∀ m ∈ ms, sink ∉ m.ins) (h : run ms e = some r) :
    ∃ s', run (selIn ms K) (r.filter (fun kv => decide (kv.1 ∈ K))) = some s' ∧
      ∀ k ∈ allOuts (selIn ms K), k ≠ sink → s'.get? k = r.get? k := by
  obtain ⟨s', h1, h2⟩ := selIn_sound ms K e r (r.filter (fun kv => decide (kv.1 ∈ K))) hssa hwf h (by
    intro k hk _
    rw [Env.get?_filter r (fun k => decide (k ∈ K)) k]; simp [hk])
  exact ⟨s', h1, fun k hk hs => h2 k (List.mem_append_right _ hk) hs⟩

/-! ### without single assignment the in_keys selection is unsound (DESIGN §7 row 16) -/

def m1 : Mod := { ins := [["a"]], outs := [["x"]], f := 1 }
def m2 : Mod := { ins := [["b"]], outs := [["x"]], f := 2 }
def m3 : Mod := { ins := [["x"]], outs := [["y"]], f := 3 }
def e0 : Env := [(["a"], .input ["a"]), (["b"], .input ["b"])]

/-- **select_in_counterexample** — `a→x, b→x, x→y` with `in_keys=[a]`: the selection keeps `a→x, x→y`,
which computes `y = f3(f1(a))` where the full sequence computes `y = f3(f2(b))`. -/
theorem select_in_counterexample :
    selIn [m1, m2, m3] [["a"]] = [m1, m3] ∧
    (run [m1, m2, m3] e0).bind (·.get? ["y"]) = some (.app 3 [.app 2 [.input ["b"]] 0] 0) ∧
    (run (selIn [m1, m2, m3] [["a"]]) e0).bind (·.get? ["y"]) = some (.app 3 [.app 1 [.input ["a"]] 0] 0) ∧
    ¬ SSA [m1, m2, m3] := by
  refine ⟨by simp [selIn, m1, m2, m3], ?_, ?_, ?_⟩
  · simp [run, runMod, readArgs, writeOuts, m1, m2, m3, e0, Env.get?, Env.set, sink]
  · simp [selIn, run, runMod, readArgs, writeOuts, m1, m2, m3, e0, Env.get?, Env.set, sink]
  · simp [SSA, allOuts, m1, m2, m3, sink]

/-! ## `select_out_keys` on a module -/

/-- **select_out_keys_hook** (repaired hook) — with `select_out_keys(*S)` the module still leaves
every entry outside its out_keys untouched, writes the selected out_keys with the values it computes,
and the out_keys that were not selected (and are not in_keys) are absent from the result. -/
theorem select_out_keys_hook (m : Mod) (S : List Key) (e e' : Env) (h : runModSel m S e = some e') :
    (∀ k, k ∉ m.outs → e'.get? k = e.get? k) ∧
    (∀ k ∈ S, e'.get? k = (runMod m e).bind (·.get? k)) ∧
    (∀ k ∈ m.outs, k ∉ S → k ∉ m.ins → e'.get? k = none) := by
  unfold runModSel at h
  cases hr : runMod m e with
  | none => simp [hr] at h
  | some e1 =>
    simp only [hr, Option.map_some] at h
    injection h with h; subst h
    unfold hook
    refine ⟨?_, ?_, ?_⟩
    · intro k hk
      rw [Env.get?_filter e1 (fun k => !(decide (k ∈ m.outs) && !decide (k ∈ S) && !decide (k ∈ m.ins))) k]
      simp [hk, runMod_frame hr hk]
    · intro k hk
      rw [Env.get?_filter e1 (fun k => !(decide (k ∈ m.outs) && !decide (k ∈ S) && !decide (k ∈ m.ins))) k]
      simp [hk]
    · intro k hk hS hI
      rw [Env.get?_filter e1 (fun k => !(decide (k ∈ m.outs) && !decide (k ∈ S) && !decide (k ∈ m.ins))) k]
      simp [hk, hS, hI]

def mcd : Mod := { ins := [["a"]], outs := [["c"], ["d"]], f := 7 }

/-- the pinned hook (`select(*in_keys, *out_keys, inplace=True)`) deletes an unrelated entry of the
input: `{a, other}` through `a ↦ (c, d)` with `select_out_keys("d")` loses `other`. -/
theorem old_hook_counterexample :
    (runModSelOld mcd [["d"]] [(["a"], .input ["a"]), (["other"], .input ["other"])]).bind (·.get? ["other"]) = none ∧
    (runModSel mcd [["d"]] [(["a"], .input ["a"]), (["other"], .input ["other"])]).bind (·.get? ["other"])
      = some (.input ["other"]) := by
  constructor <;>
  simp [runModSelOld, runModSel, hookOld, hook, runMod, readArgs, writeOuts, mcd, Env.get?, Env.set, sink]

/-! ## non-vacuity -/

example : SSA [m1, m3] := by simp [SSA, allOuts, m1, m3, sink]
example : inKeys [m1, m2, m3] = [["a"], ["b"]] ∧ outKeys [m1, m2, m3] = [["x"], ["y"]] := by
  simp [inKeys, outKeys, inOutAux, addIns, dedupLast, m1, m2, m3]
example : (selOut [m1, m2, m3] [["y"]]).1 = [m1, m2, m3] := by
  simp [selOut, m1, m2, m3]

end TdVerif.Props.C14

/-! ## probabilistic modules: which statistic an interaction type selects (decision logic only) -/
namespace TdVerif.Props.C14
open TdVerif.C14.Prob

/-- RANDOM draws from the distribution (`rsample` when available); no other interaction type does a
plain draw (unless the class of the distribution was registered in DETERMINISTIC_REGISTER as RANDOM,
which the library never does). -/
theorem prob_random_draws (c : Caps) (hreg : c.reg ≠ some .random) :
    distSample .random c = (if c.rsample then .rsample else .sample) ∧
    (∀ it, it ≠ .random → distSample it c ≠ .rsample ∧ distSample it c ≠ .sample) := by
  refine ⟨rfl, ?_⟩
  intro it hit
  obtain ⟨ds, reg, sup, mo, me, mn, rs⟩ := c
  cases it <;> simp at hit <;> cases ds <;> cases mo <;> cases me <;> cases mn <;> cases rs <;>
    simp [distSample, pickPlain] <;>
    (cases reg with
     | none => cases sup <;> simp [pickPlain]
     | some r => cases r <;> simp [pickPlain] at hreg ⊢)

/-- MODE / MEDIAN return the statistic of that name of the distribution built from the same parameters or raise
NotImplementedError; MEAN never raises: `dist.mean`, or the empirical mean of `n_empirical_estimate` draws when
`dist.mean` is missing *or raises NotImplementedError*. -/
theorem prob_named_statistic (c : Caps) :
    (distSample .mode c = .mode ∨ distSample .mode c = .notImpl) ∧
    (distSample .median c = .median ∨ distSample .median c = .notImpl) ∧
    (distSample .mean c = .mean ∨ distSample .mean c = .empMeanRsample ∨ distSample .mean c = .empMeanSample) ∧
    (c.mean = .ok → distSample .mean c = .mean) ∧
    (c.mean ≠ .ok → distSample .mean c = if c.rsample then .empMeanRsample else .empMeanSample) := by
  obtain ⟨ds, reg, sup, mo, me, mn, rs⟩ := c
  cases mo <;> cases me <;> cases mn <;> cases rs <;> simp [distSample, pickPlain]

/-- DETERMINISTIC: `deterministic_sample` when the distribution has it; otherwise the registered
statistic of its class, otherwise mean (real / unknown support) or mode. -/
theorem prob_deterministic (c : Caps) :
    (c.detSample = true → distSample .deterministic c = .detSample) ∧
    (c.detSample = false → ∀ r, c.reg = some r → distSample .deterministic c = pickPlain r c) ∧
    (c.detSample = false → c.reg = none →
      distSample .deterministic c = pickPlain (if c.support = .other then .mode else .mean) c) := by
  obtain ⟨ds, reg, sup, mo, me, mn, rs⟩ := c
  refine ⟨?_, ?_, ?_⟩
  · intro h; simp at h; subst h; rfl
  · intro h r hr; simp at h hr; subst h hr; rfl
  · intro h hr; simp at h hr; subst h hr
    cases sup <;> simp [distSample]

example : distSample .deterministic ⟨false, some .mean, .real, true, true, .absent, true⟩ = .empMeanRsample := by decide
example : distSample .deterministic ⟨false, some .deterministic, .real, true, true, .ok, true⟩ = .notImpl := by decide

end TdVerif.Props.C14

/-! ## the full forward (options, nesting) restricted to plain modules is the dataflow model above -/
namespace TdVerif.Props.C14
open TdVerif.C14

/-- a sequence of plain `TensorDictModule`s (inplace=True, no selection) with default options -/
def plain (ms : List Mod) : List Node := ms.map (fun m => Node.mod { m := m })

theorem fwdKids_plain : ∀ (ms : List Mod) (e : Env),
    fwdKids false (plain ms) false { arg := e, exec := none } =
      match run ms e with
      | some r => .ok { arg := r, exec := none }
      | none => fwdKids false (plain ms) false { arg := e, exec := none }
  | [], e => by simp [plain, fwdKids, run]
  | m :: ms, e => by
    have ih := fwdKids_plain ms
    simp only [plain, List.map_cons, fwdKids, Bool.false_and, Bool.false_eq_true, if_false, fwdNode, fwdMod, skips,
      Exec.cur, Option.getD_none, run, runMod]
    cases hr : readArgs e m.ins with
    | none => rfl
    | some args =>
      simp only [applyHook, Exec.after, Bool.or_self]
      have := ih (writeOuts m.f args e m.outs 0)
      simp only [plain] at this
      cases hrun : run ms (writeOuts m.f args e m.outs 0) with
      | some r => rw [this, hrun]
      | none => rfl

/-- **forward_plain** — on plain modules the transcription of the full `forward` (with its
execution-object bookkeeping) returns the input object itself, holding exactly what `run` computes;
so the theorems above are statements about the function the correspondence check exercises. -/
theorem forward_plain (ms : List Mod) (e r : Env) (h : run ms e = some r) :
    fwdNode false (.seq (plain ms) none none false) e = .ok { arg := r, fresh := none } := by
  have := fwdKids_plain ms e
  simp only [h] at this
  simp [fwdNode, skips, this]

theorem nodesInOut_plain : ∀ (ms : List Mod) (ins outs : List Key),
    nodesInOut (plain ms) ins outs = inOutAux ms ins outs
  | [], _, _ => by simp [plain, nodesInOut, inOutAux]
  | m :: ms, ins, outs => by
    have ih := nodesInOut_plain ms
    simp only [plain, List.map_cons, nodesInOut, inOutAux, Node.ins, Node.outs, Option.getD_none] at ih ⊢
    exact ih _ _

/-- the advertised keys of such a sequence are `inKeys` / `outKeys` -/
theorem keys_plain (ms : List Mod) :
    (Node.seq (plain ms) none none false).ins = inKeys ms ∧
    (Node.seq (plain ms) none none false).outs = outKeys ms := by
  simp [Node.ins, Node.outs, nodesInOut_plain, inKeys, outKeys]

end TdVerif.Props.C14

/-! ## `tensordict_out` -/
namespace TdVerif.Props.C14
open TdVerif.C14

theorem fwdKids_copy : ∀ (skip : Bool) (kids : List Node) (pt : Bool) (s : Exec), s.exec.isSome = true →
    (∀ s', fwdKids skip kids pt s = .ok s' → s'.arg = s.arg ∧ s'.exec.isSome = true) ∧
    (∀ a al, fwdKids skip kids pt s = .error (a, al) → a = s.arg)
  | _, [], _, s, h => by
    constructor
    · intro s' hs; simp [fwdKids] at hs; subst hs; exact ⟨rfl, h⟩
    · intro a al hs; simp [fwdKids] at hs
  | skip, n :: ns, pt, s, h => by
    obtain ⟨e, he⟩ := Option.isSome_iff_exists.1 h
    simp only [fwdKids]
    split
    · exact fwdKids_copy skip ns pt s h
    · cases hn : fwdNode skip n s.cur with
      | error r =>
        obtain ⟨cur', al⟩ := r
        constructor
        · intro s' hs; simp at hs
        · intro a al' hs
          simp only [Except.error.injEq, Prod.mk.injEq] at hs
          rw [← hs.1]; simp [Exec.afterErr, he]
      | ok o =>
        have hafter : (s.after o).arg = s.arg ∧ (s.after o).exec.isSome = true := by
          simp [Exec.after, he]
        have ih := fwdKids_copy skip ns pt (s.after o) hafter.2
        constructor
        · intro s' hs
          have := ih.1 s' hs
          exact ⟨this.1.trans hafter.1, this.2⟩
        · intro a al hs
          exact (ih.2 a al hs).trans hafter.1

/-- **tensordict_out_input_untouched** — a sequence called with `tensordict_out` never modifies its input,
whatever its modules are (in-place or not, nested, partial_tolerant, with selections), whether the call
returns or raises: the modules run on a copy. -/
theorem tensordict_out_input_untouched (skip : Bool) (kids : List Node) (sel : Option (List Key)) (pt : Bool)
    (arg out : Env) :
    (∀ a o al, fwdSeqOut skip kids sel pt arg out = .ok (a, o, al) → a = arg) ∧
    (∀ a al, fwdSeqOut skip kids sel pt arg out = .error (a, al) → a = arg) := by
  have h := fwdKids_copy skip kids pt { arg := arg, exec := some arg } rfl
  unfold fwdSeqOut
  constructor
  · intro a o al hr
    cases hk : fwdKids skip kids pt { arg := arg, exec := some arg } with
    | error e => simp [hk] at hr
    | ok s =>
      simp only [hk, Except.ok.injEq, Prod.mk.injEq] at hr
      rw [← hr.1]; exact (h.1 s hk).1
  · intro a al hr
    cases hk : fwdKids skip kids pt { arg := arg, exec := some arg } with
    | error e =>
      obtain ⟨a', al'⟩ := e
      simp only [hk, Except.error.injEq, Prod.mk.injEq] at hr
      rw [← hr.1]; exact h.2 a' al' hk
    | ok s => simp [hk] at hr

end TdVerif.Props.C14

namespace TdVerif.Props.C14
open TdVerif.C14

theorem foldl_set_other (t : String) (k : Key) (hk : headIs t k = false) :
    ∀ (l : List (Key × V)) (d : Env), (∀ kv ∈ l, headIs t kv.1 = true) →
      Env.get? (l.foldl (fun d kv => d.set kv.1 kv.2) d) k = d.get? k
  | [], _, _ => rfl
  | kv :: l, d, h => by
    simp only [List.foldl_cons]
    rw [foldl_set_other t k hk l _ (fun kv' hkv' => h kv' (List.mem_cons_of_mem _ hkv')), Env.get?_set]
    have : kv.1 ≠ k := by
      intro e; have := h kv (by simp); rw [e, hk] at this; cases this
    simp [this]

theorem foldl_setif_other (t : String) (k : Key) (hk : headIs t k = false) (c : Key × V → Bool) :
    ∀ (l : List (Key × V)) (d : Env), (∀ kv ∈ l, headIs t kv.1 = true) →
      Env.get? (l.foldl (fun d kv => if c kv then d.set kv.1 kv.2 else d) d) k = d.get? k
  | [], _, _ => rfl
  | kv :: l, d, h => by
    simp only [List.foldl_cons]
    rw [foldl_setif_other t k hk c l _ (fun kv' hkv' => h kv' (List.mem_cons_of_mem _ hkv'))]
    split
    · rw [Env.get?_set]
      have : kv.1 ≠ k := by
        intro e; have := h kv (by simp); rw [e, hk] at this; cases this
      simp [this]
    · rfl

/-- **update_keys_frame** — `dest.update(src, keys_to_update=K)` (as the sequences call it on `tensordict_out`,
on the input, or on a fresh tensordict) leaves every entry of `dest` whose first key component is not the
first component of a key of `K` exactly as it was. -/
theorem update_keys_frame (dest src : Env) (K : List Key) (k : Key)
    (hk : ∀ t, k.head? = some t → K.any (headIs t) = false) :
    Env.get? (updKeys dest src K) k = dest.get? k := by
  unfold updKeys
  split
  · rfl
  · generalize topNames src = names
    induction names generalizing dest with
    | nil => rfl
    | cons t names ih =>
      simp only [List.foldl_cons]
      rw [ih]
      by_cases hKt : K.any (headIs t) = true
      · -- this step is about entries headed by `t`; `k` is not one of them
        have hkt : headIs t k = false := by
          cases hh : k.head? with
          | none => simp [headIs, hh]
          | some t' =>
            by_cases e : t' = t
            · subst e; have := hk t' hh; rw [this] at hKt; cases hKt
            · simp [headIs, hh]
              intro e'; exact e e'
        simp only [hKt, Bool.not_true, Bool.false_eq_true, if_false]
        split
        · split
          · rfl
          · exact foldl_setif_other t k hkt _ _ _ (fun kv hkv => by simpa using (List.mem_filter.1 hkv).2)
        · rw [foldl_set_other t k hkt _ _ (fun kv hkv => by simpa using (List.mem_filter.1 hkv).2)]
          rw [Env.get?_filter dest (fun k => !headIs t k) k]; simp [hkt]
      · simp [hKt]

end TdVerif.Props.C14

/-! ## nested sequences run as their flattening -/
namespace TdVerif.Props.C14
open TdVerif.C14

mutual
/-- default options all the way down: in-place modules without selection, sequences with `inplace=None`,
no selected out-keys, not partial_tolerant -/
def PlainNode : Node → Prop
  | .mod x => x.inplace = .yes ∧ x.sel = none
  | .seq kids ip sel pt => ip = none ∧ sel = none ∧ pt = false ∧ PlainNodes kids
def PlainNodes : List Node → Prop
  | [] => True
  | n :: ns => PlainNode n ∧ PlainNodes ns
end

mutual
/-- the modules of a (nested) sequence in execution order -/
def flatNode : Node → List Mod
  | .mod x => [x.m]
  | .seq kids _ _ _ => flatNodes kids
def flatNodes : List Node → List Mod
  | [] => []
  | n :: ns => flatNode n ++ flatNodes ns
end

mutual
theorem fwdNode_nested : ∀ (n : Node), PlainNode n → ∀ (e r : Env), run (flatNode n) e = some r →
    fwdNode false n e = .ok { arg := r, fresh := none }
  | .mod x, hp, e, r, hr => by
    simp only [PlainNode] at hp
    simp only [flatNode, run] at hr
    cases hm : runMod x.m e with
    | none => simp [hm] at hr
    | some e' =>
      simp only [hm, Option.some.injEq] at hr; subst hr
      obtain ⟨args, ha, he⟩ := runMod_inv hm
      simp [fwdNode, fwdMod, skips, ha, hp.1, applyHook, hp.2, he]
  | .seq kids ip sel pt, hp, e, r, hr => by
    simp only [PlainNode] at hp
    obtain ⟨rfl, rfl, rfl, hk⟩ := hp
    simp only [flatNode] at hr
    have := fwdKids_nested kids hk e r hr
    simp [fwdNode, skips, this]
theorem fwdKids_nested : ∀ (kids : List Node), PlainNodes kids → ∀ (e r : Env), run (flatNodes kids) e = some r →
    fwdKids false kids false { arg := e, exec := none } = .ok { arg := r, exec := none }
  | [], _, e, r, hr => by
    simp only [flatNodes, run, Option.some.injEq] at hr; subst hr
    simp [fwdKids]
  | n :: ns, hp, e, r, hr => by
    simp only [PlainNodes] at hp
    simp only [flatNodes, run_append] at hr
    cases h1 : run (flatNode n) e with
    | none => simp [h1] at hr
    | some e1 =>
      simp only [h1, Option.bind_some] at hr
      have hn := fwdNode_nested n hp.1 e e1 h1
      have hrest := fwdKids_nested ns hp.2 e1 r hr
      simp only [fwdKids, Bool.false_and, Bool.false_eq_true, if_false, Exec.cur, Option.getD_none, hn, Exec.after,
        Bool.or_self]
      exact hrest
end

/-- **nested_runs_as_flattening** — a nested sequence with default options computes what the flat list
of its modules computes (`run`), on the input object itself; with the theorems on `run` this covers
nested sequentials of any depth. -/
theorem nested_runs_as_flattening (kids : List Node) (hp : PlainNodes kids) (e r : Env)
    (h : run (flatNodes kids) e = some r) :
    fwdNode false (.seq kids none none false) e = .ok { arg := r, fresh := none } :=
  fwdNode_nested (.seq kids none none false) (by simp [PlainNode, hp]) e r (by simpa [flatNode] using h)

end TdVerif.Props.C14

/-! ## partial_tolerant -/
namespace TdVerif.Props.C14
open TdVerif.C14

/-- run, in order, the modules whose in_keys are all present at their turn; skip the others -/
def runPT : List Mod → Env → Env
  | [], e => e
  | m :: ms, e =>
    if m.ins.all (fun k => e.has k) then
      match runMod m e with
      | some e' => runPT ms e'
      | none => runPT ms e
    else runPT ms e

/-- **partial_tolerant_total** — a `partial_tolerant` sequence of plain modules never fails for a missing
key: it returns the input object holding the result of running exactly the modules whose in_keys are present
when their turn comes. -/
theorem partial_tolerant_total : ∀ (ms : List Mod) (e : Env),
    fwdKids false (plain ms) true { arg := e, exec := none } = .ok { arg := runPT ms e, exec := none }
  | [], e => by simp [plain, fwdKids, runPT]
  | m :: ms, e => by
    have ih := partial_tolerant_total ms
    simp only [plain, List.map_cons] at ih ⊢
    simp only [fwdKids, runPT, Exec.cur, Option.getD_none, Node.ins, Bool.true_and]
    by_cases hall : (m.ins.all fun k => e.has k) = true
    · simp only [hall, Bool.not_true, Bool.false_eq_true, if_false, if_true]
      have hsome : (readArgs e m.ins).isSome := by
        rw [readArgs_some_iff]
        intro k hk
        have := (List.all_eq_true.1 hall) k hk
        simpa [Env.has] using this
      obtain ⟨args, ha⟩ := Option.isSome_iff_exists.1 hsome
      simp only [fwdNode, fwdMod, skips, Bool.false_and, Bool.false_eq_true, if_false, ha, applyHook, Exec.after,
        Bool.or_self, runMod]
      exact ih _
    · have hf : (m.ins.all fun k => e.has k) = false := by simpa using hall
      simp only [hf, Bool.not_false, if_true, Bool.false_eq_true, if_false]
      exact ih e

end TdVerif.Props.C14

/-! ## the advertised keys of a nested sequence are those of its flattening -/
namespace TdVerif.Props.C14
open TdVerif.C14

def outsOf : List Node → List Key
  | [] => []
  | n :: ns => n.outs ++ outsOf ns

theorem allOuts_append (a b : List Mod) : allOuts (a ++ b) = allOuts a ++ allOuts b := by
  simp [allOuts, List.flatMap_append]

theorem nodesInOut_outs : ∀ (kids : List Node) (ins outs : List Key),
    (nodesInOut kids ins outs).2 = outs ++ outsOf kids
  | [], _, _ => by simp [nodesInOut, outsOf]
  | n :: ns, ins, outs => by
    simp only [nodesInOut, outsOf, nodesInOut_outs ns, List.append_assoc]

theorem kidsOuts : ∀ (kids : List Node), PlainNodes kids →
    (∀ k, k ∈ outsOf kids ↔ k ∈ allOuts (flatNodes kids)) ∧
    (∀ pre post, dedupLast (pre ++ outsOf kids ++ post) = dedupLast (pre ++ allOuts (flatNodes kids) ++ post))
  | [], _ => by simp [outsOf, flatNodes, allOuts]
  | .mod x :: ns, hp => by
    simp only [PlainNodes, PlainNode] at hp
    obtain ⟨ih1, ih2⟩ := kidsOuts ns hp.2
    have houts : (Node.mod x).outs = allOuts [x.m] := by simp [Node.outs, hp.1.2, allOuts]
    simp only [outsOf, flatNodes, flatNode, allOuts_append, houts]
    refine ⟨fun k => by simp [ih1 k], ?_⟩
    intro pre post
    have := ih2 (pre ++ allOuts [x.m]) post
    simpa [List.append_assoc] using this
  | .seq k' ip sel pt :: ns, hp => by
    simp only [PlainNodes, PlainNode] at hp
    obtain ⟨⟨rfl, rfl, rfl, hk'⟩, hns⟩ := hp
    obtain ⟨ihk1, ihk2⟩ := kidsOuts k' hk'
    obtain ⟨ih1, ih2⟩ := kidsOuts ns hns
    have houts : (Node.seq k' none none false).outs = dedupLast (outsOf k') := by
      simp [Node.outs, nodesInOut_outs]
    simp only [outsOf, flatNodes, flatNode, allOuts_append, houts]
    refine ⟨fun k => by simp [mem_dedupLast, ihk1 k, ih1 k], ?_⟩
    intro pre post
    have s1 : dedupLast (pre ++ (dedupLast (outsOf k') ++ (outsOf ns ++ post)))
        = dedupLast (pre ++ (outsOf k' ++ (outsOf ns ++ post))) :=
      dedupLast_congr_pre pre (fun k => by simp [mem_dedupLast]) (dedupLast_inner _ _)
    have s2 := ihk2 pre (outsOf ns ++ post)
    have s3 := ih2 (pre ++ allOuts (flatNodes k')) post
    simp only [List.append_assoc] at s1 s2 s3 ⊢
    rw [s1, s2, s3]

theorem kidsKeys : ∀ (kids : List Node), PlainNodes kids → ∀ (ins oN oF : List Key), (∀ k, k ∈ oN ↔ k ∈ oF) →
    (nodesInOut kids ins oN).1 = (inOutAux (flatNodes kids) ins oF).1
  | [], _, _, _, _, _ => by simp [nodesInOut, flatNodes, inOutAux]
  | .mod x :: ns, hp, ins, oN, oF, hm => by
    simp only [PlainNodes, PlainNode] at hp
    simp only [nodesInOut, flatNodes, flatNode, List.cons_append, List.nil_append, inOutAux, Node.ins, Node.outs,
      hp.1.2, Option.getD_none]
    rw [addIns_congr hm]
    exact kidsKeys ns hp.2 _ _ _ (fun k => by simp [hm k])
  | .seq k' ip sel pt :: ns, hp, ins, oN, oF, hm => by
    simp only [PlainNodes, PlainNode] at hp
    obtain ⟨⟨rfl, rfl, rfl, hk'⟩, hns⟩ := hp
    have hins : (Node.seq k' none none false).ins = (inOutAux (flatNodes k') [] []).1 := by
      simp only [Node.ins]; exact kidsKeys k' hk' [] [] [] (fun _ => Iff.rfl)
    have houts : (Node.seq k' none none false).outs = dedupLast (outsOf k') := by
      simp [Node.outs, nodesInOut_outs]
    simp only [nodesInOut, flatNodes, flatNode, inOutAux_append, hins, houts]
    have hnest := inOutAux_nest (flatNodes k') [] [] ins oF
    simp only [addIns, List.append_nil] at hnest
    rw [hnest, addIns_congr hm, inOutAux_outs]
    apply kidsKeys ns hns
    intro k
    simp [mem_dedupLast, hm k, (kidsOuts k' hk').1 k]

/-- **nested_keys_as_flattening** — for nested sequences with default options (any depth), the advertised
`in_keys` and `out_keys` are exactly those `_compute_in_and_out_keys` gives for the flat list of modules;
with `nested_runs_as_flattening`, `in_keys_sufficient`, `in_keys_determine` and `out_keys_last_writer` speak
about nested sequentials too. -/
theorem nested_keys_as_flattening (kids : List Node) (hp : PlainNodes kids) :
    (Node.seq kids none none false).ins = inKeys (flatNodes kids) ∧
    (Node.seq kids none none false).outs = outKeys (flatNodes kids) := by
  constructor
  · simp only [Node.ins, inKeys]; exact kidsKeys kids hp [] [] [] (fun _ => Iff.rfl)
  · simp only [Node.outs, Option.getD_none, outKeys, nodesInOut_outs, inOutAux_outs, List.nil_append]
    have := (kidsOuts kids hp).2 [] []
    simpa using this

end TdVerif.Props.C14

/-! ## composite distributions: the shape of the aggregated log-probability -/
namespace TdVerif.Props.C14
open TdVerif.C14.Prob

theorem sumShapes_const (s : Shape) : ∀ (l : List Shape), l ≠ [] → (∀ x ∈ l, x = s) → sumShapes l = some s
  | [], h, _ => absurd rfl h
  | [x], _, hx => by simp [sumShapes, hx x (by simp)]
  | x :: y :: rest, _, hx => by
    have ih := sumShapes_const s (y :: rest) (by simp) (fun z hz => hx z (List.mem_cons_of_mem _ hz))
    simp [sumShapes, ih, hx x (by simp)]

theorem reduce_head (sb ex : Shape) : reduceTo sb.length (headLp sb ex) = sb := by
  unfold reduceTo headLp
  split
  · simp
  · rename_i h
    have : ex = [] := by
      cases ex with
      | nil => rfl
      | cons a r => simp at h
    simp [this]

/-- **composite_log_prob_shape** — for any number of heads with any un-reduced feature dims, any batch shape
and any `num_samples` prefix: the aggregated log-probability `CompositeDistribution.log_prob(sample)` and the
aggregated entry the module writes both have exactly the batch shape of the sample tensordict (`num_samples ++ batch`),
so `module.get_dist(params).log_prob(sample)` agrees in shape with what the module wrote. -/
theorem composite_log_prob_shape (ns batch : Shape) (heads : List Shape) (hne : heads ≠ []) :
    compositeLogProbShape (ns ++ batch) heads = some (ns ++ batch) ∧
    moduleLogProbShape (ns ++ batch) heads = some (ns ++ batch) := by
  constructor
  · apply sumShapes_const
    · simpa using hne
    · intro x hx
      obtain ⟨ex, _, rfl⟩ := List.mem_map.1 hx
      exact reduce_head _ ex
  · apply sumShapes_const
    · simpa using hne
    · intro x hx
      obtain ⟨ex, _, rfl⟩ := List.mem_map.1 hx
      show List.take (ns ++ batch).length (headLp (ns ++ batch) ex) = ns ++ batch
      unfold headLp
      exact List.take_left' rfl

/-- reducing to `len(batch_shape)` dims instead (the distribution's batch, without the `num_samples` prefix) sums
batch dims away: one head, `num_samples = 4`, batch `[3]` gives shape `[4]` where the module wrote `[4, 3]`. -/
theorem composite_log_prob_shape_batch_counterexample :
    compositeLogProbShapeBatch [3] ([4] ++ [3]) [[]] = some [4] ∧
    moduleLogProbShape ([4] ++ [3]) [[]] = some [4, 3] := by
  decide

example : compositeLogProbShape [4, 3] [[], [2], [5, 2]] = some [4, 3] := by decide
example : perHeadShapes [4, 3] [[], [2]] = [[4, 3], [4, 3, 2]] := by decide

end TdVerif.Props.C14

/-! ## the option variants of `TensorDictSequential.forward` (top-level keys) -/
namespace TdVerif.Props.C14
open TdVerif.C14

/-- the modules run on a copy (`exec = some _`): the copy ends as `run` computes, the argument is untouched -/
theorem fwdKids_plain_copy : ∀ (ms : List Mod) (a e r : Env), run ms e = some r →
    fwdKids false (plain ms) false { arg := a, exec := some e } = .ok { arg := a, exec := some r }
  | [], a, e, r, h => by simp [run] at h; subst h; simp [plain, fwdKids]
  | m :: ms, a, e, r, h => by
    obtain ⟨e', hm, hrest⟩ := run_cons_inv h
    obtain ⟨args, ha, he⟩ := runMod_inv hm
    have ih := fwdKids_plain_copy ms a e' r hrest
    simp only [plain, List.map_cons] at ih ⊢
    simp only [fwdKids, Bool.false_and, Bool.false_eq_true, if_false, Exec.cur, Option.getD_some, fwdNode, fwdMod,
      skips, ha, applyHook, Exec.after, Out.ret, Option.getD_none, Bool.or_self, ← he]
    exact ih

/-- **forward_tensordict_out** — a sequence of plain modules called with `tensordict_out=out` (top-level keys):
`out` is returned holding, under every advertised out_key the run produced, the computed value, and its other
entries as they were; the input is untouched. -/
theorem forward_tensordict_out (ms : List Mod) (arg out r : Env) (hr : run ms arg = some r)
    (hm : ∀ m ∈ ms, FlatKeys m.outs) (ha : FlatEnv arg) (hn : KeysNodup arg) (ho : FlatEnv out) :
    ∃ out' al, fwdSeqOut false (plain ms) none false arg out = .ok (arg, out', al) ∧
      ∀ t, Env.get? out' [t] =
        if [t] ∈ outKeys ms ∧ (Env.get? r [t]).isSome then Env.get? r [t] else Env.get? out [t] := by
  obtain ⟨hf, hnd⟩ := run_inv ms arg r hm ha hn hr
  have hk := fwdKids_plain_copy ms arg arg r hr
  have hkeys : dedupLast (nodesInOut (plain ms) [] []).2 = outKeys ms := by
    simp [nodesInOut_plain, outKeys]
  have hflatK : FlatKeys (outKeys ms) := by
    intro k hk'
    have := ((out_keys_last_writer ms).1 k).1 hk'
    simp only [allOuts, List.mem_flatMap] at this
    obtain ⟨m, hm', hkm⟩ := this
    exact hm m hm' k hkm
  refine ⟨updKeys out r (outKeys ms), updAliases out r (outKeys ms), ?_, ?_⟩
  · simp [fwdSeqOut, hk, Exec.cur, hkeys]
  · intro t
    exact updKeys_flat out r (outKeys ms) ho hf hnd hflatK t

/-- **forward_inplace_false** — `TensorDictSequential(..., inplace=False)` (or `"empty"`) on plain modules: a new
tensordict is returned that holds exactly the advertised out_keys with the computed values, and *the input object is
left as it was* (repaired: the modules used to run on the input itself). -/
theorem forward_inplace_false (ms : List Mod) (ip : Inplace) (hip : ip ≠ .yes) (arg r : Env) (hr : run ms arg = some r)
    (hm : ∀ m ∈ ms, FlatKeys m.outs) (ha : FlatEnv arg) (hn : KeysNodup arg) :
    ∃ res al, fwdNode false (.seq (plain ms) (some ip) none false) arg = .ok { arg := arg, fresh := some res, aliased := al } ∧
      ∀ t, Env.get? res [t] = if [t] ∈ outKeys ms ∧ (Env.get? r [t]).isSome then Env.get? r [t] else none := by
  obtain ⟨hf, hnd⟩ := run_inv ms arg r hm ha hn hr
  have hk := fwdKids_plain_copy ms arg arg r hr
  have hkeys : dedupLast (nodesInOut (plain ms) [] []).2 = outKeys ms := by
    simp [nodesInOut_plain, outKeys]
  have hflatK : FlatKeys (outKeys ms) := by
    intro k hk'
    have := ((out_keys_last_writer ms).1 k).1 hk'
    simp only [allOuts, List.mem_flatMap] at this
    obtain ⟨m, hm', hkm⟩ := this
    exact hm m hm' k hkm
  refine ⟨updKeys [] r (outKeys ms), updAliases [] r (outKeys ms), ?_, ?_⟩
  · cases ip with
    | yes => exact absurd rfl hip
    | no => simp [fwdNode, skips, hk, Exec.cur, hkeys]
    | empty => simp [fwdNode, skips, hk, Exec.cur, hkeys]
  · intro t
    have := updKeys_flat [] r (outKeys ms) (fun _ h => by simp at h) hf hnd hflatK t
    simpa [Env.get?] using this

/-- **forward_selected_out_keys** — a sequence of plain modules with selected out-keys `S` (constructor argument or
`select_out_keys`), default `inplace`: the input object is returned; it gains the computed value under every selected
key and under every key it already had (entries overwritten during the run), and **no other key** — the unselected
intermediate results are not added. -/
theorem forward_selected_out_keys (ms : List Mod) (S : List Key) (arg r : Env) (hr : run ms arg = some r)
    (hm : ∀ m ∈ ms, FlatKeys m.outs) (ha : FlatEnv arg) (hn : KeysNodup arg) (hS : FlatKeys S) :
    ∃ res al, fwdNode false (.seq (plain ms) none (some S) false) arg = .ok { arg := res, fresh := none, aliased := al } ∧
      ∀ t, Env.get? res [t] =
        if ([t] ∈ S ∨ (Env.get? arg [t]).isSome) ∧ (Env.get? r [t]).isSome then Env.get? r [t] else Env.get? arg [t] := by
  obtain ⟨hf, hnd⟩ := run_inv ms arg r hm ha hn hr
  have hk := fwdKids_plain_copy ms arg arg r hr
  have hflatK : FlatKeys (S ++ arg.map (·.1)) := by
    intro k hk'
    rcases List.mem_append.1 hk' with h | h
    · exact hS k h
    · obtain ⟨kv, hkv, rfl⟩ := List.mem_map.1 h; exact ha kv hkv
  have hmemarg : ∀ t, [t] ∈ arg.map (·.1) ↔ (Env.get? arg [t]).isSome := by
    intro t
    have : ∀ (e : Env), ([t] ∈ e.map (·.1)) ↔ (Env.get? e [t]).isSome := by
      intro e
      induction e with
      | nil => simp [Env.get?]
      | cons y e ih =>
        obtain ⟨k0, v0⟩ := y
        simp only [List.map_cons, List.mem_cons, Env.get?]
        by_cases h0 : k0 = [t]
        · simp [h0]
        · have : ¬ [t] = k0 := fun e => h0 e.symm
          simp [h0, this, ih]
    exact this arg
  refine ⟨updKeys arg r (S ++ arg.map (·.1)), updAliases arg r (S ++ arg.map (·.1)), ?_, ?_⟩
  · simp [fwdNode, skips, hk, Exec.cur]
  · intro t
    rw [updKeys_flat arg r (S ++ arg.map (·.1)) ha hf hnd hflatK t]
    simp only [List.mem_append, hmemarg t]

/-! ## the frame of a composite probabilistic module -/
end TdVerif.Props.C14

namespace TdVerif.Props.C14
open TdVerif.C14.Prob

/-- without aggregation the module writes exactly what it advertises -/
theorem composite_per_key_frame (heads : List String) (lp : String) (k : String) :
    k ∈ writtenKeys false heads lp ↔ k ∈ advertisedKeys false heads lp := by
  simp [writtenKeys, advertisedKeys]

/-- with aggregation everything advertised is written … -/
theorem composite_aggregate_advertised_written (heads : List String) (lp : String) (k : String)
    (h : k ∈ advertisedKeys true heads lp) : k ∈ writtenKeys true heads lp := by
  simp only [advertisedKeys, writtenKeys, if_true, List.mem_append, List.mem_singleton] at h ⊢
  rcases h with h | h
  · exact Or.inl (Or.inl h)
  · exact Or.inr h

/-- **composite_aggregate_extra_entries_counterexample** (recorded finding `C14-composite-aggregate-per-head-entries`) — …
but the per-head log-probs are written too, and they are not advertised: two heads `x`, `y` under
`composite_lp_aggregate(True)` write `x_log_prob`, which is not one of the module's out_keys (14 `*_legacy` tests of the
library assert these entries, so the behaviour is recorded, not repaired). -/
theorem composite_aggregate_extra_entries_counterexample :
    "x_log_prob" ∈ writtenKeys true ["x", "y"] "sample_log_prob" ∧
    "x_log_prob" ∉ advertisedKeys true ["x", "y"] "sample_log_prob" := by
  decide

end TdVerif.Props.C14

namespace TdVerif.Props.C14
open TdVerif.C14

/-! ## `tensordict_out` and nested out_keys (recorded finding) -/

/-- **tensordict_out_nested_siblings_counterexample** (recorded finding `C14-tensordict-out-nested-siblings`) — a sequence of
one module `('n','a') ↦ ('n','x')` called on `{('n','a'), ('n','b')}` with an empty `tensordict_out`: the destination
receives the out_key `('n','x')` *and* the siblings `('n','a')`, `('n','b')` of the nested tensordict
(`update(keys_to_update=[('n','x')])` copies the whole entry `n` when the destination has none; 12 cases of the library's
`test_update_select` assert this, so it is recorded, not repaired). The flat-key theorem `forward_tensordict_out` is why the
hypothesis `FlatKeys` is there. -/
theorem tensordict_out_nested_siblings_counterexample :
    (match fwdSeqOut false [.mod { m := { ins := [["n", "a"]], outs := [["n", "x"]], f := 0 } }] none false
        [(["n", "a"], .input ["n", "a"]), (["n", "b"], .input ["n", "b"])] [] with
     | .ok (_, out', _) => some (out'.map (·.1))
     | .error _ => none)
      = some [["n", "a"], ["n", "b"], ["n", "x"]] := by
  simp [fwdSeqOut, fwdKids, fwdNode, fwdMod, skips, readArgs, writeOuts, applyHook, Exec.cur, Exec.after, Out.ret,
    Node.ins, Node.outs, nodesInOut, addIns, dedupLast, updKeys, updAliases, topNames, isNodeAt, headIs, Env.get?,
    Env.set, Env.has, sink]

end TdVerif.Props.C14
