/-
  C14 — `select_subsequence` on *nested* sequences: the selection by out_keys is a sound slice.

  `selectNode` (Model/C14Seq.lean) mirrors TensorDictSequential.select_subsequence with nested
  TensorDictSequential children: the forward pass replaces every nested child by its own selection
  (and silently drops a child whose selection raises), the backward pass recurses into the children that
  write a needed key and continues with the *advertised* in_keys of the selected child.  The theorems
  here say, for nested sequences with default options of any depth:

    * the selected sequence runs whenever the full sequence runs and computes the same value under every
      requested out_key (`select_nested_out_sound`);
    * when the selection raises ("No modules left"), no module of the sequence writes a requested key
      (`select_nested_none`).

  The proof is semantic: `Slice sub full P Q` = "from inputs that agree on `Q`, whenever `full` runs `sub`
  runs and the results agree on `P`"; slices compose along `++`, and a slice can always be re-based on the
  advertised in_keys of the sub-sequence (`Slice.canon`, from `in_keys_determine`).
-/
import TdVerif.Props.C14

namespace TdVerif.Props.C14
open TdVerif.C14

/-! ### generalities -/

/-- no module reads the sink `"_"` (same hypothesis as `in_keys_determine`) -/
def NoSinkIn (ms : List Mod) : Prop := ∀ m ∈ ms, sink ∉ m.ins

theorem writeOuts_sink (f : FnId) (args : List V) : ∀ (ks : List Key) (e : Env) (i : Nat),
    (writeOuts f args e ks i).get? sink = e.get? sink
  | [], _, _ => rfl
  | k0 :: ks, e, i => by
    simp only [writeOuts]
    split
    · exact writeOuts_sink f args ks e (i + 1)
    · rename_i h0
      rw [writeOuts_sink f args ks, Env.get?_set, if_neg h0]

theorem run_sink : ∀ (ms : List Mod) (e r : Env), run ms e = some r → r.get? sink = e.get? sink
  | [], e, r, h => by simp [run] at h; subst h; rfl
  | m :: ms, e, r, h => by
    obtain ⟨e', h1, h2⟩ := run_cons_inv h
    obtain ⟨args, _, rfl⟩ := runMod_inv h1
    rw [run_sink ms _ r h2, writeOuts_sink]

/-- from inputs that agree on `Q`: whenever `full` runs, `sub` runs and the results agree on `P` -/
def Slice (sub full : List Mod) (P Q : Key → Prop) : Prop :=
  ∀ e1 e2 r1, Agree Q e1 e2 → run full e1 = some r1 → ∃ r2, run sub e2 = some r2 ∧ Agree P r1 r2

theorem Slice.mono {sub full : List Mod} {P P' Q Q' : Key → Prop} (h : Slice sub full P Q)
    (hP : ∀ k, P' k → P k) (hQ : ∀ k, Q k → Q' k) : Slice sub full P' Q' := by
  intro e1 e2 r1 ha hr
  obtain ⟨r2, h2, ag⟩ := h e1 e2 r1 (fun k hk => ha k (hQ k hk)) hr
  exact ⟨r2, h2, fun k hk => ag k (hP k hk)⟩

theorem Slice.append {a' a b' b : List Mod} {P Q R : Key → Prop} (h1 : Slice a' a Q R)
    (h2 : Slice b' b P Q) : Slice (a' ++ b') (a ++ b) P R := by
  intro e1 e2 r1 ha hr
  rw [run_append] at hr
  cases hm : run a e1 with
  | none => simp [hm] at hr
  | some m1 =>
    simp only [hm, Option.bind_some] at hr
    obtain ⟨m2, hm2, ag⟩ := h1 e1 e2 m1 ha hm
    obtain ⟨r2, hr2, ag2⟩ := h2 m1 m2 r1 ag hr
    exact ⟨r2, by rw [run_append, hm2]; simpa using hr2, ag2⟩

/-- composition: slicing a slice -/
theorem Slice.trans {c b a : List Mod} {P1 P2 Q Q2 : Key → Prop} (h1 : Slice b a P1 Q)
    (h2 : Slice c b P2 Q2) : Slice c a (fun k => P1 k ∧ P2 k) Q := by
  intro e1 e2 r1 ha hr
  obtain ⟨rb, hb, ag1⟩ := h1 e1 e2 r1 ha hr
  obtain ⟨rc, hc, ag2⟩ := h2 e2 e2 rb (fun _ _ => rfl) hb
  exact ⟨rc, hc, fun k hk => by rw [ag1 k hk.1, ag2 k hk.2]⟩

/-- modules that write no key of `Q` can be dropped -/
theorem Slice.drop {a : List Mod} {Q : Key → Prop} (h : ∀ k, Q k → k ∉ allOuts a) : Slice [] a Q Q := by
  intro e1 e2 r1 ha hr
  exact ⟨e2, rfl, fun k hk => by rw [run_frame a e1 r1 k hr (h k hk)]; exact ha k hk⟩

/-- a module reads its in_keys only -/
theorem Slice.single (m : Mod) (P : Key → Prop) : Slice [m] [m] P (fun k => P k ∨ k ∈ m.ins) := by
  intro e1 e2 r1 ha hr
  obtain ⟨e1', h1, h2⟩ := run_cons_inv hr
  simp [run] at h2; subst h2
  obtain ⟨e2', h3, ag⟩ := runMod_agree (P := fun k => P k ∨ k ∈ m.ins) ha (fun k hk => Or.inr hk) h1
  exact ⟨e2', by simp [run, h3], fun k hk => ag k (Or.inl (Or.inl hk))⟩

/-- keys nobody writes are carried over -/
theorem Slice.frame_up {sub full : List Mod} {P Q : Key → Prop} (h : Slice sub full P Q)
    (hsub : ∀ k, k ∈ allOuts sub → k ∈ allOuts full) :
    Slice sub full (fun k => P k ∨ (k ∉ allOuts full ∧ Q k)) Q := by
  intro e1 e2 r1 ha hr
  obtain ⟨r2, h2, ag⟩ := h e1 e2 r1 ha hr
  refine ⟨r2, h2, fun k hk => ?_⟩
  rcases hk with hk | ⟨hk, hq⟩
  · exact ag k hk
  · rw [run_frame full e1 r1 k hr hk, run_frame sub e2 r2 k h2 (fun hh => hk (hsub k hh))]
    exact ha k hq

/-- **re-basing a slice on the advertised in_keys**: if `sub` reproduces `P` from the same input, it reproduces
`P` from any input that agrees on `P` and on `sub`'s own in_keys -/
theorem Slice.canon {sub full : List Mod} {P : Key → Prop} (h : Slice sub full P (fun _ => True))
    (hwf : NoSinkIn sub) : Slice sub full P (fun k => P k ∨ k ∈ inKeys sub) := by
  intro e1 e2 r1 ha hr
  obtain ⟨r2', h2', ag⟩ := h e1 e1 r1 (fun _ _ => rfl) hr
  obtain ⟨r2, h2, ag2⟩ := run_determine sub [] [] e1 e2 r2' (fun k hk => by
      apply ha k
      rcases hk with hk | hk
      · exact Or.inr hk
      · exact absurd hk.1 (by simp)) hwf h2'
  refine ⟨r2, h2, fun k hk => ?_⟩
  rw [ag k hk]
  by_cases hs : k = sink
  · subst hs; rw [run_sink sub e1 r2' h2', run_sink sub e2 r2 h2]; exact ha _ (Or.inl hk)
  · by_cases ho : k ∈ allOuts sub
    · exact ag2 k (Or.inr ⟨by simpa using ho, hs⟩)
    · rw [run_frame sub e1 r2' k h2' ho, run_frame sub e2 r2 k h2 ho]; exact ha k (Or.inl hk)

/-! ### the advertised keys of a concatenation -/

theorem inKeys_append (a b : List Mod) : inKeys (a ++ b) = addIns (allOuts a) (inKeys a) (inKeys b) := by
  unfold inKeys
  rw [inOutAux_append, inOutAux_outs]
  have := inOutAux_nest b [] [] (inOutAux a [] []).1 (allOuts a)
  simp only [addIns, List.append_nil] at this
  simpa using this

theorem mem_inKeys_append (a b : List Mod) (k : Key) :
    k ∈ inKeys (a ++ b) ↔ k ∈ inKeys a ∨ (k ∈ inKeys b ∧ k ∉ allOuts a) := by
  rw [inKeys_append, mem_addIns]

theorem mem_inKeys_single (m : Mod) (k : Key) : k ∈ inKeys [m] ↔ k ∈ m.ins := by
  simp [inKeys, inOutAux, mem_addIns]

theorem inKeys_append_sub {a a' b b' : List Mod} (ha : ∀ k ∈ inKeys a', k ∈ inKeys a)
    (hb : ∀ k ∈ inKeys b', k ∈ inKeys b) (hc : ∀ k ∈ inKeys b', k ∈ allOuts a → k ∈ allOuts a') :
    ∀ k ∈ inKeys (a' ++ b'), k ∈ inKeys (a ++ b) := by
  intro k hk
  rw [mem_inKeys_append] at hk ⊢
  rcases hk with hk | ⟨hk, hn⟩
  · exact Or.inl (ha k hk)
  · exact Or.inr ⟨hb k hk, fun hh => hn (hc k hk hh)⟩

theorem mem_outKeys (ms : List Mod) (k : Key) : k ∈ outKeys ms ↔ k ∈ allOuts ms := by
  simp [outKeys, mem_dedupLast, inOutAux_outs]

theorem allOuts_sub {a b : List Mod} (h : ∀ m ∈ a, m ∈ b) : ∀ k ∈ allOuts a, k ∈ allOuts b := by
  intro k hk
  simp only [allOuts, List.mem_flatMap] at hk ⊢
  obtain ⟨m, hm, hk⟩ := hk
  exact ⟨m, h m hm, hk⟩

theorem selfIns_eq (kids : List Node) (hp : PlainNodes kids) :
    (nodesInOut kids [] []).1 = inKeys (flatNodes kids) := by
  simpa [inKeys] using kidsKeys kids hp [] [] [] (fun _ => Iff.rfl)

theorem mem_selfOuts (kids : List Node) (hp : PlainNodes kids) (k : Key) :
    k ∈ dedupLast (nodesInOut kids [] []).2 ↔ k ∈ allOuts (flatNodes kids) := by
  rw [mem_dedupLast, nodesInOut_outs]
  simpa using (kidsOuts kids hp).1 k

theorem plainSeq_ins (kids : List Node) (hp : PlainNodes kids) :
    (Node.seq kids none none false).ins = inKeys (flatNodes kids) := (nested_keys_as_flattening kids hp).1

theorem mem_plainSeq_outs (kids : List Node) (hp : PlainNodes kids) (k : Key) :
    k ∈ (Node.seq kids none none false).outs ↔ k ∈ allOuts (flatNodes kids) := by
  rw [(nested_keys_as_flattening kids hp).2, mem_outKeys]

/-! ### the specification of the three mutually recursive functions -/

mutual
def depthNode : Node → Nat
  | .mod _ => 0
  | .seq kids _ _ _ => depthNodes kids + 1
def depthNodes : List Node → Nat
  | [] => 0
  | n :: ns => max (depthNode n) (depthNodes ns)
end

/-- the modules of a selection result (`none` = "No modules left") -/
def resMods : Option Node → List Mod
  | none => []
  | some n => flatNode n

structure SelOK (kids : List Node) (need : List Key) (r : Option Node) : Prop where
  plain : ∀ n', r = some n' →
    ∃ kept', n' = .seq kept' none none false ∧ PlainNodes kept' ∧ depthNodes kept' ≤ depthNodes kids
  sub : ∀ m ∈ resMods r, m ∈ flatNodes kids
  slice : Slice (resMods r) (flatNodes kids) (· ∈ need) (fun _ => True)
  outs : ∀ k ∈ need, k ∈ allOuts (flatNodes kids) → k ∈ allOuts (resMods r)
  ins : ∀ k ∈ inKeys (resMods r), k ∈ inKeys (flatNodes kids)

/-- what is shown of `selectNode fuel` (for every list of children that fits in the fuel): provided the given
in_keys cover the in_keys of the sequence, the result is a sound slice for the requested out_keys -/
def SelSpec (fuel : Nat) : Prop :=
  ∀ (kids : List Node) (inK outK : Option (List Key)), PlainNodes kids → depthNodes kids < fuel →
    NoSinkIn (flatNodes kids) →
    (∀ k ∈ inKeys (flatNodes kids), k ∈ inK.getD (nodesInOut kids [] []).1) →
    SelOK kids (outK.getD (dedupLast (nodesInOut kids [] []).2)) (selectNode fuel kids none inK outK)

structure FwdOK (kids kept : List Node) : Prop where
  plain : PlainNodes kept
  depth : depthNodes kept ≤ depthNodes kids
  sub : ∀ m ∈ flatNodes kept, m ∈ flatNodes kids
  slice : Slice (flatNodes kept) (flatNodes kids) (fun _ => True) (fun _ => True)
  outs : ∀ k ∈ allOuts (flatNodes kids), k ∈ allOuts (flatNodes kept)
  ins : ∀ k ∈ inKeys (flatNodes kept), k ∈ inKeys (flatNodes kids)

/-- assembling the forward pass: the head contributes the modules `R` for the modules `A` -/
theorem FwdOK.cons {A R : List Mod} {ns keptNs : List Node} {kids kept : List Node}
    (hA : flatNodes kids = A ++ flatNodes ns) (hR : flatNodes kept = R ++ flatNodes keptNs)
    (hplain : PlainNodes kept) (hdepth : depthNodes kept ≤ depthNodes kids)
    (hsub : ∀ m ∈ R, m ∈ A) (hslice : Slice R A (fun _ => True) (fun _ => True))
    (houts : ∀ k ∈ allOuts A, k ∈ allOuts R) (hins : ∀ k ∈ inKeys R, k ∈ inKeys A)
    (ih : FwdOK ns keptNs) : FwdOK kids kept := by
  refine ⟨hplain, hdepth, ?_, ?_, ?_, ?_⟩
  · rw [hA, hR]; intro m hm
    rcases List.mem_append.1 hm with h | h
    · exact List.mem_append_left _ (hsub m h)
    · exact List.mem_append_right _ (ih.sub m h)
  · rw [hA, hR]; exact Slice.append hslice ih.slice
  · rw [hA, hR, allOuts_append, allOuts_append]; intro k hk
    rcases List.mem_append.1 hk with h | h
    · exact List.mem_append_left _ (houts k h)
    · exact List.mem_append_right _ (ih.outs k h)
  · rw [hA, hR]
    exact inKeys_append_sub hins ih.ins (fun k _ hk => houts k hk)

theorem slice_true_single (m : Mod) : Slice [m] [m] (fun _ => True) (fun _ => True) :=
  (Slice.single m (fun _ => True)).mono (fun _ h => h) (fun _ _ => trivial)

/-- the forward pass, when the available keys cover the in_keys: nothing but modules that write nothing is dropped -/
theorem selFwd_ok (fuel : Nat) (hS : SelSpec fuel) : ∀ (kids : List Node) (avail : List Key),
    PlainNodes kids → depthNodes kids ≤ fuel → NoSinkIn (flatNodes kids) →
    (∀ k ∈ inKeys (flatNodes kids), k ∈ avail) → FwdOK kids (selFwd fuel kids avail)
  | [], avail, _, _, _, _ => by
    rw [selFwd]
    exact ⟨by simp [PlainNodes], Nat.le_refl _, fun _ h => h, Slice.drop (by simp [flatNodes, allOuts]),
      fun _ h => h, fun _ h => h⟩
  | .mod x :: ns, avail, hp, hd, hwf, hcov => by
    simp only [PlainNodes, PlainNode] at hp
    have hins : (Node.mod x).ins = x.m.ins := by simp [Node.ins]
    have houts : (Node.mod x).outs = x.m.outs := by simp [Node.outs, hp.1.2]
    have hfl : flatNodes (.mod x :: ns) = [x.m] ++ flatNodes ns := by simp [flatNodes, flatNode]
    rw [hfl] at hwf hcov
    have hall : (Node.mod x).ins.all (fun k => decide (k ∈ avail)) = true := by
      rw [hins]; simp only [List.all_eq_true, decide_eq_true_eq]
      intro k hk
      exact hcov k ((mem_inKeys_append _ _ k).2 (Or.inl ((mem_inKeys_single _ _).2 hk)))
    have hd' : depthNodes ns ≤ fuel := by
      simp only [depthNodes] at hd; exact Nat.le_trans (Nat.le_max_right _ _) hd
    have ih := selFwd_ok fuel hS ns (avail ++ x.m.outs) hp.2 hd'
      (fun m hm => hwf m (List.mem_append_right _ hm))
      (fun k hk => by
        by_cases ho : k ∈ allOuts [x.m]
        · exact List.mem_append_right _ (by simpa [allOuts] using ho)
        · exact List.mem_append_left _ (hcov k ((mem_inKeys_append _ _ k).2 (Or.inr ⟨hk, ho⟩))))
    rw [selFwd]
    simp only [hall, if_true, houts]
    refine FwdOK.cons (A := [x.m]) (R := [x.m]) hfl (by simp [flatNodes, flatNode]) ?_ ?_
      (fun _ h => h) (slice_true_single x.m) (fun _ h => h) (fun _ h => h) ih
    · simp only [PlainNodes, PlainNode]; exact ⟨hp.1, ih.plain⟩
    · simp only [depthNodes, depthNode]
      have := ih.depth
      omega
  | .seq c ip sel pt :: ns, avail, hp, hd, hwf, hcov => by
    simp only [PlainNodes, PlainNode] at hp
    obtain ⟨⟨rfl, rfl, rfl, hc⟩, hns⟩ := hp
    have hfl : flatNodes (.seq c none none false :: ns) = flatNodes c ++ flatNodes ns := by
      simp [flatNodes, flatNode]
    rw [hfl] at hwf hcov
    simp only [depthNodes, depthNode] at hd
    have hdc : depthNodes c < fuel := by omega
    have hd' : depthNodes ns ≤ fuel := by omega
    have hcovc : ∀ k ∈ inKeys (flatNodes c), k ∈ avail :=
      fun k hk => hcov k ((mem_inKeys_append _ _ k).2 (Or.inl hk))
    have hsel := hS c (some avail) none hc hdc (fun m hm => hwf m (List.mem_append_left _ hm))
      (by simpa using hcovc)
    simp only [Option.getD_none] at hsel
    -- the selection of the child writes exactly the keys the child writes …
    have houtsR : ∀ k ∈ allOuts (flatNodes c), k ∈ allOuts (resMods (selectNode fuel c none (some avail) none)) :=
      fun k hk => hsel.outs k ((mem_selfOuts c hc k).2 hk) hk
    -- … and is a slice for every key
    have hsliceR : Slice (resMods (selectNode fuel c none (some avail) none)) (flatNodes c)
        (fun _ => True) (fun _ => True) := by
      refine (hsel.slice.frame_up (allOuts_sub hsel.sub)).mono ?_ (fun _ h => h)
      intro k _
      by_cases ho : k ∈ allOuts (flatNodes c)
      · exact Or.inl ((mem_selfOuts c hc k).2 ho)
      · exact Or.inr ⟨ho, trivial⟩
    have hcovns : ∀ (extra : List Key), (∀ k ∈ allOuts (flatNodes c), k ∈ extra) →
        ∀ k ∈ inKeys (flatNodes ns), k ∈ avail ++ extra := by
      intro extra hex k hk
      by_cases ho : k ∈ allOuts (flatNodes c)
      · exact List.mem_append_right _ (hex k ho)
      · exact List.mem_append_left _ (hcov k ((mem_inKeys_append _ _ k).2 (Or.inr ⟨hk, ho⟩)))
    rw [selFwd]
    cases hr : selectNode fuel c none (some avail) none with
    | none =>
      simp only [hr, resMods] at houtsR hsliceR
      have ih := selFwd_ok fuel hS ns avail hns hd'
        (fun m hm => hwf m (List.mem_append_right _ hm))
        (fun k hk => by
          have := hcovns [] (fun k hk => absurd (houtsR k hk) (by simp [allOuts])) k hk
          simpa using this)
      simp only []
      refine FwdOK.cons (A := flatNodes c) (R := []) hfl (by simp) ih.plain ?_
        (fun _ h => by cases h) hsliceR houtsR (fun k hk => by simp [inKeys, inOutAux] at hk) ih
      simp only [depthNodes, depthNode]
      have := ih.depth
      omega
    | some n' =>
      obtain ⟨kept', rfl, hpk, hdk⟩ := hsel.plain n' hr
      simp only [hr, resMods, flatNode] at houtsR hsliceR
      have hsub := hsel.sub; have hinsR := hsel.ins
      simp only [hr, resMods, flatNode] at hsub hinsR
      have hall : (Node.seq kept' none none false).ins.all (fun k => decide (k ∈ avail)) = true := by
        rw [plainSeq_ins kept' hpk]; simp only [List.all_eq_true, decide_eq_true_eq]
        intro k hk; exact hcovc k (hinsR k hk)
      have ih := selFwd_ok fuel hS ns (avail ++ (Node.seq kept' none none false).outs) hns hd'
        (fun m hm => hwf m (List.mem_append_right _ hm))
        (hcovns _ (fun k hk => (mem_plainSeq_outs kept' hpk k).2 (houtsR k hk)))
      simp only [hall, if_true]
      refine FwdOK.cons (A := flatNodes c) (R := flatNodes kept') hfl (by simp [flatNodes, flatNode]) ?_ ?_
        hsub hsliceR houtsR hinsR ih
      · simp only [PlainNodes, PlainNode]; exact ⟨⟨trivial, trivial, trivial, hpk⟩, ih.plain⟩
      · simp only [depthNodes, depthNode]
        have := ih.depth
        omega

structure BwdOK (kept : List Node) (need : List Key) (kept' : List Node) (need' : List Key) : Prop where
  plain : PlainNodes kept'
  depth : depthNodes kept' ≤ depthNodes kept
  sub : ∀ m ∈ flatNodes kept', m ∈ flatNodes kept
  needMono : ∀ k ∈ need, k ∈ need'
  free : ∀ k ∈ inKeys (flatNodes kept'), k ∈ need'
  slice : Slice (flatNodes kept') (flatNodes kept) (· ∈ need) (· ∈ need')
  outs : ∀ k ∈ need, k ∈ allOuts (flatNodes kept) → k ∈ allOuts (flatNodes kept')
  ins : ∀ k ∈ inKeys (flatNodes kept'), k ∈ inKeys (flatNodes kept)

/-- assembling the backward pass: the head (modules `A`) contributes the modules `R`, and the needed keys
grow by the advertised in_keys of `R` -/
theorem BwdOK.cons {A R : List Mod} {ns keptNs' kept kept' : List Node} {need needT need' : List Key}
    (hA : flatNodes kept = A ++ flatNodes ns) (hR : flatNodes kept' = R ++ flatNodes keptNs')
    (hplain : PlainNodes kept') (hdepth : depthNodes kept' ≤ depthNodes kept)
    (hsub : ∀ m ∈ R, m ∈ A)
    (hneed : ∀ k, k ∈ need' ↔ k ∈ needT ∨ k ∈ inKeys R)
    (hslice : Slice R A (· ∈ needT) (· ∈ need'))
    (houts : ∀ k ∈ needT, k ∈ allOuts A → k ∈ allOuts R)
    (hins : ∀ k ∈ inKeys R, k ∈ inKeys A)
    (ih : BwdOK ns need keptNs' needT) : BwdOK kept need kept' need' := by
  refine ⟨hplain, hdepth, ?_, ?_, ?_, ?_, ?_, ?_⟩
  · rw [hA, hR]; intro m hm
    rcases List.mem_append.1 hm with h | h
    · exact List.mem_append_left _ (hsub m h)
    · exact List.mem_append_right _ (ih.sub m h)
  · intro k hk; exact (hneed k).2 (Or.inl (ih.needMono k hk))
  · rw [hR]; intro k hk
    rcases (mem_inKeys_append _ _ k).1 hk with h | ⟨h, _⟩
    · exact (hneed k).2 (Or.inr h)
    · exact (hneed k).2 (Or.inl (ih.free k h))
  · rw [hA, hR]; exact Slice.append hslice ih.slice
  · rw [hA, hR, allOuts_append, allOuts_append]; intro k hk hin
    rcases List.mem_append.1 hin with h | h
    · exact List.mem_append_left _ (houts k (ih.needMono k hk) h)
    · exact List.mem_append_right _ (ih.outs k hk h)
  · rw [hA, hR]
    exact inKeys_append_sub hins ih.ins (fun k hk hh => houts k (ih.free k hk) hh)

/-- dropping the head: it writes no needed key -/
theorem BwdOK.drop {A : List Mod} {ns keptNs' kept : List Node} {need needT : List Key}
    (hA : flatNodes kept = A ++ flatNodes ns) (hdepth : depthNodes keptNs' ≤ depthNodes kept)
    (hno : ∀ k ∈ needT, k ∉ allOuts A) (ih : BwdOK ns need keptNs' needT) : BwdOK kept need keptNs' needT :=
  BwdOK.cons (A := A) (R := []) hA (by simp) ih.plain hdepth (fun _ h => by cases h)
    (fun k => by simp [inKeys, inOutAux]) (Slice.drop (fun k hk => hno k hk))
    (fun k hk hh => absurd hh (hno k hk)) (fun k hk => by simp [inKeys, inOutAux] at hk) ih

/-- the backward pass never raises on nested sequences that fit in the fuel, and is a sound slice -/
theorem selBwd_ok (fuel : Nat) (hS : SelSpec fuel) : ∀ (kept : List Node) (need : List Key),
    PlainNodes kept → depthNodes kept ≤ fuel → NoSinkIn (flatNodes kept) →
    ∃ kept' need', selBwd fuel kept need = some (kept', need') ∧ BwdOK kept need kept' need'
  | [], need, _, _, _ => by
    refine ⟨[], need, by rw [selBwd], ?_⟩
    exact ⟨by simp [PlainNodes], Nat.le_refl _, fun _ h => h, fun _ h => h,
      fun k hk => by simp [flatNodes, inKeys, inOutAux] at hk,
      Slice.drop (by simp [flatNodes, allOuts]), fun _ _ h => h, fun _ h => h⟩
  | .mod x :: ns, need, hp, hd, hwf => by
    simp only [PlainNodes, PlainNode] at hp
    have hins : (Node.mod x).ins = x.m.ins := by simp [Node.ins]
    have houts : (Node.mod x).outs = x.m.outs := by simp [Node.outs, hp.1.2]
    have hfl : flatNodes (.mod x :: ns) = [x.m] ++ flatNodes ns := by simp [flatNodes, flatNode]
    rw [hfl] at hwf
    have hd' : depthNodes ns ≤ fuel := by
      simp only [depthNodes] at hd; exact Nat.le_trans (Nat.le_max_right _ _) hd
    obtain ⟨keptT, needT, hT, ih⟩ := selBwd_ok fuel hS ns need hp.2 hd'
      (fun m hm => hwf m (List.mem_append_right _ hm))
    rw [selBwd, hT]
    simp only [houts, hins]
    by_cases hany : x.m.outs.any (fun k => decide (k ∈ needT)) = true
    · simp only [hany, if_true]
      refine ⟨_, _, rfl, ?_⟩
      refine BwdOK.cons (A := [x.m]) (R := [x.m]) hfl (by simp [flatNodes, flatNode]) ?_ ?_ (fun _ h => h)
        (fun k => by simp [mem_inKeys_single]) ?_ (fun _ _ h => h) (fun _ h => h) ih
      · simp only [PlainNodes, PlainNode]; exact ⟨hp.1, ih.plain⟩
      · simp only [depthNodes, depthNode]
        have := ih.depth
        omega
      · exact (Slice.single x.m (· ∈ needT)).mono (fun _ h => h) (fun k hk => by simpa using hk)
    · simp only [hany]
      refine ⟨_, _, rfl, ?_⟩
      refine BwdOK.drop (A := [x.m]) hfl ?_ ?_ ih
      · simp only [depthNodes, depthNode]
        have := ih.depth
        omega
      · intro k hk hin
        apply hany
        simp only [List.any_eq_true, decide_eq_true_eq]
        exact ⟨k, by simpa [allOuts] using hin, hk⟩
  | .seq c ip sel pt :: ns, need, hp, hd, hwf => by
    simp only [PlainNodes, PlainNode] at hp
    obtain ⟨⟨rfl, rfl, rfl, hc⟩, hns⟩ := hp
    have hfl : flatNodes (.seq c none none false :: ns) = flatNodes c ++ flatNodes ns := by
      simp [flatNodes, flatNode]
    rw [hfl] at hwf
    simp only [depthNodes, depthNode] at hd
    have hdc : depthNodes c < fuel := by omega
    have hd' : depthNodes ns ≤ fuel := by omega
    obtain ⟨keptT, needT, hT, ih⟩ := selBwd_ok fuel hS ns need hns hd'
      (fun m hm => hwf m (List.mem_append_right _ hm))
    rw [selBwd, hT]
    by_cases hany : (Node.seq c none none false).outs.any (fun k => decide (k ∈ needT)) = true
    · simp only [hany, if_true]
      have hsel := hS c none (some needT) hc hdc (fun m hm => hwf m (List.mem_append_left _ hm))
        (by simp only [Option.getD_none]; rw [selfIns_eq c hc]; exact fun _ h => h)
      simp only [Option.getD_some] at hsel
      obtain ⟨k0, hk0, hk0n⟩ : ∃ k, k ∈ allOuts (flatNodes c) ∧ k ∈ needT := by
        simp only [List.any_eq_true, decide_eq_true_eq] at hany
        obtain ⟨k, hk, hkn⟩ := hany
        exact ⟨k, (mem_plainSeq_outs c hc k).1 hk, hkn⟩
      cases hr : selectNode fuel c none none (some needT) with
      | none =>
        -- impossible: some module of the child writes a needed key
        have := hsel.outs k0 hk0n hk0
        simp [hr, resMods, allOuts] at this
      | some n' =>
        obtain ⟨kept'', rfl, hpk, hdk⟩ := hsel.plain n' hr
        have hsub := hsel.sub; have hinsR := hsel.ins; have houtsR := hsel.outs; have hsl := hsel.slice
        simp only [hr, resMods, flatNode] at hsub hinsR houtsR hsl
        simp only []
        refine ⟨_, _, rfl, ?_⟩
        refine BwdOK.cons (A := flatNodes c) (R := flatNodes kept'') hfl (by simp [flatNodes, flatNode]) ?_ ?_
          hsub (fun k => by rw [plainSeq_ins kept'' hpk]; simp) ?_ houtsR hinsR ih
        · simp only [PlainNodes, PlainNode]; exact ⟨⟨trivial, trivial, trivial, hpk⟩, ih.plain⟩
        · simp only [depthNodes, depthNode]
          have := ih.depth
          omega
        · refine (hsl.canon (fun m hm => hwf m (List.mem_append_left _ (hsub m hm)))).mono (fun _ h => h) ?_
          intro k hk
          rw [plainSeq_ins kept'' hpk]
          simpa using hk
    · simp only [hany]
      refine ⟨_, _, rfl, ?_⟩
      refine BwdOK.drop (A := flatNodes c) hfl ?_ ?_ ih
      · simp only [depthNodes, depthNode]
        have := ih.depth
        omega
      · intro k hk hin
        apply hany
        simp only [List.any_eq_true, decide_eq_true_eq]
        exact ⟨k, (mem_plainSeq_outs c hc k).2 hin, hk⟩

/-- the specification holds for every fuel (induction on the fuel; the three functions call each other with
the fuel of `selectNode` decreasing) -/
theorem selSpec : ∀ fuel, SelSpec fuel
  | 0 => fun _ _ _ _ hd _ _ => absurd hd (Nat.not_lt_zero _)
  | fuel + 1 => by
    have hS := selSpec fuel
    intro kids inK outK hp hd hwf hcov
    have hd' : depthNodes kids ≤ fuel := Nat.le_of_lt_succ hd
    have hF := selFwd_ok fuel hS kids (inK.getD (nodesInOut kids [] []).1) hp hd' hwf hcov
    obtain ⟨kept', need', hB, hb⟩ := selBwd_ok fuel hS (selFwd fuel kids (inK.getD (nodesInOut kids [] []).1))
      (outK.getD (dedupLast (nodesInOut kids [] []).2)) hF.plain (Nat.le_trans hF.depth hd')
      (fun m hm => hwf m (hF.sub m hm))
    have hres : selectNode (fuel + 1) kids none inK outK
        = if kept'.isEmpty then none else some (.seq kept' none none false) := by
      rw [selectNode]; simp only [Option.getD_none]; rw [hB]
    have hmods : resMods (selectNode (fuel + 1) kids none inK outK) = flatNodes kept' := by
      rw [hres]
      cases kept' with
      | nil => simp [resMods, flatNodes]
      | cons a b => simp [resMods, flatNode]
    refine ⟨?_, ?_, ?_, ?_, ?_⟩
    · intro n' hn
      rw [hres] at hn
      split at hn
      · cases hn
      · injection hn with hn
        exact ⟨kept', hn.symm, hb.plain, Nat.le_trans hb.depth hF.depth⟩
    · rw [hmods]; intro m hm; exact hF.sub m (hb.sub m hm)
    · rw [hmods]; exact (Slice.trans hF.slice hb.slice).mono (fun k hk => ⟨trivial, hk⟩) (fun _ h => h)
    · rw [hmods]; intro k hk hin; exact hb.outs k hk (hF.outs k hin)
    · rw [hmods]; intro k hk; exact hF.ins k (hb.ins k hk)

/-! ### the theorems -/

mutual
/-- the converse of `fwdNode_nested`: when the flat list of modules fails, so does the nested sequence -/
theorem fwdNode_nested_fails : ∀ (n : Node), PlainNode n → ∀ (e : Env), run (flatNode n) e = none →
    ∃ err, fwdNode false n e = .error err
  | .mod x, hp, e, hr => by
    simp only [PlainNode] at hp
    simp only [flatNode, run] at hr
    cases hm : runMod x.m e with
    | some e' => simp [hm] at hr
    | none =>
      have ha : readArgs e x.m.ins = none := by
        unfold runMod at hm
        split at hm
        · assumption
        · cases hm
      simp only [fwdNode, fwdMod, skips, Bool.false_and, Bool.false_eq_true, if_false, ha]
      exact ⟨_, rfl⟩
  | .seq kids ip sel pt, hp, e, hr => by
    simp only [PlainNode] at hp
    obtain ⟨rfl, rfl, rfl, hk⟩ := hp
    simp only [flatNode] at hr
    obtain ⟨err, h⟩ := fwdKids_nested_fails kids hk e hr
    refine ⟨err, ?_⟩
    simp [fwdNode, skips, h]
theorem fwdKids_nested_fails : ∀ (kids : List Node), PlainNodes kids → ∀ (e : Env), run (flatNodes kids) e = none →
    ∃ err, fwdKids false kids false { arg := e, exec := none } = .error err
  | [], _, e, hr => by simp [flatNodes, run] at hr
  | n :: ns, hp, e, hr => by
    simp only [PlainNodes] at hp
    simp only [flatNodes, run_append] at hr
    cases h1 : run (flatNode n) e with
    | none =>
      obtain ⟨⟨c, al⟩, h⟩ := fwdNode_nested_fails n hp.1 e h1
      simp only [fwdKids, Bool.false_and, Bool.false_eq_true, if_false, Exec.cur, Option.getD_none, h]
      exact ⟨_, rfl⟩
    | some e1 =>
      simp only [h1, Option.bind_some] at hr
      have hn := fwdNode_nested n hp.1 e e1 h1
      obtain ⟨err, h⟩ := fwdKids_nested_fails ns hp.2 e1 hr
      simp only [fwdKids, Bool.false_and, Bool.false_eq_true, if_false, Exec.cur, Option.getD_none, hn, Exec.after,
        Bool.or_self]
      exact ⟨err, h⟩
end

theorem fwdNode_plain_fails (kids : List Node) (hp : PlainNodes kids) (e : Env)
    (h : run (flatNodes kids) e = none) (r : Env) :
    fwdNode false (.seq kids none none false) e ≠ .ok { arg := r, fresh := none } := by
  obtain ⟨err, he⟩ := fwdNode_nested_fails (.seq kids none none false)
    (by simp only [PlainNode]; exact ⟨trivial, trivial, trivial, hp⟩) e (by simpa [flatNode] using h)
  rw [he]; intro hh; cases hh

/-- the given in_keys (if any) contain the in_keys of the sequence -/
def Covers (kids : List Node) : Option (List Key) → Prop
  | none => True
  | some K => ∀ k ∈ inKeys (flatNodes kids), k ∈ K

theorem covers_spec (kids : List Node) (hp : PlainNodes kids) (inK : Option (List Key)) (h : Covers kids inK) :
    ∀ k ∈ inKeys (flatNodes kids), k ∈ inK.getD (nodesInOut kids [] []).1 := by
  cases inK with
  | none => simp only [Option.getD_none]; rw [selfIns_eq kids hp]; exact fun _ h => h
  | some K => simpa [Covers] using h

/-- **select_nested_out_sound** — `select_subsequence(out_keys=S)` (optionally with in_keys that contain the
in_keys of the sequence) on a nested sequence with default options, of any depth: the returned sequence runs
on every input on which the full sequence runs and computes the same value under every key of `S` — whatever
was overwritten, read and written, or sunk in between, and although the forward pass re-selects every nested
child and the backward pass continues with the advertised in_keys of the selected children only. -/
theorem select_nested_out_sound (kids : List Node) (hp : PlainNodes kids) (hwf : NoSinkIn (flatNodes kids))
    (fuel : Nat) (hfuel : depthNodes kids < fuel) (inK : Option (List Key)) (hcov : Covers kids inK)
    (S : List Key) (n' : Node) (hsel : selectNode fuel kids none inK (some S) = some n') (e r : Env)
    (hr : fwdNode false (.seq kids none none false) e = .ok { arg := r, fresh := none }) :
    ∃ r', fwdNode false n' e = .ok { arg := r', fresh := none } ∧ ∀ k ∈ S, r'.get? k = r.get? k := by
  have h := selSpec fuel kids inK (some S) hp hfuel hwf (covers_spec kids hp inK hcov)
  simp only [Option.getD_some] at h
  obtain ⟨kept', rfl, hpk, _⟩ := h.plain n' hsel
  -- the full sequence computes what its flattening computes
  have hflat : run (flatNodes kids) e = some r := by
    cases hrun : run (flatNodes kids) e with
    | some r0 =>
      have := nested_runs_as_flattening kids hp e r0 hrun
      rw [hr] at this
      injection this with this
      injection this with this
      rw [this]
    | none =>
      exfalso
      exact fwdNode_plain_fails kids hp e hrun r hr
  obtain ⟨r2, h2, ag⟩ := h.slice e e r (fun _ _ => rfl) hflat
  simp only [hsel, resMods, flatNode] at h2
  exact ⟨r2, nested_runs_as_flattening kept' hpk e r2 h2, fun k hk => (ag k hk).symm⟩

/-- **select_nested_none** — when the selection raises ("No modules left after selection"), no module of the
nested sequence writes a requested key. -/
theorem select_nested_none (kids : List Node) (hp : PlainNodes kids) (hwf : NoSinkIn (flatNodes kids))
    (fuel : Nat) (hfuel : depthNodes kids < fuel) (inK : Option (List Key)) (hcov : Covers kids inK)
    (S : List Key) (hsel : selectNode fuel kids none inK (some S) = none) :
    ∀ k ∈ S, k ∉ allOuts (flatNodes kids) := by
  have h := selSpec fuel kids inK (some S) hp hfuel hwf (covers_spec kids hp inK hcov)
  simp only [Option.getD_some] at h
  intro k hk hin
  have := h.outs k hk hin
  simp [hsel, resMods, allOuts] at this

/-- **select_nested_keys** — the selected sequence consists of modules of the original one, in default-option
sequences, and advertises in_keys that the original sequence advertises too (so any input accepted by the
original is an input of the selection). -/
theorem select_nested_keys (kids : List Node) (hp : PlainNodes kids) (hwf : NoSinkIn (flatNodes kids))
    (fuel : Nat) (hfuel : depthNodes kids < fuel) (inK : Option (List Key)) (hcov : Covers kids inK)
    (outK : Option (List Key)) (n' : Node) (hsel : selectNode fuel kids none inK outK = some n') :
    PlainNode n' ∧ (∀ m ∈ flatNode n', m ∈ flatNodes kids) ∧
      ∀ k ∈ n'.ins, k ∈ (Node.seq kids none none false).ins := by
  have h := selSpec fuel kids inK outK hp hfuel hwf (covers_spec kids hp inK hcov)
  obtain ⟨kept', rfl, hpk, _⟩ := h.plain n' hsel
  have hsub := h.sub; have hins := h.ins
  simp only [hsel, resMods, flatNode] at hsub hins
  refine ⟨by simp only [PlainNode]; exact ⟨trivial, trivial, trivial, hpk⟩, hsub, ?_⟩
  rw [plainSeq_ins kept' hpk, plainSeq_ins kids hp]
  exact hins

/-! ### the option variants of the forward on *nested* sequences with default-option children

`Props/C14.lean` proves `forward_tensordict_out`, `forward_inplace_false` and `forward_selected_out_keys` for a flat
list of plain modules; with the copying counterpart of `fwdKids_nested` they hold for nested sequences of any depth
(the options sit on the outer sequence, the children have default options), in terms of the flat list of modules. -/

/-- `fwdKids_nested` when the outer sequence executes on a copy -/
theorem fwdKids_nested_copy : ∀ (kids : List Node), PlainNodes kids → ∀ (a e r : Env), run (flatNodes kids) e = some r →
    fwdKids false kids false { arg := a, exec := some e } = .ok { arg := a, exec := some r }
  | [], _, a, e, r, hr => by
    simp only [flatNodes, run, Option.some.injEq] at hr; subst hr
    simp [fwdKids]
  | n :: ns, hp, a, e, r, hr => by
    simp only [PlainNodes] at hp
    simp only [flatNodes, run_append] at hr
    cases h1 : run (flatNode n) e with
    | none => simp [h1] at hr
    | some e1 =>
      simp only [h1, Option.bind_some] at hr
      have hn := fwdNode_nested n hp.1 e e1 h1
      have hrest := fwdKids_nested_copy ns hp.2 a e1 r hr
      simp only [fwdKids, Bool.false_and, Bool.false_eq_true, if_false, Exec.cur, Option.getD_some, hn, Exec.after,
        Out.ret, Option.getD_none, Bool.or_self]
      exact hrest

theorem nested_outKeys (kids : List Node) (hp : PlainNodes kids) :
    dedupLast (nodesInOut kids [] []).2 = outKeys (flatNodes kids) := by
  have := (nested_keys_as_flattening kids hp).2
  simpa [Node.outs] using this

theorem flatKeys_outKeys (ms : List Mod) (hm : ∀ m ∈ ms, FlatKeys m.outs) : FlatKeys (outKeys ms) := by
  intro k hk'
  have := ((out_keys_last_writer ms).1 k).1 hk'
  simp only [allOuts, List.mem_flatMap] at this
  obtain ⟨m, hm', hkm⟩ := this
  exact hm m hm' k hkm

/-- **nested_forward_tensordict_out** — a nested sequence (default-option children, any depth) called with
`tensordict_out=out`, top-level keys: `out` is returned with the computed value under every advertised out_key the run
produced and its other entries as they were; the input is untouched. -/
theorem nested_forward_tensordict_out (kids : List Node) (hp : PlainNodes kids) (arg out r : Env)
    (hr : run (flatNodes kids) arg = some r) (hm : ∀ m ∈ flatNodes kids, FlatKeys m.outs) (ha : FlatEnv arg)
    (hn : KeysNodup arg) (ho : FlatEnv out) :
    ∃ out' al, fwdSeqOut false kids none false arg out = .ok (arg, out', al) ∧
      ∀ t, Env.get? out' [t] =
        if [t] ∈ outKeys (flatNodes kids) ∧ (Env.get? r [t]).isSome then Env.get? r [t] else Env.get? out [t] := by
  obtain ⟨hf, hnd⟩ := run_inv (flatNodes kids) arg r hm ha hn hr
  have hk := fwdKids_nested_copy kids hp arg arg r hr
  refine ⟨updKeys out r (outKeys (flatNodes kids)), updAliases out r (outKeys (flatNodes kids)), ?_, ?_⟩
  · simp [fwdSeqOut, hk, Exec.cur, nested_outKeys kids hp]
  · intro t
    exact updKeys_flat out r (outKeys (flatNodes kids)) ho hf hnd (flatKeys_outKeys _ hm) t

/-- **nested_forward_inplace_false** — the same nested sequence built with `inplace=False` / `"empty"`: a new tensordict
with exactly the advertised out_keys and their computed values; the input is left as it was. -/
theorem nested_forward_inplace_false (kids : List Node) (hp : PlainNodes kids) (ip : Inplace) (hip : ip ≠ .yes)
    (arg r : Env) (hr : run (flatNodes kids) arg = some r) (hm : ∀ m ∈ flatNodes kids, FlatKeys m.outs)
    (ha : FlatEnv arg) (hn : KeysNodup arg) :
    ∃ res al, fwdNode false (.seq kids (some ip) none false) arg = .ok { arg := arg, fresh := some res, aliased := al } ∧
      ∀ t, Env.get? res [t] =
        if [t] ∈ outKeys (flatNodes kids) ∧ (Env.get? r [t]).isSome then Env.get? r [t] else none := by
  obtain ⟨hf, hnd⟩ := run_inv (flatNodes kids) arg r hm ha hn hr
  have hk := fwdKids_nested_copy kids hp arg arg r hr
  refine ⟨updKeys [] r (outKeys (flatNodes kids)), updAliases [] r (outKeys (flatNodes kids)), ?_, ?_⟩
  · cases ip with
    | yes => exact absurd rfl hip
    | no => simp [fwdNode, skips, hk, Exec.cur, nested_outKeys kids hp]
    | empty => simp [fwdNode, skips, hk, Exec.cur, nested_outKeys kids hp]
  · intro t
    have := updKeys_flat [] r (outKeys (flatNodes kids)) (fun _ h => by simp at h) hf hnd (flatKeys_outKeys _ hm) t
    simpa [Env.get?] using this

/-- **nested_forward_selected_out_keys** — the same nested sequence with selected out-keys `S`: the input object is
returned; it gains the computed value under every selected key and under every key it already had, and no other key. -/
theorem nested_forward_selected_out_keys (kids : List Node) (hp : PlainNodes kids) (S : List Key) (arg r : Env)
    (hr : run (flatNodes kids) arg = some r) (hm : ∀ m ∈ flatNodes kids, FlatKeys m.outs) (ha : FlatEnv arg)
    (hn : KeysNodup arg) (hS : FlatKeys S) :
    ∃ res al, fwdNode false (.seq kids none (some S) false) arg = .ok { arg := res, fresh := none, aliased := al } ∧
      ∀ t, Env.get? res [t] =
        if ([t] ∈ S ∨ (Env.get? arg [t]).isSome) ∧ (Env.get? r [t]).isSome then Env.get? r [t] else Env.get? arg [t] := by
  obtain ⟨hf, hnd⟩ := run_inv (flatNodes kids) arg r hm ha hn hr
  have hk := fwdKids_nested_copy kids hp arg arg r hr
  have hflatK : FlatKeys (S ++ arg.map (·.1)) := by
    intro k hk'
    rcases List.mem_append.1 hk' with h | h
    · exact hS k h
    · obtain ⟨kv, hkv, rfl⟩ := List.mem_map.1 h; exact ha kv hkv
  have hmemarg : ∀ t, [t] ∈ arg.map (·.1) ↔ (Env.get? arg [t]).isSome := by
    intro t
    have : ∀ (e : Env), ([t] ∈ e.map (·.1)) ↔ (Env.get? e [t]).isSome := by
      intro e
      induction e with
      | nil => simp [Env.get?]
      | cons y e ih =>
        obtain ⟨k0, v0⟩ := y
        simp only [List.map_cons, List.mem_cons, Env.get?]
        by_cases h0 : k0 = [t]
        · simp [h0]
        · have : ¬ [t] = k0 := fun e => h0 e.symm
          simp [h0, this, ih]
    exact this arg
  refine ⟨updKeys arg r (S ++ arg.map (·.1)), updAliases arg r (S ++ arg.map (·.1)), ?_, ?_⟩
  · simp [fwdNode, skips, hk, Exec.cur]
  · intro t
    rw [updKeys_flat arg r (S ++ arg.map (·.1)) ha hf hnd hflatK t]
    simp only [List.mem_append, hmemarg t]

end TdVerif.Props.C14
