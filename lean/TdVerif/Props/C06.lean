/-
  C06 — locking is observationally transparent: memoised reads never go stale.  Property theorems.

  Model: `Model/C06Cache.lean` (the `cache` decorator, `erase_cache`, `_erase_cache_up`) on top of the C05 lock heap;
  a memoised method is *any* function of the bindings of the subtree (`Sem.obs`, `Sem.build` are parameters of every theorem).
  Table: `Gen/CacheTable.lean` (regenerated: every `@cache`d method with the kind of each parameter).

  `CInv sem s`: the C05 invariant, `Clean` (only a live object with a lock flag of its own memoises), and **`Coherent`**:
  every memoised entry equals what a fresh computation returns now.
-/
import TdVerif.Lemmas.C06Attr
import TdVerif.Gen.CacheTable

namespace TdVerif.Props.C06
open TdVerif TdVerif.C05 TdVerif.C06

/-! ## coherence is preserved -/

theorem coherent_transfer (sem : Sem) (s s' : CState)
    (hc : ∀ i, s'.cache i = [] ∨ s'.cache i = s.cache i)
    (hcont : ∀ i, s.cache i ≠ [] → s'.cache i ≠ [] → content s'.heap i = content s.heap i)
    (hobj : ∀ o, IsResult s o → (s'.heap.node o).kids = (s.heap.node o).kids ∧
      payload (s'.heap.node o) = payload (s.heap.node o))
    (h : Coherent sem s) : Coherent sem s' :=
  TdVerif.C06.coherent_transfer sem s s' hc hcont hobj h

/-- every event of the lock machine that C05 allows keeps the caches coherent, provided it does not
restructure a tensordict that a cache would hand out again -/
theorem base_preserves (sem : Sem) (s : CState) (hinv : CInv sem s) (e : Ev) (hok : Props.C05.EvOk e)
    (hres : ∀ o, o ∈ mutated s.heap e → ¬ IsResult s o) :
    CInv sem (cstep sem s (.base e)).1 := by
  have hI : Inv (step s.base e).1.heap := Props.C05.closed_invariant s.base hinv.inv e hok
  have facts : StepFacts s.heap (step s.base e).1.heap (erasedBy s.base e) (mutated s.heap e) := by
    unfold step
    cases ht : e.target with
    | none => exact facts_stepLive s.base hinv.inv e hok (fun i hi => by rw [ht] at hi; cases hi)
    | some i =>
      simp only
      split
      · rename_i hc
        have hc' : live s.base.heap i = true ∧ i < s.base.heap.size := by simpa using hc
        exact facts_stepLive s.base hinv.inv e hok (fun j hj => by rw [ht] at hj; cases hj; exact hc')
      · exact StepFacts.refl _ _ _
  have hcache : (cstep sem s (.base e)).1.cache = eraseMany s.cache (erasedBy s.base e) := rfl
  have hheap : (cstep sem s (.base e)).1.heap = (step s.base e).1.heap := rfl
  refine ⟨by rw [hheap]; exact hI, ?_, ?_, ?_⟩
  · intro p hp
    rw [hheap] at hp; rw [hcache]
    rcases facts.clean p hp with hl | hcl
    · exact eraseMany_mem _ _ _ hl
    · rcases eraseMany_cases (erasedBy s.base e) s.cache p with x | x
      · exact x
      · rw [x]; exact hinv.clean p hcl
  · intro i q o hmem
    rw [hcache] at hmem; rw [hheap]
    have : (q, Res.object o) ∈ s.cache i := by
      rcases eraseMany_cases (erasedBy s.base e) s.cache i with x | x
      · rw [x] at hmem; cases hmem
      · rw [x] at hmem; exact hmem
    exact Nat.lt_of_lt_of_le (hinv.objs i q o this) facts.size
  · apply coherent_transfer sem s _ (fun i => by rw [hcache]; exact eraseMany_cases _ _ i) ?_ ?_ hinv.coh
    · intro i hne hne'
      rw [hheap]
      have hlf : (live s.heap i && flagged s.heap i) = true := by
        cases hx : (live s.heap i && flagged s.heap i) with
        | true => rfl
        | false => exact absurd (hinv.clean i hx) hne
      simp only [Bool.and_eq_true] at hlf
      apply facts.content i hlf.1 hlf.2
      intro hmem
      rw [hcache] at hne'
      exact hne' (eraseMany_mem _ _ _ hmem)
    · intro o hr
      rw [hheap]
      obtain ⟨i, q, hmem⟩ := hr
      exact facts.objs o (hinv.objs i q o hmem) (fun hm => hres o hm ⟨i, q, hmem⟩)

/-- allocating the result of a tensordict-valued read keeps everything coherent -/
theorem alloc_preserves (sem : Sem) (s : CState) (hinv : CInv sem s) (lv : List (String × Nat × Nat)) :
    CInv sem { s with base := { s.base with heap := s.heap.alloc { alive := true, leaves := lv } } } := by
  have f := facts_alloc hinv.inv { alive := true, leaves := lv } [] []
  have hI : Inv (s.heap.alloc { alive := true, leaves := lv }) :=
    inv_alloc hinv.inv _ rfl (by simp) (by simp) (by simp)
  refine ⟨hI, ?_, ?_, ?_⟩
  · intro p hp
    rcases f.clean p hp with hl | hcl
    · cases hl
    · exact hinv.clean p hcl
  · intro i q o hmem
    exact Nat.lt_of_lt_of_le (hinv.objs i q o hmem) f.size
  · refine coherent_transfer sem s _ ?_ ?_ ?_ hinv.coh
    · intro i; exact .inr rfl
    · intro i hne _
      have hlf : (live s.heap i && flagged s.heap i) = true := by
        cases hx : (live s.heap i && flagged s.heap i) with
        | true => rfl
        | false => exact absurd (hinv.clean i hx) hne
      simp only [Bool.and_eq_true] at hlf
      exact f.content i hlf.1 hlf.2 (by simp)
    · intro o ⟨i, q, hmem⟩
      exact f.objs o (hinv.objs i q o hmem) (by simp)

/-- storing a coherent entry on a live object that holds its own lock flag -/
theorem store_preserves (sem : Sem) (s : CState) (hinv : CInv sem s) (i : Nat) (q : Query) (r : Res)
    (hl : live s.heap i = true) (hf : flagged s.heap i = true)
    (hr : match r with
      | .value c => c = freshValue sem s.heap i q ∧ q.allocates = false
      | .object o => (bindings (s.heap.node o) = (sem.build q.sem (content s.heap i)).map (fun e => (e.1, e.2.1)) ∧
          (s.heap.node o).kids = [] ∧ q.allocates = true) ∧ o < s.heap.size) :
    CInv sem { s with cache := fun j => if j = i then (q, r) :: s.cache i else s.cache j } := by
  refine ⟨hinv.inv, ?_, ?_, ?_⟩
  · intro p hp
    show (if p = i then (q, r) :: s.cache i else s.cache p) = []
    by_cases hpi : p = i
    · subst hpi
      have hp' : (live s.heap p && flagged s.heap p) = false := hp
      rw [hl, hf] at hp'; cases hp'
    · simp only [hpi, if_false]; exact hinv.clean p hp
  · intro j q' o hmem
    have hmem' : (q', Res.object o) ∈ (if j = i then (q, r) :: s.cache i else s.cache j) := hmem
    by_cases hji : j = i
    · subst hji
      simp only [if_true] at hmem'
      rcases List.mem_cons.mp hmem' with e | e
      · cases e; exact hr.2
      · exact hinv.objs j q' o e
    · simp only [hji, if_false] at hmem'; exact hinv.objs j q' o hmem'
  · intro j q' r' hmem
    have hmem' : (q', r') ∈ (if j = i then (q, r) :: s.cache i else s.cache j) := hmem
    by_cases hji : j = i
    · subst hji
      simp only [if_true] at hmem'
      rcases List.mem_cons.mp hmem' with e | e
      · cases e
        cases r with
        | value c => exact hr
        | object o => exact hr.1
      · exact hinv.coh j q' r' e
    · simp only [hji, if_false] at hmem'; exact hinv.coh j q' r' hmem'

/-- **a read keeps the caches coherent** (bypass, hit, or miss followed by a store) — `miss_then_store_coherent`
is the last case -/
theorem read_preserves (sem : Sem) (s : CState) (hinv : CInv sem s) (i : Nat) (q : Query)
    (hl : live s.heap i = true) : CInv sem (readEv sem s i q).1 := by
  have hi : i < s.heap.size := lt_size_of_live hinv.inv hl
  unfold readEv
  by_cases hal : q.allocates = true
  · -- tensordict-valued
    simp only [hal, if_true]
    have hA := alloc_preserves sem s hinv (sem.build q.sem (content s.heap i))
    split
    · exact hA
    · rename_i hact
      have hflag : flagged s.heap i = true := by
        rw [← cacheActive_eq_flagged]; simpa using hact
      split
      · exact hinv
      · split
        · exact hA
        · refine store_preserves sem _ hA i q (.object s.heap.size) ?_ ?_ ?_
          · show live (s.heap.alloc _) i = true
            unfold live; rw [alloc_node_ne _ _ _ (by omega)]; exact hl
          · show flagged (s.heap.alloc _) i = true
            unfold flagged; rw [alloc_node_ne _ _ _ (by omega)]; exact hflag
          · refine ⟨⟨?_, ?_, hal⟩, ?_⟩
            · show bindings ((s.heap.alloc _).node s.heap.size) = (sem.build q.sem (content (s.heap.alloc _) i)).map _
              rw [alloc_node_self, alloc_content hinv.inv _ i hi]
              simp [bindings]
            · show ((s.heap.alloc _).node s.heap.size).kids = []
              rw [alloc_node_self]
            · show s.heap.size < s.heap.size + 1
              omega
  · have hal' : q.allocates = false := by simpa using hal
    simp only [hal', Bool.false_eq_true, if_false]
    split
    · exact hinv
    · rename_i hact
      have hflag : flagged s.heap i = true := by
        rw [← cacheActive_eq_flagged]; simpa using hact
      split
      · exact hinv
      · split
        · exact hinv
        · exact store_preserves sem s hinv i q (.value (freshValue sem s.heap i q)) hl hflag ⟨rfl, hal'⟩

/-- **rebinding an entry under lock** (`_set_str(ignore_lock=True)`: non-tensor indexed write, make_memmap*) keeps
the caches coherent: `_erase_cache_up` resets the node and every live container that holds it. -/
theorem rebind_preserves (sem : Sem) (s : CState) (hinv : CInv sem s) (i : Nat) (k : String) (obj : Nat)
    (hres : ¬ IsResult s i) : CInv sem (cstep sem s (.rebind i k obj)).1 := by
  simp only [cstep]
  split
  · rename_i hg
    simp only [Bool.and_eq_true, decide_eq_true_eq, Bool.not_eq_true'] at hg
    obtain ⟨⟨hl, hi⟩, hlz⟩ := hg
    have hlz' : (s.heap.node i).lazy = false := hlz
    -- the heap after the write
    have nself : (s.heap.upd i (fun n => bindLeaf n k obj)).node i = bindLeaf (s.heap.node i) k obj := upd_node_self _ _ _
    have nne : ∀ m, m ≠ i → (s.heap.upd i (fun n => bindLeaf n k obj)).node m = s.heap.node m :=
      fun m hm => upd_node_ne _ _ _ _ hm
    have hlive : ∀ m, live (s.heap.upd i (fun n => bindLeaf n k obj)) m = live s.heap m := by
      intro m; unfold live; by_cases hm : m = i
      · subst hm; rw [nself]; rfl
      · rw [nne m hm]
    have hflag : ∀ m, flagged (s.heap.upd i (fun n => bindLeaf n k obj)) m = flagged s.heap m := by
      intro m; unfold flagged; by_cases hm : m = i
      · subst hm; rw [nself]; rfl
      · rw [nne m hm]
    have hI : Inv (s.heap.upd i (fun n => bindLeaf n k obj)) := by
      -- same lock bookkeeping, same liveness; entries: one leaf bound, possibly one nested entry dropped
      have h1 := hinv.inv
      refine ⟨?_, ?_, ?_, ?_, ?_⟩
      · intro a b hb
        by_cases hai : a = i
        · subst hai
          unfold kidIds at hb; rw [nself] at hb
          simp only [bindLeaf, List.mem_map, List.mem_filter] at hb
          obtain ⟨e, ⟨he, _⟩, rfl⟩ := hb
          exact h1.ordered a e.2 (List.mem_map.mpr ⟨e, he, rfl⟩)
        · unfold kidIds at hb; rw [nne a hai] at hb; exact h1.ordered a b hb
      · intro a b hla hb
        rw [hlive] at hla ⊢
        by_cases hai : a = i
        · subst hai
          unfold kidIds at hb; rw [nself] at hb
          simp only [bindLeaf, List.mem_map, List.mem_filter] at hb
          obtain ⟨e, ⟨he, _⟩, rfl⟩ := hb
          exact h1.kidsAlive a e.2 hla (List.mem_map.mpr ⟨e, he, rfl⟩)
        · unfold kidIds at hb; rw [nne a hai] at hb; exact h1.kidsAlive a b hla hb
      · intro a hla
        by_cases hai : a = i
        · subst hai; rw [nself] at hla
          have : (bindLeaf (s.heap.node a) k obj).lazy = (s.heap.node a).lazy := rfl
          rw [this, hlz'] at hla; cases hla
        · rw [nne a hai] at hla; unfold kidIds; rw [nne a hai]; exact h1.nonEmptyLazy a hla
      · intro m hm
        have : m ≠ i := by
          have hs : (s.heap.upd i (fun n => bindLeaf n k obj)).size = s.heap.size := rfl
          rw [hs] at hm; omega
        rw [nne m this]; exact h1.bounded m hm
      · intro p j hlp hfp hj
        rw [hlive] at hlp; rw [hflag] at hfp
        have hj0 : j ∈ kidIds s.heap p := by
          by_cases hpi : p = i
          · subst hpi
            unfold kidIds at hj ⊢; rw [nself] at hj
            simp only [bindLeaf, List.mem_map, List.mem_filter] at hj
            obtain ⟨e, ⟨he, _⟩, rfl⟩ := hj
            exact List.mem_map.mpr ⟨e, he, rfl⟩
          · unfold kidIds at hj ⊢; rw [nne p hpi] at hj; exact hj
        obtain ⟨a, b⟩ := h1.closed p j hlp hfp hj0
        refine ⟨by rw [hflag]; exact a, ?_⟩
        -- lock parents: same lists everywhere (bindLeaf keeps `parents`, `lazy`; kids of lazy nodes untouched)
        have hpar : ∀ n m, parentsOfF n (s.heap.upd i (fun n => bindLeaf n k obj)) m = parentsOfF n s.heap m := by
          intro n
          induction n with
          | zero => intro m; rfl
          | succ n ih =>
            intro m
            by_cases hmi : m = i
            · subst hmi
              simp only [parentsOfF, nself]
              have e1 : (bindLeaf (s.heap.node m) k obj).lazy = false := hlz'
              rw [e1, hlz']; rfl
            · simp only [parentsOfF, nne m hmi]
              have : kidIds (s.heap.upd i (fun n => bindLeaf n k obj)) m = kidIds s.heap m := by
                unfold kidIds; rw [nne m hmi]
              rw [this]
              split
              · congr 1; exact flatMap_congr_mem (fun x _ => ih x)
              · rfl
        unfold parentsOf at b ⊢; rw [hpar]; exact b
    -- caches
    by_cases hfi : flagged s.heap i = true
    · simp only [hfi, if_true]
      have hcases := fun j => eraseUpF_cases s.heap.size s.heap s.cache i j
      refine ⟨hI, ?_, ?_, ?_⟩
      · intro p hp
        show eraseUpF s.heap.size s.heap s.cache i p = []
        have : (live s.heap p && flagged s.heap p) = false := by
          have hp' : (live (s.heap.upd i (fun n => bindLeaf n k obj)) p && flagged (s.heap.upd i (fun n => bindLeaf n k obj)) p) = false := hp
          rw [hlive, hflag] at hp'; exact hp'
        rcases hcases p with x | x
        · exact x
        · rw [x]; exact hinv.clean p this
      · intro j q o hmem
        have hmem' : (q, Res.object o) ∈ eraseUpF s.heap.size s.heap s.cache i j := hmem
        rcases hcases j with x | x
        · rw [x] at hmem'; cases hmem'
        · rw [x] at hmem'; exact hinv.objs j q o hmem'
      · apply coherent_transfer sem s _ hcases ?_ ?_ hinv.coh
        · intro p hne hne'
          have hlf : (live s.heap p && flagged s.heap p) = true := by
            cases hx : (live s.heap p && flagged s.heap p) with
            | true => rfl
            | false => exact absurd (hinv.clean p hx) hne
          simp only [Bool.and_eq_true] at hlf
          -- `p` kept its cache, so it is not a container of `i`: its subtree is untouched
          show content (s.heap.upd i (fun n => bindLeaf n k obj)) p = content s.heap p
          apply contentF_congr_reach
          intro m r
          have hmi : m ≠ i := by
            intro e; subst e
            exact hne' (eraseUpF_reaches s.heap hinv.inv p m r hlf.1 hlf.2 s.heap.size s.cache
              (by have := lt_size_of_live hinv.inv hlf.1; omega))
          rw [nne m hmi]; exact ⟨rfl, rfl⟩
        · intro o hr
          have : o ≠ i := fun e => hres (e ▸ hr)
          show ((s.heap.upd i (fun n => bindLeaf n k obj)).node o).kids = (s.heap.node o).kids ∧
            payload ((s.heap.upd i (fun n => bindLeaf n k obj)).node o) = payload (s.heap.node o)
          rw [nne o this]; exact ⟨rfl, rfl⟩
    · have hfi' : flagged s.heap i = false := by simpa using hfi
      simp only [hfi', Bool.false_eq_true, if_false]
      refine ⟨hI, ?_, ?_, ?_⟩
      · intro p hp
        have hp' : (live (s.heap.upd i (fun n => bindLeaf n k obj)) p && flagged (s.heap.upd i (fun n => bindLeaf n k obj)) p) = false := hp
        rw [hlive, hflag] at hp'; exact hinv.clean p hp'
      · exact hinv.objs
      · refine coherent_transfer sem s _ ?_ ?_ ?_ hinv.coh
        · intro j; exact .inr rfl
        · intro p hne _
          have hlf : (live s.heap p && flagged s.heap p) = true := by
            cases hx : (live s.heap p && flagged s.heap p) with
            | true => rfl
            | false => exact absurd (hinv.clean p hx) hne
          simp only [Bool.and_eq_true] at hlf
          show content (s.heap.upd i (fun n => bindLeaf n k obj)) p = content s.heap p
          apply contentF_congr_reach
          intro m r
          have hmi : m ≠ i := by
            intro e; subst e
            have := (closed_reach hinv.inv hlf.1 hlf.2 m r).2
            rw [hfi'] at this; cases this
          rw [nne m hmi]; exact ⟨rfl, rfl⟩
        · intro o hr
          have : o ≠ i := fun e => hres (e ▸ hr)
          show ((s.heap.upd i (fun n => bindLeaf n k obj)).node o).kids = (s.heap.node o).kids ∧
            payload ((s.heap.upd i (fun n => bindLeaf n k obj)).node o) = payload (s.heap.node o)
          rw [nne o this]; exact ⟨rfl, rfl⟩
  · exact hinv

/-! ## assignments accepted under lock that walk down the tree: metadata, `memmap_` -/

/-- **a metadata assignment under lock keeps the caches coherent** — `td.names = …`, `rename_`, `refine_names`,
`td.batch_size = …`, `clear_device_()`, `auto_device_()`, on any tensordict of a locked tree and whatever the depth `d` the
setter walks down: every plain tensordict it visits runs `_erase_cache_up()` (`fix:` batch size, `_erase_names`, device), which
resets the node and, transitively, every live tensordict that holds it; a lazy stack resets its own cache only
(`@erase_cache`) and relies on the setters of its members, which it always calls: since a lazy stack of the invariant is not
empty, each stack visited hands over to a plain tensordict that is visited too (`lazyCovered_of_inv`). A memoised method is
any function of bindings *and attributes* of the subtree (`content`). -/
theorem attr_preserves (sem : Sem) (s : CState) (hinv : CInv sem s) (i f v d : Nat) (hl : live s.heap i = true)
    (hres : ∀ j, j ∈ attrTargets s.heap d i → ¬ IsResult s j) : CInv sem (setAttrEv s i f v d) := by
  have hcov : lazyCovered s.heap (attrTargets s.heap d i) = true := lazyCovered_of_inv hinv.inv d i
  have e : setAttrEv s i f v d = (attrTargets s.heap d i).foldl (touch (attrG f v) false) s := by
    have : (fun acc j => attrTouch acc j f v) = touch (attrG f v) false := by
      funext acc j; exact attrTouch_eq acc j f v
    unfold setAttrEv
    rw [this]
  rw [e]
  have hT := touch_fold (attrG_payloadOnly f v) (attrTargets s.heap d i) s _ (Touched.start false s hinv.inv)
    (attrTargets_live hinv.inv hl)
  refine cinv_of_touched sem hinv hT (fun o hr hd => ?_) (fun m hd hz _ => ?_)
  · rcases hd with hd | hd
    · exact hd
    · exact hres o hd hr
  · rcases hd with hd | hd
    · exact hd.elim
    · obtain ⟨k, hk, hkz, r⟩ := lazyCovered_spec hcov m hd hz
      exact ⟨k, .inr hk, hkz, r⟩

/-- the leaf rebinding of `memmap_` alone (before the tree is locked) -/
theorem memmapLeaves_preserves (sem : Sem) (s : CState) (hinv : CInv sem s) (i : Nat) (news : List ((Nat × String) × Nat))
    (hl : live s.heap i = true) (hres : ∀ j, j ∈ attrTargets s.heap s.heap.size i → ¬ IsResult s j) :
    CInv sem (memmapLeaves s i news) := by
  have e : memmapLeaves s i news = (attrTargets s.heap s.heap.size i).foldl (touch (memmapG news) true) s := by
    have : memmapTouch news = touch (memmapG news) true := by
      funext acc j; exact memmapTouch_eq news acc j
    unfold memmapLeaves
    rw [this]
  rw [e]
  have hT := touch_fold (memmapG_payloadOnly news) (attrTargets s.heap s.heap.size i) s _ (Touched.start true s hinv.inv)
    (attrTargets_live hinv.inv hl)
  refine cinv_of_touched sem hinv hT (fun o hr hd => ?_) (fun m _ _ hb => by cases hb)
  rcases hd with hd | hd
  · exact hd
  · exact hres o hd hr

/-- **`memmap_` on a locked tree keeps the caches coherent** (first conversion, or a memory-mapped tree moved to another
directory with `copy_existing=True`): every plain tensordict of the tree runs `_erase_cache_up()` before its leaves are
rebound to the memory-mapped tensors (`fix:` memmap_), then `_lock_after_memmap` builds the lock graph, which touches no
entry. Whatever new objects the leaves are rebound to (`news`). -/
theorem memmap_preserves (sem : Sem) (s : CState) (hinv : CInv sem s) (i : Nat) (news : List ((Nat × String) × Nat))
    (hl : live s.heap i = true) (hres : ∀ j, j ∈ attrTargets s.heap s.heap.size i → ¬ IsResult s j) :
    CInv sem (cstep sem s (.memmap i news)).1 := by
  have hi := lt_size_of_live hinv.inv hl
  simp only [cstep, hl, hi, decide_true, Bool.and_self, if_true]
  have h1 := memmapLeaves_preserves sem s hinv i news hl hres
  exact base_preserves sem (memmapLeaves s i news) h1 (.viaMemmap i) rfl (fun o ho => by simp [mutated] at ho)

/-! ## the main statements -/

/-- events permitted on the machine: everything C05 allows, reads, rebinding under lock, metadata assignments and `memmap_`;
none of them may restructure a tensordict that a cache would hand out again (the shared-result defect, see
`shared_result_counterexample`). -/
def CEvOk (s : CState) : CEv → Prop
  | .base e => Props.C05.EvOk e ∧ ∀ o, o ∈ mutated s.heap e → ¬ IsResult s o
  | .read i _ => live s.heap i = true
  | .rebind i _ _ => ¬ IsResult s i
  | .setAttr i _ _ d => ∀ j, j ∈ attrTargets s.heap d i → ¬ IsResult s j
  | .memmap i _ => ∀ j, j ∈ attrTargets s.heap s.heap.size i → ¬ IsResult s j

/-- **permitted operations keep every memoised entry equal to a fresh computation** — in-place writes, writes through
members, lock / unlock cycles (accepted and refused), context managers, construction, garbage collection, guarded
mutators, reads themselves, the rebinding writes that are allowed under lock, metadata assignments and `memmap_`. -/
theorem permitted_preserves (sem : Sem) (s : CState) (hinv : CInv sem s) (e : CEv) (hok : CEvOk s e) :
    CInv sem (cstep sem s e).1 := by
  cases e with
  | base e => exact base_preserves sem s hinv e hok.1 hok.2
  | read i q =>
    have hl : live s.heap i = true := hok
    have hi := lt_size_of_live hinv.inv hl
    simp only [cstep, hl, hi, decide_true, Bool.and_self, if_true]
    exact read_preserves sem s hinv i q hl
  | rebind i k obj => exact rebind_preserves sem s hinv i k obj hok
  | setAttr i f v d =>
    simp only [cstep]
    split
    · rename_i hg
      simp only [Bool.and_eq_true, decide_eq_true_eq] at hg
      exact attr_preserves sem s hinv i f v d hg.1 hok
    · exact hinv
  | memmap i news =>
    by_cases hl : live s.heap i = true
    · exact memmap_preserves sem s hinv i news hl hok
    · simp only [cstep]
      have : live s.heap i = false := by simpa using hl
      simp [this]; exact hinv

theorem cinv_empty (sem : Sem) : CInv sem { base := { heap := Heap.empty } } where
  inv := Props.C05.inv_empty
  clean := fun _ _ => rfl
  objs := fun _ _ _ h => by simp at h
  coh := fun _ _ _ h => by simp at h

/-- over any history of permitted events (induction, no length bound) -/
theorem run_coherent (sem : Sem) : ∀ (evs : List CEv) (s : CState), CInv sem s →
    (∀ (pre : List CEv) (e : CEv) (post : List CEv), evs = pre ++ e :: post → CEvOk (crun sem s pre) e) →
    CInv sem (crun sem s evs) := by
  intro evs
  induction evs with
  | nil => intro s hs _; exact hs
  | cons e evs ih =>
    intro s hs hok
    have h1 : CInv sem (cstep sem s e).1 := permitted_preserves sem s hs e (hok [] e evs rfl)
    have : crun sem s (e :: evs) = crun sem (cstep sem s e).1 evs := rfl
    rw [this]
    exact ih _ h1 (fun pre e' post heq => by
      have := hok (e :: pre) e' post (by rw [heq]; rfl)
      exact this)

/-- **`unlock_()` erases** every memoised entry of the subtree, whether the unlock is accepted or refused. -/
theorem unlock_erases (sem : Sem) (s : CState) (hinv : Inv s.heap) (i : Nat) (hl : live s.heap i = true)
    (hi : i < s.heap.size) (n : Nat) (hr : Reach s.heap i n) :
    (cstep sem s (.base (.unlock i))).1.cache n = [] := by
  have : (cstep sem s (.base (.unlock i))).1.cache = eraseMany s.cache (erasedBy s.base (.unlock i)) := rfl
  rw [this]
  have e : erasedBy s.base (.unlock i) = unlockErased s.heap i := by
    have hl' : live s.base.heap i = true := hl
    have hi' : i < s.base.heap.size := hi
    simp [erasedBy, unlockTarget, hl', hi', CState.heap]
  rw [e]
  exact eraseMany_mem _ _ _ ((unlock_facts hinv.ordered i).listed n hr)

/-- **a miss stores what was just computed**: after a read of a value-returning method on a live object that holds
its own lock, the entry found under the query's key is the fresh value. -/
theorem miss_then_store_coherent (sem : Sem) (s : CState) (i : Nat) (q : Query)
    (hact : cacheActive s.heap i = true) (hmiss : lookup q.key (s.cache i) = none)
    (hv : q.allocates = false) (ht : q.tensorValued = false) :
    lookup q.key ((readEv sem s i q).1.cache i) = some (q, .value (freshValue sem s.heap i q)) ∧
    (readEv sem s i q).2 = (.value (freshValue sem s.heap i q), .miss) := by
  simp [readEv, hact, hmiss, hv, ht, lookup]

/-- the locked subject's unlocked twin: same bindings, same values, no lock flag anywhere, nothing memoised -/
def unlockedTwin (s : CState) : CState :=
  { base := { s.base with heap := { s.heap with node := fun j => { s.heap.node j with flag := if (s.heap.node j).lazy then none else some false } } },
    cache := fun _ => [] }

theorem twin_struct (s : CState) : SameStruct s.heap (unlockedTwin s).heap := fun _ => ⟨rfl, rfl⟩

theorem twin_not_active (s : CState) (o : Ordered s.heap) (i : Nat) : cacheActive (unlockedTwin s).heap i = false := by
  rw [cacheActive_eq_flagged]
  unfold flagged unlockedTwin CState.heap
  simp only
  split <;> simp

/-- **`read_transparent`**: on a coherent state, a value-returning read of a locked object returns what the same read
returns on the unlocked twin (same content, no lock), provided that no *other* query stored under the same key
(see `by_address_args_immortal` for when that is guaranteed). -/
theorem read_transparent (sem : Sem) (s : CState) (hinv : CInv sem s) (i : Nat) (q : Query)
    (hv : q.allocates = false)
    (hkey : ∀ e, e ∈ s.cache i → e.1.key = q.key → e.1.sem = q.sem ∧ e.1.allocates = q.allocates) :
    (readEv sem s i q).2.1 = (readEv sem (unlockedTwin s) i q).2.1 := by
  have htw : (readEv sem (unlockedTwin s) i q).2.1 = .value (freshValue sem s.heap i q) := by
    have hc : content (unlockedTwin s).heap i = content s.heap i := (twin_struct s).content i
    simp [readEv, twin_not_active s hinv.inv.ordered i, hv, freshValue, hc]
  rw [htw]
  unfold readEv
  simp only [hv, Bool.false_eq_true, if_false]
  split
  · rfl
  · split
    · rename_i e hlk
      -- a hit: the entry is coherent and was stored by a query with the same meaning
      have hmem : e ∈ s.cache i ∧ e.1.key = q.key := by
        clear hkey
        generalize s.cache i = l at hlk
        induction l with
        | nil => simp [lookup] at hlk
        | cons a l ih =>
          simp only [lookup] at hlk
          split at hlk
          · rename_i hk; cases hlk; exact ⟨List.mem_cons_self, hk⟩
          · exact ⟨List.mem_cons_of_mem _ (ih hlk).1, (ih hlk).2⟩
      obtain ⟨hsem, hall⟩ := hkey e hmem.1 hmem.2
      have hcoh := hinv.coh i e.1 e.2 hmem.1
      cases hr : e.2 with
      | value c =>
        rw [hr] at hcoh
        simp only at hcoh ⊢
        rw [hcoh.1]; unfold freshValue; rw [hsem]
      | object o =>
        rw [hr] at hcoh
        simp only at hcoh
        rw [hcoh.2.2, hv] at hall; cases hall
    · split <;> rfl

/-- the tensordict-valued counterpart: whatever the cache does (bypass, miss, hit), the tensordict a read returns holds
exactly the entries a fresh computation builds from the current bindings — as long as nobody restructured a memoised
result (`CInv`), and no other query stored under the same key. -/
theorem read_transparent_alloc (sem : Sem) (s : CState) (hinv : CInv sem s) (i : Nat) (q : Query)
    (hl : live s.heap i = true) (ha : q.allocates = true)
    (hkey : ∀ e, e ∈ s.cache i → e.1.key = q.key → e.1.sem = q.sem ∧ e.1.allocates = q.allocates) :
    ∃ o, (readEv sem s i q).2.1 = .object o ∧
      bindings ((readEv sem s i q).1.heap.node o) = (sem.build q.sem (content s.heap i)).map (fun e => (e.1, e.2.1)) := by
  have fresh : bindings ((s.heap.alloc { alive := true, leaves := sem.build q.sem (content s.heap i) }).node s.heap.size) =
      (sem.build q.sem (content s.heap i)).map (fun e => (e.1, e.2.1)) := by
    rw [alloc_node_self]; simp [bindings]
  unfold readEv
  simp only [ha, if_true]
  split
  · exact ⟨s.heap.size, rfl, fresh⟩
  · split
    · rename_i e hlk
      have hmem : e ∈ s.cache i ∧ e.1.key = q.key := by
        clear hkey
        generalize s.cache i = l at hlk
        induction l with
        | nil => simp [lookup] at hlk
        | cons a l ih =>
          simp only [lookup] at hlk
          split at hlk
          · rename_i hk; cases hlk; exact ⟨List.mem_cons_self, hk⟩
          · exact ⟨List.mem_cons_of_mem _ (ih hlk).1, (ih hlk).2⟩
      obtain ⟨hsem, hall⟩ := hkey e hmem.1 hmem.2
      have hcoh := hinv.coh i e.1 e.2 hmem.1
      cases hr : e.2 with
      | value c =>
        rw [hr] at hcoh
        simp only at hcoh
        rw [hcoh.2, ha] at hall; cases hall
      | object o =>
        rw [hr] at hcoh
        simp only at hcoh
        exact ⟨o, rfl, by rw [hcoh.1, hsem]⟩
    · split
      · exact ⟨s.heap.size, rfl, fresh⟩
      · exact ⟨s.heap.size, rfl, fresh⟩

/-- the lock API never touches an entry: `lock_()` and `unlock_()` (accepted or refused) leave every key bound to the same
object in every tensordict (C05's "such calls … leave the tree as it was", for the lock calls themselves). -/
theorem lock_api_keeps_bindings (h : Heap) (i : Nat) :
    SameStruct h (lockEv h i).1 ∧ SameStruct h (unlockEv h i).1 ∧ SameStruct h (shareEv h i) :=
  ⟨lockEv_struct h i, unlockEv_struct h i, shareEv_struct h i⟩

/-! ## arguments keyed by address -/

/-- distinct objects that are alive together have distinct addresses (CPython); a *dead* object's address may be reused -/
def AddrInjective (args : List Arg) : Prop :=
  ∀ o1 a1 o2 a2, Arg.obj o1 a1 ∈ args → Arg.obj o2 a2 ∈ args → a1 = a2 → o1 = o2

theorem args_sem_of_key : ∀ (l1 l2 : List Arg), AddrInjective (l1 ++ l2) →
    l1.map Arg.key = l2.map Arg.key → l1.map Arg.sem = l2.map Arg.sem := by
  intro l1
  induction l1 with
  | nil => intro l2 _ h; cases l2 with
    | nil => rfl
    | cons _ _ => simp at h
  | cons a l1 ih =>
    intro l2 hinj h
    cases l2 with
    | nil => simp at h
    | cons b l2 =>
      simp only [List.map_cons, List.cons.injEq] at h ⊢
      refine ⟨?_, ih l2 (fun o1 a1 o2 a2 h1 h2 => hinj o1 a1 o2 a2
        (by rcases List.mem_append.mp h1 with x | x
            · exact List.mem_append_left _ (List.mem_cons_of_mem _ x)
            · exact List.mem_append_right _ (List.mem_cons_of_mem _ x))
        (by rcases List.mem_append.mp h2 with x | x
            · exact List.mem_append_left _ (List.mem_cons_of_mem _ x)
            · exact List.mem_append_right _ (List.mem_cons_of_mem _ x))) h.2⟩
      cases a with
      | val n => cases b with
        | val m => simp [Arg.key] at h; simp [Arg.sem, h.1]
        | obj _ _ => simp [Arg.key] at h
      | obj o1 a1 => cases b with
        | val _ => simp [Arg.key] at h
        | obj o2 a2 =>
          simp only [Arg.key, KeyAtom.addr.injEq] at h
          have := hinj o1 a1 o2 a2 (by simp) (by simp) h.1
          simp [Arg.sem, this]

/-- **`by_address_args_immortal`**: as long as the by-address arguments (the `is_leaf` callables, `default` objects) of the
query that stored an entry are still alive when the next query is made — so that equal addresses mean the same
object — an equal cache key means an equal computation. -/
theorem by_address_args_immortal (q0 q : Query) (hinj : AddrInjective (q0.args ++ q.args)) (hk : q0.key = q.key) :
    q0.sem = q.sem := by
  unfold Query.key at hk
  unfold Query.sem
  simp only [Prod.mk.injEq] at hk ⊢
  exact ⟨hk.1, args_sem_of_key _ _ hinj hk.2⟩

/-! ## negation witnesses (each replayed on the implementation by the harness) -/

/-- value-returning demo semantics: method 0 = "the leaves that satisfy the `is_leaf` object passed"
(object 7 keeps everything, any other object keeps nothing); method 1 builds a flat copy -/
def demoSem : Sem where
  obs := fun q c => match q with
    | (0, [SemAtom.obj 7]) => c
    | (0, _) => []
    | _ => c
  build := fun _ c => c.filterMap (fun p => match p with | ([k], Ent.leaf o) => some (k, o, 0) | _ => none)

def lockedLeaf : CState := crun demoSem { base := { heap := Heap.empty } }
  [.base (.viaCtor [] [("a", 100, 0)] true)]

/-- **address recycling**: a query stored under the address of an object that has died is served to a *different*
object that reuses the address — the reason `by_address_args_immortal` needs its hypothesis. -/
theorem addr_recycling_counterexample :
    let q1 : Query := { meth := 0, args := [.obj 7 555] }
    let q2 : Query := { meth := 0, args := [.obj 8 555] }     -- another callable, same address
    let s1 := (readEv demoSem lockedLeaf 0 q1).1
    q1.key = q2.key ∧ q1.sem ≠ q2.sem ∧
      (readEv demoSem s1 0 q2).2 = (.value [(["a"], .leaf 100)], .hit) ∧
      freshValue demoSem s1.heap 0 q2 = [] := by
  decide

/-- **pinned `cache` guard** (`is_locked` only): a lazy stack over already-locked members memoises although nothing will
ever erase its cache: after `unlock, rebind, lock` of the member the stack still holds the old entry. With the repaired
guard (`cacheActive`) the same read is a bypass. (DESIGN §7 row 17 b.) -/
theorem derived_lock_stale_counterexample :
    let s0 := crun demoSem { base := { heap := Heap.empty } }
      [.base (.viaCtor [] [("a", 100, 0)] true), .base (.lazyOver [0] false)]
    cacheActivePinned s0.heap 1 = true ∧ cacheActive s0.heap 1 = false ∧
      (readEv demoSem s0 1 { meth := 2, args := [] }).2.2 = .bypass := by
  decide

/-- **pinned `_set_str(ignore_lock=True)`** (no `_erase_cache_up`): the locked container keeps serving the entry it memoised
before the entry was rebound, which is no longer what a fresh computation returns. With the repaired code the same read is
a miss that returns the new binding (`rebind_preserves` is the general statement). (DESIGN §7 row 17 c.) -/
theorem rebind_without_erase_counterexample :
    let q : Query := { meth := 2, args := [] }
    let s1 := (readEv demoSem lockedLeaf 0 q).1
    let pinned : CState := { s1 with base := { s1.base with heap := s1.heap.upd 0 (fun n => bindLeaf n "a" 200) } }
    let repaired := (cstep demoSem s1 (.rebind 0 "a" 200)).1
    (readEv demoSem pinned 0 q).2 = (.value [(["a"], .leaf 100)], .hit) ∧
      freshValue demoSem pinned.heap 0 q = [(["a"], .leaf 200)] ∧
      (readEv demoSem repaired 0 q).2 = (.value [(["a"], .leaf 200)], .miss) := by
  decide

/-- **memoised tensordict-valued reads hand out one shared mutable object** (`flatten_keys`, `unflatten_keys`, `detach`):
after the caller adds a key to the result, the next read is a hit that returns the modified object, whose entries are not
what a fresh computation builds. `test_cache` asserts `td.flatten_keys() is td.flatten_keys()`, so this stays a finding.
(DESIGN §7 row 17 a; the reason `CEvOk` excludes mutating a memoised result.) -/
theorem shared_result_counterexample :
    let q : Query := { meth := 1, args := [], allocates := true }
    let s1 := (readEv demoSem lockedLeaf 0 q).1
    let s2 := (cstep demoSem s1 (.base (.mut 1 ⟨⟨true, false, false⟩, false, .addLeaf "new" 300⟩))).1
    (readEv demoSem lockedLeaf 0 q).2 = (.object 1, .miss) ∧
      (readEv demoSem s2 0 q).2 = (.object 1, .hit) ∧
      bindings (s2.heap.node 1) = [("a", 100), ("new", 300)] ∧
      (demoSem.build q.sem (content s2.heap 0)).map (fun e => (e.1, e.2.1)) = [("a", 100)] := by
  decide

/-- **a metadata assignment without `_erase_cache_up`** (the code before the `fix:` commits for `batch_size`, device and
`_erase_names`): the locked tensordict keeps serving what it memoised before the attribute changed. With the repaired setter
the same read is a miss that carries the new attribute (`attr_preserves` is the general statement). -/
theorem attr_without_erase_counterexample :
    let q : Query := { meth := 2, args := [] }
    let s1 := (readEv demoSem lockedLeaf 0 q).1
    let pinned : CState := { s1 with base := { s1.base with heap := s1.heap.upd 0 (fun n => { n with attrs := setField n.attrs 1 7 }) } }
    let repaired := (cstep demoSem s1 (.setAttr 0 1 7 0)).1
    (readEv demoSem pinned 0 q).2 = (.value [(["a"], .leaf 100)], .hit) ∧
      freshValue demoSem pinned.heap 0 q = [([], .attr 1 7), (["a"], .leaf 100)] ∧
      (readEv demoSem repaired 0 q).2 = (.value [([], .attr 1 7), (["a"], .leaf 100)], .miss) := by
  decide

def lockedPair : CState := crun demoSem { base := { heap := Heap.empty } }
  [.base (.viaCtor [] [("a", 100, 0)] false), .base (.viaCtor [("n", 0)] [] true)]

/-- **names erased from above** (`root.names = None` before the `fix:`): the setter of the root invalidates the root and walks
down through `_erase_names`, which changed the attribute of the nested tensordict without touching its cache: the nested
tensordict keeps serving its memoised read. Repaired: every tensordict visited runs `_erase_cache_up`. -/
theorem erased_from_above_counterexample :
    let q : Query := { meth := 2, args := [] }
    let s1 := (readEv demoSem lockedPair 0 q).1
    let walk (h : Heap) := (h.upd 1 (fun n => { n with attrs := setField n.attrs 1 0 })).upd 0 (fun n => { n with attrs := setField n.attrs 1 0 })
    let pinned : CState := { base := { s1.base with heap := walk s1.heap }, cache := eraseUpF s1.heap.size s1.heap s1.cache 1 }
    let repaired := (cstep demoSem s1 (.setAttr 1 1 0 1)).1
    (readEv demoSem s1 0 q).2.2 = .hit ∧
      (readEv demoSem pinned 0 q).2 = (.value [(["a"], .leaf 100)], .hit) ∧
      freshValue demoSem pinned.heap 0 q = [([], .attr 1 0), (["a"], .leaf 100)] ∧
      (readEv demoSem repaired 0 q).2 = (.value [([], .attr 1 0), (["a"], .leaf 100)], .miss) := by
  decide

def lockedOverStack : CState := crun demoSem { base := { heap := Heap.empty } }
  [.base (.viaCtor [] [("a", 100, 0)] false), .base (.lazyOver [0] false), .base (.viaCtor [("l", 1)] [] true)]

/-- **a lazy stack relies on the setters of its members**: its own setter resets the stack's cache only. If the members'
setters are skipped (seeded change: "the names of the member are unchanged, nothing to invalidate"; or an empty stack,
which has no member), renaming the stack dimension leaves the root of the locked tree with a stale entry. The modelled
setter always walks into the members, whose `_erase_cache_up` climbs back through the stack to the root. -/
theorem stack_dim_only_counterexample :
    let q : Query := { meth := 2, args := [] }
    let s1 := (readEv demoSem lockedOverStack 2 q).1
    let pinned : CState := { base := { s1.base with heap := s1.heap.upd 1 (fun n => { n with attrs := setField n.attrs 0 9 }) },
                             cache := eraseAt s1.cache 1 }
    let repaired := (cstep demoSem s1 (.setAttr 1 0 9 3)).1
    (readEv demoSem pinned 2 q).2.2 = .hit ∧
      (readEv demoSem pinned 2 q).2.1 ≠ .value (freshValue demoSem pinned.heap 2 q) ∧
      (readEv demoSem repaired 2 q).2.2 = .miss ∧
      (readEv demoSem repaired 2 q).2.1 = .value (freshValue demoSem repaired.heap 2 q) := by
  decide

/-- **`memmap_` without `_erase_cache_up`** (the code before the `fix:`; also the seeded change "already memory-mapped: nothing
to invalidate" for the move to another directory): the leaves are rebound, the memoised read still returns the old objects. -/
theorem memmap_without_erase_counterexample :
    let q : Query := { meth := 2, args := [] }
    let s1 := (readEv demoSem lockedLeaf 0 q).1
    let pinned : CState := { s1 with base := { s1.base with heap := s1.heap.upd 0 (fun n => { n with leaves := n.leaves.map (newLeaf [((0, "a"), 200)] 0) }) } }
    let repaired := (cstep demoSem s1 (.memmap 0 [((0, "a"), 200)])).1
    (readEv demoSem pinned 0 q).2 = (.value [(["a"], .leaf 100)], .hit) ∧
      freshValue demoSem pinned.heap 0 q = [(["a"], .leaf 200)] ∧
      (readEv demoSem repaired 0 q).2 = (.value [(["a"], .leaf 200)], .miss) := by
  decide

/-! ## the transcribed functions -/

open TdVerif.Gen.CacheTable in
/-- **the functions `Model/C06Cache.lean` transcribes are the ones it was transcribed from** (`cache`, `_make_cache_key`,
`erase_cache`, `_erase_cache_up`, the metadata setters and what they call on the way down): fingerprints of their syntax trees,
regenerated from the source on every run. An edit of any of them breaks this obligation. -/
theorem transcribed_cache_code : cacheCode = [
    ("tensordict/utils.py", "cache", "def", 150685775575764),
    ("tensordict/utils.py", "_make_cache_key", "def", 186837335423253),
    ("tensordict/utils.py", "erase_cache", "def", 239106187870284),
    ("tensordict/base.py", "TensorDictBase._erase_cache", "def", 190181464572807),
    ("tensordict/base.py", "TensorDictBase._erase_cache_up", "def", 49411097632057),
    ("tensordict/base.py", "TensorDictBase._batch_size_setter", "def", 155495785227950),
    ("tensordict/base.py", "TensorDictBase.clear_device_", "def", 171375968971322),
    ("tensordict/base.py", "TensorDictBase._set_device", "def", 38923840367939),
    ("tensordict/base.py", "TensorDictBase.auto_device_", "def", 55593694086078),
    ("tensordict/_td.py", "TensorDict.names", "setter", 256541085177609),
    ("tensordict/_td.py", "TensorDict._erase_names", "def", 114851756678430),
    ("tensordict/_td.py", "TensorDict._rename_subtds", "def", 105382731557165),
    ("tensordict/_lazy.py", "LazyStackedTensorDict.names", "getter", 269035792762992),
    ("tensordict/_lazy.py", "LazyStackedTensorDict.names", "setter", 167702147396603),
    ("tensordict/_lazy.py", "LazyStackedTensorDict._erase_names", "def", 152738123587569),
    ("tensordict/_lazy.py", "LazyStackedTensorDict._rename_subtds", "def", 67788134349883),
    ("tensordict/_lazy.py", "LazyStackedTensorDict.clear_device_", "def", 151305357075050)] := by
  decide +kernel

/-! ## the table regenerated from the source -/

/-- the memoised methods the model and the harness know (name, allocates a tensordict) -/
def knownCached : List (String × Bool) := [
  ("_dtype", false), ("_depth", false), ("param_count", false), ("bytes", false), ("_values_list", false), ("_items_list", false),
  ("sorted_keys", false), ("_add_batch_dim", false), ("_remove_batch_dim", false), ("_maybe_remove_batch_dim", false),
  ("flatten_keys", true), ("unflatten_keys", true), ("detach", true), ("_nested_keys", false), ("_has_exclusive_keys", false),
  ("names", false), ("_get_str", false), ("_key_list", false), ("_is_shared", false), ("_is_memmap", false), ("_valid_keys", false)]

open TdVerif.Gen.CacheTable in
/-- every `@cache` site of the source is a method the monitor and the model know (a new memoised method breaks this) -/
theorem cached_methods_known : ∀ c, c ∈ cached → (knownCached.map (·.1)).contains c.name = true := by decide +kernel

open TdVerif.Gen.CacheTable in
/-- the parameters keyed by address are exactly the `is_leaf` callables and a few `default` / layout objects: these are the
arguments `by_address_args_immortal` speaks about -/
theorem by_address_params_known : ∀ c, c ∈ cached → ∀ p, p ∈ c.params →
    (p.2 = .callable → p.1 = "is_leaf") ∧ (p.2 = .other → ["default", "layout", "padding_value"].contains p.1 = true) := by
  decide +kernel

end TdVerif.Props.C06
