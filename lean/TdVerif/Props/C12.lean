/-
  C12 — chunked / multi-process / multi-thread execution equals sequential execution.
  Property theorems over Model/C12Chunk.lean (chunk arithmetic of `_split_tensordict`, reassembly in
  `_map`) and Model/C12Pool.lean (thread-pool submission / rebuild, writer tasks).
-/
import TdVerif.Lemmas.C12Split
import TdVerif.Lemmas.C12Pool
import TdVerif.Lemmas.C12Tensor
import TdVerif.Lemmas.C12Iter
import TdVerif.Lemmas.C12Shared
import TdVerif.Gen.C12Src
import TdVerif.Model.C12Pins
import TdVerif.Model.C12Seed

namespace TdVerif.Props.C12
open TdVerif.C12

/-! ## 1. the partition handed to the workers -/

/-- `index_with_generator=True` with a chunk size selects the slices of `td.split(min(n, chunksize))`
    (the generator's unclamped stops are clamped by slicing). For every `n > 0`, `chunksize > 0`. -/
theorem genSlices_eq_split (n cs : Nat) (hn : 0 < n) (hcs : 0 < cs) :
    (genLoop n cs 0 cs).map (fun p => (p.1, min n p.2)) = splitSlices n (min n cs) :=
  TdVerif.C12.genSlices_eq_split n cs hn hcs

/-- `index_with_generator=True` with a chunk count selects the slices of `td.chunk(min(n, k))`:
    both use the ceiling of `n / min(n, k)` as split size. For every `n > 0`, `k > 0`. -/
theorem genChunks_eq_chunk (n k : Nat) (hn : 0 < n) (hk : 0 < k) :
    some ((genLoop n (ceilDiv n (min n k)) 0 (ceilDiv n (min n k))).map (fun p => (p.1, min n p.2)))
      = chunkSlices n (min n k) :=
  TdVerif.C12.genChunks_eq_chunk n k hn hk

/-- Generator mode and eager mode of `_split_tensordict` hand the same rows to the workers, call by
    call, for every chunk size / chunk count / worker count (n > 0; an explicit `num_chunks=0` is the
    one excluded point: it raises ZeroDivisionError in one mode and ValueError in the other). -/
theorem gen_eq_eager (n : Nat) (cs nc : Option Nat) (w : Nat) (hn : 0 < n)
    (hnc : nc ≠ some 0) (hw : cs = none → nc = none → 0 < w) :
    (splitTensordict n cs nc w true).map (List.map (clampPiece n)) = splitTensordict n cs nc w false := by
  cases cs with
  | some c =>
    cases nc with
    | some k => simp [splitTensordict, Except.map]
    | none => exact bySize_gen_eq_eager n c hn
  | none =>
    cases nc with
    | some k =>
      have hk : 0 < k := by
        rcases Nat.eq_zero_or_pos k with h | h
        · subst h; exact absurd rfl hnc
        · exact h
      exact byCount_gen_eq_eager n k hn hk
    | none => exact byCount_gen_eq_eager n w hn (hw rfl rfl)

/-- after the repair, a chunk count never fails on account of the dim size: the only error left is
    an explicit `num_chunks = 0` -/
theorem num_chunks_never_fails (n k : Nat) (gen : Bool) (hk : 0 < k) : ∃ ps, splitByCount n k gen = .ok ps := by
  have h0 : ¬ effChunks n k = 0 := by unfold effChunks; omega
  cases gen with
  | true => simp [splitByCount, h0]
  | false =>
    have : ¬ effChunks n k < 1 := by omega
    simp [splitByCount, chunkSlices, this]

/-- The pieces of every successful split enumerate `0, 1, …, n-1` exactly once and in order:
    concatenating the rows of the pieces gives `List.range n` (so the pieces are contiguous, ordered,
    pairwise disjoint and cover the dim). Every `n` (also 0), every mode. -/
theorem slices_partition (n : Nat) (cs nc : Option Nat) (w : Nat) (gen : Bool) (ps : List Piece)
    (h : splitTensordict n cs nc w gen = .ok ps) : ps.flatMap (Piece.rows n) = List.range n := by
  cases cs with
  | some c =>
    cases nc with
    | some k => simp [splitTensordict] at h
    | none => exact bySize_partition n c gen ps h
  | none =>
    cases nc with
    | some k => exact byCount_partition n k gen ps h
    | none => exact byCount_partition n w gen ps h

/-- the eager half of `_split_tensordict` is "pick the call, then run it" -/
theorem eager_factorises (n : Nat) (cs nc : Option Nat) (w : Nat) :
    splitTensordict n cs nc w false = (eagerCall n cs nc w).bind (runEager n) := by
  cases cs with
  | some c =>
    cases nc with
    | some k => rfl
    | none =>
      by_cases hc : c = 0
      · subst hc; rfl
      · simp [splitTensordict, splitBySize, eagerCall, runEager, hc, bind, Except.bind]
  | none =>
    cases nc with
    | some k => simp [splitTensordict, splitByCount, eagerCall, runEager, bind, Except.bind]
    | none => simp [splitTensordict, splitByCount, eagerCall, runEager, bind, Except.bind]

/-- corollary: no row is handed out twice and the rows arrive in increasing order -/
theorem slices_disjoint_ordered (n : Nat) (cs nc : Option Nat) (w : Nat) (gen : Bool) (ps : List Piece)
    (h : splitTensordict n cs nc w gen = .ok ps) :
    (ps.flatMap (Piece.rows n)).Nodup ∧ (ps.flatMap (Piece.rows n)).Pairwise (· < ·) := by
  rw [slices_partition n cs nc w gen ps h]
  exact ⟨List.nodup_range, List.pairwise_lt_range⟩

/-- `td.chunk(k)` never returns more than `k` chunks (the pool never gets more tasks than asked). -/
theorem chunk_count_le (n k : Nat) (hk : 0 < k) (l : List (Nat × Nat)) (h : chunkSlices n k = some l) :
    l.length ≤ max k 1 := by
  unfold chunkSlices at h
  have : ¬ k < 1 := by omega
  simp only [this, if_false, Option.some.injEq] at h
  subst h
  unfold splitSlices
  simp only [List.length_cons]
  rcases Nat.eq_zero_or_pos n with h0 | h0
  · subst h0
    rw [splitLoop]; simp; omega
  · have hc : 0 < ceilDiv n k := by
      unfold ceilDiv; apply Nat.div_pos <;> omega
    rw [splitLoop_length n _ _ hc (by omega)]
    -- n ≤ k * c  where c = ceil(n/k);  pieces = 1 + ceil((n - min n c)/c)
    have hkc : n ≤ k * ceilDiv n k := by
      unfold ceilDiv
      have := Nat.lt_mul_div_succ (n + k - 1) hk
      have h2 : k * ((n + k - 1) / k + 1) = k * ((n + k - 1) / k) + k := by
        rw [Nat.mul_add, Nat.mul_one]
      omega
    generalize ceilDiv n k = c at hc hkc
    by_cases hle : c ≤ n
    · have e : min n c = c := by omega
      rw [e]
      -- ceil((n-c)/c) ≤ k - 1
      have : ceilDiv (n - c) c < k := by
        unfold ceilDiv
        apply (Nat.div_lt_iff_lt_mul hc).2
        omega
      omega
    · have e : min n c = n := by omega
      rw [e, Nat.sub_self, ceilDiv_zero _ hc]
      omega

/-! ## 2. reassembly equals the sequential fold -/

/-- `map(fn)` without `out=` over **any** partition returns `fn(whole)` for a slice-wise `fn`:
    `torch.cat([fn(piece) for piece in pieces], dim) = fn(td)`. -/
theorem map_eq_sequential (f : List α → List β) (hf : SliceWise f) (rows : List α) (ps : List Piece)
    (hp : ps.flatMap (Piece.rows rows.length) = List.range rows.length) (hne : ps ≠ []) :
    mapNoOut (ps.map fun p => some (f (p.extract rows))) = some (f rows) := by
  unfold mapNoOut
  have hfm : (ps.map fun p => some (f (p.extract rows))).filterMap id = ps.map fun p => f (p.extract rows) := by
    rw [List.filterMap_map]; simp [Function.comp_def]
  simp only [hfm]
  have : (ps.map fun p => f (p.extract rows)).isEmpty = false := by
    cases ps with
    | nil => exact absurd rfl hne
    | cons _ _ => rfl
  simp only [this, Bool.false_eq_true, if_false, Option.some.injEq]
  have h2 : (ps.map fun p => f (p.extract rows)) = (ps.map fun p => p.extract rows).map f := by
    simp [List.map_map, Function.comp_def]
  rw [h2, ← hf.flatten, extract_partition rows ps hp]

/-- the whole `_map` without `out=`: for every dim size `n > 0`, chunk size, chunk count, worker
    count and generator mode that `_split_tensordict` accepts, the returned value is `fn(td)`. -/
theorem map_model_eq_sequential (f : List α → List β) (hf : SliceWise f) (rows : List α)
    (hn : 0 < rows.length) (cs nc : Option Nat) (w : Nat) (gen : Bool) (out : List β)
    (r : Option (List β) × List β)
    (h : mapModel rows cs nc w gen (fun _ x => some (f x)) .absent out = .ok r) :
    r = (some (f rows), out) := by
  unfold mapModel at h
  cases hs : splitTensordict rows.length cs nc w gen with
  | error e => simp [hs] at h
  | ok ps =>
    simp only [hs, Except.ok.injEq] at h
    have hp := slices_partition _ cs nc w gen ps hs
    have hne : ps ≠ [] := by
      intro h0; subst h0
      have := congrArg List.length hp
      simp at this; omega
    rw [map_eq_sequential f hf rows ps hp hne] at h
    exact h.symm

/-- **the whole `_map` with a shared-memory / memory-mapped `out=` buffer, eager and generator mode**: the buffer is split with
    the same arguments as the input, zipped with it, and every worker writes its result into its own piece (a generator slice may
    stick out beyond the end, `chunksize=0` hands out single rows): for every dim size `n > 0`, chunk size, chunk count, worker
    count and mode that `_split_tensordict` accepts, a row-wise function and a buffer of the input's length, `map` returns `None`
    and the buffer holds `fn(td)`. -/
theorem map_model_shared_out_eq_sequential (g : α → β) (rows : List α) (hn : 0 < rows.length) (cs nc : Option Nat) (w : Nat)
    (gen : Bool) (out : List β) (hout : out.length = rows.length) (r : Option (List β) × List β)
    (h : mapModel rows cs nc w gen (fun _ x => some (x.map g)) .shared out = .ok r) :
    r = (none, rows.map g) := by
  unfold mapModel at h
  rw [hout] at h
  cases hs : splitTensordict rows.length cs nc w gen with
  | error e => simp [hs] at h
  | ok ps =>
    have ht := split_tiles rows.length hn cs nc w gen ps hs
    have hm := mapSharedOut_tiles g rows ps 0 out ht hout
    simp only [hs, ne_eq, not_true_eq_false, if_false, hm, Except.ok.injEq] at h
    simpa using h.symm

/-! ### in-place apply: the objects -/

/-- the guard of `_multithread_rebuild`: results are *bound* only into a fresh result; an in-place apply copies into the
    existing tensors whatever `checked` is — the guard the seeded variant drops -/
theorem setter_guard (checked inplace : Bool) :
    (setMode checked inplace = .bind ↔ (checked = true ∧ inplace = false))
      ∧ setMode checked true = .copyInto
      ∧ setModeNoGuard true true = .bind := by
  cases checked <;> cases inplace <;> simp [setMode, setModeNoGuard]

/-- **an in-place multithreaded apply keeps every leaf object** (any number of results, any arrival order): the keys still hold
    the tensors they held, no tensor is created, and the values land in the memory every other handle reads -/
theorem inplace_keeps_objects (o : Objs β) (writes : List (Nat × β)) :
    (rebuildObjs .copyInto o writes).ptr = o.ptr ∧ (rebuildObjs .copyInto o writes).next = o.next
      ∧ (rebuildObjs .copyInto o writes).heap = runWrites o.heap (writes.map fun w => (o.ptr.getD w.1 0, w.2)) := by
  induction writes generalizing o with
  | nil => simp [rebuildObjs, runWrites]
  | cons w ws ih =>
    have := ih (setLeaf .copyInto o w.1 w.2)
    simp only [rebuildObjs, List.foldl_cons] at this ⊢
    simp only [setLeaf] at this ⊢
    refine ⟨this.1, this.2.1, ?_⟩
    rw [this.2.2]
    simp [runWrites]

/-- … hence, the leaves living in pairwise distinct cells, in **every** arrival order the same heap (`writers_order_independent`) -/
theorem inplace_apply_order_independent (o : Objs β) (writes ts : List (Nat × β))
    (hd : (writes.map fun w => (o.ptr.getD w.1 0, w.2)).Pairwise fun a b => a.1 ≠ b.1) (hp : writes.Perm ts) :
    (rebuildObjs .copyInto o ts).heap = (rebuildObjs .copyInto o writes).heap := by
  rw [(inplace_keeps_objects o ts).2.2, (inplace_keeps_objects o writes).2.2]
  exact (runWrites_perm o.heap _ _ hd (hp.map _)).symm

/-- binding instead (the seeded variant on `inplace=True`): the key points to a new object and the memory the old handles read
    keeps the old value -/
theorem bind_rebinds_counterexample :
    let o : Objs Nat := ⟨Slots.write (fun _ => none) 0 10, [0], 1⟩
    let r := rebuildObjs (setModeNoGuard true true) o [(0, 11)]
    r.ptr = [1] ∧ r.heap 0 = some 10 ∧ r.heap 1 = some 11
      ∧ (rebuildObjs (setMode true true) o [(0, 11)]).ptr = [0] ∧ (rebuildObjs (setMode true true) o [(0, 11)]).heap 0 = some 11 := by
  simp [rebuildObjs, setLeaf, setMode, setModeNoGuard, Slots.write]

/-! ### `map_iter` -/

/-- **`map_iter` without shuffling** (eager *and* generator mode): the iterator yields, in order, the results on the chunks,
    and what it yields concatenates to `fn(td)` — for every dim size `n > 0`, chunk size, chunk count, worker count. -/
theorem map_iter_eq_sequential (f : List α → List β) (hf : SliceWise f) (rows : List α) (hn : 0 < rows.length)
    (cs nc : Option Nat) (w : Nat) (gen : Bool) (ys : List (Option (List β)))
    (h : mapIterModel rows cs nc w gen (fun _ x => some (f x)) = .ok ys) :
    (∃ ps, splitTensordict rows.length cs nc w gen = .ok ps ∧ ys = ps.map fun p => some (f (p.extract rows)))
      ∧ (ys.filterMap id).flatten = f rows := by
  unfold mapIterModel at h
  cases hs : splitTensordict rows.length cs nc w gen with
  | error e => simp [hs] at h
  | ok ps =>
    simp only [hs, Except.ok.injEq] at h
    subst h
    refine ⟨⟨ps, rfl, rfl⟩, ?_⟩
    have hp := slices_partition _ cs nc w gen ps hs
    have hne : ps ≠ [] := by
      intro h0; subst h0
      have := congrArg List.length hp
      simp at this; omega
    have hm := map_eq_sequential f hf rows ps hp hne
    unfold mapNoOut at hm
    simp only at hm
    split at hm
    · simp at hm
    · simpa using hm

/-- **`map_iter(shuffle=True)`**: whatever permutation `randperm` draws and in whatever order the workers complete, what the
    iterator yields is, put together, a permutation of the row-wise results — every row exactly once. -/
theorem map_iter_shuffle_permutation (g : α → β) (rows : List α) (cs nc : Option Nat) (w : Nat) (rp order : List Nat)
    (ps : List Piece) (hs : splitTensordict rows.length cs nc w true = .ok ps)
    (hrp : rp.Perm (List.range rows.length)) (hord : order.Perm (List.range ps.length))
    (ys : List (Option (List β)))
    (h : mapIterShuffleModel rows cs nc w true rp order (fun x => some (x.map g)) = .ok ys) :
    ((ys.filterMap id).flatten).Perm (rows.map g) := by
  simp only [mapIterShuffleModel, Bool.true_eq_false, if_false, hs, Except.ok.injEq] at h
  subst h
  have hlen : rp.length = rows.length := by simpa using hrp.length_eq
  let results : List (Option (List β)) := (shuffledChunks rows.length rp ps).map fun is => some ((pick rows is).map g)
  have hrl : results.length = ps.length := by simp [results, shuffledChunks]
  have h1 : (pick results order).Perm results := pick_perm results order (by rw [hrl]; exact hord)
  have h2 := (List.Perm.filterMap id h1).flatten
  refine h2.trans ?_
  have h3 : results.filterMap id = (shuffledChunks rows.length rp ps).map fun is => (pick rows is).map g := by
    simp only [results, List.filterMap_map]
    simp [Function.comp_def]
  have h4 : ((shuffledChunks rows.length rp ps).map fun is => (pick rows is).map g).flatten
      = (pick rows (shuffledChunks rows.length rp ps).flatten).map g := by
    rw [← pick_flatten, List.map_flatten, List.map_map]
    rfl
  have h5 : (shuffledChunks rows.length rp ps).flatten = rp := by
    have e : (shuffledChunks rows.length rp ps) = ps.map fun p => gather rp (p.rows rows.length) := rfl
    rw [e, gather_flatMap, slices_partition _ cs nc w true ps hs, ← hlen]
    exact gather_range rp
  rw [h3, h4, h5]
  exact (pick_perm rows rp hrp).map g

/-- shuffling needs the generator mode -/
theorem map_iter_shuffle_eager_refused (rows : List α) (cs nc : Option Nat) (w : Nat) (rp order : List Nat)
    (fn : List α → Option (List β)) : mapIterShuffleModel rows cs nc w false rp order fn = .error .shuffleEager := rfl

/-- `chunksize=0`: unbind, apply per member, restack — equals the row-wise map (`unbind_stack_eq`). -/
theorem unbind_stack_eq (g : α → β) (rows : List α) (hn : 0 < rows.length) :
    mapNoOut (((List.range rows.length).map Piece.idx).map fun p => some ((p.extract rows).map g))
      = some (rows.map g) := by
  have hf : SliceWise (List.map g : List α → List β) := fun a b => List.map_append
  apply map_eq_sequential (List.map g) hf rows
  · exact idx_rows rows.length
  · intro h
    have := congrArg List.length h
    have h2 : rows.length = 0 := by simpa using this
    omega

/-- **`out=` with results that may be `None`** (the repaired loop): every chunk whose call returned
    a tensordict holds that result at the chunk's own rows; every chunk whose call returned `None`
    is left as it was. `fill` is that per-chunk specification. Any partition, any pattern of `None`s,
    any function whose non-None results have the chunk's length. -/
theorem reassemble_none_mixed (rows : List α) (ps : List Piece)
    (hp : ps.flatMap (Piece.rows rows.length) = List.range rows.length)
    (fn : Piece → List α → Option (List β))
    (hfn : ∀ p x item, fn p x = some item → item.length = x.length)
    (out : List β) (hout : out.length = rows.length) :
    reassembleOut 0 out (ps.map fun p => ((p.extract rows).length, fn p (p.extract rows)))
      = some (fill out (ps.map fun p => ((p.extract rows).length, fn p (p.extract rows)))) := by
  have hw : WellSized (ps.map fun p => ((p.extract rows).length, fn p (p.extract rows))) := by
    intro x hx item hi
    simp only [List.mem_map] at hx
    obtain ⟨p, _, rfl⟩ := hx
    exact hfn p _ item hi
  have hs : ((ps.map fun p => ((p.extract rows).length, fn p (p.extract rows))).map (·.1)).sum = rows.length := by
    rw [List.map_map]
    exact extract_lengths_sum rows ps hp
  have := reassembleOut_spec _ 0 out hw (by omega)
  simpa using this

/-- `out=` when no call returns `None`: the buffer ends up holding `fn(td)` (row-wise `g`). -/
theorem reassemble_out_correct (g : α → β) (rows : List α) (ps : List Piece)
    (hp : ps.flatMap (Piece.rows rows.length) = List.range rows.length)
    (out : List β) (hout : out.length = rows.length) :
    reassembleOut 0 out (ps.map fun p => ((p.extract rows).length, some ((p.extract rows).map g)))
      = some (rows.map g) := by
  have h := reassemble_none_mixed rows ps hp (fun _ x => some (x.map g))
    (by intro p x item h; simp at h; subst h; simp) out hout
  rw [h]
  have e : (ps.map fun p => ((p.extract rows).length, some ((p.extract rows).map g)))
      = ((ps.map fun p => (p.extract rows).map g).map fun l => (l.length, some l)) := by
    simp [List.map_map, Function.comp_def]
  rw [e, fill_all_some]
  have hsum : ((ps.map fun p => (p.extract rows).map g).map List.length).sum = rows.length := by
    rw [List.map_map]
    simpa [Function.comp_def] using extract_lengths_sum rows ps hp
  rw [hsum, ← hout, List.drop_length, List.append_nil]
  have h2 : (ps.map fun p => (p.extract rows).map g) = (ps.map fun p => p.extract rows).map (List.map g) := by
    simp [List.map_map, Function.comp_def]
  rw [h2, ← List.map_flatten, extract_partition rows ps hp]

/-- **the whole `_map` with a regular `out=` buffer, eager and generator mode**: for every dim size `n > 0`, chunk size,
    chunk count, worker count and mode that `_split_tensordict` accepts, a row-wise function and a buffer of the input's
    length: `map` returns the buffer and the buffer holds `fn(td)`. -/
theorem map_model_regular_out_eq_sequential (g : α → β) (rows : List α) (cs nc : Option Nat) (w : Nat) (gen : Bool)
    (out : List β) (hout : out.length = rows.length) (r : Option (List β) × List β)
    (h : mapModel rows cs nc w gen (fun _ x => some (x.map g)) .regular out = .ok r) :
    r = (some (rows.map g), rows.map g) := by
  unfold mapModel at h
  cases hs : splitTensordict rows.length cs nc w gen with
  | error e => simp [hs] at h
  | ok ps =>
    have hp := slices_partition _ cs nc w gen ps hs
    simp only [hs, reassemble_out_correct g rows ps hp out hout, Except.ok.injEq] at h
    exact h.symm

/-- The loop of the **pinned** tree (offset not advanced for `None`) violates the specification:
    six rows, chunk size 1, `None` for rows 0, 2, 4 — the results 1, 3, 5 land in rows 0, 1, 2
    (DESIGN §7 row 15; replayed on the implementation by the check as the regression anchor). -/
theorem pinned_reassemble_counterexample :
    let items : List (Nat × Option (List Nat)) :=
      [(1, none), (1, some [11]), (1, none), (1, some [13]), (1, none), (1, some [15])]
    reassembleOutPinned 0 [0, 0, 0, 0, 0, 0] items = some [11, 13, 15, 0, 0, 0]
      ∧ fill [0, 0, 0, 0, 0, 0] items = [0, 11, 0, 13, 0, 15]
      ∧ reassembleOut 0 [0, 0, 0, 0, 0, 0] items = some [0, 11, 0, 13, 0, 15] := by
  decide

/-- The clipping of the **pinned** tree, `min(n, num_chunks)`, yields 0 chunks on an empty dim:
    `td.chunk(0)` raises (and the generator divides by zero); the repaired clipping yields the one
    empty chunk that the chunksize path yields. -/
theorem pinned_empty_dim_counterexample :
    chunkSlices 0 (min 0 3) = none ∧ chunkSlices 0 (effChunks 0 3) = some [(0, 0)]
      ∧ splitTensordict 0 none (some 3) 2 false = splitTensordict 0 (some 3) none 2 false := by
  simp [chunkSlices, effChunks, splitSlices, splitLoop, ceilDiv, splitTensordict, splitByCount, splitBySize]

-- non-vacuity
example : splitTensordict 7 (some 3) none 2 true = .ok [.rng 0 3, .rng 3 6, .rng 6 9] := by
  simp [splitTensordict, splitBySize, genLoop]
example : splitTensordict 7 none (some 3) 2 false = .ok [.rng 0 3, .rng 3 6, .rng 6 7] := by
  simp [splitTensordict, splitByCount, effChunks, chunkSlices, splitSlices, splitLoop, ceilDiv]
example : splitTensordict 0 none (some 3) 2 true = .ok [] := by
  simp [splitTensordict, splitByCount, effChunks, genLoop]
example : splitTensordict 0 none (some 3) 2 false = .ok [.rng 0 0] := by
  simp [splitTensordict, splitByCount, effChunks, chunkSlices, splitSlices, splitLoop, ceilDiv]
example : splitTensordict 4 none (some 0) 2 true = .error .zerodiv := by
  simp [splitTensordict, splitByCount, effChunks]
example : SliceWise (List.map (· + 1) : List Nat → List Nat) := fun _ _ => List.map_append
example : SliceWise (List.filter (· % 2 == 0) : List Nat → List Nat) := fun _ _ => List.filter_append ..

/-! ## 3. thread pools: every completion order gives the single-threaded result -/

/-- `future.result()` read by submission index returns the task's own result whatever the order in
    which the executor completed the tasks (every permutation of the submission indices). -/
theorem results_by_position (fn : α → β) (args : List α) (order : List Nat)
    (hp : order.Perm (List.range args.length)) :
    (List.range args.length).map (fun i => (runTasks fn args order).result i) = args.map (some ∘ fn) := by
  apply List.ext_getElem
  · simp
  · intro i h1 h2
    have hi : i < args.length := by simpa using h1
    simp only [List.getElem_map, List.getElem_range, Function.comp]
    exact result_of_mem fn args i hi order (hp.mem_iff.2 (by simpa using hi))

/-- `_multithread_apply_nest` (submit one task per leaf in key order, complete in **any** order that
    runs every task, rebuild by position) returns exactly what the single-threaded `_apply_nest`
    returns: same keys, same nesting, same values, same filtered-out empties. Arbitrary trees,
    arbitrary functions (incl. `None` results), both values of `filter_empty`. -/
theorem multithread_apply_eq_sequential (fe : Option Bool) (fn : α → Option β) (kids : List (String × Tree α))
    (order : List Nat) (hcov : ∀ i, i < (submitTree (.node kids) 0).2.length → i ∈ order) :
    multithreadApply fe fn kids order = some (applyTree fe fn (.node kids)) := by
  unfold multithreadApply
  apply rebuildTree_ok fe fn _ (.node kids) 0
  intro j hj
  simpa using result_of_mem fn (submitTree (.node kids) 0).2 j hj order (hcov j hj)

/-- two completion orders (permutations of the submission indices) cannot be told apart -/
theorem pool_order_independent (fe : Option Bool) (fn : α → Option β) (kids : List (String × Tree α))
    (π₁ π₂ : List Nat)
    (h₁ : π₁.Perm (List.range (submitTree (.node kids) 0).2.length))
    (h₂ : π₂.Perm (List.range (submitTree (.node kids) 0).2.length)) :
    multithreadApply fe fn kids π₁ = multithreadApply fe fn kids π₂ := by
  rw [multithread_apply_eq_sequential fe fn kids π₁ (fun i hi => h₁.mem_iff.2 (by simpa using hi)),
    multithread_apply_eq_sequential fe fn kids π₂ (fun i hi => h₂.mem_iff.2 (by simpa using hi))]

/-- on the pinned tree the multithreaded rebuild did not have the `filter_empty is None` rule of
    `_apply_nest`: a sub-tensordict whose leaves all map to `None` was kept (empty) by the
    multithreaded form and dropped by the single-threaded one. -/
theorem pinned_filter_none_counterexample :
    dropNodePinnedMT none true = false ∧ dropNode none true true = true := by decide

/-- pairing results with keys by *completion* order instead would be schedule dependent: the
    completion log itself differs between two orders (what the index-based rebuild is immune to). -/
theorem completion_log_depends_on_order :
    (runTasks (· + 1) [10, 20] [1, 0]).map (·.2) ≠ (runTasks (· + 1) [10, 20] [0, 1]).map (·.2) := by
  decide

/-- writer tasks (`assign` of consolidate, `_populate_memmap` / `_save_metadata` of memmap): when the
    tasks target pairwise distinct slots, every execution order leaves the same final state. -/
theorem writers_order_independent [DecidableEq κ] (st : Slots κ ν) (ws ws' : List (κ × ν))
    (hd : ws.Pairwise fun a b => a.1 ≠ b.1) (hp : ws.Perm ws') :
    runWrites st ws' = runWrites st ws :=
  (runWrites_perm st ws ws' hd hp).symm

/-- … and that state is: each targeted slot holds its writer's value, all others are untouched -/
theorem writers_result [DecidableEq κ] (st : Slots κ ν) (ws ws' : List (κ × ν))
    (hd : ws.Pairwise fun a b => a.1 ≠ b.1) (hp : ws.Perm ws') (k : κ) :
    runWrites st ws' k = match ws.find? (fun w => w.1 = k) with
      | some w => some w.2
      | none => st k := by
  rw [writers_order_independent st ws ws' hd hp]
  exact runWrites_lookup ws st hd k

/-- `return_early=True`: `TensorDictFuture.result()` waits for the futures it was handed. The executor
    may run *only* the awaited tasks: a slot whose writer task is not among them is still untouched
    when the wait returns (what happens to the leaves of a nested tensorclass if its tasks are not
    added to `futures`; the check forces that schedule with the permuting executor). -/
theorem unawaited_slot_untouched [DecidableEq κ] (st : Slots κ ν) (awaited : List (κ × ν)) (k : κ)
    (h : ∀ w ∈ awaited, w.1 ≠ k) : runWrites st awaited k = st k := by
  induction awaited generalizing st with
  | nil => rfl
  | cons w ws ih =>
    have h1 : w.1 ≠ k := h w List.mem_cons_self
    have : runWrites st (w :: ws) = runWrites (st.write w.1 w.2) ws := rfl
    rw [this, ih _ (fun x hx => h x (List.mem_cons_of_mem _ hx))]
    simp [Slots.write, Ne.symm h1]

/-- … whereas when the awaited futures are **all** the submitted tasks (in any order) the state after
    the wait is the state of the complete, single-threaded, run -/
theorem await_all_is_complete [DecidableEq κ] (st : Slots κ ν) (submitted awaited : List (κ × ν))
    (hd : submitted.Pairwise fun a b => a.1 ≠ b.1) (hp : submitted.Perm awaited) :
    runWrites st awaited = runWrites st submitted :=
  writers_order_independent st submitted awaited hd hp

/-- without the distinct-slot hypothesis the order matters (two tasks on one slot) -/
theorem writers_same_slot_counterexample :
    runWrites (fun _ => none) [(0, 1), (0, 2)] 0 ≠ runWrites (fun _ => none) [(0, 2), (0, 1)] (0 : Nat) := by
  decide

-- non-vacuity: a nested tree with a `None` leaf and an all-`None` sub-node, reversed completion order
example :
    let kids : List (String × Tree Nat) :=
      [("a", .leaf 1), ("n", .node [("x", .leaf 0), ("y", .leaf 0)]), ("b", .leaf 2)]
    multithreadApply (β := Nat) (some true) (fun v => if v = 0 then none else some (v * 10)) kids [3, 2, 1, 0]
      = some (some (.node [("a", .leaf 10), ("b", .leaf 20)])) := by
  simp [multithreadApply, submitKids, submitTree, runTasks, rebuildKids, rebuildTree, Store.result, dropNode]

/-- **shared / memmap `out=`** (every worker writes its result into *its own piece* of the buffer,
    `None` results skipped after the repair): for consecutive spans covering the buffer the final
    content is the same per-chunk specification `fill` as with a regular buffer — any pattern of
    `None`s, any partition. -/
theorem shared_out_correct (spans : List (Nat × Nat)) (results : List (Option (List β))) (out : List β)
    (hc : Consecutive 0 spans out.length) (hl : spans.length = results.length)
    (hw : ∀ x ∈ spans.zip results, ∀ item, x.2 = some item → item.length = x.1.2 - x.1.1) :
    mapSharedOut out ((spans.map fun p => Piece.rng p.1 p.2).zip results)
      = some (fill out ((spans.map fun p => p.2 - p.1).zip results)) := by
  rw [mapSharedOut_eq_reassemble spans results 0 out.length out hc (Nat.le_refl _) hl hw]
  have hsum : ∀ (sp : List (Nat × Nat)) (a b : Nat), Consecutive a sp b →
      a + (sp.map fun p => p.2 - p.1).sum = b := fun sp a b h =>
    (narrows_of_consecutive 0 (⟨[], fun _ => ()⟩ : T Unit) sp a b h).2
  have hws : WellSized ((spans.map fun p => p.2 - p.1).zip results) := by
    intro x hx item hi
    obtain ⟨i, hi1, hi2⟩ := List.getElem_of_mem hx
    simp only [List.getElem_zip, List.getElem_map] at hi2
    have hmem : (spans[i]'(by simp at hi1; omega), results[i]'(by simp at hi1; omega)) ∈ spans.zip results := by
      apply List.mem_iff_getElem.2
      exact ⟨i, by simp at hi1 ⊢; omega, by simp⟩
    have := hw _ hmem item (by rw [← hi2] at hi; simpa using hi)
    rw [← hi2]; simpa using this
  have hlen : ((spans.map fun p => p.2 - p.1).zip results).map (·.1) = spans.map fun p => p.2 - p.1 := by
    rw [List.map_fst_zip]; simp [hl]
  have := reassembleOut_spec ((spans.map fun p => p.2 - p.1).zip results) 0 out hws (by
    rw [hlen]; have := hsum spans 0 out.length hc; omega)
  simpa using this

/-! ## 4. the rows view is faithful: any rank, any dim -/

/-- the slice of a coordinate-map tensor that a span denotes -/
def sliceOf (d : Nat) (t : T α) (p : Nat × Nat) : T α := narrow d p.1 (p.2 - p.1) t

/-- `torch.cat` along `d` of the slices of consecutive spans is the slice from the first start to the
    last stop — for every rank, every dim `d` inside the shape, every element type -/
theorem cat_consecutive_slices (d : Nat) (t : T α) (hd : d < t.shape.length) (s e b : Nat)
    (rest : List (Nat × Nat)) (h : Consecutive s ((s, e) :: rest) b) :
    (catList d (sliceOf d t (s, e)) (rest.map (sliceOf d t))).Eqv (narrow d s (b - s) t) := by
  obtain ⟨_, hse, hrest⟩ := h
  obtain ⟨h1, h2⟩ := narrows_of_consecutive d t rest e b hrest
  have h3 := catList_narrows d t hd (rest.map fun p => p.2 - p.1) s (e - s)
  have he : s + (e - s) = e := by omega
  rw [he] at h3
  unfold sliceOf
  simp only
  have e1 : (rest.map fun p => narrow d p.1 (p.2 - p.1) t) = narrows d t e (rest.map fun p => p.2 - p.1) := h1
  rw [e1]
  have e2 : e - s + (rest.map fun p => p.2 - p.1).sum = b - s := by omega
  rw [e2] at h3
  exact h3

/-- **eager chunking then `torch.cat(…, dim)` is the identity on a tensordict of any batch shape**:
    the slices `td.split(ss, d)` (hence `td.chunk(k, d)`) concatenated along `d` give `td` back,
    coordinate by coordinate. With `genLoop_clamp_eq_splitLoop` the same holds in generator mode. -/
theorem split_cat_eq_whole (d : Nat) (t : T α) (hd : d < t.shape.length) (ss : Nat) (hss : 0 < ss) :
    let n := (t.shape[d]?).getD 0
    (catList d (sliceOf d t (0, min n ss)) ((splitLoop n ss (min n ss)).map (sliceOf d t))).Eqv t := by
  intro n
  have hc := splitSlices_consecutive n ss hss
  unfold splitSlices at hc
  have h := cat_consecutive_slices d t hd 0 (min n ss) n _ hc
  simp only [Nat.sub_zero] at h
  exact T.Eqv.trans h (narrow_full d t hd)

/-- a worker function that is defined slice by slice along `d`: applying it to a slice is slicing its result -/
def SliceWiseT {β : Type} (d : Nat) (f : T α → T β) : Prop :=
  ∀ (t : T α) (s l : Nat), f (narrow d s l t) = narrow d s l (f t)

/-- an element-wise function (`td.apply(lambda x: g(x))`, `td + 1`, …) on a tensordict of any batch shape -/
def mapT {β : Type} (g : α → β) (t : T α) : T β := ⟨t.shape, fun c => g (t.get c)⟩

theorem mapT_sliceWise {β : Type} (g : α → β) (d : Nat) : SliceWiseT d (mapT g) := fun _ _ _ => rfl

/-- **`td.map(f, dim=d, chunksize=ss)` on coordinate maps**: for a worker function defined slice by slice along `d` that keeps
    the length of that dim, concatenating along `d` the results on the chunks `td.split(ss, d)` is `f(td)`, coordinate by
    coordinate — any batch shape, any `d` inside it, any chunk size. -/
theorem map_split_cat_eq_whole {β : Type} (d : Nat) (t : T α) (f : T α → T β) (hf : SliceWiseT d f)
    (hd : d < (f t).shape.length) (hn : ((f t).shape[d]?).getD 0 = (t.shape[d]?).getD 0) (ss : Nat) (hss : 0 < ss) :
    let n := (t.shape[d]?).getD 0
    (catList d (f (sliceOf d t (0, min n ss))) ((splitLoop n ss (min n ss)).map fun p => f (sliceOf d t p))).Eqv (f t) := by
  intro n
  have h := split_cat_eq_whole d (f t) hd ss hss
  simp only [hn] at h
  have e1 : f (sliceOf d t (0, min n ss)) = sliceOf d (f t) (0, min n ss) := hf t _ _
  have e2 : ((splitLoop n ss (min n ss)).map fun p => f (sliceOf d t p)) = (splitLoop n ss (min n ss)).map (sliceOf d (f t)) :=
    List.map_congr_left fun p _ => hf t _ _
  rw [e1, e2]
  exact h

-- non-vacuity: a 2 x 5 tensordict chunked along dim 1 in pieces of 2
example : (catList 1 (sliceOf 1 (⟨[2, 5], fun c => c⟩ : T (List Nat)) (0, 2))
    ((splitLoop 5 2 2).map (sliceOf 1 ⟨[2, 5], fun c => c⟩))).Eqv ⟨[2, 5], fun c => c⟩ :=
  split_cat_eq_whole 1 ⟨[2, 5], fun c => c⟩ (by decide) 2 (by decide)

example : (catList 1 (mapT (· ++ [7]) (sliceOf 1 (⟨[2, 5], fun c => c⟩ : T (List Nat)) (0, 2)))
    ((splitLoop 5 2 2).map fun p => mapT (· ++ [7]) (sliceOf 1 ⟨[2, 5], fun c => c⟩ p))).Eqv (mapT (· ++ [7]) ⟨[2, 5], fun c => c⟩) :=
  map_split_cat_eq_whole 1 ⟨[2, 5], fun c => c⟩ (mapT (· ++ [7])) (mapT_sliceWise _ 1) (by decide) rfl 2 (by decide)

/-- the workers of the pool `map` makes are seeded **pairwise differently**, each with a seed of `base … base + w - 1`, whatever the order in
    which they took their ids off the queue (for every base seed and every number of workers) -/
theorem worker_seeds_distinct (base w : Nat) (ids : List Nat) (h : ids.Perm (List.range w)) :
    (workerSeeds base ids).Nodup ∧ (∀ s ∈ workerSeeds base ids, base ≤ s ∧ s < base + w)
      ∧ (workerSeeds base ids).Perm ((List.range w).map (base + ·)) := by
  refine ⟨?_, ?_, h.map _⟩
  · have hn : ids.Nodup := h.nodup_iff.mpr List.nodup_range
    exact List.Pairwise.map _ (fun a b (hab : a ≠ b) => by show base + a ≠ base + b; omega) hn
  · intro s hs
    obtain ⟨i, hi, rfl⟩ := List.mem_map.mp hs
    have : i ∈ List.range w := h.mem_iff.mp hi
    have := List.mem_range.mp this
    omega

/-- the functions the C12 models transcribe are, in the working tree, the ones they were transcribed from (AST hashes,
    docstrings removed; regenerated by harness/c12_pins.py on every run): an edit of a transcribed function breaks this
    obligation even when no sampled input behaves differently -/
theorem transcribed_sources_unchanged : Gen.c12Sources = TdVerif.C12.c12Pinned := by decide

end TdVerif.Props.C12
