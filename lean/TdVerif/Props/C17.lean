/-
  C17 — context-managed transformations write back through the inverse: property theorems.

  * `every_ctx_op_has_inverse`, `signatures_match`, `recorded_attr_table`: over the table regenerated from the source on every run;
  * `<op>_reverse_reads_every_spelling`: for EVERY call (positional / keyword / mixed, any values) that the method's
    binder accepts, `_reverse_<op>` recovers exactly the bound arguments;
  * `<op>_inverse_shape`: the registered inverse, called with the arguments `_reverse_<op>` computes, restores the
    original batch size, for every rank / size / (negative) dim;
  * frame theorems about the write-back; lock_/unlock_ revert;
  * `writeBackB_*`, `flatten_keys_exit_rebinds`: the write-back on BINDINGS (which tensor every leaf path names): an unlocked original
    is rebound to the entries of the inverse image (`update(inplace=False)`), a locked one keeps every binding (`update_`);
  * `<op>_block_never_raises` (7 shape ops) / `<keys op>_block_identity`: the WHOLE `with` block of the model — binder, forward call,
    edits, `_reverse_<op>`, binder again on the call it builds, inverse call, write-back — returns normally for every accepted
    spelling, and leaves the original's metadata as it was when the block adds no key.
-/
import TdVerif.Gen.CtxTable
import TdVerif.Gen.C02Src
import TdVerif.Model.C17Pins
import TdVerif.Model.C17Ctx
import TdVerif.Lemmas.C17
import TdVerif.Model.C17World
import TdVerif.Lemmas.C17World

namespace TdVerif.Props.C17
open TdVerif TdVerif.C02 TdVerif.C17
variable {α : Type}

/-- every method usable as a context manager has a registered inverse (table regenerated from source) -/
theorem every_ctx_op_has_inverse : ∀ op ∈ Gen.ctxOpNames, op ∈ Gen.lastOpMaps.map Prod.fst := by decide +kernel

/-- the signatures the binder of the model assumes are the signatures in the source -/
theorem signatures_match : Gen.ctxSignatures = modelParams := by decide +kernel

/-- `lock_`/`unlock_` are the (only) methods recorded conditionally on `is_locked` changing, in every class -/
theorem recorded_attr_table :
    Gen.ctxAttr = (Gen.ctxOpNames.map fun m => (m, if m = "lock_" ∨ m = "unlock_" then "is_locked" else "")) := by
  decide +kernel

/-- every function `Model/C17Ctx.lean` transcribes (`_as_context_manager`, `__enter__`, `__exit__`, every `_reverse_*`) has the AST it was
transcribed from: an edit of one of them breaks this obligation even when no sampled block behaves differently -/
theorem transcribed_sources_unchanged : Gen.c17Sources = c17Pinned := by decide +kernel

/-- `_reverse_transpose` recovers the two dims from every spelling that binds -/
theorem transpose_reverse_reads_every_spelling (c : Call) (d0 d1 : Int) (y out : St)
    (h : toOp "transpose" c = .ok (.shape (.transpose d0 d1))) :
    reverse "transpose" c y out = .ok ("transpose", ⟨[.int d0, .int d1], []⟩) := by
  simp only [toOp, bind, Except.bind] at h
  split at h
  · cases h
  · rename_i vs hb
    obtain ⟨x, yv, rfl, hcases⟩ := bindParams2 _ _ c vs hb
    simp only [List.getD_cons_zero, List.getD_cons_succ] at h
    split at h
    · cases h
    · rename_i i0 h0
      split at h
      · cases h
      · rename_i i1 h1
        simp only [pure, Except.pure, Except.ok.injEq, Fwd.shape.injEq, Op.transpose.injEq] at h
        obtain ⟨rfl, rfl⟩ := h
        have hx := asInt_ok h0
        have hy := asInt_ok h1
        subst hx; subst hy
        rcases hcases with ⟨ha, _, _⟩ | ⟨ha, _, hk⟩ | ⟨ha, hk0, hk1⟩
        · simp [reverse, ha]
        · simp [reverse, ha, hk]
        · simp [reverse, ha, hk0, hk1]

/-- transpose is its own inverse, with the same (possibly negative) dims -/
theorem transpose_inverse_shape (d0 d1 : Int) (bs bs' : Shape) (nm nm2 : Names)
    (h : resShape bs (transposeMeta d0 d1 bs nm) = some bs') :
    resShape bs' (transposeMeta d0 d1 bs' nm2) = some bs := by
  rw [transposeMeta_shape] at h ⊢
  rcases h0 : normDim bs.length d0 with _ | i
  · simp [h0] at h
  · rcases h1 : normDim bs.length d1 with _ | j
    · simp [h0, h1] at h
    · simp only [h0, h1, Option.some.injEq] at h
      subst h
      obtain ⟨_, hi⟩ := normDim_some h0
      obtain ⟨_, hj⟩ := normDim_some h1
      simp only [swap_length, h0, h1, swap_swap bs i j hi hj]

/-- squeeze(d) undoes unsqueeze(d) for every spelling of `d` (a negative `d` is re-normalised against the longer batch) -/
theorem unsqueeze_inverse_shape (d : Int) (bs bs' : Shape) (nm nm2 : Names)
    (h : resShape bs (unsqueezeMeta d bs nm) = some bs') :
    resShape bs' (squeezeMeta (some d) bs' nm2) = some bs := by
  rw [unsqueezeMeta_shape] at h
  rw [squeezeMeta_shape]
  rcases h0 : normDim (bs.length + 1) d with _ | i
  · simp [h0] at h
  · simp only [h0, Option.some.injEq] at h
    subst h
    obtain ⟨_, hi⟩ := normDim_some h0
    have hile : i ≤ bs.length := by omega
    have hl : (bs.insertIdx i 1).length = bs.length + 1 := List.length_insertIdx_of_le_length hile 1
    have h1 : (bs.insertIdx i 1).getD i 0 = 1 := by
      simp [List.getD_eq_getElem?_getD, List.getElem?_insertIdx_self, show i ≤ bs.length by omega]
    simp only [hl, h0, h1, if_true, List.eraseIdx_insertIdx_self]

/-- unsqueeze(d) undoes an effective squeeze(d) -/
theorem squeeze_inverse_shape (d : Int) (bs : Shape) (nm nm2 : Names) (i : Nat)
    (hd : normDim bs.length d = some i) (h1 : bs.getD i 0 = 1) :
    resShape bs (squeezeMeta (some d) bs nm) = some (bs.eraseIdx i) ∧
    resShape (bs.eraseIdx i) (unsqueezeMeta d (bs.eraseIdx i) nm2) = some bs := by
  obtain ⟨_, hi⟩ := normDim_some hd
  refine ⟨by rw [squeezeMeta_shape, hd]; simp only [h1, if_true], ?_⟩
  rw [unsqueezeMeta_shape]
  have hl : (bs.eraseIdx i).length + 1 = bs.length := by rw [List.length_eraseIdx_of_lt hi]; omega
  rw [hl, hd]
  simp only [Option.some.injEq]
  apply List.ext_getElem?; intro k
  have hg : bs[i]? = some 1 := by
    rw [List.getD_eq_getElem?_getD] at h1
    rw [List.getElem?_eq_getElem hi] at h1 ⊢; simpa using h1
  simp only [List.getElem?_insertIdx, List.getElem?_eraseIdx]
  grind

/-- `_reverse_flatten`: unflatten(dim0, out.shape[dim0 : dim1 + 1]) undoes flatten -/
theorem flatten_inverse_shape (a b : Int) (bs bs' : Shape) (nm nm2 : Names) (i j : Nat)
    (ha : normDim bs.length a = some i) (hb : normDim bs.length b = some j)
    (h : resShape bs (flattenMeta a b bs nm) = some bs') :
    resShape bs' (unflattenMeta (i : Int) (natsToInts ((bs.drop i).take (j + 1 - i))) bs' nm2) = some bs := by
  rw [flattenMeta_shape, ha, hb] at h
  obtain ⟨_, hi⟩ := normDim_some ha
  obtain ⟨_, hj⟩ := normDim_some hb
  simp only [] at h
  split at h
  · rename_i hij
    simp only [Option.some.injEq] at h
    subst h
    rw [unflattenMeta_shape]
    have hl : (bs.take i ++ [prod ((bs.drop i).take (j + 1 - i))] ++ bs.drop (j + 1)).length = bs.length - (j - i) := by
      simp; omega
    have hn : normDim (bs.take i ++ [prod ((bs.drop i).take (j + 1 - i))] ++ bs.drop (j + 1)).length (i : Int) = some i := by
      rw [hl]; exact normDim_ofNat (by omega)
    rw [hn]
    have hne : (bs.drop i).take (j + 1 - i) ≠ [] := by
      intro h0; have := congrArg List.length h0; simp at this; omega
    have hget : (bs.take i ++ [prod ((bs.drop i).take (j + 1 - i))] ++ bs.drop (j + 1)).getD i 0 = prod ((bs.drop i).take (j + 1 - i)) := by
      simp [List.getD_eq_getElem?_getD, List.getElem?_append, List.length_take, Nat.min_eq_left (show i ≤ bs.length by omega)]
    simp only [hne, hget, ne_eq, not_false_eq_true, and_self, if_true, Option.some.injEq]
    apply List.ext_getElem?; intro k
    simp [List.getElem?_append, List.getElem?_take, List.getElem?_drop, List.length_take]
    grind
  · cases h

/-- `_reverse_unflatten`: flatten(dim0, dim0 + len(size) - 1) undoes a *valid* unflatten (sizes already resolved, at least
two of them, multiplying up to the size of the dim — what the leaf calls enforce; see the C02 known finding for leafless tensordicts) -/
theorem unflatten_inverse_shape (d : Int) (sz : Shape) (bs bs' : Shape) (nm nm2 : Names) (i : Nat)
    (hd : normDim bs.length d = some i) (hk : 2 ≤ sz.length) (hprod : prod sz = bs.getD i 0)
    (h : resShape bs (unflattenMeta d (natsToInts sz) bs nm) = some bs') :
    resShape bs' (flattenMeta (i : Int) ((i : Int) + sz.length - 1) bs' nm2) = some bs := by
  rw [unflattenMeta_shape, hd] at h
  obtain ⟨_, hi⟩ := normDim_some hd
  simp only [Option.some.injEq] at h
  subst h
  rw [flattenMeta_shape]
  have hl : (bs.take i ++ sz ++ bs.drop (i + 1)).length = bs.length + sz.length - 1 := by simp; omega
  have hn1 : normDim (bs.take i ++ sz ++ bs.drop (i + 1)).length (i : Int) = some i := by
    rw [hl]; exact normDim_ofNat (by omega)
  have hcast : ((i : Int) + sz.length - 1) = ((i + sz.length - 1 : Nat) : Int) := by omega
  have hn2 : normDim (bs.take i ++ sz ++ bs.drop (i + 1)).length ((i : Int) + sz.length - 1) = some (i + sz.length - 1) := by
    rw [hl, hcast]; exact normDim_ofNat (by omega)
  rw [hn1, hn2]
  simp only [show i < i + sz.length - 1 by omega, if_true, Option.some.injEq]
  have hblk : ((bs.take i ++ sz ++ bs.drop (i + 1)).drop i).take (i + sz.length - 1 + 1 - i) = sz := by
    apply List.ext_getElem?; intro k
    simp [List.getElem?_append, List.getElem?_take, List.getElem?_drop, List.length_take]
    grind
  rw [hblk, hprod]
  have hti : (bs.take i).length = i := by simp; omega
  have ht : (bs.take i ++ sz ++ bs.drop (i + 1)).take i = bs.take i := by
    rw [List.append_assoc]; exact List.take_left' hti
  have hdl : (bs.take i ++ sz).length = i + sz.length - 1 + 1 := by simp [hti]; omega
  have hdr : (bs.take i ++ sz ++ bs.drop (i + 1)).drop (i + sz.length - 1 + 1) = bs.drop (i + 1) :=
    List.drop_left' hdl
  rw [ht, hdr]
  exact take_getD_drop bs i hi

/-- `_reverse_view`: view(out.shape) undoes any view -/
theorem view_inverse_shape (sh : Shape) (bs bs' : Shape) (nm nm2 : Names)
    (h : resShape bs (viewMeta true (natsToInts sh) bs nm) = some bs') :
    resShape bs' (viewMeta true (natsToInts bs) bs' nm2) = some bs := by
  rw [viewMeta_shape]

/-- `_reverse_permute`: permuting the yielded object by `argsort(dims)` restores the original batch size
(argsort is the inverse permutation) -/
theorem permute_inverse_shape (p : List Nat) (bs : Shape) (nm2 : Names) (hp : p.Perm (List.range bs.length)) :
    resShape (p.map (fun i => bs.getD i 0))
      (permuteMeta (argsort (natsToInts p)) (p.map (fun i => bs.getD i 0)) nm2) = some bs := by
  have hlen : p.length = bs.length := by simpa using hp.length_eq
  rw [argsort_eq_invPerm p _ hp]
  have hq := invPerm_perm p _ hp
  have hl' : (p.map (fun i => bs.getD i 0)).length = bs.length := by simp [hlen]
  rw [permuteMeta_of_perm (invPerm p) _ nm2 (by rw [hl']; exact hq)]
  rw [invPerm_undoes p _ hp (fun i => bs.getD i 0) 0, range_map_getD']

/-! ## key transformations, lock state, the write-back frame -/

/-- `sep.join(path).split(sep) == path` when no component contains the (one-character) separator -/
theorem splitC_joinSep (c : Char) : ∀ (ks : Key), ks ≠ [] → (∀ k ∈ ks, c ∉ k) → splitC c (joinSep [c] ks) = ks
  | [], h, _ => absurd rfl h
  | [k], _, h => by simp only [joinSep]; exact splitC_no_sep c k (h k (by simp))
  | k :: k2 :: rest, _, h => by
    simp only [joinSep, List.append_assoc, List.singleton_append]
    rw [splitC_append_sep c k _ (h k (by simp))]
    rw [splitC_joinSep c (k2 :: rest) (by simp) (fun x hx => h x (by simp [hx]))]

/-- `sep.join(s.split(sep)) == s` always -/
theorem joinSep_splitC (c : Char) : ∀ (s : List Char), joinSep [c] (splitC c s) = s
  | [] => by simp [splitC, joinSep]
  | x :: xs => by
    have ih := joinSep_splitC c xs
    simp only [splitC]
    by_cases hx : x = c
    · subst hx
      simp only [if_true]
      rcases hs : splitC x xs with _ | ⟨h, t⟩
      · exact absurd hs (splitC_ne_nil x xs)
      · rw [hs] at ih
        simp only [joinSep, List.nil_append, List.singleton_append]
        rw [ih]
    · simp only [hx, if_false]
      rcases hs : splitC c xs with _ | ⟨h, t⟩
      · exact absurd hs (splitC_ne_nil c xs)
      · rw [hs] at ih
        cases t with
        | nil => simp only [joinSep] at ih ⊢; rw [ih]
        | cons t1 t2 =>
          simp only [joinSep, List.cons_append] at ih ⊢; rw [ih]

/-- `with td.flatten_keys(sep)`: the registered inverse `unflatten_keys(sep)` restores the key structure
when no key component contains the separator (one-character separators) -/
theorem flatten_keys_inverse (c : Char) (ks flat : List Key) (hns : NoSepInKeys c ks) (hv : validKeys ks = true)
    (h : flattenKeys [c] ks = .ok flat) : unflattenKeys [c] flat = .ok ks := by
  unfold flattenKeys at h
  simp only [] at h
  split at h
  · cases h
  · simp only [Except.ok.injEq] at h
    subst h
    unfold unflattenKeys
    have hmap : (ks.map (flattenKey [c])).map (unflattenKey [c]) = ks := by
      rw [List.map_map]
      conv => rhs; rw [← List.map_id ks]
      apply List.map_congr_left
      intro k hk
      simp only [Function.comp_apply, flattenKey, unflattenKey, splitSep, id]
      exact splitC_joinSep c k (hns k hk).1 (hns k hk).2
    simp only [hmap, hv, if_true]

/-- `with td.unflatten_keys(sep)` on a flat tensordict: the registered inverse `flatten_keys(sep)` restores the keys -/
theorem unflatten_keys_inverse (c : Char) (ks nested : List Key) (hflat : FlatKeys ks)
    (hnd : ks.eraseDups.length = ks.length)
    (h : unflattenKeys [c] ks = .ok nested) : flattenKeys [c] nested = .ok ks := by
  unfold unflattenKeys at h
  simp only [] at h
  split at h
  · simp only [Except.ok.injEq] at h
    subst h
    unfold flattenKeys
    have hmap : (ks.map (unflattenKey [c])).map (flattenKey [c]) = ks := by
      rw [List.map_map]
      conv => rhs; rw [← List.map_id ks]
      apply List.map_congr_left
      intro k hk
      obtain ⟨s, rfl⟩ := hflat k hk
      simp only [Function.comp_apply, flattenKey, unflattenKey, splitSep, id, joinSep_splitC]
    simp only [hmap, hnd, ne_eq, not_true_eq_false, if_false]
  · cases h

/-- `with td.lock_(): …` — whatever happens inside (only value edits can), the lock state is reverted on exit,
batch size and names untouched; an already locked tensordict stays locked (nothing was recorded) -/
theorem lock_ctx_reverts (edits : List Edit) (s s' : St) (h : withBlock "lock_" ⟨[], []⟩ edits s = .ok s') :
    s'.locked = s.locked ∧ s'.bs = s.bs ∧ s'.names = s.names := by
  unfold withBlock at h
  rw [fwd_lock] at h
  simp only [bind, Except.bind] at h
  split at h
  · cases h
  · rename_i y' hy
    obtain ⟨hb, hn, hl⟩ := applyEdits_frame edits _ y' hy
    simp only [if_true] at h
    unfold exitBlock at h
    cases hs : s.locked with
    | true =>
      simp only [hs, Bool.not_true, Bool.false_eq_true, not_false_eq_true, if_true] at h
      cases h
      exact ⟨by rw [hl], hb, hn⟩
    | false =>
      simp only [hs, Bool.not_false, not_true_eq_false, if_false, reverse, bind, Except.bind] at h
      simp only [fwd_unlock, pure, Except.pure] at h
      simp at h
      subst h
      exact ⟨rfl, hb, hn⟩

theorem unlock_ctx_reverts (edits : List Edit) (s s' : St) (h : withBlock "unlock_" ⟨[], []⟩ edits s = .ok s') :
    s'.locked = s.locked ∧ s'.bs = s.bs ∧ s'.names = s.names := by
  unfold withBlock at h
  rw [fwd_unlock] at h
  simp only [bind, Except.bind] at h
  split at h
  · cases h
  · rename_i y' hy
    obtain ⟨hb, hn, hl⟩ := applyEdits_frame edits _ y' hy
    simp only [if_true] at h
    unfold exitBlock at h
    cases hs : s.locked with
    | false =>
      simp only [hs, Bool.false_eq_true, not_false_eq_true, if_true] at h
      cases h
      exact ⟨by rw [hl], hb, hn⟩
    | true =>
      simp only [hs, not_true_eq_false, if_false, reverse, bind, Except.bind] at h
      simp only [fwd_lock, pure, Except.pure] at h
      simp at h
      subst h
      exact ⟨rfl, hb, hn⟩

/-- FRAME: whatever the op, its spelling and the edits inside the block, a normally exiting block leaves the
original's batch size, names and lock state untouched; a locked original also keeps its key set
("in place when the original is locked") -/
theorem withBlock_frame (name : String) (c : Call) (edits : List Edit) (s s' : St)
    (hn : name ≠ "lock_" ∧ name ≠ "unlock_") (h : withBlock name c edits s = .ok s') :
    s'.bs = s.bs ∧ s'.names = s.names ∧ s'.locked = s.locked ∧ (s.locked = true → s'.keys = s.keys) := by
  unfold withBlock at h
  simp only [bind, Except.bind] at h
  split at h
  · cases h
  · rename_i y hy
    split at h
    · cases h
    · rename_i y' hy'
      unfold fwd at hy
      simp only [bind, Except.bind] at hy
      split at hy
      · cases hy
      · rename_i f hf
        obtain ⟨hrec, hself⟩ := applyFwd_nonlock f s y (toOp_nonlock name c f hf hn) hy
        rw [hrec] at h
        obtain ⟨eb, en, el⟩ := applyEdits_frame edits y.st y' hy'
        cases hs : y.isSelf with
        | true =>
          have hst := hself hs
          simp only [hs, if_true] at h
          obtain ⟨rb, rn, rl, rk⟩ := exitBlock_frame name c true y' y' s' hn h
          rw [hst] at eb en el
          refine ⟨rb.trans eb, rn.trans en, rl.trans el, ?_⟩
          intro hlock
          have hk := applyEdits_locked_keys edits y.st y' (by rw [hst]; exact hlock) hy'
          rw [rk (by rw [el]; exact hlock), hk, hst]
        | false =>
          simp only [hs, Bool.false_eq_true, if_false] at h
          exact exitBlock_frame name c false y' s s' hn h

/-- `_reverse_flatten_keys` (after fix 55ca500) recovers the separator from every spelling that binds:
positional, `separator=`, or the default -/
theorem flatten_keys_reverse_reads_every_spelling (c : Call) (sep : List Char) (y out : St)
    (h : toOp "flatten_keys" c = .ok (.flattenKeys sep)) :
    reverse "flatten_keys" c y out = .ok ("unflatten_keys", ⟨[.str sep], []⟩) := by
  simp only [toOp, bind, Except.bind] at h
  split at h
  · cases h
  · rename_i vs hb
    obtain ⟨v, tl, rfl, hcases⟩ := bindParams_first _ _ _ c vs hb
    simp only [List.getD_cons_zero] at h
    split at h
    · cases h
    · rename_i s hs
      simp only [pure, Except.pure, Except.ok.injEq, Fwd.flattenKeys.injEq] at h
      subst h
      have hv := asStr_ok hs
      subst hv
      rcases hcases with ⟨a, as, ha, rfl⟩ | ⟨ha, hv⟩
      · simp [reverse, ha]
      · simp [reverse, ha, ← hv]

theorem unflatten_keys_reverse_reads_every_spelling (c : Call) (sep : List Char) (y out : St)
    (h : toOp "unflatten_keys" c = .ok (.unflattenKeys sep)) :
    reverse "unflatten_keys" c y out = .ok ("flatten_keys", ⟨[.str sep], []⟩) := by
  simp only [toOp, bind, Except.bind] at h
  split at h
  · cases h
  · rename_i vs hb
    obtain ⟨v, tl, rfl, hcases⟩ := bindParams_first _ _ _ c vs hb
    simp only [List.getD_cons_zero] at h
    split at h
    · cases h
    · rename_i s hs
      simp only [pure, Except.pure, Except.ok.injEq, Fwd.unflattenKeys.injEq] at h
      subst h
      have hv := asStr_ok hs
      subst hv
      rcases hcases with ⟨a, as, ha, rfl⟩ | ⟨ha, hv⟩
      · simp [reverse, ha]
      · simp [reverse, ha, ← hv]

/-- `_reverse_unsqueeze` recovers the dim from `unsqueeze(d)` and `unsqueeze(dim=d)` -/
theorem unsqueeze_reverse_reads_every_spelling (c : Call) (d : Int) (y out : St)
    (h : toOp "unsqueeze" c = .ok (.shape (.unsqueeze d))) :
    reverse "unsqueeze" c y out = .ok ("squeeze", ⟨[.int d], []⟩) := by
  simp only [toOp, bind, Except.bind] at h
  split at h
  · cases h
  · rename_i vs hb
    obtain ⟨x, rfl, hcases⟩ := bindParams1 _ c vs hb
    simp only [List.getD_cons_zero] at h
    split at h
    · cases h
    · rename_i i hi
      simp only [pure, Except.pure, Except.ok.injEq, Fwd.shape.injEq, Op.unsqueeze.injEq] at h
      subst h
      have hx := asInt_ok hi
      subst hx
      rcases hcases with ⟨ha, _⟩ | ⟨ha, hk⟩
      · simp [reverse, ha]
      · simp [reverse, ha, hk, kw_some_kwargs_ne c _ _ hk]

/-- nested blocks (inner block on the yielded object, exits first): the frame holds for the original -/
theorem withNested_frame (n1 : String) (c1 : Call) (n2 : String) (c2 : Call) (e2 e1 : List Edit) (s s' : St)
    (h1 : n1 ≠ "lock_" ∧ n1 ≠ "unlock_") (h2 : n2 ≠ "lock_" ∧ n2 ≠ "unlock_")
    (h : withNested n1 c1 n2 c2 e2 e1 s = .ok s') :
    s'.bs = s.bs ∧ s'.names = s.names ∧ s'.locked = s.locked ∧ (s.locked = true → s'.keys = s.keys) := by
  unfold withNested at h
  simp only [bind, Except.bind] at h
  split at h
  · cases h
  · rename_i y hy
    split at h
    · cases h
    · rename_i y1 hy1
      split at h
      · cases h
      · rename_i y2 hy2
        obtain ⟨ib, inn, il, ik⟩ := withBlock_frame n2 c2 e2 y.st y1 h2 hy1
        obtain ⟨eb, en, el⟩ := applyEdits_frame e1 y1 y2 hy2
        unfold fwd at hy
        simp only [bind, Except.bind] at hy
        split at hy
        · cases hy
        · rename_i f hf
          obtain ⟨hrec, hself⟩ := applyFwd_nonlock f s y (toOp_nonlock n1 c1 f hf h1) hy
          rw [hrec] at h
          cases hs : y.isSelf with
          | true =>
            have hst := hself hs
            simp only [hs, if_true] at h
            obtain ⟨rb, rn, rl, rk⟩ := exitBlock_frame n1 c1 true y2 y2 s' h1 h
            rw [hst] at ib inn il ik
            refine ⟨rb.trans (eb.trans ib), rn.trans (en.trans inn), rl.trans (el.trans il), ?_⟩
            intro hlock
            have hk1 := ik hlock
            have hk2 := applyEdits_locked_keys e1 y1 y2 (by rw [il]; exact hlock) hy2
            rw [rk (by rw [el, il]; exact hlock), hk2, hk1]
          | false =>
            simp only [hs, Bool.false_eq_true, if_false] at h
            exact exitBlock_frame n1 c1 false y2 s s' h1 h

/-- `_reverse_flatten` computes `unflatten(dim0, out.shape[dim0 : dim1+1])` from every spelling that binds:
`flatten()`, `(a)`, `(a, b)`, `(a, end_dim=b)`, `(start_dim=a)`, `(end_dim=b)`, `(start_dim=a, end_dim=b)` -/
theorem flatten_reverse_reads_every_spelling (c : Call) (a b : Int) (y out : St)
    (h : toOp "flatten" c = .ok (.shape (.flatten a b))) :
    reverse "flatten" c y out = .ok ("unflatten",
      ⟨[.int (normNeg a out.bs.length), .ints ((pySlice out.bs (normNeg a out.bs.length) (normNeg b out.bs.length)).map Int.ofNat)], []⟩) := by
  simp only [toOp, bind, Except.bind] at h
  split at h
  · cases h
  · rename_i vs hb
    obtain ⟨x, yv, rfl, hcases⟩ := bindParams2d _ _ _ _ c vs hb
    simp only [List.getD_cons_zero, List.getD_cons_succ] at h
    split at h
    · cases h
    · rename_i i0 h0
      split at h
      · cases h
      · rename_i i1 h1
        simp only [pure, Except.pure, Except.ok.injEq, Fwd.shape.injEq, Op.flatten.injEq] at h
        obtain ⟨rfl, rfl⟩ := h
        have hx := asInt_ok h0
        have hy := asInt_ok h1
        subst hx; subst hy
        rcases hcases with ⟨ha, _, _⟩ | ⟨ha, _, hk⟩ | ⟨ha, hk0, hk1⟩
        · simp [reverse, ha, asInt, bind, Except.bind, pure, Except.pure]
        · simp [reverse, ha, ← hk, asInt, bind, Except.bind, pure, Except.pure]
        · simp [reverse, ha, ← hk0, ← hk1, asInt, bind, Except.bind, pure, Except.pure]

/-- `_reverse_permute` and `permute` read the dims through the same `_get_shape_from_args`: varargs, one list, or `dims=` -/
theorem permute_reverse_reads_every_spelling (c : Call) (dims : List Int) (y out : St)
    (h : toOp "permute" c = .ok (.shape (.permute dims))) :
    reverse "permute" c y out = .ok ("permute",
      ⟨[.ints (argsort (dims.map (fun d => if d ≥ 0 then d else (y.bs.length : Int) + d)))], []⟩) := by
  simp only [toOp, bind, Except.bind] at h
  split at h
  · cases h
  · rename_i l hl
    simp only [pure, Except.pure, Except.ok.injEq, Fwd.shape.injEq, Op.permute.injEq] at h
    subst h
    simp [reverse, hl, bind, Except.bind, pure, Except.pure]

/-- `_reverse_squeeze` recovers the dim from `squeeze(d)` and `squeeze(dim=d)` -/
theorem squeeze_reverse_reads_every_spelling (c : Call) (d : Int) (y out : St)
    (h : toOp "squeeze" c = .ok (.shape (.squeeze (some d)))) :
    reverse "squeeze" c y out = .ok ("unsqueeze", ⟨[.int d], []⟩) := by
  simp only [toOp, bind, Except.bind] at h
  split at h
  · cases h
  · rename_i vs hb
    obtain ⟨x, rfl, hcases⟩ := bindParams1d _ _ c vs hb
    simp only [List.getD_cons_zero] at h
    cases x with
    | none => simp [pure, Except.pure] at h
    | int i =>
      simp only [asInt, pure, Except.pure, Except.ok.injEq, Fwd.shape.injEq, Op.squeeze.injEq, Option.some.injEq] at h
      subst h
      rcases hcases with ⟨ha, _⟩ | ⟨ha, hk⟩
      · simp [reverse, ha]
      · have hkw : c.kw "dim" = some (.int i) := by
          rcases hc : c.kw "dim" with _ | v
          · simp [hc] at hk
          · simp [hc] at hk; rw [hk]
        simp [reverse, ha, hkw, kw_some_kwargs_ne c _ _ hkw]
    | ints l => simp [asInt] at h
    | str s => simp [asInt] at h
    | bool b => simp [asInt] at h

/-- `_reverse_unflatten` recovers dim and sizes from `(d, size)`, `(d, unflattened_size=size)`, `(dim=d, unflattened_size=size)` -/
theorem unflatten_reverse_reads_every_spelling (c : Call) (d : Int) (sz : List Int) (y out : St)
    (h : toOp "unflatten" c = .ok (.shape (.unflatten d sz))) :
    reverse "unflatten" c y out = .ok (if sz.length = 1 then ("identity", ⟨[], []⟩)
      else ("flatten", ⟨[.int (normNeg d out.bs.length), .int (normNeg d out.bs.length + sz.length - 1)], []⟩)) := by
  simp only [toOp, bind, Except.bind] at h
  split at h
  · cases h
  · rename_i vs hb
    obtain ⟨x, yv, rfl, hcases⟩ := bindParams2 _ _ c vs hb
    simp only [List.getD_cons_zero, List.getD_cons_succ] at h
    split at h
    · cases h
    · rename_i i0 h0
      split at h
      · cases h
      · rename_i l1 h1
        simp only [pure, Except.pure, Except.ok.injEq, Fwd.shape.injEq, Op.unflatten.injEq] at h
        obtain ⟨rfl, rfl⟩ := h
        have hx := asInt_ok h0
        have hy := asInts_ok h1
        subst hx; subst hy
        rcases hcases with ⟨ha, _, _⟩ | ⟨ha, _, hk⟩ | ⟨ha, hk0, hk1⟩
        · simp only [reverse, ha, asInt, asInts, bind, Except.bind, pure, Except.pure]; split <;> rfl
        · simp only [reverse, ha, hk, Option.getD_some, asInt, asInts, bind, Except.bind, pure, Except.pure]; split <;> rfl
        · simp only [reverse, ha, hk0, hk1, Option.getD_some, asInt, asInts, bind, Except.bind, pure, Except.pure]; split <;> rfl

/-- "admitting new keys when it is not [locked]": every key of the inverse image is a key of the original after the
write-back (pairwise unrelated key paths, i.e. a valid key structure) -/
theorem writeBack_admits_new_keys (out inv : St) (hl : out.locked = false) (hbs : inv.bs = out.bs)
    (hv : ∀ a ∈ inv.keys, ∀ b ∈ inv.keys, a = b ∨ Unrelated a b) :
    ∃ r, writeBack out inv = .ok r ∧ (∀ k ∈ inv.keys, k ∈ r.keys) ∧
      (∀ k ∈ out.keys, (∀ p ∈ inv.keys, k = p ∨ Unrelated k p) → k ∈ r.keys) := by
  refine ⟨{ out with keys := inv.keys.foldl insertPath out.keys }, ?_, ?_, ?_⟩
  · unfold writeBack
    simp [hbs, hl]
  · intro k hk
    exact foldl_insertPath_mem inv.keys out.keys k hv (Or.inl hk)
  · intro k hk hu
    exact foldl_insertPath_mem inv.keys out.keys k hv (Or.inr ⟨hk, hu⟩)


/-! ## values: the inverse restores every element (functional tensors of C02), not only the shape -/

/-- values: transposing twice gives the tensor back -/
theorem transpose_transpose_values (t : T α) (i j : Nat) (hi : i < t.rank) (hj : j < t.rank) :
    (t.transpose i j).transpose i j ≈ₜ t := by
  refine ⟨?_, ?_⟩
  · simp only [T.transpose]; exact swap_swap _ _ _ hi hj
  · intro c hc
    have hl : c.length = t.shape.length := by
      have := InB.length_eq hc
      simp only [T.transpose, swap_length] at this; exact this
    simp only [T.transpose]
    rw [swap_swap c i j (by rw [hl]; exact hi) (by rw [hl]; exact hj)]

/-- values: squeeze(d) after unsqueeze(d) gives the tensor back -/
theorem squeeze_unsqueeze_values (t : T α) (d : Nat) (hd : d ≤ t.rank) :
    (t.unsqueeze d).squeeze d ≈ₜ t := by
  have h1 : (t.unsqueeze d).shape.getD d 0 = 1 := by
    simp [T.unsqueeze, List.getD_eq_getElem?_getD, List.getElem?_insertIdx_self, show d ≤ t.shape.length from hd]
  have hsq : (t.unsqueeze d).squeeze d = (t.unsqueeze d).select d 0 := by unfold T.squeeze; rw [if_pos h1]
  rw [hsq]
  refine ⟨?_, ?_⟩
  · simp only [T.select, T.unsqueeze]; exact List.eraseIdx_insertIdx_self 1
  · intro c _
    simp only [T.select, T.unsqueeze]
    rw [List.eraseIdx_insertIdx_self]

/-- values: `(t.permute p).permute (argsort p)` gives the tensor back (argsort p = invPerm p) -/
theorem permute_invPerm_values (t : T α) (p : List Nat) (hp : p.Perm (List.range t.rank)) :
    (t.permute p).permute (invPerm p) ≈ₜ t := by
  have hlen : p.length = t.shape.length := by simpa [T.rank] using hp.length_eq
  have hq := invPerm_perm p _ hp
  have hqlen : (invPerm p).length = t.shape.length := by simp [invPerm, hlen]
  refine ⟨?_, ?_⟩
  · simp only [T.permute]
    rw [invPerm_undoes p _ hp (fun i => t.shape.getD i 0) 0]
    exact range_map_getD' t.shape
  · intro c hc
    have hcl : c.length = t.shape.length := by
      have := InB.length_eq hc
      simp only [T.permute, List.length_map] at this
      rw [this, hqlen]
    simp only [T.permute]
    congr 1
    -- permSrc p (permSrc (invPerm p) c) = c
    unfold permSrc
    rw [hlen, hqlen]
    apply List.ext_getElem?; intro j
    by_cases hj : j < t.shape.length
    · have hjp : j ∈ p := (perm_range_mem hp j).2 hj
      have hidx : p.idxOf j < p.length := List.idxOf_lt_length_of_mem hjp
      -- q[j] = p.idxOf j, hence q.idxOf (p.idxOf j) = j (q has no duplicates)
      have hqj : (invPerm p)[j]'(by rw [hqlen]; exact hj) = p.idxOf j := by simp [invPerm]
      have hqnd : (invPerm p).Nodup := hq.nodup_iff.2 List.nodup_range
      have hback : (invPerm p).idxOf (p.idxOf j) = j := by
        rw [← hqj]; exact hqnd.idxOf_getElem j _
      have hlt2 : p.idxOf j < t.shape.length := by rw [← hlen]; exact hidx
      simp only [List.getElem?_map, List.getElem?_range hj, Option.map_some, List.getD_eq_getElem?_getD,
        List.getElem?_range hlt2, hback]
      rw [List.getElem?_eq_getElem (by rw [hcl]; exact hj)]; rfl
    · have h1 : c[j]? = none := by rw [List.getElem?_eq_none_iff]; omega
      simp only [List.getElem?_map, h1]
      have : (List.range t.shape.length)[j]? = none := by rw [List.getElem?_eq_none_iff]; simp; omega
      simp [this]

/-- values: viewing back onto the original shape gives the tensor back -/
theorem reshape_reshape_values (t : T α) (s : Shape) (hprod : prod s = prod t.shape) :
    (t.reshape s).reshape t.shape ≈ₜ t := by
  refine ⟨rfl, ?_⟩
  intro c hc
  have hc' : InB c t.shape := hc
  simp only [T.reshape]
  have hlt : ravel c t.shape < prod s := by rw [hprod]; exact ravel_lt hc'
  rw [ravel_unravel s _ hlt, unravel_ravel hc']

/-- values: `unflatten(a, shape[a : b+1])` after `flatten(a, b)` gives the tensor back -/
theorem unflatten_flatten_values (t : T α) (a b : Nat) (hab : a ≤ b) (hb : b < t.rank) :
    (t.flatten a b).unflatten a ((t.shape.drop a).take (b + 1 - a)) ≈ₜ t := by
  unfold T.rank at hb
  have hk : ((t.shape.drop a).take (b + 1 - a)).length = b + 1 - a := by simp; omega
  have hshape : (t.shape.take a ++ [prod ((t.shape.drop a).take (b + 1 - a))] ++ t.shape.drop (b + 1)).take a
      ++ (t.shape.drop a).take (b + 1 - a)
      ++ (t.shape.take a ++ [prod ((t.shape.drop a).take (b + 1 - a))] ++ t.shape.drop (b + 1)).drop (a + 1) = t.shape := by
    have hta : (t.shape.take a).length = a := by simp; omega
    have e1 : (t.shape.take a ++ [prod ((t.shape.drop a).take (b + 1 - a))] ++ t.shape.drop (b + 1)).take a = t.shape.take a := by
      rw [List.append_assoc]; exact List.take_left' hta
    have e2 : (t.shape.take a ++ [prod ((t.shape.drop a).take (b + 1 - a))] ++ t.shape.drop (b + 1)).drop (a + 1) = t.shape.drop (b + 1) :=
      List.drop_left' (by simp [hta])
    rw [e1, e2]
    apply List.ext_getElem?; intro k
    simp only [List.getElem?_append, List.getElem?_take, List.getElem?_drop, List.length_append, List.length_take, List.length_drop]
    grind
  refine ⟨?_, ?_⟩
  · simp only [T.unflatten, T.flatten]; exact hshape
  · intro c hc
    have hc' : InB c t.shape := by
      simp only [T.unflatten, T.flatten] at hc; rw [hshape] at hc; exact hc
    have hcl : c.length = t.shape.length := InB.length_eq hc'
    simp only [T.unflatten, T.flatten, hk]
    congr 1
    -- the coordinate goes through ravel then unravel of the flattened block
    have hta : (c.take a).length = a := by simp; omega
    have h1 : (c.take a ++ [ravel ((c.drop a).take (b + 1 - a)) ((t.shape.drop a).take (b + 1 - a))] ++ c.drop (a + (b + 1 - a))).take a = c.take a := by
      rw [List.append_assoc]; exact List.take_left' hta
    have h2 : (c.take a ++ [ravel ((c.drop a).take (b + 1 - a)) ((t.shape.drop a).take (b + 1 - a))] ++ c.drop (a + (b + 1 - a))).getD a 0
        = ravel ((c.drop a).take (b + 1 - a)) ((t.shape.drop a).take (b + 1 - a)) := by
      simp [List.getD_eq_getElem?_getD, List.getElem?_append, hta]
    have h3 : (c.take a ++ [ravel ((c.drop a).take (b + 1 - a)) ((t.shape.drop a).take (b + 1 - a))] ++ c.drop (a + (b + 1 - a))).drop (a + 1) = c.drop (b + 1) := by
      have : a + (b + 1 - a) = b + 1 := by omega
      rw [this]
      exact List.drop_left' (by simp [hta])
    rw [h1, h2, h3, unravel_ravel (InB_drop_take a (b + 1 - a) hc')]
    apply List.ext_getElem?; intro k
    simp only [List.getElem?_append, List.getElem?_take, List.getElem?_drop, List.length_append, List.length_take, List.length_drop]
    grind

/-! ## non-vacuity -/

/-! ## the whole block: `__exit__` never raises for a call that was accepted, and a block that adds no key leaves the original's metadata as it was -/

/-- the WHOLE block, for every spelling the binder accepts (positional / keyword / mixed, negative dims), every rank and every edit list that
is itself accepted: `with td.transpose(...) as y: <edits>` never raises at exit, and with value-only edits the original's metadata is unchanged.
(glues `transpose_reverse_reads_every_spelling`, the binder on the call `_reverse_transpose` builds, `transpose_inverse_shape` and the write-back) -/
theorem transpose_block_never_raises (c : Call) (edits : List Edit) (s : St) (y : Yielded) (y' : St)
    (hf : fwd "transpose" c s = .ok y) (he : applyEdits y.st edits = .ok y') :
    (∃ r, withBlock "transpose" c edits s = .ok r) ∧
    ((∀ e ∈ edits, e = Edit.value) → withBlock "transpose" c edits s = .ok s) := by
  obtain ⟨f, hop, hap⟩ := fwd_split _ _ _ _ hf
  obtain ⟨d0, d1, rfl⟩ := toOp_transpose_shape c f hop
  obtain ⟨hres, _⟩ := applyFwd_shape_res _ s y hap
  refine block_total_of_inverse "transpose" c edits s y y' _ (.transpose d0 d1) "transpose" ⟨[.int d0, .int d1], []⟩
    (by simp) hop hap he (fun out _ => transpose_reverse_reads_every_spelling c d0 d1 y' out hop)
    (by decide) (toOp_transpose_pos d0 d1) (fun nm2 => ?_) rfl
  exact transpose_inverse_shape d0 d1 s.bs y.st.bs s.names nm2 hres

/-- same for `unsqueeze` (inverse `squeeze(d)` with the same, possibly negative, `d`) -/
theorem unsqueeze_block_never_raises (c : Call) (edits : List Edit) (s : St) (y : Yielded) (y' : St)
    (hf : fwd "unsqueeze" c s = .ok y) (he : applyEdits y.st edits = .ok y') :
    (∃ r, withBlock "unsqueeze" c edits s = .ok r) ∧
    ((∀ e ∈ edits, e = Edit.value) → withBlock "unsqueeze" c edits s = .ok s) := by
  obtain ⟨f, hop, hap⟩ := fwd_split _ _ _ _ hf
  have hsh : ∃ d, f = .shape (.unsqueeze d) := by
    simp only [toOp, bind, Except.bind] at hop
    repeat' split at hop
    all_goals first | (cases hop; done) | (simp only [pure, Except.pure, Except.ok.injEq] at hop; exact ⟨_, hop.symm⟩)
  obtain ⟨d, rfl⟩ := hsh
  obtain ⟨hres, _⟩ := applyFwd_shape_res _ s y hap
  refine block_total_of_inverse "unsqueeze" c edits s y y' _ (.squeeze (some d)) "squeeze" ⟨[.int d], []⟩
    (by simp) hop hap he (fun out _ => unsqueeze_reverse_reads_every_spelling c d y' out hop)
    (by decide) rfl (fun nm2 => ?_) rfl
  exact unsqueeze_inverse_shape d s.bs y.st.bs s.names nm2 hres

/-- same for `squeeze(d)`: an effective squeeze is undone by `unsqueeze(d)`; a no-op squeeze yielded the original itself and exit returns it
(fix c836249). (`squeeze()` without a dim is rejected by `_reverse_squeeze` by design and is outside this statement.) -/
theorem squeeze_block_never_raises (c : Call) (edits : List Edit) (s : St) (y : Yielded) (y' : St) (d : Int)
    (hop : toOp "squeeze" c = .ok (.shape (.squeeze (some d))))
    (hf : fwd "squeeze" c s = .ok y) (he : applyEdits y.st edits = .ok y') :
    (∃ r, withBlock "squeeze" c edits s = .ok r) ∧
    ((∀ e ∈ edits, e = Edit.value) → withBlock "squeeze" c edits s = .ok s) := by
  obtain ⟨f, hop', hap⟩ := fwd_split _ _ _ _ hf
  rw [hop] at hop'
  simp only [Except.ok.injEq] at hop'
  subst hop'
  obtain ⟨hres, hpr, hrec, hself, _⟩ := applyFwd_shape_res _ s y hap
  simp only [opMeta] at hres
  by_cases hs : y.isSelf = true
  · -- a no-op squeeze returned the original itself: `if out is self: return self`
    have hw : withBlock "squeeze" c edits s = .ok y' := by
      unfold withBlock
      simp only [fwd, hop, hap, he, bind, Except.bind, hrec]
      unfold exitBlock
      simp only [not_true_eq_false, if_false, squeeze_reverse_reads_every_spelling c d y' _ hop, bind, Except.bind, hs,
        and_self, if_true, pure, Except.pure]
    refine ⟨⟨_, hw⟩, fun hv => ?_⟩
    have := applyEdits_values edits y.st hv
    rw [this] at he
    rw [hw, ← Except.ok.inj he, hself hs]
  · -- an effective squeeze: the dim had size 1
    have hres' := hres
    rw [squeezeMeta_shape] at hres'
    rcases hd : normDim s.bs.length d with _ | i
    · simp [hd] at hres'
    have h1 : s.bs.getD i 0 = 1 := by
      -- otherwise `_squeeze` returns `self`
      unfold applyFwd at hap
      simp only [opMeta, squeezeMeta, maybeCorrectNegDim, bind, Except.bind, pure, Except.pure] at hap
      obtain ⟨hdi, hi⟩ := normDim_some hd
      have hnn : ¬ ((i : Int) < 0 ∨ (i : Int) ≥ s.bs.length) := by omega
      by_cases h1 : s.bs.getD i 0 = 1
      · exact h1
      · simp only [hdi, hnn, if_false, Int.toNat_natCast] at hap
        rw [if_pos (show s.bs.getD i 0 ≠ 1 from h1)] at hap
        simp only [Except.ok.injEq] at hap
        rw [← hap] at hs
        exact absurd rfl hs
    obtain ⟨hfwd, hinvs⟩ := squeeze_inverse_shape d s.bs s.names y'.names i hd h1
    have hyb : y.st.bs = s.bs.eraseIdx i := by
      rw [hfwd] at hres; simpa using hres.symm
    refine block_total_of_inverse "squeeze" c edits s y y' _ (.unsqueeze d) "unsqueeze" ⟨[.int d], []⟩
      (by simp [hs]) hop hap he (fun out _ => squeeze_reverse_reads_every_spelling c d y' out hop)
      (by decide) rfl (fun nm2 => ?_) rfl
    rw [hyb]
    exact (squeeze_inverse_shape d s.bs s.names nm2 i hd h1).2

/-- same for `flatten` (inverse `unflatten(start, out.batch_size[start:end+1])`), any spelling incl. the defaults and negative dims -/
theorem flatten_block_never_raises (c : Call) (edits : List Edit) (s : St) (y : Yielded) (y' : St)
    (hf : fwd "flatten" c s = .ok y) (he : applyEdits y.st edits = .ok y') :
    (∃ r, withBlock "flatten" c edits s = .ok r) ∧
    ((∀ e ∈ edits, e = Edit.value) → withBlock "flatten" c edits s = .ok s) := by
  obtain ⟨f, hop, hap⟩ := fwd_split _ _ _ _ hf
  have hsh : ∃ a b, f = .shape (.flatten a b) := by
    simp only [toOp, bind, Except.bind] at hop
    repeat' split at hop
    all_goals first | (cases hop; done) | (simp only [pure, Except.pure, Except.ok.injEq] at hop; exact ⟨_, _, hop.symm⟩)
  obtain ⟨a, b, rfl⟩ := hsh
  obtain ⟨hres, _⟩ := applyFwd_shape_res _ s y hap
  simp only [opMeta] at hres
  have hres' := hres
  rw [flattenMeta_shape] at hres'
  rcases ha : normDim s.bs.length a with _ | i
  · simp [ha] at hres'
  rcases hb : normDim s.bs.length b with _ | j
  · simp [ha, hb] at hres'
  simp only [ha, hb] at hres'
  have hij : i < j := by
    by_cases h : i < j
    · exact h
    · simp [h] at hres'
  obtain ⟨hai, hi⟩ := normDim_some ha
  obtain ⟨hbj, hj⟩ := normDim_some hb
  have hsl : pySlice s.bs (i : Int) (j : Int) = (s.bs.drop i).take (j + 1 - i) := by
    unfold pySlice
    have h1 : ¬ ((i : Int) < 0 ∨ (j : Int) + 1 ≤ (i : Int)) := by omega
    rw [if_neg h1]
    have h2 : ((j : Int) + 1 - (i : Int)).toNat = j + 1 - i := by omega
    simp [h2]
  have hne : (s.bs.drop i).take (j + 1 - i) ≠ [] := by
    intro h0; have := congrArg List.length h0; simp at this; omega
  refine block_total_of_inverse "flatten" c edits s y y' _
    (.unflatten (i : Int) (natsToInts ((s.bs.drop i).take (j + 1 - i)))) "unflatten"
    ⟨[.int (i : Int), .ints (natsToInts ((s.bs.drop i).take (j + 1 - i)))], []⟩
    (by simp) hop hap he (fun out ho => ?_) (by decide) rfl (fun nm2 => ?_) ?_
  · rw [flatten_reverse_reads_every_spelling c a b y' out hop, ho]
    simp only [normNeg, hai, hbj, hsl, natsToInts]
  · exact flatten_inverse_shape a b s.bs y.st.bs s.names nm2 i j ha hb hres
  · cases hl : (s.bs.drop i).take (j + 1 - i) with
    | nil => exact absurd hl hne
    | cons x xs => simp [emptyUnflatten, natsToInts]

/-- same for a valid `unflatten(d, sizes)` with resolved sizes multiplying to the dim (what the leaf calls enforce): two or more sizes → `flatten`
back; exactly one size → the yielded object is written back as it is (fix 24799c4) -/
theorem unflatten_block_never_raises (c : Call) (edits : List Edit) (s : St) (y : Yielded) (y' : St)
    (d : Int) (sz : Shape) (i : Nat)
    (hop : toOp "unflatten" c = .ok (.shape (.unflatten d (natsToInts sz))))
    (hd : normDim s.bs.length d = some i) (hk : 1 ≤ sz.length) (hprod : prod sz = s.bs.getD i 0)
    (hf : fwd "unflatten" c s = .ok y) (he : applyEdits y.st edits = .ok y') :
    (∃ r, withBlock "unflatten" c edits s = .ok r) ∧
    ((∀ e ∈ edits, e = Edit.value) → withBlock "unflatten" c edits s = .ok s) := by
  obtain ⟨f, hop', hap⟩ := fwd_split _ _ _ _ hf
  rw [hop] at hop'
  simp only [Except.ok.injEq] at hop'
  subst hop'
  obtain ⟨hres, hpr, hrec, hself, _, hkeys⟩ := applyFwd_shape_res _ s y hap
  simp only [opMeta] at hres
  obtain ⟨hdi, hi⟩ := normDim_some hd
  by_cases h1 : sz.length = 1
  · -- a single size: `_reverse_unflatten` writes the yielded object back as it is
    obtain ⟨hbs', _, _⟩ := applyEdits_frame edits y.st y' he
    have hyb : y.st.bs = s.bs := by
      rw [unflattenMeta_shape, hd] at hres
      simp only [Option.some.injEq] at hres
      rw [← hres]
      match sz, h1 with
      | [k], _ =>
        simp only [prod, Nat.mul_one] at hprod
        rw [hprod]; exact take_getD_drop s.bs i hi
    have hout : (if y.isSelf = true then y' else s).bs = s.bs := by
      by_cases hs : y.isSelf = true
      · simp only [hs, if_true, hbs', hself hs]
      · simp only [hs]; rfl
    have hw : withBlock "unflatten" c edits s = writeBack (if y.isSelf = true then y' else s) y' := by
      unfold withBlock
      simp only [fwd, hop, hap, he, bind, Except.bind, hrec]
      unfold exitBlock
      have hr := unflatten_reverse_reads_every_spelling c d (natsToInts sz) y' (if y.isSelf = true then y' else s) hop
      rw [natsToInts_length, if_pos h1] at hr
      simp only [not_true_eq_false, if_false, hr, bind, Except.bind, show ("unflatten" : String) ≠ "squeeze" by decide, false_and]
    refine ⟨by rw [hw]; exact writeBack_ok _ _ (by rw [hbs', hyb, hout]), fun hv => ?_⟩
    have hy' : y' = y.st := by
      have := applyEdits_values edits y.st hv
      rw [this] at he; exact (Except.ok.inj he).symm
    have hos : (if y.isSelf = true then y' else s) = s := by
      by_cases hs : y.isSelf = true
      · simp only [hs, if_true, hy', hself hs]
      · simp only [hs]; rfl
    rw [hw, hos]
    exact writeBack_same_keys s y' (by rw [hbs', hyb]) (by rw [hy', hkeys])
  · have hk2 : 2 ≤ sz.length := by omega
    refine block_total_of_inverse "unflatten" c edits s y y' _
      (.flatten (i : Int) ((i : Int) + sz.length - 1)) "flatten"
      ⟨[.int (i : Int), .int ((i : Int) + sz.length - 1)], []⟩
      (by simp) hop hap he (fun out ho => ?_) (by decide) rfl (fun nm2 => ?_) rfl
    · rw [unflatten_reverse_reads_every_spelling c d (natsToInts sz) y' out hop, ho, natsToInts_length, if_neg h1]
      simp only [normNeg, hdi]
    · exact unflatten_inverse_shape d sz s.bs y.st.bs s.names nm2 i hd hk2 hprod hres

/-- same for `view` (inverse `view(out.batch_size)`), any spelling incl. `size=` and `-1` entries -/
theorem view_block_never_raises (c : Call) (edits : List Edit) (s : St) (y : Yielded) (y' : St)
    (hf : fwd "view" c s = .ok y) (he : applyEdits y.st edits = .ok y') :
    (∃ r, withBlock "view" c edits s = .ok r) ∧
    ((∀ e ∈ edits, e = Edit.value) → withBlock "view" c edits s = .ok s) := by
  obtain ⟨f, hop, hap⟩ := fwd_split _ _ _ _ hf
  obtain ⟨l, rfl⟩ := toOp_view_shape c f hop
  refine block_total_of_inverse "view" c edits s y y' _ (.view (natsToInts s.bs)) "view" ⟨[.ints (natsToInts s.bs)], []⟩
    (by simp) hop hap he (fun out ho => by simp [reverse, ho, natsToInts])
    (by decide) rfl (fun nm2 => ?_) rfl
  exact viewMeta_shape true s.bs y.st.bs nm2

/-- same for `permute`, every spelling (varargs / one list / `dims=`), negative dims: the yielded object is permuted back by `argsort` -/
theorem permute_block_never_raises (c : Call) (edits : List Edit) (s : St) (y : Yielded) (y' : St)
    (hf : fwd "permute" c s = .ok y) (he : applyEdits y.st edits = .ok y') :
    (∃ r, withBlock "permute" c edits s = .ok r) ∧
    ((∀ e ∈ edits, e = Edit.value) → withBlock "permute" c edits s = .ok s) := by
  obtain ⟨f, hop, hap⟩ := fwd_split _ _ _ _ hf
  have hsh : ∃ dims, f = .shape (.permute dims) := by
    simp only [toOp, bind, Except.bind] at hop
    repeat' split at hop
    all_goals first | (cases hop; done) | (simp only [pure, Except.pure, Except.ok.injEq] at hop; exact ⟨_, hop.symm⟩)
  obtain ⟨dims, rfl⟩ := hsh
  obtain ⟨hres, _⟩ := applyFwd_shape_res _ s y hap
  simp only [opMeta] at hres
  obtain ⟨p, hdl, hp, hyb⟩ := permuteMeta_ok_perm dims s.bs y.st.bs s.names hres
  obtain ⟨hbs', _, _⟩ := applyEdits_frame edits y.st y' he
  have hlen : y'.bs.length = s.bs.length := by
    rw [hbs', hyb, List.length_map]; simpa using hp.length_eq
  refine block_total_of_inverse "permute" c edits s y y' _ (.permute (argsort (natsToInts p))) "permute"
    ⟨[.ints (argsort (natsToInts p))], []⟩
    (by simp) hop hap he (fun out _ => ?_) (by decide) rfl (fun nm2 => ?_) rfl
  · rw [permute_reverse_reads_every_spelling c dims y' out hop, hlen, hdl]
  · simp only [opMeta]
    rw [hyb]
    exact permute_inverse_shape p s.bs nm2 hp

/-- `with td.flatten_keys(sep) as y:` with value-only edits leaves the key structure (and everything else) of the original unchanged, for every
spelling, when no key component contains the one-character separator -/
theorem flatten_keys_block_identity (c : Call) (ch : Char) (edits : List Edit) (s : St) (y : Yielded)
    (hop : toOp "flatten_keys" c = .ok (.flattenKeys [ch]))
    (hns : NoSepInKeys ch s.keys) (hv : validKeys s.keys = true)
    (hf : fwd "flatten_keys" c s = .ok y) (hev : ∀ e ∈ edits, e = Edit.value) :
    withBlock "flatten_keys" c edits s = .ok s := by
  obtain ⟨f, hop', hap⟩ := fwd_split _ _ _ _ hf
  rw [hop] at hop'
  simp only [Except.ok.injEq] at hop'
  subst hop'
  unfold applyFwd at hap
  simp only [] at hap
  split at hap
  · cases hap
  · rename_i flat hfl
    simp only [Except.ok.injEq] at hap
    subst hap
    have hinv := flatten_keys_inverse ch s.keys flat hns hv hfl
    unfold withBlock
    simp only [fwd, hop, applyFwd, hfl, bind, Except.bind, applyEdits_values edits _ hev]
    unfold exitBlock
    simp only [not_true_eq_false, if_false, flatten_keys_reverse_reads_every_spelling c [ch] _ _ hop, bind, Except.bind,
      show ("flatten_keys" : String) ≠ "squeeze" by decide, false_and, Bool.false_eq_true]
    have hto : toOp "unflatten_keys" ⟨[.str [ch]], []⟩ = .ok (.unflattenKeys [ch]) := rfl
    simp only [fwd, hto, applyFwd, hinv, bind, Except.bind]
    exact writeBack_same_keys s _ rfl rfl

/-- `with td.unflatten_keys(sep) as y:` with value-only edits leaves a flat original unchanged -/
theorem unflatten_keys_block_identity (c : Call) (ch : Char) (edits : List Edit) (s : St) (y : Yielded)
    (hop : toOp "unflatten_keys" c = .ok (.unflattenKeys [ch]))
    (hflat : FlatKeys s.keys) (hnd : s.keys.eraseDups.length = s.keys.length)
    (hf : fwd "unflatten_keys" c s = .ok y) (hev : ∀ e ∈ edits, e = Edit.value) :
    withBlock "unflatten_keys" c edits s = .ok s := by
  obtain ⟨f, hop', hap⟩ := fwd_split _ _ _ _ hf
  rw [hop] at hop'
  simp only [Except.ok.injEq] at hop'
  subst hop'
  unfold applyFwd at hap
  simp only [] at hap
  split at hap
  · cases hap
  · rename_i nested hfl
    simp only [Except.ok.injEq] at hap
    subst hap
    have hinv := unflatten_keys_inverse ch s.keys nested hflat hnd hfl
    unfold withBlock
    simp only [fwd, hop, applyFwd, hfl, bind, Except.bind, applyEdits_values edits _ hev]
    unfold exitBlock
    simp only [not_true_eq_false, if_false, unflatten_keys_reverse_reads_every_spelling c [ch] _ _ hop, bind, Except.bind,
      show ("unflatten_keys" : String) ≠ "squeeze" by decide, false_and, Bool.false_eq_true]
    have hto : toOp "flatten_keys" ⟨[.str [ch]], []⟩ = .ok (.flattenKeys [ch]) := rfl
    simp only [fwd, hto, applyFwd, hinv, bind, Except.bind]
    exact writeBack_same_keys s _ rfl rfl

/-! ## bindings: an unlocked original is REBOUND to the entries of the inverse image, a locked one is written in place -/

/-- a LOCKED original is written in place (`update_`): every path stays bound to the tensor it was bound to -/
theorem writeBackB_locked_keeps_bindings (out inv : Binds) : writeBackB true out inv = out := rfl

/-- an UNLOCKED original is written with `update(…, inplace=False)`: afterwards every path of the inverse image is bound to the
tensor the inverse image holds there (not to the tensor the original held before, with the data copied into it) — in particular two
entries exchanged inside the block are exchanged in the original, and an entry rebound to another dtype / shape arrives as it is -/
theorem writeBackB_unlocked_rebinds : ∀ (inv out : Binds), inv.Pairwise (fun p q => Unrelated p.1 q.1) →
    ∀ p ∈ inv, lookupB (writeBackB false out inv) p.1 = some p.2
  | [], _, _, p, hp => by simp at hp
  | q :: rest, out, hpw, p, hp => by
    have hq := List.pairwise_cons.1 hpw
    simp only [writeBackB, Bool.false_eq_true, if_false, List.foldl_cons]
    rcases List.mem_cons.1 hp with rfl | hr
    · rw [foldl_bindPath_other rest _ p.1 (fun r hr => hq.1 r hr)]
      exact bindPath_lookup_self out p.1 p.2
    · have := writeBackB_unlocked_rebinds rest (bindPath out q) hq.2 p hr
      simpa [writeBackB] using this

/-- … and every path of the original that is unrelated to the paths of the inverse image keeps its tensor -/
theorem writeBackB_unlocked_frame (out inv : Binds) (k : Key) (h : ∀ p ∈ inv, Unrelated k p.1) :
    lookupB (writeBackB false out inv) k = lookupB out k := by
  simp only [writeBackB, Bool.false_eq_true, if_false]
  exact foldl_bindPath_other inv out k h

/-- forgetting the tensors, the write-back on bindings is the write-back on key sets (`writeBack`) -/
theorem writeBackB_keys : ∀ (inv out : Binds),
    (writeBackB false out inv).map (·.1) = (inv.map (·.1)).foldl insertPath (out.map (·.1))
  | [], _ => rfl
  | p :: rest, out => by
    have := writeBackB_keys rest (bindPath out p)
    simp only [writeBackB, Bool.false_eq_true, if_false, List.foldl_cons, List.map_cons] at this ⊢
    rw [this, bindPath_keys]

/-- the whole exit of `with td.flatten_keys(sep) as flat` on bindings, unlocked original: whatever tensor the (modified) flat object
holds under `sep.join(path)` is what the original holds under `path` afterwards, for every spelling of the separator -/
theorem flatten_keys_exit_rebinds (c : Call) (ch : Char) (out ys : Binds)
    (hop : toOp "flatten_keys" c = .ok (.flattenKeys [ch]))
    (hns : NoSepInKeys ch (ys.map (·.1)))
    (hpw : ys.Pairwise (fun p q => Unrelated p.1 q.1)) :
    ∃ r, exitBinds "flatten_keys" c false out (ys.map fun p => (flattenKey [ch] p.1, p.2)) = .ok r ∧
      ∀ p ∈ ys, lookupB r p.1 = some p.2 := by
  have hback : (ys.map fun p => (flattenKey [ch] p.1, p.2)).map (fun p => (unflattenKey [ch] p.1, p.2)) = ys := by
    rw [List.map_map]
    conv => rhs; rw [← List.map_id ys]
    apply List.map_congr_left
    intro p hp
    have hk := hns p.1 (List.mem_map.2 ⟨p, hp, rfl⟩)
    simp only [Function.comp, flattenKey, unflattenKey, splitSep, id]
    rw [splitC_joinSep ch p.1 hk.1 hk.2]
  refine ⟨writeBackB false out ys, ?_, writeBackB_unlocked_rebinds ys out hpw⟩
  simp only [exitBinds, invBinds, hop, bind, Except.bind, pure, Except.pure, hback]

/-- the exit of a SHAPE context manager on bindings (any op, any spelling the binder accepts): the paths are those of the yielded object;
an unlocked original ends up naming, under every path, the tensor the (modified) yielded object names there — a locked one keeps its own -/
theorem shape_exit_rebinds (name : String) (c : Call) (op : Op) (out ys : Binds)
    (hop : toOp name c = .ok (.shape op)) (hpw : ys.Pairwise (fun p q => Unrelated p.1 q.1)) :
    (∃ r, exitBinds name c false out ys = .ok r ∧ ∀ p ∈ ys, lookupB r p.1 = some p.2) ∧
    exitBinds name c true out ys = .ok out := by
  constructor
  · refine ⟨writeBackB false out ys, ?_, writeBackB_unlocked_rebinds ys out hpw⟩
    simp only [exitBinds, invBinds, hop, bind, Except.bind, pure, Except.pure]
  · simp only [exitBinds, invBinds, hop, bind, Except.bind, pure, Except.pure, writeBackB, if_true]

/-! ## the original is a temporary -/

/-- a context-managed call on a TEMPORARY original whose method returned a new object never raises at exit, whatever the op, the
spelling and the edits, and the yielded object is left exactly as the block left it (base.py:__exit__ after fix ab20bfa) -/
theorem temp_block_returns_yielded (name : String) (c : Call) (edits : List Edit) (s : St) (y : Yielded) (y' : St)
    (hf : fwd name c s = .ok y) (he : applyEdits y.st edits = .ok y') (hns : y.isSelf = false) :
    withTempBlock name c edits s = .ok y' := by
  simp [withTempBlock, hf, he, hns, bind, Except.bind, pure, Except.pure]

/-- … and when the method returned the original itself, the yielded object keeps it alive: the block is the ordinary block -/
theorem temp_block_self_is_block (name : String) (c : Call) (edits : List Edit) (s : St) (y : Yielded)
    (hf : fwd name c s = .ok y) (hs : y.isSelf = true) :
    withTempBlock name c edits s = withBlock name c edits s := by
  simp only [withTempBlock, withBlock, hf, bind, Except.bind, hs, if_true]

/-! ### several objects: one `_last_op_queue` per object (Model/C17World.lean) -/

/-- the heap model agrees with the one-block model: the program `with x0.<name>(<call>) as x1: <edits>` run in a world that holds
only the original leaves it as `withBlock` says (same result, same exception) -/
theorem world_block_is_withBlock (name : String) (c : Call) (es : List Edit) (orig : St) :
    (runSteps (World.init [orig]) (blockProg name c es)).map (·.stOf 0) = withBlock name c es orig := by
  simp only [blockProg, runSteps, runStep, wCall, withBlock, World.init, World.var, wEnter, wEdits, wExit, wExitObj, World.set,
    List.range, List.length, List.getD]
  cases h : fwd name c orig with
  | error e => simp [h, Obj.fresh, bind, Except.bind, Except.map, List.range, List.range.loop]
  | ok y =>
    obtain ⟨st, isSelf, recorded⟩ := y
    cases isSelf <;> cases recorded <;>
    · simp [h, Obj.fresh, bind, Except.bind, Except.map, List.range, List.range.loop, pure, Except.pure, wExitWith, World.stOf, World.var, World.set,
        exitBlock_unrecorded]
      cases h2 : applyEdits st es with
      | error e => simp
      | ok y' =>
        simp [wExitWith, World.stOf, World.var, World.set, exitBlock_unrecorded]
        try (cases h3 : exitBlock name c true _ y' _ <;> simp [World.stOf, World.var, World.set])

/-- … and with the nested-block model: the inner block entered on the YIELDED object, closed first -/
theorem world_nested_is_withNested (n1 : String) (c1 : Call) (n2 : String) (c2 : Call) (e2 e1 : List Edit) (orig : St) :
    (runSteps (World.init [orig]) (nestedProg n1 c1 n2 c2 e2 e1)).map (·.stOf 0) = withNested n1 c1 n2 c2 e2 e1 orig := by
  simp only [withNested, withBlock]
  cases h1 : fwd n1 c1 orig with
  | error e => simp [nestedProg, runSteps, runStep, wCall, World.init, World.var, Obj.fresh, bind, Except.bind, Except.map, h1, List.range, List.range.loop]
  | ok y1 =>
  obtain ⟨st1, self1, rec1⟩ := y1
  cases h2 : fwd n2 c2 st1 with
  | error e =>
    cases self1 <;>
    simp [nestedProg, runSteps, runStep, wCall, wEnter, World.init, World.var, World.set, Obj.fresh, bind, Except.bind, Except.map, pure, Except.pure, h1, h2, List.range, List.range.loop]
  | ok y2 =>
  obtain ⟨st2, self2, rec2⟩ := y2
  cases g2 : applyEdits st2 e2 with
  | error e =>
    cases self1 <;> cases self2 <;>
    simp [nestedProg, runSteps, runStep, wCall, wEnter, wEdits, World.init, World.var, World.set, Obj.fresh, bind, Except.bind, Except.map, pure, Except.pure, h1, h2, g2, List.range, List.range.loop]
  | ok y2' =>
  obtain ⟨r2, k2⟩ : ∃ r, exitBlock n2 c2 rec2 self2 y2' (if self2 = true then y2' else st1) = r := ⟨_, rfl⟩
  cases r2 with
  | error e =>
    cases self1 <;> cases self2 <;> cases rec2 <;>
    simp only [Bool.false_eq_true, ↓reduceIte] at k2 <;>
    simp [nestedProg, runSteps, runStep, wCall, wEnter, wEdits, wExit, wExitObj, wExitWith, World.init, World.var, World.set, Obj.fresh, bind, Except.bind, Except.map, pure, Except.pure, h1, h2, g2, k2, exitBlock_unrecorded, List.range, List.range.loop] <;>
    simp_all [exitBlock_unrecorded]
  | ok o2 =>
  cases g1 : applyEdits o2 e1 with
  | error e =>
    cases self1 <;> cases self2 <;> cases rec2 <;>
    simp only [Bool.false_eq_true, ↓reduceIte] at k2 <;>
    simp [nestedProg, runSteps, runStep, wCall, wEnter, wEdits, wExit, wExitObj, wExitWith, World.init, World.var, World.set, Obj.fresh, bind, Except.bind, Except.map, pure, Except.pure, h1, h2, g2, k2, exitBlock_unrecorded, List.range, List.range.loop] <;>
    simp_all [exitBlock_unrecorded]
  | ok y1' =>
  obtain ⟨r1, k1⟩ : ∃ r, exitBlock n1 c1 rec1 self1 y1' (if self1 = true then y1' else orig) = r := ⟨_, rfl⟩
  cases self1 <;> cases self2 <;> cases rec1 <;> cases rec2 <;>
    simp only [Bool.false_eq_true, ↓reduceIte] at k1 k2 <;>
    simp [nestedProg, runSteps, runStep, wCall, wEnter, wEdits, wExit, wExitObj, wExitWith, World.init, World.var, World.set, World.stOf, Obj.fresh, bind, Except.bind, Except.map, pure, Except.pure, h1, h2, g2, k2, exitBlock_unrecorded, List.range, List.range.loop] <;>
    cases r1 <;> simp_all [exitBlock_unrecorded]

/-- … and with the sibling model: the inner block entered on the ORIGINAL again while the outer one is open -/
theorem world_sibling_is_withSibling (n1 : String) (c1 : Call) (n2 : String) (c2 : Call) (e2 e1 : List Edit) (orig : St) :
    (runSteps (World.init [orig]) (siblingProg n1 c1 n2 c2 e2 e1)).map (·.stOf 0) = withSibling n1 c1 n2 c2 e2 e1 orig := by
  simp only [withSibling, withBlock]
  cases h1 : fwd n1 c1 orig with
  | error e => simp [siblingProg, runSteps, runStep, wCall, World.init, World.var, Obj.fresh, bind, Except.bind, Except.map, h1, List.range, List.range.loop]
  | ok y1 =>
  obtain ⟨st1, self1, rec1⟩ := y1
  cases h2 : fwd n2 c2 (if self1 = true then st1 else orig) with
  | error e =>
    cases self1 <;>
    (try simp only [Bool.false_eq_true, ↓reduceIte] at *) <;>
    simp [siblingProg, runSteps, runStep, wCall, wEnter, World.init, World.var, World.set, Obj.fresh, bind, Except.bind, Except.map, pure, Except.pure, h1, h2, List.range, List.range.loop]
  | ok y2 =>
  obtain ⟨st2, self2, rec2⟩ := y2
  cases g2 : applyEdits st2 e2 with
  | error e =>
    cases self1 <;> cases self2 <;>
    (try simp only [Bool.false_eq_true, ↓reduceIte] at *) <;>
    simp [siblingProg, runSteps, runStep, wCall, wEnter, wEdits, World.init, World.var, World.set, Obj.fresh, bind, Except.bind, Except.map, pure, Except.pure, h1, h2, g2, List.range, List.range.loop]
  | ok y2' =>
  obtain ⟨r2, k2⟩ : ∃ r, exitBlock n2 c2 rec2 self2 y2' (if self2 = true then y2' else (if self1 = true then st1 else orig)) = r := ⟨_, rfl⟩
  cases r2 with
  | error e =>
    cases self1 <;> cases self2 <;> cases rec2 <;>
    (try simp only [Bool.false_eq_true, ↓reduceIte] at *) <;>
    simp [siblingProg, runSteps, runStep, wCall, wEnter, wEdits, wExit, wExitObj, wExitWith, World.init, World.var, World.set, Obj.fresh, bind, Except.bind, Except.map, pure, Except.pure, h1, h2, g2, k2, exitBlock_unrecorded, List.range, List.range.loop] <;>
    simp_all [exitBlock_unrecorded]
  | ok o2 =>
  cases g1 : applyEdits (if self1 = true then o2 else st1) e1 with
  | error e =>
    cases self1 <;> cases self2 <;> cases rec2 <;>
    (try simp only [Bool.false_eq_true, ↓reduceIte] at *) <;>
    simp [siblingProg, runSteps, runStep, wCall, wEnter, wEdits, wExit, wExitObj, wExitWith, World.init, World.var, World.set, Obj.fresh, bind, Except.bind, Except.map, pure, Except.pure, h1, h2, g2, k2, exitBlock_unrecorded, List.range, List.range.loop] <;>
    simp_all [exitBlock_unrecorded]
  | ok y1' =>
  obtain ⟨r1, k1⟩ : ∃ r, exitBlock n1 c1 rec1 self1 y1' (if self1 = true then y1' else o2) = r := ⟨_, rfl⟩
  cases self1 <;> cases self2 <;> cases rec1 <;> cases rec2 <;>
    (try simp only [Bool.false_eq_true, ↓reduceIte] at *) <;>
    simp [siblingProg, runSteps, runStep, wCall, wEnter, wEdits, wExit, wExitObj, wExitWith, World.init, World.var, World.set, World.stOf, Obj.fresh, bind, Except.bind, Except.map, pure, Except.pure, h1, h2, g2, k2, exitBlock_unrecorded, List.range, List.range.loop] <;>
    cases r1 <;> simp_all [exitBlock_unrecorded]

/-- … and two blocks in a row on the same original are the two one-block results composed -/
theorem world_sequential_is_two_blocks (n1 : String) (c1 : Call) (e1 : List Edit) (n2 : String) (c2 : Call) (e2 : List Edit) (orig : St) :
    (runSteps (World.init [orig]) (sequentialProg n1 c1 e1 n2 c2 e2)).map (·.stOf 0) =
      (withBlock n1 c1 e1 orig >>= fun o => withBlock n2 c2 e2 o) := by
  simp only [withBlock]
  cases h1 : fwd n1 c1 orig with
  | error e => simp [sequentialProg, runSteps, runStep, wCall, World.init, World.var, Obj.fresh, bind, Except.bind, Except.map, h1, List.range, List.range.loop]
  | ok y1 =>
  obtain ⟨st1, self1, rec1⟩ := y1
  cases g1 : applyEdits st1 e1 with
  | error e =>
    cases self1 <;>
    simp [sequentialProg, runSteps, runStep, wCall, wEnter, wEdits, World.init, World.var, World.set, Obj.fresh, bind, Except.bind, Except.map, pure, Except.pure, h1, g1, List.range, List.range.loop]
  | ok y1' =>
  obtain ⟨r1, k1⟩ : ∃ r, exitBlock n1 c1 rec1 self1 y1' (if self1 = true then y1' else orig) = r := ⟨_, rfl⟩
  cases r1 with
  | error e =>
    cases self1 <;> cases rec1 <;>
    (try simp only [Bool.false_eq_true, ↓reduceIte] at *) <;>
    simp [sequentialProg, runSteps, runStep, wCall, wEnter, wEdits, wExit, wExitObj, wExitWith, World.init, World.var, World.set, Obj.fresh, bind, Except.bind, Except.map, pure, Except.pure, h1, g1, k1, exitBlock_unrecorded, List.range, List.range.loop] <;>
    simp_all [exitBlock_unrecorded]
  | ok o1 =>
  cases h2 : fwd n2 c2 o1 with
  | error e =>
    cases self1 <;> cases rec1 <;>
    (try simp only [Bool.false_eq_true, ↓reduceIte] at *) <;>
    simp [sequentialProg, runSteps, runStep, wCall, wEnter, wEdits, wExit, wExitObj, wExitWith, World.init, World.var, World.set, Obj.fresh, bind, Except.bind, Except.map, pure, Except.pure, h1, g1, k1, exitBlock_unrecorded, List.range, List.range.loop] <;>
    simp_all [exitBlock_unrecorded]
  | ok y2 =>
  obtain ⟨st2, self2, rec2⟩ := y2
  cases g2 : applyEdits st2 e2 with
  | error e =>
    cases self1 <;> cases rec1 <;> cases self2 <;>
    (try simp only [Bool.false_eq_true, ↓reduceIte] at *) <;>
    simp [sequentialProg, runSteps, runStep, wCall, wEnter, wEdits, wExit, wExitObj, wExitWith, World.init, World.var, World.set, Obj.fresh, bind, Except.bind, Except.map, pure, Except.pure, h1, g1, k1, exitBlock_unrecorded, List.range, List.range.loop] <;>
    simp_all [exitBlock_unrecorded]
  | ok y2' =>
  obtain ⟨r2, k2⟩ : ∃ r, exitBlock n2 c2 rec2 self2 y2' (if self2 = true then y2' else o1) = r := ⟨_, rfl⟩
  cases self1 <;> cases rec1 <;> cases self2 <;> cases rec2 <;>
    (try simp only [Bool.false_eq_true, ↓reduceIte] at *) <;>
    simp [sequentialProg, runSteps, runStep, wCall, wEnter, wEdits, wExit, wExitObj, wExitWith, World.init, World.var, World.set, World.stOf, Obj.fresh, bind, Except.bind, Except.map, pure, Except.pure, h1, g1, k1, exitBlock_unrecorded, List.range, List.range.loop] <;>
    cases r2 <;> simp_all [exitBlock_unrecorded]

/-- a block left by an exception leaves no trace in the record queue: the original keeps what the forward call and the edits made of it
(nothing when the method returned a new object; the edited / locked `self` otherwise — no inverse runs), and a following block on the
same original behaves exactly as a block on that state -/
theorem aborted_block_then_block (n1 : String) (c1 : Call) (e1 : List Edit) (n2 : String) (c2 : Call) (e2 : List Edit) (orig : St) :
    (runSteps (World.init [orig]) (abortedThenProg n1 c1 e1 n2 c2 e2)).map (·.stOf 0) =
      (do let y ← fwd n1 c1 orig
          let y' ← applyEdits y.st e1
          withBlock n2 c2 e2 (if y.isSelf then y' else orig)) := by
  simp only [withBlock]
  cases h1 : fwd n1 c1 orig with
  | error e => simp [abortedThenProg, runSteps, runStep, wCall, World.init, World.var, Obj.fresh, bind, Except.bind, Except.map, h1, List.range, List.range.loop]
  | ok y1 =>
  obtain ⟨st1, self1, rec1⟩ := y1
  cases g1 : applyEdits st1 e1 with
  | error e =>
    cases self1 <;>
    simp [abortedThenProg, runSteps, runStep, wCall, wEnter, wEdits, World.init, World.var, World.set, Obj.fresh, bind, Except.bind, Except.map, pure, Except.pure, h1, g1, List.range, List.range.loop]
  | ok y1' =>
  cases h2 : fwd n2 c2 (if self1 = true then y1' else orig) with
  | error e =>
    cases self1 <;>
    (try simp only [Bool.false_eq_true, ↓reduceIte] at *) <;>
    simp [abortedThenProg, runSteps, runStep, wCall, wEnter, wEdits, wExitRaised, World.init, World.var, World.set, Obj.fresh, bind, Except.bind, Except.map, pure, Except.pure, h1, g1, h2, List.range, List.range.loop]
  | ok y2 =>
  obtain ⟨st2, self2, rec2⟩ := y2
  cases g2 : applyEdits st2 e2 with
  | error e =>
    cases self1 <;> cases self2 <;>
    (try simp only [Bool.false_eq_true, ↓reduceIte] at *) <;>
    simp [abortedThenProg, runSteps, runStep, wCall, wEnter, wEdits, wExitRaised, World.init, World.var, World.set, Obj.fresh, bind, Except.bind, Except.map, pure, Except.pure, h1, g1, h2, g2, List.range, List.range.loop]
  | ok y2' =>
  obtain ⟨r2, k2⟩ : ∃ r, exitBlock n2 c2 rec2 self2 y2' (if self2 = true then y2' else (if self1 = true then y1' else orig)) = r := ⟨_, rfl⟩
  cases self1 <;> cases self2 <;> cases rec2 <;>
    (try simp only [Bool.false_eq_true, ↓reduceIte] at *) <;>
    simp [abortedThenProg, runSteps, runStep, wCall, wEnter, wEdits, wExit, wExitObj, wExitWith, wExitRaised, World.init, World.var, World.set, World.stOf, Obj.fresh, bind, Except.bind, Except.map, pure, Except.pure, h1, g1, h2, g2, exitBlock_unrecorded, List.range, List.range.loop] <;>
    cases r2 <;> simp_all [exitBlock_unrecorded]

/-- FRAME: a normal exit of object `j` writes nothing outside its footprint (`j` and the object its top record points at) -/
theorem exit_writes_only_its_footprint (w w' : World) (j : Nat) (h : wExitObj w j = .ok w') :
    w'.next = w.next ∧ w'.vars = w.vars ∧ ∀ i, i ∉ footprint w j → w'.objs i = w.objs i := by
  unfold wExitObj at h
  cases hq : (w.objs j).queue with
  | nil => simp [hq] at h
  | cons r q =>
    rw [hq] at h
    cases r with
    | none =>
      simp [wExitWith] at h; subst h
      simp [World.set, footprint, hq]
      intro i hi; simp [hi]
    | some r =>
      simp only [wExitWith, bind, Except.bind] at h
      split at h
      · simp at h
      · simp [pure, Except.pure] at h; subst h
        simp [World.set, footprint, hq]
        intro i h1 h2; simp [h1, h2]

/-- a normal exit only looks at its footprint: two worlds that agree there give results that agree there -/
theorem exit_reads_only_its_footprint (w1 w2 : World) (j : Nat) (hj : w1.objs j = w2.objs j)
    (hs : ∀ i ∈ footprint w1 j, w1.objs i = w2.objs i) (w1' : World) (h : wExitObj w1 j = .ok w1') :
    ∃ w2', wExitObj w2 j = .ok w2' ∧ ∀ i ∈ footprint w1 j, w2'.objs i = w1'.objs i := by
  unfold wExitObj at h ⊢
  rw [← hj]
  cases hq : (w1.objs j).queue with
  | nil => simp [hq] at h
  | cons r q =>
    rw [hq] at h
    cases r with
    | none =>
      simp [wExitWith] at h; subst h
      refine ⟨_, rfl, ?_⟩
      intro i hi
      simp [footprint, hq] at hi
      simp [World.set, hi]
    | some r =>
      have hsrc : w1.objs r.src = w2.objs r.src := hs _ (by simp [footprint, hq])
      simp only [wExitWith, bind, Except.bind, World.set] at h ⊢
      by_cases hrj : r.src = j
      · simp [hrj] at h ⊢
        split at h
        · simp at h
        · rename_i st' he
          simp [pure, Except.pure] at h; subst h
          simp [pure, Except.pure, footprint, hq, hrj]
      · simp [hrj] at h ⊢
        rw [← hsrc]
        split at h
        · simp at h
        · rename_i st' he
          simp [pure, Except.pure] at h; subst h
          simp [pure, Except.pure, footprint, hq]

/-- blocks on DISTINCT objects commute: when the footprints of two pending exits are disjoint, closing `j` then `k` and closing `k`
then `j` both succeed and reach the SAME world, in which each footprint is what its own exit alone would have made of it and
everything else is untouched.  (The deque is per object — base.py:__enter__ `self._last_op_queue` — so the pop of one object never
sees the record of another; with one deque for all objects the non-LIFO order would pop the other block's record, see the
example at the end of the file.) -/
theorem exits_on_distinct_objects_commute (w wj wk : World) (j k : Nat) (hd : ∀ a ∈ footprint w j, a ∉ footprint w k)
    (hj : wExitObj w j = .ok wj) (hk : wExitObj w k = .ok wk) :
    ∃ w', wExitObj wj k = .ok w' ∧ wExitObj wk j = .ok w' ∧
      (∀ i ∈ footprint w j, w'.objs i = wj.objs i) ∧ (∀ i ∈ footprint w k, w'.objs i = wk.objs i) ∧
      (∀ i, i ∉ footprint w j → i ∉ footprint w k → w'.objs i = w.objs i) := by
  have hd' : ∀ a ∈ footprint w k, a ∉ footprint w j := fun a ha hb => hd a hb ha
  obtain ⟨fjn, fjv, fj⟩ := exit_writes_only_its_footprint w wj j hj
  obtain ⟨fkn, fkv, fk⟩ := exit_writes_only_its_footprint w wk k hk
  have kk : k ∈ footprint w k := by simp [footprint]
  have jj : j ∈ footprint w j := by simp [footprint]
  obtain ⟨a, ha, la⟩ := exit_reads_only_its_footprint w wj k (fj k (hd' k kk)).symm (fun i hi => (fj i (hd' i hi)).symm) wk hk
  obtain ⟨b, hb, lb⟩ := exit_reads_only_its_footprint w wk j (fk j (hd j jj)).symm (fun i hi => (fk i (hd i hi)).symm) wj hj
  obtain ⟨fan, fav, fa⟩ := exit_writes_only_its_footprint wj a k ha
  obtain ⟨fbn, fbv, fb⟩ := exit_writes_only_its_footprint wk b j hb
  rw [← footprint_congr w wj k (fj k (hd' k kk)).symm] at fa
  rw [← footprint_congr w wk j (fk j (hd j jj)).symm] at fb
  have hab : a = b := by
    apply World.ext'
    · rw [fan, fbn, fjn, fkn]
    · rw [fav, fbv, fjv, fkv]
    · intro i
      by_cases hi : i ∈ footprint w j
      · rw [fa i (hd i hi), lb i hi]
      · by_cases hi2 : i ∈ footprint w k
        · rw [la i hi2, fb i hi]
        · rw [fa i hi2, fb i hi, fj i hi, fk i hi2]
  subst hab
  refine ⟨a, ha, hb, ?_, la, ?_⟩
  · intro i hi; exact fa i (hd i hi)
  · intro i h1 h2; rw [fa i h2, fj i h1]

/-- two blocks on two different originals, entered A then B and closed in EITHER order (`aFirst = true` is not last-in-first-out):
each original ends as its own block alone would leave it — for every pair of context ops, spellings and edits -/
theorem interleaved_is_two_blocks (n1 : String) (c1 : Call) (e1 : List Edit) (n2 : String) (c2 : Call) (e2 : List Edit)
    (aFirst : Bool) (sa sb a' b' : St)
    (ha : withBlock n1 c1 e1 sa = .ok a') (hb : withBlock n2 c2 e2 sb = .ok b') :
    ∃ w, runSteps (World.init [sa, sb]) (interleavedProg n1 c1 e1 n2 c2 e2 aFirst) = .ok w ∧ w.stOf 0 = a' ∧ w.stOf 1 = b' := by
  simp only [withBlock] at ha hb
  cases h1 : fwd n1 c1 sa with
  | error e => simp [h1, bind, Except.bind] at ha
  | ok y1 =>
  cases h2 : fwd n2 c2 sb with
  | error e => simp [h2, bind, Except.bind] at hb
  | ok y2 =>
  obtain ⟨st1, self1, rec1⟩ := y1
  obtain ⟨st2, self2, rec2⟩ := y2
  simp only [h1, h2, bind, Except.bind] at ha hb
  cases g1 : applyEdits st1 e1 with
  | error e => simp [g1] at ha
  | ok y1' =>
  cases g2 : applyEdits st2 e2 with
  | error e => simp [g2] at hb
  | ok y2' =>
  simp only [g1, g2] at ha hb
  cases aFirst <;> cases self1 <;> cases self2 <;> cases rec1 <;> cases rec2 <;>
    simp [exitBlock_unrecorded] at ha hb <;>
    simp [interleavedProg, runSteps, runStep, wCall, World.init, World.var, wEnter, wEdits, wExit, wExitObj, World.set, wExitWith,
      Obj.fresh, bind, Except.bind, pure, Except.pure, h1, h2, g1, g2, World.stOf, List.range, List.range.loop] <;>
    simp [ha, hb, World.set]

/-- … and conversely the interleaved program only returns normally when each block alone does -/
theorem interleaved_ok_only_if_both (n1 : String) (c1 : Call) (e1 : List Edit) (n2 : String) (c2 : Call) (e2 : List Edit)
    (aFirst : Bool) (sa sb : St) (w : World)
    (h : runSteps (World.init [sa, sb]) (interleavedProg n1 c1 e1 n2 c2 e2 aFirst) = .ok w) :
    ∃ a' b', withBlock n1 c1 e1 sa = .ok a' ∧ withBlock n2 c2 e2 sb = .ok b' := by
  simp only [withBlock]
  cases h1 : fwd n1 c1 sa with
  | error e =>
    simp [interleavedProg, runSteps, runStep, wCall, World.init, World.var, Obj.fresh, bind, Except.bind, h1, List.range, List.range.loop] at h
  | ok y1 =>
  obtain ⟨st1, self1, rec1⟩ := y1
  cases h2 : fwd n2 c2 sb with
  | error e =>
    cases self1 <;>
    simp [interleavedProg, runSteps, runStep, wCall, World.init, World.var, World.set, Obj.fresh, bind, Except.bind, pure, Except.pure, h1, h2, List.range, List.range.loop] at h
  | ok y2 =>
  obtain ⟨st2, self2, rec2⟩ := y2
  cases g1 : applyEdits st1 e1 with
  | error e =>
    cases self1 <;> cases self2 <;>
    simp [interleavedProg, runSteps, runStep, wCall, World.init, World.var, World.set, wEnter, wEdits, Obj.fresh, bind, Except.bind, pure, Except.pure, h1, h2, g1, List.range, List.range.loop] at h
  | ok y1' =>
  cases g2 : applyEdits st2 e2 with
  | error e =>
    cases self1 <;> cases self2 <;>
    simp [interleavedProg, runSteps, runStep, wCall, World.init, World.var, World.set, wEnter, wEdits, Obj.fresh, bind, Except.bind, pure, Except.pure, h1, h2, g1, g2, List.range, List.range.loop] at h
  | ok y2' =>
  simp only [bind, Except.bind, g1, g2]
  obtain ⟨r1, k1⟩ : ∃ r, exitBlock n1 c1 rec1 self1 y1' (if self1 = true then y1' else sa) = r := ⟨_, rfl⟩
  obtain ⟨r2, k2⟩ : ∃ r, exitBlock n2 c2 rec2 self2 y2' (if self2 = true then y2' else sb) = r := ⟨_, rfl⟩
  rw [k1, k2]
  cases aFirst <;> cases self1 <;> cases self2 <;> cases rec1 <;> cases rec2 <;>
    simp only [Bool.false_eq_true, ↓reduceIte] at k1 k2 <;>
    simp [interleavedProg, runSteps, runStep, wCall, World.init, World.var, wEnter, wEdits, wExit, wExitObj, World.set, wExitWith,
      Obj.fresh, bind, Except.bind, pure, Except.pure, h1, h2, g1, g2, List.range, List.range.loop] at h <;>
    cases r1 <;> cases r2 <;> simp_all [exitBlock_unrecorded]

example : (withBlock "transpose" ⟨[], [("dim0", .int 1), ("dim1", .int (-1))]⟩ [.addKey [['z']]]
      ⟨[1, 2, 3], none, [[['a']]], false⟩).toOption = some ⟨[1, 2, 3], none, [[['a']], [['z']]], false⟩ := by decide
example : (fwd "flatten_keys" ⟨[], [("separator", .str ['_'])]⟩ ⟨[2], none, [[['n'], ['b']]], true⟩).toOption.map (·.st.keys)
      = some [[['n', '_', 'b']]] := by decide
example : NoSepInKeys '.' [[['n'], ['b']], [['a']]] := by
  intro k hk; simp at hk; rcases hk with rfl | rfl <;> simp
example : argsort (natsToInts [2, 0, 1]) = natsToInts (invPerm [2, 0, 1]) := argsort_eq_invPerm _ 3 (by decide)
example : invPerm [2, 0, 1] = [1, 2, 0] := by decide
example : [2, 0, 1].Perm (List.range 3) := by decide
example : (withBlock "lock_" ⟨[], []⟩ [.value] ⟨[2], none, [[['a']]], false⟩).toOption = some ⟨[2], none, [[['a']]], false⟩ := by decide
-- the hypotheses of the block theorems are met: default spelling, no-op squeeze with an added key, single-size unflatten with a negative dim
example : (withBlock "flatten" ⟨[], []⟩ [.value] ⟨[2, 3], none, [[['a']]], false⟩).toOption = some ⟨[2, 3], none, [[['a']]], false⟩ := by decide
example : (withBlock "squeeze" ⟨[.int 0], []⟩ [.addKey [['z']]] ⟨[2, 3], none, [[['a']]], false⟩).toOption = some ⟨[2, 3], none, [[['a']], [['z']]], false⟩ := by decide
example : (withBlock "unflatten" ⟨[.int (-1)], [("unflattened_size", .ints [3])]⟩ [.addKey [['z']]] ⟨[2, 3], none, [[['a']]], false⟩).toOption = some ⟨[2, 3], none, [[['a']], [['z']]], false⟩ := by decide

-- two entries exchanged inside the block: exchanged in an unlocked original, bindings untouched in a locked one
example : writeBackB false [([['a']], 1), ([['b']], 2)] [([['a']], 2), ([['b']], 1)] = [([['a']], 2), ([['b']], 1)] := by decide
example : writeBackB true [([['a']], 1), ([['b']], 2)] [([['a']], 2), ([['b']], 1)] = [([['a']], 1), ([['b']], 2)] := by decide

-- one deque for ALL objects would break non-LIFO exits: A = `x0.transpose(0,1)`, B = `x1.unsqueeze(0)`, entered A then B; closing A
-- first pops B's record and runs B's inverse on A's object.  With the per-object deque A's exit restores x0.
example :
    let w0 := World.init [⟨[2, 3], none, [[['a']]], false⟩, ⟨[4], none, [[['b']]], false⟩]
    let prog : List Step := [.call 0 "transpose" ⟨[.int 0, .int 1], []⟩, .call 1 "unsqueeze" ⟨[.int 0], []⟩, .enter 2, .enter 3]
    ((runSteps w0 prog).toOption.bind fun w => (wExit w 2).toOption.map (·.stOf 0)) = some ⟨[2, 3], none, [[['a']]], false⟩ ∧
    ((runSteps w0 prog).toOption.bind fun w =>
        (wExitShared [(w.objs 3).lastOp, (w.objs 2).lastOp] w 2).toOption.map (fun p => (p.1.stOf 0, p.1.stOf 1)))
      ≠ some (⟨[2, 3], none, [[['a']]], false⟩, ⟨[4], none, [[['b']]], false⟩) := by decide
end TdVerif.Props.C17
