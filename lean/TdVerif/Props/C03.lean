/-
  C03 — indexing reads and writes select exactly the elements torch indexing selects: property theorems.

  Models: Model/C03Index.lean — `TorchSpec` (our rendering of torch, validated against torch on every run)
  and `Td` (transcription of convert_ellipsis_to_idx, _getitem_batch_size, _get_names_idx, __getitem__,
  _index_tensordict, __setitem__; tied to the source by the correspondence streams of check_C03.py).
  All theorems quantify over every batch shape (any rank, any sizes incl. 0), every feature shape and every
  index of the stated grammar; none is a finite enumeration.
-/
import TdVerif.Lemmas.C03Inj

namespace TdVerif.Props.C03
open TdVerif.C03 TdVerif.C03.TorchSpec TdVerif.C03.Td

/-- **Stage 1–3, Ellipsis-free tuples.** For every batch shape and every tuple index without Ellipsis that torch
accepts on a tensor of the batch shape — ints, 0-d integer tensors, slices, `None`, and *any number* of lists,
ranges, integer tensors of any rank and boolean masks of any rank, adjacent or not — `_getitem_batch_size`
returns exactly the shape of torch's result. -/
theorem getitem_batch_size_eq (bs : Shape) (items : List Ix) (R : IndexResult)
    (hn : noEll items = true) (h : index bs items = .ok R) :
    getitemBatchSize bs (.tuple items) = .ok R.shape := by
  obtain ⟨-, P, hw, hf⟩ := index_inv h
  exact getitemBatchSize_tuple bs items _ P R hn hw hf

/-- **With an Ellipsis.** For every index `pre ++ (...,) ++ post` (boolean masks of any rank) that torch accepts on the
batch shape, `convert_ellipsis_to_idx` succeeds, leaves no Ellipsis, and `_getitem_batch_size` of the converted
index is the shape of torch's result for the *original* index. -/
theorem getitem_batch_size_eq_ellipsis (bs : Shape) (pre post : List Ix) (R : IndexResult)
    (hpre : noEll pre = true) (hpost : noEll post = true)
    (h : index bs (pre ++ Ix.ell :: post) = .ok R) :
    ∃ items', convertEllipsis (.tuple (pre ++ Ix.ell :: post)) bs.length = .ok (.tuple items') ∧
      noEll items' = true ∧ getitemBatchSize bs (.tuple items') = .ok R.shape := by
  obtain ⟨hs, P, hw, hf⟩ := index_inv h
  rw [specified_ell] at hs hw
  refine ⟨_, convertEllipsis_one pre post bs.length hpre hpost hs, ?_, ?_⟩
  · exact noEll_convert pre post _ hpre hpost
  · have hw' := walk_ell_convert pre post (bs.length - (specified pre + specified post)) 0 bs hpre hpost (by omega)
    rw [hw] at hw'
    have hne := noEll_convert pre post (bs.length - (specified pre + specified post)) hpre hpost
    have := getitemBatchSize_tuple bs _ 0 P R hne hw'.symm hf
    rwa [Nat.sub_sub]

/-- **The leaf call commutes with the batch view (Ellipsis-free index).** For every batch shape `bs`, every feature
shape `feat` (any rank, so also for nested entries whose extra batch dims are feature dims here) and every index
torch accepts on `bs`: `tensor[index]` on a leaf of shape `bs ++ feat` is accepted, has shape
`(result shape on bs) ++ feat`, is a view exactly when the result on `bs` is, and its element at `c ++ f` is the
source element at `(src c) ++ f`: the index acts on the batch dims, the feature dims are untouched. -/
theorem leaf_index_commutes (bs feat : Shape) (items : List Ix) (R : IndexResult)
    (hn : noEll items = true) (h : index bs items = .ok R) :
    ∃ R', index (bs ++ feat) items = .ok R' ∧ R'.shape = R.shape ++ feat ∧ R'.view = R.view ∧
      ∀ c f, c.length = R.shape.length → f.length = feat.length → R'.src (c ++ f) = R.src c ++ f := by
  obtain ⟨hs, P, hw, hf⟩ := index_inv h
  obtain ⟨R', h1, h2, h3, h4⟩ := finalize_append_feat P feat R hf
  refine ⟨R', ?_, h2, h3, h4⟩
  have hw' := walk_append_feat items _ ((bs ++ feat).length - specified items) bs feat P hn hw
  have : ¬ specified items > (bs ++ feat).length := by simp; omega
  simp only [index, plan]
  rw [if_neg this, hw']
  exact h1

/-- **Ellipsis targets the batch dims whatever the feature rank.** For an index `pre ++ (...,) ++ post` accepted by
torch on `bs`, the index that `__getitem__` hands to the leaves (`convert_ellipsis_to_idx` of it) selects, on a
leaf of shape `bs ++ feat`, the elements the original index selects on the batch dims — the Ellipsis never
swallows a feature dim. -/
theorem ellipsis_targets_batch (bs feat : Shape) (pre post : List Ix) (R : IndexResult)
    (hpre : noEll pre = true) (hpost : noEll post = true)
    (h : index bs (pre ++ Ix.ell :: post) = .ok R) :
    ∃ items' R', convertEllipsis (.tuple (pre ++ Ix.ell :: post)) bs.length = .ok (.tuple items') ∧
      index (bs ++ feat) items' = .ok R' ∧ R'.shape = R.shape ++ feat ∧ R'.view = R.view ∧
      ∀ c f, c.length = R.shape.length → f.length = feat.length → R'.src (c ++ f) = R.src c ++ f := by
  obtain ⟨hs, P, hw, hf⟩ := index_inv h
  rw [specified_ell] at hs hw
  let k := bs.length - specified pre - specified post
  have hconv := convertEllipsis_one pre post bs.length hpre hpost hs
  have hne := noEll_convert pre post k hpre hpost
  have hw' := walk_ell_convert pre post (bs.length - (specified pre + specified post)) 0 bs hpre hpost (by omega)
  rw [hw, ← Nat.sub_sub] at hw'
  -- torch on `bs` accepts the converted index with the same plan
  have hidx : index bs (pre ++ List.replicate k slAll ++ post) = .ok R := by
    have hsp : specified (pre ++ List.replicate k slAll ++ post) = bs.length := by
      have : ∀ k, specified (List.replicate k slAll) = k := by
        intro k; induction k with
        | zero => rfl
        | succ k ih => simp [List.replicate_succ, specified, slAll] at ih ⊢; omega
      simp only [specified_append, this, k]; omega
    have : ¬ specified (pre ++ List.replicate k slAll ++ post) > bs.length := by omega
    simp only [index, plan, this, if_false, hsp, Nat.sub_self]
    rw [← hw']
    simpa using hf
  obtain ⟨R', h1, h2, h3, h4⟩ := leaf_index_commutes bs feat _ R hne hidx
  exact ⟨_, R', hconv, h1, h2, h3, h4⟩

/-- why the conversion is needed: handed to a leaf unconverted, `(..., 0)` addresses the last *feature* dim -/
example : indexShape [2, 3] [Ix.ell, Ix.int 0] = .ok [2]
    ∧ indexShape [2, 3, 4] [Ix.ell, Ix.int 0] = .ok [2, 3]
    ∧ indexShape [2, 3, 4] [slAll, Ix.int 0] = .ok [2, 4] := by
  refine ⟨?_, ?_, ?_⟩ <;> decide

/-! ### `td[idx]` as a whole: `__getitem__` dispatch + `_index_tensordict` -/

/-- the tensordict has no dim names, or one name per batch dim -/
def NamesCoherent (td : TD) : Prop := ∀ names, td.names = some names → names.length = td.bs.length

/-- **Reads, Ellipsis-free tuple index.** For every tensordict (any batch shape, any leaves with any feature shapes, any
nested tensordicts with extra batch dims; unnamed or with one name per batch dim) and every tuple index without Ellipsis that torch accepts on a
tensor of the batch shape with result `R`: `td[idx]` succeeds and is *good*: either it returns `self` and `R` is the
identity view, or it is a new tensordict with `batch_size = R.shape` whose every leaf (direct or nested) has shape
`R.shape ++ feat`, aliases its source exactly when torch's result does, and holds at `c ++ f` the source element
`R.src c ++ f`. -/
theorem getitem_tuple_eq_torch (td : TD) (items : List Ix) (R : IndexResult)
    (hn : noEll items = true) (hnames : NamesCoherent td) (h : index td.bs items = .ok R) :
    ∃ res, getitem td (.tuple items) = .ok res ∧ GoodRes td R res := by
  cases items with
  | nil => exact ⟨.self, rfl, index_all_full td.bs [] R rfl h⟩
  | cons x r =>
    have hany : (x :: r).any (· = Ix.ell) = false := by
      simp only [noEll, List.all_eq_true, bne_iff_ne, ne_eq] at hn
      simpa using hn
    simp only [getitem, hany, Bool.false_eq_true, if_false]
    exact getitemTail_ok' td (x :: r) R hn (namesIdx_ok_of_index td.names td.bs _ R hn hnames h) h

/-- **Reads, tuple index with an Ellipsis.** Same conclusion for `pre ++ (...,) ++ post`. -/
theorem getitem_ellipsis_eq_torch (td : TD) (pre post : List Ix) (R : IndexResult)
    (hpre : noEll pre = true) (hpost : noEll post = true) (hnames : NamesCoherent td)
    (h : index td.bs (pre ++ Ix.ell :: post) = .ok R) :
    ∃ res, getitem td (.tuple (pre ++ Ix.ell :: post)) = .ok res ∧ GoodRes td R res := by
  have hany : (pre ++ Ix.ell :: post).any (· = Ix.ell) = true := by simp
  have hconv := convertEllipsis_one pre post td.bs.length hpre hpost
    (by have := (index_inv h).1; rwa [specified_ell] at this)
  have hn' := noEll_convert pre post (td.bs.length - specified pre - specified post) hpre hpost
  -- torch accepts the converted index on the batch shape with the same result
  have hR : index td.bs (pre ++ List.replicate (td.bs.length - specified pre - specified post) slAll ++ post) = .ok R := by
    obtain ⟨hs, P, hw, hf⟩ := index_inv h
    rw [specified_ell] at hs hw
    have hw' := walk_ell_convert pre post (td.bs.length - (specified pre + specified post)) 0 td.bs hpre hpost (by omega)
    rw [hw, ← Nat.sub_sub] at hw'
    have hsp : specified (pre ++ List.replicate (td.bs.length - specified pre - specified post) slAll ++ post) = td.bs.length := by
      have : ∀ k, specified (List.replicate k slAll) = k := by
        intro k; induction k with
        | zero => rfl
        | succ k ih => simp [List.replicate_succ, specified, slAll] at ih ⊢; omega
      simp only [specified_append, this]; omega
    have : ¬ specified (pre ++ List.replicate (td.bs.length - specified pre - specified post) slAll ++ post) > td.bs.length := by omega
    simp only [index, plan, this, if_false, hsp, Nat.sub_self]
    rw [← hw']
    simpa using hf
  cases hl : pre ++ Ix.ell :: post with
  | nil => simp at hl
  | cons x r =>
    simp only [getitem]
    rw [← hl, hany, if_pos rfl, hconv]
    exact getitemTail_ok' td _ R hn' (namesIdx_ok_of_index td.names td.bs _ R hn' hnames hR) hR

/-- **Reads, bare (non-tuple) index** `td[x]`: an int goes straight to `_index_tensordict` (batch size `batch_size[1:]`),
`...` returns `self`, anything else is wrapped in a 1-tuple. Same conclusion as for tuples. -/
theorem getitem_single_eq_torch (td : TD) (x : Ix) (R : IndexResult) (hnames : NamesCoherent td)
    (h : index td.bs [x] = .ok R) :
    ∃ res, getitem td (.single x) = .ok res ∧ GoodRes td R res := by
  by_cases hx : x = Ix.ell
  · subst hx; exact ⟨.self, rfl, index_ell_identity td.bs R h⟩
  · have hn : noEll [x] = true := by simp [noEll, hx]
    have hnm := namesIdx_ok_of_index td.names td.bs [x] R hn hnames h
    cases x with
    | ell => exact absurd rfl hx
    | int i => simpa [getitem] using indexTensordict_int_ok td i R (by rw [namesIdx_single]; exact hnm) h
    | slice a b c => simpa [getitem] using getitemTail_ok' td [Ix.slice a b c] R hn hnm h
    | none => simpa [getitem] using getitemTail_ok' td [Ix.none] R hn hnm h
    | list l => simpa [getitem] using getitemTail_ok' td [Ix.list l] R hn hnm h
    | range a b c => simpa [getitem] using getitemTail_ok' td [Ix.range a b c] R hn hnm h
    | tensor s d => simpa [getitem] using getitemTail_ok' td [Ix.tensor s d] R hn hnm h
    | mask s d => simpa [getitem] using getitemTail_ok' td [Ix.mask s d] R hn hnm h

/-! ### an index torch rejects is rejected -/

/-- **Rejection, tuples without Ellipsis.** If one entry has exactly the batch shape, `td[idx]` succeeds only for an
index torch accepts on a tensor of the batch shape: too many dims are caught by the dim count, everything else by
torch on that entry. (Without such an entry the batch size is computed without validating the index — recorded as a
finding, see `getitem_unchecked_counterexample`.) -/
theorem getitem_tuple_rejects (td : TD) (items : List Ix) (e : Err) (hstrict : [] ∈ td.leaves)
    (hn : noEll items = true) (h : index td.bs items = .error e) :
    ∃ e', getitem td (.tuple items) = .error e' := by
  cases hg : getitem td (.tuple items) with
  | error e' => exact ⟨e', rfl⟩
  | ok res =>
    exfalso
    cases items with
    | nil =>
      obtain ⟨R, hR⟩ := index_all_full_ok td.bs [] rfl (by simp [specified])
      rw [hR] at h; cases h
    | cons x r =>
      have hany : (x :: r).any (· = Ix.ell) = false := by
        simp only [noEll, List.all_eq_true, bne_iff_ne, ne_eq] at hn
        simpa using hn
      simp only [getitem, hany, Bool.false_eq_true, if_false] at hg
      obtain ⟨R, hR⟩ := getitemTail_ok_inv td (x :: r) res hstrict hg
      rw [hR] at h; cases h

/-- **Rejection, tuples with an Ellipsis.** -/
theorem getitem_ellipsis_rejects (td : TD) (pre post : List Ix) (e : Err) (hstrict : [] ∈ td.leaves)
    (hpre : noEll pre = true) (hpost : noEll post = true)
    (h : index td.bs (pre ++ Ix.ell :: post) = .error e) :
    ∃ e', getitem td (.tuple (pre ++ Ix.ell :: post)) = .error e' := by
  cases hg : getitem td (.tuple (pre ++ Ix.ell :: post)) with
  | error e' => exact ⟨e', rfl⟩
  | ok res =>
    exfalso
    have hany : (pre ++ Ix.ell :: post).any (· = Ix.ell) = true := by simp
    cases hl : pre ++ Ix.ell :: post with
    | nil => simp at hl
    | cons x r =>
      rw [hl] at hg
      simp only [getitem] at hg
      rw [← hl, hany, if_pos rfl] at hg
      by_cases hs : specified pre + specified post ≤ td.bs.length
      · rw [convertEllipsis_one pre post td.bs.length hpre hpost hs] at hg
        obtain ⟨R, hR⟩ := getitemTail_ok_inv td _ res hstrict hg
        rw [index_ell_convert td.bs pre post hpre hpost hs, hR] at h; cases h
      · rw [convertEllipsis_too_many pre post td.bs.length hpre hpost (by omega)] at hg
        cases hg

/-- **Rejection, bare index.** -/
theorem getitem_single_rejects (td : TD) (x : Ix) (e : Err) (hstrict : [] ∈ td.leaves)
    (h : index td.bs [x] = .error e) :
    ∃ e', getitem td (.single x) = .error e' := by
  cases hg : getitem td (.single x) with
  | error e' => exact ⟨e', rfl⟩
  | ok res =>
    exfalso
    have key : ∃ R, index td.bs [x] = .ok R := by
      cases x with
      | ell =>
        obtain ⟨R, hR⟩ := finalize_fulls_ok td.bs
        exact ⟨R, by simp [index, plan, specified, walk, Except.map, hR]⟩
      | int i =>
        simp only [getitem] at hg
        obtain ⟨R', hR'⟩ := indexTensordict_ok_inv td (.single (.int i)) res hg [] hstrict
        exact ⟨R', by simpa [PyIndex.items] using hR'⟩
      | slice a b c => exact getitemTail_ok_inv td _ res hstrict (by simpa [getitem] using hg)
      | none => exact getitemTail_ok_inv td _ res hstrict (by simpa [getitem] using hg)
      | list l => exact getitemTail_ok_inv td _ res hstrict (by simpa [getitem] using hg)
      | range a b c => exact getitemTail_ok_inv td _ res hstrict (by simpa [getitem] using hg)
      | tensor s d => exact getitemTail_ok_inv td _ res hstrict (by simpa [getitem] using hg)
      | mask s d => exact getitemTail_ok_inv td _ res hstrict (by simpa [getitem] using hg)
    obtain ⟨R, hR⟩ := key
    rw [hR] at h; cases h

/-- **Too many indices are always rejected** (acceptance test of the fix of §7 row 6; no hypothesis on the entries):
an index that addresses more dims than the batch has — the case in which it would run into feature dims — makes
`td[idx]` raise, for tuples without Ellipsis, … -/
theorem getitem_too_many_indices_rejected (td : TD) (items : List Ix) (hn : noEll items = true)
    (h : specified items > td.bs.length) : ∃ e, getitem td (.tuple items) = .error e := by
  cases items with
  | nil => simp [specified] at h
  | cons x r =>
    have hany : (x :: r).any (· = Ix.ell) = false := by
      simp only [noEll, List.all_eq_true, bne_iff_ne, ne_eq] at hn
      simpa using hn
    refine ⟨.index, ?_⟩
    simp only [getitem, hany, Bool.false_eq_true, if_false, getitemTail, checkIndexNdim, PyIndex.items,
      indexNdim_eq_specified]
    rw [if_pos h]

/-- … for tuples with an Ellipsis (rejected by `convert_ellipsis_to_idx`), … -/
theorem getitem_too_many_indices_rejected_ellipsis (td : TD) (pre post : List Ix)
    (hpre : noEll pre = true) (hpost : noEll post = true)
    (h : specified pre + specified post > td.bs.length) :
    ∃ e, getitem td (.tuple (pre ++ Ix.ell :: post)) = .error e := by
  have hany : (pre ++ Ix.ell :: post).any (· = Ix.ell) = true := by simp
  cases hl : pre ++ Ix.ell :: post with
  | nil => simp at hl
  | cons x r =>
    refine ⟨.runtime, ?_⟩
    simp only [getitem]
    rw [← hl, hany, if_pos rfl, convertEllipsis_too_many pre post td.bs.length hpre hpost (by omega)]

/-- … and for writes. -/
theorem setitem_too_many_indices_rejected (td : TD) (items : List Ix) (v : Shape) (hn : noEll items = true)
    (h : specified items > td.bs.length) : ∃ e, setitem td (.tuple items) v = .error e := by
  have hany : items.any (· = Ix.ell) = false := by
    simp only [noEll, List.all_eq_true, bne_iff_ne, ne_eq] at hn
    simpa using hn
  refine ⟨.index, ?_⟩
  simp only [setitem, hany, Bool.false_eq_true, if_false, bind, Except.bind, checkIndexNdim, PyIndex.items,
    indexNdim_eq_specified]
  rw [if_pos h]

/-- the strict-entry hypothesis is needed: with no entry at all an out-of-range int is accepted and the batch size
`batch_size[1:]` is returned (known finding C03-index-unchecked-without-strict-leaf; replayed on the implementation by the
`witness` stream of check_C03.py) -/
theorem getitem_unchecked_counterexample :
    indexShape [3] [Ix.int 5] = .error .index ∧
    ∃ res, getitem { bs := [3], names := none, leaves := [], nested := [] } (.single (.int 5)) = .ok res := by
  refine ⟨by decide, ?_⟩
  simp [getitem, indexTensordict, checkInvalidIndex, getitemBatchSize, namesIdx, bind, Except.bind, pure, Except.pure]

/-! ### writes: `td[idx] = value` is, per entry, `entry[idx'] = value` with the converted index (`Td.setitem`) -/

/-- **Frame.** `td[idx] = value` leaves alone every element of a leaf `bs ++ feat` that is not of the form
`R.src c ++ f` — i.e. whose batch coordinate torch's index on the batch shape does not select. -/
theorem setitem_frame (bs feat : Shape) (items : List Ix) (v : Shape) (R : IndexResult)
    (w : List Nat → Option (List Nat)) (hn : noEll items = true)
    (h : index bs items = .ok R) (hw : setIndex (bs ++ feat) items v = .ok w)
    (p : List Nat) (hp : ∀ c ∈ coords R.shape, ∀ f ∈ coords feat, R.src c ++ f ≠ p) : w p = none := by
  obtain ⟨R', hR', hshape, -, hsrc⟩ := leaf_index_commutes bs feat items R hn h
  obtain ⟨R'', hR'', -, rfl⟩ := setIndex_ok hw
  rw [hR'] at hR''; cases hR''
  simp only [Option.map_eq_none_iff, List.find?_eq_none, List.mem_reverse, beq_iff_eq]
  intro x hx
  rw [hshape] at hx
  obtain ⟨c, hc, f, hf, rfl⟩ := (mem_coords_append R.shape feat x).mp hx
  rw [hsrc c f (length_of_mem_coords _ _ hc) (length_of_mem_coords _ _ hf)]
  exact hp c hc f hf

/-- **Hit.** Every element `R.src c ++ f` of the leaf receives an element of the (broadcast) value — the one meant for
some coordinate `c2 ++ f2` of the indexed region that addresses the same element (the same coordinate unless the index
repeats an element). -/
theorem setitem_hit (bs feat : Shape) (items : List Ix) (v : Shape) (R : IndexResult)
    (w : List Nat → Option (List Nat)) (hn : noEll items = true)
    (h : index bs items = .ok R) (hw : setIndex (bs ++ feat) items v = .ok w)
    (c f : List Nat) (hc : c ∈ coords R.shape) (hf : f ∈ coords feat) :
    ∃ c2 ∈ coords R.shape, ∃ f2 ∈ coords feat, R.src c2 ++ f2 = R.src c ++ f ∧
      w (R.src c ++ f) = some (valueCoord v (R.shape ++ feat) (c2 ++ f2)) := by
  obtain ⟨R', hR', hshape, -, hsrc⟩ := leaf_index_commutes bs feat items R hn h
  obtain ⟨R'', hR'', -, rfl⟩ := setIndex_ok hw
  rw [hR'] at hR''; cases hR''
  have hmem : c ++ f ∈ (coords R'.shape).reverse := by
    rw [List.mem_reverse, hshape]; exact (mem_coords_append _ _ _).mpr ⟨c, hc, f, hf, rfl⟩
  have hsat : (R'.src (c ++ f) == R.src c ++ f) = true := by
    rw [hsrc c f (length_of_mem_coords _ _ hc) (length_of_mem_coords _ _ hf)]; simp
  cases hfind : (coords R'.shape).reverse.find? (fun x => R'.src x == R.src c ++ f) with
  | none =>
    rw [List.find?_eq_none] at hfind
    exact absurd hsat (hfind _ hmem)
  | some x =>
    have hx := List.mem_of_find?_eq_some hfind
    have hxs := List.find?_some hfind
    rw [List.mem_reverse, hshape] at hx
    obtain ⟨c2, hc2, f2, hf2, rfl⟩ := (mem_coords_append R.shape feat x).mp hx
    rw [hsrc c2 f2 (length_of_mem_coords _ _ hc2) (length_of_mem_coords _ _ hf2)] at hxs
    refine ⟨c2, hc2, f2, hf2, by simpa using hxs, ?_⟩
    rw [hshape] at hfind
    simp only [hshape, hfind, Option.map_some]

/-- `td[idx] = value` is rejected whenever torch rejects `idx` on an entry that has exactly the batch shape -/
theorem setitem_rejects (bs : Shape) (items : List Ix) (v : Shape) (e : Err) (h : index bs items = .error e) :
    setIndex bs items v = .error e := by
  simp [setIndex, h]

/-- **Writes as a whole, accepted.** For an Ellipsis-free tuple index torch accepts on the batch shape (result R) and a scalar /
tensor value of shape `v` that broadcasts to `R.shape ++ feat` for every direct and nested leaf, `td[idx] = value` succeeds
with one write map per leaf (each of them described by `setitem_frame` / `setitem_hit`). -/
theorem setitem_tuple_accepts (td : TD) (items : List Ix) (v : Shape) (R : IndexResult)
    (hn : noEll items = true) (h : index td.bs items = .ok R)
    (hv : ∀ feat ∈ td.leaves, valueOk v (R.shape ++ feat) = true)
    (hvn : ∀ nd ∈ td.nested, ∀ feat ∈ nd.leaves, valueOk v (R.shape ++ (nd.extra ++ feat)) = true) :
    ∃ ws, setitem td (.tuple items) v = .ok ws ∧
      ws.length = td.leaves.length + (td.nested.map (·.leaves.length)).sum :=
  setitem_tuple_ok td items v R hn h hv hvn

/-- **Writes as a whole, rejected.** If one entry has exactly the batch shape, `td[idx] = value` (Ellipsis-free tuple) raises
whenever torch rejects the index on a tensor of the batch shape — including an index running into feature dims, which
`__setitem__` used to accept (§7 row 6). -/
theorem setitem_tuple_rejects (td : TD) (items : List Ix) (v : Shape) (e : Err) (hstrict : [] ∈ td.leaves)
    (hn : noEll items = true) (h : index td.bs items = .error e) :
    ∃ e', setitem td (.tuple items) v = .error e' := by
  cases hs : setitem td (.tuple items) v with
  | error e' => exact ⟨e', rfl⟩
  | ok ws =>
    obtain ⟨R, hR⟩ := setitem_tuple_ok_inv td items v ws hstrict hn hs
    rw [hR] at h; cases h

/-- **Broadcasting a collection value on the left.** When the batch of a TensorDict value is a trailing part of the indexed
batch, `__setitem__` expands the value to `indexed_bs` (`pre ++ v`) before handing it to torch. For every coordinate of the
indexed region the element of the *original* value that lands there is the one torch's own right-aligned broadcast of the
unexpanded value would put there: the manual expansion changes nothing. -/
theorem expand_left_is_torch_broadcast (out pre v : Shape) (c : List Nat) (hlen : (pre ++ v).length ≤ out.length) :
    (valueCoord (pre ++ v) out c).drop pre.length = valueCoord v out c :=
  valueCoord_expand_left out pre v c hlen

/-- **Writes through an index with an Ellipsis or through a bare index** reduce to writes through an Ellipsis-free tuple — so
`setitem_tuple_accepts` / `_rejects`, `setitem_frame` / `_hit` and the collection theorems cover every index form of the grammar:
`td[pre, ..., post] = v` is `td[pre, :, …, :, post] = v` with exactly the number of `:` torch lets the Ellipsis stand for (and raises,
like reads, when the index names more dims than the batch has); `td[x] = v` is `td[(x,)] = v`. -/
theorem setitem_index_forms (td : TD) (pre post : List Ix) (x : Ix) (v : Shape) (isDict : Bool) (vb : Shape) (entries : List VEntry)
    (hpre : noEll pre = true) (hpost : noEll post = true) (hs : specified pre + specified post ≤ td.bs.length) (hx : x ≠ Ix.ell) :
    setitem td (.tuple (pre ++ Ix.ell :: post)) v =
      setitem td (.tuple (pre ++ List.replicate (td.bs.length - specified pre - specified post) slAll ++ post)) v ∧
    setitemColl td (.tuple (pre ++ Ix.ell :: post)) isDict vb entries =
      setitemColl td (.tuple (pre ++ List.replicate (td.bs.length - specified pre - specified post) slAll ++ post)) isDict vb entries ∧
    setitem td (.single x) v = setitem td (.tuple [x]) v :=
  ⟨setitem_ellipsis_reduce td pre post v hpre hpost hs, setitemColl_ellipsis_reduce td pre post isDict vb entries hpre hpost hs,
   setitem_single td x v hx⟩

/-! #### collection values: `td[idx] = dict / TensorDict` (`__setitem__`'s first branch, `Td.setitemColl`)

`collPlan` is the batch handling (dict → `from_dict_instance`; equal batch; trailing batch → `expand`; otherwise batch-size
reassignment), `entryWriteK` one key (`_set_at_str`, or `_SubTensorDict.set` for a key missing from the destination). -/

/-- **Collection values, general form.** For an Ellipsis-free tuple index torch accepts on the batch shape (result `R`),
`td[idx] = value` is: the batch handling of the value against `R.shape`, then one `entry[idx] = item` per key, in order. -/
theorem setitem_collection_spec (td : TD) (items : List Ix) (R : IndexResult) (isDict : Bool) (vb : Shape)
    (entries : List VEntry) (hn : noEll items = true) (h : index td.bs items = .ok R) :
    setitemColl td (.tuple items) isDict vb entries =
      (match collPlan isDict vb R.shape entries with
       | .error e => .error e
       | .ok (k, shapes) => (entries.zip shapes).mapM (fun (e, sh) => entryWriteK td R.shape items k e sh)) :=
  setitemColl_spec td items R isDict vb entries hn h

/-- **TensorDict value of the indexed batch size**: exactly one `entry[idx] = value[key]` per key, nothing else. -/
theorem setitem_collection_exact (td : TD) (items : List Ix) (R : IndexResult) (entries : List VEntry)
    (hn : noEll items = true) (h : index td.bs items = .ok R) :
    setitemColl td (.tuple items) false R.shape entries
      = entries.mapM (fun e => entryWriteK td R.shape items 0 e e.shape) := by
  rw [setitemColl_spec td items R false R.shape entries hn h, collPlan_exact]
  exact mapM_zip_map (·.shape) (fun (p : VEntry × Shape) => entryWriteK td R.shape items 0 p.1 p.2) entries

/-- **dict value**: accepted iff every entry starts with the indexed batch size (`from_dict_instance(batch_size=indexed_bs)`),
and then it is the same per-key assignment. -/
theorem setitem_collection_dict (td : TD) (items : List Ix) (R : IndexResult) (vb : Shape) (entries : List VEntry)
    (hn : noEll items = true) (h : index td.bs items = .ok R) :
    setitemColl td (.tuple items) true vb entries =
      if entries.all (fun e => hasPrefix R.shape e.shape) then entries.mapM (fun e => entryWriteK td R.shape items 0 e e.shape)
      else .error .runtime := by
  rw [setitemColl_spec td items R true vb entries hn h, collPlan_dict]
  by_cases hall : entries.all (fun e => hasPrefix R.shape e.shape) = true
  · simp only [hall, if_true]
    exact mapM_zip_map (·.shape) (fun (p : VEntry × Shape) => entryWriteK td R.shape items 0 p.1 p.2) entries
  · simp only [hall, Bool.false_eq_true, if_false]

/-- **batch-size reassignment path**: a TensorDict value whose batch is neither the indexed batch nor a trailing part of it
(`value.copy(); value.batch_size = indexed_bs`) is accepted iff every entry starts with the indexed batch size — e.g. a
batch-less value whose entries already have the indexed shape — and is then the same per-key assignment; otherwise it raises. -/
theorem setitem_collection_reassign (td : TD) (items : List Ix) (R : IndexResult) (vb : Shape) (entries : List VEntry)
    (hn : noEll items = true) (h : index td.bs items = .ok R) (h1 : vb ≠ R.shape)
    (h2 : vb ≠ (if vb.length = 0 then R.shape else R.shape.drop (R.shape.length - vb.length))) :
    setitemColl td (.tuple items) false vb entries =
      if entries.all (fun e => hasPrefix R.shape e.shape) then entries.mapM (fun e => entryWriteK td R.shape items 0 e e.shape)
      else .error .runtime := by
  rw [setitemColl_spec td items R false vb entries hn h, collPlan_reassign vb R.shape entries h1 h2]
  by_cases hall : entries.all (fun e => hasPrefix R.shape e.shape) = true
  · simp only [hall, if_true]
    exact mapM_zip_map (·.shape) (fun (p : VEntry × Shape) => entryWriteK td R.shape items 0 p.1 p.2) entries
  · simp only [hall, Bool.false_eq_true, if_false]

/-- **left broadcasting**: a TensorDict value whose (non-empty) batch `vb` is a proper trailing part of the indexed batch
`pre ++ vb` is expanded: every item reaches torch with shape `(pre ++ vb) ++ item.shape[len(vb):]`, `len(pre)` leading
coordinates of which do not exist in the original item. -/
theorem setitem_collection_expand (td : TD) (items : List Ix) (R : IndexResult) (pre vb : Shape) (entries : List VEntry)
    (hn : noEll items = true) (h : index td.bs items = .ok R) (hR : R.shape = pre ++ vb) (hpre : pre ≠ []) (hvb : vb ≠ []) :
    setitemColl td (.tuple items) false vb entries
      = entries.mapM (fun e => entryWriteK td R.shape items pre.length e (R.shape ++ e.shape.drop vb.length)) := by
  rw [setitemColl_spec td items R false vb entries hn h, hR, collPlan_expand pre vb entries hpre hvb]
  exact mapM_zip_map (fun e => (pre ++ vb) ++ e.shape.drop vb.length)
    (fun (p : VEntry × Shape) => entryWriteK td (pre ++ vb) items pre.length p.1 p.2) entries

/-- … and that manual expansion **is torch's own broadcast**: on a leaf `bs ++ feat`, writing the expanded item
`(pre ++ vb) ++ f` and forgetting the added coordinates is `entry[idx] = item` with the original item `vb ++ f` (feature ranks
equal): same acceptance, same element of the item at every position. -/
theorem setitem_collection_expand_is_torch_broadcast (bs feat : Shape) (items : List Ix) (R : IndexResult) (pre vb f : Shape)
    (hn : noEll items = true) (h : index bs items = .ok R) (hR : R.shape = pre ++ vb) (hf : f.length = feat.length) :
    (setIndex (bs ++ feat) items ((pre ++ vb) ++ f)).map (fun wr c => (wr c).map (·.drop pre.length))
      = setIndex (bs ++ feat) items (vb ++ f) := by
  obtain ⟨R', hR', hshape, -, -⟩ := leaf_index_commutes bs feat items R hn h
  have := setIndex_expand_left (bs ++ feat) items pre (vb ++ f) (vb ++ feat) R' hR'
    (by rw [hshape, hR, List.append_assoc]) (by simp [hf])
  simpa [List.append_assoc] using this

/-- **a key missing from the destination**: the entry created for it has shape `batch_size ++ item.shape[len(indexed_bs):]`
(zero-filled) and receives `new[idx] = item` — hence, by `setitem_frame` / `setitem_hit` with `feat = item.shape[len(indexed_bs):]`,
exactly the elements `R.src c ++ f` are written, the others stay zero; an item that does not start with the indexed batch
size is refused. -/
theorem setitem_collection_missing_key (td : TD) (ibs : Shape) (items : List Ix) (k : Nat) (sh : Shape) :
    entryWriteK td ibs items k { target := none, shape := sh } sh =
      if hasPrefix ibs sh then
        (setIndex (td.bs ++ sh.drop ibs.length) items sh).map (fun w =>
          { target := none, leafShape := td.bs ++ sh.drop ibs.length, written := fun c => (w c).map (·.drop k) })
      else .error .runtime := by
  unfold entryWriteK
  by_cases hp : hasPrefix ibs sh = true
  · simp only [hp, if_true, bind, Except.bind, pure, Except.pure]
    cases setIndex (td.bs ++ sh.drop ibs.length) items sh <;> rfl
  · simp only [hp, Bool.false_eq_true, if_false, bind, Except.bind]

/-- **Nested entries in a collection value.** `td[idx] = TensorDict({key_of_nested_entry: child})`: `__setitem__` first handles the
batch of the value — for the child that is `childBatch` against torch's shape (equal: untouched; trailing: expanded with its
leaves; otherwise `value.batch_size = indexed_bs`, which gives a child with fewer batch dims the new batch size if its leaves
allow it and else requires its batch to start with the new one) — and then runs the very same `__setitem__` on the nested
tensordict with the converted index; there `setitem_collection_spec` applies again with torch's shape followed by the nested
entry's extra batch dims (`leaf_index_commutes`). -/
theorem setitem_collection_nested_spec (td : TD) (items : List Ix) (R : IndexResult) (vb cbx : Shape) (j : Nat) (nd : Nested)
    (entries : List VEntry) (hn : noEll items = true) (h : index td.bs items = .ok R) (hj : td.nested[j]? = some nd) :
    setitemCollNested td (.tuple items) vb j cbx entries =
      (match childBatch vb R.shape cbx entries with
       | .error e => .error e
       | .ok (k, cb) =>
         (setitemColl { bs := td.bs ++ nd.extra, names := none, leaves := nd.leaves, nested := [] } (.tuple items) false cb
            (childEntries k vb R.shape entries)).map (dropWritten k)) :=
  setitemCollNested_spec td items R vb cbx j nd entries hn h hj

/-! #### `_SubTensorDict` (`td._get_sub_tensordict(idx)`; the object `__setitem__` uses for keys missing from the destination) -/

/-- **A sub-tensordict has torch's batch size and sees torch's selection.** For an Ellipsis-free tuple index torch accepts on the
batch shape (result `R`): `_SubTensorDict.__init__` succeeds with `batch_size = R.shape`, and `sub.get(key)` is, for every leaf
`bs ++ feat`, a tensor of shape `R.shape ++ feat` holding at `c ++ f` the source element `R.src c ++ f` (view bit as torch). -/
theorem subtd_is_torch_on_batch (td : TD) (items : List Ix) (R : IndexResult) (j : Nat) (feat : Shape)
    (hn : noEll items = true) (h : index td.bs items = .ok R) (hj : td.leaves[j]? = some feat) :
    subInit td (.tuple items) = .ok { idx := .tuple items, bs := R.shape } ∧
    ∃ R', subGet td { idx := .tuple items, bs := R.shape } j = .ok R' ∧ LeafOk R feat R' := by
  have hany : items.any (· = Ix.ell) = false := by
    simp only [noEll, List.all_eq_true, bne_iff_ne, ne_eq] at hn
    simpa using hn
  obtain ⟨hs, P, hw, hf⟩ := index_inv h
  have hb := getitemBatchSize_tuple td.bs items _ P R hn hw hf
  refine ⟨by simp [subInit, PyIndex.items, hany, hb, bind, Except.bind, pure, Except.pure], ?_⟩
  obtain ⟨R', hR', hok⟩ := leaf_commutes td.bs feat items R hn h
  exact ⟨R', by simp [subGet, hj, leafGet, PyIndex.items, hR'], hok⟩

/-- **Writing through a sub-tensordict** (`sub.set_(key, value)`, and `sub.set(key, value)` for a key missing from the source) is
`entry[idx] = value` (on a fresh zero entry `batch_size ++ value.shape[len(sub.batch_size):]` for a new key), provided the value
starts with the sub-tensordict's batch size; otherwise it is refused (`_validate_value`). `setitem_frame` / `setitem_hit` then say
which elements change. -/
theorem subtd_set_is_leaf_assignment (td : TD) (sub : Sub) (target : Option Nat) (sh : Shape) :
    subSet td sub target sh =
      if sub.bs ≠ [] ∧ hasPrefix sub.bs sh = false then .error .runtime
      else entryWriteK td sub.bs sub.idx.items 0 { target := target, shape := sh } sh := by
  unfold subSet
  by_cases h : sub.bs ≠ [] ∧ (!hasPrefix sub.bs sh) = true
  · have h' : sub.bs ≠ [] ∧ hasPrefix sub.bs sh = false := ⟨h.1, by simpa using h.2⟩
    rw [if_pos h, if_pos h']
  · have h' : ¬ (sub.bs ≠ [] ∧ hasPrefix sub.bs sh = false) := by
      intro hc; exact h ⟨hc.1, by simp [hc.2]⟩
    rw [if_neg h, if_neg h']

/-! #### sub-tensordicts of sub-tensordicts: the write-back chain of `_SubTensorDict._set_at_str` (`Td.subsubSet`, `Td.writeThrough`)

`inner = td._get_sub_tensordict(i1)._get_sub_tensordict(i2)`; `inner[i3] = value` reads the window `td[key][i1][i2]` (selections `R1` on the
leaf, `R2` on `R1.shape`), writes `window[i3] = value` (write map `w3`) and assigns the windows back level by level: the root ends up with the
write map `writeThrough R1 (writeThrough R2 w3)`, whether or not a window was a view (the defect of seeded mutant C03-5). -/

/-- **Frame.** A root position keeps its content unless it is the source (through `R1` then `R2`) of a window cell `window[i3] = value` wrote. -/
theorem subsub_write_frame (R1 R2 : IndexResult) (w3 : List Nat → Option (List Nat)) (p : List Nat)
    (h : ∀ q ∈ coords R1.shape, R1.src q = p → ∀ r ∈ coords R2.shape, R2.src r = q → w3 r = none) :
    writeThrough R1 (writeThrough R2 w3) p = none :=
  writeThrough_frame R1 _ p (fun q hq hqp => writeThrough_frame R2 w3 q (fun r hr hrq => h q hq hqp r hr hrq))

/-- **Hit.** When neither window repeats an element (`R1`, `R2` injective on their coordinates — e.g. no repeated row in an index array),
the root element `R1.src (R2.src r)` receives exactly what `window[i3] = value` put into cell `r` — through a view or through a copy alike.
(`R2` is torch's selection on the first window, so `R2.src r` is a cell of it by `src_in_bounds`.) -/
theorem subsub_write_hit (dims : Shape) (items1 items2 : List Ix) (R1 R2 : IndexResult) (w3 : List Nat → Option (List Nat))
    (h1 : index dims items1 = .ok R1) (h2 : index R1.shape items2 = .ok R2)
    (hinj1 : ∀ q1 ∈ coords R1.shape, ∀ q2 ∈ coords R1.shape, R1.src q1 = R1.src q2 → q1 = q2)
    (hinj2 : ∀ q1 ∈ coords R2.shape, ∀ q2 ∈ coords R2.shape, R2.src q1 = R2.src q2 → q1 = q2)
    (r : List Nat) (hr : r ∈ coords R2.shape) :
    writeThrough R1 (writeThrough R2 w3) (R1.src (R2.src r)) = w3 r ∧ R1.src (R2.src r) ∈ coords dims := by
  have hq : R2.src r ∈ coords R1.shape := index_src_inB R1.shape items2 R2 h2 r hr
  refine ⟨?_, index_src_inB dims items1 R1 h1 _ hq⟩
  rw [writeThrough_hit R1 _ (R2.src r) hinj1 hq, writeThrough_hit R2 w3 r hinj2 hr]

/-- **`inner[i3] = value` on a sub-tensordict of a sub-tensordict is the write-back chain over torch's selections.** For Ellipsis-free tuple
indices with `i1` accepted by torch on the batch shape (result `R1`) and `i2` accepted on `R1.shape` (result `R2`): whenever
`td._get_sub_tensordict(i1)._get_sub_tensordict(i2)[i3] = value` succeeds, the write map of every root leaf `bs ++ feat` is
`writeThrough R1' (writeThrough R2' w3)` where `R1'` / `R2'` are torch's selections `R1` / `R2` acting on the batch coordinates only
(`LeafOk`) and `w3` is torch's write map of `window[i3] = value` on the window `R2.shape ++ feat`. With `subsub_write_frame` /
`subsub_write_hit` this says which root elements change and to what. -/
theorem subsub_set_is_write_through (td : TD) (items1 items2 items3 : List Ix) (R1 R2 : IndexResult) (v : Shape)
    (ws : List (List Nat → Option (List Nat)))
    (hn1 : noEll items1 = true) (hn2 : noEll items2 = true) (hn3 : noEll items3 = true)
    (h1 : index td.bs items1 = .ok R1) (h2 : index R1.shape items2 = .ok R2)
    (h : subsubSet td (.tuple items1) (.tuple items2) (.tuple items3) v = .ok ws) :
    Forall2 (fun feat w => ∃ R1' R2' w3, index (td.bs ++ feat) items1 = .ok R1' ∧ LeafOk R1 feat R1' ∧
        index R1'.shape items2 = .ok R2' ∧ LeafOk R2 feat R2' ∧
        setIndex (R2.shape ++ feat) items3 v = .ok w3 ∧ w = writeThrough R1' (writeThrough R2' w3)) td.leaves ws := by
  have hany : ∀ items : List Ix, noEll items = true → items.any (· = Ix.ell) = false := by
    intro items hn
    simp only [noEll, List.all_eq_true, bne_iff_ne, ne_eq] at hn
    simpa using hn
  obtain ⟨-, P1, hw1, hf1⟩ := index_inv h1
  have hb1 := getitemBatchSize_tuple td.bs items1 _ P1 R1 hn1 hw1 hf1
  obtain ⟨-, P2, hw2, hf2⟩ := index_inv h2
  have hb2 := getitemBatchSize_tuple R1.shape items2 _ P2 R2 hn2 hw2 hf2
  have ho : subInit td (.tuple items1) = .ok { idx := .tuple items1, bs := R1.shape } := by
    simp [subInit, PyIndex.items, hany items1 hn1, hb1, bind, Except.bind, pure, Except.pure]
  have hi : subInit { td with bs := R1.shape } (.tuple items2) = .ok { idx := .tuple items2, bs := R2.shape } := by
    simp [subInit, PyIndex.items, hany items2 hn2, hb2, bind, Except.bind, pure, Except.pure]
  unfold subsubSet at h
  simp only [ho, hi, bind, Except.bind, hany items3 hn3, Bool.false_eq_true, if_false] at h
  cases hc : checkIndexNdim (.tuple items3) R2.shape.length with
  | error e => simp [hc] at h
  | ok u =>
    simp only [hc] at h
    refine Forall2.imp (mapM_ok_inv _ _ h) ?_
    intro feat w hfw
    obtain ⟨R1', hR1', hok1⟩ := leaf_commutes td.bs feat items1 R1 hn1 h1
    obtain ⟨R2', hR2', hok2⟩ := leaf_commutes R1.shape feat items2 R2 hn2 h2
    rw [← hok1.1] at hR2'
    simp only [leafGet, PyIndex.items, hR1', hR2'] at hfw
    cases hs : setIndex R2'.shape items3 v with
    | error e => simp [hs] at hfw
    | ok w3 =>
      simp only [hs, pure, Except.pure, Except.ok.injEq] at hfw
      refine ⟨R1', R2', w3, hR1', hok1, hR2', hok2, ?_, hfw.symm⟩
      rw [← hok2.1]; exact hs

/-! ### aliasing -/

/-- **Shares memory iff basic.** torch's result is a view of the source exactly when every item of the index is basic
(int, 0-d integer tensor, slice, `None`, Ellipsis); any list / range / index tensor / mask makes it a copy.
By `leaf_index_commutes` / `GoodRes` every leaf of `td[idx]` carries the same bit, and `return self` happens only
for identity views (`getitem_tuple_eq_torch`). -/
theorem shares_memory_iff_basic (dims : Shape) (items : List Ix) (R : IndexResult) (h : index dims items = .ok R) :
    R.view = items.all isBasic := by
  obtain ⟨-, P, hw, hf⟩ := index_inv h
  obtain ⟨B, -, -, -, hview⟩ := finalize_ok hf
  rw [hview]; exact advShapes_walk_iff items _ dims P hw

/-! ### the excluded point of the grammar: more than one Ellipsis -/

/-- All theorems above take an index with at most one Ellipsis. The exclusion is real: torch 2.14 accepts `x[..., ...]`
(identity), `convert_ellipsis_to_idx` raises "An index can only have one ellipsis at most". Outside the property's grammar
("Ellipsis", as in numpy, where a second one is an error); recorded on every run in the evidence notes. -/
theorem two_ellipses_counterexample :
    indexShape [2, 3] [Ix.ell, Ix.ell] = .ok [2, 3] ∧
    convertEllipsis (.tuple [Ix.ell, Ix.ell]) 2 = .error .runtime ∧
    ∃ e, getitem { bs := [2, 3], names := none, leaves := [[]], nested := [] } (.tuple [Ix.ell, Ix.ell]) = .error e := by
  refine ⟨by decide, by decide, .runtime, ?_⟩
  simp [getitem, convertEllipsis, ellLoop, PyIndex.items]

/-! ### sanity of the spec -/

/-- **TorchSpec addresses every source dim exactly once**: whatever the index, the source coordinate of a result element
has the rank of the indexed tensor (ints, slices and index arrays each contribute their dims, `None` contributes none,
the Ellipsis and the implicit tail the rest). -/
theorem src_rank (dims : Shape) (items : List Ix) (R : IndexResult) (h : index dims items = .ok R) (c : List Nat) :
    (R.src c).length = dims.length := by
  obtain ⟨-, P, hw, hf⟩ := index_inv h
  obtain ⟨B, -, -, hsrc, -⟩ := finalize_ok hf
  rw [hsrc, ← walk_consumed items _ dims P hw]
  unfold srcCoord
  split <;> exact walkSrc_length _ P _

/-- **TorchSpec never reads outside the tensor** (soundness of the trusted spec, proved, not only tested): for every index the
spec accepts — positive-step slices of every start / stop sign, ints, `None`, Ellipsis, any number of index arrays and masks,
negative index values — every coordinate of the result maps to a coordinate of the source tensor. Together with `src_rank` the
coordinate map of `index` is a genuine selection of source elements. (Uses only the spec's own acceptance tests: the bounds
check on gathered elements and the size-0 indexed-dim rule are exactly what is needed, no well-formedness of masks assumed.) -/
theorem src_in_bounds (dims : Shape) (items : List Ix) (R : IndexResult) (h : index dims items = .ok R)
    (c : List Nat) (hc : c ∈ coords R.shape) : R.src c ∈ coords dims :=
  index_src_inB dims items R h c hc

/-- **A basic index never selects an element twice.** For every index made of ints, 0-d integer tensors, slices, `None` and an Ellipsis that
torch accepts, distinct coordinates of the result are distinct elements of the source (a select is constant, a slice moves with a positive
step — torch rejects the others —, a new dim has size 1). So a write through a basic index has no "which copy wins" question at all. -/
theorem basic_index_selects_each_element_once (dims : Shape) (items : List Ix) (R : IndexResult)
    (h : index dims items = .ok R) (hb : items.all isBasic = true) :
    ∀ c1 ∈ coords R.shape, ∀ c2 ∈ coords R.shape, R.src c1 = R.src c2 → c1 = c2 :=
  index_src_inj_of_basic dims items R h hb

/-- **Hit, basic indices (exact).** `td[idx] = value` with a basic Ellipsis-free index: the leaf element `R.src c ++ f` receives exactly the
element of the (broadcast) value meant for the coordinate `c ++ f` of the indexed region — no alternative. -/
theorem setitem_hit_basic (bs feat : Shape) (items : List Ix) (v : Shape) (R : IndexResult)
    (w : List Nat → Option (List Nat)) (hn : noEll items = true) (hb : items.all isBasic = true)
    (h : index bs items = .ok R) (hw : setIndex (bs ++ feat) items v = .ok w)
    (c f : List Nat) (hc : c ∈ coords R.shape) (hf : f ∈ coords feat) :
    w (R.src c ++ f) = some (valueCoord v (R.shape ++ feat) (c ++ f)) := by
  obtain ⟨c2, hc2, f2, hf2, heq, hval⟩ := setitem_hit bs feat items v R w hn h hw c f hc hf
  have hl : (R.src c2).length = (R.src c).length := by
    rw [src_rank bs items R h c2, src_rank bs items R h c]
  obtain ⟨e1, e2⟩ := List.append_inj heq hl
  have := index_src_inj_of_basic bs items R h hb c2 hc2 c hc e1
  rw [hval, this, e2]

/-- **Hit through two basic sub-tensordicts (exact; the domain of seeded mutant C03-5).** With basic `i1`, `i2` no window repeats an
element, so `inner[i3] = value` puts into the root element `R1.src (R2.src r)` exactly what `window[i3] = value` put into cell `r`. -/
theorem subsub_write_hit_basic (dims : Shape) (items1 items2 : List Ix) (R1 R2 : IndexResult) (w3 : List Nat → Option (List Nat))
    (h1 : index dims items1 = .ok R1) (h2 : index R1.shape items2 = .ok R2)
    (hb1 : items1.all isBasic = true) (hb2 : items2.all isBasic = true)
    (r : List Nat) (hr : r ∈ coords R2.shape) :
    writeThrough R1 (writeThrough R2 w3) (R1.src (R2.src r)) = w3 r ∧ R1.src (R2.src r) ∈ coords dims :=
  subsub_write_hit dims items1 items2 R1 R2 w3 h1 h2 (index_src_inj_of_basic dims items1 R1 h1 hb1)
    (index_src_inj_of_basic R1.shape items2 R2 h2 hb2) r hr

/-- **`set_at_` with a nested-tuple index writes through views only.** `td.set_at_(key, value, (i1, i2))` (the `_sub_index` branch of
`_set_at_str`: `entry[i1][i2].copy_(value)`), for `i1` accepted by torch on the entry (result `R1`) and `i2` on `R1.shape` (result `R2`):
when it succeeds the value broadcasts to `R2.shape` as `copy_` requires, and
* if some item of `i1` or `i2` is an index array / list / range / mask, NOTHING is written (the value goes into a temporary — the hazard the
  code warns about, here exactly delimited);
* if all items are basic, the entry element `R1.src (R2.src r)` receives exactly the value element meant for `r`, for every cell `r` of the
  window, and every other element of the entry is untouched. -/
theorem set_at_nested_index (shape : Shape) (i1 i2 : List Ix) (v : Shape) (R1 R2 : IndexResult)
    (w : List Nat → Option (List Nat))
    (h1 : index shape i1 = .ok R1) (h2 : index R1.shape i2 = .ok R2) (h : setAtMulti shape i1 i2 v = .ok w) :
    (v.length ≤ R2.shape.length ∧ valueOk v R2.shape = true) ∧
    ((i1 ++ i2).all isBasic = false → ∀ p, w p = none) ∧
    ((i1 ++ i2).all isBasic = true →
      (∀ r ∈ coords R2.shape, w (R1.src (R2.src r)) = some (valueCoord v R2.shape r)) ∧
      ∀ p, (∀ r ∈ coords R2.shape, R1.src (R2.src r) ≠ p) → w p = none) := by
  have hv1 := shares_memory_iff_basic shape i1 R1 h1
  have hv2 := shares_memory_iff_basic R1.shape i2 R2 h2
  have hall : (i1 ++ i2).all isBasic = (R1.view && R2.view) := by rw [List.all_append, hv1, hv2]
  unfold setAtMulti at h
  simp only [h1, h2, bind, Except.bind] at h
  by_cases hok : (decide (v.length ≤ R2.shape.length) && valueOk v R2.shape) = true
  · simp only [hok, Bool.not_true, Bool.false_eq_true, if_false] at h
    refine ⟨by simpa using hok, ?_, ?_⟩
    · intro hb
      rw [hall] at hb
      simp only [hb, Bool.false_eq_true, if_false, pure, Except.pure, Except.ok.injEq] at h
      intro p; rw [← h]
    · intro hb
      have hb' := hb
      rw [hall] at hb'
      simp only [hb', if_true, pure, Except.pure, Except.ok.injEq] at h
      rw [List.all_append, Bool.and_eq_true] at hb
      subst h
      refine ⟨fun r hr => (subsub_write_hit_basic shape i1 i2 R1 R2 _ h1 h2 hb.1 hb.2 r hr).1, ?_⟩
      intro p hp
      apply subsub_write_frame
      intro q _ hqp r hr hrq
      exact absurd (by rw [hrq, hqp]) (hp r hr)
  · simp [hok] at h

/-- **Reading through a sub-tensordict of a sub-tensordict is torch applied twice to the batch dims.** For Ellipsis-free tuple indices,
`i1` accepted by torch on the batch shape (result `R1`) and `i2` accepted on `R1.shape` (result `R2`):
`td._get_sub_tensordict(i1)._get_sub_tensordict(i2).get(key)` is, for every leaf `bs ++ feat`, a tensor of shape `R2.shape ++ feat` holding at
`c ++ f` the root element `R1.src (R2.src c) ++ f`, a view of the root exactly when both selections are views. -/
theorem subsub_get_is_torch_twice (td : TD) (items1 items2 : List Ix) (R1 R2 : IndexResult) (j : Nat) (feat : Shape)
    (hn1 : noEll items1 = true) (hn2 : noEll items2 = true)
    (h1 : index td.bs items1 = .ok R1) (h2 : index R1.shape items2 = .ok R2) (hj : td.leaves[j]? = some feat) :
    ∃ R', subsubGet td { idx := .tuple items1, bs := R1.shape } { idx := .tuple items2, bs := R2.shape } j = .ok R' ∧
      LeafOk { shape := R2.shape, src := fun c => R1.src (R2.src c), view := R1.view && R2.view } feat R' := by
  obtain ⟨R1', hR1', hok1⟩ := leaf_commutes td.bs feat items1 R1 hn1 h1
  obtain ⟨R2', hR2', hok2⟩ := leaf_commutes R1.shape feat items2 R2 hn2 h2
  rw [← hok1.1] at hR2'
  refine ⟨{ shape := R2'.shape, src := fun c => R1'.src (R2'.src c), view := R1'.view && R2'.view }, ?_, ?_⟩
  · simp [subsubGet, hj, leafGet, PyIndex.items, hR1', hR2', bind, Except.bind, pure, Except.pure]
  · refine ⟨hok2.1, by simp [hok1.2.1, hok2.2.1], ?_⟩
    intro c f hc hf
    show R1'.src (R2'.src (c ++ f)) = R1.src (R2.src c) ++ f
    rw [hok2.2.2 c f hc hf, hok1.2.2 (R2.src c) f (src_rank R1.shape items2 R2 h2 c) hf]

/-! ### dim names

`_get_names_idx` after the fix: commit "one name per dim of an advanced-indexed result": index arrays are replaced, as in
`_getitem_batch_size`, by the dims of their broadcast shape (in place when adjacent, in front when separated).
Proved for ALL Ellipsis-free tuple indices torch accepts (`names_follow_index`): the result names are `namesSpec P B names nm` —
every sliced dim keeps its name, every new dim is `None`, ints and index arrays drop the names of the dims they take, and the
broadcast dims sit exactly where torch puts them, all carrying one name `nm`. What `nm` is (the indexed dim's name for a single
index array — pinned by the repo test `test_index_tensor_nd_names` —, `None` for a mask or several arrays) is the library's
convention: torch has no names for advanced indexing, so there is nothing to prove it against; the correspondence compares it.
Corollaries: one name per result dim (`names_one_per_dim`), the basic case without any convention (`names_follow_index_basic`).
The former `names_follow_index_counterexample` (4 names for 3 dims) is now an `example` of the theorem. -/

/-- **Names follow the index.** (full statement; replaces the former `_partial` + counter-example) -/
theorem names_follow_index (names : Names) (bs : Shape) (items : List Ix) (R : IndexResult)
    (hn : noEll items = true) (hlen : names.length = bs.length) (h : index bs items = .ok R) :
    ∃ P B nm, walk (bs.length - specified items) bs items = .ok P ∧ broadcastAll (advShapes P) = some B ∧
      namesIdx (some names) bs.length (.tuple items) = .ok (normNames (namesSpec P B names nm)) :=
  namesIdx_spec names bs items R hn hlen h

/-- **One name per dim of the result.** For every Ellipsis-free tuple index torch accepts on the batch shape with result `R` —
basic or advanced, any number of index arrays, adjacent or not, `None` anywhere, masks of any rank, lone masks — `_get_names_idx`
succeeds and returns either `None` or exactly `R.shape.length` names. -/
theorem names_one_per_dim (names : Names) (bs : Shape) (items : List Ix) (R : IndexResult)
    (hn : noEll items = true) (hlen : names.length = bs.length) (h : index bs items = .ok R) :
    ∃ nm, namesIdx (some names) bs.length (.tuple items) = .ok nm ∧ ∀ l, nm = some l → l.length = R.shape.length :=
  namesIdx_length names bs items R hn hlen h

/-- **Names follow the index, basic indices** (no convention involved). For every Ellipsis-free tuple of ints, 0-d integer tensors, slices and
`None`s accepted on the batch shape, `_get_names_idx` returns exactly the names torch's plan induces: a selected dim loses
its name, a sliced dim keeps it, a new dim gets `None` (and `None` overall when no name is left). -/
theorem names_follow_index_basic (names : Names) (bs : Shape) (items : List Ix) (R : IndexResult)
    (hb : basicNoEll items = true) (hlen : names.length = bs.length) (h : index bs items = .ok R) :
    ∃ P, walk (bs.length - specified items) bs items = .ok P ∧
      namesIdx (some names) bs.length (.tuple items) = .ok (normNames (pieceNames P names)) ∧
      (pieceNames P names).length = R.shape.length := by
  obtain ⟨hs, P, hw, hf⟩ := index_inv h
  refine ⟨P, hw, namesIdx_basic names bs items P hb hlen hs hw, ?_⟩
  obtain ⟨B, hB, hshape, -, -⟩ := finalize_ok hf
  have hadv : (advShapes P).isEmpty = true := by
    rw [advShapes_walk_iff items _ bs P hw]
    simp only [basicNoEll, List.all_eq_true, Bool.and_eq_true] at hb ⊢
    exact fun x hx => (hb x hx).1
  have hna : hasAdv P = false := by simp [hasAdv, hadv]
  rw [hshape, outShape_length, hna]
  simp only [Bool.false_eq_true, if_false, Nat.add_zero]
  -- one name per stream dim
  have : ∀ (P : List Piece) (ns : Names), hasAdv P = false → (pieceNames P ns).length = streamLen P := by
    intro P
    induction P with
    | nil => intro _ _; rfl
    | cons p r ih =>
      intro ns h
      cases p with
      | adv a b c => simp [hasAdv, advShapes] at h
      | sel n i => simpa [pieceNames, streamLen] using ih _ (by simpa [hasAdv, advShapes] using h)
      | sl n a b c => simp [pieceNames, streamLen, ih _ (by simpa [hasAdv, advShapes] using h)]; omega
      | new => simp [pieceNames, streamLen, ih _ (by simpa [hasAdv, advShapes] using h)]; omega
  exact this P names hna

/-- **Reads with dim names.** `getitem_tuple_eq_torch` needs no "unnamed" hypothesis (the lookups of `_get_names_idx` never
run out of range on an index torch accepts: `namesIdx_ok`); for basic indices the names of the result are moreover the ones of
`names_follow_index`. Instance for a named tensordict: -/
theorem getitem_tuple_eq_torch_named (td : TD) (names : Names) (items : List Ix) (R : IndexResult)
    (hn : noEll items = true) (hnames : td.names = some names) (hlen : names.length = td.bs.length)
    (h : index td.bs items = .ok R) :
    ∃ res, getitem td (.tuple items) = .ok res ∧ GoodRes td R res :=
  getitem_tuple_eq_torch td items R hn (by intro nm hnm; rw [hnames] at hnm; cases hnm; exact hlen) h

/-- the former counter-witness (batch `[3, 2, 4]` named `a, b, c`, `td[:, [0, 1], None, [0, 1]]`, batch size `[2, 3, 1]`): the code
returned the four names `a, b, None, c`; now three, the broadcast dim in front and unnamed -/
example :
    getitemBatchSize [3, 2, 4] (.tuple [slAll, .list [0, 1], .none, .list [0, 1]]) = .ok [2, 3, 1] ∧
    namesIdx (some [some "a", some "b", some "c"]) 3 (.tuple [slAll, .list [0, 1], .none, .list [0, 1]])
      = .ok (some [none, some "a", none]) := by
  constructor <;> decide
/-- a single n-d index tensor keeps (and repeats) the name of the dim it indexes; a 2-d mask in a tuple gives one unnamed dim -/
example :
    namesIdx (some [some "a", some "b", some "c"]) 3 (.tuple [slAll, .tensor [1, 2] [0, 1]]) = .ok (some [some "a", some "b", some "b", some "c"]) ∧
    namesIdx (some [some "a", some "b", some "c"]) 3 (.tuple [.mask [3, 2] [true, false, true, true, false, false], .int 0]) = .ok none := by
  constructor <;> decide

example : basicNoEll [.int 1, .none, .slice (some 0) none (some 2)] = true
    ∧ indexShape [2, 3] [.int 1, .none, .slice (some 0) none (some 2)] = .ok [1, 2]
    ∧ namesIdx (some [some "a", some "b"]) 2 (.tuple [.int 1, .none, .slice (some 0) none (some 2)])
        = .ok (some [none, some "b"]) := by
  refine ⟨?_, ?_, ?_⟩ <;> decide

/-! ### non-vacuity: the hypotheses are satisfiable by concrete, non-trivial values (and the conclusions are not trivial) -/

theorem index_ok_of_shape {dims : Shape} {items : List Ix} {s : Shape} (h : indexShape dims items = .ok s) :
    ∃ R, index dims items = .ok R ∧ R.shape = s := by
  unfold indexShape at h
  cases hR : index dims items with
  | error e => simp [hR, Except.map] at h
  | ok R => exact ⟨R, rfl, by simpa [hR, Except.map] using h⟩

/-- the former defect witnesses (DESIGN §7 row 7), now theorems' instances: torch's shape … -/
example : indexShape [3, 2, 4] [slAll, .list [0, 1], .none, .list [0, 1]] = .ok [2, 3, 1] := by decide
example : indexShape [3, 4, 2] [.tensor [] [0], slAll, .list [0, 1]] = .ok [4, 2] := by decide
/-- … and `_getitem_batch_size` agrees (by the theorem, not by evaluation) -/
example : getitemBatchSize [3, 2, 4] (.tuple [slAll, .list [0, 1], .none, .list [0, 1]]) = .ok [2, 3, 1] := by
  obtain ⟨R, hR, hs⟩ := index_ok_of_shape (by decide :
    indexShape [3, 2, 4] [slAll, .list [0, 1], .none, .list [0, 1]] = .ok [2, 3, 1])
  rw [← hs]; exact getitem_batch_size_eq _ _ R (by decide) hR
/-- adjacent index arrays stay in place, a 2-d mask spans two dims, an Ellipsis with a 2-d mask (§7 row 8) -/
example : indexShape [2, 3, 4] [slAll, .list [0, 1], .tensor [2, 1] [0, 1]] = .ok [2, 2, 2] := by decide
example : indexShape [2, 3, 4] [.mask [2, 3] [true, false, false, true, true, false], .ell] = .ok [3, 4] := by decide
example : ∃ items', convertEllipsis (.tuple ([.mask [2, 3] [true, false, false, true, true, false]] ++ Ix.ell :: [])) 3
      = .ok (.tuple items') ∧ getitemBatchSize [2, 3, 4] (.tuple items') = .ok [3, 4] := by
  obtain ⟨R, hR, hs⟩ := index_ok_of_shape (by decide :
    indexShape [2, 3, 4] ([.mask [2, 3] [true, false, false, true, true, false]] ++ Ix.ell :: []) = .ok [3, 4])
  obtain ⟨items', h1, -, h2⟩ := getitem_batch_size_eq_ellipsis [2, 3, 4] _ [] R (by decide) (by decide) hR
  exact ⟨items', h1, hs ▸ h2⟩
/-- a whole read: batch [2,3], a leaf of the batch shape, a leaf with a feature dim, a nested tensordict with an extra batch dim -/
example : ∃ res, getitem { bs := [2, 3], names := none, leaves := [[], [4]], nested := [{ extra := [5], leaves := [[]] }] }
      (.tuple [.list [1, 0], .ell]) = .ok res := by
  obtain ⟨R, hR, -⟩ := index_ok_of_shape (by decide : indexShape [2, 3] ([.list [1, 0]] ++ Ix.ell :: []) = .ok [2, 3])
  obtain ⟨res, h, -⟩ := getitem_ellipsis_eq_torch
    { bs := [2, 3], names := none, leaves := [[], [4]], nested := [{ extra := [5], leaves := [[]] }] } [.list [1, 0]] [] R
    (by decide) (by decide) (by intro names h; cases h) hR
  exact ⟨res, h⟩
/-- rejection is not vacuous: an out-of-range int, a negative step, a mask of the wrong size, too many indices -/
example : indexShape [2, 3] [.int 2] = .error .index ∧ indexShape [2, 3] [.slice none none (some (-1))] = .error .value
    ∧ indexShape [2, 3] [.mask [3] [true, true, false]] = .error .index
    ∧ indexShape [2] [.int 0, .int 0] = .error .index := by
  refine ⟨?_, ?_, ?_, ?_⟩ <;> decide
/-- the dim-count check of `__getitem__` (§7 row 6): `td[0, 0]` on batch [2] with a leaf [2, 3] is rejected -/
example : ∃ e, getitem { bs := [2], names := none, leaves := [[3]], nested := [] } (.tuple [.int 0, .int 0]) = .error e :=
  ⟨.index, by simp [getitem, getitemTail, checkIndexNdim, indexNdim, PyIndex.items]⟩
/-- writes: `x[:, [0, 0]] = v` (v of shape [2, 1]) writes position (0,0) and (1,0) and nothing else -/
example : ∃ w, setIndex [2, 3] [slAll, .list [0, 0]] [2, 1] = .ok w ∧ w [0, 0] = some [0, 0] ∧ w [1, 0] = some [1, 0]
    ∧ w [0, 1] = none ∧ w [1, 2] = none := by
  simp [setIndex, index, plan, specified, walk, consSlice, consAdv, finalize, advShapes, broadcastAll, broadcast2, bcRev,
    slAll, SliceSpec.indices, SliceSpec.rangeLen, Except.map, hasZeroIndexedDim, advInRange, outShape, kinds, contiguous,
    afterRun, outDims, valueOk, numel]
  refine ⟨?_, ?_, ?_, ?_⟩ <;> decide

/-- sub-tensordict of a sub-tensordict: `td._get_sub_tensordict((slice(1, None),))._get_sub_tensordict(([2, 0],))[0] = scalar` on batch [4, 3]
(the second window is a COPY): row 0 of the inner window is row 2 of the outer one is row 3 of the root, so the root leaf of shape [4, 3]
is written at [3, 1] and kept at [1, 1] / [2, 1]; the leaf of shape [4, 3, 2] is written at [3, 1, 1] and kept at [1, 1, 0] -/
example : (subsubSet { bs := [4, 3], names := none, leaves := [[], [2]], nested := [] }
      (.tuple [.slice (some 1) none none]) (.tuple [.list [2, 0]]) (.single (.int 0)) []).map
        (fun ws => ws.map (fun w => [w [3, 1], w [1, 1], w [2, 1], w [3, 1, 1], w [1, 1, 0]]))
      = .ok [[some [], none, none, none, none], [none, none, none, some [], none]] := by decide

end TdVerif.Props.C03
