/-
  C01 — batch-shape / device / dim-name coherence in every reachable state: property theorems.

  Model  : Model/C01Coherence.lean (metadata tree; transcriptions of _validate_value, _set_tuple, _batch_size_setter,
           _check_new_batch_size, names setter / _rename_subtds, del_, rename_key_, create_nested, clear — incl. the
           partial effects of calls that raise)
  Lemmas : Lemmas/C01.lean
-/
import TdVerif.Model.C01Coherence
import TdVerif.Lemmas.C01
import TdVerif.Model.C01Lazy
import TdVerif.Lemmas.C01Lazy
import TdVerif.Lemmas.C01UpdateBs

namespace TdVerif.Props.C01
open TdVerif TdVerif.C01

/-! ## the building blocks -/

/-- `td.names = value` never changes a batch size or a device and keeps the tree coherent — also when it raises
half way through the nested tensordicts (`_rename_subtds`). -/
theorem names_assignment_coherent (v : Option DimNames) (t : M) (hc : Coherent t) :
    Coherent (setNamesM v t).1 ∧ (setNamesM v t).1.shape = t.shape := by
  have := setNamesM_spec v t hc
  exact ⟨this.2.2, this.1⟩

/-- `td.batch_size = new` (repaired `_batch_size_setter`, DESIGN §7 rows 18 and 19 and the dim-name clash) on a coherent node:
  * it answers ok, RuntimeError (incompatible entry) or ValueError (a dim name pushed into a nested tensordict clashes);
  * whenever it raises NOTHING has changed — no nested tensordict has grown (row 19), the batch sizes and names that were
    modified before a dim-name clash are put back;
  * on success the tree is coherent with the new batch size — empty nested tensordicts included (row 18) — on the same device;
  * the tree is coherent in every case. -/
theorem batch_size_assignment (new bs : Shape) (dv : Option Nat) (ns : Option DimNames) (kids : Kids)
    (hc : Coherent (.node bs dv ns kids)) :
    let r := setBatchM new (.node bs dv ns kids)
    (r.2 = .ok ∨ r.2 = .err .runtime ∨ r.2 = .err .value) ∧
    (r.2 ≠ .ok → r.1 = .node bs dv ns kids) ∧
    (r.2 = .ok → Coherent r.1 ∧ r.1.shape = new ∧ ∀ d, r.1.onDev d = (dv == some d)) ∧
    Coherent r.1 :=
  setBatchM_spec new bs dv ns kids hc

/-- `_validate_value`: whatever the value and whatever happens (shape rejected, device move impossible, names
refused, names adopted by the container) the container stays coherent, and a value that is accepted fits the
container (leading dims = batch size, on the container's device) and is itself coherent. -/
theorem validated_value_fits (bs : Shape) (dv : Option Nat) (names : Option DimNames) (kids : Kids) (value : M)
    (hc : Coherent (.node bs dv names kids)) (hv : Coherent value) :
    let r := validate bs dv names kids value
    Coherent (.node bs dv r.1 r.2.1) ∧ (∀ v', r.2.2 = .ok v' → fits bs dv v' ∧ Coherent v') :=
  validate_spec bs dv names kids value hc hv

/-- `rename_key_` (repaired): for every pair of keys and every outcome the tree stays coherent — the entry is
validated against its new container unless it stays in its nested tensordict or moves to one of its parents,
where it provably still fits; a new key extending the old one lands in auto-created copies of the old container. -/
theorem rename_key_coherent (old new : Path) (t : M) (hc : Coherent t) :
    Coherent (renamePath old new t).1 ∧ (renamePath old new t).1.shape = t.shape :=
  ⟨(renamePath_spec old new t hc).2.2, (renamePath_spec old new t hc).1⟩

/-- `update(payload)` with a (nested) dict payload: tensors are validated where they land, nested dicts are converted by the
tensordict that receives them (`_convert_to_tensordict`) or handed to the nested tensordict they meet; wherever the update
stops (an ill-shaped tensor, a key through a tensor, …) the tree is coherent. -/
theorem update_coherent (items : List (Path × PV)) (t : M) (hc : Coherent t) :
    Coherent (updateC (updMeasureC items) items t).1 ∧ (updateC (updMeasureC items) items t).1.shape = t.shape :=
  ⟨(updateC_spec _ items t hc).2.2, (updateC_spec _ items t hc).1⟩

/-- `update(payload)` with a (coherent) tensordict payload: after the loose batch-size test, every entry is validated where it
lands; a nested tensordict meeting a nested tensordict is handed to that tensordict's own `update` (same test one level
down); wherever the update stops — batch sizes that cannot be reconciled, an ill-shaped tensor below, a device that cannot be
left — the receiver is coherent and keeps its batch size. -/
theorem update_tensordict_coherent (payload t : M) (hc : Coherent t) (hp : Coherent payload) :
    Coherent (updateTdM payload t).1 ∧ (updateTdM payload t).1.shape = t.shape :=
  ⟨(updateTdM_spec payload t hc hp).2.2, (updateTdM_spec payload t hc hp).1⟩

/-- `auto_batch_size_(batch_dims)` (`_set_max_batch_size`, repaired) on a coherent tensordict, for every `batch_dims`:
  * it answers ok or ValueError — the batch size it computes (the leading dims shared by the first entry and every
    other entry that is not an empty nested tensordict, nested tensordicts first) is NEVER refused as incompatible
    with an entry (no RuntimeError), although the nested tensordicts were resized before;
  * when it returns normally the whole tree is coherent again — nested tensordicts that were cut to `batch_dims`
    dims or stretched to their own maximum fit the batch size their parent ends up with — and on the same device;
  * when it raises nothing has changed; the tree is coherent in every case. -/
theorem auto_batch_size_coherent (bd : Option Nat) (bs : Shape) (dv : Option Nat) (ns : Option DimNames) (kids : Kids)
    (hc : Coherent (.node bs dv ns kids)) :
    let r := autoBatchM bd (.node bs dv ns kids)
    (r.2 = .ok ∨ r.2 = .err .value) ∧ (r.2 = .ok → Coherent r.1 ∧ ∀ d, r.1.onDev d = (dv == some d)) ∧
    (r.2 ≠ .ok → r.1 = .node bs dv ns kids) ∧ Coherent r.1 :=
  autoBatchM_spec bd bs dv ns kids hc

/-- the batch size chosen by `_set_max_batch_size` is a common prefix: of the first entry's shape and of the shape of
every other entry that is not an empty nested tensordict — for every `batch_dims` limit -/
theorem auto_batch_size_common_prefix (bd : Option Nat) (first : Shape) (others : List (Shape × Bool)) :
    autoPrefix bd [] first others <+: first ∧
    ∀ sb ∈ others, sb.2 = false → autoPrefix bd [] first others <+: sb.1 := by
  have := autoPrefix_spec bd first [] [] others (List.prefix_refl _) (fun _ => rfl)
  simpa using this

/-- restructuring in place — `exclude(*keys, inplace=True)`, `flatten_keys(sep, inplace=True)` (repaired),
`unflatten_keys(sep, inplace=True)` — keeps the tree coherent for every outcome: excluded entries simply leave; the leaves
that `flatten_keys` writes at the root with `validated=True` (no check) DO fit the root, because batch sizes extend one another
and a device set on a tensordict is shared by everything below (`leavesM_fit`); `unflatten_keys` is a loop of validated
`rename_key_(name, name.split(sep), safe=True)` whose partial effects (a later name refused) are coherent too. -/
theorem restructure_in_place_coherent (t : M) (hc : Coherent t) :
    (∀ keys, Coherent (excludeM keys t).1 ∧ (excludeM keys t).1.shape = t.shape) ∧
    (∀ sep, Coherent (flattenM sep t).1 ∧ (flattenM sep t).1.shape = t.shape) ∧
    (∀ sep, Coherent (unflattenM sep t).1 ∧ (unflattenM sep t).1.shape = t.shape) :=
  ⟨fun keys => ⟨(excludeM_spec keys t hc).2.2, (excludeM_spec keys t hc).1⟩,
   fun sep => ⟨(flattenM_spec sep t hc).2.2, (flattenM_spec sep t hc).1⟩,
   fun sep => ⟨(unflattenM_spec sep t hc).2.2, (unflattenM_spec sep t hc).1⟩⟩

/-- writes into existing storage — `set_`, `set_at_`, `update_`, `update_at_`, `td[index] = value` (tensor, dict or tensordict
value, auto-created keys included): whatever the call did to the values, if what it did to the METADATA lies inside the
envelope `growsK` — every existing entry keeps its key, place, batch size, device and names at every depth, and an entry
that appears (only `td[index] = {new_key: …}` may do that) fits its container and is coherent — the tree stays coherent
and the node keeps its batch size. The check sends the state observed after every such call (accepted or raising) through
`writeM`: an effect outside the envelope is a broken correspondence. -/
theorem writes_into_storage_coherent (allowNew : Bool) (observed t : M) (hc : Coherent t) :
    Coherent (writeM allowNew observed t).1 ∧ (writeM allowNew observed t).1.shape = t.shape ∧
    ((writeM allowNew observed t).2 = .ok → ∃ bs dv ns kids kids', t = .node bs dv ns kids ∧
      (writeM allowNew observed t).1 = .node bs dv ns kids' ∧ growsK allowNew bs dv kids kids' = true) := by
  refine ⟨(writeM_spec allowNew observed t hc).2.2, (writeM_spec allowNew observed t hc).1, ?_⟩
  intro hok
  cases t with
  | leaf s d => simp [writeM] at hok
  | node bs dv ns kids =>
    cases observed with
    | leaf s d => simp [writeM] at hok
    | node bs' dv' ns' kids' =>
      simp only [writeM] at hok ⊢
      split at hok
      · rename_i h
        simp only [Bool.and_eq_true] at h
        exact ⟨bs, dv, ns, kids, kids', rfl, by rw [if_pos (by simpa using h)], h.2⟩
      · simp at hok

/-- `select(*keys, inplace=True)` seen on the metadata (which entries remain is C04's subject, `select_refines`): whatever it
selected, if the remaining entries are entries that were there — same key, batch size, device and names at every depth
(`shrinksK`; the order is free) — the tree stays coherent and the node keeps its batch size. The check sends the state
observed after every such call (accepted or raising) through `selectInM`. -/
theorem select_in_place_coherent (observed t : M) (hc : Coherent t) :
    Coherent (selectInM observed t).1 ∧ (selectInM observed t).1.shape = t.shape :=
  ⟨(selectInM_spec observed t hc).2.2, (selectInM_spec observed t hc).1⟩

/-- `update(payload, update_batch_size=True)` with a coherent tensordict payload (after the `fix:` commits d11e6ff / 45f58da): the
"mismatching batch sizes" head (every key of the receiver must be a key of the payload; `batch_size = ()`, the leaves excluded,
`batch_size = payload.batch_size`), the loop over the entries with the recursion into the nested tensordicts that meet a nested
tensordict, the flag `batch_size_changed`, the final adjustment `batch_size = (); auto_batch_size_(batch_dims)` and the exception
handler that runs the same adjustment (swallowing its own errors) before re-raising. In between, the tree is NOT coherent (a nested
tensordict already has the payload's batch size, the level above not yet); the theorem says that WHEREVER the call stops —
accepted, refused at the head, refused in the middle of the entries, at any depth — the receiver is coherent again, on the same
device. Before the two commits it was false (a nested tensordict of batch size [1] under [3,1]; a refused call leaving [3] under [0,3]). -/
theorem update_batch_size_coherent (payload t : M) (hp : Coherent payload) (hc : Coherent t) :
    Coherent (updateBsM payload t).1 ∧ ∀ d, (updateBsM payload t).1.onDev d = t.onDev d :=
  updateBsM_keeps payload t hp hc

/-! ## one step -/

/-- the value of a `set` is itself a coherent tensor / tensordict (what the constructors deliver) -/
def ValOk : Op → Prop
  | .set _ _ v => Coherent v
  | .setdefault _ _ v => Coherent v
  | .updateTd _ m => Coherent m
  | .updateBs _ m => Coherent m
  | _ => True

/-- scope of the property: a `batch_size` assigned through a nested handle — directly, by `auto_batch_size_` or by
`update(..., update_batch_size=True)` — still
extends the batch size of the node holding that tensordict ("shrinking a child's batch size below its parent's through a
direct handle" is the documented exclusion). On the root the condition is void. -/
def InScope (t : M) : Op → Prop
  | .setBatch h bs => handleOk bs h t
  | .autoBatch h bd => ∀ n, getPath h t = some n → handleOk (autoBatchM bd n).1.shape h t
  | .updateBs h m => ∀ n, getPath h t = some n → handleOk (updateBsM m n).1.shape h t
  | _ => True

/-- THE PROPERTY, one step: for every modelled operation — set, batch_size, names, del_, rename_key_, create_nested, clear,
pop, popitem, setdefault, refine_names, update with dict or tensordict payloads (also with update_batch_size=True), exclude / flatten_keys / unflatten_keys / select in place,
auto_batch_size_, and the writes into existing storage (set_, set_at_, update_, update_at_, `td[index] = value`) through their envelope — issued on the root or through any nested handle, and for EVERY outcome (accepted or raising, partial
effects included): a coherent tree stays coherent. `ValOk`: the written value is itself a coherent tensor / tensordict;
`InScope`: the property's documented exclusion (a child resized through a direct handle below its parent's batch size).
(Until the two `fix:` commits on `_batch_size_setter` / `auto_batch_size_` the statement needed two more hypotheses: a
`batch_size` assignment or an `auto_batch_size_` refused because of a dim-name clash left nested tensordicts resized.) -/
theorem step_coherent (t : M) (hc : Coherent t) (op : Op) (hv : ValOk op) (hs : InScope t op) : Coherent (step t op).1 := by
  cases op with
  | set h key v => exact (atPath_keeps _ (fun n hn => setPath_false_spec key v n hn hv) h t hc).2.2
  | setBatch h bs =>
    cases h with
    | nil =>
      cases t with
      | leaf s d => exact hc
      | node tbs dv ns kids =>
        simp only [step, atPath]
        exact (setBatchM_spec bs tbs dv ns kids hc).2.2.2
    | cons k rest => exact (atPath_setBatch_nested bs (k :: rest) (by simp) t hc hs).2.2
  | setNames h ns => exact (atPath_keeps _ (fun n hn => setNamesM_spec ns n hn) h t hc).2.2
  | del h key => exact (atPath_keeps _ (fun n hn => delPath_spec key n hn) h t hc).2.2
  | rename h o n => exact (atPath_keeps _ (fun n' hn' => renamePath_spec o n n' hn') h t hc).2.2
  | createNested h key => exact (atPath_keeps _ (fun n hn => createNested_spec key n hn) h t hc).2.2
  | clear h => exact (atPath_keeps _ (fun n hn => clearM_spec n hn) h t hc).2.2
  | pop h key => exact (atPath_keeps _ (fun n hn => popPath_spec key n hn) h t hc).2.2
  | popitem h => exact (atPath_keeps _ (fun n hn => popItem_spec n hn) h t hc).2.2
  | setdefault h key v => exact (atPath_keeps _ (fun n hn => setDefaultPath_spec key v n hn hv) h t hc).2.2
  | refineNames h ns => exact (atPath_keeps _ (fun n hn => refineNamesM_spec ns n hn) h t hc).2.2
  | update h items => exact (atPath_keeps _ (fun n hn => updateC_spec _ items n hn) h t hc).2.2
  | updateTd h m => exact (atPath_keeps _ (fun n hn => updateTdM_spec m n hn hv) h t hc).2.2
  | write h an obs => exact (atPath_keeps _ (fun n hn => writeM_spec an obs n hn) h t hc).2.2
  | selectIn h obs => exact (atPath_keeps _ (fun n hn => selectInM_spec obs n hn) h t hc).2.2
  | excludeIn h keys => exact (atPath_keeps _ (fun n hn => excludeM_spec keys n hn) h t hc).2.2
  | flattenIn h sep => exact (atPath_keeps _ (fun n hn => flattenM_spec sep n hn) h t hc).2.2
  | unflattenIn h sep => exact (atPath_keeps _ (fun n hn => unflattenM_spec sep n hn) h t hc).2.2
  | autoBatch h bd =>
    cases h with
    | nil =>
      cases t with
      | leaf s d => exact hc
      | node tbs dv ns kids =>
        simp only [step, atPath]
        exact (autoBatchM_spec bd tbs dv ns kids hc).2.2.2
    | cons k rest => exact (atPath_resize _ (autoBatchM_keeps bd) (k :: rest) (by simp) t hc hs).2.2
  | updateBs h m =>
    cases h with
    | nil =>
      simp only [step, atPath]
      exact (updateBsM_keeps m t hv hc).1
    | cons k rest => exact (atPath_resize _ (fun n hn => updateBsM_keeps m n hv hn) (k :: rest) (by simp) t hc hs).2.2

/-- histories: the side conditions along a run -/
def Safe (t : M) : List Op → Prop
  | [] => True
  | op :: ops => ValOk op ∧ InScope t op ∧ Safe (step t op).1 ops

/-- THE PROPERTY, histories: every state reachable from a coherent tree by any finite history of the modelled operations
— accepted or rejected, on the root or through nested handles — is coherent (induction over the op list; no bound). -/
theorem run_coherent : ∀ (ops : List Op) (t : M), Coherent t → Safe t ops → Coherent (run t ops)
  | [], _, hc, _ => hc
  | op :: ops, t, hc, hs =>
    run_coherent ops (step t op).1 (step_coherent t hc op hs.1 hs.2.1) hs.2.2

/-- A write that would break coherence is rejected instead of being stored: a rejected `set(k, v)` leaves the
node's entries exactly as they were (same keys in the same order, same shapes; at most dim names changed). -/
theorem reject_not_stored (k : String) (v : M) (bs : Shape) (dv : Option Nat) (ns : Option DimNames) (kids : Kids)
    (e : Err) (h : (step (.node bs dv ns kids) (.set [] [k] v)).2 = .err e) :
    ∃ ns' kids', (step (.node bs dv ns kids) (.set [] [k] v)).1 = .node bs dv ns' kids' ∧ entryMeta kids' = entryMeta kids := by
  simp only [step, atPath, setPath] at h ⊢
  have hm := validate_entryMeta bs dv ns kids v
  cases hval : validate bs dv ns kids v with
  | mk ns' rest =>
    cases rest with
    | mk kids' r =>
      rw [hval] at hm
      cases r with
      | error e' => exact ⟨ns', kids', by simp [hval], hm⟩
      | ok v' => simp [hval] at h

/-- …and an ill-shaped tensor is always rejected by a tensordict that has batch dims -/
theorem ill_shaped_leaf_rejected (k : String) (s : Shape) (d : Nat) (bs : Shape) (dv : Option Nat)
    (ns : Option DimNames) (kids : Kids) (hb : bs ≠ []) (hs : takeEq s bs = false) :
    (step (.node bs dv ns kids) (.set [] [k] (.leaf s d))).2 = .err .runtime := by
  simp [step, atPath, setPath, validate, valShape, hb, hs, M.shape]

/-! ## the repaired defects, as concrete statements -/

/-- DESIGN §7 row 18 (repaired): the empty nested tensordict follows -/
example : (step (.node [1] none none [("n", .node [1] none none [])]) (.setBatch [] [0])).1
    = .node [0] none none [("n", .node [0] none none [])] := by
  simp [step, atPath, setBatchM, restoreOnErr, checkNewBs, growKids, finishResize, childNew, takeEq, isEmptyK]

/-- DESIGN §7 row 19 (repaired): the rejected assignment leaves the nested tensordict alone -/
example : step (.node [2, 0] none none [("a", .leaf [2, 0] 0), ("n", .node [2] none none [("x", .leaf [2] 0)])]) (.setBatch [] [2, 3, 1])
    = (.node [2, 0] none none [("a", .leaf [2, 0] 0), ("n", .node [2] none none [("x", .leaf [2] 0)])], .err .runtime) := by
  simp [step, atPath, setBatchM, checkNewBs, takeEq, isEmptyK]

/-- the former known finding C01-batch-size-names-conflict (repaired; replayed on the implementation by the corpus): the
nested tensordict `c` used to keep batch size [3] when pushing its name "x" into `g` (named [None, "x"]) raised ValueError
while the parent kept [2]; now the refused assignment leaves the tree exactly as it was. -/
theorem setbatch_names_conflict_repaired :
    Coherent witT ∧ step witT (.setBatch [] [3]) = (witT, .err .value) := by
  refine ⟨?_, wit_eval⟩
  refine Coherent.node _ _ _ _ (by simp) ?_ ?_
  · intro k c hm; simp at hm; obtain ⟨_, rfl⟩ := hm
    exact ⟨by simp [M.shape, takeEq], by simp⟩
  · intro k c hm; simp at hm; obtain ⟨_, rfl⟩ := hm
    refine Coherent.node _ _ _ _ (by simp) ?_ ?_
    · intro k c hm; simp at hm; obtain ⟨_, rfl⟩ := hm
      exact ⟨by simp [M.shape, takeEq], by simp⟩
    · intro k c hm; simp at hm; obtain ⟨_, rfl⟩ := hm
      exact Coherent.node _ _ _ _ (by simp) (by simp) (by simp)

/-- The documented exclusion, stated so that it is visible: a batch size assigned through a direct handle to a nested
tensordict is accepted although it no longer extends the parent's (the child has no back-pointer) — exactly the case
`handleOk` rules out in `step_coherent`. -/
theorem shrink_via_child_out_of_scope :
    let t : M := .node [2] none none [("n", .node [2] none none [])]
    Coherent t ∧ ¬ handleOk [3] ["n"] t ∧ (step t (.setBatch ["n"] [3])).2 = .ok ∧ ¬ Coherent (step t (.setBatch ["n"] [3])).1 := by
  have hev : step (.node [2] none none [("n", .node [2] none none [])]) (.setBatch ["n"] [3])
      = (.node [2] none none [("n", .node [3] none none [])], .ok) := by
    simp [step, atPath, kget, kset, setBatchM, restoreOnErr, checkNewBs, growKids, finishResize]
  refine ⟨?_, by simp [handleOk, takeEq], by rw [hev], ?_⟩
  · refine Coherent.node _ _ _ _ (by simp) ?_ ?_
    · intro k c hm; simp at hm; obtain ⟨_, rfl⟩ := hm; exact ⟨by simp [M.shape, takeEq], by simp⟩
    · intro k c hm; simp at hm; obtain ⟨_, rfl⟩ := hm; exact Coherent.node _ _ _ _ (by simp) (by simp) (by simp)
  · rw [hev]
    exact not_coherent_of_child _ (.node [3] none none []) "n" (by simp [getPath, kget]) (by simp [M.shape, takeEq])

/-! ## a lazily stacked tensordict as root container (Model/C01Lazy.lean) -/

/-- histories on a lazy stack: the inserted members are themselves coherent tensordicts -/
def LSafe (L : LZ) : List LOp → Prop
  | [] => True
  | op :: ops => (∀ i m, op = .insert i m → Coherent m ∧ (L.members = [] → L.sd ≤ m.shape.length)) ∧ LSafe (lstep L op).1 ops

def lrun (L : LZ) : List LOp → LZ
  | [] => L
  | op :: ops => lrun (lstep L op).1 ops

/-- THE PROPERTY on a lazily stacked root: after `set` (string and nested keys, well- or ill-shaped tensors on any device),
`del_`, `rename_key_`, `names` assignment, `batch_size` assignment (refused), `insert` / `append` of any tensordict — and
after any finite history of them, accepted or raising, with the partial effects a `set` / `del_` / `rename_key_` that raises in the
middle of the members leaves behind — every member is a coherent tensordict and all members have the same batch size and device, into
which the stack dim fits: the entries of the stack have its batch size as leading dims and live on its device. -/
theorem lazy_root_coherent : ∀ (ops : List LOp) (L : LZ), LCoherent L → LSafe L ops → LCoherent (lrun L ops)
  | [], _, hc, _ => hc
  | op :: ops, L, hc, hs => lazy_root_coherent ops (lstep L op).1 (lstep_coherent L op hc hs.1) hs.2

/-- …and whenever the names of a coherent stack can be read there is exactly one per batch dim -/
theorem lazy_root_names (L : LZ) (hc : LCoherent L) (hne : L.members ≠ []) (ns : DimNames) (h : L.names = .ok ns) :
    ns.length = L.batchSize.length := by
  obtain ⟨bs, dv, hgood, hsd⟩ := hc
  have hsd' := hsd hne
  rw [lz_batchSize L bs dv hgood hne]
  unfold LZ.names at h
  cases hm : L.members with
  | nil => exact absurd hm hne
  | cons m r =>
    rw [hm] at h
    simp only at h
    split at h
    · simp at h; subst h
      have hmg := hgood m (by rw [hm]; simp)
      obtain ⟨xbs, xns, xk, rfl⟩ := good_device hmg
      have hxb : xbs = bs := hmg.2.2.1
      have hlen : (M.node xbs dv xns xk).namesList.length = bs.length := by
        simp only [M.namesList]
        cases xns with
        | none => simp [hxb]
        | some l => simp [hmg.1.names_len l rfl, hxb]
      simp only [insertAt, List.length_append, List.length_cons, List.length_take, List.length_drop, hlen]
    · simp at h

/-- …and the names of a stack STAY readable: on a coherent stack whose members agree on their dim names (what `stack.names`
needs: otherwise it raises "Not all dim names match"), no finite history of `set` / `del_` / `rename_key_` / names assignment /
`batch_size` assignment / `insert` / `append` — accepted or refused — makes them disagree. (`set`, `del_`, `rename_key_` do not
touch the dim names of the members themselves; an accepted names assignment gives every member the same names, a refused one
gives them all back — fix commit 23f256e, `_dim_names_snapshot`; `insert` / `append` compare or adopt the names — fix commit
b6fbc9a.) With `lazy_root_names`: at every point of the history there is exactly one readable name per batch dim. -/
theorem lazy_root_names_stay_readable : ∀ (ops : List LOp) (L : LZ), LCoherent L → LSafe L ops →
    (∃ ns, L.names = .ok ns) → ∃ ns, (lrun L ops).names = .ok ns
  | [], _, _, _, h => h
  | op :: ops, L, hc, hs, h =>
    lazy_root_names_stay_readable ops (lstep L op).1 (lstep_coherent L op hc hs.1) hs.2
      ((namesAgree_iff_readable _).mp (lstep_namesAgree L op hc ((namesAgree_iff_readable L).mpr h)))

/-- non-vacuity: a coherent nested tree and an incoherent one -/
example : Coherent (.node [3] (some 0) (some [some "x"]) [("a", .leaf [3, 2] 0), ("n", .node [3, 2] (some 0) none [])]) := by
  refine Coherent.node _ _ _ _ (by simp) ?_ ?_
  · intro k c hm; simp at hm
    rcases hm with ⟨_, rfl⟩ | ⟨_, rfl⟩ <;> exact ⟨by simp [M.shape, takeEq], by simp [M.onDev]⟩
  · intro k c hm; simp at hm
    rcases hm with ⟨_, rfl⟩ | ⟨_, rfl⟩
    · exact Coherent.leaf _ _
    · exact Coherent.node _ _ _ _ (by simp) (by simp) (by simp)

example : ¬ Coherent (.node [3, 2] none none [("a", .leaf [3] 0)]) :=
  not_coherent_of_child _ (.leaf [3] 0) "a" (by simp [getPath, kget]) (by simp [M.shape, takeEq])

end TdVerif.Props.C01
