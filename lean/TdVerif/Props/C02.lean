/-
  C02 — shape operations act as on a tensor of batch shape: property theorems.

  Reading guide.  `asBatch n t : T (T α)` is the batch view of a leaf (first `n` dims index
  feature blocks).  `≈ₜₜ` is extensional equality of batch views.  For every op:
    * `<op>_leaf_commutes`  — the torch call the closure makes on a leaf (`applyLeaf`, arguments as the
      code pads them) succeeds and, seen through the batch view, *is* the op applied to the batch dims,
      trailing feature dims untouched (shape and every element), for every rank / size / feature shape;
    * `<op>_batch_eq_torch` — the batch size the code computes arithmetically (`*Meta`) equals the shape
      torch gives a tensor of the batch shape, and the code rejects exactly when torch rejects
      (modulo the documented stricter cases, stated explicitly);
    * `<op>_names_travel`, `<op>_nested` — names follow their dims; a nested tensordict gets the same op
      with arguments padded for its longer batch, its extra dims untouched.
-/
import TdVerif.Model.C02Tensor
import TdVerif.Model.C02Td
import TdVerif.Lemmas.C02Basic
import TdVerif.Lemmas.C02Coord
import TdVerif.Lemmas.C02Meta
import TdVerif.Lemmas.C02Tree
import TdVerif.Lemmas.C02Unflatten
import TdVerif.Lemmas.C02Expand
import TdVerif.Lemmas.C02Cat
import TdVerif.Gen.C02Src
import TdVerif.Model.C02Pins

namespace TdVerif.Props.C02
open TdVerif.C02
variable {α : Type}

/-! ## leaf calls commute with the batch view -/

theorem transpose_leaf_commutes (t : T α) (i j n : Nat) (hi : i < n) (hj : j < n) (hn : n ≤ t.rank) :
    ∃ t', applyLeaf (.transpose i j) t = .ok t' ∧ asBatch n t' ≈ₜₜ (asBatch n t).transpose i j := by
  have hi' : i < t.rank := by omega
  have hj' : j < t.rank := by omega
  have h0 : t.rank ≠ 0 := by omega
  refine ⟨t.transpose i j, ?_, ?_⟩
  · simp [applyLeaf, Torch.transpose, wrapDim_ofNat hi', wrapDim_ofNat hj', h0]
  · apply asBatch_eqv2
    · simp [T.transpose, asBatch, swap_take _ _ _ _ hi hj]
    · intro c hc
      have hcl : c.length = n := by
        have := InB.length_eq hc; simp [T.transpose, swap_length] at this; unfold T.rank at hn; omega
      refine ⟨by simp [T.transpose, asBatch, swap_drop _ _ _ _ hi hj], ?_⟩
      intro f _
      simp [T.transpose, asBatch, swap_append_left c f i j (by omega) (by omega)]


theorem unsqueeze_leaf_commutes (t : T α) (d n : Nat) (hd : d ≤ n) (hn : n ≤ t.rank) :
    ∃ t', applyLeaf (.unsqueeze d) t = .ok t' ∧ asBatch (n + 1) t' ≈ₜₜ (asBatch n t).unsqueeze d := by
  unfold T.rank at hn
  have hdl : d ≤ t.shape.length := by omega
  refine ⟨t.unsqueeze d, ?_, ?_⟩
  · have : d < t.rank + 1 := by unfold T.rank; omega
    simp [applyLeaf, Torch.unsqueeze, normDim_ofNat this]
  · apply asBatch_eqv2
    · simp [T.unsqueeze, asBatch, insertIdx_take _ _ _ _ hd hn]
    · intro c hc
      have hcl : c.length = n + 1 := by
        have := InB.length_eq hc
        simp [T.unsqueeze, List.length_insertIdx_of_le_length hdl] at this; omega
      refine ⟨by simp [T.unsqueeze, asBatch, insertIdx_drop _ _ _ _ hd hn], ?_⟩
      intro f _
      simp [T.unsqueeze, asBatch, List.eraseIdx_append_of_lt_length (show d < c.length by omega)]

theorem squeeze_leaf_commutes (t : T α) (d n : Nat) (hd : d < n) (hn : n ≤ t.rank)
    (h1 : t.shape.getD d 0 = 1) :
    ∃ t', applyLeaf (.squeeze d) t = .ok t' ∧ asBatch (n - 1) t' ≈ₜₜ (asBatch n t).squeeze d := by
  unfold T.rank at hn
  have hd' : d < t.rank := by unfold T.rank; omega
  have hdl : d < t.shape.length := by omega
  have h0 : t.rank ≠ 0 := by omega
  have h1' : (asBatch n t).shape.getD d 0 = 1 := by
    simp [asBatch, List.getD_eq_getElem?_getD, List.getElem?_take, hd] at h1 ⊢; exact h1
  have hsq : (asBatch n t).squeeze d = (asBatch n t).select d 0 := by unfold T.squeeze; rw [if_pos h1']
  refine ⟨t.select d 0, ?_, ?_⟩
  · have : t.squeeze d = t.select d 0 := by unfold T.squeeze; rw [if_pos h1]
    simp [applyLeaf, Torch.squeeze, wrapDim_ofNat hd', h0, this]
  · rw [hsq]
    apply asBatch_eqv2
    · simp [T.select, asBatch, eraseIdx_take _ _ _ hd hn]
    · intro c hc
      have hcl : c.length = n - 1 := by
        have := InB.length_eq hc
        simp [T.select, List.length_eraseIdx_of_lt hdl] at this; omega
      refine ⟨by simp [T.select, asBatch, eraseIdx_drop _ _ _ hd hn], ?_⟩
      intro f _
      simp [T.select, asBatch, insertIdx_append_left c f d 0 (by omega)]


theorem permute_leaf_commutes (t : T α) (p : List Nat) (n : Nat) (hp : p.Perm (List.range n)) (hn : n ≤ t.rank) :
    ∃ t', applyLeaf (.permute p) t = .ok t' ∧ asBatch n t' ≈ₜₜ (asBatch n t).permute p := by
  have hpl : p.length = n := by simpa using hp.length_eq
  obtain ⟨k, hk⟩ : ∃ k, t.rank = n + k := ⟨t.rank - n, by omega⟩
  have hs : t.shape.length = n + k := hk
  have hpad := padPerm_perm p n k hp
  refine ⟨t.permute (p ++ List.range' n k), ?_, ?_⟩
  · have hw := wrapPerm_ofNats t.rank (p ++ List.range' n k) []
      (by intro x hx; have := hpad.mem_iff.1 hx; simp at this; omega)
      (hpad.nodup_iff.2 (List.nodup_range))
      (by simp)
    simp only [applyLeaf, Torch.permute, natsToInts, hpl, hk, Nat.add_sub_cancel_left]
    simp only [hk] at hw
    rw [hw]
    simp [hpl, Except.map]
  · apply asBatch_eqv2
    · simp only [T.permute, asBatch]; exact permShape_take p n k t.shape hp hs
    · intro c hc
      have hcl : c.length = n := by
        have := InB.length_eq hc
        simp only [T.permute] at this
        rw [permShape_take p n k t.shape hp hs] at this; simpa [hpl] using this
      refine ⟨by simp only [T.permute, asBatch]; exact permShape_drop p n k t.shape hp hs, ?_⟩
      intro f hf
      have hfl : f.length = k := by
        have := InB.length_eq hf
        simp only [T.permute] at this
        rw [permShape_drop p n k t.shape hp hs] at this; simp at this; omega
      simp only [T.permute, asBatch]
      rw [permSrc_pad p n k hp c f hcl hfl]


theorem flatten_leaf_commutes (t : T α) (a b n : Nat) (hab : a < b) (hb : b < n) (hn : n ≤ t.rank) :
    ∃ t', applyLeaf (.flatten a b) t = .ok t' ∧
      asBatch (n - (b - a)) t' ≈ₜₜ (asBatch n t).flatten a b := by
  unfold T.rank at hn
  have ha' : a < t.rank := by unfold T.rank; omega
  have hb' : b < t.rank := by unfold T.rank; omega
  have h0 : t.rank ≠ 0 := by omega
  refine ⟨t.flatten a b, ?_, ?_⟩
  · simp [applyLeaf, Torch.flatten, wrapDim_ofNat ha', wrapDim_ofNat hb', h0]; omega
  · have hblk : ((t.shape.take n).drop a).take (b + 1 - a) = (t.shape.drop a).take (b + 1 - a) := by
      apply List.ext_getElem?; intro k
      simp [List.getElem?_take, List.getElem?_drop]; grind
    have hsh : (t.shape.take a ++ [prod ((t.shape.drop a).take (b + 1 - a))] ++ t.shape.drop (b + 1)).take (n - (b - a))
        = (t.shape.take n).take a ++ [prod ((t.shape.drop a).take (b + 1 - a))] ++ (t.shape.take n).drop (b + 1) := by
      apply List.ext_getElem?; intro k
      simp [List.getElem?_take, List.getElem?_drop, List.getElem?_append, List.length_take]; grind
    have hdr : (t.shape.take a ++ [prod ((t.shape.drop a).take (b + 1 - a))] ++ t.shape.drop (b + 1)).drop (n - (b - a))
        = t.shape.drop n := by
      apply List.ext_getElem?; intro k
      simp [List.getElem?_take, List.getElem?_drop, List.getElem?_append, List.length_take]; grind
    apply asBatch_eqv2
    · simp only [T.flatten, asBatch, hblk]; exact hsh
    · intro c hc
      have hcl : c.length = n - (b - a) := by
        have := InB.length_eq hc
        simp only [T.flatten] at this; rw [hsh] at this; simp at this; omega
      refine ⟨by simp only [T.flatten, asBatch]; exact hdr, ?_⟩
      intro f _
      simp only [T.flatten, asBatch, hblk]
      rw [flatten_coord c f _ a (by omega)]

theorem unflatten_leaf_commutes (t : T α) (d n : Nat) (sz : Shape) (hd : d < n) (hn : n ≤ t.rank)
    (hne : sz ≠ []) (hprod : prod sz = t.shape.getD d 0) :
    ∃ t', applyLeaf (.unflatten d (natsToInts sz)) t = .ok t' ∧
      asBatch (n + sz.length - 1) t' ≈ₜₜ (asBatch n t).unflatten d sz := by
  unfold T.rank at hn
  have hd' : d < t.rank := by unfold T.rank; omega
  have h0 : t.rank ≠ 0 := by omega
  have hk : 0 < sz.length := List.length_pos_iff.2 hne
  refine ⟨t.unflatten d sz, ?_, ?_⟩
  · have hne' : natsToInts sz ≠ [] := by simpa [natsToInts] using hne
    have hinf := inferSize_ofNats sz _ hprod
    simp only [applyLeaf, Torch.unflatten, wrapDim_ofNat hd', h0, hne', if_false, hinf]
  · have hsh : (t.shape.take d ++ sz ++ t.shape.drop (d + 1)).take (n + sz.length - 1)
        = (t.shape.take n).take d ++ sz ++ (t.shape.take n).drop (d + 1) := by
      apply List.ext_getElem?; intro k
      simp [List.getElem?_take, List.getElem?_drop, List.getElem?_append, List.length_take]; grind
    have hdr : (t.shape.take d ++ sz ++ t.shape.drop (d + 1)).drop (n + sz.length - 1) = t.shape.drop n := by
      apply List.ext_getElem?; intro k
      simp [List.getElem?_take, List.getElem?_drop, List.getElem?_append, List.length_take]; grind
    apply asBatch_eqv2
    · simp only [T.unflatten, asBatch]; exact hsh
    · intro c hc
      have hcl : c.length = n + sz.length - 1 := by
        have := InB.length_eq hc
        simp only [T.unflatten] at this; rw [hsh] at this; simp at this; omega
      refine ⟨by simp only [T.unflatten, asBatch]; exact hdr, ?_⟩
      intro f _
      simp only [T.unflatten, asBatch]
      rw [unflatten_coord c f sz d (by omega)]

theorem reshape_leaf_commutes (t : T α) (n : Nat) (shape : Shape) (hn : n ≤ t.rank)
    (hprod : prod shape = prod (t.shape.take n)) :
    ∃ t', Torch.reshape (natsToInts (shape ++ t.shape.drop n)) t = .ok t' ∧
      asBatch shape.length t' ≈ₜₜ (asBatch n t).reshape shape := by
  have hsplit : t.shape = t.shape.take n ++ t.shape.drop n := (List.take_append_drop n t.shape).symm
  have hnum : prod (shape ++ t.shape.drop n) = prod t.shape := by
    rw [prod_append, hprod, ← prod_append, List.take_append_drop]
  refine ⟨t.reshape (shape ++ t.shape.drop n), ?_, ?_⟩
  · simp only [Torch.reshape, inferSize_ofNats _ _ hnum]
  · apply asBatch_eqv2
    · simp [T.reshape, asBatch]
    · intro c hc
      have hc' : InB c shape := by simpa [T.reshape] using hc
      refine ⟨by simp [T.reshape, asBatch], ?_⟩
      intro f hf
      have hf' : InB f (t.shape.drop n) := by simpa [T.reshape] using hf
      simp only [T.reshape, asBatch]
      have := reshape_coord (t.shape.take n) (t.shape.drop n) shape c f hc' hf' hprod
      rw [List.take_append_drop] at this
      rw [this]

theorem view_leaf_commutes (t : T α) (n : Nat) (shape : Shape) (hn : n ≤ t.rank)
    (hprod : prod shape = prod (t.shape.take n)) :
    ∃ t', applyLeaf (.view shape n) t = .ok t' ∧ asBatch shape.length t' ≈ₜₜ (asBatch n t).reshape shape :=
  reshape_leaf_commutes t n shape hn hprod

theorem reshapeCall_leaf_commutes (t : T α) (n : Nat) (shape : Shape) (hn : n ≤ t.rank)
    (hprod : prod shape = prod (t.shape.take n)) :
    ∃ t', applyLeaf (.reshape shape n) t = .ok t' ∧ asBatch shape.length t' ≈ₜₜ (asBatch n t).reshape shape :=
  reshape_leaf_commutes t n shape hn hprod

theorem expand_leaf_commutes (t : T α) (n : Nat) (shape : Shape) (hn : n ≤ t.rank) (hlen : n ≤ shape.length)
    (hcompat : ∀ i, i < n → t.shape.getD i 0 = 1 ∨ shape.getD (shape.length - n + i) 0 = t.shape.getD i 0) :
    ∃ t', applyLeaf (.expand shape n) t = .ok t' ∧
      asBatch shape.length t' ≈ₜₜ (asBatch n t).expand shape := by
  unfold T.rank at hn
  have harg : (if t.rank - n > 0 then shape ++ t.shape.drop (t.rank - (t.rank - n)) else shape)
      = shape ++ t.shape.drop n := by
    unfold T.rank
    by_cases h : t.shape.length - n > 0
    · simp only [h, if_true]; congr 2; omega
    · simp only [h, if_false]
      have : t.shape.drop n = [] := List.drop_eq_nil_iff.2 (by omega)
      simp [this]
  have hsz : expandSizes t.shape (natsToInts (shape ++ t.shape.drop n)) = .ok (shape ++ t.shape.drop n) := by
    apply expandSizes_ok
    · simp; omega
    · intro i hi
      have hL : (shape ++ t.shape.drop n).length - t.shape.length + i = shape.length - n + i := by
        simp; omega
      rw [hL]
      by_cases hin : i < n
      · rcases hcompat i hin with h | h
        · exact Or.inl h
        · right
          rw [← h]
          simp [List.getD_eq_getElem?_getD, List.getElem?_append_left (show shape.length - n + i < shape.length by omega)]
      · right
        have h1 : shape.length ≤ shape.length - n + i := by omega
        simp only [List.getD_eq_getElem?_getD, List.getElem?_append_right h1, List.getElem?_drop]
        congr 2; omega
  refine ⟨t.expand (shape ++ t.shape.drop n), ?_, ?_⟩
  · simp only [applyLeaf, harg, Torch.expand, hsz]; rfl
  · apply asBatch_eqv2
    · simp [T.expand, asBatch]
    · intro c hc
      have hcl : c.length = shape.length := by
        have := InB.length_eq hc; simpa [T.expand] using this
      refine ⟨by simp [T.expand, asBatch], ?_⟩
      intro f hf
      have hf' : InB f (t.shape.drop n) := by simpa [T.expand] using hf
      simp only [T.expand, asBatch]
      have := expandSrc_append (t.shape.take n) (t.shape.drop n) c f (by simp; omega) hf'
      rw [List.take_append_drop] at this
      rw [this]


/-- `squeeze()` (dim=None): the code views every leaf onto the batch without its size-1 dims; through the
batch view this is torch's `squeeze()` of the batch dims (feature dims of size 1 are *not* squeezed). -/
theorem squeezeAll_leaf_commutes (t : T α) (n : Nat) (hn : n ≤ t.rank) :
    ∃ t', applyLeaf (.view ((t.shape.take n).filter (· ≠ 1)) n) t = .ok t' ∧
      asBatch ((t.shape.take n).filter (· ≠ 1)).length t' ≈ₜₜ (asBatch n t).squeezeAll := by
  obtain ⟨t', h1, h2⟩ := view_leaf_commutes t n ((t.shape.take n).filter (· ≠ 1)) hn (prod_filter_ne_one _)
  exact ⟨t', h1, Eqv2.trans h2 (reshape_eqv_squeezeAll (asBatch n t))⟩

/-- repeat: the leaf call `leaf.repeat(*repeats, 1, …, 1)` tiles the batch dims and leaves the feature dims alone -/
theorem repeat_leaf_commutes (t : T α) (n : Nat) (r : List Nat) (hr : r.length = n) (hn : n ≤ t.rank) :
    asBatch n (t.repeat (r ++ List.replicate (t.rank - n) 1)) ≈ₜₜ (asBatch n t).repeat r := by
  unfold T.rank at hn
  have hsplit : t.shape = t.shape.take n ++ t.shape.drop n := (List.take_append_drop n t.shape).symm
  have hBl : (t.shape.take n).length = n := by simp; omega
  have hFl : (t.shape.drop n).length = t.shape.length - n := by simp
  have hshape : List.zipWith (· * ·) t.shape (r ++ List.replicate (t.rank - n) 1)
      = List.zipWith (· * ·) (t.shape.take n) r ++ t.shape.drop n := by
    conv => lhs; rw [hsplit]
    rw [List.zipWith_append (by rw [hBl, hr])]
    unfold T.rank
    rw [← hFl, zipWith_mul_ones]
  have hzl : (List.zipWith (· * ·) (t.shape.take n) r).length = n := by simp [hBl, hr]
  apply asBatch_eqv2
  · simp only [T.repeat, asBatch, hshape]
    rw [List.take_left' hzl]
  · intro c hc
    have hcl : c.length = n := by
      have := InB.length_eq hc
      simp only [T.repeat, hshape] at this
      rw [List.take_left' hzl] at this; omega
    refine ⟨by simp only [T.repeat, asBatch, hshape]; rw [List.drop_left' hzl], ?_⟩
    intro f hf
    have hf' : InB f (t.shape.drop n) := by
      simp only [T.repeat, hshape] at hf; rw [List.drop_left' hzl] at hf; exact hf
    simp only [T.repeat, asBatch]
    congr 1
    conv => lhs; rw [hsplit]
    rw [List.zipWith_append (by rw [hcl, hBl]), zipWith_mod_inb f _ hf']

/-- repeat_interleave: the leaf call on a batch dim acts on the batch view only -/
theorem repeat_interleave_leaf_commutes (t : T α) (n r d : Nat) (hd : d < n) (hn : n ≤ t.rank) :
    asBatch n (t.repeatInterleave r d) ≈ₜₜ (asBatch n t).repeatInterleave r d := by
  unfold T.rank at hn
  have htk : (t.shape.modify d (· * r)).take n = (t.shape.take n).modify d (· * r) := by
    apply List.ext_getElem?; intro k
    simp [List.getElem?_take, List.getElem?_modify]; grind
  have hdr : (t.shape.modify d (· * r)).drop n = t.shape.drop n := by
    apply List.ext_getElem?; intro k
    simp [List.getElem?_drop, List.getElem?_modify]; grind
  apply asBatch_eqv2
  · simp only [T.repeatInterleave, asBatch]; exact htk
  · intro c hc
    have hcl : c.length = n := by
      have := InB.length_eq hc
      simp only [T.repeatInterleave] at this; rw [htk] at this; simp at this; omega
    refine ⟨by simp only [T.repeatInterleave, asBatch]; exact hdr, ?_⟩
    intro f _
    simp only [T.repeatInterleave, asBatch]
    rw [modify_append_left c f d _ (by omega)]


/-! ## view / reshape / unflatten: sizes are validated by the leaf calls only (known finding C02-view-leafless-unvalidated) -/

/- FULL STATEMENT (false of the code, see `view_batch_eq_torch_counterexample`):
     theorem view_batch_eq_torch (sh bs : Shape) (names : Names) :
       resShape bs (viewMeta v (natsToInts sh) bs names) = torchShapeOf (Torch.reshape (natsToInts sh) (proxy bs))
   The code never compares `prod sh` with the batch numel; only the per-leaf `tensor.view(...)` does
   (`view_leaf_validates`).  Proved: the statement for consistent sizes. -/
theorem view_batch_eq_torch_partial (v : Bool) (sh bs : Shape) (names : Names) (hprod : prod sh = prod bs) :
    resShape bs (viewMeta v (natsToInts sh) bs names) = torchShapeOf (Torch.reshape (natsToInts sh) (proxy bs)) := by
  rw [viewMeta_shape]
  simp only [Torch.reshape, proxy, inferSize_ofNats sh (prod bs) hprod, torchShapeOf, T.reshape]

/-- negation witness of the full statement: `TensorDict({}, [2,3]).view(7)` is accepted with batch size [7]; torch rejects.
Replayed on the implementation by check_C02.py (known finding). -/
theorem view_batch_eq_torch_counterexample :
    resShape [2, 3] (viewMeta true (natsToInts [7]) [2, 3] none) = some [7] ∧
    torchShapeOf (Torch.reshape (natsToInts [7]) (proxy [2, 3])) = none := by
  refine ⟨viewMeta_shape _ _ _ _, ?_⟩
  decide

/- FULL STATEMENT (false of the code, see `unflatten_batch_eq_torch_counterexample`): the same equation without `hne`/`hprod`. -/
theorem unflatten_batch_eq_torch_partial (d : Int) (sz : Shape) (bs : Shape) (names : Names) (i : Nat)
    (hd : normDim bs.length d = some i) (hne : sz ≠ []) (hprod : prod sz = bs.getD i 0) :
    resShape bs (unflattenMeta d (natsToInts sz) bs names) = torchShapeOf (Torch.unflatten d (natsToInts sz) (proxy bs)) := by
  rw [unflattenMeta_shape, hd]
  obtain ⟨_, hi⟩ := normDim_some hd
  have h0 : bs.length ≠ 0 := by omega
  have hw : wrapDim bs.length d = some i := by simp [wrapDim, h0, hd]
  have hne' : natsToInts sz ≠ [] := by simpa [natsToInts] using hne
  simp only [Torch.unflatten, proxy, T.rank, hw, h0, if_false, hne', inferSize_ofNats sz _ hprod, torchShapeOf, T.unflatten]

/-- the same for unflatten: `TensorDict({}, [2,3]).unflatten(1, (2,2))` is accepted with batch size [2,2,2] -/
theorem unflatten_batch_eq_torch_counterexample :
    resShape [2, 3] (unflattenMeta 1 (natsToInts [2, 2]) [2, 3] none) = some [2, 2, 2] ∧
    torchShapeOf (Torch.unflatten 1 (natsToInts [2, 2]) (proxy [2, 3])) = none := by
  refine ⟨by rw [unflattenMeta_shape]; decide, ?_⟩
  decide

/-- what re-validates the sizes in practice: on a leaf whose trailing (non-batch) part has non-zero numel,
the torch call the closure makes is accepted exactly when the sizes multiply up to the batch numel -/
theorem view_leaf_validates (t : T α) (n : Nat) (sh : Shape) (hn : n ≤ t.rank)
    (hF : prod (t.shape.drop n) ≠ 0) :
    (torchShapeOf (applyLeaf (.view sh n) t) ≠ none) ↔ prod sh = prod (t.shape.take n) := by
  have hnum : prod t.shape = prod (t.shape.take n) * prod (t.shape.drop n) := by
    rw [← prod_append, List.take_append_drop]
  constructor
  · intro h
    simp only [applyLeaf, Torch.reshape] at h
    by_cases hp : prod (sh ++ t.shape.drop n) = prod t.shape
    · rw [prod_append, hnum] at hp
      exact Nat.eq_of_mul_eq_mul_right (Nat.pos_of_ne_zero hF) hp
    · exfalso
      apply h
      have : inferSize (natsToInts (sh ++ t.shape.drop n)) (prod t.shape) = none := by
        unfold inferSize
        have h1 := natsToInts_any_neg (sh ++ t.shape.drop n)
        have h1' : (natsToInts (sh ++ t.shape.drop n)).any (· < -1) = false := by
          rw [List.any_eq_false]; intro x hx
          simp only [natsToInts, List.mem_map] at hx
          obtain ⟨y, _, rfl⟩ := hx
          simp
        have h2 : (natsToInts (sh ++ t.shape.drop n)).filter (· ≠ -1) = natsToInts (sh ++ t.shape.drop n) := by
          apply List.filter_eq_self.2; intro x hx
          simp only [natsToInts, List.mem_map] at hx
          obtain ⟨y, _, rfl⟩ := hx
          simp
        have h3 : (natsToInts (sh ++ t.shape.drop n)).count (-1) = 0 := by
          apply List.count_eq_zero.2; intro hx
          simp only [natsToInts, List.mem_map] at hx
          obtain ⟨y, _, hy⟩ := hx
          simp at hy
        simp only [h1', h2, h3, natsToInts_toNat, hp]
        simp
      rw [this]; rfl
  · intro hp
    obtain ⟨t', h1, _⟩ := view_leaf_commutes t n sh hn hp
    rw [h1]; simp [torchShapeOf]

/-! ## the model is a transcription of THIS source -/

/-- every function `Model/C02Td.lean` transcribes (file:function → AST hash, regenerated from the working tree on every run) is the source
the model was transcribed from and validated against: an edit of `_transpose`, `_stack`, `masked_select`, … breaks this obligation even
when no sampled input behaves differently -/
theorem transcribed_sources_unchanged : Gen.c02Sources = c02Pinned := by decide +kernel

/-! ## the batch size computed by the code is the shape torch gives; the code rejects iff torch rejects -/

theorem unsqueeze_batch_eq_torch (d : Int) (bs : Shape) (names : Names) :
    resShape bs (unsqueezeMeta d bs names) = torchShapeOf (Torch.unsqueeze d (proxy bs)) := by
  unfold unsqueezeMeta Torch.unsqueeze normDim resShape torchShapeOf
  simp only [proxy, T.rank, T.unsqueeze]
  grind


theorem squeeze_batch_eq_torch (d : Int) (bs : Shape) (names : Names) (h : bs ≠ []) :
    resShape bs (squeezeMeta (some d) bs names) = torchShapeOf (Torch.squeeze d (proxy bs)) := by
  have hl : bs.length ≠ 0 := by simpa using h
  unfold squeezeMeta maybeCorrectNegDim Torch.squeeze wrapDim normDim resShape torchShapeOf
  simp only [proxy, T.rank, T.squeeze, T.select, hl, if_false]
  simp only [bind, Except.bind, pure, Except.pure]
  grind



theorem transpose_batch_eq_torch (d0 d1 : Int) (bs : Shape) (names : Names) (h : bs ≠ []) :
    resShape bs (transposeMeta d0 d1 bs names) = torchShapeOf (Torch.transpose d0 d1 (proxy bs)) := by
  have hl : bs.length ≠ 0 := by simpa using h
  unfold transposeMeta Torch.transpose wrapDim normDim resShape torchShapeOf
  simp only [proxy, T.rank, T.transpose, hl, if_false]
  grind [swap_comm, swap_self]


theorem flatten_batch_eq_torch (a b : Int) (bs : Shape) (names : Names) (h : bs ≠ [])
    (hne : ∀ i, normDim bs.length a = some i → normDim bs.length b ≠ some i) :
    resShape bs (flattenMeta a b bs names) = torchShapeOf (Torch.flatten a b (proxy bs)) := by
  have hl : bs.length ≠ 0 := by simpa using h
  unfold flattenMeta Torch.flatten wrapDim resShape torchShapeOf
  unfold normDim at hne ⊢
  simp only [proxy, T.rank, T.flatten, hl, if_false] at hne ⊢
  grind

/-- the documented stricter case: `start == end` is rejected (torch: identity) -/
theorem flatten_start_eq_end_rejected (a b : Int) (bs : Shape) (names : Names) (i : Nat)
    (ha : normDim bs.length a = some i) (hb : normDim bs.length b = some i) :
    flattenMeta a b bs names = .error .value := by
  unfold flattenMeta
  unfold normDim at ha hb
  grind

theorem squeezeAll_batch_eq_torch (bs : Shape) (names : Names) :
    resShape bs (squeezeMeta none bs names) = some (proxy bs).squeezeAll.shape := by
  unfold squeezeMeta
  simp only [proxy, T.squeezeAll]
  by_cases h : bs.filter (· ≠ 1) = bs
  · rw [if_pos h]; simp only [resShape]; rw [h]
  · rw [if_neg h]; simp only [resShape]


/-- permute: the batch size the code computes is the shape torch gives, and the code rejects exactly the dims torch rejects
(wrong length, out-of-range, repeated), for every batch shape incl. rank 0 and every spelling of negative dims -/
theorem permute_batch_eq_torch (dims : List Int) (bs : Shape) (names : Names) :
    resShape bs (permuteMeta dims bs names) = torchShapeOf (Torch.permute dims (proxy bs)) := by
  by_cases hn : bs.length = 0
  · -- rank 0
    have hb : bs = [] := List.length_eq_zero_iff.1 hn
    subst hb
    cases dims with
    | nil => simp [permuteMeta, Torch.permute, proxy, T.rank, wrapPerm, resShape, torchShapeOf, T.permute, Except.map]
    | cons d ds =>
      have h1 : resShape [] (permuteMeta (d :: ds) [] names) = none := by
        unfold permuteMeta resShape
        simp only [List.length_nil, List.length_map, List.length_cons]
        split <;> simp_all
      rw [h1]
      simp [Torch.permute, proxy, T.rank, torchShapeOf]
  · -- rank ≥ 1
    have hlt : ∀ d, (wrapDim bs.length d).isSome = true → wrapVal bs.length d < bs.length := wrapVal_lt hn
    by_cases hlen : dims.length = bs.length
    · by_cases hall : ∀ d ∈ dims, (wrapDim bs.length d).isSome = true
      · -- all dims in range: p is the list of normalised dims
        have hp : (dims.map (fun d => if d ≥ 0 then d else (bs.length : Int) + d)).map Int.toNat = dims.map (wrapVal bs.length) := by
          rw [List.map_map]; apply List.map_congr_left; intro d hd
          simp only [Function.comp_apply]; exact meta_norm_val hn d (hall d hd)
        have hany : (dims.map (fun d => if d ≥ 0 then d else (bs.length : Int) + d)).any (fun d => d < 0 ∨ d ≥ (bs.length : Int)) = false := by
          rw [List.any_eq_false]; intro x hx
          obtain ⟨d, hd, rfl⟩ := List.mem_map.1 hx
          have := (meta_norm_inrange hn d).2 (hall d hd)
          simpa using this
        have hplen : (dims.map (wrapVal bs.length)).length = bs.length := by simp [hlen]
        by_cases hnd : (dims.map (wrapVal bs.length)).Nodup
        · have hperm : (dims.map (wrapVal bs.length)).Perm (List.range bs.length) :=
            perm_range_of_nodup_lt _ _ hnd (by
              intro x hx; obtain ⟨d, hd, rfl⟩ := List.mem_map.1 hx; exact hlt d (hall d hd)) hplen
          have hsort := mergeSort_of_perm_range _ _ hperm
          have ht : wrapPerm bs.length dims [] = .ok (dims.map (wrapVal bs.length)) :=
            (wrapPerm_ok_iff bs.length dims [] _).2 ⟨hall, hnd, by simp, by simp⟩
          have hT : torchShapeOf (Torch.permute dims (proxy bs)) = some ((dims.map (wrapVal bs.length)).map (fun i => bs.getD i 0)) := by
            simp [Torch.permute, proxy, T.rank, hlen, ht, Except.map, torchShapeOf, T.permute]
          rw [hT]
          unfold permuteMeta
          simp only [hany, hp, List.length_map, hlen, hplen, hsort, Bool.false_eq_true, if_false, ne_eq, not_true_eq_false, hn, false_and]
          by_cases hid : dims.map (wrapVal bs.length) = List.range bs.length
          · simp only [hid, if_true, resShape, range_map_getD']
          · simp only [hid, if_false, resShape, List.drop_length, List.append_nil]
        · -- a repeated dim: both reject
          have ht : torchShapeOf (Torch.permute dims (proxy bs)) = none := by
            simp only [Torch.permute, proxy, T.rank, hlen, ne_eq, not_true_eq_false, if_false]
            rcases hw : wrapPerm bs.length dims [] with e | r
            · simp [Except.map, torchShapeOf]
            · exact absurd ((wrapPerm_ok_iff bs.length dims [] r).1 hw).2.1 hnd
          rw [ht]
          have hsort : (dims.map (wrapVal bs.length)).mergeSort ≠ List.range bs.length := by
            intro h
            have := perm_range_of_mergeSort (dims.map (wrapVal bs.length)) (by rw [hplen]; exact h)
            rw [hplen] at this
            exact hnd (this.nodup_iff.2 List.nodup_range)
          unfold permuteMeta
          simp only [hany, hp, List.length_map, hlen, hplen, hsort, Bool.false_eq_true, if_false, ne_eq, not_true_eq_false,
            not_false_eq_true, if_true, resShape]
      · -- some dim out of range: both reject
        have ht : torchShapeOf (Torch.permute dims (proxy bs)) = none := by
          simp only [Torch.permute, proxy, T.rank, hlen, ne_eq, not_true_eq_false, if_false]
          rcases hw : wrapPerm bs.length dims [] with e | r
          · simp [Except.map, torchShapeOf]
          · exact absurd ((wrapPerm_ok_iff bs.length dims [] r).1 hw).1 hall
        rw [ht]
        have hany : (dims.map (fun d => if d ≥ 0 then d else (bs.length : Int) + d)).any (fun d => d < 0 ∨ d ≥ (bs.length : Int)) = true := by
          rw [List.any_eq_true]
          have : ∃ d ∈ dims, ¬ (wrapDim bs.length d).isSome = true := by
            by_cases h : ∃ d ∈ dims, ¬ (wrapDim bs.length d).isSome = true
            · exact h
            · exact absurd (fun d hd => Classical.byContradiction fun hc => h ⟨d, hd, hc⟩) hall
          obtain ⟨d, hd, hbad⟩ := this
          refine ⟨_, List.mem_map.2 ⟨d, hd, rfl⟩, ?_⟩
          have hmn := meta_norm_inrange hn d
          have : ((if d ≥ 0 then d else (bs.length : Int) + d) < 0 ∨ (if d ≥ 0 then d else (bs.length : Int) + d) ≥ bs.length) := by
            by_cases hc : ((if d ≥ 0 then d else (bs.length : Int) + d) < 0 ∨ (if d ≥ 0 then d else (bs.length : Int) + d) ≥ bs.length)
            · exact hc
            · exact absurd (hmn.1 hc) hbad
          simpa using this
        unfold permuteMeta
        simp only [hany, if_true, resShape]
    · -- wrong number of dims: both reject
      have ht : torchShapeOf (Torch.permute dims (proxy bs)) = none := by
        simp [Torch.permute, proxy, T.rank, hlen, torchShapeOf]
      rw [ht]
      unfold permuteMeta resShape
      simp only [List.length_map, hlen]
      split <;> simp_all


/-- expand: the batch size the code computes is the size torch gives, and the code rejects exactly the sizes torch rejects
(too few entries, negative entries other than `-1` on an existing dim, incompatible non-singleton dims), for every batch shape -/
theorem expand_batch_eq_torch (shape : List Int) (bs : Shape) (names : Names) :
    resShape bs (expandMeta shape bs names) = torchShapeOf (Torch.expand shape (proxy bs)) := by
  by_cases hlen : shape.length < bs.length
  · -- too few sizes: both reject
    have h1 : expandMeta shape bs names = .error .runtime := by
      unfold expandMeta; simp [hlen, bind, Except.bind, throw, throwThe, MonadExceptOf.throw]
    have h2 : expandSizes bs shape = .error .runtime := by unfold expandSizes; simp [hlen]
    simp [h1, Torch.expand, proxy, h2, resShape, torchShapeOf, Except.map]
  · have hle : bs.length ≤ shape.length := by omega
    -- both sides are determined by the same per-position rule
    have hT : ∀ sh, expandSizes bs shape = .ok sh ↔
        (sh.length = shape.length ∧ ∀ i, i < shape.length → expandRule bs shape i = some (sh.getD i 0)) :=
      expandSizes_eq_rule bs shape hle
    have hM : ∀ sh, (∃ nm call, expandMeta shape bs names = .ok (some (sh, nm, call))) ↔
        (sh.length = shape.length ∧ ∀ i, i < shape.length → expandRule bs shape i = some (sh.getD i 0)) := by
      intro sh
      unfold expandMeta
      simp only [hlen, if_false, bind, Except.bind, pure, Except.pure, throw, throwThe, MonadExceptOf.throw]
      constructor
      · rintro ⟨nm, call, h⟩
        cases hr : expandResolve bs shape with
        | error e => simp [hr] at h
        | ok sh0 =>
          simp only [hr] at h
          by_cases hc : (bs.zip (sh0.drop (sh0.length - bs.length))).any (fun x => decide (x.1 ≠ 1 ∧ x.2 ≠ x.1)) = true
          · rw [if_pos hc] at h; cases h
          · rw [if_neg hc] at h
            simp only [Except.ok.injEq, Option.some.injEq, Prod.mk.injEq] at h
            obtain ⟨rfl, _, _⟩ := h
            obtain ⟨hl0, hres⟩ := (expandResolve_eq_rule bs shape sh0).1 hr
            have hchk := (expand_check_iff bs sh0 (by omega)).1 (by simpa using hc)
            refine ⟨hl0, fun i hi => ?_⟩
            apply (rule_combine bs shape i _).1
            refine ⟨hres i hi, fun hge => ?_⟩
            have := hchk i (by omega) (by omega)
            rw [hl0] at this
            exact this
      · rintro ⟨hl0, hrule⟩
        have hres : expandResolve bs shape = .ok sh := (expandResolve_eq_rule bs shape sh).2
          ⟨hl0, fun i hi => ((rule_combine bs shape i _).2 (hrule i hi)).1⟩
        have hchk : (bs.zip (sh.drop (sh.length - bs.length))).any (fun x => decide (x.1 ≠ 1 ∧ x.2 ≠ x.1)) = false := by
          apply (expand_check_iff bs sh (by omega)).2
          intro i hi hge
          have := ((rule_combine bs shape i _).2 (hrule i (by omega))).2 (by omega)
          rw [hl0]; exact this
        simp only [hres]
        rw [if_neg (by rw [hchk]; simp)]
        exact ⟨_, _, rfl⟩
    -- case on torch's answer
    cases ht : expandSizes bs shape with
    | ok sh =>
      obtain ⟨nm, call, hm⟩ := (hM sh).2 ((hT sh).1 ht)
      simp [hm, Torch.expand, proxy, ht, resShape, torchShapeOf, Except.map, T.expand]
    | error e =>
      have hno : ∀ sh nm call, expandMeta shape bs names ≠ .ok (some (sh, nm, call)) := by
        intro sh nm call hm
        have := (hT sh).2 ((hM sh).1 ⟨nm, call, hm⟩)
        rw [ht] at this; cases this
      have hres : resShape bs (expandMeta shape bs names) = none := by
        cases hm : expandMeta shape bs names with
        | error e => rfl
        | ok o =>
          cases o with
          | none =>
            -- expandMeta never returns `self`
            unfold expandMeta at hm
            simp only [hlen, if_false, bind, Except.bind, pure, Except.pure, throw, throwThe, MonadExceptOf.throw] at hm
            cases hr : expandResolve bs shape with
            | error e => simp [hr] at hm
            | ok sh0 =>
              simp only [hr] at hm
              split at hm <;> simp at hm
          | some v =>
            obtain ⟨sh, nm, call⟩ := v
            exact absurd hm (hno sh nm call)
      simp [hres, Torch.expand, proxy, ht, torchShapeOf, Except.map]


/-! ## names travel with their dims -/

/-! names travel with their dims: on accepted inputs the list of names undergoes exactly the list
operation the list of sizes undergoes (same index), new dims are unnamed -/

theorem unsqueeze_names_travel (d : Int) (bs : Shape) (l : List (Option String)) (i : Nat)
    (hd : normDim (bs.length + 1) d = some i) :
    unsqueezeMeta d bs (some l) = .ok (some (bs.insertIdx i 1, some (l.insertIdx i none), .unsqueeze i)) := by
  unfold unsqueezeMeta
  unfold normDim at hd
  simp only [Option.map_some]
  grind

theorem squeeze_names_travel (d : Int) (bs : Shape) (l : List (Option String)) (i : Nat)
    (hl : l.length = bs.length) (hd : normDim bs.length d = some i) (h1 : bs.getD i 0 = 1) :
    squeezeMeta (some d) bs (some l) = .ok (some (bs.eraseIdx i, some (l.eraseIdx i), .squeeze i)) := by
  have hl0 : l.isEmpty = false := by
    cases l with
    | nil => unfold normDim at hd; simp at hl; rw [← hl] at hd; simp at hd; omega
    | cons _ _ => rfl
  unfold squeezeMeta maybeCorrectNegDim
  unfold normDim at hd
  simp only [Option.map_some, hl0, bind, Except.bind, pure, Except.pure]
  grind


theorem transpose_names_travel (d0 d1 : Int) (bs : Shape) (l : List (Option String)) (i j : Nat)
    (hl : l.length = bs.length) (h0 : normDim bs.length d0 = some i) (h1 : normDim bs.length d1 = some j) (hij : i ≠ j) :
    ∃ l', transposeMeta d0 d1 bs (some l) = .ok (some (swap bs (min i j) (max i j), some l', .transpose (min i j) (max i j))) ∧
      l'.length = l.length ∧ l'.getD i none = l.getD j none ∧ l'.getD j none = l.getD i none ∧
      ∀ k, k ≠ i → k ≠ j → l'.getD k none = l.getD k none := by
  have hi : i < bs.length := by unfold normDim at h0; grind
  have hj : j < bs.length := by unfold normDim at h1; grind
  refine ⟨(List.range bs.length).map (fun k => if k = max i j then l.getD (min i j) none else if k = min i j then l.getD (max i j) none else l.getD k none), ?_, ?_, ?_, ?_, ?_⟩
  · obtain ⟨ha, _⟩ := normDim_some h0
    obtain ⟨hb, _⟩ := normDim_some h1
    have hmin : (min (i : Int) (j : Int)).toNat = min i j := by omega
    have hmax : (max (i : Int) (j : Int)).toNat = max i j := by omega
    have hne : ¬ (min i j = max i j) := by omega
    have hr : ¬ ((i : Int) < 0 ∨ (j : Int) < 0 ∨ (i : Int) ≥ bs.length ∨ (j : Int) ≥ bs.length) := by omega
    unfold transposeMeta
    simp only [ha, hb, hmin, hmax, hne, hr, if_false, Option.map_some]
  · simp [hl]
  · simp only [List.getD_eq_getElem?_getD, List.getElem?_map, List.getElem?_range hi]; grind
  · simp only [List.getD_eq_getElem?_getD, List.getElem?_map, List.getElem?_range hj]; grind
  · intro k hk1 hk2
    by_cases hk : k < bs.length
    · simp only [List.getD_eq_getElem?_getD, List.getElem?_map, List.getElem?_range hk]; grind
    · have h2 : l[k]? = none := by simp; omega
      have h3 : l.getD k none = none := by rw [List.getD_eq_getElem?_getD, h2]; rfl
      have : ∀ (g : Nat → Option String), ((List.range bs.length).map g).getD k none = none := by
        intro g; rw [List.getD_eq_getElem?_getD]
        have : ((List.range bs.length).map g)[k]? = none := by simp; omega
        rw [this]; rfl
      rw [this, h3]

theorem permute_names_travel (dims : List Int) (bs : Shape) (l : List (Option String)) (bs' : Shape) (nm : Names) (p : List Nat)
    (h : permuteMeta dims bs (some l) = .ok (some (bs', nm, .permute p))) :
    bs' = p.map (fun i => bs.getD i 0) ++ bs.drop p.length ∧ nm = some (p.map (fun i => l.getD i none)) := by
  unfold permuteMeta at h
  simp only [Option.map_some] at h
  repeat (split at h; · cases h)
  simp only [Except.ok.injEq, Option.some.injEq, Prod.mk.injEq, LeafCall.permute.injEq] at h
  obtain ⟨h1, h2, h3⟩ := h
  subst h3
  exact ⟨h1.symm, h2.symm⟩


/-! ## the key set is preserved, at every depth -/

theorem keys_preserved_all :
    (∀ (op : Op) (bs : Shape) (names : Names) (es : List (String × TD α)) (r : TD α),
        tdNode op bs names es = .ok r → keyTree r = .node (keyList es)) ∧
    (∀ (call : LeafCall) (es es' : List (String × TD α)), mapEntries call es = .ok es' → keyList es' = keyList es) ∧
    (∀ (call : LeafCall) (e e' : TD α), applyEntry call e = .ok e' → keyTree e' = keyTree e) := by
  apply tdNode.mutual_induct (α := α)
    (motive1 := fun op bs names es => ∀ r, tdNode op bs names es = .ok r → keyTree r = .node (keyList es))
    (motive2 := fun call es => ∀ es', mapEntries call es = .ok es' → keyList es' = keyList es)
    (motive3 := fun call e => ∀ e', applyEntry call e = .ok e' → keyTree e' = keyTree e)
  · intro op bs names es ih r h
    unfold tdNode at h
    simp only [bind, Except.bind] at h
    split at h
    · cases h
    · rename_i m hm
      split at h
      · simp only [pure, Except.pure] at h; cases h; simp [keyTree]
      · rename_i bs' nm call
        split at h
        · cases h
        · rename_i es' hes
          have hk := ih call es' hes
          split at h
          · split at h
            · simp only [pure, Except.pure] at h; cases h; simp [keyTree, hk]
            · split at h
              · cases h
              · simp only [pure, Except.pure] at h; cases h; simp [keyTree, hk]
          · simp only [pure, Except.pure] at h; cases h; simp [keyTree, hk]
  · intro call es' h
    simp [mapEntries, pure, Except.pure] at h; subst h; rfl
  · intro call k e rest ih1 ih2 es' h
    simp only [mapEntries, bind, Except.bind] at h
    split at h
    · cases h
    · rename_i e' he
      split at h
      · cases h
      · rename_i rest' hr
        simp only [pure, Except.pure] at h
        cases h
        simp [keyList, ih1 e' he, ih2 rest' hr]
  · intro call t e' h
    simp only [applyEntry, Except.map] at h
    split at h
    · cases h
    · cases h; simp [keyTree]
  · intro bs names es ds shape n bs1 ih e' h
    rw [applyEntry_node_squeezeDims] at h
    split at h
    · cases h
    · rename_i es' hes
      cases h
      simp [keyTree, ih es' hes]
  · intro call bs names es hns ih e' h
    rw [applyEntry_node_other call bs names es hns] at h
    rw [ih e' h]; simp [keyTree]


/-! ## split / chunk -/


/-- `split(int)`: the pieces tile the dim exactly, in order (split_partition) -/
theorem split_partition (k : Int) (max : Nat) (ps : List (Nat × Nat)) (h : splitPieces k max = .ok ps) :
    Tiles ps 0 max := by
  unfold splitPieces at h
  split at h
  · cases h
  · split at h
    · cases h
    · rename_i hk0 hk1
      cases h
      simp only [Tiles, true_and, Nat.zero_add]
      by_cases hk : k = 0
      · have hm : max = 0 := by
          by_cases hm : max = 0
          · exact hm
          · exact absurd ⟨hk, hm⟩ hk1
        subst hk; subst hm
        simp [splitLoop, Tiles]
      · have hkpos : 0 < k.toNat := by omega
        exact splitLoop_tiles k.toNat max hkpos max (min max k.toNat) (by omega) (by omega)


/-- `split(list)`: accepted size lists give pieces that tile the dim exactly (also for the oversize
lists the code still accepts, see the known finding) -/
theorem splitList_partition (sizes : List Int) (max : Nat) (ps : List (Nat × Nat))
    (h : splitListPieces sizes max = .ok ps) : Tiles ps 0 max := by
  unfold splitListPieces at h
  split at h
  · cases h
  · rename_i s0 rest
    split at h
    · cases h
    · have ht := splitListLoop_tiles max (rest.map Int.toNat) (min max s0.toNat) (by omega)
      cases hr : splitListLoop max (rest.map Int.toNat) (min max s0.toNat) with
      | mk ps' last =>
        rw [hr] at ht
        simp only [hr] at h
        split at h
        · cases h
        · rename_i hlast
          cases h
          simp only [Tiles, true_and, Nat.zero_add]
          have hl : last = max := by have := ht.2; simp only at this; omega
          have h1 := ht.1
          simp only at h1
          rw [hl] at h1; exact h1


/-- `split(k)`: the piece lengths the code produces are exactly torch's `split` sizes
(`ceil(n/k)` pieces of size `k`, the last one shorter; one empty piece when both are 0) -/
theorem split_sizes_eq_torch (k : Nat) (max : Nat) (ps : List (Nat × Nat)) (h : splitPieces (k : Int) max = .ok ps) :
    ps.map Prod.snd = splitSizes max k := by
  unfold splitPieces at h
  have hk0 : ¬ ((k : Int) < 0) := by omega
  simp only [hk0, if_false, Int.toNat_natCast] at h
  by_cases hz : (k : Int) = 0 ∧ max ≠ 0
  · rw [if_pos hz] at h; cases h
  · rw [if_neg hz] at h
    simp only [Except.ok.injEq] at h
    subst h
    unfold splitSizes
    by_cases hk : k = 0
    · subst hk
      have hm : max = 0 := by
        by_cases hm : max = 0
        · exact hm
        · exact absurd ⟨rfl, hm⟩ hz
      subst hm
      simp [splitLoop]
    · have hkpos : 0 < k := Nat.pos_of_ne_zero hk
      simp only [hk, if_false, List.map_cons]
      by_cases hm : max = 0
      · subst hm; simp [splitLoop]
      · simp only [hm, if_false]
        have hloop := splitLoop_sizes k max hkpos max 1 (by omega)
        rw [Nat.one_mul] at hloop
        rw [hloop]
        have hc : 0 < (max + k - 1) / k := (lt_ceil_iff max k 0 hkpos).2 (by omega)
        have hr : List.range ((max + k - 1) / k) = 0 :: List.range' 1 ((max + k - 1) / k - 1) := by
          rw [List.range_eq_range']
          have : (max + k - 1) / k = ((max + k - 1) / k - 1) + 1 := by omega
          rw [this, List.range'_succ]; simp
        rw [hr, List.map_cons]
        simp
        exact Nat.min_comm max k

/-- `chunk(c)` = `split(ceil(n/c))` (by the code), and the piece lengths are torch's `chunk` sizes -/
theorem chunk_eq_split_ceil (c : Nat) (max : Nat) (ps : List (Nat × Nat))
    (hpos : 0 < (max + c - 1) / c)
    (h : splitPieces (((max + c - 1) / c : Nat) : Int) max = .ok ps) :
    ps.map Prod.snd = Torch.chunkSizes max c := by
  unfold Torch.chunkSizes
  have : ¬ ((max + c - 1) / c = 0) := by omega
  simp only [this, if_false]
  exact split_sizes_eq_torch _ max ps h


/-! ## unbind / split pieces on leaves; nested tensordicts -/

/-- unbind: the leaf call returns the `select`s along `d`, and each is the select of the batch view (unbind_eq_selects) -/
theorem unbind_eq_selects (t : T α) (d n : Nat) (hd : d < n) (hn : n ≤ t.rank) :
    Torch.unbind d t = .ok ((List.range (t.shape.getD d 0)).map (fun i => t.select d i)) ∧
    ∀ i, asBatch (n - 1) (t.select d i) ≈ₜₜ (asBatch n t).select d i := by
  unfold T.rank at hn
  have hd' : d < t.rank := by unfold T.rank; omega
  have hdl : d < t.shape.length := by omega
  have h0 : t.rank ≠ 0 := by omega
  refine ⟨by simp [Torch.unbind, wrapDim_ofNat hd', h0, T.unbind], ?_⟩
  intro i
  apply asBatch_eqv2
  · simp [T.select, asBatch, eraseIdx_take _ _ _ hd hn]
  · intro c hc
    have hcl : c.length = n - 1 := by
      have := InB.length_eq hc
      simp [T.select, List.length_eraseIdx_of_lt hdl] at this; omega
    refine ⟨by simp [T.select, asBatch, eraseIdx_drop _ _ _ hd hn], ?_⟩
    intro f _
    simp [T.select, asBatch, insertIdx_append_left c f d i (by omega)]

/-- split/chunk pieces: indexing a leaf with `(:,)*d + (slice(start, start+len),)` is the narrow of the batch view -/
theorem narrow_leaf_commutes (t : T α) (d start len n : Nat) (hd : d < n) (hn : n ≤ t.rank) :
    asBatch n (t.narrow d start len) ≈ₜₜ (asBatch n t).narrow d start len := by
  unfold T.rank at hn
  have htk : (t.shape.set d len).take n = (t.shape.take n).set d len := by
    apply List.ext_getElem?; intro k
    simp [List.getElem?_take, List.getElem?_set]; grind
  have hdr : (t.shape.set d len).drop n = t.shape.drop n := by
    apply List.ext_getElem?; intro k
    simp [List.getElem?_drop, List.getElem?_set]; grind
  apply asBatch_eqv2
  · simp only [T.narrow, asBatch]; exact htk
  · intro c hc
    have hcl : c.length = n := by
      have := InB.length_eq hc
      simp only [T.narrow] at this; rw [htk] at this; simp at this; omega
    refine ⟨by simp only [T.narrow, asBatch]; exact hdr, ?_⟩
    intro f _
    simp only [T.narrow, asBatch]
    rw [modify_append_left c f d _ (by omega)]

/-! nested tensordicts: the closure calls the same-named method on a nested tensordict of batch `bs ++ ext`;
its result batch is the parent's new batch followed by the untouched extra dims -/

theorem transpose_nested (i j : Nat) (bs ext : Shape) (nm : Names) (hij : i < j) (hj : j < bs.length) :
    resShape (bs ++ ext) (opMeta (opOfCall (.transpose i j) (bs ++ ext)) (bs ++ ext) nm) = some (swap bs i j ++ ext) := by
  have hsw := swap_append_left bs ext i j (by omega) hj
  have hlen : (bs ++ ext).length = bs.length + ext.length := by simp
  simp only [opOfCall, opMeta]
  unfold transposeMeta resShape
  grind

theorem unsqueeze_nested (i : Nat) (bs ext : Shape) (nm : Names) (hi : i ≤ bs.length) :
    resShape (bs ++ ext) (opMeta (opOfCall (.unsqueeze i) (bs ++ ext)) (bs ++ ext) nm) = some (bs.insertIdx i 1 ++ ext) := by
  have hsw := insertIdx_append_left bs ext i 1 hi
  have hlen : (bs ++ ext).length = bs.length + ext.length := by simp
  simp only [opOfCall, opMeta]
  unfold unsqueezeMeta resShape
  grind

theorem squeeze_nested (i : Nat) (bs ext : Shape) (nm : Names) (hi : i < bs.length) (h1 : bs.getD i 0 = 1) :
    resShape (bs ++ ext) (opMeta (opOfCall (.squeeze i) (bs ++ ext)) (bs ++ ext) nm) = some (bs.eraseIdx i ++ ext) := by
  have hsw : (bs ++ ext).eraseIdx i = bs.eraseIdx i ++ ext := List.eraseIdx_append_of_lt_length hi ext
  have hlen : (bs ++ ext).length = bs.length + ext.length := by simp
  have hg : (bs ++ ext).getD i 0 = 1 := by
    rw [List.getD_eq_getElem?_getD, List.getElem?_append_left hi, ← List.getD_eq_getElem?_getD]; exact h1
  simp only [opOfCall, opMeta]
  unfold squeezeMeta maybeCorrectNegDim resShape
  simp only [bind, Except.bind, pure, Except.pure]
  grind

theorem flatten_nested (a b : Nat) (bs ext : Shape) (nm : Names) (hab : a < b) (hb : b < bs.length) :
    resShape (bs ++ ext) (opMeta (opOfCall (.flatten a b) (bs ++ ext)) (bs ++ ext) nm)
      = some ((bs.take a ++ [prod ((bs.drop a).take (b + 1 - a))] ++ bs.drop (b + 1)) ++ ext) := by
  have hlen : (bs ++ ext).length = bs.length + ext.length := by simp
  have h1 : (bs ++ ext).take a = bs.take a := by rw [List.take_append_of_le_length (by omega)]
  have h2 : ((bs ++ ext).drop a).take (b + 1 - a) = (bs.drop a).take (b + 1 - a) := by
    rw [List.drop_append_of_le_length (by omega), List.take_append_of_le_length (by simp; omega)]
  have h3 : (bs ++ ext).drop (b + 1) = bs.drop (b + 1) ++ ext := by rw [List.drop_append_of_le_length (by omega)]
  simp only [opOfCall, opMeta]
  unfold flattenMeta resShape
  grind


/-! ## stack / unbind (torch spec level) -/

/-- stack_unbind: selecting member `i` of a stack along the stack dim gives back operand `i`
(so `unbind(stack(ts, d), d) = ts`), for any number of operands of a common shape and any `d ≤ rank` -/
theorem stack_unbind [Inhabited α] (ts : List (T α)) (s : Shape) (d i : Nat) (hd : d ≤ s.length)
    (hs : ∀ t ∈ ts, t.shape = s) (hi : i < ts.length) :
    ((T.stack ts d).select d i) ≈ₜ ts[i] ∧ ((T.stack ts d).unbind d).length = ts.length := by
  have hne : ts ≠ [] := by intro h; subst h; simp at hi
  obtain ⟨t0, rest, rfl⟩ := List.exists_cons_of_ne_nil hne
  have h0 : t0.shape = s := hs t0 (by simp)
  have hshape : (T.stack (t0 :: rest) d).shape = s.insertIdx d (rest.length + 1) := by
    simp [T.stack, h0]
  refine ⟨⟨?_, ?_⟩, ?_⟩
  · simp only [T.select, hshape]
    rw [List.eraseIdx_insertIdx_self]
    exact (hs _ (List.getElem_mem hi)).symm
  · intro c hc
    simp only [T.select, T.stack]
    have hcl : d ≤ c.length := by
      have := InB.length_eq hc
      simp only [T.select, hshape, List.eraseIdx_insertIdx_self] at this
      omega
    have h1 : (c.insertIdx d i).getD d 0 = i := by
      simp [List.getD_eq_getElem?_getD, List.getElem?_insertIdx_self, hcl]
    have h2 : (c.insertIdx d i).eraseIdx d = c := List.eraseIdx_insertIdx_self i
    rw [h1, h2]
    simp [List.getElem?_eq_getElem hi]
  · simp only [T.unbind, List.length_map, List.length_range, hshape]
    simp [List.getD_eq_getElem?_getD, List.getElem?_insertIdx_self, hd]


/-! ## cat / split round trip, cat on leaves, batch size of stack / cat of tensordicts -/

/-- `torch.cat(torch.split_with_sizes(t, sizes, d), d) == t`: the pieces of a split put back in order give the tensor back, every element -/
theorem cat_split [Inhabited α] (t : T α) (sizes : List Nat) (d : Nat) (hd : d < t.rank)
    (hsum : sizes.sum = t.shape.getD d 0) (hne : sizes ≠ []) :
    T.cat (t.splitWithSizes sizes d) d ≈ₜ t := by
  unfold T.rank at hd
  have hsz := split_piece_sizes t sizes d hd
  obtain ⟨n0, ns, rfl⟩ := List.exists_cons_of_ne_nil hne
  have hshape : (T.cat (t.splitWithSizes (n0 :: ns) d) d).shape = t.shape := by
    simp only [T.cat, hsz]
    simp only [T.splitWithSizes, offsets, List.zip_cons_cons, List.map_cons, List.head?_cons, Option.map_some, Option.getD_some,
      T.narrow, List.set_set, hsum]
    apply List.ext_getElem?; intro k
    simp only [List.getElem?_set]
    by_cases hk : d = k
    · subst hk; simp [hd, List.getD_eq_getElem?_getD, List.getElem?_eq_getElem hd]
    · simp [hk]
  refine ⟨hshape, ?_⟩
  intro c hc
  rw [hshape] at hc
  have hcl : c.length = t.shape.length := InB.length_eq hc
  have hx : c.getD d 0 < (n0 :: ns).sum := by
    rw [hsum]; exact InB.getD_lt hc d hd
  obtain ⟨n, off, h1, h2, h3, h4⟩ := locate_spec (n0 :: ns) 0 (c.getD d 0) hx
  simp only [T.cat, hsz]
  generalize hloc : T.locate (n0 :: ns) (c.getD d 0) = io at h1 h2 h3 h4
  obtain ⟨i, o⟩ := io
  simp only at h1 h2 h3 h4 ⊢
  have hp : (t.splitWithSizes (n0 :: ns) d)[i]? = some (t.narrow d off n) := by
    unfold T.splitWithSizes
    rw [List.getElem?_map, getElem?_zip', h3, h1]; rfl
  rw [hp]
  simp only [Option.map_some, Option.getD_some, T.narrow]
  congr 1
  apply List.ext_getElem?; intro k
  simp only [List.getElem?_modify, List.getElem?_set]
  by_cases hk : d = k
  · subst hk
    have hdc : d < c.length := by omega
    simp only [if_true, hdc, Option.map_some]
    rw [List.getElem?_eq_getElem hdc]
    have : c.getD d 0 = c[d] := by simp [List.getD_eq_getElem?_getD, List.getElem?_eq_getElem hdc]
    rw [this] at h4; simp; omega
  · simp [hk]

/-- torch.cat on leaves commutes with the batch view: concatenating the leaves along a batch dim is concatenating their batch views
(operands agree outside `dim`, `dim < n ≤ rank`) -/
theorem cat_leaf_commutes [Inhabited α] (ts : List (T α)) (s : Shape) (n dim : Nat)
    (hs : ∀ t ∈ ts, t.shape.set dim 0 = s.set dim 0) (hne : ts ≠ []) (hn : n ≤ s.length) (hd : dim < n) :
    asBatch n (T.cat ts dim) ≈ₜₜ T.cat (ts.map (asBatch n)) dim := by
  obtain ⟨t0, rest, rfl⟩ := List.exists_cons_of_ne_nil hne
  have hlen : ∀ t ∈ t0 :: rest, t.shape.length = s.length := by
    intro t ht; have := congrArg List.length (hs t ht); simpa using this
  have hdrop : ∀ t ∈ t0 :: rest, t.shape.drop n = s.drop n := by
    intro t ht
    have := congrArg (List.drop n) (hs t ht)
    rwa [List.drop_set_of_lt hd, List.drop_set_of_lt hd] at this
  have hsizes : ((t0 :: rest).map (asBatch n)).map (fun p => p.shape.getD dim 0) = (t0 :: rest).map (fun t => t.shape.getD dim 0) := by
    rw [List.map_map]
    apply List.map_congr_left
    intro t ht
    simp only [Function.comp, asBatch, List.getD_eq_getElem?_getD, List.getElem?_take, hd, if_true]
  generalize hS : ((t0 :: rest).map (fun t => t.shape.getD dim 0)) = sizes at hsizes
  have hL : (T.cat (t0 :: rest) dim).shape = t0.shape.set dim sizes.sum := by
    simp only [T.cat, hS]; simp
  have hR : (T.cat ((t0 :: rest).map (asBatch n)) dim).shape = (t0.shape.take n).set dim sizes.sum := by
    simp only [T.cat, hsizes]; simp [asBatch]
  have hl0 := hlen t0 (by simp)
  apply asBatch_eqv2
  · rw [hL, hR, List.take_set]
  · intro c hc
    rw [hL, List.take_set] at hc
    have hcl : c.length = n := by
      have := InB.length_eq hc; simp at this; omega
    have hx : c.getD dim 0 < sizes.sum := by
      have := InB.getD_lt hc dim (by simp; omega)
      have hm : dim < min n t0.shape.length := by omega
      simpa [List.getD_eq_getElem?_getD, List.getElem?_set, List.getElem?_take, hd, hm] using this
    obtain ⟨m, off, h1, h2, h3, h4⟩ := locate_spec sizes 0 (c.getD dim 0) hx
    generalize hloc : T.locate sizes (c.getD dim 0) = io at h1 h2 h3 h4
    obtain ⟨i, o⟩ := io
    simp only at h1 h2 h3 h4
    have hi : i < (t0 :: rest).length := by
      have : i < sizes.length := by
        by_cases h : i < sizes.length
        · exact h
        · rw [List.getElem?_eq_none (Nat.le_of_not_lt h)] at h1; cases h1
      rw [← hS] at this; simpa using this
    obtain ⟨ti, hti⟩ : ∃ ti, (t0 :: rest)[i]? = some ti := ⟨_, List.getElem?_eq_getElem hi⟩
    have hmem : ti ∈ t0 :: rest := List.mem_of_getElem? hti
    have hRget : (T.cat ((t0 :: rest).map (asBatch n)) dim).get c = (asBatch n ti).get (c.set dim o) := by
      simp only [T.cat, hsizes, hloc]
      rw [List.getElem?_map, hti]; rfl
    refine ⟨?_, ?_⟩
    · rw [hL, hRget, List.drop_set_of_lt hd]
      simp only [asBatch]
      rw [hdrop ti hmem, hdrop t0 (by simp)]
    · intro f _
      rw [hRget]
      simp only [T.cat, asBatch, hS]
      have e1 : (c ++ f).getD dim 0 = c.getD dim 0 := by
        simp [List.getD_eq_getElem?_getD, List.getElem?_append_left (show dim < c.length by omega)]
      rw [e1, hloc]
      simp only [hti, Option.map_some, Option.getD_some]
      congr 1
      rw [List.set_append]
      simp [show dim < c.length by omega]

/-- `torch.cat` of tensordicts: when the call is accepted, the dim is a valid (possibly negative) batch dim of the first operand and the
result's batch size is the shape `torch.cat` gives the operands' batch-shape proxies along it; the names are the first operand's -/
theorem cat_batch_eq_torch [Inhabited α] (d : Int) (bs : Shape) (names : Names) (first : List (String × TD α))
    (others : List (Shape × List (String × TD α))) (r : TD α)
    (h : catLevel d bs names first others = .ok r) :
    ∃ i es', normDim bs.length d = some i ∧
      r = .node (T.cat (proxy bs :: others.map (fun o => proxy o.1)) i).shape names es' := by
  unfold catLevel at h
  simp only [] at h
  generalize hdim : (if d < 0 then (bs.length : Int) + d else d) = dim at h
  by_cases h1 : dim < 0 ∨ dim ≥ bs.length
  · rw [if_pos h1] at h; cases h
  rw [if_neg h1] at h
  by_cases h2 : others.any (fun o => o.1.length ≤ dim.toNat) = true
  · rw [if_pos h2] at h; cases h
  rw [if_neg h2] at h
  by_cases h3 : ¬ sameKeySets first (others.map (·.2)) = true
  · rw [if_pos h3] at h; cases h
  rw [if_neg h3] at h
  split at h
  · cases h
  · rename_i es' _
    simp only [Except.ok.injEq] at h
    refine ⟨dim.toNat, es', ?_, ?_⟩
    · unfold normDim; grind
    · rw [← h]
      simp [T.cat, proxy, List.map_map, Function.comp_def]

/-- `torch.stack` of tensordicts: when the call is accepted, every operand has the first one's batch size and the result's batch size is
the shape `torch.stack` gives the batch-shape proxies (`Torch.stackShape`: the batch size with the number of operands inserted at `dim`);
a named first operand gets `None` for the new dim -/
theorem stack_batch_eq_torch [Inhabited α] (d : Int) (bs : Shape) (names : Names) (es : List (String × TD α))
    (rest : List (TD α)) (r : TD α) (h : tdStack d (.node bs names es :: rest) = .ok r) :
    ∃ i nm' es', normDim (bs.length + 1) d = some i ∧ r = .node (T.stack (proxy bs :: rest.map (fun _ => proxy bs)) i).shape nm' es' ∧
      Torch.stackShape (rest.length + 1) d bs = some (T.stack (proxy bs :: rest.map (fun _ => proxy bs)) i).shape ∧
      (∀ l, names = some l → nm' = normNames (some (l.insertIdx i none))) := by
  unfold tdStack at h
  simp only [] at h
  generalize hdim : (if d < 0 then (bs.length : Int) + d + 1 else d) = dim at h
  by_cases h1 : dim < 0 ∨ dim > bs.length
  · rw [if_pos h1] at h; cases h
  rw [if_neg h1] at h
  split at h
  · cases h
  · rename_i os hos
    have hlen : os.length = rest.length := by
      exact length_mapM_option _ _ _ hos
    unfold stackLevel at h
    by_cases h2 : dim.toNat > bs.length
    · rw [if_pos h2] at h; cases h
    rw [if_neg h2] at h
    by_cases h3 : os.any (fun o => o.1 ≠ bs) = true
    · rw [if_pos h3] at h; cases h
    rw [if_neg h3] at h
    by_cases h4 : ¬ sameKeySets es (os.map (·.2)) = true
    · rw [if_pos h4] at h; cases h
    rw [if_neg h4] at h
    split at h
    · cases h
    · rename_i es' _
      simp only [Except.ok.injEq] at h
      have hn : normDim (bs.length + 1) d = some dim.toNat := by unfold normDim; grind
      refine ⟨dim.toNat, normNames (names.map (fun l => l.insertIdx dim.toNat none)), es', hn, ?_, ?_, ?_⟩
      · rw [← h]; simp [T.stack, proxy, hlen]
      · simp [Torch.stackShape, hn, T.stack, proxy]
      · intro l hl; subst hl; rfl

/-! ## gather -/

/-- gather on an entry, seen through the batch view, is gather on the batch view: trailing feature dims are carried along -/
theorem gather_leaf_commutes (leaf : T α) (index : T Nat) (n d : Nat) (hn : n ≤ leaf.shape.length) (hd : d < n)
    (hshape : index.shape = (leaf.shape.take n).set d (index.shape.getD d 0)) :
    asBatch n ((T.gather d (indexExpand index leaf.shape d) leaf)) ≈ₜₜ T.gather d index (asBatch n leaf) := by
  have hlen : index.shape.length = n := by
    have := congrArg List.length hshape; simp at this; omega
  apply asBatch_eqv2
  · simp only [T.gather, indexExpand]
    rw [List.take_set]; exact hshape.symm
  · intro c hc
    simp only [T.gather, indexExpand] at hc ⊢
    have hcl : c.length = n := by
      have := InB.length_eq hc; simp at this; omega
    refine ⟨?_, ?_⟩
    · simp only [asBatch]; rw [List.drop_set_of_lt hd]
    · intro f _
      simp only [asBatch]
      have h1 : (c ++ f).take index.shape.length = c := by
        rw [hlen, ← hcl]; simp
      rw [h1]
      congr 1
      rw [List.set_append]
      simp [show d < c.length by omega]


/-- `torch.gather` of a tensordict: an accepted call has a valid (possibly negative) batch dim and the result's batch size is the
shape `torch.gather` gives the batch-shape proxy, i.e. the index's shape -/
theorem gather_batch_eq_torch (d : Int) (index : T Nat) (bs : Shape) (names : Names) (es : List (String × TD α)) (r : TD α)
    (h : gatherNode d index bs names es = .ok r) :
    ∃ i nm' es', normDim bs.length d = some i ∧ r = .node (T.gather i index (proxy bs)).shape nm' es' := by
  unfold gatherNode at h
  split at h
  · cases h
  · rename_i s0 rest hsh
    by_cases h0 : s0 = 0
    · rw [if_pos h0] at h; cases h
    rw [if_neg h0] at h
    simp only [] at h
    generalize hdim : (if d < 0 then (bs.length : Int) + d else d) = dim at h
    by_cases h1 : dim > (bs.length : Int) - 1 ∨ dim < 0
    · rw [if_pos h1] at h; cases h
    rw [if_neg h1] at h
    split at h
    · cases h
    · split at h
      · cases h
      · rename_i es' _
        simp only [Except.ok.injEq] at h
        refine ⟨dim.toNat, (if index.shape.length = bs.length then normNames names else none), es', ?_, ?_⟩
        · unfold normDim; grind
        · rw [← h]; simp [T.gather]

/-! ## masked_select -/

/-- masked selection on an entry, seen through the batch view, is masked selection of the feature blocks: the mask ranges over
leading batch dims (`k ≤ n`), the remaining batch dims and all feature dims are carried along -/
theorem masked_select_leaf_commutes (leaf : T α) (mask : T Bool) (n : Nat) (hk : mask.shape.length ≤ n)
    (hn : n ≤ leaf.shape.length) :
    asBatch (1 + (n - mask.shape.length)) (T.maskedSelect mask leaf) ≈ₜₜ T.maskedSelect mask (asBatch n leaf) := by
  apply asBatch_eqv2
  · simp only [T.maskedSelect, asBatch]
    rw [Nat.add_comm, List.take_succ_cons, take_drop_comm _ _ _ hk]
  · intro c hc
    simp only [T.maskedSelect, asBatch] at hc ⊢
    rw [Nat.add_comm, List.take_succ_cons, take_drop_comm _ _ _ hk] at hc
    have hcl : c.length = 1 + (n - mask.shape.length) := by
      have := InB.length_eq hc; simp at this; omega
    obtain ⟨i, rest, rfl⟩ : ∃ i rest, c = i :: rest := by
      cases c with
      | nil => simp at hcl; omega
      | cons i rest => exact ⟨i, rest, rfl⟩
    have hi : i < (T.maskSel mask).length := by
      have := hc; simp [InB] at this; exact this.1
    have hrl : rest.length = n - mask.shape.length := by simp at hcl; omega
    have hs : ((T.maskSel mask)[i]?).getD [] = (T.maskSel mask)[i] := by simp [List.getElem?_eq_getElem hi]
    simp only [List.headD_cons, List.tail_cons, hs]
    refine ⟨?_, ?_⟩
    · rw [Nat.add_comm, List.drop_succ_cons, List.drop_drop]
      congr 1; omega
    · intro f _
      simp only [List.cons_append, List.headD_cons, List.tail_cons, hs, List.append_assoc]


/-- masked_select of a tensordict: the result's batch size is the shape boolean indexing gives the batch-shape proxy
(`[number of true entries] ++ the batch dims the mask does not cover`), and those dims keep their names -/
theorem masked_select_batch_eq_torch (mask : T Bool) (bs : Shape) (names : Names) (es : List (String × TD α)) (r : TD α)
    (h : mselNode mask bs names es = .ok r) :
    ∃ es', r = .node (T.maskedSelect mask (proxy bs)).shape (normNames (names.map fun l => none :: l.drop mask.shape.length)) es' := by
  unfold mselNode at h
  split at h
  · cases h
  · split at h
    · cases h
    · split at h
      · cases h
      · rename_i es' _
        simp only [Except.ok.injEq] at h
        exact ⟨es', by rw [← h]; simp [T.maskedSelect, proxy]⟩

/-! ## whole trees -/

/-- on a leaf carrying `bs` as a prefix, a good call succeeds and the result carries the new batch size as a prefix -/
theorem goodCall_leaf (call : LeafCall) (bs bs' : Shape) (g : GoodCall call bs bs') (t : T α)
    (ht : t.shape.take bs.length = bs) :
    ∃ t', applyLeaf call t = .ok t' ∧ t'.shape.take bs'.length = bs' := by
  have hn : bs.length ≤ t.shape.length := by
    have := congrArg List.length ht; simp at this; omega
  cases g with
  | transpose i j _ hij hj =>
    have hi' : i < t.rank := by unfold T.rank; omega
    have hj' : j < t.rank := by unfold T.rank; omega
    have h0 : t.rank ≠ 0 := by omega
    refine ⟨t.transpose i j, by simp [applyLeaf, Torch.transpose, wrapDim_ofNat hi', wrapDim_ofNat hj', h0], ?_⟩
    simp only [T.transpose, swap_length]
    rw [swap_take _ _ _ _ (by omega) hj, ht]
  | unsqueeze i _ hi =>
    have hlt : i < t.rank + 1 := by unfold T.rank; omega
    have hl : (bs.insertIdx i 1).length = bs.length + 1 := List.length_insertIdx_of_le_length hi 1
    refine ⟨t.unsqueeze i, by simp [applyLeaf, Torch.unsqueeze, normDim_ofNat hlt], ?_⟩
    simp only [T.unsqueeze, hl]
    rw [insertIdx_take _ _ _ _ hi hn, ht]
  | squeeze i _ hi h1 =>
    have hi' : i < t.rank := by unfold T.rank; omega
    have h0 : t.rank ≠ 0 := by omega
    have hg : t.shape.getD i 0 = 1 := by
      rw [← ht] at h1
      simpa [List.getD_eq_getElem?_getD, List.getElem?_take, hi] using h1
    have hsq : t.squeeze i = t.select i 0 := by unfold T.squeeze; rw [if_pos hg]
    have hl : (bs.eraseIdx i).length = bs.length - 1 := List.length_eraseIdx_of_lt hi
    refine ⟨t.select i 0, by simp [applyLeaf, Torch.squeeze, wrapDim_ofNat hi', h0, hsq], ?_⟩
    simp only [T.select, hl]
    rw [eraseIdx_take _ _ _ hi hn, ht]
  | flatten a b _ hab hb =>
    have ha' : a < t.rank := by unfold T.rank; omega
    have hb' : b < t.rank := by unfold T.rank; omega
    have h0 : t.rank ≠ 0 := by omega
    have hblk : (t.shape.drop a).take (b + 1 - a) = (bs.drop a).take (b + 1 - a) := by
      rw [← ht]
      apply List.ext_getElem?; intro k
      simp [List.getElem?_take, List.getElem?_drop]; grind
    have hl : (bs.take a ++ [prod ((bs.drop a).take (b + 1 - a))] ++ bs.drop (b + 1)).length = bs.length - (b - a) := by
      simp; omega
    refine ⟨t.flatten a b, by simp [applyLeaf, Torch.flatten, wrapDim_ofNat ha', wrapDim_ofNat hb', h0]; omega, ?_⟩
    simp only [T.flatten, hl, hblk]
    rw [← ht]
    apply List.ext_getElem?; intro k
    simp [List.getElem?_take, List.getElem?_drop, List.getElem?_append, List.length_take]; grind
  | permute p _ hp hid =>
    have hpl : p.length = bs.length := by simpa using hp.length_eq
    obtain ⟨t', h1, h2⟩ := permute_leaf_commutes t p bs.length hp (by unfold T.rank; exact hn)
    refine ⟨t', h1, ?_⟩
    have hs := h2.1
    simp only [asBatch, T.permute] at hs
    rw [ht] at hs
    simpa [hpl] using hs
  | view _ _ hprod hne =>
    obtain ⟨t', h1, h2⟩ := view_leaf_commutes t bs.length bs' (by unfold T.rank; exact hn) (by rw [ht]; exact hprod)
    exact ⟨t', h1, by have hs := h2.1; simpa [asBatch, T.reshape] using hs⟩
  | reshape _ _ hprod hne =>
    obtain ⟨t', h1, h2⟩ := reshapeCall_leaf_commutes t bs.length bs' (by unfold T.rank; exact hn) (by rw [ht]; exact hprod)
    exact ⟨t', h1, by have hs := h2.1; simpa [asBatch, T.reshape] using hs⟩
  | expand _ _ hl hc =>
    have hcompat : ∀ i, i < bs.length → t.shape.getD i 0 = 1 ∨ bs'.getD (bs'.length - bs.length + i) 0 = t.shape.getD i 0 := by
      intro i hi
      have hg : t.shape.getD i 0 = bs.getD i 0 := by
        have : (t.shape.take bs.length)[i]? = bs[i]? := by rw [ht]
        rw [List.getElem?_take] at this
        simp only [hi, if_true] at this
        simp [List.getD_eq_getElem?_getD, this]
      rw [hg]; exact hc i hi
    obtain ⟨t', h1, h2⟩ := expand_leaf_commutes t bs.length bs' (by unfold T.rank; exact hn) hl hcompat
    exact ⟨t', h1, by have hs := h2.1; simpa [asBatch, T.expand] using hs⟩



/-- the whole-tree statement behind "each entry equals the same operation applied to that entry's batch dims … and nested
tensordicts are transformed recursively": on a coherent tree (every entry carries its parent's batch as a prefix, at every depth),
a good call succeeds on every entry — tensor leaves through torch, nested tensordicts through the same method with padded
arguments — and the result is again coherent w.r.t. the new batch size, with feature dims / extra batch dims untouched -/
theorem shape_op_coherent_all :
    (∀ (op : Op) (bs : Shape) (names : Names) (es : List (String × TD α)),
        ∀ bs' nm' call, opMeta op bs names = .ok (some (bs', nm', call)) → GoodCall call bs bs' →
          (∀ d sz, op ≠ .unflatten d sz) → CoherentList bs es →
          ∃ nm es', tdNode op bs names es = .ok (.node bs' nm es') ∧ CoherentList bs' es') ∧
    (∀ (call : LeafCall) (es : List (String × TD α)), ∀ bs bs', GoodCall call bs bs' → CoherentList bs es →
          ∃ es', mapEntries call es = .ok es' ∧ CoherentList bs' es') ∧
    (∀ (call : LeafCall) (e : TD α), ∀ bs bs', GoodCall call bs bs' → PrefixOK bs e → Coherent e →
          ∃ e', applyEntry call e = .ok e' ∧ PrefixOK bs' e' ∧ Coherent e') := by
  apply tdNode.mutual_induct (α := α)
    (motive1 := fun op bs names es => ∀ bs' nm' call, opMeta op bs names = .ok (some (bs', nm', call)) → GoodCall call bs bs' →
          (∀ d sz, op ≠ .unflatten d sz) → CoherentList bs es →
          ∃ nm es', tdNode op bs names es = .ok (.node bs' nm es') ∧ CoherentList bs' es')
    (motive2 := fun call es => ∀ bs bs', GoodCall call bs bs' → CoherentList bs es →
          ∃ es', mapEntries call es = .ok es' ∧ CoherentList bs' es')
    (motive3 := fun call e => ∀ bs bs', GoodCall call bs bs' → PrefixOK bs e → Coherent e →
          ∃ e', applyEntry call e = .ok e' ∧ PrefixOK bs' e' ∧ Coherent e')
  · -- tdNode
    intro op bs names es ih bs' nm' call hm g hnu hc
    obtain ⟨es', hes, hc'⟩ := ih call bs bs' g hc
    unfold tdNode
    simp only [hm, bind, Except.bind, hes]
    cases op with
    | unflatten d sz => exact absurd rfl (hnu d sz)
    | permute _ => exact ⟨_, es', rfl, hc'⟩
    | transpose _ _ => exact ⟨_, es', rfl, hc'⟩
    | squeeze _ => exact ⟨_, es', rfl, hc'⟩
    | unsqueeze _ => exact ⟨_, es', rfl, hc'⟩
    | flatten _ _ => exact ⟨_, es', rfl, hc'⟩
    | view _ => exact ⟨_, es', rfl, hc'⟩
    | reshape _ => exact ⟨_, es', rfl, hc'⟩
    | expand _ => exact ⟨_, es', rfl, hc'⟩
  · -- mapEntries []
    intro call bs bs' _ _
    exact ⟨[], by simp [mapEntries, pure, Except.pure], by simp [CoherentList]⟩
  · -- mapEntries cons
    intro call k e rest ih1 ih2 bs bs' g hc
    simp only [CoherentList] at hc
    obtain ⟨e', he, hp, hce⟩ := ih1 bs bs' g hc.1 hc.2.1
    obtain ⟨rest', hr, hcr⟩ := ih2 bs bs' g hc.2.2
    refine ⟨(k, e') :: rest', ?_, ?_⟩
    · simp only [mapEntries, bind, Except.bind, he, hr, pure, Except.pure]
    · simp only [CoherentList]; exact ⟨hp, hce, hcr⟩
  · -- applyEntry leaf
    intro call t bs bs' g hp _
    obtain ⟨t', h1, h2⟩ := goodCall_leaf call bs bs' g t hp
    exact ⟨.leaf t', by simp [applyEntry, h1, Except.map], h2, by simp [Coherent]⟩
  · -- applyEntry node, squeeze() chain: not a `GoodCall` (its whole-tree statement is `squeezeAll_coherent_all` / `squeezeAll_coherent`)
    intro bs2 names2 es2 ds shape n _ _ bs bs' g _ _
    cases g
  · -- applyEntry node
    intro call bs2 names2 es2 hns ih bs bs' g hp hc
    simp only [PrefixOK] at hp
    obtain ⟨ext, rfl⟩ := prefix_split bs bs2 hp
    obtain ⟨nm3, call2, hm, g2⟩ := goodCall_nested call bs bs' g ext names2
    simp only [Coherent] at hc
    obtain ⟨nm, es', hr, hc'⟩ := ih (bs' ++ ext) nm3 call2 hm g2 (goodCall_not_unflatten call bs bs' g _) hc
    refine ⟨.node (bs' ++ ext) nm es', by rw [applyEntry_node_other call _ _ _ hns]; exact hr, ?_, ?_⟩
    · simp [PrefixOK]
    · simp only [Coherent]; exact hc'


/-- corollary in terms of the public op: whenever the batch arithmetic of transpose / unsqueeze / squeeze(dim) / flatten accepts
(and does not return `self`), the op succeeds on EVERY entry of a coherent tree, at every depth, and the result is coherent
with the batch size the arithmetic computed (= torch's, by the `*_batch_eq_torch` theorems) -/
theorem shape_op_coherent (op : Op) (bs bs' : Shape) (names nm' : Names) (call : LeafCall) (es : List (String × TD α))
    (hop : match op with | .transpose _ _ => True | .unsqueeze _ => True | .squeeze (some _) => True | .flatten _ _ => True | _ => False)
    (h : opMeta op bs names = .ok (some (bs', nm', call))) (hc : CoherentList bs es) :
    ∃ nm es', tdNode op bs names es = .ok (.node bs' nm es') ∧ CoherentList bs' es' := by
  have g := goodCall_of_meta op bs bs' names nm' call hop h
  refine shape_op_coherent_all.1 op bs names es bs' nm' call h g ?_ hc
  intro d sz hne
  subst hne
  exact hop

/-- the same for permute: every permutation the arithmetic accepts (not the identity) is carried out on the whole tree -/
theorem permute_coherent (dims : List Int) (bs bs' : Shape) (names nm' : Names) (call : LeafCall) (es : List (String × TD α))
    (h : opMeta (.permute dims) bs names = .ok (some (bs', nm', call))) (hc : CoherentList bs es) :
    ∃ nm es', tdNode (.permute dims) bs names es = .ok (.node bs' nm es') ∧ CoherentList bs' es' :=
  shape_op_coherent_all.1 _ bs names es bs' nm' call h (goodCall_of_meta_permute dims bs bs' names nm' call h)
    (by intro d sz hne; cases hne) hc

/-- the same for view / reshape, for sizes consistent with the batch (the arithmetic itself does not check this: known finding) -/
theorem view_coherent (shape : List Int) (bs bs' : Shape) (names nm' : Names) (call : LeafCall) (es : List (String × TD α))
    (hprod : prod bs' = prod bs)
    (h : opMeta (.view shape) bs names = .ok (some (bs', nm', call))) (hc : CoherentList bs es) :
    ∃ nm es', tdNode (.view shape) bs names es = .ok (.node bs' nm es') ∧ CoherentList bs' es' :=
  shape_op_coherent_all.1 _ bs names es bs' nm' call h (goodCall_of_meta_view true shape bs bs' names nm' call hprod h)
    (by intro d sz hne; cases hne) hc



/-- whole-tree `unflatten` (the op `shape_op_coherent_all` leaves out because its names go through the public setter): on a coherent
tree whose nodes are well named (names of the right length, pairwise different where given — what the setter itself enforces on
every tensordict), splitting batch dim `d` into sizes `sz` with `prod sz = batch_size[d]` succeeds on EVERY entry — tensor leaves
through `torch.unflatten`, nested tensordicts through the same method, the names setter included — and the result is coherent
with the new batch size -/
theorem unflatten_coherent_all :
    (∀ (op : Op) (bs : Shape) (names : Names) (es : List (String × TD α)),
        ∀ (d : Nat) (sz : Shape), op = .unflatten d (natsToInts sz) → d < bs.length → sz ≠ [] → prod sz = bs.getD d 0 →
          NamesOK names bs.length → CoherentList bs es → NamedList es →
          ∃ nm es', tdNode op bs names es = .ok (.node (bs.take d ++ sz ++ bs.drop (d + 1)) nm es') ∧
            CoherentList (bs.take d ++ sz ++ bs.drop (d + 1)) es') ∧
    (∀ (call : LeafCall) (es : List (String × TD α)),
        ∀ (d : Nat) (sz bs : Shape), call = .unflatten d (natsToInts sz) → d < bs.length → sz ≠ [] → prod sz = bs.getD d 0 →
          CoherentList bs es → NamedList es →
          ∃ es', mapEntries call es = .ok es' ∧ CoherentList (bs.take d ++ sz ++ bs.drop (d + 1)) es') ∧
    (∀ (call : LeafCall) (e : TD α),
        ∀ (d : Nat) (sz bs : Shape), call = .unflatten d (natsToInts sz) → d < bs.length → sz ≠ [] → prod sz = bs.getD d 0 →
          PrefixOK bs e → Coherent e → Named e →
          ∃ e', applyEntry call e = .ok e' ∧ PrefixOK (bs.take d ++ sz ++ bs.drop (d + 1)) e' ∧ Coherent e') := by
  apply tdNode.mutual_induct (α := α)
    (motive1 := fun op bs names es => ∀ (d : Nat) (sz : Shape), op = .unflatten d (natsToInts sz) → d < bs.length → sz ≠ [] →
          prod sz = bs.getD d 0 → NamesOK names bs.length → CoherentList bs es → NamedList es →
          ∃ nm es', tdNode op bs names es = .ok (.node (bs.take d ++ sz ++ bs.drop (d + 1)) nm es') ∧
            CoherentList (bs.take d ++ sz ++ bs.drop (d + 1)) es')
    (motive2 := fun call es => ∀ (d : Nat) (sz bs : Shape), call = .unflatten d (natsToInts sz) → d < bs.length → sz ≠ [] →
          prod sz = bs.getD d 0 → CoherentList bs es → NamedList es →
          ∃ es', mapEntries call es = .ok es' ∧ CoherentList (bs.take d ++ sz ++ bs.drop (d + 1)) es')
    (motive3 := fun call e => ∀ (d : Nat) (sz bs : Shape), call = .unflatten d (natsToInts sz) → d < bs.length → sz ≠ [] →
          prod sz = bs.getD d 0 → PrefixOK bs e → Coherent e → Named e →
          ∃ e', applyEntry call e = .ok e' ∧ PrefixOK (bs.take d ++ sz ++ bs.drop (d + 1)) e' ∧ Coherent e')
  · -- tdNode
    intro op bs names es ih d sz hop hd hne hprod hnm hc hn
    subst hop
    obtain ⟨es', hes, hc'⟩ := ih (.unflatten d (natsToInts sz)) d sz bs rfl hd hne hprod hc hn
    unfold tdNode
    simp only [opMeta, unflattenMeta_nats d sz bs names hd, bind, Except.bind, hes]
    cases names with
    | none => exact ⟨_, es', rfl, hc'⟩
    | some l =>
      have hk : 1 ≤ sz.length := List.length_pos_iff.2 hne
      obtain ⟨nm, hs⟩ := namesSetter_unflatten l bs.length d sz.length hnm hd hk
      have hlen : (bs.take d ++ sz ++ bs.drop (d + 1)).length = bs.length + sz.length - 1 := by simp; omega
      simp only [Option.map, hlen, hs]
      exact ⟨_, es', rfl, hc'⟩
  · -- mapEntries []
    intro call d sz bs _ _ _ _ _ _
    exact ⟨[], by simp [mapEntries, pure, Except.pure], by simp [CoherentList]⟩
  · -- mapEntries cons
    intro call k e rest ih1 ih2 d sz bs hcall hd hne hprod hc hn
    simp only [CoherentList] at hc
    simp only [NamedList] at hn
    obtain ⟨e', he, hp, hce⟩ := ih1 d sz bs hcall hd hne hprod hc.1 hc.2.1 hn.1
    obtain ⟨rest', hr, hcr⟩ := ih2 d sz bs hcall hd hne hprod hc.2.2 hn.2
    refine ⟨(k, e') :: rest', ?_, ?_⟩
    · simp only [mapEntries, bind, Except.bind, he, hr, pure, Except.pure]
    · simp only [CoherentList]; exact ⟨hp, hce, hcr⟩
  · -- leaf
    intro call t d sz bs hcall hd hne hprod hp _ _
    subst hcall
    simp only [PrefixOK] at hp
    have hn : bs.length ≤ t.rank := by
      unfold T.rank
      have := congrArg List.length hp
      simp at this; omega
    have hg : t.shape.getD d 0 = bs.getD d 0 := getD_of_take hp hd
    obtain ⟨t', h1, h2⟩ := unflatten_leaf_commutes t d bs.length sz hd hn hne (by rw [hg]; exact hprod)
    refine ⟨.leaf t', by simp [applyEntry, h1, Except.map], ?_, by simp [Coherent]⟩
    have hs := h2.1
    have hlen : (bs.take d ++ sz ++ bs.drop (d + 1)).length = bs.length + sz.length - 1 := by
      have hk : 1 ≤ sz.length := List.length_pos_iff.2 hne
      simp; omega
    simp only [PrefixOK, hlen]
    simpa [asBatch, T.unflatten, hp] using hs
  · -- squeezeDims node: not an unflatten call
    intro bs2 names2 es2 ds shape n _ _ d sz bs hcall
    cases hcall
  · -- node
    intro call bs2 names2 es2 hns ih d sz bs hcall hd hne hprod hp hc hn
    subst hcall
    simp only [PrefixOK] at hp
    obtain ⟨ext, rfl⟩ := prefix_split bs bs2 hp
    simp only [Coherent] at hc
    simp only [Named] at hn
    have hd2 : d < (bs ++ ext).length := by simp; omega
    have hg : (bs ++ ext).getD d 0 = bs.getD d 0 := by
      rw [List.getD_eq_getElem?_getD, List.getElem?_append_left hd, ← List.getD_eq_getElem?_getD]
    obtain ⟨nm, es', hr, hc'⟩ := ih d sz (by simp [opOfCall]) hd2 hne (by rw [hg]; exact hprod) hn.1 hc hn.2
    refine ⟨.node _ nm es', by rw [applyEntry_node_other _ _ _ _ hns]; exact hr, ?_, ?_⟩
    · simp only [PrefixOK]; exact unflat_prefix bs ext sz d hd
    · simp only [Coherent]; exact hc'


/-- the public spelling (negative dim, one `-1` size): whenever the batch arithmetic resolves the call to dim `nd` and sizes `sz`
that multiply to `batch_size[nd]` (the arithmetic itself does not check this — known finding C02-view-leafless-unvalidated), `unflatten`
succeeds on EVERY entry of a coherent, well-named tree — tensor leaves through torch, nested tensordicts recursively, the names
setter included — and the result is coherent with the new batch size -/
theorem unflatten_coherent (d : Int) (sizes : List Int) (bs : Shape) (names nm' : Names) (es : List (String × TD α))
    (nd : Nat) (sz : Shape) (bs' : Shape)
    (hm : opMeta (.unflatten d sizes) bs names = .ok (some (bs', nm', .unflatten nd (natsToInts sz))))
    (hne : sz ≠ []) (hprod : prod sz = bs.getD nd 0)
    (hnm : NamesOK names bs.length) (hc : CoherentList bs es) (hn : NamedList es) :
    ∃ nm es', tdNode (.unflatten d sizes) bs names es = .ok (.node (bs.take nd ++ sz ++ bs.drop (nd + 1)) nm es') ∧
      CoherentList (bs.take nd ++ sz ++ bs.drop (nd + 1)) es' := by
  obtain ⟨nd0, szI, h1, h2, h3, h4⟩ := unflattenMeta_inv d sizes bs bs' names nm' _ hm
  simp only [LeafCall.unflatten.injEq] at h2
  obtain ⟨rfl, rfl⟩ := h2
  have hnd : nd < bs.length := maybeCorrectNegDim_lt d bs.length nd h1
  have heq : opMeta (.unflatten d sizes) bs names = opMeta (.unflatten (nd : Int) (natsToInts sz)) bs names := by
    rw [hm]
    simp only [opMeta, unflattenMeta_nats nd sz bs names hnd]
    rw [h3, h4]
    simp [natsToInts, Function.comp_def]
  have ht : tdNode (.unflatten d sizes) bs names es = tdNode (.unflatten (nd : Int) (natsToInts sz)) bs names es := by
    unfold tdNode
    rw [heq]
  rw [ht]
  exact unflatten_coherent_all.1 _ bs names es nd sz rfl hnd hne hprod hnm hc hn

/-! ### whole-tree statements for the tuple-result ops and for repeat / repeat_interleave -/

mutual
/-- a slice `start : start+len` of batch dim `d` of a coherent tree is coherent with the batch size whose dim `d` is `len` -/
theorem narrowNode_coherent (d start len : Nat) (bs : Shape) (names : Names) (es : List (String × TD α))
    (hd : d < bs.length) (hc : CoherentList bs es) :
    Coherent (narrowNode d start len (bs.set d len) names bs.length es) := by
  simp only [narrowNode, Coherent]
  exact narrowGo_coherent d start len bs es hd hc
termination_by (sizeOf es, 1)

theorem narrowGo_coherent (d start len : Nat) (bs : Shape) (es : List (String × TD α))
    (hd : d < bs.length) (hc : CoherentList bs es) :
    CoherentList (bs.set d len) (narrowNode.go d start len (bs.set d len) bs.length es) := by
  match es, hc with
  | [], _ => simp [narrowNode.go, CoherentList]
  | (k, .leaf t) :: rest, hc =>
    simp only [CoherentList] at hc
    simp only [narrowNode.go, CoherentList]
    refine ⟨?_, by simp [Coherent], narrowGo_coherent d start len bs rest hd hc.2.2⟩
    simp only [PrefixOK, T.narrow]
    exact set_take_prefix _ _ d len hc.1 hd
  | (k, .node bs2 nm2 es2) :: rest, hc =>
    simp only [CoherentList] at hc
    obtain ⟨hp, hce, hcr⟩ := hc
    simp only [PrefixOK] at hp
    obtain ⟨ext, rfl⟩ := prefix_split bs bs2 hp
    simp only [Coherent] at hce
    simp only [narrowNode.go, CoherentList]
    have hdrop : (bs ++ ext).drop bs.length = ext := by simp
    have hset : bs.set d len ++ ext = (bs ++ ext).set d len := (set_append_left bs ext d len hd).symm
    refine ⟨?_, ?_, narrowGo_coherent d start len bs rest hd hcr⟩
    · simp [narrowNode, PrefixOK, hdrop]
    · rw [hdrop, hset]
      exact narrowNode_coherent d start len (bs ++ ext) nm2 es2 (by simp; omega) hce
termination_by (sizeOf es, 0)
end

/-- every piece `split` / `chunk` returns for a coherent tree is coherent with ITS batch size (dim `d` = the length of the piece) -/
theorem splitNode_coherent (pieces : List (Nat × Nat)) (d : Nat) (bs : Shape) (names : Names) (es : List (String × TD α))
    (hd : d < bs.length) (hc : CoherentList bs es) :
    ∀ p ∈ splitNode pieces d bs names es, Coherent p := by
  intro p hp
  simp only [splitNode, List.mem_map] at hp
  obtain ⟨⟨s, l⟩, _, rfl⟩ := hp
  exact narrowNode_coherent d s l bs names es hd hc

/-- public form: whatever `split(k, d)` / `split([..], d)` / `chunk(n, d)` return on a coherent tensordict is a list of coherent tensordicts -/
theorem split_chunk_coherent (op : MOp) (bs : Shape) (names : Names) (es : List (String × TD α)) (ps : List (TD α))
    (hop : match op with | .unbind _ => False | _ => True)
    (h : tdMOp op (.node bs names es) = .ok ps) (hc : CoherentList bs es) : ∀ p ∈ ps, Coherent p := by
  cases op with
  | unbind d => exact absurd hop id
  | split k d =>
    simp only [tdMOp, bind, Except.bind] at h
    cases hnd : maybeCorrectNegDim d bs.length with
    | error e => simp [hnd] at h
    | ok nd =>
      cases hps : splitPieces k (bs.getD nd 0) with
      | error e => rw [List.getD_eq_getElem?_getD] at hps; simp [hnd, hps] at h
      | ok pieces =>
        simp only [hnd, hps, pure, Except.pure, Except.ok.injEq] at h
        subst h
        exact splitNode_coherent pieces nd bs names es (maybeCorrectNegDim_lt d bs.length nd hnd) hc
  | splitList sizes d =>
    simp only [tdMOp, bind, Except.bind] at h
    cases hnd : maybeCorrectNegDim d bs.length with
    | error e => simp [hnd] at h
    | ok nd =>
      cases hps : splitListPieces sizes (bs.getD nd 0) with
      | error e => rw [List.getD_eq_getElem?_getD] at hps; simp [hnd, hps] at h
      | ok pieces =>
        simp only [hnd, hps, pure, Except.pure, Except.ok.injEq] at h
        subst h
        exact splitNode_coherent pieces nd bs names es (maybeCorrectNegDim_lt d bs.length nd hnd) hc
  | chunk chunks d =>
    simp only [tdMOp, bind, Except.bind] at h
    by_cases hch : chunks < 1
    · simp [hch, throw, throwThe, MonadExceptOf.throw] at h
    · simp only [hch, if_false] at h
      cases hpi : pyIndex bs d with
      | none => simp [hpi, throw, throwThe, MonadExceptOf.throw] at h
      | some n =>
        simp only [hpi, pure, Except.pure] at h
        cases hnd : maybeCorrectNegDim d bs.length with
        | error e => simp [hnd] at h
        | ok nd =>
          simp only [hnd] at h
          have hlt := maybeCorrectNegDim_lt d bs.length nd hnd
          split at h
          · cases hps : splitListPieces (List.replicate chunks.toNat 0) (bs.getD nd 0) with
            | error e => rw [List.getD_eq_getElem?_getD] at hps; simp [hps] at h
            | ok pieces =>
              simp only [hps, Except.ok.injEq] at h
              subst h
              exact splitNode_coherent pieces nd bs names es hlt hc
          · split at h
            · simp at h
            · rename_i v _
              simp only [Except.ok.injEq] at h
              subst h
              exact splitNode_coherent v nd bs names es hlt hc

mutual
/-- whole-tree `repeat`: on a coherent tree, with one non-negative count per batch dim, `repeat` succeeds on EVERY entry — a tensor leaf
through `leaf.repeat(*reps, 1, …, 1)`, a nested tensordict through the same method with the counts padded by ones — and the result is
coherent with the batch size `bs[i] * reps[i]` (mutual recursion mirroring `repeatNode / repeatEntries / repeatEntry`) -/
theorem repeatNode_coh (r : List Nat) (bs : Shape) (names : Names) (es : List (String × TD α))
    (hr : r.length = bs.length) (hc : CoherentList bs es) :
    ∃ nm es', repeatNode (natsToInts r) bs names es = .ok (.node (List.zipWith (· * ·) bs r) nm es') ∧
      CoherentList (List.zipWith (· * ·) bs r) es' := by
  obtain ⟨es', h1, h2⟩ := repeatEntries_coh r bs es hr hc
  refine ⟨normNames names, es', ?_, h2⟩
  rw [repeatNode]
  have hl : ¬ ((natsToInts r).length ≠ bs.length) := by simp [natsToInts, hr]
  simp only [hl, if_false, natsToInts_any_neg, Bool.false_eq_true, natsToInts_toNat, h1]
termination_by (sizeOf es, 1)

theorem repeatEntries_coh (r : List Nat) (bs : Shape) (es : List (String × TD α))
    (hr : r.length = bs.length) (hc : CoherentList bs es) :
    ∃ es', repeatEntries r bs.length es = .ok es' ∧ CoherentList (List.zipWith (· * ·) bs r) es' := by
  match es, hc with
  | [], _ => exact ⟨[], by simp [repeatEntries], by simp [CoherentList]⟩
  | (k, e) :: rest, hc =>
    simp only [CoherentList] at hc
    obtain ⟨e', he, hp, hce⟩ := repeatEntry_coh r bs e hr hc.1 hc.2.1
    obtain ⟨rest', hrest, hcr⟩ := repeatEntries_coh r bs rest hr hc.2.2
    refine ⟨(k, e') :: rest', ?_, ?_⟩
    · rw [repeatEntries]; simp only [he, hrest]
    · simp only [CoherentList]; exact ⟨hp, hce, hcr⟩
termination_by (sizeOf es, 0)

theorem repeatEntry_coh (r : List Nat) (bs : Shape) (e : TD α)
    (hr : r.length = bs.length) (hp : PrefixOK bs e) (hc : Coherent e) :
    ∃ e', repeatEntry r bs.length e = .ok e' ∧ PrefixOK (List.zipWith (· * ·) bs r) e' ∧ Coherent e' := by
  match e, hp, hc with
  | .leaf t, hp, _ =>
    simp only [PrefixOK] at hp
    obtain ⟨ext, hext⟩ := prefix_split bs t.shape hp
    have hrank : ¬ (t.rank < bs.length) := by unfold T.rank; rw [hext]; simp
    refine ⟨.leaf (t.repeat (r ++ List.replicate (t.rank - bs.length) 1)), ?_, ?_, by simp [Coherent]⟩
    · rw [repeatEntry]; simp only [hrank, if_false]
    · have hlen : t.rank - bs.length = ext.length := by unfold T.rank; rw [hext]; simp
      simp only [PrefixOK, T.repeat, hlen, hext, zipWith_mul_append_ones bs ext r hr]
      have : (List.zipWith (· * ·) bs r).length = bs.length := by simp [hr]
      rw [this]
      have h2 : (List.zipWith (· * ·) bs r ++ ext).take bs.length = List.zipWith (· * ·) bs r := by
        rw [← this]; exact List.take_left' rfl
      exact h2
  | .node bs2 nm2 es2, hp, hc =>
    simp only [PrefixOK] at hp
    obtain ⟨ext, rfl⟩ := prefix_split bs bs2 hp
    simp only [Coherent] at hc
    have hl2 : (bs ++ ext).length - bs.length = ext.length := by simp
    have hr2 : (r ++ List.replicate ext.length 1).length = (bs ++ ext).length := by simp [hr]
    obtain ⟨nm, es', h1, h2⟩ := repeatNode_coh (r ++ List.replicate ext.length 1) (bs ++ ext) nm2 es2 hr2 hc
    rw [zipWith_mul_append_ones bs ext r hr] at h1 h2
    refine ⟨.node (List.zipWith (· * ·) bs r ++ ext) nm es', ?_, ?_, ?_⟩
    · rw [repeatEntry, hl2]; exact h1
    · simp only [PrefixOK]; exact List.take_left' rfl
    · simp only [Coherent]; exact h2
termination_by (sizeOf e, 0)
end

mutual
/-- whole-tree `repeat_interleave(r, dim)`: on a coherent tree, for a batch dim `d`, the op succeeds on every entry at every depth and the
result is coherent with the batch size whose dim `d` is multiplied by `r` -/
theorem riNode_coh (r d : Nat) (bs : Shape) (names : Names) (es : List (String × TD α))
    (hd : d < bs.length) (hc : CoherentList bs es) :
    ∃ nm es', riNode (r : Int) (d : Int) bs names es = .ok (.node (bs.modify d (· * r)) nm es') ∧
      CoherentList (bs.modify d (· * r)) es' := by
  obtain ⟨es', h1, h2⟩ := riEntries_coh r d bs es hd hc
  refine ⟨normNames names, es', ?_, h2⟩
  rw [riNode]
  have h0 : ((d : Int) ≥ 0) := by omega
  have hin : ¬ ¬ (0 ≤ (d : Int) ∧ (d : Int) < (bs.length : Nat)) := by omega
  have hr : ¬ ((r : Int) < 0) := by omega
  have hin2 : (0 ≤ (d : Int) ∧ (d : Int) < (bs.length : Nat)) := by omega
  simp [h0, hin2, hr, h1]
termination_by (sizeOf es, 1)

theorem riEntries_coh (r d : Nat) (bs : Shape) (es : List (String × TD α))
    (hd : d < bs.length) (hc : CoherentList bs es) :
    ∃ es', riEntries r d es = .ok es' ∧ CoherentList (bs.modify d (· * r)) es' := by
  match es, hc with
  | [], _ => exact ⟨[], by simp [riEntries], by simp [CoherentList]⟩
  | (k, e) :: rest, hc =>
    simp only [CoherentList] at hc
    obtain ⟨e', he, hp, hce⟩ := riEntry_coh r d bs e hd hc.1 hc.2.1
    obtain ⟨rest', hrest, hcr⟩ := riEntries_coh r d bs rest hd hc.2.2
    refine ⟨(k, e') :: rest', ?_, ?_⟩
    · rw [riEntries]; simp only [he, hrest]
    · simp only [CoherentList]; exact ⟨hp, hce, hcr⟩
termination_by (sizeOf es, 0)

theorem riEntry_coh (r d : Nat) (bs : Shape) (e : TD α)
    (hd : d < bs.length) (hp : PrefixOK bs e) (hc : Coherent e) :
    ∃ e', riEntry r d e = .ok e' ∧ PrefixOK (bs.modify d (· * r)) e' ∧ Coherent e' := by
  match e, hp, hc with
  | .leaf t, hp, _ =>
    simp only [PrefixOK] at hp
    obtain ⟨ext, hext⟩ := prefix_split bs t.shape hp
    have hrank : d < t.rank := by unfold T.rank; rw [hext]; simp; omega
    refine ⟨.leaf (t.repeatInterleave r d), ?_, ?_, by simp [Coherent]⟩
    · rw [riEntry]; simp only [hrank, if_true]
    · simp only [PrefixOK, T.repeatInterleave, hext, modify_append_left' bs ext d _ hd]
      exact List.take_left' rfl
  | .node bs2 nm2 es2, hp, hc =>
    simp only [PrefixOK] at hp
    obtain ⟨ext, rfl⟩ := prefix_split bs bs2 hp
    simp only [Coherent] at hc
    obtain ⟨nm, es', h1, h2⟩ := riNode_coh r d (bs ++ ext) nm2 es2 (by simp; omega) hc
    rw [modify_append_left' bs ext d _ hd] at h1 h2
    refine ⟨.node (bs.modify d (· * r) ++ ext) nm es', ?_, ?_, ?_⟩
    · rw [riEntry]; exact h1
    · simp only [PrefixOK]
      exact List.take_left' rfl
    · simp only [Coherent]; exact h2
termination_by (sizeOf e, 0)
end

mutual
/-- whole-tree `unbind(d)`: on a coherent tree, for a batch dim `d`, every entry is unbound — a tensor leaf through `torch.unbind`, a nested
tensordict through `_unbind` — every column has exactly `batch_size[d]` elements (the strict zip never fails), and each of the
`batch_size[d]` results is a coherent tensordict of batch size `bs` without dim `d` -/
theorem unbindNode_coh (d : Nat) (bs : Shape) (names : Names) (es : List (String × TD α))
    (hd : d < bs.length) (hc : CoherentList bs es) :
    ∃ ps, unbindNode d bs names es = .ok ps ∧ ps.length = bs.getD d 0 ∧
      ∀ p ∈ ps, (∃ nm es', p = .node (bs.eraseIdx d) nm es') ∧ Coherent p := by
  obtain ⟨cols, h1, h2⟩ := unbindEntries_coh d bs es hd hc
  unfold unbindNode
  simp only [bind, Except.bind, h1, pure, Except.pure]
  refine ⟨_, rfl, by simp, ?_⟩
  intro p hp
  simp only [List.mem_map, List.mem_range] at hp
  obtain ⟨i, _, rfl⟩ := hp
  refine ⟨⟨_, _, rfl⟩, ?_⟩
  simp only [Coherent]
  exact cols_row_coherent _ _ i cols h2
termination_by (sizeOf es, 1)

theorem unbindEntries_coh (d : Nat) (bs : Shape) (es : List (String × TD α))
    (hd : d < bs.length) (hc : CoherentList bs es) :
    ∃ cols, unbindEntries d (bs.getD d 0) es = .ok cols ∧ ColsOK (bs.eraseIdx d) (bs.getD d 0) cols := by
  match es, hc with
  | [], _ => exact ⟨[], by simp [unbindEntries, pure, Except.pure], by intro c hc; simp at hc⟩
  | (k, e) :: rest, hc =>
    simp only [CoherentList] at hc
    obtain ⟨col, he, hlen, hall⟩ := unbindEntry_coh d bs e hd hc.1 hc.2.1
    obtain ⟨rest', hrest, hok⟩ := unbindEntries_coh d bs rest hd hc.2.2
    refine ⟨(k, col) :: rest', ?_, ?_⟩
    · rw [unbindEntries]
      simp only [bind, Except.bind, he, hlen, ne_eq, not_true_eq_false, if_false, hrest, pure, Except.pure]
    · intro c hc'
      simp only [List.mem_cons] at hc'
      rcases hc' with rfl | hc'
      · exact ⟨hlen, hall⟩
      · exact hok c hc'
termination_by (sizeOf es, 0)

theorem unbindEntry_coh (d : Nat) (bs : Shape) (e : TD α)
    (hd : d < bs.length) (hp : PrefixOK bs e) (hc : Coherent e) :
    ∃ col, unbindEntry d e = .ok col ∧ col.length = bs.getD d 0 ∧ ∀ x ∈ col, PrefixOK (bs.eraseIdx d) x ∧ Coherent x := by
  match e, hp, hc with
  | .leaf t, hp, _ =>
    simp only [PrefixOK] at hp
    obtain ⟨ext, hext⟩ := prefix_split bs t.shape hp
    have hrank : d < t.rank := by unfold T.rank; rw [hext]; simp; omega
    have h0 : t.rank ≠ 0 := by omega
    have hg : t.shape.getD d 0 = bs.getD d 0 := getD_of_take hp hd
    refine ⟨(t.unbind d).map .leaf, ?_, ?_, ?_⟩
    · rw [unbindEntry]; simp only [Torch.unbind, wrapDim_ofNat hrank, h0, if_false, Except.map]
    · simp only [T.unbind, List.length_map, List.length_range]; exact hg
    · intro x hx
      simp only [T.unbind, List.map_map, List.mem_map, List.mem_range, Function.comp] at hx
      obtain ⟨i, _, rfl⟩ := hx
      refine ⟨?_, by simp [Coherent]⟩
      simp only [PrefixOK, T.select, hext]
      exact eraseIdx_prefix bs ext d hd
  | .node bs2 nm2 es2, hp, hc =>
    simp only [PrefixOK] at hp
    obtain ⟨ext, rfl⟩ := prefix_split bs bs2 hp
    simp only [Coherent] at hc
    obtain ⟨ps, h1, hlen, hall⟩ := unbindNode_coh d (bs ++ ext) nm2 es2 (by simp; omega) hc
    have hg : (bs ++ ext).getD d 0 = bs.getD d 0 := by
      rw [List.getD_eq_getElem?_getD, List.getElem?_append_left hd, ← List.getD_eq_getElem?_getD]
    refine ⟨ps, by rw [unbindEntry]; exact h1, by rw [hlen, hg], ?_⟩
    intro x hx
    obtain ⟨⟨nm, es', rfl⟩, hcx⟩ := hall x hx
    refine ⟨?_, hcx⟩
    simp only [PrefixOK]
    exact eraseIdx_prefix bs ext d hd
termination_by (sizeOf e, 0)
end

/-- public form of the above (any accepted spelling of the dim) -/
theorem unbind_coherent (d : Int) (nd : Nat) (bs : Shape) (names : Names) (es : List (String × TD α))
    (hnd : maybeCorrectNegDim d bs.length = .ok nd) (hc : CoherentList bs es) :
    ∃ ps, tdMOp (.unbind d) (.node bs names es) = .ok ps ∧ ps.length = bs.getD nd 0 ∧ ∀ p ∈ ps, Coherent p := by
  obtain ⟨ps, h1, h2, h3⟩ := unbindNode_coh nd bs names es (maybeCorrectNegDim_lt d bs.length nd hnd) hc
  exact ⟨ps, by simp only [tdMOp, bind, Except.bind, hnd, h1], h2, fun p hp => (h3 p hp).2⟩

/-- for a batch of rank ≥ 1 and an explicit dim the public method IS the dim-given arithmetic proved above -/
theorem riPublic_rank_pos (r d : Int) (bs : Shape) (names : Names) (es : List (String × TD α)) (h : bs.length ≠ 0) :
    riPublic r (some d) bs names es = riNode r d bs names es := by
  simp [riPublic, h]

/-- `repeat_interleave(r)` without a dim on a coherent tree of batch rank > 1: the tree is flattened (`reshape(-1)`, every entry, nested
tensordicts recursively), then repeated along dim 0; it succeeds on every entry and the result is coherent with the 1-d batch
`[numel * r]` — what torch gives for a tensor of the batch shape -/
theorem riPublic_none_coherent (r : Nat) (bs : Shape) (names : Names) (es : List (String × TD α))
    (hrank : 1 < bs.length) (hc : CoherentList bs es) :
    ∃ nm es', riPublic (r : Int) none bs names es = .ok (.node [prod bs * r] nm es') ∧ CoherentList [prod bs * r] es' := by
  have hne : [prod bs] ≠ bs := by
    intro h; have := congrArg List.length h; simp at this; omega
  have hm : opMeta (.reshape [-1]) bs names = .ok (some ([prod bs], none, .reshape [prod bs] bs.length)) := by
    simp [opMeta, viewMeta, inferSizeImpl_neg1, bind, Except.bind, pure, Except.pure, hne]
  have g : GoodCall (.reshape [prod bs] bs.length) bs [prod bs] := GoodCall.reshape [prod bs] bs (by simp [prod]) hne
  obtain ⟨nm1, es1, h1, hc1⟩ := shape_op_coherent_all.1 (.reshape [-1]) bs names es [prod bs] none _ hm g (by intro d sz h; cases h) hc
  obtain ⟨nm2, es2, h2, hc2⟩ := riNode_coh r 0 [prod bs] nm1 es1 (by simp) hc1
  have h0 : bs.length ≠ 0 := by omega
  refine ⟨nm2, es2, ?_, by simpa using hc2⟩
  simp only [riPublic, h0, if_false, hrank, if_true, h1]
  simpa using h2

/-- torch's `repeat_interleave(tensor, dim)` on a leaf commutes with the batch view -/
theorem repeat_interleave_list_leaf_commutes (t : T α) (n d : Nat) (rs : List Nat) (hd : d < n) (hn : n ≤ t.rank) :
    asBatch n (T.repeatInterleaveL rs d t) ≈ₜₜ T.repeatInterleaveL rs d (asBatch n t) := by
  unfold T.rank at hn
  have htk : (t.shape.set d rs.sum).take n = (t.shape.take n).set d rs.sum := by
    rw [List.take_set]
  have hdr : (t.shape.set d rs.sum).drop n = t.shape.drop n := by
    apply List.ext_getElem?; intro k
    simp [List.getElem?_drop, List.getElem?_set]; grind
  apply asBatch_eqv2
  · simp only [T.repeatInterleaveL, asBatch]; exact htk
  · intro c hc
    have hcl : c.length = n := by
      have := InB.length_eq hc
      simp only [T.repeatInterleaveL] at this; rw [htk] at this; simp at this; omega
    refine ⟨by simp only [T.repeatInterleaveL, asBatch]; exact hdr, ?_⟩
    intro f _
    simp only [T.repeatInterleaveL, asBatch]
    rw [modify_append_left c f d _ (by omega)]

mutual
/-- whole-tree `repeat_interleave(tensor of counts, dim)`: on a coherent tree, with one count per position of batch dim `d`, the op succeeds on
every entry at every depth and the result is coherent with the batch size whose dim `d` is the SUM of the counts -/
theorem riListNode_coh (rs : List Nat) (d : Nat) (bs : Shape) (names : Names) (es : List (String × TD α))
    (hd : d < bs.length) (hrs : rs.length = bs.getD d 0) (hc : CoherentList bs es) :
    ∃ nm es', riListNode rs (d : Int) bs names es = .ok (.node (bs.set d rs.sum) nm es') ∧ CoherentList (bs.set d rs.sum) es' := by
  obtain ⟨es', h1, h2⟩ := riListEntries_coh rs d bs es hd hrs hc
  refine ⟨normNames names, es', ?_, h2⟩
  rw [riListNode]
  have h0 : ((d : Int) ≥ 0) := by omega
  have hin2 : (0 ≤ (d : Int) ∧ (d : Int) < (bs.length : Nat)) := by omega
  simp [h0, hin2, h1, ← List.getD_eq_getElem?_getD, hrs]
termination_by (sizeOf es, 1)

theorem riListEntries_coh (rs : List Nat) (d : Nat) (bs : Shape) (es : List (String × TD α))
    (hd : d < bs.length) (hrs : rs.length = bs.getD d 0) (hc : CoherentList bs es) :
    ∃ es', riListEntries rs d es = .ok es' ∧ CoherentList (bs.set d rs.sum) es' := by
  match es, hc with
  | [], _ => exact ⟨[], by simp [riListEntries], by simp [CoherentList]⟩
  | (k, e) :: rest, hc =>
    simp only [CoherentList] at hc
    obtain ⟨e', he, hp, hce⟩ := riListEntry_coh rs d bs e hd hrs hc.1 hc.2.1
    obtain ⟨rest', hrest, hcr⟩ := riListEntries_coh rs d bs rest hd hrs hc.2.2
    refine ⟨(k, e') :: rest', ?_, ?_⟩
    · rw [riListEntries]; simp only [he, hrest]
    · simp only [CoherentList]; exact ⟨hp, hce, hcr⟩
termination_by (sizeOf es, 0)

theorem riListEntry_coh (rs : List Nat) (d : Nat) (bs : Shape) (e : TD α)
    (hd : d < bs.length) (hrs : rs.length = bs.getD d 0) (hp : PrefixOK bs e) (hc : Coherent e) :
    ∃ e', riListEntry rs d e = .ok e' ∧ PrefixOK (bs.set d rs.sum) e' ∧ Coherent e' := by
  match e, hp, hc with
  | .leaf t, hp, _ =>
    simp only [PrefixOK] at hp
    have hg : t.shape.getD d 0 = bs.getD d 0 := getD_of_take hp hd
    obtain ⟨ext, hext⟩ := prefix_split bs t.shape hp
    have hrank : d < t.rank := by unfold T.rank; rw [hext]; simp; omega
    refine ⟨.leaf (T.repeatInterleaveL rs d t), ?_, ?_, by simp [Coherent]⟩
    · rw [riListEntry]; simp [hrank, hg, hrs, ← List.getD_eq_getElem?_getD]
    · simp only [PrefixOK, T.repeatInterleaveL]
      exact set_take_prefix _ _ d _ hp hd
  | .node bs2 nm2 es2, hp, hc =>
    simp only [PrefixOK] at hp
    obtain ⟨ext, rfl⟩ := prefix_split bs bs2 hp
    simp only [Coherent] at hc
    have hg : (bs ++ ext).getD d 0 = bs.getD d 0 := by
      rw [List.getD_eq_getElem?_getD, List.getElem?_append_left hd, ← List.getD_eq_getElem?_getD]
    obtain ⟨nm, es', h1, h2⟩ := riListNode_coh rs d (bs ++ ext) nm2 es2 (by simp; omega) (by rw [hg]; exact hrs) hc
    rw [set_append_left bs ext d _ hd] at h1 h2
    refine ⟨.node (bs.set d rs.sum ++ ext) nm es', ?_, ?_, ?_⟩
    · rw [riListEntry]; exact h1
    · simp only [PrefixOK]; exact List.take_left' rfl
    · simp only [Coherent]; exact h2
termination_by (sizeOf e, 0)
end

/-- torch.stack on leaves commutes with the batch view: stacking the leaves along a batch dim is stacking their batch views
(every operand of shape `s`, `dim ≤ n ≤ rank`) -/
theorem stack_leaf_commutes [Inhabited α] (ts : List (T α)) (s : Shape) (n dim : Nat)
    (hs : ∀ t ∈ ts, t.shape = s) (hne : ts ≠ []) (hn : n ≤ s.length) (hd : dim ≤ n) :
    asBatch (n + 1) (T.stack ts dim) ≈ₜₜ T.stack (ts.map (asBatch n)) dim := by
  obtain ⟨t0, rest, rfl⟩ := List.exists_cons_of_ne_nil hne
  have h0 : t0.shape = s := hs t0 (by simp)
  have hL : (T.stack (t0 :: rest) dim).shape = s.insertIdx dim (rest.length + 1) := by simp [T.stack, h0]
  have hR : (T.stack ((t0 :: rest).map (asBatch n)) dim).shape = (s.take n).insertIdx dim (rest.length + 1) := by
    simp [T.stack, asBatch, h0]
  apply asBatch_eqv2
  · rw [hL, hR]; exact insertIdx_take s dim n _ hd hn
  · intro c hc
    have hc' : InB c ((s.take n).insertIdx dim (rest.length + 1)) := by
      rw [hL, insertIdx_take s dim n _ hd hn] at hc; exact hc
    have hcl : c.length = n + 1 := by
      have := InB.length_eq hc'
      rw [List.length_insertIdx_of_le_length (by simp; omega)] at this
      simp at this; omega
    -- the stack index is in range
    have hidx : c.getD dim 0 < rest.length + 1 := by
      have := InB.getD_lt hc' dim (by rw [List.length_insertIdx_of_le_length (by simp; omega)]; simp; omega)
      have hdl : dim ≤ (s.take n).length := by simp; omega
      have hg : ((s.take n).insertIdx dim (rest.length + 1)).getD dim 0 = rest.length + 1 := by
        rw [List.getD_eq_getElem?_getD, List.getElem?_insertIdx_self, if_pos hdl]; rfl
      rw [hg] at this; exact this
    have hget : (c ++ ([] : List Nat)).getD dim 0 = c.getD dim 0 := by simp
    obtain ⟨ti, hti⟩ : ∃ ti, (t0 :: rest)[c.getD dim 0]? = some ti := by
      rw [List.getElem?_eq_getElem (by simpa using hidx)]; exact ⟨_, rfl⟩
    have htis : ti.shape = s := hs ti (List.mem_of_getElem? hti)
    have hRget : (T.stack ((t0 :: rest).map (asBatch n)) dim).get c = (asBatch n ti).get (c.eraseIdx dim) := by
      simp only [T.stack]
      rw [List.getElem?_map, hti]; rfl
    refine ⟨?_, ?_⟩
    · rw [hL, hRget]
      simp only [asBatch, htis]
      exact insertIdx_drop s dim n _ hd hn
    · intro f _
      rw [hRget]
      simp only [T.stack, asBatch]
      have e1 : (c ++ f).getD dim 0 = c.getD dim 0 := by
        simp [List.getD_eq_getElem?_getD, List.getElem?_append_left (show dim < c.length by omega)]
      have e2 : (c ++ f).eraseIdx dim = c.eraseIdx dim ++ f := List.eraseIdx_append_of_lt_length (by omega) f
      rw [e1, e2, hti]; rfl


/-! ## whole trees: gather / masked_select / stack -/

/-- masked_select on a whole coherent tree: when the call is accepted, every entry of the result — tensor leaves and nested
tensordicts, at every depth — carries the new batch size `[count] ++ bs.drop k` as a prefix (feature dims / deeper batch dims untouched) -/
theorem masked_select_coherent_all (mask : T Bool) :
    (∀ (bs : Shape) (names : Names) (es : List (String × TD α)), CoherentList bs es →
        ∀ r, mselNode mask bs names es = .ok r →
          ∃ nm es', r = .node ((T.maskSel mask).length :: bs.drop mask.shape.length) nm es' ∧
            CoherentList ((T.maskSel mask).length :: bs.drop mask.shape.length) es') ∧
    (∀ (es : List (String × TD α)), ∀ bs, mask.shape.length ≤ bs.length → CoherentList bs es →
        ∀ es', mselEntries mask es = .ok es' → CoherentList ((T.maskSel mask).length :: bs.drop mask.shape.length) es') ∧
    (∀ (e : TD α), ∀ bs, mask.shape.length ≤ bs.length → PrefixOK bs e → Coherent e →
        ∀ e', mselEntry mask e = .ok e' → PrefixOK ((T.maskSel mask).length :: bs.drop mask.shape.length) e' ∧ Coherent e') := by
  apply mselNode.mutual_induct (α := α) mask
    (motive1 := fun bs names es => CoherentList bs es →
        ∀ r, mselNode mask bs names es = .ok r →
          ∃ nm es', r = .node ((T.maskSel mask).length :: bs.drop mask.shape.length) nm es' ∧
            CoherentList ((T.maskSel mask).length :: bs.drop mask.shape.length) es')
    (motive2 := fun es => ∀ bs, mask.shape.length ≤ bs.length → CoherentList bs es →
        ∀ es', mselEntries mask es = .ok es' → CoherentList ((T.maskSel mask).length :: bs.drop mask.shape.length) es')
    (motive3 := fun e => ∀ bs, mask.shape.length ≤ bs.length → PrefixOK bs e → Coherent e →
        ∀ e', mselEntry mask e = .ok e' → PrefixOK ((T.maskSel mask).length :: bs.drop mask.shape.length) e' ∧ Coherent e')
  · intro bs names es h1 _ r h; unfold mselNode at h; simp [h1] at h
  · intro bs names es h1 h2 _ r h; unfold mselNode at h; simp [h1, h2] at h
  · intro bs names es h1 h2 e he _ _ r h; unfold mselNode at h; simp [h1, h2, he] at h
  · intro bs names es h1 h2 es' he ih hc r h
    unfold mselNode at h
    simp only [h1, h2, he, if_false] at h
    simp only [Except.ok.injEq] at h
    exact ⟨_, es', h.symm, ih bs (by omega) hc es' he⟩
  · intro bs _ _ es' h; simp [mselEntries] at h; subst h; simp [CoherentList]
  · intro k e rest err he _ bs _ _ es' h; unfold mselEntries at h; simp [he] at h
  · intro k e rest e' he e1 hr _ _ bs _ _ es' h; unfold mselEntries at h; simp [he, hr] at h
  · intro k e rest e' he es'' hr ih3 ih2 bs hk hc es' h
    unfold mselEntries at h
    simp only [he, hr, Except.ok.injEq] at h
    subst h
    simp only [CoherentList] at hc ⊢
    obtain ⟨hp, hce⟩ := ih3 bs hk hc.1 hc.2.1 e' he
    exact ⟨hp, hce, ih2 bs hk hc.2.2 es'' hr⟩
  · intro t ht bs _ _ _ e' h; unfold mselEntry at h; simp [ht] at h
  · intro t ht bs hk hp _ e' h
    unfold mselEntry at h
    simp only [ht, if_false, Except.ok.injEq] at h
    subst h
    refine ⟨?_, by simp [Coherent]⟩
    simp only [PrefixOK, T.maskedSelect] at hp ⊢
    simp only [List.length_cons, List.length_drop]
    rw [show bs.length - mask.shape.length + 1 = (bs.length - mask.shape.length) + 1 from rfl, List.take_succ_cons,
      take_drop_comm _ _ _ hk, hp]
  · intro bs2 nm2 es2 ht bs _ _ _ e' h; unfold mselEntry at h; simp [ht] at h
  · intro bs2 nm2 es2 ht ih bs hk hp hc e' h
    unfold mselEntry at h
    simp only [ht, if_false] at h
    simp only [Coherent] at hc
    obtain ⟨nm, es', hr, hc'⟩ := ih hc e' h
    subst hr
    refine ⟨?_, by simpa [Coherent] using hc'⟩
    simp only [PrefixOK] at hp ⊢
    simp only [List.length_cons, List.length_drop]
    rw [show bs.length - mask.shape.length + 1 = (bs.length - mask.shape.length) + 1 from rfl, List.take_succ_cons,
      take_drop_comm _ _ _ hk, hp]


/-- gather on a whole coherent tree (index of the batch rank): when the call is accepted every entry of the result, at every depth,
carries the new batch size — the index's shape — as a prefix -/
theorem gather_coherent_all :
    (∀ (d : Int) (index : T Nat) (bs : Shape) (names : Names) (es : List (String × TD α)),
        index.shape.length = bs.length → CoherentList bs es → ∀ r, gatherNode d index bs names es = .ok r →
          ∃ nm es', r = .node index.shape nm es' ∧ CoherentList index.shape es') ∧
    (∀ (dim : Nat) (index : T Nat) (es : List (String × TD α)), ∀ bs, dim < bs.length →
        index.shape = bs.set dim (index.shape.getD dim 0) → CoherentList bs es →
        ∀ es', gatherEntries dim index es = .ok es' → CoherentList index.shape es') ∧
    (∀ (dim : Nat) (index : T Nat) (e : TD α), ∀ bs, dim < bs.length →
        index.shape = bs.set dim (index.shape.getD dim 0) → PrefixOK bs e → Coherent e →
        ∀ e', gatherEntry dim index e = .ok e' → PrefixOK index.shape e' ∧ Coherent e') := by
  apply gatherNode.mutual_induct (α := α)
    (motive1 := fun d index bs names es => index.shape.length = bs.length → CoherentList bs es →
        ∀ r, gatherNode d index bs names es = .ok r → ∃ nm es', r = .node index.shape nm es' ∧ CoherentList index.shape es')
    (motive2 := fun dim index es => ∀ bs, dim < bs.length →
        index.shape = bs.set dim (index.shape.getD dim 0) → CoherentList bs es →
        ∀ es', gatherEntries dim index es = .ok es' → CoherentList index.shape es')
    (motive3 := fun dim index e => ∀ bs, dim < bs.length →
        index.shape = bs.set dim (index.shape.getD dim 0) → PrefixOK bs e → Coherent e →
        ∀ e', gatherEntry dim index e = .ok e' → PrefixOK index.shape e' ∧ Coherent e')
  · intro d index bs names es hs _ _ r h; unfold gatherNode at h; simp [hs] at h
  · intro d index bs names es tail hs _ _ r h; unfold gatherNode at h; simp [hs] at h
  · intro d index bs names es s0 tail hs h0 dim hd _ _ r h
    unfold gatherNode at h; simp only [hs, h0, if_false] at h
    have hh : (if d < 0 then (bs.length : Int) + d else d) = dim := by simp [dim]
    rw [hh] at h
    rw [if_pos hd] at h; cases h
  · intro d index bs names es s0 tail hs h0 dim hd hany _ _ r h
    unfold gatherNode at h; simp only [hs, h0, if_false] at h
    have hh : (if d < 0 then (bs.length : Int) + d else d) = dim := by simp [dim]
    rw [hh] at h
    rw [if_neg hd] at h
    rw [hs] at hany
    rw [if_pos hany] at h; cases h
  · intro d index bs names es s0 tail hs h0 dim hd hany e he _ _ _ r h
    unfold gatherNode at h; simp only [hs, h0, if_false] at h
    have hh : (if d < 0 then (bs.length : Int) + d else d) = dim := by simp [dim]
    rw [hh] at h
    rw [if_neg hd] at h
    rw [hs] at hany
    rw [if_neg hany] at h
    simp only [he] at h; cases h
  · intro d index bs names es s0 tail hs h0 dim hd hany es' he ih hl hc r h
    unfold gatherNode at h; simp only [hs, h0, if_false] at h
    have hh : (if d < 0 then (bs.length : Int) + d else d) = dim := by simp [dim]
    rw [hh] at h
    rw [if_neg hd] at h
    have hany' := hany
    rw [hs] at hany'
    rw [if_neg hany'] at h
    simp only [he, Except.ok.injEq] at h
    have hdl : dim.toNat < bs.length := by
      have : ¬ (dim > (bs.length : Int) - 1 ∨ dim < 0) := hd
      omega
    have hshape := index_shape_of_check index.shape bs dim.toNat hl hany
    refine ⟨(if (s0 :: tail).length = bs.length then normNames names else none), es', ?_, ih bs hdl hshape hc es' he⟩
    rw [← h, hs]
  · intro dim index bs _ _ _ es' h; simp [gatherEntries] at h; subst h; simp [CoherentList]
  · intro dim index k e rest err he _ bs _ _ _ es' h; unfold gatherEntries at h; simp [he] at h
  · intro dim index k e rest e' he e1 hr _ _ bs _ _ _ es' h; unfold gatherEntries at h; simp [he, hr] at h
  · intro dim index k e rest e' he es'' hr ih3 ih2 bs hd hsh hc es' h
    unfold gatherEntries at h
    simp only [he, hr, Except.ok.injEq] at h
    subst h
    simp only [CoherentList] at hc ⊢
    obtain ⟨hp, hce⟩ := ih3 bs hd hsh hc.1 hc.2.1 e' he
    exact ⟨hp, hce, ih2 bs hd hsh hc.2.2 es'' hr⟩
  · intro dim index t ht bs _ _ _ _ e' h; unfold gatherEntry at h; simp [ht] at h
  · intro dim index t ht a ha bs _ _ _ _ e' h; unfold gatherEntry at h; simp [ht, ha] at h
  · intro dim index t ht t1 hg bs hd hsh hp _ e' h
    unfold gatherEntry at h
    simp only [ht, if_false, hg, Except.ok.injEq] at h
    subst h
    refine ⟨?_, by simp [Coherent]⟩
    -- the result has the expanded index's shape
    have hsh1 : t1.shape = (indexExpand index t.shape dim).shape := by
      unfold Torch.gather at hg
      repeat' split at hg
      all_goals first | (cases hg; done) | (simp only [Except.ok.injEq] at hg; rw [← hg]; rfl)
    simp only [PrefixOK] at hp ⊢
    rw [hsh1]
    simp only [indexExpand]
    have hil : index.shape.length = bs.length := by rw [hsh]; simp
    rw [hil, List.take_set, hp]; exact hsh.symm
  · intro dim index bs2 nm2 es2 ht bs _ _ _ _ e' h; unfold gatherEntry at h; simp [ht] at h
  · intro dim index bs2 nm2 es2 ht ih bs hd hsh hp hc e' h
    unfold gatherEntry at h
    simp only [ht, if_false] at h
    simp only [Coherent] at hc
    obtain ⟨nm, es', hr, hc'⟩ := ih (by simp [indexExpand]) hc e' h
    subst hr
    refine ⟨?_, by simpa [Coherent] using hc'⟩
    simp only [PrefixOK] at hp ⊢
    simp only [indexExpand]
    have hil : index.shape.length = bs.length := by rw [hsh]; simp
    rw [hil, List.take_set, hp]; exact hsh.symm


mutual
/-- torch.stack on whole coherent trees (proved by the same mutual recursion as `stackLevel` / `stackEntries` / `stackEntry`): when the call is
accepted, every entry of the result, at every depth, carries the new batch size `bs.insertIdx dim k` as a prefix — tensor leaves are the
stack of the operands' leaves, nested tensordicts are stacked by the same function -/
theorem stackLevel_coh [Inhabited α] (dim : Nat) (bs : Shape) (names : Names) (first : List (String × TD α))
    (others : List (Shape × List (String × TD α))) (hc : CoherentList bs first) (r : TD α)
    (h : stackLevel dim bs names first others = .ok r) :
    ∃ nm es', r = .node (bs.insertIdx dim (others.length + 1)) nm es' ∧
      CoherentList (bs.insertIdx dim (others.length + 1)) es' := by
  unfold stackLevel at h
  by_cases h1 : dim > bs.length
  · rw [if_pos h1] at h; cases h
  rw [if_neg h1] at h
  by_cases h2 : others.any (fun o => o.1 ≠ bs) = true
  · rw [if_pos h2] at h; cases h
  rw [if_neg h2] at h
  by_cases h3 : ¬ sameKeySets first (others.map (·.2)) = true
  · rw [if_pos h3] at h; cases h
  rw [if_neg h3] at h
  cases he : stackEntries dim first (others.map (·.2)) with
  | error e => simp [he] at h
  | ok es' =>
    simp only [he, Except.ok.injEq] at h
    have hfound : ∀ k ∈ first.map (·.1), ((others.map (·.2)).filterMap (lookupEntry k)).length = (others.map (·.2)).length :=
      fun k hk => filterMap_lookup_length first _ (by simpa using h3) k hk
    have := stackEntries_coh dim first (others.map (·.2)) bs (by omega) hc hfound es' he
    simp only [List.length_map] at this
    exact ⟨_, es', h.symm, this⟩
termination_by (sizeOf first, 1)

theorem stackEntries_coh [Inhabited α] (dim : Nat) (es : List (String × TD α)) (others : List (List (String × TD α)))
    (bs : Shape) (hd : dim ≤ bs.length) (hc : CoherentList bs es)
    (hfound : ∀ k ∈ es.map (·.1), (others.filterMap (lookupEntry k)).length = others.length)
    (es' : List (String × TD α)) (h : stackEntries dim es others = .ok es') :
    CoherentList (bs.insertIdx dim (others.length + 1)) es' := by
  match es with
  | [] => simp [stackEntries] at h; subst h; simp [CoherentList]
  | (k, e) :: rest =>
    unfold stackEntries at h
    cases he : stackEntry dim e (others.filterMap (lookupEntry k)) with
    | error err => simp [he] at h
    | ok e' =>
      cases hr : stackEntries dim rest others with
      | error err => simp [he, hr] at h
      | ok rest' =>
        simp only [he, hr, Except.ok.injEq] at h
        subst h
        simp only [CoherentList] at hc ⊢
        have hl := hfound k (by simp)
        obtain ⟨hp, hce⟩ := stackEntry_coh dim e (others.filterMap (lookupEntry k)) bs hd hc.1 hc.2.1 e' he
        rw [hl] at hp
        exact ⟨hp, hce, stackEntries_coh dim rest others bs hd hc.2.2 (fun k' hk' => hfound k' (by simp [hk'])) rest' hr⟩
termination_by (sizeOf es, 0)

theorem stackEntry_coh [Inhabited α] (dim : Nat) (e : TD α) (vals : List (TD α)) (bs : Shape) (hd : dim ≤ bs.length)
    (hp : PrefixOK bs e) (hc : Coherent e) (e' : TD α) (h : stackEntry dim e vals = .ok e') :
    PrefixOK (bs.insertIdx dim (vals.length + 1)) e' ∧ Coherent e' := by
  match e with
  | .leaf t =>
    unfold stackEntry at h
    cases hm : vals.mapM asLeaf with
    | none => simp [hm] at h
    | some ts =>
      simp only [hm] at h
      by_cases ha : ts.any (fun u => u.shape ≠ t.shape) = true
      · rw [if_pos ha] at h; cases h
      rw [if_neg ha] at h
      simp only [Except.ok.injEq] at h
      subst h
      refine ⟨?_, by simp [Coherent]⟩
      have htl := mapM_asLeaf_shapes vals ts hm
      simp only [PrefixOK] at hp ⊢
      have hn : bs.length ≤ t.shape.length := by
        have := congrArg List.length hp; simp at this; omega
      have hlen : (bs.insertIdx dim (vals.length + 1)).length = bs.length + 1 := List.length_insertIdx_of_le_length hd _
      simp only [T.stack, List.head?_cons, Option.map_some, Option.getD_some, List.length_cons, htl]
      rw [hlen, insertIdx_take _ _ _ _ hd hn, hp]
  | .node bs2 nm2 es2 =>
    unfold stackEntry at h
    split at h
    · cases h
    · rename_i os hm
      simp only [Coherent] at hc
      obtain ⟨nm, es', hr, hc'⟩ := stackLevel_coh dim bs2 nm2 es2 os hc e' h
      subst hr
      have hol := length_mapM_option _ _ _ hm
      refine ⟨?_, by simpa [Coherent] using hc'⟩
      simp only [PrefixOK] at hp ⊢
      have hn : bs.length ≤ bs2.length := by
        have := congrArg List.length hp; simp at this; omega
      have hlen : (bs.insertIdx dim (vals.length + 1)).length = bs.length + 1 := List.length_insertIdx_of_le_length hd _
      rw [hlen, hol, insertIdx_take _ _ _ _ hd hn, hp]
termination_by (sizeOf e, 0)
end


mutual
/-- torch.cat on whole coherent trees (same mutual recursion as `catLevel` / `catEntries` / `catEntry`): when the call is accepted and the
operands are coherent, every entry of the result, at every depth, carries the new batch size (`bs` with the sizes along `dim` added up) as a
prefix — the leaves found in the operands have, along `dim`, exactly the operands' batch sizes, so leaf sizes and batch size add up alike -/
theorem catLevel_coh [Inhabited α] (d : Int) (bs : Shape) (names : Names) (first : List (String × TD α))
    (others : List (Shape × List (String × TD α))) (hc : CoherentList bs first)
    (ho : OpsOK (others.map (·.1)) (others.map (·.2))) (r : TD α) (h : catLevel d bs names first others = .ok r) :
    ∃ i nm es', normDim bs.length d = some i ∧
      r = .node (bs.set i (bs.getD i 0 + (others.map (fun o => o.1.getD i 0)).sum)) nm es' ∧
      CoherentList (bs.set i (bs.getD i 0 + (others.map (fun o => o.1.getD i 0)).sum)) es' := by
  unfold catLevel at h
  simp only [] at h
  generalize hdim : (if d < 0 then (bs.length : Int) + d else d) = dim at h
  by_cases h1 : dim < 0 ∨ dim ≥ bs.length
  · rw [if_pos h1] at h; cases h
  rw [if_neg h1] at h
  by_cases h2 : others.any (fun o => o.1.length ≤ dim.toNat) = true
  · rw [if_pos h2] at h; cases h
  rw [if_neg h2] at h
  by_cases h3 : ¬ sameKeySets first (others.map (·.2)) = true
  · rw [if_pos h3] at h; cases h
  rw [if_neg h3] at h
  cases he : catEntries dim.toNat first (others.map (·.2)) with
  | error e => simp [he] at h
  | ok es' =>
    simp only [he, Except.ok.injEq] at h
    have hdl : dim.toNat < bs.length := by omega
    have hfound : ∀ k ∈ first.map (·.1), ((others.map (·.2)).filterMap (lookupEntry k)).length = (others.map (·.2)).length :=
      fun k hk => filterMap_lookup_length first _ (by simpa using h3) k hk
    have hdims : ∀ b ∈ others.map (·.1), dim.toNat < b.length := by
      intro b hb
      obtain ⟨o, hoo, rfl⟩ := List.mem_map.1 hb
      simp only [List.any_eq_true, decide_eq_true_eq, not_exists, not_and] at h2
      have := h2 o hoo; omega
    have := catEntries_coh dim.toNat first (others.map (·.2)) bs (others.map (·.1)) hdl hc ho hdims hfound es' he
    simp only [List.map_map, Function.comp_def] at this
    refine ⟨dim.toNat, names, es', ?_, h.symm, this⟩
    unfold normDim; grind
termination_by (sizeOf first, 1)

theorem catEntries_coh [Inhabited α] (dim : Nat) (es : List (String × TD α)) (others : List (List (String × TD α)))
    (bs : Shape) (obs : List Shape) (hd : dim < bs.length) (hc : CoherentList bs es) (hops : OpsOK obs others)
    (hdims : ∀ b ∈ obs, dim < b.length)
    (hfound : ∀ k ∈ es.map (·.1), (others.filterMap (lookupEntry k)).length = others.length)
    (es' : List (String × TD α)) (h : catEntries dim es others = .ok es') :
    CoherentList (bs.set dim (bs.getD dim 0 + (obs.map (·.getD dim 0)).sum)) es' := by
  match es with
  | [] => simp [catEntries] at h; subst h; simp [CoherentList]
  | (k, e) :: rest =>
    unfold catEntries at h
    cases he : catEntry dim e (others.filterMap (lookupEntry k)) with
    | error err => simp [he] at h
    | ok e' =>
      cases hr : catEntries dim rest others with
      | error err => simp [he, hr] at h
      | ok rest' =>
        simp only [he, hr, Except.ok.injEq] at h
        subst h
        simp only [CoherentList] at hc ⊢
        have hv := filterMap_lookup_vals k dim others obs hops hdims (hfound k (by simp))
        obtain ⟨hp, hce⟩ := catEntry_coh dim e (others.filterMap (lookupEntry k)) bs obs hd hc.1 hc.2.1 hv e' he
        exact ⟨hp, hce, catEntries_coh dim rest others bs obs hd hc.2.2 hops hdims (fun k' hk' => hfound k' (by simp [hk'])) rest' hr⟩
termination_by (sizeOf es, 0)

theorem catEntry_coh [Inhabited α] (dim : Nat) (e : TD α) (vals : List (TD α)) (bs : Shape) (obs : List Shape)
    (hd : dim < bs.length) (hp : PrefixOK bs e) (hc : Coherent e) (hv : ValsOK dim obs vals) (e' : TD α)
    (h : catEntry dim e vals = .ok e') :
    PrefixOK (bs.set dim (bs.getD dim 0 + (obs.map (·.getD dim 0)).sum)) e' ∧ Coherent e' := by
  match e with
  | .leaf t =>
    unfold catEntry at h
    cases hm : vals.mapM asLeaf with
    | none => simp [hm] at h
    | some ts =>
      simp only [hm] at h
      split at h
      · cases h
      · simp only [Except.ok.injEq] at h
        subst h
        refine ⟨?_, by simp [Coherent]⟩
        simp only [PrefixOK] at hp ⊢
        have hsum := leaf_sizes_sum dim vals ts obs hm hv
        have hg := getD_of_take hp hd
        simp only [T.cat, List.head?_cons, Option.map_some, Option.getD_some, List.map_cons, List.sum_cons, List.length_set]
        rw [List.take_set, hp, hsum, hg]
  | .node bs2 nm2 es2 =>
    unfold catEntry at h
    split at h
    · cases h
    · rename_i os hm
      have hm' : vals.mapM nodeView = some os := by
        rw [← hm]; congr 1
      obtain ⟨hs, hops, hdims⟩ := nested_sizes_sum dim vals os obs hm' hv
      simp only [Coherent] at hc
      obtain ⟨i, nm, es', hi, hr, hc'⟩ := catLevel_coh (dim : Int) bs2 nm2 es2 os hc hops e' h
      simp only [PrefixOK] at hp ⊢
      have hn : bs.length ≤ bs2.length := by have := congrArg List.length hp; simp at this; omega
      have hii : i = dim := by
        have := normDim_ofNat (show dim < bs2.length by omega)
        rw [this] at hi; exact (Option.some.inj hi).symm
      subst hii
      subst hr
      refine ⟨?_, by simpa [Coherent] using hc'⟩
      have hg := getD_of_take hp hd
      simp only [List.length_set]
      rw [List.take_set, hp, hs, hg]
termination_by (sizeOf e, 0)
end


/-- `expand` on whole trees: every target shape the arithmetic accepts (incl. `-1` entries and new leading dims) is carried out on EVERY
entry of a coherent tree — leaves through torch's expand with their feature dims appended, nested tensordicts through the same method
with their extra batch dims appended — and the result is coherent w.r.t. the expanded batch size -/
theorem expand_coherent (shape : List Int) (bs bs' : Shape) (names nm' : Names) (call : LeafCall) (es : List (String × TD α))
    (h : opMeta (.expand shape) bs names = .ok (some (bs', nm', call))) (hc : CoherentList bs es) :
    ∃ nm es', tdNode (.expand shape) bs names es = .ok (.node bs' nm es') ∧ CoherentList bs' es' :=
  shape_op_coherent_all.1 (.expand shape) bs names es bs' nm' call h (goodCall_of_meta_expand shape bs bs' names nm' call h)
    (fun d sz hne => by cases hne) hc


/-! ## whole trees: squeeze() -/

/-- `squeeze()` (no dim) on a whole coherent tree — the chain `_squeeze` applies to a nested tensordict, at every depth: when the call goes
through, every entry of the result carries the squeezed batch size (`eraseDims bs ds`: the positions `ds` erased) as a prefix; tensor leaves
are viewed, nested tensordicts are squeezed at the same positions, their own extra dims untouched -/
theorem squeezeAll_coherent_all (ds : List Nat) :
    (∀ (op : Op) (bs : Shape) (names : Names) (es : List (String × TD α)), True) ∧
    (∀ (call : LeafCall) (es : List (String × TD α)), ∀ B sh n, call = .squeezeDims ds sh n → sh = eraseDims B ds → n = B.length →
        (∀ d ∈ ds, d < B.length) → CoherentList B es → ∀ es', mapEntries call es = .ok es' → CoherentList (eraseDims B ds) es') ∧
    (∀ (call : LeafCall) (e : TD α), ∀ B sh n, call = .squeezeDims ds sh n → sh = eraseDims B ds → n = B.length →
        (∀ d ∈ ds, d < B.length) → PrefixOK B e → Coherent e → ∀ e', applyEntry call e = .ok e' →
        PrefixOK (eraseDims B ds) e' ∧ Coherent e') := by
  apply tdNode.mutual_induct (α := α)
    (motive1 := fun _ _ _ _ => True)
    (motive2 := fun call es => ∀ B sh n, call = .squeezeDims ds sh n → sh = eraseDims B ds → n = B.length →
        (∀ d ∈ ds, d < B.length) → CoherentList B es → ∀ es', mapEntries call es = .ok es' → CoherentList (eraseDims B ds) es')
    (motive3 := fun call e => ∀ B sh n, call = .squeezeDims ds sh n → sh = eraseDims B ds → n = B.length →
        (∀ d ∈ ds, d < B.length) → PrefixOK B e → Coherent e → ∀ e', applyEntry call e = .ok e' →
        PrefixOK (eraseDims B ds) e' ∧ Coherent e')
  · intros; trivial
  · intro call B sh n _ _ _ _ _ es' h
    simp [mapEntries, pure, Except.pure] at h; subst h; simp [CoherentList]
  · intro call k e rest ih3 ih2 B sh n hc hsh hn hds hco es' h
    simp only [mapEntries, bind, Except.bind] at h
    split at h
    · cases h
    · rename_i e' he
      split at h
      · cases h
      · rename_i rest' hr
        simp only [pure, Except.pure, Except.ok.injEq] at h
        subst h
        simp only [CoherentList] at hco ⊢
        obtain ⟨hp, hce⟩ := ih3 B sh n hc hsh hn hds hco.1 hco.2.1 e' he
        exact ⟨hp, hce, ih2 B sh n hc hsh hn hds hco.2.2 rest' hr⟩
  · intro call t B sh n hc hsh hn hds hp _ e' h
    subst hc
    simp only [applyEntry, applyLeaf, Except.map] at h
    split at h
    · cases h
    · rename_i t' ht
      simp only [Except.ok.injEq] at h
      subst h
      refine ⟨?_, by simp [Coherent]⟩
      -- torch.reshape to `sh ++ t.shape.drop n`: on success the result has that shape
      have hshape : t'.shape = sh ++ t.shape.drop n := by
        unfold Torch.reshape at ht
        split at ht
        · cases ht
        · rename_i s' hs'
          simp only [Except.ok.injEq] at ht
          rw [← ht]
          exact inferSize_ofNats_some _ _ _ hs'
      simp only [PrefixOK]
      rw [hshape, ← hsh, List.take_left']
      rfl
  · intro bs2 nm2 es2 ds' shape n' bs1 ih B sh n hc hsh hn hds hp hco e' h
    have hds' : ds' = ds := by cases hc; rfl
    subst hds'
    rw [applyEntry_node_squeezeDims] at h
    split at h
    · cases h
    · rename_i es' hes
      simp only [Except.ok.injEq] at h
      subst h
      simp only [PrefixOK] at hp
      obtain ⟨ext, rfl⟩ := prefix_split B bs2 hp
      simp only [Coherent] at hco
      have hds2 : ∀ d ∈ ds', d < (B ++ ext).length := fun d hd => by have := hds d hd; simp; omega
      have hc' := ih (B ++ ext) (eraseDims (B ++ ext) ds') (B ++ ext).length rfl rfl rfl hds2 hco es' hes
      refine ⟨?_, by simpa [Coherent] using hc'⟩
      simp only [PrefixOK]
      rw [eraseDims_append B ext ds' hds]
      exact List.take_left' rfl
  · intro call bs names es hns _ B sh n hc _ _ _ _ _ e' _
    exact absurd hc (fun e => hns _ _ _ e)


/-- **`td.squeeze()` on a coherent tree** (every entry carries its parent's batch size as a prefix, at every depth): when the call goes
through, the result has batch size `bs` without its size-1 dims and is coherent again; nothing happens when there is no size-1 dim -/
theorem squeezeAll_coherent (bs : Shape) (names : Names) (es : List (String × TD α)) (r : TD α)
    (hc : CoherentList bs es) (h : tdNode (.squeeze none) bs names es = .ok r) :
    (bs.filter (· ≠ 1) = bs ∧ r = .node bs names es) ∨
    ∃ nm es', r = .node (bs.filter (· ≠ 1)) nm es' ∧ CoherentList (bs.filter (· ≠ 1)) es' := by
  unfold tdNode at h
  simp only [opMeta, squeezeMeta, bind, Except.bind] at h
  by_cases hb : bs.filter (· ≠ 1) = bs
  · left
    simp only [hb, if_true, pure, Except.pure, Except.ok.injEq] at h
    exact ⟨hb, h.symm⟩
  · right
    simp only [hb, if_false] at h
    split at h
    · cases h
    · rename_i es' hes
      simp only [pure, Except.pure, Except.ok.injEq] at h
      have hds : ∀ d ∈ (List.range bs.length).filter (fun i => bs.getD i 0 = 1), d < bs.length := by
        intro d hd; simpa using (List.mem_filter.1 hd).1
      have := (squeezeAll_coherent_all (α := α) ((List.range bs.length).filter fun i => bs.getD i 0 = 1)).2.1
        _ es bs _ _ rfl (eraseDims_ones bs).symm rfl hds hc es' hes
      rw [eraseDims_ones] at this
      exact ⟨_, es', h.symm, this⟩


/-! ## non-vacuity: the hypotheses are satisfiable by concrete, non-trivial values, and the models compute -/

example : [1, 0].Perm (List.range 2) := by decide
example : (applyLeaf (.permute [1, 0]) (arange [2, 3, 2])).toOption.map (·.toList)
    = some [0, 1, 6, 7, 2, 3, 8, 9, 4, 5, 10, 11] := by decide
example : (asBatch 2 (arange [2, 3, 2])).shape = [2, 3] ∧ ((asBatch 2 (arange [2, 3, 2])).get [1, 2]).toList = [10, 11] := by decide
example : resShape [2, 3] (permuteMeta [-1, 0] [2, 3] none) = some [3, 2] := by
  simp [permuteMeta, resShape, List.mergeSort, List.range, List.range.loop]
example : resShape [2, 1, 3] (squeezeMeta (some (-2)) [2, 1, 3] none) = some [2, 3] := by decide
example : resShape [2, 3, 4] (flattenMeta 0 (-2) [2, 3, 4] (some [some "a", some "b", none])) = some [6, 4] := by decide
example : resNames none (flattenMeta 0 (-2) [2, 3, 4] (some [some "a", some "b", some "c"])) = some (some [none, some "c"]) := by decide
example : (splitPieces 3 7).toOption = some [(0, 3), (3, 3), (6, 1)] := by decide
example : (splitListPieces [3, 3] 4).toOption = some [(0, 3), (3, 1)] := by decide   -- the oversize list the code still accepts
example : resShape [2, 3] (flattenMeta 1 1 [2, 3] none) = none := by decide          -- documented stricter rejection
example : resShape [] (transposeMeta 0 0 [] none) = none := by decide           -- 0-d batch: torch wraps dims, tensordict rejects
-- cat ∘ split on a concrete tensor (with an empty piece): hypotheses of `cat_split` are met and the model computes
example : T.cat ((arange [4, 2]).splitWithSizes [1, 0, 3] 0) 0 ≈ₜ arange [4, 2] :=
  cat_split _ _ _ (by decide) (by decide) (by decide)
example : ((T.cat ((arange [4, 2]).splitWithSizes [1, 0, 3] 0) 0).toList) = [0, 1, 2, 3, 4, 5, 6, 7] := by decide

-- the hypotheses of `unflatten_coherent` are met: a named, nested tree; `unflatten(-1, (3, -1))` of batch [2, 6] resolves to dim 1, sizes [3, 2]
example : NamesOK (some [some "a", none]) 2 ∧
    NamedList [("x", (TD.leaf ⟨[2, 6, 5], fun _ => (0 : Nat)⟩)), ("n", TD.node [2, 6, 1] (some [some "a", some "b", none]) [])] ∧
    CoherentList [2, 6] [("x", (TD.leaf ⟨[2, 6, 5], fun _ => (0 : Nat)⟩)), ("n", TD.node [2, 6, 1] (some [some "a", some "b", none]) [])] := by
  refine ⟨by simp [NamesOK], by simp [NamedList, Named, NamesOK], by simp [CoherentList, PrefixOK, Coherent]⟩
example : (opMeta (.unflatten (-1) [3, -1]) [2, 6] (some [some "a", none])).toOption.map (fun r => r.map (fun x => (x.1, x.2.1))) =
    some (some ([2, 3, 2], some [some "a", none, none])) := by decide
end TdVerif.Props.C02
